//go:build hnode || hall

package main

// Rules layer of the node-history engine (C13): single-rule mutants of valid blocks at
// random positions of random chains — context-free rules (height, parent, timestamp window,
// proposer signature for the slot, merkle root, transaction validity, coinbase shape and
// amounts) and context rules (missing / already spent / immature coinbase / locked vote
// outputs, in-block and cross-block double spends) — delivered to the real node.

import (
	"fmt"
	"strings"
	"time"

	"github.com/bytom/bytom/consensus"
	"github.com/bytom/bytom/protocol/bc"
	"github.com/bytom/bytom/protocol/bc/types"
)

var contextFreeMutants = []string{"height", "parent", "ts-early", "ts-before-parent", "ts-future", "sig-wrong-slot", "sig-garbage",
	"merkle", "tx-unbalanced", "coinbase-amount", "coinbase-missing", "coinbase-not-first", "coinbase-extra-output", "coinbase-wrong-reward", "coinbase-old-epoch-table"}
var contextMutants = []string{"spend-missing", "double-spend-cross", "double-spend-inblock", "immature-coinbase", "locked-vote", "double-spend-parent"}

// defMutant builds a child of `parent` that violates exactly one rule. Returns "" when the
// mutation is not applicable at this position.
func (nc *nodeCase) defMutant(parent, kind string) string {
	rng := nc.c.Rng
	p := nc.nm.blocks[parent]
	ph := p.Hash()
	nc.env.useOutsiderKey()
	ck, err := nc.ref.chain.PrevCheckpointByPrevHash(&ph)
	nc.env.useLocalKey()
	if err != nil {
		return ""
	}
	nVal := len(nc.env.keys)
	height := p.Height + 1
	ts := p.Timestamp + nodeInterval
	rewards := ck.Rewards
	var txInfos []*txInfo
	bv := nc.branchView(parent)
	avail := nc.spendable(bv, height)
	bad := ""
	future := false
	// ---- transactions
	cb := coinbaseTx(height, byte(3+rng.Intn(200)), rewards, nc.env.E)
	txs := []*types.Tx{cb}
	pickSpend := func(in string) *txInfo {
		o := nc.ln.outs[in]
		if o.amount <= ledgerFee+1 {
			return nil
		}
		return nc.ln.buildTx([]string{in}, []outSpec{{'n', o.amount - ledgerFee}}, 0)
	}
	switch kind {
	case "tx-unbalanced":
		if len(avail) == 0 {
			return ""
		}
		o := nc.ln.outs[avail[0]]
		ti := nc.ln.buildTx([]string{avail[0]}, []outSpec{{'n', o.amount + 5}}, 0) // creates money
		txInfos = append(txInfos, ti)
		bad = "tx"
	case "coinbase-amount":
		if height%nc.env.E == 1 {
			return ""
		}
		cb = coinbaseTxAmounts(height, byte(rng.Intn(200)), []uint64{1})
		txs[0] = cb
		bad = "coinbase"
	case "coinbase-extra-output":
		if height%nc.env.E == 1 {
			return ""
		}
		cb = coinbaseTxAmounts(height, byte(rng.Intn(200)), []uint64{0, 0})
		txs[0] = cb
		bad = "coinbase"
	case "coinbase-wrong-reward":
		if height%nc.env.E != 1 || height == 1 || len(rewards) == 0 {
			return ""
		}
		wrong := map[string]uint64{}
		for k, v := range rewards {
			wrong[k] = v + 1
		}
		cb = coinbaseTx(height, byte(rng.Intn(200)), wrong, nc.env.E)
		txs[0] = cb
		bad = "coinbase"
	case "coinbase-old-epoch-table":
		// the first block of an epoch pays, exactly, the reward table of the epoch BEFORE the
		// previous one (what a stale "previous checkpoint" lookup hands to the reward check)
		if height%nc.env.E != 1 || height <= nc.env.E+1 {
			nc.c.Count("old-table:parent-not-epoch-end")
			return ""
		}
		anc := nc.ancestors(parent)
		if uint64(len(anc)) <= nc.env.E {
			return ""
		}
		// the nearest older epoch whose table differs (equal tables make the block valid)
		var oldRewards map[string]uint64
		for k := nc.env.E; k < uint64(len(anc)) && oldRewards == nil; k += nc.env.E {
			oh := nc.nm.blocks[anc[k]].Hash()
			nc.env.useOutsiderKey()
			old, err := nc.ref.chain.PrevCheckpointByPrevHash(&oh)
			nc.env.useLocalKey()
			if err == nil && len(old.Rewards) > 0 && fmt.Sprint(old.Rewards) != fmt.Sprint(rewards) {
				oldRewards = old.Rewards
			}
		}
		if oldRewards == nil {
			nc.c.Count("old-table:all-older-tables-equal")
			return ""
		}
		cb = coinbaseTx(height, byte(rng.Intn(200)), oldRewards, nc.env.E)
		txs[0] = cb
		bad = "coinbase"
	case "coinbase-missing":
		txs = nil
		bad = "coinbase"
	case "coinbase-not-first":
		if len(avail) == 0 {
			return ""
		}
		ti := pickSpend(avail[0])
		if ti == nil {
			return ""
		}
		txInfos = append(txInfos, ti)
		bad = "coinbase-order"
	case "spend-missing":
		// an output that exists on no ancestor of this block (created on another branch or later)
		// (preferably one that was also SPENT on that other branch: if the reorganisation that
		// abandoned the branch restored it by mistake, it sits in the store as a phantom utxo)
		var foreign, foreignSpent string
		spentAnywhere := map[string]bool{}
		for _, tis := range nc.blockTxs {
			for _, ti := range tis {
				for _, in := range ti.ins {
					spentAnywhere[in] = true
				}
			}
		}
		for _, name := range nc.ln.order {
			o := nc.ln.outs[name]
			if _, ok := bv.created[name]; !ok && o.amount > ledgerFee+1 && o.kind == 'n' && !o.cb {
				foreign = name
				if spentAnywhere[name] {
					foreignSpent = name
				}
			}
		}
		if foreignSpent != "" && rng.Intn(3) > 0 {
			foreign = foreignSpent
		}
		if foreign == "" {
			return ""
		}
		txInfos = append(txInfos, pickSpend(foreign))
	case "double-spend-cross":
		var spentOne string
		for name := range bv.spent {
			o := nc.ln.outs[name]
			if o != nil && o.amount > ledgerFee+1 && (o.kind == 'n' || o.kind == 'v') {
				if spentOne == "" || name < spentOne {
					spentOne = name
				}
			}
		}
		if spentOne == "" {
			return ""
		}
		o := nc.ln.outs[spentOne]
		txInfos = append(txInfos, nc.ln.buildTx([]string{spentOne}, []outSpec{{'n', o.amount - ledgerFee - 1}}, 0))
	case "double-spend-parent":
		// re-spend an output that the PARENT block itself spends: when parent and mutant are attached
		// by one reorganizeChain call, the spent mark exists only in that call's utxo view
		var spentOne string
		for _, ti := range nc.blockTxs[parent] {
			for _, in := range ti.ins {
				if o := nc.ln.outs[in]; o != nil && o.amount > ledgerFee+3 && (o.kind == 'n' || o.kind == 'v') {
					spentOne = in
				}
			}
		}
		if spentOne == "" {
			return ""
		}
		o := nc.ln.outs[spentOne]
		txInfos = append(txInfos, nc.ln.buildTx([]string{spentOne}, []outSpec{{'n', o.amount - ledgerFee - 2}}, 0))
	case "double-spend-inblock":
		if len(avail) == 0 {
			return ""
		}
		o := nc.ln.outs[avail[0]]
		if o.amount <= ledgerFee+10 {
			return ""
		}
		txInfos = append(txInfos, nc.ln.buildTx([]string{avail[0]}, []outSpec{{'n', o.amount - ledgerFee}}, 0))
		txInfos = append(txInfos, nc.ln.buildTx([]string{avail[0]}, []outSpec{{'n', o.amount - ledgerFee - 3}}, 0))
	case "immature-coinbase":
		var young string
		for _, name := range nc.ln.order {
			o := nc.ln.outs[name]
			if ch, ok := bv.created[name]; ok && !bv.spent[name] && o.cb && o.amount > ledgerFee+1 && ch+consensus.CoinbasePendingBlockNumber > height {
				young = name
			}
		}
		if young == "" {
			return ""
		}
		txInfos = append(txInfos, pickSpend(young))
	case "locked-vote":
		var locked string
		for _, name := range nc.ln.order {
			o := nc.ln.outs[name]
			if ch, ok := bv.created[name]; ok && !bv.spent[name] && o.kind == 'v' && ch+nc.env.votePend > height {
				locked = name
			}
		}
		if locked == "" {
			return ""
		}
		txInfos = append(txInfos, pickSpend(locked))
	}
	for _, ti := range txInfos {
		if ti == nil {
			return ""
		}
		txs = append(txs, ti.tx)
	}
	if kind == "coinbase-not-first" {
		txs[0], txs[1] = txs[1], txs[0]
	}
	// ---- header
	prev := p.Hash()
	parentName := parent
	switch kind {
	case "height":
		height += uint64(1 + rng.Intn(2))
	case "parent":
		// link to the grandparent while keeping the child's height
		if parent == "b0" {
			return ""
		}
		gp := nc.nm.name(p.PreviousBlockHash)
		prev = nc.nm.blocks[gp].Hash()
		parentName = gp
		ts = p.Timestamp + nodeInterval
	case "ts-early":
		ts = p.Timestamp + nodeInterval - 1 - uint64(rng.Intn(int(nodeInterval)))
	case "ts-before-parent":
		// strictly BEFORE the parent's timestamp (an unsigned "elapsed = ts - parent.ts" wraps)
		g := nc.nm.blocks["b0"].Timestamp
		if p.Timestamp <= g+1 {
			return ""
		}
		span := p.Timestamp - g - 1
		if span > 3*nodeInterval {
			span = 3 * nodeInterval
		}
		ts = p.Timestamp - 1 - uint64(rng.Int63n(int64(span)))
	case "ts-future":
		now := uint64(time.Now().UnixNano() / 1e6)
		ts = now + consensus.ActiveNetParams.MaxTimeOffsetMs + 600000 + nodeInterval*uint64(rng.Intn(5))
		ts -= (ts - ck.Timestamp) % nodeInterval // keep it slot-aligned: only the window rule fails
		future = true
	}
	var bcTxs []*bc.Tx
	for _, t := range txs {
		bcTxs = append(bcTxs, t.Tx)
	}
	root, _ := types.TxMerkleRoot(bcTxs)
	if kind == "merkle" {
		root = bc.NewHash([32]byte{0xab, byte(rng.Intn(256))})
		bad = "merkle"
	}
	b := &types.Block{
		BlockHeader: types.BlockHeader{Version: 1, Height: height, PreviousBlockHash: prev, Timestamp: ts,
			BlockCommitment: types.BlockCommitment{TransactionsMerkleRoot: root}},
		Transactions: txs,
	}
	signer := "g"
	switch {
	case kind == "sig-garbage":
		b.BlockHeader.BlockWitness.Set([]byte(strings.Repeat("\x5a", 64)))
	case ts < ck.Timestamp+nodeInterval:
		// before the epoch's first slot: GetValidator's arithmetic wraps; sign with order 0
		nc.env.signBlock(b, 0)
		signer = "0"
	default:
		order := slotOrder(ck.Timestamp, ts, nVal)
		if kind == "sig-wrong-slot" {
			if nVal == 1 {
				return ""
			}
			order = (order + 1 + rng.Intn(nVal-1)) % nVal
		}
		nc.env.signBlock(b, order)
		signer = fmt.Sprint(order)
	}
	if _, dup := nc.nm.byHash[b.Hash()]; dup {
		return ""
	}
	// ---- register (the reference node never sees a mutant)
	name := fmt.Sprintf("b%d", len(nc.nm.order))
	nc.nm.add(name, b)
	if b.Height > nc.maxH {
		nc.maxH = b.Height
	}
	g := nc.nm.blocks["b0"]
	op := fmt.Sprintf("def %s parent=%s h=%d slot=%d rank=%d arb=0 ts=%d signer=%s mut=%s", name, parentName, b.Height,
		(ts-g.Timestamp)/nodeInterval, rank(b.Hash()), ts-g.Timestamp, signer, kind)
	if future {
		op += " future=1"
	}
	if bad != "" {
		op += " bad=" + bad
	}
	var all []*txInfo
	if len(txs) > 0 {
		kinds := make([]byte, len(cb.Outputs))
		for i := range kinds {
			kinds[i] = 'n'
		}
		cbInfo := nc.ln.addTx(cb, nil, kinds, true)
		all = append([]*txInfo{cbInfo}, txInfos...)
		if kind == "coinbase-not-first" {
			all[0], all[1] = all[1], all[0]
		}
	}
	nc.blockTxs[name] = all
	var lines []string
	for _, ti := range all {
		lines = append(lines, nc.ln.txLine(ti))
	}
	if len(lines) > 0 {
		op += " txs=" + strings.Join(lines, "|")
	}
	nc.emit(op, "ok")
	nc.mutants[name] = kind
	return name
}

func coinbaseTxAmounts(height uint64, arb byte, amounts []uint64) *types.Tx {
	arbitrary := append([]byte{0x00}, []byte(fmt.Sprint(height))...)
	arbitrary = append(arbitrary, arb)
	var outs []*types.TxOutput
	for _, a := range amounts {
		outs = append(outs, types.NewOriginalTxOutput(*consensus.BTMAssetID, a, opTrue, [][]byte{}))
	}
	return finalizeTx(types.TxData{Version: 1, Inputs: []*types.TxInput{types.NewCoinbaseInput(arbitrary)}, Outputs: outs})
}

// invalidChain: the block or one of its ancestors is a mutant.
func (nc *nodeCase) invalidChain(name string) bool {
	for _, a := range nc.ancestors(name) {
		if nc.mutants[a] != "" {
			return true
		}
	}
	// a block whose recorded parent is unknown (ancestors stops early) cannot be valid either
	return false
}

// oracleRules (C13), evaluated after every event of a rules case.
func (nc *nodeCase) oracleRules(op string) {
	n := nc.sut
	best := n.chain.BestBlockHeader()
	bestName := nc.nm.name(best.Hash())
	// (1) no block with a rule violation on its chain is on the main chain
	for name := range nc.delivered {
		if nc.invalidChain(name) && n.chain.InMainChain(nc.nm.blocks[name].Hash()) {
			kind := ""
			for _, a := range nc.ancestors(name) {
				if nc.mutants[a] != "" {
					kind = nc.mutants[a]
				}
			}
			nc.c.Fail("C13:invalid-block-connected:"+kind, fmt.Sprintf("after %s: %s (rule broken: %s) is on the main chain, best=%s", op, name, kind, bestName))
			return
		}
	}
	// (1b) a block that breaks a ValidateBlock rule (context-free mutant) is never stored, whether
	// it arrived after its parent (processBlock -> saveBlock) or left the orphan pool
	// (saveSubBlock -> saveBlock); a refused orphan does not stay in the pool once its parent is stored
	orph, _ := n.chain.VerifNodeOrphans()
	inPool := map[string]bool{}
	for _, h := range orph {
		inPool[nc.nm.name(h)] = true
	}
	for name := range nc.delivered {
		kind := nc.mutants[name]
		cf := false
		for _, k := range contextFreeMutants {
			if k == kind {
				cf = true
			}
		}
		if !cf {
			continue
		}
		b := nc.nm.blocks[name]
		h := b.Hash()
		if _, err := n.store.GetBlockHeader(&h); err == nil {
			nc.c.Fail("C13:invalid-block-stored:"+kind, fmt.Sprintf("after %s: %s (rule broken: %s) is stored", op, name, kind))
			return
		}
		if _, err := n.store.GetBlockHeader(&b.PreviousBlockHash); err == nil && inPool[name] {
			nc.c.Fail("C13:invalid-orphan-kept:"+kind, fmt.Sprintf("after %s: %s (rule broken: %s) is still in the orphan pool although its parent is stored", op, name, kind))
			return
		}
	}
	// (2) valid blocks are accepted: the best block is the fork-choice winner (height, then
	// hash; nothing is justified in these cases) among the delivered blocks whose whole chain
	// is valid and delivered
	var want string
	for name := range nc.delivered {
		if nc.invalidChain(name) {
			continue
		}
		ok := true
		for _, a := range nc.ancestors(name) {
			if !nc.delivered[a] {
				ok = false
			}
		}
		if !ok {
			continue
		}
		b := nc.nm.blocks[name]
		if want == "" || b.Height > nc.nm.blocks[want].Height ||
			(b.Height == nc.nm.blocks[want].Height && rank(b.Hash()) > rank(nc.nm.blocks[want].Hash())) {
			want = name
		}
	}
	if want != "" && want != bestName {
		// which stored block does the fork choice point at instead? Known finding F32 covers exactly
		// one situation: a stored block with a broken rule on its chain (a context mutant or a block
		// on top of one) is at least as high as the valid winner, so the fork choice keeps pointing
		// at a branch that cannot be attached. Anything else is a different failure.
		sigName := "C13:valid-best-not-selected"
		for name := range nc.delivered {
			if !nc.invalidChain(name) {
				continue
			}
			b := nc.nm.blocks[name]
			h := b.Hash()
			if _, err := n.store.GetBlockHeader(&h); err == nil && b.Height >= nc.nm.blocks[want].Height {
				sigName = "C13:valid-best-not-selected:stored-invalid-branch-at-least-as-high"
				break
			}
		}
		nc.c.Fail(sigName, fmt.Sprintf("after %s: the valid fork-choice winner is %s (height %d) but the node's best block is %s (height %d)", op, want, nc.nm.blocks[want].Height, bestName, best.Height))
	}
}

func genCaseRules(c *Ctx, mode string) {
	rng := c.Rng
	E := uint64(2 + rng.Intn(2))
	nc := newNodeCase(c, mode, E, 1+rng.Intn(4), -1, 2)
	defer nc.close()
	base := int(E) + 1 + int(consensus.CoinbasePendingBlockNumber) + rng.Intn(2)
	tip := "b0"
	for i := 0; i < base; i++ {
		name := nc.defBlock(tip, 0, 0, nil)
		if name == "" {
			panic("base chain block rejected: " + nc.lastRefErr)
		}
		nc.deliver(name)
		tip = name
	}
	validTips := []string{tip}
	// out-of-order delivery: a just-defined block (valid block, mutant, child of a mutant) is
	// held back with probability 1/3 and delivered later, so that children reach the node before
	// their parents and mutants reach saveBlock through saveSubBlock. Definition (and the
	// reference node, which needs parents first) is not delayed; nc.deliver stays the only
	// delivery path.
	var held []string
	send := func(name string) {
		b := nc.nm.blocks[name]
		if _, err := nc.sut.store.GetBlockHeader(&b.PreviousBlockHash); err != nil {
			c.Count("delivered-as-orphan")
			if nc.mutants[name] != "" {
				c.Count("mutant-delivered-as-orphan")
				c.Count("mutant-delivered-as-orphan:" + nc.mutants[name])
			}
			if pn := nc.nm.name(b.PreviousBlockHash); nc.nm.blocks[pn] != nil && !nc.delivered[pn] {
				c.Count("child-before-parent")
			}
		}
		nc.deliver(name)
	}
	sendOrHold := func(name string) {
		if rng.Intn(3) == 0 {
			held = append(held, name)
			c.Count("held-back")
			return
		}
		send(name)
	}
	release := func() {
		if len(held) == 0 {
			return
		}
		i := rng.Intn(len(held))
		name := held[i]
		held = append(held[:i], held[i+1:]...)
		send(name)
	}
	steps := 5 + rng.Intn(8)
	for i := 0; i < steps && !nc.dead; i++ {
		parent := validTips[len(validTips)-1]
		if rng.Intn(4) == 0 {
			parent = validTips[rng.Intn(len(validTips))]
		}
		switch rng.Intn(3) {
		case 0: // a valid block with transactions
			name := nc.defBlock(parent, uint64(rng.Intn(2)), byte(rng.Intn(3)), nc.randomTxs(parent))
			if name != "" {
				sendOrHold(name)
				validTips = append(validTips, name)
			}
		default:
			var kind string
			if rng.Intn(2) == 0 {
				kind = contextFreeMutants[rng.Intn(len(contextFreeMutants))]
			} else {
				kind = contextMutants[rng.Intn(len(contextMutants))]
			}
			if kind == "coinbase-old-epoch-table" || kind == "coinbase-wrong-reward" {
				// these need a parent that ends an epoch: take the latest valid tip that does
				for i := len(validTips) - 1; i >= 0; i-- {
					if h := nc.nm.blocks[validTips[i]].Height; h > 0 && h%E == 0 {
						parent = validTips[i]
						break
					}
				}
			}
			m := nc.defMutant(parent, kind)
			if m == "" {
				c.Count("mutant-not-applicable:" + kind)
				continue
			}
			c.Count("mutant:" + kind)
			sendOrHold(m)
			// sometimes a valid block on top of the mutant, sometimes a valid sibling
			if rng.Intn(3) == 0 && nc.nm.blocks[m].Height == nc.nm.blocks[parent].Height+1 && kind != "coinbase-missing" {
				if ch := nc.defChildOfMutant(m); ch != "" {
					sendOrHold(ch)
				}
			}
			if rng.Intn(2) == 0 {
				name := nc.defBlock(parent, uint64(rng.Intn(2)), byte(rng.Intn(3)), nil)
				if name != "" {
					sendOrHold(name)
					validTips = append(validTips, name)
				}
			}
		}
		if rng.Intn(3) == 0 {
			release()
		}
	}
	// batch scenarios: several blocks attached by ONE reorganizeChain call, with a context mutant
	// inside the batch and (when possible) a valid block on top of it, so that the spend rules
	// are evaluated on the utxo view the earlier blocks of the same batch left behind
	for k := 0; k < 2 && !nc.dead; k++ {
		if rng.Intn(3) == 0 {
			continue
		}
		tipB := validTips[len(validTips)-1]
		parent := tipB
		shape := "child-before-parent"
		if rng.Intn(2) == 0 && tipB != "b0" && nc.delivered[tipB] {
			// side branch that overtakes the best branch only when its last block arrives
			if gp := nc.nm.name(nc.nm.blocks[tipB].PreviousBlockHash); nc.nm.blocks[gp] != nil {
				parent = gp
				shape = "side-branch-overtakes"
			}
		}
		var txs []*txInfo
		for try := 0; try < 6 && len(txs) == 0; try++ {
			txs = nc.randomTxs(parent)
		}
		s1 := nc.defBlock(parent, uint64(rng.Intn(2)), byte(3+rng.Intn(3)), txs)
		if s1 == "" {
			continue
		}
		kinds := []string{"double-spend-parent", "double-spend-parent", "double-spend-cross", "immature-coinbase", "locked-vote", "spend-missing"}
		kind := kinds[rng.Intn(len(kinds))]
		m := nc.defMutant(s1, kind)
		if m == "" {
			kind = "immature-coinbase"
			m = nc.defMutant(s1, kind)
		}
		if m == "" {
			c.Count("batch-not-applicable")
			held = append(held, s1)
			validTips = append(validTips, s1)
			continue
		}
		c.Count("mutant:" + kind)
		c.Count("batch:" + shape + ":" + kind)
		top := ""
		if nc.nm.blocks[m].Height == nc.nm.blocks[s1].Height+1 {
			top = nc.defChildOfMutant(m)
		}
		if shape == "child-before-parent" {
			// mutant (and the valid block on top) first, the valid parent last: saveSubBlock connects
			// them and tryReorganize attaches [s1, m, top] at once
			send(m)
			if top != "" {
				send(top)
				c.Count("batch-with-valid-top")
			}
			send(s1)
		} else {
			// in order: s1 is at most as high as the best block, the branch wins with m (or top)
			send(s1)
			send(m)
			if top != "" {
				send(top)
				c.Count("batch-with-valid-top")
			}
		}
		validTips = append(validTips, s1)
	}
	for len(held) > 0 && !nc.dead {
		release()
	}
	// phantom scenario: a branch [a1 (creates output O), a2 (spends O)] is abandoned by ONE
	// reorganisation that detaches both blocks; afterwards a mutant on the winning branch spends
	// O, an output that no block of its own branch creates (detaching in the wrong order, or
	// restoring what a detached block spent without removing what a detached block created,
	// leaves O in the store as a spendable phantom)
	if rng.Intn(2) == 0 && !nc.dead {
		fork := validTips[len(validTips)-1]
		var txs []*txInfo
		for try := 0; try < 6 && len(txs) == 0; try++ {
			txs = nc.randomTxs(fork)
		}
		a1 := ""
		if len(txs) > 0 {
			a1 = nc.defBlock(fork, 0, 6, txs)
		}
		var o string
		if a1 != "" {
			for _, ti := range txs {
				for _, out := range ti.outs {
					if oi := nc.ln.outs[out]; oi.kind == 'n' && oi.amount > 3*ledgerFee {
						o = out
					}
				}
			}
		}
		if o != "" {
			oi := nc.ln.outs[o]
			t2 := nc.ln.buildTx([]string{o}, []outSpec{{'n', oi.amount - ledgerFee}}, 0)
			a2 := nc.defBlock(a1, 0, 6, []*txInfo{t2})
			if a2 != "" {
				send(a1)
				send(a2)
				// the competing branch: three empty blocks from the fork point
				tip, okB := fork, true
				var bs []string
				for i := 0; i < 3 && okB; i++ {
					nb := nc.defBlock(tip, 1, 7, nil)
					if nb == "" {
						okB = false
						break
					}
					bs = append(bs, nb)
					tip = nb
				}
				if okB {
					for _, nb := range bs {
						send(nb)
					}
					c.Count("phantom-scenarios")
					// spend-missing prefers an output that was created AND spent elsewhere
					for try := 0; try < 4; try++ {
						if m := nc.defMutant(tip, "spend-missing"); m != "" {
							c.Count("mutant:spend-missing")
							send(m)
							break
						}
					}
					validTips = append(validTips, tip)
				}
			}
		}
	}
	// stale-reward-table scenario: an epoch with fee-paying transactions is completed, a valid
	// first block of the next epoch is connected (whatever the node caches per epoch-end block is
	// now primed), then a SIBLING first block arrives that pays, exactly, an older epoch's table
	if rng.Intn(2) == 0 && !nc.dead {
		tip := validTips[len(validTips)-1]
		okS := true
		paid := false
		for i := 0; i < int(2*E) && okS; i++ {
			if h := nc.nm.blocks[tip].Height; h%E == 0 && paid {
				break
			}
			var txs []*txInfo
			if h := nc.nm.blocks[tip].Height; h%E != 0 || !paid {
				for try := 0; try < 4 && len(txs) == 0; try++ {
					txs = nc.randomTxs(tip)
				}
			}
			nb := nc.defBlock(tip, 0, 8, txs)
			if nb == "" {
				okS = false
				break
			}
			if len(txs) > 0 {
				paid = true
			}
			send(nb)
			tip = nb
		}
		if okS && paid && nc.nm.blocks[tip].Height%E == 0 {
			if v1 := nc.defBlock(tip, 0, 8, nil); v1 != "" {
				send(v1)
				nc.sut.quiesce()
				if m := nc.defMutant(tip, "coinbase-old-epoch-table"); m != "" {
					c.Count("mutant:coinbase-old-epoch-table")
					c.Count("stale-reward-table-scenarios")
					send(m)
					if ch := nc.defChildOfMutant(m); ch != "" {
						send(ch)
					}
				}
				validTips = append(validTips, v1)
			}
		}
	}
	// contract-call epilogue (implementation only, see node_contract.go)
	if rng.Intn(2) == 0 && !nc.dead {
		nc.contractCallEpilogue()
	}
	c.Distinct(fmt.Sprintf("rules-%d-%d", c.Seed, c.nOps))
	c.Count(fmt.Sprintf("E=%d", E))
}

// defChildOfMutant: an otherwise well-formed empty block on top of a mutant (the reference
// node does not know the mutant, so rewards come from the mutant's parent's checkpoint).
func (nc *nodeCase) defChildOfMutant(m string) string {
	mb := nc.nm.blocks[m]
	height := mb.Height + 1
	if height%nc.env.E == 1 {
		return "" // would need the reward table of an epoch the reference node never saw
	}
	gp := nc.nm.name(mb.PreviousBlockHash)
	gph := nc.nm.blocks[gp].Hash()
	nc.env.useOutsiderKey()
	ck, err := nc.ref.chain.PrevCheckpointByPrevHash(&gph)
	nc.env.useLocalKey()
	if err != nil || mb.Height%nc.env.E == 0 {
		return ""
	}
	b := nc.env.buildBlock(blockSpec{parent: mb, rewards: nil, ckptTs: ck.Timestamp, arb: 9})
	name := fmt.Sprintf("b%d", len(nc.nm.order))
	nc.nm.add(name, b)
	if b.Height > nc.maxH {
		nc.maxH = b.Height
	}
	g := nc.nm.blocks["b0"]
	kinds := []byte{'n'}
	cbInfo := nc.ln.addTx(b.Transactions[0], nil, kinds, true)
	nc.blockTxs[name] = []*txInfo{cbInfo}
	order := slotOrder(ck.Timestamp, b.Timestamp, len(nc.env.keys))
	nc.emit(fmt.Sprintf("def %s parent=%s h=%d slot=%d rank=%d arb=9 ts=%d signer=%d txs=%s", name, m, b.Height,
		(b.Timestamp-g.Timestamp)/nodeInterval, rank(b.Hash()), b.Timestamp-g.Timestamp, order, nc.ln.txLine(cbInfo)), "ok")
	nc.mutants[name] = "" // valid in itself; its chain is invalid through the parent
	return name
}
