//go:build hc33 || hall

package main

import (
	"errors"
	"fmt"
	"math/big"
	"sort"
	"strconv"
	"strings"

	"github.com/bytom/bytom/netsync/chainmgr"
	"github.com/bytom/bytom/protocol/bc"
	"github.com/bytom/bytom/protocol/bc/types"
	"github.com/bytom/bytom/test/mock"
)

// C33: locateHeaders / locateBlocks of netsync/chainmgr/block_keeper.go (through the hook
// VerifLocateHeaders / VerifLocateBlocks) on chains described line by line.
//
//	reset own|mock              new chain backend (own: maps under the harness's control,
//	                            mock: the repository's test/mock.Chain)
//	blk <id> <height>           a known block (header lookup by hash succeeds)
//	main <height> <id>          main-chain index entry
//	nobody <id>                 (own only) GetBlockByHash fails for the block
//	lh <skip> <maxNum> <stop> <locator…>    → ok id:h … | ok - | err
//	lb <timeoutAfter> <stop> <locator…>     → same, locateBlocks
//
// Direct oracle (on consistent chains): ≤ maxNum items, every item on the main chain,
// heights strictly increase, first item = highest main-chain locator entry (or genesis),
// last height ≤ stop height, no panic.

const (
	c33SigWrap  = "locateHeaders: index += skip+1 wraps uint64 (stop height + skip >= 2^64)"
	c33SigStart = "locateHeaders: start is the FIRST main-chain locator entry, not the highest (unsorted locator)"
)

var c33seen = map[string]int{}

type c33own struct {
	headers map[bc.Hash]*types.Block
	main    map[uint64]*types.Block
	nobody  map[bc.Hash]bool
}

var errC33 = errors.New("not found")

func (c *c33own) BestBlockHeader() *types.BlockHeader              { return nil }
func (c *c33own) LastJustifiedHeader() (*types.BlockHeader, error) { return nil, nil }
func (c *c33own) BestBlockHeight() uint64                          { return 0 }
func (c *c33own) GetBlockByHash(h *bc.Hash) (*types.Block, error) {
	b, ok := c.headers[*h]
	if !ok || c.nobody[*h] {
		return nil, errC33
	}
	return b, nil
}
func (c *c33own) GetBlockByHeight(h uint64) (*types.Block, error) {
	b, ok := c.main[h]
	if !ok {
		return nil, errC33
	}
	return b, nil
}
func (c *c33own) GetHeaderByHash(h *bc.Hash) (*types.BlockHeader, error) {
	b, ok := c.headers[*h]
	if !ok {
		return nil, errC33
	}
	return &b.BlockHeader, nil
}
func (c *c33own) GetHeaderByHeight(h uint64) (*types.BlockHeader, error) {
	b, ok := c.main[h]
	if !ok {
		return nil, errC33
	}
	return &b.BlockHeader, nil
}
func (c *c33own) InMainChain(h bc.Hash) bool {
	b, ok := c.headers[h]
	if !ok {
		return false
	}
	m, ok := c.main[b.Height]
	return ok && m.Hash() == h
}
func (c *c33own) ProcessBlock(*types.Block) (bool, error) { return false, nil }
func (c *c33own) ValidateTx(*types.Tx) (bool, error)      { return false, nil }

type c33state struct {
	backend string
	own     *c33own
	mk      *mock.Chain
	chain   chainmgr.Chain
	blocks  map[uint64]*types.Block // label -> block
	labels  map[bc.Hash]uint64
	heights map[uint64]uint64 // label -> header height
	mainIdx map[uint64]uint64 // height -> label
	wf      bool              // the chain is consistent (oracle applies)
	mgr     *chainmgr.Manager // handler level (c33h.go)
	peer    *c33peer
}

var c33tx = types.NewTx(types.TxData{Version: 1,
	Inputs:  []*types.TxInput{types.NewCoinbaseInput([]byte{1, 2, 3})},
	Outputs: []*types.TxOutput{types.NewOriginalTxOutput(bc.AssetID{V0: 9999}, 1, []byte{0x51}, nil)}})

func c33block(label, height uint64) *types.Block {
	return &types.Block{BlockHeader: types.BlockHeader{Version: 1, Height: height, Timestamp: 1000000 + label,
		PreviousBlockHash: bc.Hash{V0: label, V1: height}}, Transactions: []*types.Tx{c33tx}}
}

func (s *c33state) hashOf(label uint64) *bc.Hash {
	if b, ok := s.blocks[label]; ok {
		h := b.Hash()
		return &h
	}
	// unknown block: a hash no block has
	return &bc.Hash{V0: 0xdead, V1: label, V2: 7, V3: 9}
}

func (s *c33state) reset(backend string) {
	*s = c33state{backend: backend, blocks: map[uint64]*types.Block{}, labels: map[bc.Hash]uint64{}, heights: map[uint64]uint64{},
		mainIdx: map[uint64]uint64{}, wf: true}
	if backend == "mock" {
		s.mk = mock.NewChain()
		s.chain = s.mk
	} else {
		s.own = &c33own{headers: map[bc.Hash]*types.Block{}, main: map[uint64]*types.Block{}, nobody: map[bc.Hash]bool{}}
		s.chain = s.own
	}
}

// chainWF: every main entry sits at its own height and the main index has no holes
func (s *c33state) chainWF() bool {
	if len(s.mainIdx) == 0 {
		return false
	}
	for h, l := range s.mainIdx {
		if s.heights[l] != h {
			return false
		}
	}
	for h := uint64(0); h < uint64(len(s.mainIdx)); h++ {
		if _, ok := s.mainIdx[h]; !ok {
			return false
		}
	}
	return true
}

func c33show(s *c33state, hs []*types.BlockHeader, err error) string {
	if err != nil {
		return "err"
	}
	if len(hs) == 0 {
		return "ok -"
	}
	parts := make([]string, len(hs))
	for i, h := range hs {
		l, ok := s.labels[h.Hash()]
		if !ok {
			parts[i] = fmt.Sprintf("?:%d", h.Height)
		} else {
			parts[i] = fmt.Sprintf("%d:%d", l, h.Height)
		}
	}
	return "ok " + strings.Join(parts, " ")
}

func c33exec(c *Ctx, s *c33state, line string) {
	w := strings.Fields(line)
	if len(w) == 0 {
		return
	}
	u := func(i int) uint64 {
		v, err := strconv.ParseUint(w[i], 10, 64)
		if err != nil {
			panic("bad number in op line: " + line)
		}
		return v
	}
	switch w[0] {
	case "reset":
		b := "own"
		if len(w) > 1 {
			b = w[1]
		}
		s.reset(b)
		c.Op(line, "ok")
	case "blk":
		label, height := u(1), u(2)
		blk := c33block(label, height)
		if s.backend == "mock" {
			// side blocks enter mock.Chain through ProcessBlock, which wants a known parent
			if g, err := s.mk.GetHeaderByHeight(0); err == nil {
				blk.PreviousBlockHash = g.Hash()
			}
		}
		s.blocks[label] = blk
		s.labels[blk.Hash()] = label
		s.heights[label] = height
		if s.backend == "own" {
			s.own.headers[blk.Hash()] = blk
		}
		// mock: registered by the following `main` line, or as a side block at the first query
		c.Op(line, "ok")
	case "main":
		height, label := u(1), u(2)
		blk := s.blocks[label]
		s.mainIdx[height] = label
		if s.backend == "own" {
			s.own.main[height] = blk
		} else {
			s.mk.SetBlockByHeight(height, blk)
			s.mk.SetBestBlockHeader(&blk.BlockHeader)
		}
		c.Op(line, "ok")
	case "nobody":
		s.own.nobody[*s.hashOf(u(1))] = true
		c.Op(line, "ok")
	case "hh", "hb", "gb", "gm":
		c33handler(c, s, line, w, u)
	case "lh", "lb":
		if s.backend == "mock" {
			c33mockSides(s)
		}
		var skip, maxNum, tmo uint64
		var stopL uint64
		var locL []uint64
		if w[0] == "lh" {
			skip, maxNum, stopL = u(1), u(2), u(3)
			for i := 4; i < len(w); i++ {
				locL = append(locL, u(i))
			}
		} else {
			tmo, stopL = u(1), u(2)
			maxNum, _ = chainmgr.VerifMaxNums()
			for i := 3; i < len(w); i++ {
				locL = append(locL, u(i))
			}
		}
		loc := make([]*bc.Hash, len(locL))
		for i, l := range locL {
			loc[i] = s.hashOf(l)
		}
		stop := s.hashOf(stopL)
		var hs []*types.BlockHeader
		var err error
		panicked := ""
		func() {
			defer func() {
				if r := recover(); r != nil {
					panicked = fmt.Sprint(r)
				}
			}()
			if w[0] == "lh" {
				hs, err = chainmgr.VerifLocateHeaders(s.chain, loc, stop, skip, maxNum)
			} else {
				calls := uint64(0)
				var bs []*types.Block
				bs, err = chainmgr.VerifLocateBlocks(s.chain, loc, stop, func() bool { calls++; return calls > tmo })
				for _, b := range bs {
					hs = append(hs, &b.BlockHeader)
				}
			}
		}()
		if panicked != "" {
			c.Op(line, "panic")
			c.Fail("panic in "+w[0]+": "+line, panicked)
			return
		}
		c.Op(line, c33show(s, hs, err))
		c33oracle(c, s, line, w[0], hs, err, locL, stopL, skip, maxNum)
	default:
		panic("unknown op line: " + line)
	}
}

// side blocks (known, not in the main index) enter mock.Chain through ProcessBlock
func c33mockSides(s *c33state) {
	for l, b := range s.blocks {
		if _, err := s.mk.GetHeaderByHash(s.hashOf(l)); err == nil {
			continue
		}
		// parent = genesis (known, and not the best block as the main chain has ≥ 2 blocks);
		// height below the best height, so ProcessBlock only records the block
		s.mk.ProcessBlock(b)
	}
}

func c33oracle(c *Ctx, s *c33state, line, kind string, hs []*types.BlockHeader, err error, locL []uint64, stopL, skip, maxNum uint64) {
	if !s.chainWF() {
		c.Count(kind + "/chain-inconsistent")
		return
	}
	if err != nil {
		c.Count(kind + "/err")
		// on a consistent chain the only legitimate error is an unknown stop hash (or a missing body)
		if _, known := s.blocks[stopL]; known && kind == "lh" {
			c.Fail("error on consistent chain: "+line, "locateHeaders returned an error although the stop block is known")
		}
		return
	}
	if len(hs) == 0 {
		c.Count(kind + "/empty")
		return
	}
	c.Count(fmt.Sprintf("%s/len-%s", kind, c33bucket(len(hs))))
	c.Distinct(line)
	fail := func(what, sig string) {
		if sig == "" {
			sig = what + ": " + line
		}
		if sig == c33SigWrap || sig == c33SigStart {
			c33seen[sig]++
			if c33seen[sig] > 3 {
				return
			}
		}
		c.Fail(sig, what+" — response "+c33show(s, hs, nil))
	}
	if uint64(len(hs)) > maxNum {
		fail(fmt.Sprintf("more than maxNum=%d items", maxNum), "")
	}
	for _, h := range hs {
		if !s.chain.InMainChain(h.Hash()) {
			fail("item not on the main chain", "")
			break
		}
	}
	stopH := s.heights[stopL]
	if hs[len(hs)-1].Height > stopH {
		fail("response passes the stop block", "")
	}
	for i := 1; i < len(hs); i++ {
		if hs[i].Height <= hs[i-1].Height {
			sig := ""
			sum := new(big.Int).Add(new(big.Int).SetUint64(stopH), new(big.Int).SetUint64(skip))
			if sum.Cmp(new(big.Int).Lsh(big.NewInt(1), 64)) >= 0 {
				sig = c33SigWrap
				c.Count(kind + "/F19-wrap-seen")
			}
			fail("heights do not strictly increase", sig)
			break
		}
	}
	// expected start: highest main-chain locator entry, else genesis
	var firstMain, highest *uint64
	for _, l := range locL {
		if _, ok := s.blocks[l]; !ok || !s.chain.InMainChain(*s.hashOf(l)) {
			continue
		}
		h := s.heights[l]
		if firstMain == nil {
			v := h
			firstMain = &v
		}
		if highest == nil || h > *highest {
			v := h
			highest = &v
		}
	}
	want := uint64(0)
	if highest != nil {
		want = *highest
	}
	if hs[0].Height != want {
		sig := ""
		if firstMain != nil && *firstMain != *highest {
			sig = c33SigStart
			c.Count(kind + "/F19b-start-seen")
		}
		fail(fmt.Sprintf("response starts at height %d, highest main-chain locator entry is at %d", hs[0].Height, want), sig)
	}
}

func c33bucket(n int) string {
	switch {
	case n == 1:
		return "1"
	case n <= 4:
		return "2-4"
	case n <= 64:
		return "5-64"
	case n < 1000:
		return "65-999"
	default:
		return "1000+"
	}
}

var c33skips = []uint64{0, 0, 0, 1, 1, 2, 3, 7, 15, 63, 64, 999, 1000, 1 << 32, 1 << 63, (1 << 63) - 1, ^uint64(0) - 1, ^uint64(0), ^uint64(0) - 2, ^uint64(0) - 50}

// one generated case: chain description + queries, as op lines
func c33gen(c *Ctx) []string {
	r := c.Rng
	var out []string
	backend := "own"
	if r.Intn(3) == 0 {
		backend = "mock"
	}
	out = append(out, "reset "+backend)
	n := 1 + r.Intn(12)
	switch r.Intn(10) {
	case 0:
		n = 1 + r.Intn(200)
	case 1, 2:
		n = 1 + r.Intn(60)
	}
	if backend == "mock" && n < 2 {
		n = 2
	}
	label := uint64(0)
	var mainL, sideL []uint64
	for h := 0; h < n; h++ {
		out = append(out, fmt.Sprintf("blk %d %d", label, h), fmt.Sprintf("main %d %d", h, label))
		mainL = append(mainL, label)
		label++
	}
	nside := r.Intn(1 + n/2)
	for i := 0; i < nside; i++ {
		h := 1 + r.Intn(n+3)
		if backend == "mock" {
			if n < 3 {
				break
			}
			h = 1 + r.Intn(n-2) // strictly below the best height
		}
		out = append(out, fmt.Sprintf("blk %d %d", label, h))
		sideL = append(sideL, label)
		label++
	}
	adversarial := backend == "own" && r.Intn(8) == 0
	if adversarial {
		switch r.Intn(3) {
		case 0: // main index entry pointing to a block of another height
			if len(sideL) > 0 {
				out = append(out, fmt.Sprintf("main %d %d", r.Intn(n), sideL[r.Intn(len(sideL))]))
			}
		case 1: // hole: main entry above the tip + 1
			out = append(out, fmt.Sprintf("blk %d %d", label, n+1), fmt.Sprintf("main %d %d", n+1, label))
			label++
		case 2: // a body is missing
			out = append(out, fmt.Sprintf("nobody %d", mainL[r.Intn(len(mainL))]))
		}
	}
	unknown := func() uint64 { return 1000000 + uint64(r.Intn(50)) }
	pick := func() uint64 {
		switch x := r.Intn(10); {
		case x < 7 || len(sideL) == 0 && x < 9:
			return mainL[r.Intn(len(mainL))]
		case x < 9:
			return sideL[r.Intn(len(sideL))]
		default:
			return unknown()
		}
	}
	nq := 6 + r.Intn(10)
	for q := 0; q < nq; q++ {
		ll := r.Intn(7)
		var loc []uint64
		for i := 0; i < ll; i++ {
			loc = append(loc, pick())
		}
		if r.Intn(4) != 0 {
			// the usual shape: descending heights (labels of main blocks ascend with height)
			sort.Slice(loc, func(i, j int) bool { return loc[i] > loc[j] })
		}
		stop := pick()
		if r.Intn(3) != 0 {
			stop = mainL[len(mainL)-1-r.Intn(1+len(mainL)/4)]
		}
		ls := ""
		for _, l := range loc {
			ls += fmt.Sprintf(" %d", l)
		}
		if r.Intn(5) == 0 {
			out = append(out, fmt.Sprintf("lb %d %d%s", r.Intn(70), stop, ls))
			continue
		}
		skip := c33skips[r.Intn(len(c33skips))]
		if r.Intn(6) == 0 {
			skip = r.Uint64()
		}
		if r.Intn(6) == 0 {
			skip = ^uint64(0) - uint64(r.Intn(n+2))
		}
		maxNum := uint64(1000)
		switch r.Intn(4) {
		case 0:
			maxNum = 1 + uint64(r.Intn(5))
		case 1:
			maxNum = 1 + uint64(r.Intn(80))
		}
		out = append(out, fmt.Sprintf("lh %d %d %d%s", skip, maxNum, stop, ls))
	}
	out = append(out, c33genHandlers(c, mainL, sideL, pick, unknown)...)
	return out
}

func runC33(c *Ctx) {
	c.Rule = "chains of 1–200 main blocks with side blocks at arbitrary heights on two Chain backends (harness-controlled maps incl. inconsistent index / holes / missing bodies; the repository's test/mock.Chain); locators of 0–6 entries mixing main, side and unknown hashes, sorted and unsorted; stop on/off chain; skip from {0,1,…,2^32,2^63,2^64-51…2^64-1,random}; maxNum 1…1000; locateBlocks with timeouts; the request HANDLERS (get-headers, get-blocks, get-block, get-merkle-block) driven through decodeMessage + processMsg with a recording peer on the shapes: stop below / at start, stop on a side chain, unknown stop, empty locator, locator off the main chain, huge skip. A case is distinct by its query line with a non-empty response."
	s := &c33state{}
	s.reset("own")
	lines := c.CorpusLines()
	if c.Replay != "" {
		lines = c.ReplayLines()
	}
	for _, l := range lines {
		c33exec(c, s, l)
	}
	if c.Replay != "" {
		return
	}
	for i := 0; i < c.N; i++ {
		for _, l := range c33gen(c) {
			c33exec(c, s, l)
		}
	}
}

func init() { register("c33", runC33) }
