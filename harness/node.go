//go:build hnode || hall

package main

// harness command `node`: histories of block deliveries, verification messages and
// restarts against the real node; op lines for the Lean node model; direct oracles for the
// node-level properties (C10–C13, C16–C19, C23, C38).

import (
	"fmt"
	"math/rand"
	"sort"
	"strings"
	"time"

	"github.com/bytom/bytom/config"
	dbm "github.com/bytom/bytom/database/leveldb"
	"github.com/bytom/bytom/protocol/bc"
	"github.com/bytom/bytom/protocol/bc/types"
	"github.com/bytom/bytom/protocol/state"
)

type nodeCase struct {
	c    *Ctx
	env  *nodeEnv
	nm   *namer
	ref  *node // reference node: receives every block in creation (parents-first) order
	sut  *node // node under test
	maxH uint64
	implOnly bool
	// cachedTargets: targets of valid votes that were sent before their target block was stored
	// (the node parks such votes in its verification cache)
	cachedTargets map[string]bool
	// altCoinbase: harness-made blocks pay altCoinbaseProg instead of TRUE (pool mode)
	altCoinbase bool
	// oracle bookkeeping
	finalizedSeq  []string
	finalEver     map[string]bool         // every checkpoint ever reported as last finalized
	recvValid     map[string]map[int]bool // "src>tgt" -> validators whose validly signed vote the node received
	justSeen      map[string]bool         // checkpoints already seen justified/finalized
	admitted      map[string]bool         // "v|src|tgt" votes observed inside checkpoints or posted by the node
	restarted     bool
	slashSeen     map[string]bool
	lastRefErr    string
	lastSigner    int
	ln            *ledgerNames
	mutants       map[string]string // block name -> broken rule ("" = valid block on top of a mutant)
	events        []nodeEvent
	crashLog      *logDB
	crashDone     bool
	synced        bool // best block equalled the fork-choice winner after the last event
	lastVoteRes   string
	pw            *poolWatch
	initLogLen    int
	dumpAfterInit string
	blockTxs      map[string][]*txInfo // block name -> its transactions (coinbase first)
	lastStored    int                  // number of stored blocks after the previous event
	delivered     map[string]bool
	rejected      map[string]bool // delivered only in a deliberately corrupted variant
	mode          string
	dead          bool
}

// emit hands an event and the node's answer to the model stream. Implementation-only cases
// (behaviour the Lean model does not have: the verification cache) emit nothing after their
// reset line; the direct oracles still run after every event.
func (nc *nodeCase) emit(op, res string) {
	if nc.implOnly {
		return
	}
	nc.c.Op(op, res)
}

func newNodeCase(c *Ctx, mode string, E uint64, nVal, local int, pend uint64) *nodeCase {
	env := newNodeEnv(E, nVal, local, pend)
	nc := &nodeCase{c: c, env: env, nm: newNamer(), delivered: map[string]bool{}, rejected: map[string]bool{}, mode: mode,
		finalEver: map[string]bool{"b0": true}, recvValid: map[string]map[int]bool{}, justSeen: map[string]bool{"b0": true}, admitted: map[string]bool{}, slashSeen: map[string]bool{}, ln: newLedgerNames(), blockTxs: map[string][]*txInfo{}, mutants: map[string]string{}}
	env.useOutsiderKey()
	ref, err := newNode(env, nil)
	if err != nil {
		panic(err)
	}
	nc.ref = ref
	env.useLocalKey()
	var sutDB dbm.DB
	if recordCrashCase {
		nc.crashLog = &logDB{DB: dbm.NewMemDB()}
		sutDB = nc.crashLog
	}
	sut, err := newNode(env, sutDB)
	if err != nil {
		panic(err)
	}
	nc.sut = sut
	if nc.crashLog != nil {
		nc.initLogLen = len(nc.crashLog.log)
	}
	g := config.GenesisBlock()
	nc.nm.add("b0", g)
	nc.delivered["b0"] = true
	localS := "-"
	if local >= 0 {
		localS = fmt.Sprint(local)
	}
	if mode == "pool" {
		nc.poolInit()
	}
	nc.dumpAfterInit = nc.dump("ok")
	nc.emit(fmt.Sprintf("reset E=%d V=%d local=%s pend=%d interval=%d%s", E, nVal, localS, pend, nodeInterval, caseTag), nc.dumpAfterInit)
	return nc
}

func (nc *nodeCase) ledgerMode() bool {
	return nc.mode == "ledger" || nc.mode == "rules" || nc.mode == "crash" || nc.mode == "pool"
}

func (nc *nodeCase) close() {
	if nc.crashLog != nil && !nc.crashDone && len(nc.events) > 0 && !nc.dead {
		nc.crashDone = true
		limit := 60
		if nc.c.Tier == "thorough" {
			limit = 100000
		}
		nc.runCrashPoints(limit)
	}
	nc.ref.close()
	nc.sut.close()
}

func (nc *nodeCase) dump(res string) string {
	n := nc.sut
	parts := []string{"res=" + res, n.dumpStored(nc.nm), n.dumpChain(nc.nm, nc.maxH), n.dumpOrphans(nc.nm), n.dumpCasper(nc.nm)}
	if nc.ledgerMode() {
		parts = append(parts, n.dumpUtxo(nc.ln), n.dumpContracts(nc.ln))
		if n.contractMismatch != "" {
			nc.c.Fail("C10:contract-table:store-answer-differs-from-row", fmt.Sprintf("%s (best block %s)", n.contractMismatch, nc.nm.name(n.chain.BestBlockHeader().Hash())))
			n.contractMismatch = ""
		}
	}
	if nc.mode == "pool" && nc.pw != nil {
		parts = append(parts, nc.dumpPool("the last event"))
	}
	return strings.Join(parts, " ")
}

// defBlock creates a valid child of `parent` on the reference node and tells the model
// about it. Returns "" when the reference node rejects the block (should not happen for
// generator-made blocks; counted).
func (nc *nodeCase) defBlock(parent string, slotSkip uint64, arb byte, txInfos []*txInfo) string {
	var txs []*types.Tx
	for _, ti := range txInfos {
		txs = append(txs, ti.tx)
	}
	p := nc.nm.blocks[parent]
	ph := p.Hash()
	nc.env.useOutsiderKey()
	ck, err := nc.ref.chain.PrevCheckpointByPrevHash(&ph)
	if err != nil {
		panic(fmt.Sprintf("ref node has no checkpoint for %s: %v", parent, err))
	}
	spec := blockSpec{parent: p, slotSkip: slotSkip, arb: arb, txs: txs, rewards: ck.Rewards, ckptTs: ck.Timestamp, nVal: len(nc.env.keys)}
	if nc.altCoinbase {
		spec.cbProg = altCoinbaseProg
	}
	b := nc.env.buildBlock(spec)
	if _, dup := nc.nm.byHash[b.Hash()]; dup {
		nc.env.useLocalKey()
		return ""
	}
	r := nc.ref.processBlock(b)
	nc.ref.quiesce()
	nc.env.useLocalKey()
	if r.String() != "ok" {
		nc.c.Count("ref-rejected-generated-block")
		nc.lastRefErr = fmt.Sprint(r.err, r.panic)
		return ""
	}
	nc.lastSigner = slotOrder(ck.Timestamp, b.Timestamp, len(nc.env.keys))
	return nc.registerBlock(parent, b, arb, txInfos)
}

// registerBlock names a block (and its coinbase outputs) and tells the model about it.
func (nc *nodeCase) registerBlock(parent string, b *types.Block, arb byte, txInfos []*txInfo) string {
	name := fmt.Sprintf("b%d", len(nc.nm.order))
	nc.nm.add(name, b)
	if b.Height > nc.maxH {
		nc.maxH = b.Height
	}
	slot := (b.Timestamp - nc.nm.blocks["b0"].Timestamp) / nodeInterval
	op := fmt.Sprintf("def %s parent=%s h=%d slot=%d rank=%d arb=%d", name, parent, b.Height, slot, rank(b.Hash()), arb)
	if nc.mode == "rules" {
		op += fmt.Sprintf(" ts=%d signer=%d", b.Timestamp-nc.nm.blocks["b0"].Timestamp, nc.lastSigner)
	}
	if nc.ledgerMode() {
		kinds := make([]byte, len(b.Transactions[0].Outputs))
		for i := range kinds {
			kinds[i] = 'n'
		}
		cb := nc.ln.addTx(b.Transactions[0], nil, kinds, true)
		all := append([]*txInfo{cb}, txInfos...)
		nc.blockTxs[name] = all
		var lines []string
		for _, ti := range all {
			for _, o := range ti.outs {
				nc.ln.outs[o].block = name
			}
			lines = append(lines, nc.ln.txLine(ti))
		}
		op += " txs=" + strings.Join(lines, "|")
	}
	nc.emit(op, "ok")
	return name
}

// supSpec describes one signature slot of a header sup link attached to a delivered copy
// of a block (sup links are not covered by the block hash, so any relay can set them).
type supSpec struct {
	src       string // source block name; names that are not defined stand for unknown hashes
	srcHeight uint64
	order     int
	valid     bool
}

func (nc *nodeCase) unknownHash(name string) bc.Hash {
	var n uint64
	fmt.Sscanf(name, "b%d", &n)
	return bc.NewHash([32]byte{0xee, byte(n >> 8), byte(n)})
}

func (nc *nodeCase) deliver(name string, sups ...supSpec) procResult {
	b := cloneBlock(nc.nm.blocks[name])
	op := "deliver " + name
	if len(sups) > 0 {
		// one part per signature, in the order AddSupLink is called (a later signature for the
		// same source and slot replaces an earlier one)
		var parts []string
		for _, sp := range sups {
			var srcHash bc.Hash
			if sb, ok := nc.nm.blocks[sp.src]; ok {
				srcHash = sb.Hash()
			} else {
				srcHash = nc.unknownHash(sp.src)
			}
			msg := nc.env.voteMsg(sp.order, srcHash, b.Hash(), sp.valid)
			b.SupLinks.AddSupLink(sp.srcHeight, srcHash, msg.Signature, sp.order)
			if sp.valid && sp.order < len(nc.env.keys) {
				nc.noteValid(sp.src, name, sp.order)
			}
			v := "x"
			if sp.valid {
				v = "v"
			}
			parts = append(parts, fmt.Sprintf("%s:%d:%d%s", sp.src, sp.srcHeight, sp.order, v))
		}
		op += " sup=" + strings.Join(parts, ";")
	}
	var r procResult
	func() {
		defer func() {
			if rec := recover(); rec != nil {
				r = procResult{panic: fmt.Sprint(rec)}
			}
		}()
		o, err := nc.sut.chain.VerifNodeProcessBlock(b)
		r = procResult{orphan: o, err: err}
	}()
	nc.sut.quiesce()
	nc.delivered[name] = true
	if k, ok := nc.mutants[name]; ok && k != "" {
		for _, cf := range contextFreeMutants {
			if cf == k {
				nc.rejected[name] = true
			}
		}
	}
	d := nc.dump(r.String())
	nc.emit(op, d)
	if nc.crashLog != nil {
		nc.events = append(nc.events, nodeEvent{kind: "deliver", name: name, sups: sups, logLenPost: len(nc.crashLog.log), dumpPost: d})
	}
	nc.lastVoteRes = ""
	nc.oracleAfterEvent(op, r)
	if nc.mode == "pool" {
		nc.emitPoolOrder()
	}
	return r
}

func (nc *nodeCase) noteValid(src, tgt string, order int) {
	k := src + ">" + tgt
	if nc.recvValid[k] == nil {
		nc.recvValid[k] = map[int]bool{}
	}
	nc.recvValid[k][order] = true
}

func (nc *nodeCase) restart() {
	if nc.crashLog != nil {
		return // crash cases restart on every write boundary instead
	}
	// the orphan pool lives in memory only: blocks waiting there are forgotten by a restart
	if orph, _ := nc.sut.chain.VerifNodeOrphans(); true {
		for _, h := range orph {
			delete(nc.delivered, nc.nm.name(h))
		}
	}
	err := nc.sut.reopen()
	if err != nil {
		nc.emit("restart", "res=err")
		nc.c.Fail("C19:restart-fails", "restart on the stored state failed: "+err.Error())
		nc.dead = true
		return
	}
	nc.restarted = true
	nc.synced = false
	nc.emit("restart", nc.dump("ok"))
	nc.oracleAfterEvent("restart", procResult{})
}

func (nc *nodeCase) vote(order int, src, tgt string, valid bool) {
	rl := relabelledVotes
	if th := nc.nm.blocks[tgt].Hash(); valid {
		if _, err := nc.sut.store.GetBlockHeader(&th); err != nil {
			if nc.cachedTargets == nil {
				nc.cachedTargets = map[string]bool{}
			}
			nc.cachedTargets[tgt] = true
		}
	}
	msg := nc.env.voteMsg(order, nc.nm.blocks[src].Hash(), nc.nm.blocks[tgt].Hash(), valid)
	if relabelledVotes > rl {
		nc.c.Count("invalid-vote:relabelled-signature-of-another-validator")
	}
	if valid && order < len(nc.env.keys) {
		nc.noteValid(src, tgt, order)
	}
	var res string
	func() {
		defer func() {
			if rec := recover(); rec != nil {
				res = "panic"
			}
		}()
		if err := nc.sut.chain.ProcessBlockVerification(msg); err != nil {
			res = "err"
		} else {
			res = "ok"
		}
	}()
	v := 0
	if valid {
		v = 1
	}
	op := fmt.Sprintf("vote v=%d src=%s tgt=%s sig=%d", order, src, tgt, v)
	dv := nc.dump(res)
	nc.emit(op, dv)
	if nc.crashLog != nil {
		nc.events = append(nc.events, nodeEvent{kind: "vote", order: order, src: src, tgt: tgt, valid: valid, logLenPost: len(nc.crashLog.log), dumpPost: dv})
	}
	nc.lastVoteRes = res
	if res == "panic" {
		nc.c.Fail("C37:vote-panic", "verification message handling panicked on "+op)
		return
	}
	nc.oracleAfterEvent(op, procResult{})
}

// ---------------------------------------------------------------------------------------
// direct oracles (evaluated on the implementation alone)

func (nc *nodeCase) ancestors(name string) []string {
	var out []string
	for cur := name; ; {
		out = append(out, cur)
		if cur == "b0" {
			return out
		}
		cur = nc.nm.name(nc.nm.blocks[cur].PreviousBlockHash)
		if _, ok := nc.nm.blocks[cur]; !ok {
			return out
		}
	}
}

func (nc *nodeCase) oracleAfterEvent(op string, r procResult) {
	n := nc.sut
	if nc.implOnly {
		// the background replay of parked votes may still be running after the epoch
		// notification was taken from the queue: wait until the finality state stops changing
		prev := ""
		for i := 0; i < 40; i++ {
			time.Sleep(25 * time.Millisecond)
			cur := n.dumpCasper(nc.nm)
			if cur == prev {
				break
			}
			prev = cur
		}
	}
	if nc.mode == "rules" && r.panic == "" {
		nc.oracleRules(op)
	}
	sig := func(prop, what string) string { return prop + ":" + what }
	// C12: never panics
	if r.panic != "" {
		nc.c.Fail(sig("C12", "panic"), "block processing panicked on "+op+": "+r.panic)
		return
	}
	// C11: index consistency and InMainChain exactness
	best := n.chain.BestBlockHeader()
	bestName := nc.nm.name(best.Hash())
	anc := map[uint64]string{}
	for _, a := range nc.ancestors(bestName) {
		anc[nc.nm.blocks[a].Height] = a
	}
	for h := uint64(0); h <= best.Height; h++ {
		hash, err := n.store.GetMainChainHash(h)
		if err != nil || nc.nm.name(*hash) != anc[h] {
			nc.c.Fail(sig("C11", "index"), fmt.Sprintf("after %s: height %d maps to %v, ancestor of best %s is %s", op, h, hash, bestName, anc[h]))
			break
		}
	}
	for _, name := range nc.nm.order {
		b := nc.nm.blocks[name]
		want := anc[b.Height] == name
		if got := n.chain.InMainChain(b.Hash()); got != want {
			what := "inmain-above-best"
			if b.Height <= best.Height {
				what = "inmain"
			}
			nc.c.Fail(sig("C11", what), fmt.Sprintf("after %s: InMainChain(%s)=%v but best=%s (height %d), block height %d", op, name, got, bestName, best.Height, b.Height))
			break
		}
	}
	// C11: implementation-only fork-choice oracle (notes/C11.md): the declarative maximum of
	// (justified height on the path, height, hash) over the checkpoint tree
	{
		cc := n.chain.VerifNodeCasper()
		flat := cc.VerifNodeTree()
		var jhAt []uint64
		wantIdx, wantJ := -1, uint64(0)
		for i := range flat {
			t := &flat[i]
			base := flat[0].Height
			if t.Depth > 0 {
				base = jhAt[t.Depth-1]
			}
			j := base
			if t.Status == state.Justified {
				j = t.Height
			}
			jhAt = append(jhAt[:t.Depth], j)
			if wantIdx < 0 || j > wantJ || (j == wantJ && t.Height > flat[wantIdx].Height) ||
				(j == wantJ && t.Height == flat[wantIdx].Height && t.Hash.String() > flat[wantIdx].Hash.String()) {
				wantIdx, wantJ = i, j
			}
		}
		if wantIdx >= 0 {
			want := flat[wantIdx].Hash
			if got := cc.BestChain(); got != want {
				nc.c.Fail(sig("C11", "bestchain-not-max"), fmt.Sprintf("after %s: Casper.BestChain()=%s but the fork-choice maximum over the checkpoint tree is %s", op, nc.nm.name(got), nc.nm.name(want)))
			}
			isBest := best.Hash() == want
			answered := strings.HasPrefix(op, "deliver") || strings.HasPrefix(op, "vote")
			okAnswer := r.err == nil && r.panic == "" && nc.lastVoteRes != "err"
			if answered && okAnswer && nc.synced && !isBest && nc.mode != "rules" {
				what := "best-not-fork-choice"
				// F39: the background loop that replays a parked (cached) vote never tells the chain
				// core that the fork choice moved: narrow signature when the last justified checkpoint
				// is the target of a vote that had to wait for its block
				if _, jh := cc.LastJustified(); nc.cachedTargets[nc.nm.name(jh)] && strings.HasPrefix(op, "deliver") {
					what += ":after-cached-vote-replay"
				}
				nc.c.Fail(sig("C11", what), fmt.Sprintf("after %s: best block %s is not the fork-choice winner %s", op, bestName, nc.nm.name(want)))
			}
			// C12 "connected as if the blocks had arrived in order": a delivery that connected
			// waiting orphans (more than one block became stored) must leave the chain where an
			// in-order delivery leaves it, i.e. at the fork-choice winner over what is stored now
			nStored := strings.Count(n.dumpStored(nc.nm), ",") + 1
			if strings.HasPrefix(op, "deliver") && okAnswer && nc.synced && !isBest && nc.mode != "rules" && nStored > nc.lastStored+1 {
				nc.c.Fail(sig("C12", "orphans-connected-but-not-followed"), fmt.Sprintf("after %s: %d blocks became stored (waiting orphans were connected) but the best block is %s, in-order delivery ends at %s", op, nStored-nc.lastStored, bestName, nc.nm.name(want)))
			}
			nc.lastStored = nStored
			if !(answered && okAnswer && nc.synced) {
				nc.synced = isBest
			}
		}
	}
	// C12: no orphan whose parent is stored; every delivered block with all ancestors
	// delivered is stored. A block whose branch does not contain the last finalized
	// checkpoint can never be connected without reverting finality (C16): it is exempt
	// from "must be stored", but an orphan left behind is still reported (its own signature).
	cfin := n.chain.VerifNodeCasper()
	_, finH := cfin.LastFinalized()
	nc.finalEver[nc.nm.name(finH)] = true
	for _, t := range cfin.VerifNodeTree() {
		if t.Status == state.Finalized {
			nc.finalEver[nc.nm.name(t.Hash)] = true
		}
	}
	conflictsFinal := func(name string) bool {
		anc := map[string]bool{}
		for _, a := range nc.ancestors(name) {
			anc[a] = true
		}
		for f := range nc.finalEver {
			if !anc[f] {
				return true
			}
		}
		return false
	}
	orph, _ := n.chain.VerifNodeOrphans()
	for _, h := range orph {
		name := nc.nm.name(h)
		b := nc.nm.blocks[name]
		if b == nil {
			continue
		}
		if _, err := n.store.GetBlockHeader(&b.PreviousBlockHash); err == nil {
			what := "orphan-left"
			if conflictsFinal(name) {
				what = "orphan-left-conflicting-with-finalized"
			}
			nc.c.Fail(sig("C12", what), fmt.Sprintf("after %s: %s is still an orphan although its parent is stored", op, name))
			break
		}
	}
	for name := range nc.delivered {
		ok := !nc.rejected[name]
		for _, a := range nc.ancestors(name) {
			if !nc.delivered[a] || nc.rejected[a] {
				ok = false
			}
		}
		h := nc.nm.blocks[name].Hash()
		if _, err := n.store.GetBlockHeader(&h); ok && err != nil && !conflictsFinal(name) {
			nc.c.Fail(sig("C12", "not-connected"), fmt.Sprintf("after %s: %s and all its ancestors were delivered but it is not stored", op, name))
			break
		}
	}
	// C16: finalized checkpoint only moves to descendants; main chain contains it
	c := n.chain.VerifNodeCasper()
	_, fin := c.LastFinalized()
	finName := nc.nm.name(fin)
	if len(nc.finalizedSeq) == 0 || nc.finalizedSeq[len(nc.finalizedSeq)-1] != finName {
		if len(nc.finalizedSeq) > 0 {
			prev := nc.finalizedSeq[len(nc.finalizedSeq)-1]
			isDesc := false
			for _, a := range nc.ancestors(finName) {
				if a == prev {
					isDesc = true
				}
			}
			if !isDesc {
				what := "finalized-not-descendant"
				if op == "restart" {
					what = "finalized-regressed-by-restart"
				}
				nc.c.Fail(sig("C16", what), fmt.Sprintf("after %s: last finalized moved from %s to %s which is not its descendant", op, prev, finName))
			}
		}
		nc.finalizedSeq = append(nc.finalizedSeq, finName)
	}
	if !n.chain.InMainChain(fin) {
		nc.c.Fail(sig("C16", "finalized-off-main"), fmt.Sprintf("after %s: finalized %s is not on the main chain (best %s)", op, finName, bestName))
	}
	// two finalized checkpoints are always on one chain
	for f1 := range nc.finalEver {
		for f2 := range nc.finalEver {
			if f1 < f2 {
				on := false
				for _, a := range nc.ancestors(f1) {
					if a == f2 {
						on = true
					}
				}
				for _, a := range nc.ancestors(f2) {
					if a == f1 {
						on = true
					}
				}
				if !on {
					nc.c.Fail(sig("C16", "conflicting-finalized"), fmt.Sprintf("after %s: %s and %s are both finalized but not on one chain", op, f1, f2))
				}
			}
		}
	}
	// messages the node posted (own votes and authenticated peer votes)
	for _, m := range n.drainPosted() {
		order := -1
		for i, p := range nc.env.pubs {
			if p == m.PubKey {
				order = i
			}
		}
		nc.admitted[fmt.Sprintf("%d|%s|%s", order, nc.nm.name(m.SourceHash), nc.nm.name(m.TargetHash))] = true
		if order >= 0 && order == nc.env.localIdx {
			nc.noteValid(nc.nm.name(m.SourceHash), nc.nm.name(m.TargetHash), order)
		}
	}
	// C17: a checkpoint seen justified for the first time has > 2n/3 distinct validators whose
	// validly signed vote for one link (source -> it) reached the node, from a source that was
	// justified; finalized only with a justified direct child
	tree := c.VerifNodeTree()
	nVal := len(nc.env.keys)
	for _, t := range tree {
		name := nc.nm.name(t.Hash)
		for _, sl := range t.SupLinks {
			for _, slot := range sl.Slots {
				// a slot counts as a vote of that validator only if its validly signed vote for
				// this link did reach the node (forged slots are C17's concern, not C18's)
				if nc.recvValid[nc.nm.name(sl.SourceHash)+">"+name][slot] {
					nc.admitted[fmt.Sprintf("%d|%s|%s", slot, nc.nm.name(sl.SourceHash), name)] = true
				} else if k := fmt.Sprintf("S%d|%s|%s", slot, nc.nm.name(sl.SourceHash), name); !nc.justSeen[k] {
					// "invalid signatures and signatures from non-validators never count": a slot
					// of the checkpoint tree for which no validly signed vote ever reached the node
					nc.justSeen[k] = true
					suffix := ""
					if nc.restarted {
						suffix = "-after-restart"
					}
					nc.c.Fail(sig("C17", "invalid-vote-counted"+suffix), fmt.Sprintf("after %s: checkpoint %s records a vote of validator slot %d for the link from %s, but no validly signed vote for that link ever reached the node", op, name, slot, nc.nm.name(sl.SourceHash)))
				}
			}
		}
	}
	// closure of "justified" under valid supermajority links, from genesis (the FFG definition)
	super := func(k string) bool { return len(nc.recvValid[k])*3 > nVal*2 }
	closure := map[string]bool{"b0": true}
	for changed := true; changed; {
		changed = false
		for k := range nc.recvValid {
			src, tgt := k[:strings.IndexByte(k, '>')], k[strings.IndexByte(k, '>')+1:]
			if closure[src] && !closure[tgt] && super(k) {
				closure[tgt] = true
				changed = true
			}
		}
	}
	for _, t := range tree {
		name := nc.nm.name(t.Hash)
		if t.Status != state.Justified && t.Status != state.Finalized {
			continue
		}
		suffix := ""
		if nc.restarted {
			suffix = "-after-restart"
		}
		// the link that justifies a checkpoint must come from one of its ancestors (Casper FFG);
		// O16-1: neither AuthVerification nor applySupLinks checks that
		if closure[name] && name != "b0" && !nc.justSeen["A"+name] {
			viaAncestor := false
			for k := range nc.recvValid {
				src, tgt := k[:strings.IndexByte(k, '>')], k[strings.IndexByte(k, '>')+1:]
				if tgt == name && super(k) && closure[src] {
					for _, a := range nc.ancestors(name)[1:] {
						if a == src {
							viaAncestor = true
						}
					}
				}
			}
			if !viaAncestor {
				nc.justSeen["A"+name] = true
				nc.c.Fail(sig("C16", "justified-by-non-ancestor-link"+suffix), fmt.Sprintf("after %s: %s is justified only through a supermajority link whose source is not one of its ancestors", op, name))
			}
		}
		if !closure[name] && !nc.justSeen[name] {
			nc.justSeen[name] = true
			nc.c.Fail(sig("C17", "justified-without-supermajority"+suffix), fmt.Sprintf("after %s: %s is justified, but the validly signed votes that reached the node do not form a chain of supermajority links (> 2/3 of %d validators) from genesis to it", op, name, nVal))
		}
		if t.Status == state.Finalized && name != "b0" && !nc.justSeen["F"+name] {
			// finalized: some direct child checkpoint is justified through a link from it
			ok := false
			for k := range nc.recvValid {
				src, tgt := k[:strings.IndexByte(k, '>')], k[strings.IndexByte(k, '>')+1:]
				if src == name && super(k) && nc.nm.blocks[tgt] != nil && nc.nm.blocks[tgt].Height == t.Height+nc.env.E {
					for _, a := range nc.ancestors(tgt) {
						if a == name {
							ok = true
						}
					}
				}
			}
			if !ok {
				nc.justSeen["F"+name] = true
				nc.c.Fail(sig("C17", "finalized-without-justified-child"+suffix), fmt.Sprintf("after %s: %s is finalized, but no direct child checkpoint has a valid supermajority link from it", op, name))
			}
		}
	}
	// C18: no validator has two admitted/produced votes that are slashable together
	type vt struct {
		v          int
		src, tgt   string
		srcH, tgtH uint64
	}
	var vs []vt
	for k := range nc.admitted {
		f := strings.Split(k, "|")
		var v int
		fmt.Sscan(f[0], &v)
		sb, tb := nc.nm.blocks[f[1]], nc.nm.blocks[f[2]]
		if sb == nil || tb == nil || v < 0 {
			continue
		}
		vs = append(vs, vt{v, f[1], f[2], sb.Height, tb.Height})
	}
	// nc.admitted is a map: order the votes, so that a pair is always reported in one
	// orientation (and once)
	sort.Slice(vs, func(i, j int) bool {
		if vs[i].v != vs[j].v {
			return vs[i].v < vs[j].v
		}
		if vs[i].tgtH != vs[j].tgtH {
			return vs[i].tgtH < vs[j].tgtH
		}
		if vs[i].tgt != vs[j].tgt {
			return nameLess(vs[i].tgt, vs[j].tgt)
		}
		return nameLess(vs[i].src, vs[j].src)
	})
	for i := range vs {
		for j := range vs {
			a, b := vs[i], vs[j]
			if i >= j || a.v != b.v {
				continue
			}
			bad := ""
			if a.tgtH == b.tgtH && a.tgt != b.tgt {
				bad = "same-height"
			} else if (a.srcH < b.srcH && b.tgtH < a.tgtH) || (b.srcH < a.srcH && a.tgtH < b.tgtH) {
				bad = "surround"
			}
			if bad != "" && !nc.slashSeen[fmt.Sprint(a, b)] {
				nc.slashSeen[fmt.Sprint(a, b)] = true
				what := bad
				// F35 is specific: the earlier vote sits on a branch the checkpoint tree has
				// pruned (forgotten). A slashable pair whose two targets are BOTH still in the
				// tree is another matter and keeps the plain signature.
				inTree := map[string]bool{}
				for _, t := range tree {
					inTree[nc.nm.name(t.Hash)] = true
				}
				if bad == "surround" && !nc.restarted && !(inTree[a.tgt] && inTree[b.tgt]) {
					what += ":other-vote-pruned"
				}
				if nc.restarted {
					what += "-after-restart"
				}
				nc.c.Fail(sig("C18", what), fmt.Sprintf("after %s: validator %d has votes %s->%s and %s->%s inside the node's checkpoints / broadcasts", op, a.v, a.src, a.tgt, b.src, b.tgt))
			}
		}
	}
}

// ---------------------------------------------------------------------------------------
// generators

// genTree grows a random block tree of n blocks on the reference node.
func (nc *nodeCase) genTree(n int, forkBias int) []string {
	rng := nc.c.Rng
	names := []string{}
	tips := []string{"b0"}
	for len(names) < n {
		var parent string
		all := append([]string{"b0"}, names...)
		switch {
		case rng.Intn(100) < forkBias:
			parent = all[rng.Intn(len(all))]
		default:
			parent = tips[len(tips)-1]
		}
		skip := uint64(0)
		if rng.Intn(4) == 0 {
			skip = uint64(rng.Intn(3))
		}
		name := nc.defBlock(parent, skip, byte(rng.Intn(3)), nil)
		if name == "" {
			continue
		}
		names = append(names, name)
		tips = append(tips, name)
	}
	return names
}

func runNode(c *Ctx) {
	mode := "tree"
	if len(c.Args) > 0 {
		mode = c.Args[0]
	}
	c.Rule = "random block trees built from real signed blocks on a reference node, delivered to the node under test in random permutations interleaved with verification messages; a case is one (tree, delivery order, vote schedule); distinct by its op-line sequence"
	if c.Replay != "" {
		replayNode(c, c.ReplayLines())
		closeParkedNodes()
		return
	}
	if lines := c.CorpusLines(); len(lines) > 0 {
		replayNode(c, lines)
	}
	withOpool := len(c.Args) > 1 && c.Args[1] == "opool"
	for i := 0; i < c.N && !concWedged; i++ {
		if withOpool && i%3 == 2 {
			// orphan pool with capacity limit, LRU eviction and expiry (node_opool.go)
			runNodeCase(c, "opool", c.Seed, i)
			continue
		}
		runNodeCase(c, mode, c.Seed, i)
	}
	closeParkedNodes()
}

// runNodeCase generates and runs case number k of a seed. Every case has its own PRNG
// derived from (seed, k), and its reset line records both, so that one case can be re-run
// alone (replay) exactly.
func runNodeCase(c *Ctx, mode string, seed int64, k int) {
	c.Rng = rand.New(rand.NewSource(seed*1000003 + int64(k)*7919 + 17))
	caseTag = fmt.Sprintf(" mode=%s seed=%d case=%d", mode, seed, k)
	curCase = k
	defer func() { caseTag = "" }()
	switch mode {
	case "ledger":
		genCaseLedger(c, mode)
	case "rules":
		genCaseRules(c, mode)
	case "crash":
		genCaseCrash(c, mode)
	case "pool":
		genCasePool(c, mode)
	case "conc":
		genCaseConc(c, mode)
	case "opool":
		genCaseOpool(c)
	default:
		genCaseTree(c, mode)
	}
}

// caseTag is appended to the reset line of generated cases (empty for literal replays).
var caseTag string

// curCase is the number of the generated case being run.
var curCase int

// genCasePruneThenEquivocate: validator 0 votes for checkpoint A (height 2E); the other three
// validators justify B1 (height E) and B2 (height 2E) on a competing branch, so B1 is finalized
// and the branch of A is pruned from the checkpoint tree; then validator 0 votes for B2 — the
// height of its first vote. It must be refused: the earlier vote is still in the store even
// though the tree has forgotten its branch.
func genCasePruneThenEquivocate(c *Ctx, mode string) {
	rng := c.Rng
	E := uint64(2 + rng.Intn(2))
	nc := newNodeCase(c, mode, E, 4, -1, 2)
	defer nc.close()
	chain := func(from string, n int, arb byte) []string {
		var out []string
		tip := from
		for i := 0; i < n; i++ {
			tip = nc.defBlock(tip, 0, arb, nil)
			if tip == "" {
				return nil
			}
			out = append(out, tip)
		}
		return out
	}
	a := chain("b0", int(2*E), 0) // branch A: its last block is checkpoint A (height 2E)
	b := chain("b0", int(2*E), 1) // branch B: checkpoints B1 (height E) and B2 (height 2E)
	if a == nil || b == nil {
		return
	}
	for _, n := range append(append([]string{}, a...), b...) {
		nc.deliver(n)
	}
	cpA, cpB, cpB2 := a[2*E-1], b[E-1], b[2*E-1]
	nc.vote(0, "b0", cpA, true)
	perm := rng.Perm(3)
	for _, v := range perm {
		nc.vote(1+v, "b0", cpB, true)
	}
	for _, v := range perm {
		nc.vote(1+v, cpB, cpB2, true) // B1 becomes the finalized root: branch A is pruned
	}
	// validator 0 now votes for B2, which has the height of its vote for A (in random order: from
	// the root, from genesis)
	evs := [][2]string{{cpB, cpB2}, {"b0", cpB2}}
	rng.Shuffle(len(evs), func(i, j int) { evs[i], evs[j] = evs[j], evs[i] })
	for _, e := range evs {
		if nc.dead {
			break
		}
		nc.vote(0, e[0], e[1], true)
	}
	if rng.Intn(2) == 0 && !nc.dead {
		nc.restart()
		nc.vote(0, cpB, cpB2, true)
	}
	c.Count("prune-then-equivocate-cases")
	c.Distinct(fmt.Sprintf("prune-equivocate-%d-%d", c.Seed, c.nOps))
}

// genCaseNestedAfterTwoLinks: validator 0 signs two links to the same target C3 (from C2 and from
// genesis) and then a link C1->C2 that lies strictly inside genesis->C3. A span check that stops
// at the first link of the target the validator signed (C2->C3, harmless) admits it.
func genCaseNestedAfterTwoLinks(c *Ctx, mode string) {
	rng := c.Rng
	E := uint64(2 + rng.Intn(2))
	nc := newNodeCase(c, mode, E, 4, -1, 2)
	defer nc.close()
	tip := "b0"
	var blocks []string
	for i := 0; i < int(3*E); i++ {
		tip = nc.defBlock(tip, 0, 0, nil)
		if tip == "" {
			return
		}
		blocks = append(blocks, tip)
		nc.deliver(tip)
	}
	c1, c2, c3 := blocks[E-1], blocks[2*E-1], blocks[3*E-1]
	for _, v := range rng.Perm(3) {
		nc.vote(1+v, "b0", c1, true) // C1 justified
	}
	for _, v := range rng.Perm(3) {
		nc.vote(1+v, c1, c2, true) // C2 justified (C1 finalized)
	}
	first := [][2]string{{c2, c3}, {"b0", c3}}
	if rng.Intn(2) == 0 {
		first[0], first[1] = first[1], first[0]
	}
	for _, e := range first {
		nc.vote(0, e[0], e[1], true)
	}
	nc.vote(0, c1, c2, true) // strictly inside genesis -> C3: must be refused
	c.Count("nested-after-two-links-cases")
	c.Distinct(fmt.Sprintf("nested-two-links-%d-%d", c.Seed, c.nOps))
}

// genCaseSkipJustify: a checkpoint is justified by a link that SKIPS its (already justified)
// parent checkpoint: genesis -> C3 reaches its majority only after genesis -> C2 did (C1 is
// skipped by both, so genesis stays justified and can be a source twice). C3 is justified from
// genesis, its direct parent C2 is justified, yet nothing is finalized: a checkpoint is
// finalized only by a link from it to its direct child. Then C3 -> C4 finalizes C3.
func genCaseSkipJustify(c *Ctx, mode string) {
	rng := c.Rng
	E := uint64(2 + rng.Intn(2))
	nc := newNodeCase(c, mode, E, 4, -1, 2)
	defer nc.close()
	tip := "b0"
	var blocks []string
	for i := 0; i < int(4*E); i++ {
		tip = nc.defBlock(tip, 0, 0, nil)
		if tip == "" {
			return
		}
		blocks = append(blocks, tip)
		nc.deliver(tip)
	}
	c2, c3, c4 := blocks[2*E-1], blocks[3*E-1], blocks[4*E-1]
	p := rng.Perm(4)
	nc.vote(p[0], "b0", c3, true)
	nc.vote(p[1], "b0", c3, true)
	for _, v := range rng.Perm(3) {
		nc.vote(p[v], "b0", c2, true) // C2 justified from genesis (not its direct parent)
	}
	nc.vote(p[2+rng.Intn(2)], "b0", c3, true) // C3 justified from genesis, over its justified parent C2
	if rng.Intn(2) == 0 {
		nc.restart()
	}
	for _, v := range rng.Perm(3) {
		nc.vote(p[1+v], c3, c4, true) // C4 justified, C3 finalized
	}
	c.Count("skip-justify-cases")
	c.Distinct(fmt.Sprintf("skip-justify-%d-%d", c.Seed, c.nOps))
}

// genCaseCachedVoteFlipsForkChoice: the only validator's vote genesis -> B_E arrives BEFORE its
// target block and waits in the verification cache; branch A grows past an epoch, then branch
// B is delivered: the first block of B's next epoch makes the background loop replay the
// cached vote, which justifies B_E on a branch that is not the main chain. Whatever the node
// does with the moved fork choice, block processing must go on: more blocks on both branches
// follow.
func genCaseCachedVoteFlipsForkChoice(c *Ctx, mode string) {
	rng := c.Rng
	E := uint64(2 + rng.Intn(3))
	nc := newNodeCase(c, mode, E, 1, -1, 2)
	defer nc.close()
	nc.implOnly = true
	var as, bs []string
	tipA, tipB := "b0", "b0"
	for i := 0; i < int(E)+2+rng.Intn(2); i++ {
		if tipA = nc.defBlock(tipA, 0, 0, nil); tipA == "" {
			return
		}
		as = append(as, tipA)
	}
	for i := 0; i < int(E)+1; i++ {
		if tipB = nc.defBlock(tipB, 1, 1, nil); tipB == "" {
			return
		}
		bs = append(bs, tipB)
	}
	nc.vote(0, "b0", bs[E-1], true) // target unknown: cached
	for _, a := range as {
		nc.deliver(a)
	}
	for _, b := range bs {
		nc.deliver(b)
	}
	for i := 0; i < 2 && !nc.dead; i++ {
		if nb := nc.defBlock(tipB, 0, 1, nil); nb != "" {
			nc.deliver(nb)
			tipB = nb
		}
		if na := nc.defBlock(tipA, 0, 0, nil); na != "" {
			nc.deliver(na)
			tipA = na
		}
	}
	c.Count("cached-vote-flips-fork-choice-cases")
	c.Distinct(fmt.Sprintf("cached-flip-%d-%d", c.Seed, c.nOps))
}

// genCaseRelabelledVotes: ONE validator signs the links genesis -> C1 and C1 -> C2; every other
// validator's vote for the same links is a relabelled copy of that genuine signature (its
// public key, the first validator's signature bytes), delivered as a message or carried by a
// re-delivered copy of the target block. One genuine vote must stay one vote.
func genCaseRelabelledVotes(c *Ctx, mode string) {
	rng := c.Rng
	E := uint64(2 + rng.Intn(2))
	nc := newNodeCase(c, mode, E, 4, -1, 2)
	defer nc.close()
	nc.env.forceRelabel = true
	tip := "b0"
	var blocks []string
	for i := 0; i < int(2*E)+1; i++ {
		tip = nc.defBlock(tip, 0, 0, nil)
		if tip == "" {
			return
		}
		blocks = append(blocks, tip)
		nc.deliver(tip)
	}
	c1, c2 := blocks[E-1], blocks[2*E-1]
	p := rng.Perm(4)
	for _, link := range [][2]string{{"b0", c1}, {c1, c2}} {
		nc.vote(p[0], link[0], link[1], true)
		for _, v := range rng.Perm(3) {
			if rng.Intn(3) == 0 {
				srcH := uint64(0)
				if link[0] != "b0" {
					srcH = nc.nm.blocks[link[0]].Height
				}
				nc.deliver(link[1], supSpec{src: link[0], srcHeight: srcH, order: p[1+v], valid: false})
			} else {
				nc.vote(p[1+v], link[0], link[1], false)
			}
		}
		if rng.Intn(3) == 0 {
			nc.restart()
		}
	}
	c.Count("relabelled-votes-cases")
	c.Distinct(fmt.Sprintf("relabelled-%d-%d", c.Seed, c.nOps))
}

func genCaseTree(c *Ctx, mode string) {
	rng := c.Rng
	if mode == "tree" {
		switch rng.Intn(20) {
		case 4:
			genCaseRelabelledVotes(c, mode)
			return
		case 5:
			genCaseCachedVoteFlipsForkChoice(c, mode)
			return
		case 0, 1:
			genCasePruneThenEquivocate(c, mode)
			return
		case 2:
			genCaseNestedAfterTwoLinks(c, mode)
			return
		case 3:
			genCaseSkipJustify(c, mode)
			return
		}
	}
	E := uint64(2 + rng.Intn(3))
	nVal := 1 + rng.Intn(4)
	local := rng.Intn(nVal+1) - 1
	nc := newNodeCase(c, mode, E, nVal, local, 2)
	defer nc.close()
	nBlocks := 3 + rng.Intn(12)
	forkBias := []int{5, 20, 35, 60}[rng.Intn(4)]
	names := nc.genTree(nBlocks, forkBias)
	order := append([]string{}, names...)
	style := rng.Intn(4)
	switch style {
	case 0, 3: // in creation order
	case 1: // random permutation
		rng.Shuffle(len(order), func(i, j int) { order[i], order[j] = order[j], order[i] })
	case 2: // reverse
		sort.SliceStable(order, func(i, j int) bool { return i > j })
	}
	c.Count(fmt.Sprintf("order-style=%d", style))
	key := []string{fmt.Sprint(E, nVal, local)}
	for _, name := range order {
		if nc.dead {
			break
		}
		b := nc.nm.blocks[name]
		// block-carried sup links (only checkpoint blocks use them; others just store them)
		var sups []supSpec
		// (crash cases carry no relayed sup links: what unverified header sup links do to a
		// restarted node is recorded separately as F10a–c)
		if rng.Intn(4) == 0 && nc.crashLog == nil {
			sups = nc.randomSups(name)
		}
		nc.deliver(name, sups...)
		key = append(key, name)
		_ = b
		switch rng.Intn(8) {
		case 0, 1:
			nc.randomVote()
		case 2:
			nc.campaign()
		case 3:
			if rng.Intn(3) == 0 {
				nc.restart()
				c.Count("restarts")
			}
		}
	}
	for k := 0; k < 1+rng.Intn(5) && !nc.dead; k++ {
		if rng.Intn(3) == 0 {
			nc.campaign()
		} else {
			nc.randomVote()
		}
	}
	if rng.Intn(4) == 0 && len(order) > 0 && !nc.dead {
		nc.deliver(order[rng.Intn(len(order))]) // redelivery
	}
	if rng.Intn(5) == 0 && !nc.dead {
		nc.restart()
		for k := 0; k < 3 && !nc.dead; k++ {
			nc.randomVote()
		}
	}
	c.Distinct(strings.Join(key, ","))
	c.Count(fmt.Sprintf("E=%d", E))
	c.Count(fmt.Sprintf("V=%d", nVal))
}

// storedCheckpoints lists the checkpoint blocks (height multiple of the epoch) the node
// under test has stored.
func (nc *nodeCase) storedCheckpoints() []string {
	var cps []string
	for _, name := range nc.nm.order {
		h := nc.nm.blocks[name].Hash()
		if _, err := nc.sut.store.GetBlockHeader(&h); err != nil {
			continue
		}
		if nc.nm.blocks[name].Height%nc.env.E == 0 {
			cps = append(cps, name)
		}
	}
	return cps
}

func (nc *nodeCase) ancestorCheckpoints(name string) []string {
	var out []string
	for _, a := range nc.ancestors(name)[1:] {
		if nc.nm.blocks[a].Height%nc.env.E == 0 {
			out = append(out, a)
		}
	}
	return out
}

// randomSups: sup-link slots for a delivered copy of block `name`: mostly valid votes from
// an ancestor checkpoint, plus garbage signatures, wrong source heights and unknown sources.
func (nc *nodeCase) randomSups(name string) []supSpec {
	rng := nc.c.Rng
	var out []supSpec
	anc := nc.ancestorCheckpoints(name)
	if len(anc) > 0 && nc.nm.blocks[name].Height%nc.env.E == 0 && rng.Intn(3) == 0 {
		// a campaign carried by the block itself: one or two links (direct parent checkpoint
		// and / or an older one, in either order), each signed by a random subset of the
		// validators -- several links with partial and full majorities in ONE header
		srcs := []string{anc[0]}
		if len(anc) > 1 && rng.Intn(2) == 0 {
			srcs = append(srcs, anc[1+rng.Intn(len(anc)-1)])
			if rng.Intn(2) == 0 {
				srcs[0], srcs[1] = srcs[1], srcs[0]
			}
		}
		for _, src := range srcs {
			perm := rng.Perm(len(nc.env.keys))
			for _, v := range perm[:1+rng.Intn(len(perm))] {
				out = append(out, supSpec{order: v, valid: rng.Intn(10) != 0, src: src, srcHeight: nc.nm.blocks[src].Height})
			}
		}
		nc.c.Count("deliveries-with-sup")
		nc.c.Count("deliveries-with-sup-campaign")
		return out
	}
	n := 1 + rng.Intn(3)
	for i := 0; i < n; i++ {
		sp := supSpec{order: rng.Intn(len(nc.env.keys) + 1), valid: rng.Intn(4) != 0}
		if sp.order == len(nc.env.keys) {
			sp.order = 9 // a slot no validator owns
		}
		switch {
		case len(anc) > 0 && rng.Intn(6) != 0:
			sp.src = anc[rng.Intn(len(anc))]
			sp.srcHeight = nc.nm.blocks[sp.src].Height
			if rng.Intn(10) == 0 {
				sp.srcHeight += nc.env.E // wrong declared source height
				nc.c.Count("sup-wrong-height")
			}
		case rng.Intn(2) == 0:
			sp.src = fmt.Sprintf("b%d", 900+rng.Intn(3)) // unknown source hash
			sp.srcHeight = 0
			nc.c.Count("sup-unknown-source")
		default:
			all := nc.nm.order
			sp.src = all[rng.Intn(len(all))]
			sp.srcHeight = nc.nm.blocks[sp.src].Height
		}
		out = append(out, sp)
	}
	nc.c.Count("deliveries-with-sup")
	return out
}

func (nc *nodeCase) randomVote() {
	rng := nc.c.Rng
	// Targets are checkpoint blocks the node under test has stored: a verification for an
	// unknown target is parked in a cache and handled later by a background goroutine
	// (asynchronous; exercised by the cached-vote stream only).
	cps := nc.storedCheckpoints()
	if len(cps) < 2 {
		return
	}
	tgt := cps[rng.Intn(len(cps))]
	var src string
	if anc := nc.ancestorCheckpoints(tgt); len(anc) > 0 && rng.Intn(5) != 0 {
		src = anc[rng.Intn(len(anc))]
	} else {
		src = cps[rng.Intn(len(cps))]
	}
	nc.vote(rng.Intn(len(nc.env.keys)), src, tgt, rng.Intn(8) != 0)
	nc.c.Count("votes")
}

// campaign: several validators vote for the same link (this is what justifies / finalizes).
func (nc *nodeCase) campaign() {
	rng := nc.c.Rng
	cps := nc.storedCheckpoints()
	if len(cps) < 2 {
		return
	}
	tgt := cps[rng.Intn(len(cps))]
	anc := nc.ancestorCheckpoints(tgt)
	if len(anc) == 0 {
		return
	}
	src := anc[0] // usually the direct parent checkpoint
	if rng.Intn(4) == 0 {
		src = anc[rng.Intn(len(anc))]
	}
	if rng.Intn(10) == 0 {
		src = cps[rng.Intn(len(cps))] // any stored checkpoint, possibly on another branch
		nc.c.Count("campaigns-arbitrary-source")
	}
	perm := rng.Perm(len(nc.env.keys))
	k := 1 + rng.Intn(len(perm))
	for _, v := range perm[:k] {
		if nc.dead {
			return
		}
		nc.vote(v, src, tgt, true)
	}
	nc.c.Count("campaigns")
}

// replayNode re-executes recorded op lines (reset/def/deliver/vote) on the real node.
func replayNode(c *Ctx, lines []string) {
	var nc *nodeCase
	skipGenerated := false
	kv := func(w []string) map[string]string {
		m := map[string]string{}
		for _, x := range w {
			if i := strings.IndexByte(x, '='); i > 0 {
				m[x[:i]] = x[i+1:]
			}
		}
		return m
	}
	atoi := func(s string) int { var n int; fmt.Sscan(s, &n); return n }
	for _, l := range lines {
		w := strings.Fields(l)
		if len(w) == 0 {
			continue
		}
		m := kv(w[1:])
		if skipGenerated && w[0] != "reset" {
			continue
		}
		switch w[0] {
		case "reset":
			if nc != nil {
				nc.close()
				nc = nil
			}
			skipGenerated = false
			if m["seed"] != "" && m["case"] != "" {
				// a generated case: re-run its generator instead of interpreting the lines
				var sd int64
				fmt.Sscan(m["seed"], &sd)
				runNodeCase(c, m["mode"], sd, atoi(m["case"]))
				skipGenerated = true
				continue
			}
			local := -1
			if m["local"] != "-" {
				local = atoi(m["local"])
			}
			nc = newNodeCase(c, "replay", uint64(atoi(m["E"])), atoi(m["V"]), local, uint64(atoi(m["pend"])))
		case "def":
			if nc == nil {
				continue
			}
			// re-create the same block: parent, slot and the coinbase arbitrary byte determine it
			p := nc.nm.blocks[m["parent"]]
			if p == nil {
				continue
			}
			g := nc.nm.blocks["b0"]
			slot := uint64(atoi(m["slot"]))
			pslot := (p.Timestamp - g.Timestamp) / nodeInterval
			if slot <= pslot {
				continue
			}
			nc.defBlock(m["parent"], slot-pslot-1, byte(atoi(m["arb"])), nil)
		case "deliver":
			if nc != nil && nc.nm.blocks[w[1]] != nil && !nc.dead {
				var sups []supSpec
				if m["sup"] != "" {
					for _, part := range strings.Split(m["sup"], ";") {
						f := strings.Split(part, ":")
						if len(f) != 3 {
							continue
						}
						for _, sg := range strings.Split(f[2], ",") {
							if len(sg) < 2 {
								continue
							}
							sups = append(sups, supSpec{src: f[0], srcHeight: uint64(atoi(f[1])), order: atoi(sg[:len(sg)-1]), valid: sg[len(sg)-1] == 'v'})
						}
					}
				}
				nc.deliver(w[1], sups...)
			}
		case "restart":
			if nc != nil && !nc.dead {
				nc.restart()
			}
		case "vote":
			if nc != nil && !nc.dead && nc.nm.blocks[m["src"]] != nil && nc.nm.blocks[m["tgt"]] != nil {
				nc.vote(atoi(m["v"]), m["src"], m["tgt"], m["sig"] == "1")
			}
		}
	}
	if nc != nil {
		nc.close()
	}
}

func init() { register("node", runNode) }
