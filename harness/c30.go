//go:build hc30 || hall

package main

import (
	"encoding/hex"
	"fmt"
	"sort"
	"strconv"
	"strings"

	"github.com/bytom/bytom/protocol/bc"
	"github.com/bytom/bytom/protocol/bc/types"
)

// C30: merkle inclusion proofs (protocol/bc/types/merkle.go), real implementation in-process.
//
//	root <ids>                                        => <root>
//	proof <ids> <relids>                              => <hashes> <flags>
//	validate <hashes> <flags> <relids> <root> #<expect>:<kind>:<detail>  => true|false
//	ppt <n>                                           => prevPowerOfTwo(n)
//
//	reset                                             => ok   (case boundary: proof generation is also
//	                                                  exercised in SEQUENCES within one process — lists of
//	                                                  equal length and equal first id that differ elsewhere,
//	                                                  repeated requests for one list — so a failing line is
//	                                                  replayed together with the lines before it)
//
// Lists are comma separated hex, "-" = empty.  The `#…` word is ignored by the model driver;
// it carries the DIRECT ORACLE's expectation (true / false / any) so that a single line is
// a complete replay: completeness (generated proof validates), wrong root, foreign id,
// every tampered hash / flag must give false; a proof that validates against the list's
// root must only relate ids of the list (soundness) — evaluated on the implementation alone.

func c30hex(h bc.Hash) string { return hex.EncodeToString(h.Bytes()) }

func c30list(hs []bc.Hash) string {
	if len(hs) == 0 {
		return "-"
	}
	s := make([]string, len(hs))
	for i, h := range hs {
		s[i] = c30hex(h)
	}
	return strings.Join(s, ",")
}

func c30flags(fs []uint8) string {
	if len(fs) == 0 {
		return "-"
	}
	s := make([]string, len(fs))
	for i, f := range fs {
		s[i] = strconv.Itoa(int(f))
	}
	return strings.Join(s, ",")
}

func c30parseList(s string) ([]bc.Hash, bool) {
	if s == "-" {
		return nil, true
	}
	var out []bc.Hash
	for _, w := range strings.Split(s, ",") {
		b, err := hex.DecodeString(w)
		if err != nil || len(b) != 32 {
			return nil, false
		}
		var a [32]byte
		copy(a[:], b)
		out = append(out, bc.NewHash(a))
	}
	return out, true
}

func c30parseFlags(s string) ([]uint8, bool) {
	if s == "-" {
		return nil, true
	}
	var out []uint8
	for _, w := range strings.Split(s, ",") {
		v, err := strconv.Atoi(w)
		if err != nil || v < 0 || v > 255 {
			return nil, false
		}
		out = append(out, uint8(v))
	}
	return out, true
}

func c30txs(ids []bc.Hash) []*types.Tx {
	txs := make([]*types.Tx, len(ids))
	for i := range ids {
		txs[i] = &types.Tx{Tx: &bc.Tx{ID: ids[i]}}
	}
	return txs
}

func c30root(ids []bc.Hash) bc.Hash {
	txs := make([]*bc.Tx, len(ids))
	for i := range ids {
		txs[i] = &bc.Tx{ID: ids[i]}
	}
	r, err := types.TxMerkleRoot(txs)
	if err != nil {
		panic(err)
	}
	return r
}

// proofs handed out earlier in the current case, kept ALIVE exactly as the API returned them
// (pointers), with a copy of what they said when they were handed out (retention oracle)
type c30held struct {
	ptrs  []*bc.Hash
	fptr  []uint8
	hs    []bc.Hash
	fs    []uint8
	rel   []bc.Hash
	root  bc.Hash
	det   string
	valid bool // rel was an ordered sub-list of distinct ids: the proof validated when handed out
}

var c30retained []*c30held

func c30proof(ids, rel []bc.Hash) ([]bc.Hash, []uint8) {
	hp, fs := types.GetTxMerkleTreeProof(c30txs(ids), c30txs(rel))
	hs := make([]bc.Hash, len(hp))
	for i, p := range hp {
		hs[i] = *p
	}
	if len(c30retained) >= 24 {
		c30retained = c30retained[1:]
	}
	c30retained = append(c30retained, &c30held{ptrs: hp, fptr: fs, hs: hs, fs: append([]uint8{}, fs...), rel: rel})
	return hs, fs
}

// re-read every proof still held from earlier requests of this case: it must say what it said when
// it was handed out (and still validate)
func c30checkRetained(c *Ctx, except *c30held) {
	for _, h := range c30retained {
		if h == except || h.det == "" {
			continue
		}
		changed := len(h.fptr) != len(h.fs)
		now := make([]bc.Hash, len(h.ptrs))
		for i, p := range h.ptrs {
			now[i] = *p
			if now[i] != h.hs[i] {
				changed = true
			}
		}
		for i := range h.fs {
			if i < len(h.fptr) && h.fptr[i] != h.fs[i] {
				changed = true
			}
		}
		if changed {
			c.Count("retained/changed")
			if h.valid {
				// the proof as it reads NOW no longer validates: a replayable line
				c30val(c, now, h.fptr, h.rel, h.root, "true", "proof-changes-later", h.det)
			}
			c.Fail("proof-changes-later:"+h.det, fmt.Sprintf("a proof handed out earlier reads differently after later proofs were generated: was %s, now %s", c30list(h.hs), c30list(now)))
			h.det = "" // report once
		} else {
			c.Count("retained/unchanged")
		}
	}
}

func c30validate(hs []bc.Hash, fs []uint8, rel []bc.Hash, root bc.Hash) (res bool, panicked string) {
	defer func() {
		if r := recover(); r != nil {
			panicked = fmt.Sprint(r)
		}
	}()
	hp := make([]*bc.Hash, len(hs))
	for i := range hs {
		h := hs[i]
		hp[i] = &h
	}
	rp := make([]*bc.Hash, len(rel))
	for i := range rel {
		h := rel[i]
		rp[i] = &h
	}
	return types.ValidateTxMerkleTreeProof(hp, fs, rp, root), ""
}

func c30reset(c *Ctx) {
	c30retained = nil
	c.Op("reset", "ok")
}

// leaf hash of an id (= merkle root of the one-element list)
func c30leaf(id bc.Hash) bc.Hash { return c30root([]bc.Hash{id}) }

// is rel an in-order sub-list of distinct ids?
func c30ordered(ids, rel []bc.Hash) bool {
	seen := map[bc.Hash]bool{}
	for _, x := range ids {
		if seen[x] {
			return false
		}
		seen[x] = true
	}
	j := 0
	for _, r := range rel {
		for j < len(ids) && ids[j] != r {
			j++
		}
		if j == len(ids) {
			return false
		}
		j++
	}
	return true
}

// one proof line + the direct oracles on the generated proof: it contains exactly the requested
// leaves (in order) and validates against the list's OWN root
func c30proofOp(c *Ctx, ids, rel []bc.Hash, det string) ([]bc.Hash, []uint8) {
	hs, fs := c30proof(ids, rel)
	held := c30retained[len(c30retained)-1]
	held.det, held.root, held.valid = det, c30root(ids), c30ordered(ids, rel)
	c.Op(fmt.Sprintf("proof %s %s", c30list(ids), c30list(rel)), c30list(hs)+" "+c30flags(fs))
	defer c30checkRetained(c, held)
	if !c30ordered(ids, rel) {
		return hs, fs
	}
	var leaves []bc.Hash
	hi := 0
	for _, f := range fs {
		if f == types.FlagTxParent {
			continue
		}
		if hi < len(hs) && f == types.FlagTxLeaf {
			leaves = append(leaves, hs[hi])
		}
		hi++
	}
	want := make([]bc.Hash, len(rel))
	for i := range rel {
		want[i] = c30leaf(rel[i])
	}
	if len(ids) > 0 && c30list(leaves) != c30list(want) {
		c.Fail("proof-leaves:"+det, fmt.Sprintf("generated proof marks leaves %s, requested %s", c30list(leaves), c30list(want)))
	}
	c30val(c, hs, fs, rel, c30root(ids), "true", "complete", det)
	return hs, fs
}

// one validate line + oracle
func c30val(c *Ctx, hs []bc.Hash, fs []uint8, rel []bc.Hash, root bc.Hash, expect, kind, detail string) bool {
	res, pan := c30validate(hs, fs, rel, root)
	line := fmt.Sprintf("validate %s %s %s %s #%s:%s:%s", c30list(hs), c30flags(fs), c30list(rel), c30hex(root), expect, kind, detail)
	out := strconv.FormatBool(res)
	if pan != "" {
		out = "panic"
	}
	c.Op(line, out)
	c.Count("validate/" + kind + "/" + out)
	c.Distinct(line)
	if pan != "" {
		c.Fail(kind+":"+detail, "ValidateTxMerkleTreeProof panicked: "+pan)
		return res
	}
	if expect != "any" && out != expect {
		c.Fail(kind+":"+detail, fmt.Sprintf("ValidateTxMerkleTreeProof returned %s, property requires %s", out, expect))
	}
	return res
}

func c30ppt(c *Ctx, n int) {
	k := types.VerifPrevPowerOfTwo(n)
	c.Op(fmt.Sprintf("ppt %d", n), strconv.Itoa(k))
	c.Count("ppt")
	if n >= 2 {
		if k <= 0 || k&(k-1) != 0 || !(k < n && n <= 2*k) {
			c.Fail(fmt.Sprintf("ppt:%d", n), fmt.Sprintf("prevPowerOfTwo(%d)=%d is not the power of two k with k < n <= 2k", n, k))
		}
	}
}

func c30exec(c *Ctx, line string) {
	w := strings.Fields(line)
	if len(w) == 0 {
		return
	}
	switch {
	case w[0] == "reset":
		c30retained = nil
		c.Op(line, "ok")
	case w[0] == "root" && len(w) >= 2:
		ids, ok := c30parseList(w[1])
		if !ok {
			return
		}
		c.Op(line, c30hex(c30root(ids)))
	case w[0] == "proof" && len(w) >= 3:
		ids, ok1 := c30parseList(w[1])
		rel, ok2 := c30parseList(w[2])
		if !ok1 || !ok2 {
			return
		}
		c30proofOp(c, ids, rel, fmt.Sprintf("replay,n=%d", len(ids)))
	case w[0] == "validate" && len(w) >= 5:
		hs, ok1 := c30parseList(w[1])
		fs, ok2 := c30parseFlags(w[2])
		rel, ok3 := c30parseList(w[3])
		rt, ok4 := c30parseList(w[4])
		if !ok1 || !ok2 || !ok3 || !ok4 || len(rt) != 1 {
			return
		}
		expect, kind, detail := "any", "replay", ""
		if len(w) >= 6 && strings.HasPrefix(w[5], "#") {
			p := strings.SplitN(w[5][1:], ":", 3)
			expect = p[0]
			if len(p) > 1 {
				kind = p[1]
			}
			if len(p) > 2 {
				detail = p[2]
			}
		}
		c30val(c, hs, fs, rel, rt[0], expect, kind, detail)
	case w[0] == "ppt" && len(w) >= 2:
		n, err := strconv.Atoi(w[1])
		if err == nil {
			c30ppt(c, n)
		}
	}
}

func c30randHash(c *Ctx) bc.Hash {
	var a [32]byte
	c.Rng.Read(a[:])
	return bc.NewHash(a)
}

func c30ids(c *Ctx, n int) []bc.Hash {
	seen := map[bc.Hash]bool{}
	var out []bc.Hash
	for len(out) < n {
		h := c30randHash(c)
		if c.Rng.Intn(8) == 0 { // structured ids: small counters, shared prefixes
			var a [32]byte
			a[31] = byte(len(out))
			a[0] = byte(c.Rng.Intn(2))
			h = bc.NewHash(a)
		}
		if !seen[h] {
			seen[h] = true
			out = append(out, h)
		}
	}
	return out
}

func c30sub(ids []bc.Hash, idx []int) []bc.Hash {
	out := make([]bc.Hash, len(idx))
	for i, j := range idx {
		out[i] = ids[j]
	}
	return out
}

func c30idxStr(idx []int) string {
	s := make([]string, len(idx))
	for i, j := range idx {
		s[i] = strconv.Itoa(j)
	}
	return strings.Join(s, ".")
}

// an alternative (non-canonical) proof for `in` over ids[lo:hi): segments without related ids are
// randomly either cut (assist) or expanded
func c30altProof(c *Ctx, ids []bc.Hash, in map[int]bool, lo, hi int, hs *[]bc.Hash, fs *[]uint8) {
	any := false
	for i := lo; i < hi; i++ {
		if in[i] {
			any = true
		}
	}
	if hi-lo == 1 {
		if any {
			*fs = append(*fs, types.FlagTxLeaf)
		} else {
			*fs = append(*fs, types.FlagAssist)
		}
		*hs = append(*hs, c30root(ids[lo:hi]))
		return
	}
	if !any && c.Rng.Intn(2) == 0 {
		*fs = append(*fs, types.FlagAssist)
		*hs = append(*hs, c30root(ids[lo:hi]))
		return
	}
	k := types.VerifPrevPowerOfTwo(hi - lo)
	*fs = append(*fs, types.FlagTxParent)
	c30altProof(c, ids, in, lo, lo+k, hs, fs)
	c30altProof(c, ids, in, lo+k, hi, hs, fs)
}

// everything the property says about one (list, subset) pair
func c30case(c *Ctx, ids []bc.Hash, idx []int, maxTamper int) {
	n := len(ids)
	rel := c30sub(ids, idx)
	root := c30root(ids)
	det := fmt.Sprintf("n=%d,sub=%s", n, c30idxStr(idx))
	// generation + completeness (+ exactly the requested leaves)
	hs, fs := c30proofOp(c, ids, rel, det)
	c.Count(fmt.Sprintf("proof/n=%02d", n))
	c.Count(fmt.Sprintf("subset-size/%02d", len(idx)))
	// wrong root
	wr := c30randHash(c)
	switch c.Rng.Intn(3) {
	case 0:
		wr = bc.EmptyStringHash
		if n == 0 {
			wr = bc.Hash{}
		}
	case 1:
		if len(hs) > 0 && hs[0] != root {
			wr = hs[0]
		}
	}
	c30val(c, hs, fs, rel, wr, "false", "wrong-root", det)
	// a foreign id among the related ones (not in the list)
	if true {
		foreign := c30randHash(c)
		pos := 0
		if len(rel) > 0 {
			pos = c.Rng.Intn(len(rel) + 1)
		}
		rel2 := append(append(append([]bc.Hash{}, rel[:pos]...), foreign), rel[pos:]...)
		c30val(c, hs, fs, rel2, root, "false", "foreign-insert", det)
		if len(rel) > 0 {
			rel3 := append([]bc.Hash{}, rel...)
			rel3[c.Rng.Intn(len(rel))] = foreign
			c30val(c, hs, fs, rel3, root, "false", "foreign-replace", det)
			h2, f2 := c30proof(ids, rel3)
			c30val(c, h2, f2, rel3, root, "false", "foreign-genproof", det)
		}
	}
	// tampering: every (or maxTamper sampled) position
	pick := func(m int) []int {
		all := make([]int, m)
		for i := range all {
			all[i] = i
		}
		if m <= maxTamper {
			return all
		}
		c.Rng.Shuffle(m, func(i, j int) { all[i], all[j] = all[j], all[i] })
		all = all[:maxTamper]
		sort.Ints(all)
		return all
	}
	for _, i := range pick(len(hs)) {
		var cands []bc.Hash
		cands = append(cands, c30randHash(c), bc.EmptyStringHash)
		if len(hs) > 1 {
			cands = append(cands, hs[(i+1)%len(hs)])
		}
		if n > 0 {
			cands = append(cands, ids[c.Rng.Intn(n)], root)
		}
		for k, nh := range cands {
			if nh == hs[i] {
				continue
			}
			if k >= 2 && c.Rng.Intn(2) == 0 && maxTamper < 1000 {
				continue
			}
			t := append([]bc.Hash{}, hs...)
			t[i] = nh
			c30val(c, t, fs, rel, root, "false", "tamper-hash", fmt.Sprintf("%s,pos=%d,new=%d", det, i, k))
		}
	}
	for _, i := range pick(len(fs)) {
		for nf := uint8(0); nf < 4; nf++ {
			if nf == fs[i] {
				continue
			}
			t := append([]uint8{}, fs...)
			t[i] = nf
			c30val(c, hs, t, rel, root, "false", "tamper-flag", fmt.Sprintf("%s,pos=%d,new=%d", det, i, nf))
		}
		if c.Rng.Intn(4) == 0 {
			t := append([]uint8{}, fs...)
			t[i] = uint8(4 + c.Rng.Intn(252))
			c30val(c, hs, t, rel, root, "false", "tamper-flag", fmt.Sprintf("%s,pos=%d,new=%d", det, i, t[i]))
		}
	}
	// non-canonical but valid proofs (soundness side is exercised with proofs that DO validate)
	if n > 0 {
		in := map[int]bool{}
		for _, j := range idx {
			in[j] = true
		}
		var ah []bc.Hash
		var af []uint8
		c30altProof(c, ids, in, 0, n, &ah, &af)
		c30val(c, ah, af, rel, root, "true", "alt-proof", det)
		if len(rel) > 0 {
			rel3 := append([]bc.Hash{}, rel...)
			rel3[c.Rng.Intn(len(rel))] = c30randHash(c)
			c30val(c, ah, af, rel3, root, "false", "alt-proof-foreign", det)
		}
		// trailing junk after a valid proof is ignored by the validator (recorded, differential only)
		c30val(c, append(append([]bc.Hash{}, ah...), c30randHash(c)), append(append([]uint8{}, af...), 1), rel, root, "any", "alt-proof-trailing", det)
	}
}

// random flag/hash streams drawn from the tree's own hashes: the soundness oracle
// (validates against root(ids) ⇒ every related id is in ids)
func c30random(c *Ctx, ids []bc.Hash) {
	n := len(ids)
	root := c30root(ids)
	var pool []bc.Hash
	pool = append(pool, root, bc.EmptyStringHash)
	for i := 0; i < n; i++ {
		pool = append(pool, c30root(ids[i:i+1]), ids[i])
		if i+2 <= n {
			pool = append(pool, c30root(ids[i:i+2]))
		}
	}
	m := c.Rng.Intn(8)
	hs := make([]bc.Hash, m)
	for i := range hs {
		hs[i] = pool[c.Rng.Intn(len(pool))]
	}
	fs := make([]uint8, c.Rng.Intn(10))
	for i := range fs {
		fs[i] = uint8(c.Rng.Intn(4))
	}
	var rel []bc.Hash
	inList := true
	for i := c.Rng.Intn(3); i > 0; i-- {
		if n > 0 && c.Rng.Intn(3) != 0 {
			rel = append(rel, ids[c.Rng.Intn(n)])
		} else {
			rel = append(rel, c30randHash(c))
			inList = false
		}
	}
	expect := "any"
	if !inList {
		expect = "false"
	}
	c30val(c, hs, fs, rel, root, expect, "random-stream", fmt.Sprintf("n=%d", n))
}

// proof generation in a SEQUENCE within one process: lists of the same length with the same first
// id (two competing blocks with the same coinbase) that differ in one or more other leaves, and
// repeated requests for one list with different related sets
func c30sequence(c *Ctx, n int) {
	c30reset(c)
	base := c30ids(c, n)
	variants := [][]bc.Hash{base}
	for v := 0; v < 2+c.Rng.Intn(2); v++ {
		w := append([]bc.Hash{}, variants[c.Rng.Intn(len(variants))]...)
		if n >= 2 {
			for k := 0; k < 1+c.Rng.Intn(2); k++ {
				pos := 1 + c.Rng.Intn(n-1)
				for {
					h := c30randHash(c)
					dup := false
					for _, x := range w {
						if x == h {
							dup = true
						}
					}
					if !dup {
						w[pos] = h
						break
					}
				}
			}
		}
		variants = append(variants, w)
	}
	steps := 4 + c.Rng.Intn(5)
	for s := 0; s < steps; s++ {
		ids := variants[c.Rng.Intn(len(variants))]
		if s < len(variants) {
			ids = variants[s] // every variant once, in order, first
		}
		var idx []int
		switch c.Rng.Intn(4) {
		case 0:
			if n > 0 {
				idx = []int{c.Rng.Intn(n)}
			}
		case 1:
			if n > 0 {
				idx = []int{0}
			}
		default:
			p := []int{2, 3, 5}[c.Rng.Intn(3)]
			for i := 0; i < n; i++ {
				if c.Rng.Intn(p) == 0 {
					idx = append(idx, i)
				}
			}
		}
		det := fmt.Sprintf("seq,n=%d,step=%d,sub=%s", n, s, c30idxStr(idx))
		c.Op("root "+c30list(ids), c30hex(c30root(ids)))
		c30proofOp(c, ids, c30sub(ids, idx), det)
		c.Count("sequence-steps")
	}
}

func c30subsets(c *Ctx, n int, all bool, k int) [][]int {
	var out [][]int
	if all {
		for m := 0; m < 1<<uint(n); m++ {
			var s []int
			for i := 0; i < n; i++ {
				if m>>uint(i)&1 == 1 {
					s = append(s, i)
				}
			}
			out = append(out, s)
		}
		return out
	}
	out = append(out, nil)
	full := make([]int, n)
	for i := range full {
		full[i] = i
	}
	out = append(out, full)
	if n > 0 {
		out = append(out, []int{0}, []int{n - 1}, []int{c.Rng.Intn(n)})
	}
	for j := 0; j < k; j++ {
		var s []int
		p := []int{2, 4, 8, 16}[c.Rng.Intn(4)]
		for i := 0; i < n; i++ {
			if c.Rng.Intn(p) == 0 {
				s = append(s, i)
			}
		}
		out = append(out, s)
	}
	return out
}

func runC30(c *Ctx) {
	c.Rule = "proof requests in SEQUENCES within one process (lists of equal length and equal first id differing in other leaves, repeated requests with different related sets; every generated proof must mark exactly the requested leaves and validate against the list's own root); for every list size 0..64 of distinct ids: root; subsets (all subsets for small n, else empty/full/first/last/random); per subset the generated proof, its validation, a wrong root, a foreign related id, every (small n) or sampled tampering of one proof hash and one flag, a non-canonical valid proof; random flag/hash streams; duplicate-id and out-of-order lists (differential only); prevPowerOfTwo on a range and around all powers of two up to 2^31. A case is distinct by its full op line."
	if c.Replay != "" {
		for _, l := range c.ReplayLines() {
			c30exec(c, l)
		}
		return
	}
	for _, l := range c.CorpusLines() {
		c30exec(c, l)
	}
	thorough := c.Tier != "quick"
	allUpTo, tamperAllUpTo, maxTamper, extra := 4, 8, 3, 1
	pptRange := 1 << 12
	if thorough {
		allUpTo, tamperAllUpTo, maxTamper, extra = 7, 24, 10, 4
		pptRange = 1 << 20
	}
	// prevPowerOfTwo
	for n := 0; n <= pptRange; n++ {
		c30ppt(c, n)
	}
	for e := uint(1); e <= 31; e++ {
		for d := -2; d <= 2; d++ {
			n := (1 << e) + d
			if n >= 0 && n <= 1<<31 {
				c30ppt(c, n)
			}
		}
	}
	// sequences of proof requests within this process
	for _, n := range []int{1, 2, 3, 4, 5, 8, 13, 33} {
		c30sequence(c, n)
	}
	for i := 0; i < c.N/10; i++ {
		c30sequence(c, 1+c.Rng.Intn(20))
	}
	for n := 0; n <= 64; n++ {
		c30reset(c)
		ids := c30ids(c, n)
		c.Op("root "+c30list(ids), c30hex(c30root(ids)))
		mt := maxTamper
		if n <= tamperAllUpTo {
			mt = 1 << 20
		}
		for _, idx := range c30subsets(c, n, n <= allUpTo, extra) {
			c30case(c, ids, idx, mt)
		}
	}
	// random sizes, N cases
	for i := 0; i < c.N; i++ {
		c30reset(c)
		n := c.Rng.Intn(65)
		if c.Rng.Intn(2) == 0 {
			n = c.Rng.Intn(12)
		}
		ids := c30ids(c, n)
		switch c.Rng.Intn(6) {
		case 0, 1:
			ss := c30subsets(c, n, false, 1)
			c30case(c, ids, ss[len(ss)-1], 2)
		case 2, 3:
			c30random(c, ids)
		case 4:
			// outside the property (recorded): duplicate ids in the list
			if n >= 2 {
				d := append([]bc.Hash{}, ids...)
				d[c.Rng.Intn(n)] = d[c.Rng.Intn(n)]
				rel := []bc.Hash{d[c.Rng.Intn(n)]}
				root := c30root(d)
				hs, fs := c30proof(d, rel)
				c.Op(fmt.Sprintf("proof %s %s", c30list(d), c30list(rel)), c30list(hs)+" "+c30flags(fs))
				c30val(c, hs, fs, rel, root, "any", "duplicate-ids", fmt.Sprintf("n=%d", n))
			}
		case 5:
			// outside the property (recorded): related ids out of list order
			if n >= 2 {
				i, j := c.Rng.Intn(n), c.Rng.Intn(n)
				rel := []bc.Hash{ids[i], ids[j]}
				root := c30root(ids)
				hs, fs := c30proof(ids, rel)
				c.Op(fmt.Sprintf("proof %s %s", c30list(ids), c30list(rel)), c30list(hs)+" "+c30flags(fs))
				exp := "any"
				if i < j {
					exp = "true"
				}
				c30val(c, hs, fs, rel, root, exp, "rel-order", fmt.Sprintf("n=%d,i=%d,j=%d", n, i, j))
			}
		}
	}
}

func init() { register("c30", runC30) }
