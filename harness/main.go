// Command harness runs the REAL implementation (module github.com/bytom/bytom replaced by
// /repo, built with -tags verif) on generated inputs and writes, per sub-command:
//
//	ops.txt     one operation per line — the exact lines the Lean driver is fed
//	impl.txt    one canonical result line per operation line, from the implementation
//	oracle.txt  FAIL<TAB>signature<TAB>detail   for every input on which the property's
//	            direct oracle (no model involved) fails on the implementation
//	stats.json  what was generated: counts, distributions, samples
package main

import (
	"bufio"
	"encoding/json"
	"flag"
	"fmt"
	"math/rand"
	"os"
	"path/filepath"
	"sort"
)

type Ctx struct {
	Seed   int64
	N      int
	Tier   string
	Rng    *rand.Rand
	Replay string // path of a replay ops file (one op per line) or ""
	Corpus string // path of a corpus ops file run before generation, or ""
	Args   []string

	ops, impl, oracle *bufio.Writer
	files             []*os.File
	nOps              int
	nFail             int
	Dist              map[string]int
	Samples           []string
	distinct          map[string]struct{}
	Rule              string
	Extra             map[string]interface{}
}

// Op records one operation line and the implementation's answer.
func (c *Ctx) Op(op, result string) {
	fmt.Fprintln(c.ops, op)
	fmt.Fprintln(c.impl, result)
	c.nOps++
	if len(c.Samples) < 12 && (c.nOps%97 == 1 || c.nOps < 4) {
		c.Samples = append(c.Samples, op+" => "+result)
	}
}

// Distinct counts a non-trivial case by key (the caller decides what non-trivial means).
func (c *Ctx) Distinct(key string) { c.distinct[key] = struct{}{} }

func (c *Ctx) Count(k string) { c.Dist[k]++ }

// Fail records a direct-oracle failure of the property on the implementation.
func (c *Ctx) Fail(signature, detail string) {
	fmt.Fprintf(c.oracle, "FAIL\t%s\t%s\t%d\n", signature, detail, c.nOps-1)
	c.nFail++
}

type command func(c *Ctx)

var commands = map[string]command{}

func register(name string, f command) { commands[name] = f }

func main() {
	if len(os.Args) < 2 {
		names := []string{}
		for n := range commands {
			names = append(names, n)
		}
		sort.Strings(names)
		fmt.Println("commands:", names)
		os.Exit(2)
	}
	name := os.Args[1]
	fs := flag.NewFlagSet(name, flag.ExitOnError)
	seed := fs.Int64("seed", 1, "PRNG seed")
	n := fs.Int("n", 1000, "number of cases")
	out := fs.String("out", "", "output directory")
	tier := fs.String("tier", "quick", "tier")
	replay := fs.String("replay", "", "replay ops file")
	corpus := fs.String("corpus", "", "corpus ops file (run first)")
	fs.Parse(os.Args[2:])
	cmd, ok := commands[name]
	if !ok {
		fmt.Fprintln(os.Stderr, "unknown command", name)
		os.Exit(2)
	}
	if *out == "" {
		fmt.Fprintln(os.Stderr, "need -out")
		os.Exit(2)
	}
	os.MkdirAll(*out, 0o755)
	c := &Ctx{Seed: *seed, N: *n, Tier: *tier, Rng: rand.New(rand.NewSource(*seed)), Replay: *replay, Corpus: *corpus, Args: fs.Args(),
		Dist: map[string]int{}, distinct: map[string]struct{}{}, Extra: map[string]interface{}{}}
	open := func(n string) *bufio.Writer {
		f, err := os.Create(filepath.Join(*out, n))
		if err != nil {
			panic(err)
		}
		c.files = append(c.files, f)
		return bufio.NewWriterSize(f, 1<<20)
	}
	c.ops, c.impl, c.oracle = open("ops.txt"), open("impl.txt"), open("oracle.txt")
	cmd(c)
	c.ops.Flush()
	c.impl.Flush()
	c.oracle.Flush()
	for _, f := range c.files {
		f.Close()
	}
	stats := map[string]interface{}{
		"evaluations": c.nOps, "distinct_nontrivial": len(c.distinct), "rule": c.Rule,
		"dist": c.Dist, "samples": c.Samples, "oracle_failures": c.nFail, "extra": c.Extra,
	}
	b, _ := json.MarshalIndent(stats, "", " ")
	if err := os.WriteFile(filepath.Join(*out, "stats.json"), b, 0o644); err != nil {
		panic(err)
	}
}

// ReplayLines returns the lines of the replay file, or nil when not replaying.
func (c *Ctx) ReplayLines() []string { return readLines(c.Replay) }

// CorpusLines returns the corpus lines (minimised past failures, known-finding witnesses).
func (c *Ctx) CorpusLines() []string { return readLines(c.Corpus) }

func readLines(path string) []string {
	if path == "" {
		return nil
	}
	f, err := os.Open(path)
	if err != nil {
		panic(err)
	}
	defer f.Close()
	var out []string
	sc := bufio.NewScanner(f)
	sc.Buffer(make([]byte, 1<<20), 1<<26)
	for sc.Scan() {
		if sc.Text() != "" {
			out = append(out, sc.Text())
		}
	}
	return out
}
