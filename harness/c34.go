//go:build hc34 || hall

package main

import (
	"encoding/binary"
	"fmt"
	"strconv"
	"strings"

	"github.com/bytom/bytom/p2p/discover/dht"
)

// C34: the Kademlia routing table of p2p/discover/dht/table.go through the hook VerifTable.
//
//	reset <self> <id>:<bucket> …    new empty table; the population with the bucket every id
//	                                must fall into (the harness searches a NodeID whose
//	                                logdist to self is that bucket)
//	add <id> | stuff <id>… | del <id> | delrep <id> | bump <id>
//	result: c=<count> r=<contested|bump result> | <bucket>: e=<entries> r=<replacements> | …
//
// Direct oracle after every op: every bucket ≤ 16 entries, entries pairwise distinct, every
// entry in the bucket of its distance, self absent (entries and replacements), count = Σ entries.

const c34SigDup = "duplicate bucket entry after add/stuff inserted a node still parked in replacements"

var c34dups int

type c34state struct {
	tab     *dht.VerifTable
	ids     map[uint64]dht.NodeID
	labels  map[dht.NodeID]uint64
	self    uint64
	parked  bool // a parked node has been inserted into entries in this case
	buckets map[uint64]int
}

var c34idCache = map[[3]uint64]dht.NodeID{}

func c34id(self *dht.VerifTable, label uint64, bucket int, isSelf bool) dht.NodeID {
	if !isSelf {
		key := [3]uint64{binary.BigEndian.Uint64(self.Self().ID[0:8]), label, uint64(bucket)}
		if id, ok := c34idCache[key]; ok {
			return id
		}
		id := c34idSearch(self, label, bucket, isSelf)
		c34idCache[key] = id
		return id
	}
	return c34idSearch(self, label, bucket, isSelf)
}

func c34idSearch(self *dht.VerifTable, label uint64, bucket int, isSelf bool) dht.NodeID {
	var id dht.NodeID
	binary.BigEndian.PutUint64(id[0:8], label)
	id[8] = 0x5a
	if isSelf {
		id[9] = 0xee
		return id
	}
	for ctr := uint64(0); ; ctr++ {
		binary.BigEndian.PutUint64(id[16:24], ctr)
		if self.Bucket(dht.VerifNode(id)) == bucket {
			return id
		}
		if ctr > 1<<24 {
			panic(fmt.Sprintf("no id found for bucket %d", bucket))
		}
	}
}

func (s *c34state) node(label uint64) *dht.Node {
	id, ok := s.ids[label]
	if !ok {
		panic(fmt.Sprintf("undeclared node %d", label))
	}
	return dht.VerifNode(id)
}

func (s *c34state) lab(n *dht.Node) string {
	if n == nil {
		return "-"
	}
	if l, ok := s.labels[n.ID]; ok {
		return strconv.FormatUint(l, 10)
	}
	return "?"
}

func (s *c34state) labs(ns []*dht.Node) string {
	if len(ns) == 0 {
		return "-"
	}
	p := make([]string, len(ns))
	for i, n := range ns {
		p[i] = s.lab(n)
	}
	return strings.Join(p, ",")
}

func (s *c34state) dump(r string) string {
	var sb strings.Builder
	fmt.Fprintf(&sb, "c=%d r=%s", s.tab.Count(), r)
	for i := 0; i < dht.VerifNBuckets; i++ {
		e, rp := s.tab.Dump(i)
		if len(e) == 0 && len(rp) == 0 {
			continue
		}
		fmt.Fprintf(&sb, " | %d: e=%s r=%s", i, s.labs(e), s.labs(rp))
	}
	return sb.String()
}

func (s *c34state) inList(ns []*dht.Node, id dht.NodeID) bool {
	for _, n := range ns {
		if n.ID == id {
			return true
		}
	}
	return false
}

// notePark: will this add/stuff insert a node into entries that is still in replacements?
func (s *c34state) notePark(labels []uint64) {
	type sim struct {
		ent map[dht.NodeID]bool
		n   int
	}
	sims := map[int]*sim{}
	for _, l := range labels {
		if l == s.self {
			continue
		}
		n := s.node(l)
		b := s.tab.Bucket(n)
		e, rp := s.tab.Dump(b)
		sm := sims[b]
		if sm == nil {
			sm = &sim{ent: map[dht.NodeID]bool{}, n: len(e)}
			for _, x := range e {
				sm.ent[x.ID] = true
			}
			sims[b] = sm
		}
		if sm.ent[n.ID] || sm.n >= dht.VerifBucketSize {
			continue
		}
		sm.ent[n.ID] = true
		sm.n++
		if s.inList(rp, n.ID) {
			s.parked = true
		}
	}
}

func c34exec(c *Ctx, s *c34state, line string) {
	w := strings.Fields(line)
	if len(w) == 0 {
		return
	}
	u := func(x string) uint64 {
		v, err := strconv.ParseUint(x, 10, 64)
		if err != nil {
			panic("bad number in op line: " + line)
		}
		return v
	}
	res := ""
	func() {
		defer func() {
			if r := recover(); r != nil {
				res = "panic"
				c.Op(line, "panic")
				c.Fail("panic: "+line, fmt.Sprint(r))
			}
		}()
		switch w[0] {
		case "reset":
			self := u(w[1])
			selfID := c34id(nil, self, 0, true)
			*s = c34state{tab: dht.VerifNewTable(selfID), ids: map[uint64]dht.NodeID{self: selfID}, labels: map[dht.NodeID]uint64{selfID: self},
				self: self, buckets: map[uint64]int{}}
			for _, p := range w[2:] {
				ab := strings.Split(p, ":")
				l, b := u(ab[0]), int(u(ab[1]))
				if l == self {
					continue
				}
				id := c34id(s.tab, l, b, false)
				s.ids[l] = id
				s.labels[id] = l
				s.buckets[l] = b
			}
			c.Op(line, "ok")
			res = "reset"
			return
		case "add":
			l := u(w[1])
			s.notePark([]uint64{l})
			r := s.tab.Add(s.node(l))
			res = s.dump(s.lab(r))
		case "stuff":
			var ls []uint64
			var ns []*dht.Node
			for _, x := range w[1:] {
				ls = append(ls, u(x))
				ns = append(ns, s.node(u(x)))
			}
			s.notePark(ls)
			s.tab.Stuff(ns)
			res = s.dump("-")
		case "del":
			s.tab.Delete(s.node(u(w[1])))
			res = s.dump("-")
		case "delrep":
			s.tab.DeleteReplace(s.node(u(w[1])))
			res = s.dump("-")
		case "bump":
			r := s.tab.Bump(s.node(u(w[1])))
			res = s.dump(strconv.FormatBool(r))
		default:
			panic("unknown op line: " + line)
		}
		c.Op(line, res)
		c.Count("op/" + w[0])
		c34oracle(c, s, line)
	}()
}

func c34oracle(c *Ctx, s *c34state, line string) {
	sum := 0
	selfID := s.ids[s.self]
	maxLen, maxRepl := 0, 0
	for i := 0; i < dht.VerifNBuckets; i++ {
		e, rp := s.tab.Dump(i)
		sum += len(e)
		if len(e) > maxLen {
			maxLen = len(e)
		}
		if len(rp) > maxRepl {
			maxRepl = len(rp)
		}
		if len(e) > dht.VerifBucketSize {
			c.Fail(fmt.Sprintf("bucket %d holds %d entries: %s", i, len(e), line), s.dump("-"))
		}
		seen := map[dht.NodeID]bool{}
		for _, n := range e {
			if seen[n.ID] {
				sig := fmt.Sprintf("duplicate entry %s in bucket %d: %s", s.lab(n), i, line)
				if s.parked {
					sig = c34SigDup
					c.Count("F20-duplicate-seen")
				}
				c34dups++
				if sig != c34SigDup || c34dups <= 3 {
					c.Fail(sig, s.dump("-"))
				}
				break
			}
			seen[n.ID] = true
		}
		for _, n := range append(append([]*dht.Node{}, e...), rp...) {
			if n.ID == selfID {
				c.Fail("self present in bucket: "+line, s.dump("-"))
			}
			if s.tab.Bucket(n) != i {
				c.Fail(fmt.Sprintf("node %s filed in bucket %d, its distance is %d: %s", s.lab(n), i, s.tab.Bucket(n), line), s.dump("-"))
			}
		}
	}
	// no node in two places (entries and replacement caches of all buckets together), caches within limits
	where := map[dht.NodeID]string{}
	for i := 0; i < dht.VerifNBuckets; i++ {
		e, rp := s.tab.Dump(i)
		if len(rp) > dht.VerifBucketSize {
			c.Fail(fmt.Sprintf("replacement cache of bucket %d holds %d nodes: %s", i, len(rp), line), s.dump("-"))
		}
		for k, n := range append(append([]*dht.Node{}, e...), rp...) {
			kind := "entries"
			if k >= len(e) {
				kind = "replacements"
			}
			here := fmt.Sprintf("%s of bucket %d", kind, i)
			if prev, ok := where[n.ID]; ok && !(prev == here && kind == "entries") { // duplicates inside one entries list are reported above
				if !s.parked {
					c.Fail(fmt.Sprintf("node %s is in two places (%s and %s): %s", s.lab(n), prev, here, line), s.dump("-"))
				}
			}
			where[n.ID] = here
		}
	}
	if sum != s.tab.Count() {
		c.Fail(fmt.Sprintf("count %d != %d entries: %s", s.tab.Count(), sum, line), s.dump("-"))
	}
	if maxLen == dht.VerifBucketSize {
		c.Count("state/some-bucket-full")
	}
	if maxRepl > 0 {
		c.Count("state/replacements-nonempty")
	}
	if maxRepl == dht.VerifBucketSize {
		c.Count("state/replacements-full")
	}
	// two adjacent buckets full, the lower one with a full cache, the upper one with parked nodes
	for i := 0; i+1 < dht.VerifNBuckets; i++ {
		e0, r0 := s.tab.Dump(i)
		if len(e0) == dht.VerifBucketSize && len(r0) == dht.VerifBucketSize {
			if e1, r1 := s.tab.Dump(i + 1); len(e1) == dht.VerifBucketSize && len(r1) > 0 {
				c.Count("state/adjacent-full-with-caches")
			}
		}
	}
}

var c34bucketChoices = []int{256, 256, 255, 255, 254, 253, 251, 249, 247}

// c34genAdjacent fills two ADJACENT buckets d and d+1: at least 33 distinct nodes at distance d (16
// entries + a full replacement cache + newcomers) and at least 17 at distance d+1 (16 entries + parked
// replacements), then keeps adding newcomers at distance d while entries of bucket d+1 are deleted /
// deleteReplace'd until its replacement cache is drained, interleaved with random ops.
func c34genAdjacent(c *Ctx) []string {
	r := c.Rng
	d := []int{255, 255, 254, 254, 253, 252}[r.Intn(6)]
	nLo := 33 + r.Intn(8) // distance d
	nHi := 17 + r.Intn(6) // distance d+1
	nOther := r.Intn(4)
	var sb strings.Builder
	sb.WriteString("reset 0")
	var lo, hi, other []int
	l := 1
	for i := 0; i < nLo; i++ {
		lo = append(lo, l)
		fmt.Fprintf(&sb, " %d:%d", l, d)
		l++
	}
	for i := 0; i < nHi; i++ {
		hi = append(hi, l)
		fmt.Fprintf(&sb, " %d:%d", l, d+1)
		l++
	}
	for i := 0; i < nOther; i++ {
		other = append(other, l)
		fmt.Fprintf(&sb, " %d:%d", l, []int{256, 251, 249}[r.Intn(3)])
		l++
	}
	out := []string{sb.String()}
	strs := func(ls []int) string {
		p := make([]string, len(ls))
		for i, x := range ls {
			p[i] = strconv.Itoa(x)
		}
		return strings.Join(p, " ")
	}
	// bucket d+1: 16 entries and some parked replacements; bucket d: 16 entries, cache filled one by one
	fillHi := func() {
		out = append(out, "stuff "+strs(hi[:16]))
		for _, x := range hi[16:] {
			out = append(out, fmt.Sprintf("add %d", x))
		}
	}
	fillLo := func(upTo int) {
		out = append(out, "stuff "+strs(lo[:16]))
		for _, x := range lo[16:upTo] {
			out = append(out, fmt.Sprintf("add %d", x))
		}
	}
	upTo := 32 - r.Intn(3) // the cache of d is full (or nearly) before the newcomers arrive
	if r.Intn(2) == 0 {
		fillHi()
		fillLo(upTo)
	} else {
		fillLo(upTo)
		fillHi()
	}
	next := upTo
	hiEntries := append([]int(nil), hi[:16]...)
	for i, n := 0, 20+r.Intn(60); i < n; i++ {
		switch x := r.Intn(100); {
		case x < 35: // a newcomer (or a returning node) at distance d
			if next < len(lo) && r.Intn(3) != 0 {
				out = append(out, fmt.Sprintf("add %d", lo[next]))
				next++
			} else {
				out = append(out, fmt.Sprintf("add %d", lo[r.Intn(len(lo))]))
			}
		case x < 65: // drain bucket d+1's replacement cache
			op := "delrep"
			if r.Intn(4) == 0 {
				op = "del"
			}
			if len(hiEntries) > 0 && r.Intn(4) != 0 {
				k := r.Intn(len(hiEntries))
				out = append(out, fmt.Sprintf("%s %d", op, hiEntries[k]))
				hiEntries = append(hiEntries[:k], hiEntries[k+1:]...)
			} else {
				out = append(out, fmt.Sprintf("%s %d", op, hi[r.Intn(len(hi))]))
			}
		case x < 75:
			out = append(out, fmt.Sprintf("add %d", hi[r.Intn(len(hi))]))
		case x < 83:
			out = append(out, fmt.Sprintf("delrep %d", lo[r.Intn(len(lo))]))
		case x < 88:
			out = append(out, fmt.Sprintf("bump %d", lo[r.Intn(len(lo))]))
		case x < 93 && len(other) > 0:
			out = append(out, fmt.Sprintf("add %d", other[r.Intn(len(other))]))
		default:
			var ls []int
			for j := 1 + r.Intn(5); j > 0; j-- {
				ls = append(ls, 1+r.Intn(l-1))
			}
			out = append(out, "stuff "+strs(ls))
		}
	}
	return out
}

func c34gen(c *Ctx) []string {
	r := c.Rng
	if r.Intn(6) == 0 {
		c.Count("case/adjacent-buckets-full")
		return c34genAdjacent(c)
	}
	nb := 1 + r.Intn(3)
	bs := make([]int, nb)
	for i := range bs {
		bs[i] = c34bucketChoices[r.Intn(len(c34bucketChoices))]
	}
	pop := 3 + r.Intn(38)
	if r.Intn(3) == 0 {
		pop = 18 + r.Intn(23) // enough to overflow a bucket
	}
	crowd := r.Intn(6) == 0 // one bucket, enough nodes to fill entries AND the replacement list
	if crowd {
		nb, pop = 1, 34+r.Intn(7)
	}
	var sb strings.Builder
	sb.WriteString("reset 0")
	bucketOf := map[int]int{}
	for l := 1; l <= pop; l++ {
		b := bs[0]
		if r.Intn(3) == 0 {
			b = bs[r.Intn(nb)]
		}
		bucketOf[l] = b
		fmt.Fprintf(&sb, " %d:%d", l, b)
	}
	out := []string{sb.String()}
	pick := func() int {
		if r.Intn(40) == 0 {
			return 0 // self
		}
		return 1 + r.Intn(pop)
	}
	nops := 10 + r.Intn(60)
	if r.Intn(5) == 0 {
		nops = 100 + r.Intn(200)
	}
	if crowd {
		var l []string
		for i := 1; i <= 16; i++ {
			l = append(l, strconv.Itoa(i))
		}
		out = append(out, "stuff "+strings.Join(l, " "))
		for i := 17; i <= pop; i++ {
			out = append(out, fmt.Sprintf("add %d", i))
		}
	} else if r.Intn(2) == 0 {
		// start from a well-filled table
		var l []string
		for i := 1; i <= pop; i++ {
			if r.Intn(4) != 0 {
				l = append(l, strconv.Itoa(i))
			}
		}
		if len(l) > 0 {
			out = append(out, "stuff "+strings.Join(l, " "))
		}
	}
	for i := 0; i < nops; i++ {
		switch x := r.Intn(100); {
		case x < 40:
			out = append(out, fmt.Sprintf("add %d", pick()))
		case x < 50:
			k := 1 + r.Intn(6)
			if r.Intn(4) == 0 {
				k = 1 + r.Intn(25)
			}
			var l []string
			for j := 0; j < k; j++ {
				l = append(l, strconv.Itoa(pick()))
			}
			out = append(out, "stuff "+strings.Join(l, " "))
		case x < 68:
			out = append(out, fmt.Sprintf("del %d", pick()))
		case x < 88:
			out = append(out, fmt.Sprintf("delrep %d", pick()))
		default:
			out = append(out, fmt.Sprintf("bump %d", pick()))
		}
	}
	return out
}

func runC34(c *Ctx) {
	c.Rule = "populations of 3–40 node ids placed (by NodeID search) in 1–3 of the buckets {256,255,254,253,251,249,247}, self included in some ops; 1/6 of the cases fill two ADJACENT buckets d, d+1 (d in 252..255) with 33–40 and 17–22 distinct nodes (both full, both replacement caches in use) and then mix newcomers at distance d with del/deleteReplace draining bucket d+1; sequences of 10–300 ops add/stuff/del/delrep/bump, half of them starting from a bulk-filled table; every op's full table dump is compared with the model; an op is distinct by (case, line); non-trivial = the table has a full bucket or parked replacements"
	s := &c34state{}
	lines := c.CorpusLines()
	if c.Replay != "" {
		lines = c.ReplayLines()
	}
	for _, l := range lines {
		c34exec(c, s, l)
	}
	if c.Replay != "" {
		return
	}
	for i := 0; i < c.N; i++ {
		for j, l := range c34gen(c) {
			c34exec(c, s, l)
			if j > 0 {
				c.Distinct(fmt.Sprintf("%d/%d", i, j))
			}
		}
	}
}

func init() { register("c34", runC34) }
