//go:build hc26 || hall

package main

import (
	"encoding/json"
	"fmt"
	"sort"
	"strconv"
	"strings"
	"sync"
	"time"

	"github.com/bytom/bytom/account"
	"github.com/bytom/bytom/asset"
	"github.com/bytom/bytom/blockchain/signers"
	"github.com/bytom/bytom/consensus"
	"github.com/bytom/bytom/crypto/ed25519/chainkd"
	dbm "github.com/bytom/bytom/database/leveldb"
	"github.com/bytom/bytom/protocol"
	"github.com/bytom/bytom/protocol/bc"
	"github.com/bytom/bytom/protocol/bc/types"
	"github.com/bytom/bytom/wallet"
)

// C26: the REAL account.utxoKeeper (through account/verif_hooks_verif.go, no background
// expire worker) driven by operation sequences over small UTXO sets in which an output may
// be present both as a wallet-DB record and in the unconfirmed map.
//
//   reset | height h | putdb id asset amount acct vote vh contract | deldb id
//   addunc id asset amount acct vote vh | rmunc id
//   reserve acct asset amount useUnc vote exp [ids the implementation selected (tie hint)]
//   particular id useUnc exp | cancel rid | expire t
//   impl line: <result> | reserved=<id:rid,..> | res=<rid:exp:change:id+id;..>
//
// Direct oracle (no model): after every operation the reserved map and the live
// reservations must describe each other exactly (=> no output in two live reservations);
// every Reserve / ReserveParticular answer is compared with what the property demands,
// computed on the set of DISTINCT outputs (an output listed twice is still one output).

const (
	c26SigDupSelected = "Reserve: output listed both confirmed and unconfirmed is selected twice into one reservation"
	c26SigDupCounted  = "Reserve: output listed both confirmed and unconfirmed is counted twice in the outcome decision"
	c26SigZeroPanic   = "Reserve(amount=0) panics: optList.Front() is nil in optUTXOs"
)

type c26st struct {
	c      *Ctx
	db     dbm.DB
	k      *account.VerifKeeper
	height uint64
	dbSet  map[uint64]*account.UTXO // mirror of what the harness wrote (oracle side)
	unc    map[uint64]*account.UTXO
}

func c26hash(id uint64) bc.Hash        { return bc.Hash{V0: id} }
func c26asset(a uint64) bc.AssetID     { return bc.AssetID{V0: a} }
func c26acct(a uint64) string          { return fmt.Sprintf("acc%d", a) }
func c26time(t uint64) time.Time       { return time.Unix(int64(t), 0) }
func c26vote(v uint64) []byte {
	if v == 0 {
		return nil
	}
	return []byte{byte(v)}
}
func c26voteNum(v []byte) uint64 {
	if len(v) == 0 {
		return 0
	}
	return uint64(v[0])
}

func (s *c26st) reset() {
	s.db = dbm.NewMemDB()
	s.height = 0
	s.k = account.VerifNewKeeper(func() uint64 { return s.height }, s.db)
	s.dbSet = map[uint64]*account.UTXO{}
	s.unc = map[uint64]*account.UTXO{}
}

func c26utxo(f []uint64) *account.UTXO {
	// Change / ControlProgramIndex are functions of the ValidHeight here, so that a record rewritten
	// under the same output id with another ValidHeight differs in them too
	return &account.UTXO{OutputID: c26hash(f[0]), AssetID: c26asset(f[1]), Amount: f[2], AccountID: c26acct(f[3]),
		Vote: c26vote(f[4]), ValidHeight: f[5], ControlProgramIndex: f[5] + 1, Change: f[5]%2 == 1}
}

func (s *c26st) dump() string {
	res := s.k.Reserved()
	var rs []string
	ids := []uint64{}
	for h := range res {
		ids = append(ids, h.V0)
	}
	sort.Slice(ids, func(i, j int) bool { return ids[i] < ids[j] })
	for _, id := range ids {
		rs = append(rs, fmt.Sprintf("%d:%d", id, res[c26hash(id)]))
	}
	var rv []string
	for _, r := range s.k.Reservations() {
		var us []string
		for _, u := range r.UTXOs {
			us = append(us, strconv.FormatUint(u.OutputID.V0, 10))
		}
		rv = append(rv, fmt.Sprintf("%d:%d:%d:%s", r.ID, r.Expiry.Unix(), r.Change, strings.Join(us, "+")))
	}
	return "reserved=" + strings.Join(rs, ",") + " | res=" + strings.Join(rv, ";")
}

func c26resLine(r *account.VerifReservation) string {
	var us []string
	for _, u := range r.UTXOs {
		us = append(us, strconv.FormatUint(u.OutputID.V0, 10))
	}
	ids := "-"
	if len(us) > 0 {
		ids = strings.Join(us, "+")
	}
	return fmt.Sprintf("ok %d %d %s", r.ID, r.Change, ids)
}

func c26errName(err error) string {
	switch err {
	case account.ErrInsufficient:
		return "insufficient"
	case account.ErrImmature:
		return "immature"
	case account.ErrReserved:
		return "reserved"
	case account.ErrMatchUTXO:
		return "match"
	}
	return "other:" + err.Error()
}

// invariant of the two maps, on the implementation's own state
func (s *c26st) checkInv(op string) {
	res := s.k.Reserved()
	live := map[uint64]*account.VerifReservation{}
	for _, r := range s.k.Reservations() {
		live[r.ID] = r
		for _, u := range r.UTXOs {
			if rid, ok := res[u.OutputID]; !ok || rid != r.ID {
				s.c.Fail("keeper_inv: reservation output not recorded in reserved map", fmt.Sprintf("after %q: reservation %d holds output %d, reserved says %d (present %v)", op, r.ID, u.OutputID.V0, rid, ok))
			}
		}
	}
	for h, rid := range res {
		r, ok := live[rid]
		found := false
		if ok {
			for _, u := range r.UTXOs {
				if u.OutputID == h {
					found = true
				}
			}
		}
		if !found {
			s.c.Fail("keeper_inv: reserved output without a live reservation holding it", fmt.Sprintf("after %q: output %d -> reservation %d", op, h.V0, rid))
		}
	}
}

func (s *c26st) exec(line string) {
	w := strings.Fields(line)
	if len(w) == 0 {
		return
	}
	num := func(i int) uint64 {
		if i >= len(w) {
			return 0
		}
		v, _ := strconv.ParseUint(w[i], 10, 64)
		return v
	}
	nums := func(from, n int) []uint64 {
		out := make([]uint64, n)
		for i := range out {
			out[i] = num(from + i)
		}
		return out
	}
	c := s.c
	result := "-"
	opLine := line
	var fails [][2]string // direct-oracle verdicts, emitted after the op line is recorded
	switch w[0] {
	case "reset":
		s.reset()
	case "height":
		s.height = num(1)
	case "putdb":
		f := nums(1, 7)
		u := c26utxo(f)
		data, _ := json.Marshal(u)
		// one id lives under one key class only (an id commits to its program)
		s.db.Delete(account.StandardUTXOKey(u.OutputID))
		s.db.Delete(account.ContractUTXOKey(u.OutputID))
		if f[6] == 1 {
			s.db.Set(account.ContractUTXOKey(u.OutputID), data)
			u.ControlProgram = []byte{0x51} // marks "contract" for the oracle mirror only
		} else {
			s.db.Set(account.StandardUTXOKey(u.OutputID), data)
		}
		s.dbSet[f[0]] = u
	case "deldb":
		s.db.Delete(account.StandardUTXOKey(c26hash(num(1))))
		s.db.Delete(account.ContractUTXOKey(c26hash(num(1))))
		delete(s.dbSet, num(1))
	case "addunc":
		u := c26utxo(nums(1, 6))
		s.k.AddUnconfirmedUtxo([]*account.UTXO{u})
		s.unc[num(1)] = u
	case "rmunc":
		h := c26hash(num(1))
		s.k.RemoveUnconfirmedUtxo([]*bc.Hash{&h})
		delete(s.unc, num(1))
	case "cancel":
		s.k.Cancel(num(1))
	case "expire":
		s.k.Expire(c26time(num(1)))
	case "particular":
		id, useUnc, exp := num(1), num(2) == 1, num(3)
		before := s.k.Reserved()
		r, err := s.k.ReserveParticular(c26hash(id), useUnc, c26time(exp))
		if err != nil {
			result = "err " + c26errName(err)
		} else {
			result = c26resLine(r)
		}
		// oracle
		want := ""
		var wu *account.UTXO
		if _, ok := before[c26hash(id)]; ok {
			want = "err reserved"
		} else {
			if u, ok := s.unc[id]; ok && useUnc {
				wu = u
			} else if u, ok := s.dbSet[id]; ok {
				wu = u
			}
			switch {
			case wu == nil:
				want = "err match"
			case wu.ValidHeight > s.height:
				want = "err immature"
			default:
				want = "ok"
			}
		}
		got := strings.Fields(result)[0]
		if got == "err" {
			got = result
		}
		if got != want {
			fails = append(fails, [2]string{fmt.Sprintf("ReserveParticular wrong outcome: want %s got %s", want, got), line})
		} else if err == nil && (len(r.UTXOs) != 1 || r.UTXOs[0].OutputID.V0 != id || r.Change != 0) {
			fails = append(fails, [2]string{"ReserveParticular success does not hold exactly the requested output", line + " => " + result})
		}
		c.Count("particular/" + want)
	case "reserve":
		acct, asset, amount, useUnc, vote, exp := num(1), num(2), num(3), num(4) == 1, num(5), num(6)
		before := s.k.Reserved()
		var r *account.VerifReservation
		var err error
		panicked := ""
		func() {
			defer func() {
				if p := recover(); p != nil {
					panicked = fmt.Sprint(p)
				}
			}()
			aid := c26asset(asset)
			r, err = s.k.Reserve(c26acct(acct), &aid, amount, useUnc, c26vote(vote), c26time(exp))
		}()
		w = w[:7]
		switch {
		case panicked != "":
			result = "panic"
		case err != nil:
			result = "err " + c26errName(err)
		default:
			result = c26resLine(r)
			for _, u := range r.UTXOs {
				w = append(w, strconv.FormatUint(u.OutputID.V0, 10))
			}
		}
		opLine = strings.Join(w, " ")
		// ---- oracle on the distinct outputs
		distinct := map[uint64]*account.UTXO{}
		dupListed := false
		for id, u := range s.dbSet {
			if len(u.ControlProgram) == 0 { // standard key class
				distinct[id] = u
			}
		}
		if useUnc {
			for id, u := range s.unc {
				if d, ok := distinct[id]; ok {
					if d.AccountID == c26acct(acct) && d.AssetID == c26asset(asset) && c26voteNum(d.Vote) == vote {
						dupListed = true
					}
					continue
				}
				distinct[id] = u
			}
		}
		var avail, resv, imm uint64
		match := map[uint64]*account.UTXO{}
		for id, u := range distinct {
			if u.AccountID != c26acct(acct) || u.AssetID != c26asset(asset) || c26voteNum(u.Vote) != vote {
				continue
			}
			match[id] = u
			_, isRes := before[c26hash(id)]
			switch {
			case u.ValidHeight > s.height:
				imm += u.Amount
			case isRes:
				resv += u.Amount
			default:
				avail += u.Amount
			}
		}
		want := "ok"
		switch {
		case avail+resv+imm < amount:
			want = "insufficient"
		case avail+resv < amount:
			want = "immature"
		case avail < amount:
			want = "reserved"
		}
		c.Count("reserve/" + want + map[bool]string{true: "/dup-listed", false: ""}[dupListed])
		got := "ok"
		if err != nil {
			got = c26errName(err)
		}
		fail := func(sig, detail string) {
			fails = append(fails, [2]string{sig, fmt.Sprintf("%s => %s (distinct outputs: avail=%d reserved=%d immature=%d) %s", opLine, result, avail, resv, imm, detail)})
		}
		switch {
		case panicked != "":
			if amount == 0 {
				fail(c26SigZeroPanic, panicked)
			} else {
				fail("Reserve panics: "+panicked, "")
			}
		case got != want:
			if dupListed {
				fail(c26SigDupCounted, "want "+want+" got "+got)
			} else {
				fail(fmt.Sprintf("Reserve wrong outcome: want %s got %s", want, got), "")
			}
		case err == nil:
			seen := map[uint64]bool{}
			var sum, listSum uint64
			bad, dup := "", false
			for _, u := range r.UTXOs {
				id := u.OutputID.V0
				listSum += u.Amount
				if seen[id] {
					dup = true
					continue
				}
				seen[id] = true
				sum += u.Amount
				m, ok := match[id]
				_, isRes := before[u.OutputID]
				if cur, inDB := s.dbSet[id]; ok && inDB && len(cur.ControlProgram) == 0 &&
					(u.ValidHeight != cur.ValidHeight || u.ControlProgramIndex != cur.ControlProgramIndex || u.Change != cur.Change) {
					bad = fmt.Sprintf("output %d is handed out with ValidHeight %d / key index %d / change %v, the wallet-DB record currently stored says %d / %d / %v", id, u.ValidHeight, u.ControlProgramIndex, u.Change, cur.ValidHeight, cur.ControlProgramIndex, cur.Change)
				}
				switch {
				case bad != "":
				case !ok:
					bad = fmt.Sprintf("output %d is not an output of the requested account/asset/vote", id)
				case m.ValidHeight > s.height:
					bad = fmt.Sprintf("output %d is immature", id)
				case isRes:
					bad = fmt.Sprintf("output %d was already reserved", id)
				}
			}
			switch {
			case dup && dupListed:
				fail(c26SigDupSelected, fmt.Sprintf("distinct sum %d, requested %d, change %d", sum, amount, r.Change))
			case dup:
				fail("Reserve success holds an output twice", "")
			case bad != "":
				fail("Reserve success holds a wrong output: "+bad, "")
			case sum < amount:
				fail("Reserve success does not cover the request", "")
			case r.Change != sum-amount || listSum != sum:
				fail("Reserve change is not the excess", "")
			}
		}
	default:
		return
	}
	c.Op(opLine, result+" | "+s.dump())
	c.Distinct(opLine)
	for _, f := range fails {
		capFail(c, f[0], f[1])
	}
	s.checkInv(opLine)
}

func c26gen(c *Ctx) []string {
	r := c.Rng
	nIDs := 4 + r.Intn(9)
	amountsPool := []uint64{1, 2, 3, 5, 5, 5, 8, 8, 10, 13, 20, 21, 40}
	type attr struct{ asset, amount, acct, vote, vh, contract uint64 }
	attrs := make([]attr, nIDs+1)
	oneClass := r.Intn(3) > 0 // most cases: nearly everything in one (account, asset, vote) class
	for i := 1; i <= nIDs; i++ {
		a := attr{asset: 1, acct: 1, amount: amountsPool[r.Intn(len(amountsPool))]}
		if r.Intn(6) == 0 {
			a.amount = uint64(r.Intn(50))
		}
		if !oneClass || r.Intn(6) == 0 {
			a.asset = 1 + uint64(r.Intn(2))
			a.acct = 1 + uint64(r.Intn(2))
			a.vote = uint64(r.Intn(3))
		}
		if r.Intn(4) == 0 {
			a.vh = uint64(1 + r.Intn(12))
		}
		if r.Intn(12) == 0 {
			a.contract = 1
		}
		attrs[i] = a
	}
	lines := []string{"reset"}
	nOps := 8 + r.Intn(28)
	rid := uint64(0)
	for i := 0; i < nOps; i++ {
		id := 1 + r.Intn(nIDs)
		a := attrs[id]
		x := r.Intn(100)
		if i < nIDs && x >= 40 { // front-load population
			x = r.Intn(40)
		}
		switch {
		case x < 24:
			// the wallet rewrites a record under the same output id after a reorganisation (the output is
			// re-confirmed at another height, or restored by a detach): same id, another ValidHeight
			vh := a.vh
			if r.Intn(3) == 0 {
				vh = uint64(r.Intn(13))
			}
			lines = append(lines, fmt.Sprintf("putdb %d %d %d %d %d %d %d", id, a.asset, a.amount, a.acct, a.vote, vh, a.contract))
		case x < 40:
			// the pool copy of an output is computed by txOutToUtxos(tx, 0): it may carry another
			// ValidHeight than the wallet-DB record of the same output
			uvh := a.vh
			if r.Intn(3) == 0 {
				uvh = uint64(r.Intn(4))
			}
			lines = append(lines, fmt.Sprintf("addunc %d %d %d %d %d %d", id, a.asset, a.amount, a.acct, a.vote, uvh))
		case x < 46:
			lines = append(lines, fmt.Sprintf("rmunc %d", id))
		case x < 51:
			lines = append(lines, fmt.Sprintf("deldb %d", id))
		case x < 80:
			acct, asset, vote := uint64(1), uint64(1), uint64(0)
			if !oneClass || r.Intn(5) == 0 {
				acct, asset, vote = 1+uint64(r.Intn(2)), 1+uint64(r.Intn(2)), uint64(r.Intn(3))
			}
			amt := uint64(0)
			switch r.Intn(10) {
			case 0:
				amt = uint64(r.Intn(2)) // 0 or 1
			case 1, 2:
				amt = uint64(20 + r.Intn(120))
			default:
				amt = uint64(1 + r.Intn(16))
			}
			rid++
			lines = append(lines, fmt.Sprintf("reserve %d %d %d %d %d %d", acct, asset, amt, r.Intn(2), vote, 10+r.Intn(40)))
		case x < 88:
			rid++
			lines = append(lines, fmt.Sprintf("particular %d %d %d", 1+r.Intn(nIDs+1), r.Intn(2), 10+r.Intn(40)))
		case x < 94:
			lines = append(lines, fmt.Sprintf("cancel %d", 1+r.Intn(int(rid)+2)))
		case x < 97:
			lines = append(lines, fmt.Sprintf("expire %d", r.Intn(60)))
		default:
			lines = append(lines, fmt.Sprintf("height %d", r.Intn(14)))
		}
	}
	return lines
}

// concurrent callers on one keeper: only the invariant (direct oracle) is checked
func c26concurrent(c *Ctx, seed int64, workers, opsEach int) {
	s := &c26st{c: c}
	s.reset()
	for id := uint64(1); id <= 16; id++ {
		u := c26utxo([]uint64{id, 1, 1 + id%7, 1, 0, 0})
		data, _ := json.Marshal(u)
		s.db.Set(account.StandardUTXOKey(u.OutputID), data)
		if id%3 == 0 {
			s.k.AddUnconfirmedUtxo([]*account.UTXO{c26utxo([]uint64{id + 100, 1, 1 + id%5, 1, 0, 0})})
		}
	}
	var wg sync.WaitGroup
	var mu sync.Mutex
	held := map[uint64]uint64{} // output -> reservation, from successful answers still believed live by their owner
	for wk := 0; wk < workers; wk++ {
		wg.Add(1)
		go func(wk int) {
			defer wg.Done()
			x := uint64(seed)*2654435761 + uint64(wk)*40503 + 1
			next := func(n uint64) uint64 { x ^= x << 13; x ^= x >> 7; x ^= x << 17; return x % n }
			var mine []*account.VerifReservation
			for i := 0; i < opsEach; i++ {
				switch next(4) {
				case 0, 1:
					aid := c26asset(1)
					r, err := s.k.Reserve(c26acct(1), &aid, 1+next(12), next(2) == 0, nil, c26time(1000))
					if err == nil {
						mu.Lock()
						for _, u := range r.UTXOs {
							if other, ok := held[u.OutputID.V0]; ok {
								c.Fail("concurrent: output handed to two live reservations", fmt.Sprintf("output %d in reservations %d and %d", u.OutputID.V0, other, r.ID))
							}
							held[u.OutputID.V0] = r.ID
						}
						mu.Unlock()
						mine = append(mine, r)
					}
				case 2:
					r, err := s.k.ReserveParticular(c26hash(1+next(16)), false, c26time(1000))
					if err == nil {
						mu.Lock()
						id := r.UTXOs[0].OutputID.V0
						if other, ok := held[id]; ok {
							c.Fail("concurrent: output handed to two live reservations", fmt.Sprintf("output %d in reservations %d and %d", id, other, r.ID))
						}
						held[id] = r.ID
						mu.Unlock()
						mine = append(mine, r)
					}
				default:
					if len(mine) > 0 {
						r := mine[0]
						mine = mine[1:]
						mu.Lock()
						for _, u := range r.UTXOs {
							delete(held, u.OutputID.V0)
						}
						mu.Unlock()
						s.k.Cancel(r.ID)
					}
				}
			}
		}(wk)
	}
	wg.Wait()
	s.checkInv("concurrent run")
	c.Count("concurrent-runs")
}

// The doubly listed state of F16 reached through the REAL wallet entry points: the pool
// announces a transaction paying the wallet (MsgNewTx -> AddUnconfirmedTx), the block that
// confirms it is attached (AttachBlock) before the pool's MsgRemoveTx is handled.
func c26viaWallet(c *Ctx) {
	defer func() {
		if p := recover(); p != nil {
			c.Extra["f16_via_wallet"] = fmt.Sprint("scenario panicked: ", p)
		}
	}()
	consensus.ActiveNetParams = consensus.SoloNetParams
	db := dbm.NewMemDB()
	height := uint64(1)
	am := account.VerifNewManager(db, func() uint64 { return height })
	_, xpub, err := chainkd.NewXKeys(nil)
	if err != nil {
		panic(err)
	}
	acc, err := am.Create([]chainkd.XPub{xpub}, 1, "a", signers.BIP0044)
	if err != nil {
		panic(err)
	}
	cp, err := am.CreateAddress(acc.ID, false)
	if err != nil {
		panic(err)
	}
	w := wallet.VerifNewWallet(db, am, asset.NewRegistry(db, nil))
	cb := func(h uint64) *types.Tx {
		return types.NewTx(types.TxData{Version: 1, Inputs: []*types.TxInput{types.NewCoinbaseInput([]byte{byte(h)})},
			Outputs: []*types.TxOutput{types.NewOriginalTxOutput(*consensus.BTMAssetID, 0, []byte{0x51}, nil)}})
	}
	genesis := &types.Block{BlockHeader: types.BlockHeader{Version: 1, Height: 0}, Transactions: []*types.Tx{cb(0)}}
	if err := w.AttachBlock(genesis); err != nil {
		panic(err)
	}
	tx := types.NewTx(types.TxData{Version: 1,
		Inputs:  []*types.TxInput{types.NewSpendInput(nil, bc.Hash{V0: 9}, *consensus.BTMAssetID, 7, 0, []byte{0x51}, nil)},
		Outputs: []*types.TxOutput{types.NewOriginalTxOutput(*consensus.BTMAssetID, 5, cp.ControlProgram, nil)}})
	w.AddUnconfirmedTx(&protocol.TxDesc{Tx: tx})
	blk := &types.Block{BlockHeader: types.BlockHeader{Version: 1, Height: 1, PreviousBlockHash: genesis.Hash(), Timestamp: 1}, Transactions: []*types.Tx{cb(1), tx}}
	if err := w.AttachBlock(blk); err != nil {
		panic(err)
	}
	k := account.VerifKeeperOf(am)
	res, err := k.Reserve(acc.ID, consensus.BTMAssetID, 10, true, nil, c26time(1000))
	switch {
	case err == nil && len(res.UTXOs) == 2 && res.UTXOs[0].OutputID == res.UTXOs[1].OutputID:
		c.Extra["f16_via_wallet"] = "reproduced: AddUnconfirmedTx + AttachBlock, then Reserve(10, useUnconfirmed) succeeds with the single output of 5 listed twice"
		capFail(c, c26SigDupSelected, "through wallet.AddUnconfirmedTx + wallet.AttachBlock (pool removal not yet handled): the wallet owns one output of 5, Reserve(10) succeeds holding it twice")
		k.Cancel(res.ID)
	case err == account.ErrInsufficient:
		c.Extra["f16_via_wallet"] = "not reproduced: Reserve(10) correctly reports insufficient funds"
	default:
		c.Extra["f16_via_wallet"] = fmt.Sprintf("unexpected answer: %v %v", res, err)
		c.Fail("Reserve through the wallet gives an unexpected answer", fmt.Sprint(res, err))
	}
	w.RemoveUnconfirmedTx(&protocol.TxDesc{Tx: tx})
	if _, err := k.Reserve(acc.ID, consensus.BTMAssetID, 10, true, nil, c26time(1000)); err != account.ErrInsufficient {
		c.Fail("after the pool removal event Reserve(10) over a single output of 5 must be insufficient", fmt.Sprint(err))
	}
	c.Count("via-wallet-scenario")
}

func runC26(c *Ctx) {
	c.Rule = "operation sequences (8-35 ops after `reset`) of putdb/deldb/addunc/rmunc/reserve/particular/cancel/expire/height over 4-12 outputs whose attributes are fixed per id; amounts drawn from a pool with ties; most cases keep nearly all outputs in one (account, asset, vote) class so reservations compete; outputs are freely put both in the DB and in the unconfirmed map; a case is distinct by its op line; plus concurrent runs (8 goroutines) checked against the map invariant only"
	s := &c26st{c: c}
	s.reset()
	if c.Replay != "" {
		for _, l := range c.ReplayLines() {
			s.exec(l)
		}
		return
	}
	for _, l := range c.CorpusLines() {
		s.exec(l)
	}
	c26viaWallet(c)
	for i := 0; i < c.N; i++ {
		for _, l := range c26gen(c) {
			s.exec(l)
		}
	}
	runs := 4
	if c.Tier == "thorough" {
		runs = 40
	}
	for i := 0; i < runs; i++ {
		c26concurrent(c, c.Seed*1000+int64(i), 8, 300)
	}
}

func init() { register("c26", runC26) }
