//go:build hc31 || hall

package main

import (
	"fmt"
	"math"
	"math/big"
	"strings"

	"github.com/bytom/bytom/math/checked"
)

// C31: every checked operation on boundary grids and random operands.
//   op line:   <Func> <a> [<b>]         impl line: <value> <ok>
// Direct oracle: math/big exact result; success iff it fits, value exact, failure => 0.

type c31fn struct {
	name   string
	signed bool
	bits   uint
	arity  int
	call   func(a, b *big.Int) (*big.Int, bool)
	exact  func(a, b *big.Int) *big.Int // nil => undefined (failure required)
}

func i64(f func(a, b int64) (int64, bool)) func(a, b *big.Int) (*big.Int, bool) {
	return func(a, b *big.Int) (*big.Int, bool) { v, ok := f(a.Int64(), b.Int64()); return big.NewInt(v), ok }
}
func i32(f func(a, b int32) (int32, bool)) func(a, b *big.Int) (*big.Int, bool) {
	return func(a, b *big.Int) (*big.Int, bool) {
		v, ok := f(int32(a.Int64()), int32(b.Int64()))
		return big.NewInt(int64(v)), ok
	}
}
func u64(f func(a, b uint64) (uint64, bool)) func(a, b *big.Int) (*big.Int, bool) {
	return func(a, b *big.Int) (*big.Int, bool) {
		v, ok := f(a.Uint64(), b.Uint64())
		return new(big.Int).SetUint64(v), ok
	}
}
func u32(f func(a, b uint32) (uint32, bool)) func(a, b *big.Int) (*big.Int, bool) {
	return func(a, b *big.Int) (*big.Int, bool) {
		v, ok := f(uint32(a.Uint64()), uint32(b.Uint64()))
		return new(big.Int).SetUint64(uint64(v)), ok
	}
}

func exAdd(a, b *big.Int) *big.Int { return new(big.Int).Add(a, b) }
func exSub(a, b *big.Int) *big.Int { return new(big.Int).Sub(a, b) }
func exMul(a, b *big.Int) *big.Int { return new(big.Int).Mul(a, b) }
func exDiv(a, b *big.Int) *big.Int {
	if b.Sign() == 0 {
		return nil
	}
	return new(big.Int).Quo(a, b)
}
func exMod(a, b *big.Int) *big.Int {
	if b.Sign() == 0 {
		return nil
	}
	return new(big.Int).Rem(a, b)
}
func exNeg(a, _ *big.Int) *big.Int { return new(big.Int).Neg(a) }
func exShl(bits uint) func(a, b *big.Int) *big.Int {
	return func(a, b *big.Int) *big.Int {
		if b.Sign() < 0 || b.Cmp(big.NewInt(int64(bits))) >= 0 {
			return nil
		}
		return new(big.Int).Lsh(a, uint(b.Uint64()))
	}
}

func c31funcs() []c31fn {
	neg64 := func(a, _ int64) (int64, bool) { return checked.NegateInt64(a) }
	neg32 := func(a, _ int32) (int32, bool) { return checked.NegateInt32(a) }
	return []c31fn{
		{"AddInt64", true, 64, 2, i64(checked.AddInt64), exAdd},
		{"SubInt64", true, 64, 2, i64(checked.SubInt64), exSub},
		{"MulInt64", true, 64, 2, i64(checked.MulInt64), exMul},
		{"DivInt64", true, 64, 2, i64(checked.DivInt64), exDiv},
		{"ModInt64", true, 64, 2, i64(checked.ModInt64), exMod},
		{"NegateInt64", true, 64, 1, i64(neg64), exNeg},
		{"LshiftInt64", true, 64, 2, i64(checked.LshiftInt64), exShl(64)},
		{"AddInt32", true, 32, 2, i32(checked.AddInt32), exAdd},
		{"SubInt32", true, 32, 2, i32(checked.SubInt32), exSub},
		{"MulInt32", true, 32, 2, i32(checked.MulInt32), exMul},
		{"DivInt32", true, 32, 2, i32(checked.DivInt32), exDiv},
		{"ModInt32", true, 32, 2, i32(checked.ModInt32), exMod},
		{"NegateInt32", true, 32, 1, i32(neg32), exNeg},
		{"LshiftInt32", true, 32, 2, i32(checked.LshiftInt32), exShl(32)},
		{"AddUint64", false, 64, 2, u64(checked.AddUint64), exAdd},
		{"SubUint64", false, 64, 2, u64(checked.SubUint64), exSub},
		{"MulUint64", false, 64, 2, u64(checked.MulUint64), exMul},
		{"DivUint64", false, 64, 2, u64(checked.DivUint64), exDiv},
		{"ModUint64", false, 64, 2, u64(checked.ModUint64), exMod},
		{"LshiftUint64", false, 64, 2, u64(checked.LshiftUint64), exShl(64)},
		{"AddUint32", false, 32, 2, u32(checked.AddUint32), exAdd},
		{"SubUint32", false, 32, 2, u32(checked.SubUint32), exSub},
		{"MulUint32", false, 32, 2, u32(checked.MulUint32), exMul},
		{"DivUint32", false, 32, 2, u32(checked.DivUint32), exDiv},
		{"ModUint32", false, 32, 2, u32(checked.ModUint32), exMod},
		{"LshiftUint32", false, 32, 2, u32(checked.LshiftUint32), exShl(32)},
	}
}

func (f c31fn) bounds() (lo, hi *big.Int) {
	if f.signed {
		hi = new(big.Int).Lsh(big.NewInt(1), f.bits-1)
		lo = new(big.Int).Neg(hi)
		hi.Sub(hi, big.NewInt(1))
		return
	}
	hi = new(big.Int).Lsh(big.NewInt(1), f.bits)
	hi.Sub(hi, big.NewInt(1))
	return big.NewInt(0), hi
}

func (f c31fn) boundary() []*big.Int {
	lo, hi := f.bounds()
	set := map[string]*big.Int{}
	add := func(x *big.Int) {
		if x.Cmp(lo) >= 0 && x.Cmp(hi) <= 0 {
			set[x.String()] = x
		}
	}
	for d := int64(0); d < 4; d++ {
		add(new(big.Int).Add(lo, big.NewInt(d)))
		add(new(big.Int).Sub(hi, big.NewInt(d)))
		add(big.NewInt(d))
		add(big.NewInt(-d))
	}
	for s := uint(1); s < f.bits; s++ {
		p := new(big.Int).Lsh(big.NewInt(1), s)
		for _, d := range []int64{-1, 0, 1} {
			x := new(big.Int).Add(p, big.NewInt(d))
			add(x)
			add(new(big.Int).Neg(x))
		}
	}
	for _, v := range []int64{31, 32, 33, 63, 64, 65, math.MaxInt32, math.MinInt32, 3037000499, 3037000500, 46340, 46341, 65535, 65536, 4294967295, 4294967296} {
		add(big.NewInt(v))
		add(big.NewInt(-v))
	}
	var out []*big.Int
	for _, v := range set {
		out = append(out, v)
	}
	return out
}

func (f c31fn) random(c *Ctx) *big.Int {
	lo, hi := f.bounds()
	span := new(big.Int).Sub(hi, lo)
	span.Add(span, big.NewInt(1))
	switch c.Rng.Intn(4) {
	case 0: // small magnitude
		x := big.NewInt(int64(c.Rng.Intn(200) - 100))
		if x.Cmp(lo) < 0 {
			x.Neg(x)
		}
		return x
	case 1: // random bit-length
		bl := uint(c.Rng.Intn(int(f.bits))) + 1
		x := new(big.Int).Rand(c.Rng, new(big.Int).Lsh(big.NewInt(1), bl))
		if f.signed && c.Rng.Intn(2) == 0 {
			x.Neg(x)
		}
		if x.Cmp(lo) < 0 || x.Cmp(hi) > 0 {
			return new(big.Int).Set(hi)
		}
		return x
	default:
		x := new(big.Int).Rand(c.Rng, span)
		return x.Add(x, lo)
	}
}

func c31one(c *Ctx, f c31fn, a, b *big.Int) {
	v, ok := f.call(a, b)
	var op string
	if f.arity == 1 {
		op = fmt.Sprintf("%s %s", f.name, a)
	} else {
		op = fmt.Sprintf("%s %s %s", f.name, a, b)
	}
	c.Op(op, fmt.Sprintf("%s %v", v, ok))
	// direct oracle
	lo, hi := f.bounds()
	ex := f.exact(a, b)
	fits := ex != nil && ex.Cmp(lo) >= 0 && ex.Cmp(hi) <= 0
	kind := "fits"
	if ex == nil {
		kind = "undefined"
	} else if !fits {
		kind = "overflow"
	}
	c.Count(f.name + "/" + kind)
	c.Distinct(op)
	bad := ""
	switch {
	case fits && !ok:
		bad = fmt.Sprintf("exact result %s fits but failure reported", ex)
	case fits && v.Cmp(ex) != 0:
		bad = fmt.Sprintf("returned %s, exact %s", v, ex)
	case !fits && ok:
		bad = fmt.Sprintf("success reported with value %s although exact result does not fit", v)
	case !fits && v.Sign() != 0:
		bad = fmt.Sprintf("failure reported with non-zero value %s", v)
	}
	if bad != "" {
		sig := fmt.Sprintf("%s(%s,%s)", f.name, a, b)
		if f.arity == 1 {
			sig = fmt.Sprintf("%s(%s)", f.name, a)
		}
		c.Fail(sig, bad)
	}
}

func runC31(c *Ctx) {
	c.Rule = "every function of math/checked on the full boundary grid (type bounds ±3, ±2^k±1, sqrt bounds, shift widths) and on seeded random operand pairs (small / random bit-length / uniform); a case is distinct by (function, operands); all are non-trivial (each reaches a guard)"
	fns := c31funcs()
	byName := map[string]c31fn{}
	for _, f := range fns {
		byName[f.name] = f
	}
	replaying := c.Replay != ""
	lines := c.CorpusLines()
	if replaying {
		lines = c.ReplayLines()
	}
	{
		for _, l := range lines {
			w := strings.Fields(l)
			f, ok := byName[w[0]]
			if !ok || len(w) < 2 {
				continue
			}
			a, _ := new(big.Int).SetString(w[1], 10)
			b := big.NewInt(0)
			if len(w) > 2 {
				b, _ = new(big.Int).SetString(w[2], 10)
			}
			c31one(c, f, a, b)
		}
	}
	if replaying {
		return
	}
	for _, f := range fns {
		bs := f.boundary()
		if f.arity == 1 {
			for _, a := range bs {
				c31one(c, f, a, big.NewInt(0))
			}
		} else {
			// the full grid is ~400^2 per function; quick tier samples it, thorough takes all
			for _, a := range bs {
				for _, b := range bs {
					if c.Tier == "quick" && c.Rng.Intn(8) != 0 {
						continue
					}
					c31one(c, f, a, b)
				}
			}
		}
		for i := 0; i < c.N; i++ {
			a, b := f.random(c), f.random(c)
			if f.arity == 2 && strings.HasPrefix(f.name, "Lshift") && c.Rng.Intn(2) == 0 {
				b = big.NewInt(int64(c.Rng.Intn(int(f.bits) + 8)))
			}
			c31one(c, f, a, b)
		}
	}
}

func init() { register("c31", runC31) }
