//go:build hc21 || hall

package main

import (
	"encoding/binary"
	"fmt"
	"sort"
	"strconv"
	"strings"

	"github.com/bytom/bytom/consensus"
	"github.com/bytom/bytom/database"
	dbm "github.com/bytom/bytom/database/leveldb"
	"github.com/bytom/bytom/protocol/bc"
	"github.com/bytom/bytom/protocol/bc/types"
	"github.com/bytom/bytom/protocol/state"
)

// C21: random interleavings of saves and reads on ONE database.Store (small LRU capacities
// through the verif hook, so eviction happens) over a MemDB.
//
//	reset <capHdr> <capTxs> <capHashes> <capMain> <capCkpt> <b>:<h> …      (universe: block code : height)
//	saveblock <b> <h> <w> <sl,…|-> <tx,…|->  |  savehdr <b> <h> <w> <sl,…|->
//	status <b>:<h> …  |  saveckpt <ch>:<b>:<st> …
//	hdr <b> | txs <b> | hashes <h> | main <h> | block <b> | ckpt <b> | ckpth <h>
//
// Block code b stands for one real header hash (the hash commits to height and the tx root,
// not to BlockWitness w / SupLinks sl), tx code for one real tx id, sl entries for SupLinks
// identified by SourceHeight. Direct oracle: every read on the long-lived Store is repeated on
// a NEW Store over the same DB (database.NewStore) and must give the same canonical answer.

const (
	c21SigAccum = "GetCheckpoint appends the header SupLinks to the cached checkpoint on every read"
	c21SigStale = "header cache not invalidated by SaveBlock of an already stored hash"
)

type c21blk struct {
	height uint64
	hdr    types.BlockHeader // committed part
	hash   bc.Hash
}

type c21env struct {
	c         *Ctx
	db        dbm.DB
	st        *database.Store
	blocks    map[int]*c21blk
	blkCode   map[bc.Hash]int
	txCode    map[bc.Hash]int
	txObj     map[int]*types.Tx
	reblocked map[int]bool // SaveBlock overwrote a header record that already existed
	stored    map[int]bool
	nSig      map[string]int
}

func c21hash(tag byte, n int) bc.Hash {
	var b [32]byte
	b[0] = tag
	binary.BigEndian.PutUint64(b[8:], uint64(n))
	return bc.NewHash(b)
}

// block returns the committed part of block code b (created on first use; the height is
// fixed by the first mention, later mentions with another height denote another code space
// and are rejected by the generator, never produced).
func (e *c21env) block(b int, h uint64) *c21blk {
	if blk, ok := e.blocks[b]; ok {
		return blk
	}
	blk := &c21blk{height: h}
	prev := c21hash(0xb1, b)
	root := c21hash(0xb2, b)
	blk.hdr = types.BlockHeader{Version: 1, Height: h, PreviousBlockHash: prev, Timestamp: uint64(1600000000 + b),
		BlockCommitment: types.BlockCommitment{TransactionsMerkleRoot: root}}
	blk.hash = blk.hdr.Hash()
	// GetCheckpointsByHeight walks the DB in key (= hash) order and stops at the first missing
	// header, so WHICH headers it caches depends on that order; the model orders by block code.
	// Make the two orders coincide: the timestamp is searched until the hash starts with 16*b.
	if b >= 1 && b <= 15 {
		for nonce := uint64(0); blk.hash.Bytes()[0] != byte(16*b); nonce++ {
			blk.hdr.Timestamp = uint64(1600000000+b) + 1000*nonce
			blk.hash = blk.hdr.Hash()
		}
	}
	e.blocks[b] = blk
	e.blkCode[blk.hash] = b
	return blk
}

func (e *c21env) txsOf(codes []int) []*types.Tx {
	var out []*types.Tx
	for _, tc := range codes {
		tx, ok := e.txObj[tc]
		if !ok {
			tx = types.NewTx(types.TxData{Version: 1, SerializedSize: 100, TimeRange: uint64(tc),
				Inputs:  []*types.TxInput{types.NewSpendInput(nil, c21hash(0xb3, tc), *consensus.BTMAssetID, 10, 0, []byte{0x51}, nil)},
				Outputs: []*types.TxOutput{types.NewOriginalTxOutput(*consensus.BTMAssetID, 9, []byte{0x51, byte(tc)}, nil)}})
			e.txObj[tc] = tx
			e.txCode[tx.ID] = tc
		}
		out = append(out, tx)
	}
	return out
}

func (e *c21env) hashOf(b int) bc.Hash {
	if blk, ok := e.blocks[b]; ok {
		return blk.hash
	}
	return c21hash(0xbf, b)
}

func (e *c21env) codeOf(h bc.Hash) int {
	if c, ok := e.blkCode[h]; ok {
		return c
	}
	var raw [32]byte
	copy(raw[:], h.Bytes())
	if raw[0] == 0xbf {
		return int(binary.BigEndian.Uint64(raw[8:16]))
	}
	return -1
}

func c21csv(s string) []int {
	if s == "-" || s == "" {
		return nil
	}
	var out []int
	for _, p := range strings.Split(s, ",") {
		n, err := strconv.Atoi(p)
		if err != nil {
			panic("c21: bad number " + p)
		}
		out = append(out, n)
	}
	return out
}

func c21join(xs []int, sep string) string {
	if len(xs) == 0 {
		return "-"
	}
	s := make([]string, len(xs))
	for i, x := range xs {
		s[i] = strconv.Itoa(x)
	}
	return strings.Join(s, sep)
}

func c21header(blk *c21blk, w int, sl []int) *types.BlockHeader {
	h := blk.hdr
	if w != 0 {
		h.BlockWitness = types.BlockWitness{byte(w)}
	}
	for _, id := range sl {
		h.SupLinks = append(h.SupLinks, &types.SupLink{SourceHeight: uint64(id), SourceHash: c21hash(0xb4, id)})
	}
	return &h
}

func c21sl(links []*types.SupLink) []int {
	var out []int
	for _, l := range links {
		out = append(out, int(l.SourceHeight))
	}
	return out
}

func (e *c21env) showHdr(h *types.BlockHeader) string {
	w := 0
	if len(h.BlockWitness) > 0 {
		w = int(h.BlockWitness[0])
	}
	return fmt.Sprintf("%d %d %d %s", e.codeOf(h.Hash()), h.Height, w, c21join(c21sl(h.SupLinks), ","))
}

func (e *c21env) showTxs(txs []*types.Tx) string {
	var ids []int
	for _, tx := range txs {
		c, ok := e.txCode[tx.ID]
		if !ok {
			c = -1
		}
		ids = append(ids, c)
	}
	return c21join(ids, ",")
}

// read performs one read op on st and prints it canonically.
func (e *c21env) read(st *database.Store, w []string) string {
	n, err := strconv.Atoi(w[1])
	if err != nil {
		return "bad-op"
	}
	switch w[0] {
	case "hdr":
		h := e.hashOf(n)
		hdr, err := st.GetBlockHeader(&h)
		if err != nil {
			return "err"
		}
		return "hdr " + e.showHdr(hdr)
	case "txs":
		h := e.hashOf(n)
		txs, err := st.GetBlockTransactions(&h)
		if err != nil {
			return "err"
		}
		return "ids " + e.showTxs(txs)
	case "hashes":
		hs, err := st.GetBlockHashesByHeight(uint64(n))
		if err != nil {
			return "err"
		}
		var ids []int
		for _, h := range hs {
			ids = append(ids, e.codeOf(*h))
		}
		return "ids " + c21join(ids, ",")
	case "main":
		h, err := st.GetMainChainHash(uint64(n))
		if err != nil {
			return "err"
		}
		return fmt.Sprintf("id %d", e.codeOf(*h))
	case "block":
		h := e.hashOf(n)
		blk, err := st.GetBlock(&h)
		if err != nil {
			return "err"
		}
		return "block " + e.showHdr(&blk.BlockHeader) + " " + e.showTxs(blk.Transactions)
	case "ckpt":
		h := e.hashOf(n)
		cp, err := st.GetCheckpoint(&h)
		if err != nil {
			return "err"
		}
		res := fmt.Sprintf("ckpt %d %d %d %s", cp.Height, e.codeOf(cp.Hash), cp.Status, c21join(c21sl(cp.SupLinks), ","))
		e.ownershipOracle(st, []*state.Checkpoint{cp}, "GetCheckpoint")
		return res
	case "ckpth":
		cps, err := st.GetCheckpointsByHeight(uint64(n))
		if err != nil {
			return "err"
		}
		defer e.ownershipOracle(st, cps, "GetCheckpointsByHeight")
		sort.SliceStable(cps, func(i, j int) bool { return e.codeOf(cps[i].Hash) < e.codeOf(cps[j].Hash) })
		var parts []string
		for _, cp := range cps {
			parts = append(parts, fmt.Sprintf("%d:%d:%d:%s", cp.Height, e.codeOf(cp.Hash), cp.Status, c21join(c21sl(cp.SupLinks), "+")))
		}
		if len(parts) == 0 {
			return "ckpts -"
		}
		return "ckpts " + strings.Join(parts, ";")
	}
	return "bad-op"
}

// c21extends: cached SupLinks = some earlier appends followed by the current header's links
func c21extends(cached, fresh string) bool {
	if cached == fresh || cached == "-" {
		return false
	}
	if fresh == "-" {
		return true
	}
	return strings.HasSuffix(","+cached, ","+fresh)
}

// classify names the class of a difference between the long-lived and a new Store.
func (e *c21env) classify(w []string, cached, fresh string) string {
	full := fmt.Sprintf("%s: cached store [%s] new store [%s]", strings.Join(w, " "), cached, fresh)
	cf, ff := strings.Fields(cached), strings.Fields(fresh)
	n, _ := strconv.Atoi(w[1])
	switch w[0] {
	case "hdr", "block":
		// same record up to the fields the hash does not commit to, after SaveBlock re-wrote it
		if e.reblocked[n] && len(cf) == len(ff) && len(cf) >= 5 && cf[0] == ff[0] && cf[1] == ff[1] && cf[2] == ff[2] && (cf[3] != ff[3] || cf[4] != ff[4]) &&
			strings.Join(cf[5:], " ") == strings.Join(ff[5:], " ") {
			return c21SigStale
		}
	case "ckpt":
		if len(cf) == 5 && len(ff) == 5 && strings.Join(cf[:4], " ") == strings.Join(ff[:4], " ") {
			if e.reblocked[n] {
				return c21SigStale
			}
			if c21extends(cf[4], ff[4]) {
				return c21SigAccum
			}
		}
	case "ckpth":
		// only the SupLinks of checkpoints whose header was re-written by SaveBlock differ
		cp, fp := strings.Split(strings.TrimPrefix(cached, "ckpts "), ";"), strings.Split(strings.TrimPrefix(fresh, "ckpts "), ";")
		if len(cp) == len(fp) {
			ok := true
			for i := range cp {
				a, b := strings.Split(cp[i], ":"), strings.Split(fp[i], ":")
				if len(a) != 4 || len(b) != 4 || a[0] != b[0] || a[1] != b[1] || a[2] != b[2] {
					ok = false
					break
				}
				code, _ := strconv.Atoi(a[1])
				if a[3] != b[3] && !e.reblocked[code] {
					ok = false
				}
			}
			if ok {
				return c21SigStale
			}
		}
	}
	return full
}

func (e *c21env) line(l string) {
	w := strings.Fields(l)
	if len(w) == 0 {
		return
	}
	switch w[0] {
	case "reset":
		if len(w) < 6 {
			return
		}
		var caps [5]int
		for i := range caps {
			caps[i], _ = strconv.Atoi(w[i+1])
		}
		e.db = dbm.NewMemDB()
		e.st = database.VerifNewStoreWithCacheSizes(e.db, caps[0], caps[1], caps[2], caps[3], caps[4])
		e.blocks, e.blkCode, e.txCode, e.txObj = map[int]*c21blk{}, map[bc.Hash]int{}, map[bc.Hash]int{}, map[int]*types.Tx{}
		e.reblocked, e.stored = map[int]bool{}, map[int]bool{}
		// the universe: block code -> height (a code denotes one real header hash from now on)
		for _, tok := range w[6:] {
			p := strings.Split(tok, ":")
			b, _ := strconv.Atoi(p[0])
			h, _ := strconv.Atoi(p[1])
			e.block(b, uint64(h))
		}
		e.c.Op(l, "ok")
		return
	}
	if e.st == nil {
		return
	}
	res := "bad-op"
	var failSig, failDetail string
	func() {
		defer func() {
			if r := recover(); r != nil {
				res = fmt.Sprintf("panic: %v", r)
				failSig, failDetail = "panic in "+l, res
			}
		}()
		switch w[0] {
		case "saveblock":
			if len(w) != 6 {
				return
			}
			b, _ := strconv.Atoi(w[1])
			h, _ := strconv.Atoi(w[2])
			wit, _ := strconv.Atoi(w[3])
			blk := e.block(b, uint64(h))
			if blk.height != uint64(h) {
				res = "bad-op: a block code has one height"
				return
			}
			if e.stored[b] {
				e.reblocked[b] = true
			}
			e.stored[b] = true
			if err := e.st.SaveBlock(&types.Block{BlockHeader: *c21header(blk, wit, c21csv(w[4])), Transactions: e.txsOf(c21csv(w[5]))}); err != nil {
				res = "err"
				return
			}
			res = "ok"
		case "savehdr":
			if len(w) != 5 {
				return
			}
			b, _ := strconv.Atoi(w[1])
			h, _ := strconv.Atoi(w[2])
			wit, _ := strconv.Atoi(w[3])
			blk := e.block(b, uint64(h))
			if blk.height != uint64(h) {
				res = "bad-op: a block code has one height"
				return
			}
			e.stored[b] = true
			if err := e.st.SaveBlockHeader(c21header(blk, wit, c21csv(w[4]))); err != nil {
				res = "err"
				return
			}
			res = "ok"
		case "status":
			var hs []*types.BlockHeader
			for _, tok := range w[1:] {
				p := strings.Split(tok, ":")
				b, _ := strconv.Atoi(p[0])
				h, _ := strconv.Atoi(p[1])
				blk := e.block(b, uint64(h))
				if blk.height != uint64(h) {
					res = "bad-op: a block code has one height"
					return
				}
				hs = append(hs, c21header(blk, 0, nil))
			}
			if len(hs) == 0 {
				return
			}
			best := hs[len(hs)-1]
			bh := best.Hash()
			if err := e.st.SaveChainStatus(best, hs, state.NewUtxoViewpoint(), state.NewContractViewpoint(), 0, &bh); err != nil {
				res = "err"
				return
			}
			res = "ok"
		case "saveckpt":
			var cps []*state.Checkpoint
			for _, tok := range w[1:] {
				p := strings.Split(tok, ":")
				ch, _ := strconv.Atoi(p[0])
				b, _ := strconv.Atoi(p[1])
				st, _ := strconv.Atoi(p[2])
				cps = append(cps, &state.Checkpoint{Height: uint64(ch), Hash: e.hashOf(b), Status: state.CheckpointStatus(st),
					Rewards: map[string]uint64{}, Votes: map[string]uint64{}})
			}
			if err := e.st.SaveCheckpoints(cps); err != nil {
				res = "err"
				return
			}
			res = "ok"
		case "hdr", "txs", "hashes", "main", "block", "ckpt", "ckpth":
			if len(w) != 2 {
				return
			}
			res = e.read(e.st, w)
			// direct oracle: a new Store over the same DB answers the same
			fresh := e.read(database.NewStore(e.db), w)
			e.c.Count("read/" + w[0] + "/" + strings.Fields(res)[0])
			if fresh != res {
				sig := e.classify(w, res, fresh)
				e.c.Count("differs/" + w[0])
				failSig, failDetail = sig, fmt.Sprintf("%s: long-lived store [%s], new store on the same DB [%s]", l, res, fresh)
			}
		}
	}()
	if !strings.HasPrefix(res, "ok") && (w[0] == "saveblock" || w[0] == "savehdr" || w[0] == "status" || w[0] == "saveckpt") {
		e.c.Count("write/" + w[0] + "/" + res)
	} else if res == "ok" {
		e.c.Count("write/" + w[0])
	}
	e.c.Op(l, res)
	if failSig != "" {
		// after Op: the failure is attributed to this line. A recorded class is written out at
		// most 25 times per run (all occurrences are counted in the distribution).
		if e.nSig == nil {
			e.nSig = map[string]int{}
		}
		e.nSig[failSig]++
		if e.nSig[failSig] <= 25 {
			e.c.Fail(failSig, failDetail)
		}
	}
}

type c21gen struct {
	height map[int]int
	txs    map[int]string
	nextTx int
}

func runC21(c *Ctx) {
	c.Rule = "random interleavings over 3-6 block codes on 1-3 heights (several blocks per height): SaveBlock (first time and again with other witness/SupLinks), SaveBlockHeader (SupLinks updates), SaveChainStatus (main-chain index incl. re-pointing a height), SaveCheckpoints (incl. status updates and keys under a foreign height), and the seven getters, each read repeated 1-3 times; LRU capacities 1-3 or unbounded; every read is repeated on a new Store over the same DB; a case is distinct by op prefix"
	e := &c21env{c: c}
	lines := c.CorpusLines()
	if c.Replay != "" {
		lines = c.ReplayLines()
	}
	for _, l := range lines {
		e.line(l)
	}
	if c.Replay != "" {
		return
	}
	capOf := func() int {
		if c.Rng.Intn(3) == 0 {
			return 0
		}
		return 1 + c.Rng.Intn(3)
	}
	for i := 0; i < c.N; i++ {
		reset := fmt.Sprintf("reset %d %d %d %d %d", capOf(), capOf(), capOf(), capOf(), capOf())
		nb := 3 + c.Rng.Intn(4)
		nh := 1 + c.Rng.Intn(3)
		g := &c21gen{height: map[int]int{}, txs: map[int]string{}, nextTx: 1}
		for b := 1; b <= nb; b++ {
			g.height[b] = 1 + c.Rng.Intn(nh)
			reset += fmt.Sprintf(" %d:%d", b, g.height[b])
			var t []int
			for n := c.Rng.Intn(3); n > 0; n-- {
				t = append(t, b*10+len(t))
			}
			g.txs[b] = c21join(t, ",")
		}
		e.line(reset)
		sl := func() string {
			var l []int
			for n := c.Rng.Intn(3); n > 0; n-- {
				l = append(l, 1+c.Rng.Intn(3))
			}
			return c21join(l, ",")
		}
		key := reset
		nOps := 12 + c.Rng.Intn(25)
		reblock := c.Rng.Intn(2) == 0 // half of the cases re-save stored blocks with other witness/SupLinks
		saved := map[int]bool{}
		for j := 0; j < nOps; j++ {
			b := 1 + c.Rng.Intn(nb)
			h := 1 + c.Rng.Intn(nh)
			var ops []string
			switch r := c.Rng.Intn(100); {
			case r < 16:
				if saved[b] && !reblock {
					ops = []string{fmt.Sprintf("savehdr %d %d %d %s", b, g.height[b], c.Rng.Intn(3), sl())}
					break
				}
				saved[b] = true
				ops = []string{fmt.Sprintf("saveblock %d %d %d %s %s", b, g.height[b], c.Rng.Intn(3), sl(), g.txs[b])}
			case r < 24:
				ops = []string{fmt.Sprintf("savehdr %d %d %d %s", b, g.height[b], c.Rng.Intn(3), sl())}
			case r < 32 && c.Rng.Intn(2) == 0:
				// a reorganisation: the main-chain index of several heights is rewritten by ONE
				// SaveChainStatus call (ascending heights, one block each), with the index read
				// (hence cached) before and read again afterwards
				var toks []string
				for hh := 1; hh <= nh; hh++ {
					var at []int
					for bb := 1; bb <= nb; bb++ {
						if g.height[bb] == hh {
							at = append(at, bb)
						}
					}
					if len(at) > 0 && (len(toks) == 0 || c.Rng.Intn(4) > 0) {
						toks = append(toks, fmt.Sprintf("%d:%d", at[c.Rng.Intn(len(at))], hh))
					}
				}
				if len(toks) == 0 {
					break
				}
				for hh := 1; hh <= nh; hh++ {
					if c.Rng.Intn(3) > 0 {
						ops = append(ops, fmt.Sprintf("main %d", hh))
					}
				}
				ops = append(ops, "status "+strings.Join(toks, " "))
				for hh := 1; hh <= nh; hh++ {
					if c.Rng.Intn(4) > 0 {
						ops = append(ops, fmt.Sprintf("main %d", hh))
					}
				}
			case r < 32:
				var toks []string
				for n := 1 + c.Rng.Intn(3); n > 0; n-- {
					bb := 1 + c.Rng.Intn(nb)
					toks = append(toks, fmt.Sprintf("%d:%d", bb, g.height[bb]))
				}
				ops = []string{"status " + strings.Join(toks, " ")}
			case r < 42:
				var toks []string
				for n := 1 + c.Rng.Intn(2); n > 0; n-- {
					bb := 1 + c.Rng.Intn(nb)
					ch := g.height[bb]
					if c.Rng.Intn(8) == 0 {
						ch = 1 + c.Rng.Intn(nh)
					}
					toks = append(toks, fmt.Sprintf("%d:%d:%d", ch, bb, c.Rng.Intn(4)))
				}
				ops = []string{"saveckpt " + strings.Join(toks, " ")}
			default:
				var op string
				switch q := c.Rng.Intn(100); {
				case q < 18:
					op = fmt.Sprintf("hdr %d", b)
				case q < 30:
					op = fmt.Sprintf("txs %d", b)
				case q < 45:
					op = fmt.Sprintf("hashes %d", h)
				case q < 58:
					op = fmt.Sprintf("main %d", h)
				case q < 66:
					op = fmt.Sprintf("block %d", b)
				case q < 90:
					op = fmt.Sprintf("ckpt %d", b)
				default:
					op = fmt.Sprintf("ckpth %d", h)
				}
				for n := 1 + c.Rng.Intn(3); n > 0; n-- {
					ops = append(ops, op)
				}
			}
			for _, op := range ops {
				key += "|" + op
				c.Distinct(key)
				e.line(op)
			}
		}
	}
}

func init() { register("c21", runC21) }

// ownershipOracle: a checkpoint handed out by the store belongs to the caller (the finality
// engine puts it into its tree and adds verifications to its links). Writing a signature into
// every link of the returned object must not change what the store answers for the block header
// afterwards (the returned links must not BE the cached header's link objects).
func (e *c21env) ownershipOracle(st *database.Store, cps []*state.Checkpoint, via string) {
	if st != e.st {
		return
	}
	for _, cp := range cps {
		h := cp.Hash
		before, err := st.GetBlockHeader(&h)
		if err != nil {
			continue
		}
		was := e.showHdr(before)
		for _, sl := range cp.SupLinks {
			sl.Signatures[9] = []byte{0xee}
		}
		after, err := st.GetBlockHeader(&h)
		if err != nil {
			continue
		}
		if now := e.showHdrSlot9(after); now != "" || e.showHdr(after) != was {
			e.c.Fail("checkpoint handed out by the store aliases the cached block header", fmt.Sprintf("%s(block %d): writing into the links of the returned checkpoint changed the cached header: %s -> %s %s", via, e.codeOf(h), was, e.showHdr(after), now))
			// undo, so that the rest of the stream is not disturbed
			for _, sl := range after.SupLinks {
				sl.Signatures[9] = nil
			}
		}
		for _, sl := range cp.SupLinks {
			sl.Signatures[9] = nil
		}
	}
}

func (e *c21env) showHdrSlot9(h *types.BlockHeader) string {
	for _, sl := range h.SupLinks {
		if len(sl.Signatures[9]) != 0 {
			return fmt.Sprintf("(slot 9 of the cached header's link from height %d is now set)", sl.SourceHeight)
		}
	}
	return ""
}
