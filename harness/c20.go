//go:build hc20 || hall

package main

import (
	"bytes"
	"encoding/hex"
	"fmt"
	"os"
	"strings"

	dbm "github.com/bytom/bytom/database/leveldb"
)

// C20: the same operation sequence on MemDB and on a temp-dir GoLevelDB.
//
//	op lines:  reset | mem <op> | ldb <op>
//	<op>:      get K | has K | set K V | setsync K V | del K | batch s,K,V d,K … | ip P | ws P S f|r
//	           | setmut K V | setmutk K V | getmut K | batchmut K V
//	           | bnew H | bset H K V | bdel H K | bwrite H     batch HANDLES: a handle lives on after
//	             Write, may be written again (with other ops in between), several are alive at once
//	impl line: ok | <value> | present/absent | pair <value> <value> | cur=<K:V|none> K:V K:V …
//	           value: `nil` (nil slice = "not stored"), `-` (present, EMPTY) or hex — the three are
//	           never merged: `db.Get(k) != nil` is the existence check used all over the node
//
// Correspondence: `mem` lines against the Lean model of mem_db.go, `ldb` lines against the
// abstract ordered store. Direct oracle: every op is run on both backends and the two
// canonical result lines must be identical.

const (
	c20SigPrefix  = "IteratorPrefixWithStart: MemDB ignores Prefix"
	c20SigReverse = "IteratorPrefixWithStart(reverse, start!=nil): MemDB iterates keys >= start, GoLevelDB keys < start"
	c20SigNil     = "nil value: MemDB returns nil, GoLevelDB returns empty non-nil"
	c20SigSetMut  = "MemDB.Set stores the caller's slice"
	c20SigGetMut  = "MemDB.Get returns the stored slice"
	c20SigBatch   = "memDBBatch keeps the caller's key/value slices until Write"
)

func c20show(b []byte) string {
	if b == nil {
		return "nil"
	}
	if len(b) == 0 {
		return "-"
	}
	return hex.EncodeToString(b)
}

func c20parse(s string) ([]byte, error) {
	if s == "nil" {
		return nil, nil
	}
	if s == "-" {
		return []byte{}, nil
	}
	return hex.DecodeString(s)
}

type c20kv struct{ k, v []byte }

type c20res struct {
	kind string // ok | val | has | pair | seq
	val  []byte
	val2 []byte
	cur  *c20kv
	seq  []c20kv
}

func (r c20res) line(norm bool) string {
	sv := func(v []byte) string {
		if norm && v == nil {
			v = []byte{}
		}
		return c20show(v)
	}
	switch r.kind {
	case "ok":
		return "ok"
	case "val":
		return sv(r.val)
	case "has":
		if r.val != nil || norm {
			return "present"
		}
		return "absent"
	case "pair":
		return "pair " + sv(r.val) + " " + sv(r.val2)
	}
	var sb strings.Builder
	if r.cur == nil {
		sb.WriteString("cur=none")
	} else {
		sb.WriteString("cur=" + c20show(r.cur.k) + ":" + sv(r.cur.v))
	}
	for _, e := range r.seq {
		sb.WriteString(" " + c20show(e.k) + ":" + sv(e.v))
	}
	return sb.String()
}

func (r c20res) all() []c20kv {
	var out []c20kv
	if r.cur != nil {
		out = append(out, *r.cur)
	}
	return append(out, r.seq...)
}

func c20drain(it dbm.Iterator, withCur bool) c20res {
	r := c20res{kind: "seq"}
	if withCur {
		// a fresh IteratorPrefixWithStart(start != nil) is positioned AT an entry (the only
		// caller, Store.CheckpointsFromNode, reads it.Value() before the first Next()).
		// An empty Key() means "not on an entry" (the harness never stores the empty key).
		if k := it.Key(); len(k) > 0 {
			r.cur = &c20kv{k, it.Value()}
		}
	}
	for it.Next() {
		r.seq = append(r.seq, c20kv{it.Key(), it.Value()})
	}
	it.Release()
	return r
}

// c20exec runs one <op> on db.
func c20exec(db dbm.DB, w []string) (c20res, error) {
	bad := fmt.Errorf("bad op %v", w)
	if len(w) == 0 {
		return c20res{}, bad
	}
	arg := func(i int) []byte {
		if i >= len(w) {
			panic(bad)
		}
		b, err := c20parse(w[i])
		if err != nil {
			panic(bad)
		}
		return b
	}
	switch w[0] {
	case "get":
		return c20res{kind: "val", val: db.Get(arg(1))}, nil
	case "has": // existence-style read
		return c20res{kind: "has", val: db.Get(arg(1))}, nil
	case "set":
		db.Set(arg(1), arg(2))
		return c20res{kind: "ok"}, nil
	case "setsync":
		db.SetSync(arg(1), arg(2))
		return c20res{kind: "ok"}, nil
	case "setmutk": // the caller reuses its KEY buffer after Set
		k, v := arg(1), arg(2)
		kbuf := append([]byte{}, k...)
		db.Set(kbuf, append([]byte{}, v...))
		kbuf[0] ^= 0xff
		k2 := append([]byte{}, k...)
		k2[0] ^= 0xff
		return c20res{kind: "pair", val: c20clone(db.Get(k)), val2: c20clone(db.Get(k2))}, nil
	case "batchmut": // the caller reuses key and value buffers between Batch.Set and Write
		k, v := arg(1), arg(2)
		kbuf, vbuf := append([]byte{}, k...), append([]byte{}, v...)
		b := db.NewBatch()
		b.Set(kbuf, vbuf)
		kbuf[0] ^= 0xff
		if len(vbuf) > 0 {
			vbuf[0] ^= 0xff
		}
		b.Write()
		k2 := append([]byte{}, k...)
		k2[0] ^= 0xff
		res := c20res{kind: "pair", val: c20clone(db.Get(k)), val2: c20clone(db.Get(k2))}
		db.Delete(k2)
		db.Set(k, append([]byte{}, v...))
		return res, nil
	case "del":
		db.Delete(arg(1))
		return c20res{kind: "ok"}, nil
	case "batch":
		b := db.NewBatch()
		for _, tok := range w[1:] {
			p := strings.Split(tok, ",")
			switch {
			case len(p) == 3 && p[0] == "s":
				k, _ := c20parse(p[1])
				v, _ := c20parse(p[2])
				b.Set(k, v)
			case len(p) == 2 && p[0] == "d":
				k, _ := c20parse(p[1])
				b.Delete(k)
			default:
				return c20res{}, bad
			}
		}
		b.Write()
		return c20res{kind: "ok"}, nil
	case "ip":
		return c20drain(db.IteratorPrefix(arg(1)), false), nil
	case "ws":
		if len(w) != 4 {
			return c20res{}, bad
		}
		start := arg(2)
		return c20drain(db.IteratorPrefixWithStart(arg(1), start, w[3] == "r"), start != nil), nil
	case "setmut":
		k, v := arg(1), arg(2)
		buf := append([]byte{}, v...)
		db.Set(k, buf)
		if len(buf) > 0 {
			buf[0] ^= 0xff // the caller reuses its buffer
		}
		res := c20res{kind: "val", val: c20clone(db.Get(k))}
		db.Set(k, append([]byte{}, v...))
		return res, nil
	case "getmut":
		k := arg(1)
		g := db.Get(k)
		if g == nil {
			return c20res{kind: "val", val: nil}, nil
		}
		orig := append([]byte{}, g...)
		if len(g) > 0 {
			g[0] ^= 0xff // the caller writes into the slice it was handed
		}
		res := c20res{kind: "val", val: c20clone(db.Get(k))}
		db.Set(k, orig)
		return res, nil
	}
	return c20res{}, bad
}

// c20clone copies a result keeping the nil / empty distinction.
func c20clone(b []byte) []byte {
	if b == nil {
		return nil
	}
	return append([]byte{}, b...)
}

func nilKeep(b []byte) []byte { return c20clone(b) }

func c20filterPrefix(all []c20kv, p []byte) []c20kv {
	var out []c20kv
	for _, e := range all {
		if bytes.HasPrefix(e.k, p) {
			out = append(out, e)
		}
	}
	return out
}

func c20sameNorm(a, b []c20kv) bool {
	if len(a) != len(b) {
		return false
	}
	for i := range a {
		if !bytes.Equal(a[i].k, b[i].k) || !bytes.Equal(a[i].v, b[i].v) {
			return false
		}
	}
	return true
}

// c20nilOnly: the two answers differ only in nil vs empty values, and every such value belongs
// to a key whose last write stored a NIL slice (the recorded class F24c). An EMPTY value that
// one backend reports as absent is NOT that class.
func c20nilOnly(w []string, m, l c20res, nilKeys map[string]bool) bool {
	if m.line(true) != l.line(true) {
		return false
	}
	differs := func(a, b []byte) bool { return (a == nil) != (b == nil) }
	key := func(i int) string {
		k, _ := c20parse(w[i])
		return string(k)
	}
	switch m.kind {
	case "val", "has":
		return !differs(m.val, l.val) || nilKeys[key(1)]
	case "pair":
		k2 := []byte(key(1))
		k2[0] ^= 0xff
		return (!differs(m.val, l.val) || nilKeys[key(1)]) && (!differs(m.val2, l.val2) || nilKeys[string(k2)])
	case "seq":
		ma, la := m.all(), l.all()
		for i := range ma {
			if differs(ma[i].v, la[i].v) && !nilKeys[string(ma[i].k)] {
				return false
			}
		}
	}
	return true
}

// c20classify names the class of a difference between the two backends on op w.
// Anything that is not exactly one of the recorded classes keeps the full op as signature.
func c20classify(w []string, m, l c20res, nilKeys map[string]bool) string {
	full := fmt.Sprintf("%s: mem=[%s] ldb=[%s]", strings.Join(w, " "), m.line(false), l.line(false))
	// the aliasing probes first: their recorded patterns are exact (nil-ness included)
	switch w[0] {
	case "setmut":
		v, _ := c20parse(w[2])
		if len(v) > 0 && bytes.Equal(l.val, v) && len(m.val) == len(v) && m.val[0] == v[0]^0xff && bytes.Equal(m.val[1:], v[1:]) {
			return c20SigSetMut
		}
	case "getmut":
		if len(l.val) > 0 && len(m.val) == len(l.val) && m.val[0] == l.val[0]^0xff && bytes.Equal(m.val[1:], l.val[1:]) {
			return c20SigGetMut
		}
	case "batchmut":
		// GoLevelDB wrote (k, v); MemDB wrote the mutated buffers (k', flip(v))
		v, _ := c20parse(w[2])
		fv := append([]byte{}, v...)
		if len(fv) > 0 {
			fv[0] ^= 0xff
		}
		if l.val != nil && bytes.Equal(l.val, v) && m.val2 != nil && bytes.Equal(m.val2, fv) {
			return c20SigBatch
		}
	}
	if m.line(true) == l.line(true) {
		if c20nilOnly(w, m, l, nilKeys) {
			return c20SigNil // the only difference: values written as nil slices
		}
		return "empty value reported as absent by one backend: " + full
	}
	if w[0] == "ws" {
		p, _ := c20parse(w[1])
		if w[3] == "r" && w[2] != "nil" {
			return c20SigReverse
		}
		if c20sameNorm(c20filterPrefix(m.all(), p), l.all()) {
			return c20SigPrefix
		}
	}
	return full
}

type c20env struct {
	c       *Ctx
	mem     dbm.DB
	ldb     dbm.DB
	lastOp  string
	lastRes c20res
	haveMem bool
	nSig    map[string]int
	nilKeys map[string]bool // keys whose last write stored a nil slice
	memB    map[int]dbm.Batch
	ldbB    map[int]dbm.Batch
	hOps    map[int][][2]string // per handle: recorded (key, value|"del") tokens, for nilKeys tracking
	shared  map[string]bool     // keys whose MemDB value slice is the one recorded in a live batch handle
}

// handleOp runs a batch-handle op on one backend; ok=false if w is not a handle op.
func (e *c20env) handleOp(backend string, w []string) (handled bool, err error) {
	hs := e.memB
	db := e.mem
	if backend == "ldb" {
		hs, db = e.ldbB, e.ldb
	}
	if len(w) < 2 {
		return false, nil
	}
	switch w[0] {
	case "bnew", "bset", "bdel", "bwrite":
	default:
		return false, nil
	}
	h := 0
	fmt.Sscanf(w[1], "%d", &h)
	switch w[0] {
	case "bnew":
		hs[h] = db.NewBatch()
	case "bset":
		if len(w) != 4 || hs[h] == nil {
			return true, fmt.Errorf("bad handle op %v", w)
		}
		k, _ := c20parse(w[2])
		v, _ := c20parse(w[3])
		hs[h].Set(k, v)
	case "bdel":
		if len(w) != 3 || hs[h] == nil {
			return true, fmt.Errorf("bad handle op %v", w)
		}
		k, _ := c20parse(w[2])
		hs[h].Delete(k)
	case "bwrite":
		if hs[h] != nil {
			hs[h].Write()
		}
	}
	return true, nil
}

// track keeps nilKeys in step with the op (called once per op pair, on the `mem` line).
func (e *c20env) track(w []string) {
	key := func(s string) string { k, _ := c20parse(s); return string(k) }
	// MemDB's Write stores the very slice the handle recorded: until the key is written otherwise,
	// map entry and handle share it (so a write through a Get result would also change what the
	// handle replays later — cross-object aliasing the value-level model does not represent; the
	// generator keeps the getmut probe away from such keys)
	switch w[0] {
	case "set", "setsync", "del", "setmut", "setmutk", "batchmut":
		delete(e.shared, key(w[1]))
		if w[0] == "batchmut" {
			k2 := []byte(key(w[1]))
			k2[0] ^= 0xff
			delete(e.shared, string(k2))
		}
	case "batch":
		for _, tok := range w[1:] {
			if p := strings.Split(tok, ","); len(p) >= 2 {
				delete(e.shared, key(p[1]))
			}
		}
	case "bwrite":
		h := 0
		fmt.Sscanf(w[1], "%d", &h)
		for _, kv := range e.hOps[h] {
			if kv[1] == "del" {
				delete(e.shared, key(kv[0]))
			} else {
				e.shared[key(kv[0])] = true
			}
		}
	}
	switch w[0] {
	case "set", "setsync":
		e.nilKeys[key(w[1])] = w[2] == "nil"
	case "del":
		delete(e.nilKeys, key(w[1]))
	case "batch":
		for _, tok := range w[1:] {
			p := strings.Split(tok, ",")
			if len(p) == 3 {
				e.nilKeys[key(p[1])] = p[2] == "nil"
			} else if len(p) == 2 {
				delete(e.nilKeys, key(p[1]))
			}
		}
	case "bnew":
		h := 0
		fmt.Sscanf(w[1], "%d", &h)
		e.hOps[h] = nil
	case "bset", "bdel":
		h := 0
		fmt.Sscanf(w[1], "%d", &h)
		v := "del"
		if w[0] == "bset" {
			v = w[3]
		}
		e.hOps[h] = append(e.hOps[h], [2]string{w[2], v})
	case "bwrite":
		h := 0
		fmt.Sscanf(w[1], "%d", &h)
		for _, kv := range e.hOps[h] {
			if kv[1] == "del" {
				delete(e.nilKeys, key(kv[0]))
			} else {
				e.nilKeys[key(kv[0])] = kv[1] == "nil"
			}
		}
	case "setmut", "setmutk":
		e.nilKeys[key(w[1])] = false
	case "batchmut":
		k2 := []byte(key(w[1]))
		k2[0] ^= 0xff
		e.nilKeys[key(w[1])] = false
		delete(e.nilKeys, string(k2))
	}
}

// fail records a direct-oracle failure; a recorded class is written out at most 25 times per
// run (every occurrence is still counted in the distribution), so that thorough runs stay
// readable; signatures that are not a recorded class carry the whole op and are all written.
func (e *c20env) fail(sig, detail string) {
	if e.nSig == nil {
		e.nSig = map[string]int{}
	}
	e.nSig[sig]++
	if e.nSig[sig] <= 25 {
		e.c.Fail(sig, detail)
	}
}

func (e *c20env) reset() {
	e.mem = dbm.NewMemDB()
	it := e.ldb.Iterator()
	var keys [][]byte
	for it.Next() {
		keys = append(keys, it.Key())
	}
	it.Release()
	for _, k := range keys {
		e.ldb.Delete(k)
	}
	e.haveMem = false
	e.nilKeys = map[string]bool{}
	e.memB, e.ldbB, e.hOps = map[int]dbm.Batch{}, map[int]dbm.Batch{}, map[int][][2]string{}
	e.shared = map[string]bool{}
	e.c.Op("reset", "ok")
}

func (e *c20env) line(l string) {
	w := strings.Fields(l)
	if len(w) == 0 {
		return
	}
	if w[0] == "reset" {
		e.reset()
		return
	}
	if len(w) < 2 || (w[0] != "mem" && w[0] != "ldb") {
		return
	}
	db := e.mem
	if w[0] == "ldb" {
		db = e.ldb
	}
	var res c20res
	var err error
	func() {
		defer func() {
			if r := recover(); r != nil {
				err = fmt.Errorf("panic: %v", r)
			}
		}()
		var handled bool
		if handled, err = e.handleOp(w[0], w[1:]); handled {
			res = c20res{kind: "ok"}
			return
		}
		res, err = c20exec(db, w[1:])
	}()
	if err != nil {
		e.c.Op(l, "error "+err.Error())
		e.c.Fail("backend error: "+l, err.Error())
		return
	}
	e.c.Op(l, res.line(false))
	opText := strings.Join(w[1:], " ")
	if w[0] == "mem" {
		e.lastOp, e.lastRes, e.haveMem = opText, res, true
		e.track(w[1:]) // the comparison below sees which keys hold a nil slice AFTER this op's writes
		return
	}
	if !e.haveMem || e.lastOp != opText {
		return
	}
	e.haveMem = false
	// direct oracle: the two backends answer identically
	e.c.Count(w[1])
	if w[1] == "ws" {
		e.c.Count("ws/" + w[4] + "/start=" + map[bool]string{true: "nil", false: "given"}[w[3] == "nil"])
	}
	if res.line(false) != e.lastRes.line(false) {
		sig := c20classify(w[1:], e.lastRes, res, e.nilKeys)
		e.c.Count("differs/" + strings.SplitN(sig, ":", 2)[0])
		e.fail(sig, fmt.Sprintf("%s: MemDB=[%s] GoLevelDB=[%s]", opText, e.lastRes.line(false), res.line(false)))
	}
}

func (e *c20env) both(op string) {
	e.c.Distinct(op)
	e.line("mem " + op)
	e.line("ldb " + op)
}

var c20alpha = []byte{0x00, 0x61, 0x62, 0xff}

func c20key(c *Ctx, minLen, maxLen int) []byte {
	n := minLen
	for n < maxLen && c.Rng.Intn(2) == 0 {
		n++
	}
	k := make([]byte, n)
	for i := range k {
		k[i] = c20alpha[c.Rng.Intn(len(c20alpha))]
	}
	return k
}

func c20hasInt(xs []int, x int) bool {
	for _, y := range xs {
		if y == x {
			return true
		}
	}
	return false
}

func c20valGen(c *Ctx, allowNil bool) []byte {
	// a dedicated share of EMPTY non-nil values (present key, zero length) and of nil values
	switch r := c.Rng.Intn(20); {
	case r < 2 && allowNil:
		return nil
	case r < 6:
		return []byte{}
	}
	v := make([]byte, 1+c.Rng.Intn(3))
	c.Rng.Read(v)
	return v
}

func c20start(c *Ctx, p []byte) string {
	switch c.Rng.Intn(7) {
	case 0:
		return "nil"
	case 1:
		return "-"
	case 2: // at / inside the prefix range
		return c20show(append(append([]byte{}, p...), c20key(c, 0, 2)...))
	case 3: // just beyond the prefix range
		if len(p) > 0 && p[len(p)-1] != 0xff {
			q := append([]byte{}, p...)
			q[len(q)-1]++
			return c20show(q)
		}
		return c20show(c20key(c, 1, 3))
	case 4: // before the prefix range
		if len(p) > 0 {
			return c20show(p[:len(p)-1])
		}
		return "-"
	default:
		return c20show(c20key(c, 1, 3))
	}
}

func runC20(c *Ctx) {
	c.Rule = "operation sequences (get/has/set/setsync/delete/batch/IteratorPrefix/IteratorPrefixWithStart fwd+rev; batch HANDLES (bnew/bset/bdel/bwrite: up to 3 alive, written repeatedly with other ops in between); empty-and-nil-value probes through every write path read back by Get, existence check and iteration; caller-mutation probes on value, key, result and batch buffers) over keys of length 1..3 from the alphabet {00,61,62,ff} (shared prefixes, unsigned byte order), values nil (10% in a third of the cases) / empty non-nil (20%) / 1-3 random bytes, starts nil/empty/inside/just beyond/before the prefix range; each op runs on MemDB and on a temp-dir GoLevelDB; a case is distinct by op text"
	dir, err := os.MkdirTemp("/var/tmp", "verif-c20-ldb-")
	if err != nil {
		panic(err)
	}
	defer os.RemoveAll(dir)
	ldb, err := dbm.NewGoLevelDB("c20", dir)
	if err != nil {
		panic(err)
	}
	defer ldb.Close()
	e := &c20env{c: c, mem: dbm.NewMemDB(), ldb: ldb, nilKeys: map[string]bool{}, memB: map[int]dbm.Batch{}, ldbB: map[int]dbm.Batch{}, hOps: map[int][][2]string{}, shared: map[string]bool{}}

	lines := c.CorpusLines()
	if c.Replay != "" {
		lines = c.ReplayLines()
	}
	for _, l := range lines {
		e.line(l)
	}
	if c.Replay != "" {
		return
	}
	opsPerCase := 24
	if c.Tier == "thorough" {
		opsPerCase = 40
	}
	for i := 0; i < c.N; i++ {
		e.reset()
		// some cases never use the recorded defect classes' triggers for values (nil),
		// so that everything else is compared on an otherwise clean state
		allowNil := c.Rng.Intn(3) == 0
		alive := []int{} // batch handles created in this case
		for j := 0; j < opsPerCase; j++ {
			// batch handles as long-lived objects: ~1/5 of the ops
			if hr := c.Rng.Intn(100); hr < 20 {
				switch {
				case len(alive) == 0 || hr < 3:
					h := 1 + c.Rng.Intn(3)
					e.both(fmt.Sprintf("bnew %d", h))
					if !c20hasInt(alive, h) {
						alive = append(alive, h)
					}
				case hr < 10:
					e.both(fmt.Sprintf("bset %d %s %s", alive[c.Rng.Intn(len(alive))], c20show(c20key(c, 1, 2)), c20show(c20valGen(c, allowNil))))
				case hr < 13:
					e.both(fmt.Sprintf("bdel %d %s", alive[c.Rng.Intn(len(alive))], c20show(c20key(c, 1, 2))))
				default:
					e.both(fmt.Sprintf("bwrite %d", alive[c.Rng.Intn(len(alive))]))
				}
				continue
			}
			switch r := c.Rng.Intn(100); {
			case r < 24:
				w := "set"
				if c.Rng.Intn(4) == 0 {
					w = "setsync"
				}
				e.both(fmt.Sprintf("%s %s %s", w, c20show(c20key(c, 1, 3)), c20show(c20valGen(c, allowNil))))
			case r < 32:
				e.both("del " + c20show(c20key(c, 1, 3)))
			case r < 42:
				e.both("get " + c20show(c20key(c, 1, 3)))
			case r < 47:
				e.both("has " + c20show(c20key(c, 1, 3)))
			case r < 55:
				var toks []string
				for n := 1 + c.Rng.Intn(4); n > 0; n-- {
					if c.Rng.Intn(3) == 0 {
						toks = append(toks, "d,"+c20show(c20key(c, 1, 2)))
					} else {
						toks = append(toks, "s,"+c20show(c20key(c, 1, 2))+","+c20show(c20valGen(c, allowNil)))
					}
				}
				e.both("batch " + strings.Join(toks, " "))
			case r < 65:
				e.both("ip " + c20show(c20key(c, 0, 2)))
			case r < 83:
				p := c20key(c, 0, 2)
				d := "f"
				if c.Rng.Intn(4) == 0 {
					d = "r"
				}
				e.both(fmt.Sprintf("ws %s %s %s", c20show(p), c20start(c, p), d))
			case r < 88:
				// a key written with an EMPTY (present, zero-length) or a nil value through each
				// write path, then read back: value, existence, iteration
				k := c20key(c, 1, 3)
				v := "-"
				if allowNil && c.Rng.Intn(3) == 0 {
					v = "nil"
				}
				switch c.Rng.Intn(3) {
				case 0:
					e.both(fmt.Sprintf("set %s %s", c20show(k), v))
				case 1:
					e.both(fmt.Sprintf("setsync %s %s", c20show(k), v))
				default:
					e.both(fmt.Sprintf("batch s,%s,%s", c20show(k), v))
				}
				c.Count("value-probe/" + v)
				e.both("get " + c20show(k))
				e.both("has " + c20show(k))
				e.both("ip " + c20show(k[:1]))
			case r < 91:
				v := c20valGen(c, false)
				e.both(fmt.Sprintf("setmut %s %s", c20show(c20key(c, 1, 3)), c20show(v)))
			case r < 94:
				e.both(fmt.Sprintf("setmutk %s %s", c20show(c20key(c, 1, 3)), c20show(c20valGen(c, false))))
			case r < 97:
				if k := c20key(c, 1, 3); e.shared[string(k)] {
					e.both("get " + c20show(k)) // value slice shared with a live handle: see track()
				} else {
					e.both("getmut " + c20show(k))
				}
			default:
				e.both(fmt.Sprintf("batchmut %s %s", c20show(c20key(c, 1, 3)), c20show(c20valGen(c, false))))
			}
		}
	}
}

func init() { register("c20", runC20) }
