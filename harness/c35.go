//go:build hc35 || hall

package main

import (
	"fmt"
	"math"
	"strconv"
	"strings"

	"github.com/bytom/bytom/p2p/security"
	"github.com/bytom/bytom/p2p/trust"
)

// C35: DynamicBanScore.increase / .int of p2p/security/banscore.go and its copy
// p2p/trust/banscore.go, with an explicit clock (hook verif_banscore_verif.go).
//
//	d <pkg> <t> <bits>                 decayFactor(t) of the package, t = 0…1800 (emitted once)
//	reset <pkg>                        zero-value score of package pkg
//	set <lastUnix> <bits> <persistent> overwrite the three state fields
//	inc <p> <tr> <t>                   increase(p, tr, t)  → <score> <lastUnix> <transient bits> <persistent>
//	int <t>                            int(t)              → <score>
//
// Direct oracle: decay table = 2^(-t/60) (d(0)=1, antitone, halves every 60 s); int(t) equals
// persistent + floor(transient·2^(-dt/60)) recomputed independently (±1 at a floor boundary),
// = persistent when dt > 1800; every increase returns at least (score before at t) + p;
// the returned score equals int(t) at the same instant.

const (
	c35SigWrap  = "increase: uint32 wrap-around (persistent + added amount + transient >= 2^32)"
	c35SigStale = "increase(p, 0, t): returned score uses the un-decayed transient (differs from int(t))"
	c35SigInit  = "trust.decayFactor before Init(): precomputed table is all zero"
)

// known-finding signatures are reported at most a few times per run (every occurrence is
// counted in the distribution); unknown signatures are always reported
var c35seen = map[string]int{}

func c35fail(c *Ctx, sig, detail string) {
	if sig == c35SigWrap || sig == c35SigStale {
		c35seen[sig]++
		if c35seen[sig] > 3 {
			return
		}
	}
	c.Fail(sig, detail)
}

type c35score interface {
	VerifIncrease(p, tr uint32, t int64) uint32
	VerifInt(t int64) uint32
	VerifState() (int64, float64, uint32)
	VerifSetState(int64, float64, uint32)
}

type c35pkg struct {
	name  string
	fresh func() c35score
	decay func(int64) float64
}

var c35pkgs = []c35pkg{
	{"security", func() c35score { return &security.DynamicBanScore{} }, security.VerifDecayFactor},
	{"trust", func() c35score { return &trust.DynamicBanScore{} }, trust.VerifDecayFactor},
}

type c35state struct {
	pkg c35pkg
	s   c35score
	// independent shadow of the documented rule
	shLast int64
	shTr   float64
	shPers uint64 // exact (no wrap)
	shOK   bool   // shadow still comparable (no wrap happened, no `set`)
}

func c35ideal(dt int64) float64 { return math.Exp2(-float64(dt) / 60.0) }

func (st *c35state) shadowScore(t int64) (float64, bool) {
	dt := t - st.shLast
	if st.shTr < 1 || dt < 0 || dt > 1800 {
		return float64(st.shPers), false
	}
	return float64(st.shPers) + st.shTr*c35ideal(dt), true
}

func c35exec(c *Ctx, st *c35state, line string) {
	w := strings.Fields(line)
	if len(w) == 0 {
		return
	}
	i64 := func(x string) int64 {
		v, err := strconv.ParseInt(x, 10, 64)
		if err != nil {
			panic("bad number in op line: " + line)
		}
		return v
	}
	u32 := func(x string) uint32 {
		v, err := strconv.ParseUint(x, 10, 32)
		if err != nil {
			panic("bad number in op line: " + line)
		}
		return uint32(v)
	}
	switch w[0] {
	case "d":
		return // tables are emitted by the harness itself
	case "reset":
		name := "security"
		if len(w) > 1 {
			name = w[1]
		}
		for _, p := range c35pkgs {
			if p.name == name {
				st.pkg = p
			}
		}
		st.s = st.pkg.fresh()
		st.shLast, st.shTr, st.shPers, st.shOK = 0, 0, 0, true
		c.Op("reset "+st.pkg.name, "ok")
	case "set":
		bits, err := strconv.ParseUint(w[2], 16, 64)
		if err != nil {
			panic("bad bits: " + line)
		}
		tr := math.Float64frombits(bits)
		st.s.VerifSetState(i64(w[1]), tr, u32(w[3]))
		st.shLast, st.shTr, st.shPers, st.shOK = i64(w[1]), tr, uint64(u32(w[3])), true
		c.Op(line, "ok")
	case "int":
		t := i64(w[1])
		r := st.s.VerifInt(t)
		c.Op(line, fmt.Sprint(r))
		last, tr, pers := st.s.VerifState()
		dt := t - last
		switch {
		case dt > 1800:
			c.Count("int/forgotten")
			if r != pers {
				c.Fail("int after lifetime: "+line, fmt.Sprintf("score %d != persistent %d although %d s passed", r, pers, dt))
			}
		case dt < 0:
			c.Count("int/clock-back")
		case tr < 1:
			c.Count("int/no-transient")
		default:
			c.Count("int/decaying")
			c.Distinct(fmt.Sprintf("%s %d %x %d", line, last, math.Float64bits(tr), pers))
		}
		c35checkShadow(c, st, line, t, r)
	case "inc":
		p, tr, t := u32(w[1]), u32(w[2]), i64(w[3])
		last0, tr0, pers0 := st.s.VerifState()
		before := st.s.VerifInt(t)
		r := st.s.VerifIncrease(p, tr, t)
		last1, tr1, pers1 := st.s.VerifState()
		c.Op(line, fmt.Sprintf("%d %d %016x %d", r, last1, math.Float64bits(tr1), pers1))
		c.Distinct(fmt.Sprintf("%s %d %x %d", line, last0, math.Float64bits(tr0), pers0))
		dt := t - last0
		// shadow update (documented rule, exact persistent)
		st.shPers += uint64(p)
		if tr > 0 {
			sdt := t - st.shLast
			switch {
			case sdt > 1800:
				st.shTr = 0
			case st.shTr > 1 && sdt > 0:
				st.shTr *= c35ideal(sdt)
			}
			st.shTr += float64(tr)
			st.shLast = t
		}
		// O2: the score rises by at least the added persistent amount
		exact := uint64(pers0) + uint64(p) + uint64(tr1) // floor of the new transient, no wrap
		wraps := exact >= 1<<32 || tr1 >= 1<<32
		if wraps {
			c.Count("inc/wrap-class")
			st.shOK = false
		}
		if uint64(r) < uint64(before)+uint64(p) {
			sig := "score rose by less than the added persistent amount: " + line
			if wraps {
				sig = c35SigWrap
				c.Count("F21-wrap-seen")
			}
			c35fail(c, sig, fmt.Sprintf("state (last=%d transient=%v persistent=%d), score before at t: %d, added persistent %d, returned %d", last0, tr0, pers0, before, p, r))
		}
		// O3: the returned score is the score at that instant
		after := st.s.VerifInt(t)
		if after != r {
			sig := "returned score differs from int(t): " + line
			if tr == 0 && tr0 >= 1 && dt != 0 {
				sig = c35SigStale
				c.Count("F21b-stale-seen")
			}
			c35fail(c, sig, fmt.Sprintf("state (last=%d transient=%v persistent=%d): increase returned %d, int(%d) = %d", last0, tr0, pers0, r, t, after))
		}
		switch {
		case tr == 0:
			c.Count("inc/persistent-only")
		case dt > 1800:
			c.Count("inc/after-lifetime")
		case dt < 0:
			c.Count("inc/clock-back")
		case dt == 0:
			c.Count("inc/same-second")
		case dt < 64:
			c.Count("inc/dt<64")
		default:
			c.Count("inc/dt>=64")
		}
		c35checkShadow(c, st, line, t, after)
	default:
		panic("unknown op line: " + line)
	}
}

// O4: int(t) = persistent + floor(transient decayed with a 60 s half-life), recomputed from
// the history with exact persistent and 2^(-dt/60) from math.Exp2 (±1 at a floor boundary)
func c35checkShadow(c *Ctx, st *c35state, line string, t int64, got uint32) {
	if !st.shOK {
		return
	}
	want, _ := st.shadowScore(t)
	if want >= 1<<32 {
		return
	}
	lo, hi := math.Floor(want*(1-1e-9)), math.Floor(want*(1+1e-9))
	if float64(got) < lo || float64(got) > hi {
		c.Fail("score differs from the documented rule: "+line, fmt.Sprintf("int(%d) = %d, documented rule gives %.6f", t, got, want))
	}
	if float64(got) == math.Floor(want) {
		c.Count("shadow/exact")
	} else {
		c.Count("shadow/boundary")
	}
}

func c35tables(c *Ctx) {
	for _, p := range c35pkgs {
		if p.name == "trust" {
			// the trust copy fills its table in an exported Init() that nothing calls
			if p.decay(0) != 1 {
				var s trust.DynamicBanScore
				s.VerifIncrease(0, 50, 100)
				r := s.VerifInt(100)
				c.Fail(c35SigInit, fmt.Sprintf("decayFactor(0) = %v; after increase(0,50,t=100) int(100) = %d (documented: 50)", p.decay(0), r))
			}
			trust.Init()
		}
		prev := 2.0
		for t := int64(0); t <= 1800; t++ {
			d := p.decay(t)
			c.Op(fmt.Sprintf("d %s %d %016x", p.name, t, math.Float64bits(d)), "ok")
			want := c35ideal(t)
			bad := ""
			switch {
			case t == 0 && d != 1:
				bad = "d(0) != 1"
			case !(d > 0 && d <= 1):
				bad = "outside (0,1]"
			case d > prev:
				bad = "not antitone"
			case math.Abs(d-want) > 1e-12*want:
				bad = fmt.Sprintf("differs from 2^(-t/60) = %v", want)
			case t >= 60 && math.Abs(d-p.decay(t-60)/2) > 1e-12*d:
				bad = "does not halve in 60 s"
			}
			if bad != "" {
				c.Fail(fmt.Sprintf("%s.decayFactor(%d)", p.name, t), fmt.Sprintf("%v: %s", d, bad))
			}
			prev = d
		}
	}
}

var (
	c35dts = []int64{0, 0, 1, 1, 2, 5, 30, 59, 60, 61, 63, 64, 65, 120, 300, 600, 1799, 1800, 1801, 3600, 100000, -1, -60}
	c35ps  = []uint32{0, 0, 1, 20, 20, 100, 1 << 31, math.MaxUint32, math.MaxUint32 - 20}
	c35trs = []uint32{0, 0, 1, 2, 20, 20, 50, 1000, math.MaxUint32, 1 << 31}
)

func c35gen(c *Ctx) []string {
	r := c.Rng
	out := []string{"reset " + c35pkgs[r.Intn(2)].name}
	t := int64(0)
	switch r.Intn(4) {
	case 0:
		t = 1600000000 + int64(r.Intn(1000000))
	case 1:
		t = -int64(r.Intn(5000))
	case 2:
		t = int64(r.Intn(4000))
	}
	big := r.Intn(6) == 0 // cases that reach the uint32 boundary
	if r.Intn(8) == 0 {
		tr := float64(r.Intn(200))
		if r.Intn(3) == 0 {
			tr = r.Float64() * 3
		}
		pers := uint32(r.Intn(200))
		if big {
			pers = math.MaxUint32 - uint32(r.Intn(200))
		}
		out = append(out, fmt.Sprintf("set %d %016x %d", t-int64(r.Intn(100)), math.Float64bits(tr), pers))
	}
	n := 4 + r.Intn(30)
	for i := 0; i < n; i++ {
		dt := c35dts[r.Intn(len(c35dts))]
		if r.Intn(3) == 0 {
			dt = int64(r.Intn(200))
		}
		t += dt
		if r.Intn(3) == 0 {
			out = append(out, fmt.Sprintf("int %d", t))
			continue
		}
		var p, tr uint32
		if big {
			p, tr = c35ps[r.Intn(len(c35ps))], c35trs[r.Intn(len(c35trs))]
		} else {
			p, tr = uint32(r.Intn(4))*10, uint32(r.Intn(5))*10
			if r.Intn(5) == 0 {
				p, tr = uint32(r.Intn(1000)), uint32(r.Intn(1000))
			}
			if r.Intn(10) == 0 {
				tr = 1
			}
		}
		out = append(out, fmt.Sprintf("inc %d %d %d", p, tr, t))
		if r.Intn(4) == 0 {
			out = append(out, fmt.Sprintf("int %d", t+c35dts[r.Intn(len(c35dts))]))
		}
	}
	return out
}

func runC35(c *Ctx) {
	c.Rule = "both copies (p2p/security, p2p/trust after Init) of DynamicBanScore; histories of 4–34 increase/int calls with clock steps from {0,1,…,59,60,61,63,64,65,…,1799,1800,1801,3600,1e5,-1,-60,random<200}, amounts from the node's real levels (0/20) to the uint32 boundary, start states set directly incl. fractional transient; the model runs the same float64 operations (decay factors passed as bit patterns), so results are compared exactly; distinct by (call, state before)"
	st := &c35state{}
	c35tables(c)
	c35exec(c, st, "reset security")
	lines := c.CorpusLines()
	if c.Replay != "" {
		lines = c.ReplayLines()
	}
	for _, l := range lines {
		c35exec(c, st, l)
	}
	if c.Replay != "" {
		return
	}
	for i := 0; i < c.N; i++ {
		for _, l := range c35gen(c) {
			c35exec(c, st, l)
		}
	}
}

func init() { register("c35", runC35) }
