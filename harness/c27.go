//go:build hc27 || hall

package main

import (
	"context"
	"encoding/json"
	"fmt"
	"math/rand"
	"sort"
	"strconv"
	"strings"
	"time"

	"github.com/bytom/bytom/account"
	"github.com/bytom/bytom/blockchain/signers"
	"github.com/bytom/bytom/blockchain/txbuilder"
	"github.com/bytom/bytom/common"
	"github.com/bytom/bytom/consensus"
	"github.com/bytom/bytom/crypto/ed25519/chainkd"
	dbm "github.com/bytom/bytom/database/leveldb"
	berrors "github.com/bytom/bytom/errors"
	"github.com/bytom/bytom/protocol/bc"
	"github.com/bytom/bytom/protocol/bc/types"
	"github.com/bytom/bytom/protocol/validation"
	"github.com/bytom/bytom/protocol/vm"
	"github.com/bytom/bytom/protocol/vm/vmutil"
)

// C27: real account.Manager (+ its real utxoKeeper) with a single-key account and a 2-of-3
// account, three assets, UTXO records in the wallet DB / unconfirmed map, and action lists
// (spend_account, control_address, control_program, retire) decoded from JSON exactly as the
// API does; account.MergeSpendAction -> txbuilder.Build -> txbuilder.Sign (until complete)
// -> serialized size as FinalizeTx sets it -> validation.ValidateTx.
//
//   reset | height h | putdb id asset amount acct vote vh contract prog | addunc ... | rmunc id | deldb id
//   build <exp> S<acct>,<asset>,<amount>,<unc> | C<asset>,<amount>,<prog> | R<asset>,<amount> ...
//   impl line: ok fee=F ins=<id+id> outs=<kind:asset:amount:prog;..> | <keeper dump>   or   err <i>:<class>,.. | <dump>
//
// Direct oracle (no model), on every successful Build: the template's non-change outputs are
// exactly the requested (asset, amount, program) in order; every change output pays a program
// of the spending account; tpl.Fee = BTM in - BTM out; and if the action list balances
// (per asset spend = receive, BTM leaves an ample fee) the signed transaction passes
// validation.ValidateTx.

const (
	c27SigDup = "built transaction spends the same output twice (output both confirmed and unconfirmed, F16)"
)

type c27env struct {
	base    map[string][]byte
	accts   []*account.Account // index 1..
	acctIdx map[string]int
	progs   []*account.CtrlProgram // index 1..4 owned; 5,6 foreign (ControlProgram only)
	progIdx map[string]int
	keys    map[chainkd.XPub]chainkd.XPrv
	assets  []bc.AssetID // index 0 = BTM
	assetIx map[bc.AssetID]int
	addr    map[int]string
}

func newC27env() *c27env {
	consensus.ActiveNetParams = consensus.SoloNetParams
	rd := rand.New(rand.NewSource(20260922))
	e := &c27env{base: map[string][]byte{}, accts: []*account.Account{nil}, acctIdx: map[string]int{}, progs: []*account.CtrlProgram{nil},
		progIdx: map[string]int{}, keys: map[chainkd.XPub]chainkd.XPrv{}, assetIx: map[bc.AssetID]int{}, addr: map[int]string{}}
	db := dbm.NewMemDB()
	am := account.VerifNewManager(db, func() uint64 { return 0 })
	mk := func(n int) []chainkd.XPub {
		var xs []chainkd.XPub
		for i := 0; i < n; i++ {
			xprv, xpub, err := chainkd.NewXKeys(rd)
			if err != nil {
				panic(err)
			}
			e.keys[xpub] = xprv
			xs = append(xs, xpub)
		}
		return xs
	}
	for ai, spec := range [][2]int{{1, 1}, {3, 2}} { // (keys, quorum)
		acc, err := am.Create(mk(spec[0]), spec[1], fmt.Sprintf("acc%d", ai+1), signers.BIP0044)
		if err != nil {
			panic(err)
		}
		e.accts = append(e.accts, acc)
		e.acctIdx[acc.ID] = ai + 1
		for j := 0; j < 2; j++ {
			cp, err := am.CreateAddress(acc.ID, j == 1)
			if err != nil {
				panic(err)
			}
			e.progs = append(e.progs, cp)
		}
	}
	for i := 0; i < 2; i++ {
		h := make([]byte, 20)
		rd.Read(h)
		p, _ := vmutil.P2WPKHProgram(h)
		a, _ := common.NewAddressWitnessPubKeyHash(h, &consensus.ActiveNetParams)
		e.progs = append(e.progs, &account.CtrlProgram{ControlProgram: p, Address: a.EncodeAddress()})
	}
	for i := 1; i < len(e.progs); i++ {
		e.progIdx[string(e.progs[i].ControlProgram)] = i
	}
	it := db.IteratorPrefix([]byte{})
	for it.Next() {
		e.base[string(it.Key())] = append([]byte{}, it.Value()...)
	}
	it.Release()
	e.assets = []bc.AssetID{*consensus.BTMAssetID}
	for k := 1; k <= 2; k++ {
		in := types.NewIssuanceInput([]byte{byte(k)}, 1, []byte{0x51}, nil, []byte(fmt.Sprintf(`{"n":%d}`, k)))
		e.assets = append(e.assets, in.AssetID())
	}
	for i, a := range e.assets {
		e.assetIx[a] = i
	}
	return e
}

type c27st struct {
	c       *Ctx
	env     *c27env
	db      dbm.DB
	am      *account.Manager
	k       *account.VerifKeeper
	height  uint64
	outID   map[bc.Hash]int
	inDB    map[int]bool
	inUnc   map[int]bool
	fails   [][2]string
	lastRes uint64
}

func (s *c27st) fail(sig, detail string) { s.fails = append(s.fails, [2]string{sig, detail}) }

func (s *c27st) reset() {
	s.db = dbm.NewMemDB()
	for k, v := range s.env.base {
		s.db.Set([]byte(k), v)
	}
	s.height = 0
	s.am = account.VerifNewManager(s.db, func() uint64 { return s.height })
	s.k = account.VerifKeeperOf(s.am)
	s.outID = map[bc.Hash]int{}
	s.inDB, s.inUnc = map[int]bool{}, map[int]bool{}
	s.lastRes = 0
}

// a wallet UTXO record as wallet.attachUtxos would store it; its OutputID is the real id of
// the output the built input will spend
func (s *c27st) utxo(f []uint64) *account.UTXO {
	cp := s.env.progs[f[7]]
	u := &account.UTXO{SourceID: bc.Hash{V0: f[0], V1: 7}, SourcePos: f[0] % 3, AssetID: s.env.assets[f[1]], Amount: f[2],
		ControlProgram: cp.ControlProgram, AccountID: s.env.accts[f[3]].ID, Address: cp.Address, ControlProgramIndex: cp.KeyIndex,
		Change: cp.Change, ValidHeight: f[5]}
	in := types.NewSpendInput(nil, u.SourceID, u.AssetID, u.Amount, u.SourcePos, u.ControlProgram, nil)
	u.OutputID, _ = in.SpentOutputID()
	s.outID[u.OutputID] = int(f[0])
	return u
}

func (s *c27st) dump() string {
	res := s.k.Reserved()
	var rs []string
	ids := []int{}
	for h := range res {
		ids = append(ids, s.outID[h])
	}
	sort.Ints(ids)
	byID := map[int]uint64{}
	for h, r := range res {
		byID[s.outID[h]] = r
	}
	for _, id := range ids {
		rs = append(rs, fmt.Sprintf("%d:%d", id, byID[id]))
	}
	var rv []string
	for _, r := range s.k.Reservations() {
		var us []string
		for _, u := range r.UTXOs {
			us = append(us, strconv.Itoa(s.outID[u.OutputID]))
		}
		rv = append(rv, fmt.Sprintf("%d:%d:%d:%s", r.ID, r.Expiry.Unix(), r.Change, strings.Join(us, "+")))
	}
	return "reserved=" + strings.Join(rs, ",") + " | res=" + strings.Join(rv, ";")
}

type c27act struct {
	kind                      byte
	acct, asset, prog, useUnc int
	amount                    uint64
}

func (s *c27st) sign(ctx context.Context, xpub chainkd.XPub, path [][]byte, data [32]byte, _ string) ([]byte, error) {
	xprv, ok := s.env.keys[xpub]
	if !ok {
		return nil, fmt.Errorf("no key")
	}
	return xprv.Derive(path).Sign(data[:]), nil
}

func c27errClass(err error) string {
	switch berrors.Root(err) {
	case account.ErrInsufficient:
		return "insufficient"
	case account.ErrImmature:
		return "immature"
	case account.ErrReserved:
		return "reserved"
	case txbuilder.ErrMissingFields:
		return "missing"
	case txbuilder.ErrBadAmount:
		return "badamount"
	}
	return "other(" + err.Error() + ")"
}

func (s *c27st) build(w []string) (string, string) {
	exp, _ := strconv.ParseInt(w[1], 10, 64)
	var acts []c27act
	var actions []txbuilder.Action
	for _, tok := range w[2:] {
		f := w27nums(tok[1:])
		var a txbuilder.Action
		var err error
		switch tok[0] {
		case 'S':
			ca := c27act{kind: 'S', acct: int(f[0]), asset: int(f[1]), amount: f[2], useUnc: int(f[3])}
			acts = append(acts, ca)
			js := fmt.Sprintf(`{"type":"spend_account","account_id":%q,"asset_id":%q,"amount":%d,"use_unconfirmed":%v}`,
				s.env.accts[ca.acct].ID, s.env.assets[ca.asset].String(), ca.amount, ca.useUnc == 1)
			a, err = s.am.DecodeSpendAction([]byte(js))
		case 'C':
			ca := c27act{kind: 'C', asset: int(f[0]), amount: f[1], prog: int(f[2])}
			acts = append(acts, ca)
			if ca.prog%2 == 1 { // odd programs by address, even ones by raw program
				js := fmt.Sprintf(`{"type":"control_address","address":%q,"asset_id":%q,"amount":%d}`, s.env.progs[ca.prog].Address, s.env.assets[ca.asset].String(), ca.amount)
				a, err = txbuilder.DecodeControlAddressAction([]byte(js))
			} else {
				js := fmt.Sprintf(`{"type":"control_program","control_program":"%x","asset_id":%q,"amount":%d}`, s.env.progs[ca.prog].ControlProgram, s.env.assets[ca.asset].String(), ca.amount)
				a, err = txbuilder.DecodeControlProgramAction([]byte(js))
			}
		case 'R':
			ca := c27act{kind: 'R', asset: int(f[0]), amount: f[1]}
			acts = append(acts, ca)
			js := fmt.Sprintf(`{"type":"retire","asset_id":%q,"amount":%d,"arbitrary":"beef"}`, s.env.assets[ca.asset].String(), ca.amount)
			a, err = txbuilder.DecodeRetireAction([]byte(js))
		}
		if err != nil {
			s.fail("harness: action JSON does not decode", err.Error())
			return "bad-action", ""
		}
		actions = append(actions, a)
	}
	actions = account.MergeSpendAction(actions)
	ctx := context.Background()
	lastRes := uint64(0)
	for _, r := range s.k.Reservations() {
		if r.ID > lastRes {
			lastRes = r.ID
		}
	}
	lastRes = s.maxRes(lastRes)
	tpl, err := txbuilder.Build(ctx, nil, actions, time.Unix(exp, 0), 0)
	if err != nil {
		var es []string
		if data, ok := berrors.Data(err)["actions"].([]error); ok {
			for _, e := range data {
				m := berrors.Detail(e)
				idx := "?"
				if i := strings.LastIndex(m, "action index "); i >= 0 {
					idx = strings.TrimSpace(m[i+len("action index "):])
				}
				es = append(es, idx+":"+c27errClass(e))
			}
		} else {
			es = append(es, "?:"+c27errClass(err))
		}
		return "err " + strings.Join(es, ","), ""
	}
	// ---- canonical line
	tx := tpl.Transaction
	var ins []string
	seen := map[bc.Hash]bool{}
	dup := false
	inSum := map[int]uint64{}
	for _, in := range tx.Inputs {
		oid, _ := in.SpentOutputID()
		if seen[oid] {
			dup = true
		}
		seen[oid] = true
		ins = append(ins, strconv.Itoa(s.outID[oid]))
		inSum[s.env.assetIx[in.AssetID()]] += in.Amount()
	}
	// requested outputs in order (after merge only spends move)
	type req struct {
		kind   string
		asset  int
		amount uint64
		prog   int
	}
	var want []req
	spendReq, recvReq := map[int]uint64{}, map[int]uint64{}
	spender := map[int]map[int]bool{} // asset -> accounts spending it
	for _, a := range acts {
		switch a.kind {
		case 'S':
			spendReq[a.asset] += a.amount
			if spender[a.asset] == nil {
				spender[a.asset] = map[int]bool{}
			}
			spender[a.asset][a.acct] = true
		case 'C':
			want = append(want, req{"recv", a.asset, a.amount, a.prog})
			recvReq[a.asset] += a.amount
		case 'R':
			want = append(want, req{"retire", a.asset, a.amount, 0})
			recvReq[a.asset] += a.amount
		}
	}
	retireProg, _ := vmutil.RetireProgram([]byte{0xbe, 0xef})
	// which spend actions produced a change output: the reservations made by this Build, in order
	var changes []uint64
	for _, r := range s.k.Reservations() {
		if r.ID > lastRes {
			changes = append(changes, r.Change)
		}
	}
	// merged action order (MergeSpendAction keeps the first spend of each (asset, account))
	type slot struct {
		spend bool
		r     req
	}
	var slots []slot
	seenSpend := map[[2]int]bool{}
	for _, a := range acts {
		switch a.kind {
		case 'S':
			k := [2]int{a.asset, a.acct}
			if !seenSpend[k] {
				seenSpend[k] = true
				slots = append(slots, slot{spend: true})
			}
		case 'C':
			slots = append(slots, slot{r: req{"recv", a.asset, a.amount, a.prog}})
		case 'R':
			slots = append(slots, slot{r: req{"retire", a.asset, a.amount, 0}})
		}
	}
	var kinds []string
	var reqOf []*req
	ci := 0
	for i := range slots {
		if slots[i].spend {
			if ci < len(changes) && changes[ci] > 0 {
				kinds = append(kinds, "change")
				reqOf = append(reqOf, nil)
			}
			ci++
		} else {
			kinds = append(kinds, slots[i].r.kind)
			reqOf = append(reqOf, &slots[i].r)
		}
	}
	var outs []string
	outSum := map[int]uint64{}
	wi := 0
	if len(kinds) != len(tx.Outputs) {
		s.fail("template has a different number of outputs than requests + change outputs", fmt.Sprintf("%d outputs, expected kinds %v", len(tx.Outputs), kinds))
	}
	for oi, o := range tx.Outputs {
		ai := s.env.assetIx[*o.AssetId]
		outSum[ai] += o.Amount
		pi := s.env.progIdx[string(o.ControlProgram)]
		kind := "change"
		if oi < len(kinds) {
			kind = kinds[oi]
		}
		if kind == "change" {
			cp := s.env.progs[pi]
			ok := pi >= 1 && pi <= 4 && cp != nil && spender[ai][s.env.acctIdx[cp.AccountID]]
			if !ok {
				s.fail("change output does not pay a program of the spending account", fmt.Sprintf("output %d:%d prog %d", ai, o.Amount, pi))
			}
		} else {
			r := reqOf[oi]
			isRet := string(o.ControlProgram) == string(retireProg)
			if r.asset == ai && r.amount == o.Amount && ((r.kind == "retire" && isRet) || (r.kind == "recv" && r.prog == pi)) {
				wi++
			}
		}
		if kind == "retire" {
			pi = 0
		}
		outs = append(outs, fmt.Sprintf("%s:%d:%d:%d", kind, ai, o.Amount, pi))
	}
	if wi != len(want) {
		s.fail("a requested recipient/retire output is missing or altered in the template", fmt.Sprintf("matched %d of %d requests; outputs %v", wi, len(want), outs))
	}
	fee := uint64(0)
	if inSum[0] > outSum[0] {
		fee = inSum[0] - outSum[0]
	}
	if tpl.Fee != fee {
		s.fail("tpl.Fee is not BTM inputs minus BTM outputs", fmt.Sprintf("Fee %d, in %d out %d", tpl.Fee, inSum[0], outSum[0]))
	}
	// per-asset: inputs - outputs must equal requested spends - requested receives
	for ai := range s.env.assets {
		if inSum[ai]-outSum[ai] != spendReq[ai]-recvReq[ai] {
			if !dup {
				s.fail("template does not carry the requested balance", fmt.Sprintf("asset %d: in %d out %d, requested spend %d receive %d", ai, inSum[ai], outSum[ai], spendReq[ai], recvReq[ai]))
			}
		}
	}
	// ---- sign, size as FinalizeTx sets it, validate; class of the verdict goes into the line
	balanced := true
	for ai := range s.env.assets {
		if ai == 0 {
			if spendReq[0] < recvReq[0]+20000000 {
				balanced = false
			}
		} else if spendReq[ai] != recvReq[ai] {
			balanced = false
		}
	}
	for i := 0; i < 3 && !txbuilder.SignProgress(tpl); i++ {
		if err := txbuilder.Sign(ctx, tpl, "", s.sign); err != nil {
			s.fail("txbuilder.Sign fails", err.Error())
			break
		}
	}
	data, _ := tx.TxData.MarshalText()
	tx.TxData.SerializedSize = uint64(len(data) / 2)
	tx.Tx.SerializedSize = uint64(len(data) / 2)
	blk := &bc.Block{BlockHeader: &bc.BlockHeader{Version: 1, Height: s.height + 1, Timestamp: 1}}
	_, verr := validation.ValidateTx(tx.Tx, blk, func(prog []byte) ([]byte, error) { return nil, nil })
	ample := inSum[0] >= outSum[0]+20000000
	mux := ""
	switch {
	case verr == nil && ample:
		mux = "ok"
	case verr == nil:
		mux = "lowfee"
	default:
		switch berrors.Root(verr) {
		case validation.ErrInputDoubleSend:
			mux = "doublespend"
		case validation.ErrOverflow:
			mux = "overflow"
		case validation.ErrNoSource:
			mux = "nosource"
		case validation.ErrUnbalanced:
			mux = "unbalanced"
		case validation.ErrGasCalculate:
			if inSum[0] < outSum[0] {
				mux = "gas"
			} else {
				mux = "lowfee"
			}
		default:
			if !ample && inSum[0] >= outSum[0] {
				mux = "lowfee" // the VM ran out of gas: covered by the explicit fee side condition
			} else {
				mux = "other(" + verr.Error() + ")"
			}
		}
	}
	line := fmt.Sprintf("ok fee=%d ins=%s outs=%s mux=%s", tpl.Fee, strJoinOr(ins, "+"), strJoinOr(outs, ";"), mux)
	verdict := "unbalanced-request/" + mux
	if balanced {
		switch {
		case !txbuilder.SignProgress(tpl):
			s.fail("signing does not complete although every key is available", line)
			verdict = "unsigned"
		case verr == nil:
			verdict = "valid"
		case dup:
			s.fail(c27SigDup, fmt.Sprintf("%s => %s: %v", strings.Join(w, " "), line, verr))
			verdict = "dup-input"
		default:
			s.fail("built and signed transaction of a balanced request fails validation: "+verr.Error(), strings.Join(w, " ")+" => "+line)
			verdict = "invalid"
		}
	}
	return line, verdict
}

// reservation ids only grow; remember the highest one ever seen (cancelled ones included)
func (s *c27st) maxRes(cur uint64) uint64 {
	if cur > s.lastRes {
		s.lastRes = cur
	}
	return s.lastRes
}

func strJoinOr(l []string, sep string) string {
	if len(l) == 0 {
		return "-"
	}
	return strings.Join(l, sep)
}

func w27nums(s string) []uint64 {
	var out []uint64
	for _, f := range strings.Split(s, ",") {
		v, _ := strconv.ParseUint(f, 10, 64)
		out = append(out, v)
	}
	return out
}

func (s *c27st) exec(line string) {
	w := strings.Fields(line)
	if len(w) == 0 {
		return
	}
	s.fails = nil
	result := "-"
	num := func(i int) uint64 { v, _ := strconv.ParseUint(w[i], 10, 64); return v }
	switch w[0] {
	case "reset":
		s.reset()
	case "height":
		s.height = num(1)
	case "putdb":
		u := s.utxo(w27nums(strings.Join(w[1:], ",")))
		data, _ := json.Marshal(u)
		s.db.Set(account.StandardUTXOKey(u.OutputID), data)
		s.inDB[int(num(1))] = true
	case "addunc":
		u := s.utxo(w27nums(strings.Join(w[1:], ",")))
		s.k.AddUnconfirmedUtxo([]*account.UTXO{u})
		s.inUnc[int(num(1))] = true
	case "deldb", "rmunc":
		for h, id := range s.outID {
			if id == int(num(1)) {
				h := h
				if w[0] == "deldb" {
					s.db.Delete(account.StandardUTXOKey(h))
					delete(s.inDB, id)
				} else {
					s.k.RemoveUnconfirmedUtxo([]*bc.Hash{&h})
					delete(s.inUnc, id)
				}
			}
		}
	case "build":
		if s.db == nil {
			return
		}
		var verdict string
		result, verdict = s.build(w)
		for _, r := range s.k.Reservations() {
			s.maxRes(r.ID)
		}
		if strings.HasPrefix(result, "err") {
			s.c.Count("build/error")
		} else {
			s.c.Count("build/ok/" + verdict)
		}
	default:
		return
	}
	if s.db == nil {
		return
	}
	s.c.Op(line, result+" | "+s.dump())
	s.c.Distinct(line)
	for _, f := range s.fails {
		capFail(s.c, f[0], f[1])
	}
}

func c27gen(c *Ctx, s *c27st) {
	r := c.Rng
	s.exec("reset")
	nIDs := 6 + r.Intn(10)
	type attr struct{ asset, acct, prog, vh uint64 }
	attrs := make([]attr, nIDs+1)
	used := map[uint64]bool{}
	amt := func(asset uint64) uint64 { // distinct amounts: no sort ties
		for {
			var a uint64
			if asset == 0 {
				a = uint64(1+r.Intn(60)) * 50000000
			} else {
				a = uint64(1 + r.Intn(400))
			}
			if !used[a] {
				used[a] = true
				return a
			}
		}
	}
	amounts := make([]uint64, nIDs+1)
	for i := 1; i <= nIDs; i++ {
		a := attr{asset: 0, acct: 1 + uint64(r.Intn(2))}
		if r.Intn(3) == 0 {
			a.asset = 1 + uint64(r.Intn(2))
		}
		a.prog = (a.acct-1)*2 + 1 + uint64(r.Intn(2))
		if r.Intn(8) == 0 {
			a.vh = uint64(1 + r.Intn(6))
		}
		attrs[i] = a
		amounts[i] = amt(a.asset)
	}
	rec := func(op string, i int) string {
		a := attrs[i]
		return fmt.Sprintf("%s %d %d %d %d 0 %d 0 %d", op, i, a.asset, amounts[i], a.acct, a.vh, a.prog)
	}
	for i := 1; i <= nIDs; i++ {
		switch r.Intn(10) {
		case 0:
			s.exec(rec("addunc", i))
		case 1:
			// both confirmed and unconfirmed (F16 state)
			s.exec(rec("putdb", i))
			s.exec(rec("addunc", i))
		default:
			s.exec(rec("putdb", i))
		}
	}
	if r.Intn(3) == 0 {
		s.exec(fmt.Sprintf("height %d", r.Intn(8)))
	}
	nBuilds := 2 + r.Intn(4)
	for b := 0; b < nBuilds; b++ {
		var toks []string
		spend := map[uint64]uint64{}
		nRecv := 1 + r.Intn(3)
		assets := []uint64{0}
		if r.Intn(2) == 0 {
			assets = append(assets, 1+uint64(r.Intn(2)))
		}
		for k := 0; k < nRecv; k++ {
			as := assets[r.Intn(len(assets))]
			var a uint64
			if as == 0 {
				a = uint64(1+r.Intn(40)) * 10000000
			} else {
				a = uint64(1 + r.Intn(150))
			}
			if r.Intn(25) == 0 {
				a = 0
			}
			spend[as] += a
			if r.Intn(5) == 0 {
				toks = append(toks, fmt.Sprintf("R%d,%d", as, a))
			} else {
				toks = append(toks, fmt.Sprintf("C%d,%d,%d", as, a, 1+r.Intn(6)))
			}
		}
		spend[0] += 20000000 + uint64(r.Intn(3))*10000000 // fee
		var stoks []string
		perturb := r.Intn(9) // 0,1: non-BTM off by a few; 2: BTM fee just too low; 3: BTM spend halved; 4: non-BTM spend dropped
		for _, as := range assets {
			total := spend[as]
			if total == 0 {
				continue
			}
			switch {
			case perturb == 0 && as != 0:
				total += uint64(1 + r.Intn(5))
			case perturb == 1 && as != 0 && total > 3:
				total -= 1 + uint64(r.Intn(3))
			case perturb == 2 && as == 0:
				total -= 1 + uint64(r.Intn(3))
			case perturb == 3 && as == 0 && len(assets) == 1:
				total /= 2
			case perturb == 4 && as != 0:
				continue
			}
			acct := 1 + r.Intn(2)
			unc := r.Intn(2)
			if r.Intn(4) == 0 && total > 2 { // split into two spend actions (merged if same account)
				h := total / 2
				acct2 := acct
				if r.Intn(2) == 0 {
					acct2 = 3 - acct
				}
				stoks = append(stoks, fmt.Sprintf("S%d,%d,%d,%d", acct, as, h, unc), fmt.Sprintf("S%d,%d,%d,%d", acct2, as, total-h, r.Intn(2)))
			} else {
				stoks = append(stoks, fmt.Sprintf("S%d,%d,%d,%d", acct, as, total, unc))
			}
		}
		all := append(stoks, toks...)
		if r.Intn(2) == 0 {
			r.Shuffle(len(all), func(i, j int) { all[i], all[j] = all[j], all[i] })
		}
		s.exec(fmt.Sprintf("build %d %s", 100+r.Intn(100), strings.Join(all, " ")))
		if r.Intn(4) == 0 {
			i := 1 + r.Intn(nIDs)
			s.exec(rec("putdb", i))
		}
	}
}

// SpendAccountChain (build-chain-transactions): many small BTM outputs are merged by a chain of
// transactions before the final spend. Direct oracle only (its arithmetic is not in the model):
// every merge template and the final template must sign and validate, each merge output is the
// sum of its inputs minus ChainTxMergeGas, and the final transaction pays the recipient exactly.
func c27chain(c *Ctx, s *c27st, seed int64) {
	r := rand.New(rand.NewSource(seed))
	s.reset()
	n := 2 + r.Intn(28)
	var total uint64
	for i := 1; i <= n; i++ {
		amt := uint64(5+r.Intn(200)) * 10000000
		total += amt
		u := s.utxo([]uint64{uint64(i), 0, amt + uint64(i), 1, 0, 0, 0, 1})
		data, _ := json.Marshal(u)
		s.db.Set(account.StandardUTXOKey(u.OutputID), data)
	}
	pay := total / uint64(2+r.Intn(3))
	fee := uint64(20000000)
	js := fmt.Sprintf(`{"type":"spend_account","account_id":%q,"asset_id":%q,"amount":%d}`, s.env.accts[1].ID, s.env.assets[0].String(), pay+fee)
	act, err := s.am.DecodeSpendAction([]byte(js))
	if err != nil {
		panic(err)
	}
	ctx := context.Background()
	b := txbuilder.NewBuilder(time.Unix(1000, 0))
	tpls, err := account.SpendAccountChain(ctx, b, act)
	if err != nil {
		c.Count("chain/error:" + c27errClass(err))
		b.Rollback()
		return
	}
	if err := b.AddOutput(types.NewOriginalTxOutput(s.env.assets[0], pay, s.env.progs[5].ControlProgram, nil)); err != nil {
		panic(err)
	}
	last, _, err := b.Build()
	if err != nil {
		capFail(c, "SpendAccountChain: final template does not build", err.Error())
		return
	}
	all := append(append([]*txbuilder.Template{}, tpls...), last)
	for i, tpl := range all {
		for k := 0; k < 3 && !txbuilder.SignProgress(tpl); k++ {
			if err := txbuilder.Sign(ctx, tpl, "", s.sign); err != nil {
				capFail(c, "SpendAccountChain: Sign fails", err.Error())
			}
		}
		tx := tpl.Transaction
		data, _ := tx.TxData.MarshalText()
		tx.TxData.SerializedSize = uint64(len(data) / 2)
		tx.Tx.SerializedSize = uint64(len(data) / 2)
		blk := &bc.Block{BlockHeader: &bc.BlockHeader{Version: 1, Height: 1, Timestamp: 1}}
		if _, verr := validation.ValidateTx(tx.Tx, blk, func(prog []byte) ([]byte, error) { return nil, nil }); verr != nil {
			capFail(c, "SpendAccountChain: a transaction of the chain fails validation: "+verr.Error(), fmt.Sprintf("%d utxos, pay %d, tx %d of %d", n, pay, i+1, len(all)))
		}
		var in, out uint64
		for _, x := range tx.Inputs {
			in += x.Amount()
		}
		for _, o := range tx.Outputs {
			out += o.Amount
		}
		if i < len(all)-1 {
			if len(tx.Outputs) != 1 || in-out != txbuilder.ChainTxMergeGas || len(tx.Inputs) > txbuilder.ChainTxUtxoNum {
				capFail(c, "SpendAccountChain: a merge transaction is not (<=5 inputs -> 1 output, fee = ChainTxMergeGas)", fmt.Sprintf("in %d out %d inputs %d", in, out, len(tx.Inputs)))
			}
		} else {
			if tx.Outputs[len(tx.Outputs)-1].Amount != pay || in-out != fee {
				capFail(c, "SpendAccountChain: final transaction does not pay the recipient / fee as requested", fmt.Sprintf("in %d out %d pay %d", in, out, pay))
			}
		}
	}
	c.Count(fmt.Sprintf("chain/ok/%d-merge-txs", len(tpls)))
}

// ---------------------------------------------------------------------------------------
// m-of-n accounts whose keys are held by DIFFERENT signers: every subset of m key holders, in
// every signing order, one txbuilder.Sign call per holder with a sign function that knows only
// that holder's key. Direct oracle only:
//   fewer than m holders signed  => SignProgress false
//   m holders signed             => SignProgress true, validation.ValidateTx passes, recipient
//                                   paid exactly, fee as requested, the input witness carries
//                                   exactly m signatures
//   SignProgress true            => ValidateTx passes
// kinds: spend (address UTXOs: RawTxSigWitness), veto (vote UTXOs), legacy (UTXO records without
// address: SignatureWitness + P2SP multisig program); 1 and 3 inputs on one address.

func c27perms(a []int) [][]int {
	if len(a) <= 1 {
		return [][]int{append([]int{}, a...)}
	}
	var out [][]int
	for i := range a {
		rest := append(append([]int{}, a[:i]...), a[i+1:]...)
		for _, p := range c27perms(rest) {
			out = append(out, append([]int{a[i]}, p...))
		}
	}
	return out
}

func c27subsets(n, m int) [][]int {
	var out [][]int
	var rec func(start int, cur []int)
	rec = func(start int, cur []int) {
		if len(cur) == m {
			out = append(out, append([]int{}, cur...))
			return
		}
		for i := start; i < n; i++ {
			rec(i+1, append(cur, i))
		}
	}
	rec(0, nil)
	return out
}

// json.Unmarshal(json.Marshal(tpl)) must give the same template: same transaction, same signing
// instructions and — slot by slot — the same (possibly empty) signatures: Sigs is indexed by key
// position, an empty slot is information.
func c27jsonRoundTrip(c *Ctx, tpl *txbuilder.Template, label string) *txbuilder.Template {
	data, err := json.Marshal(tpl)
	if err != nil {
		capFail(c, "template JSON: Marshal fails", label+": "+err.Error())
		return nil
	}
	parsed := &txbuilder.Template{}
	if err := json.Unmarshal(data, parsed); err != nil {
		capFail(c, "template JSON: Unmarshal of a marshalled template fails", label+": "+err.Error())
		return nil
	}
	bad := ""
	switch {
	case parsed.Transaction == nil || parsed.Transaction.ID != tpl.Transaction.ID:
		bad = "transaction differs"
	case len(parsed.SigningInstructions) != len(tpl.SigningInstructions):
		bad = "number of signing instructions differs"
	case parsed.Fee != tpl.Fee || parsed.AllowAdditional != tpl.AllowAdditional:
		bad = "fee / allow_additional differs"
	}
	sigsOf := func(wc interface{}) (kind string, quorum int, nkeys int, sigs [][]byte, ok bool) {
		switch w := wc.(type) {
		case *txbuilder.RawTxSigWitness:
			for _, s := range w.Sigs {
				sigs = append(sigs, s)
			}
			return "raw_tx_signature", w.Quorum, len(w.Keys), sigs, true
		case *txbuilder.SignatureWitness:
			for _, s := range w.Sigs {
				sigs = append(sigs, s)
			}
			return "signature", w.Quorum, len(w.Keys), sigs, true
		}
		return "", 0, 0, nil, false
	}
	for i := 0; bad == "" && i < len(tpl.SigningInstructions); i++ {
		a, b := tpl.SigningInstructions[i], parsed.SigningInstructions[i]
		if a.Position != b.Position || len(a.WitnessComponents) != len(b.WitnessComponents) {
			bad = fmt.Sprintf("signing instruction %d differs", i)
			break
		}
		for j := range a.WitnessComponents {
			ka, qa, na, sa, oka := sigsOf(a.WitnessComponents[j])
			kb, qb, nb, sb, okb := sigsOf(b.WitnessComponents[j])
			if oka != okb || ka != kb || qa != qb || na != nb {
				bad = fmt.Sprintf("witness component %d of input %d differs", j, i)
				break
			}
			if !oka {
				continue
			}
			// trailing empty slots may be absent (Sign pads to len(Keys)); a slot that is present
			// must hold the same signature at the same key position
			for k := 0; k < len(sa) || k < len(sb); k++ {
				var x, y []byte
				if k < len(sa) {
					x = sa[k]
				}
				if k < len(sb) {
					y = sb[k]
				}
				if string(x) != string(y) {
					bad = fmt.Sprintf("input %d, %s witness: signature slot %d (key position %d) differs after the round trip: %d slots %v -> %d slots %v", i, ka, k, k, len(sa), c27slotMap(sa), len(sb), c27slotMap(sb))
					break
				}
			}
		}
	}
	if bad != "" {
		capFail(c, "template JSON round trip does not preserve the template", label+": "+bad)
	}
	return parsed
}

func c27slotMap(sigs [][]byte) string {
	out := ""
	for _, s := range sigs {
		if len(s) > 0 {
			out += "s"
		} else {
			out += "-"
		}
	}
	return out
}

func c27multisig(c *Ctx) {
	consensus.ActiveNetParams = consensus.SoloNetParams
	rd := rand.New(rand.NewSource(20260923))
	ctx := context.Background()
	voteKey := make([]byte, 64)
	for i := range voteKey {
		voteKey[i] = 7
	}
	foreign, _ := vmutil.P2WPKHProgram(make([]byte, 20))
	for _, mn := range [][2]int{{1, 2}, {2, 3}, {2, 4}, {3, 4}} {
		m, n := mn[0], mn[1]
		db := dbm.NewMemDB()
		am := account.VerifNewManager(db, func() uint64 { return 100 })
		keeper := account.VerifKeeperOf(am)
		prv := map[chainkd.XPub]chainkd.XPrv{}
		var xpubs []chainkd.XPub
		for i := 0; i < n; i++ {
			xprv, xpub, err := chainkd.NewXKeys(rd)
			if err != nil {
				panic(err)
			}
			prv[xpub] = xprv
			xpubs = append(xpubs, xpub)
		}
		acc, err := am.Create(xpubs, m, fmt.Sprintf("ms%d%d", m, n), signers.BIP0044)
		if err != nil {
			panic(err)
		}
		cp, err := am.CreateAddress(acc.ID, false)
		if err != nil {
			panic(err)
		}
		// legacy program for records without an address
		path, _ := signers.Path(acc.Signer, signers.AccountKeySpace, false, 7)
		// the program a SignatureWitness is made for: the m-of-n check is over the hash of the
		// signature program handed in as last argument, which is then run as a predicate
		lb := vmutil.NewBuilder()
		lb.AddOp(vm.OP_DUP).AddOp(vm.OP_TOALTSTACK).AddOp(vm.OP_SHA3)
		for _, pk := range chainkd.XPubKeys(chainkd.DeriveXPubs(acc.XPubs, path)) {
			lb.AddData(pk)
		}
		lb.AddUint64(uint64(m)).AddUint64(uint64(n)).AddOp(vm.OP_CHECKMULTISIG).AddOp(vm.OP_VERIFY)
		lb.AddOp(vm.OP_FROMALTSTACK).AddUint64(0).AddOp(vm.OP_CHECKPREDICATE)
		legacyProg, err := lb.Build()
		if err != nil {
			panic(err)
		}
		serial := uint64(0)
		for _, kind := range []string{"spend", "veto", "legacy"} {
			for _, nIn := range []int{1, 3} {
				for _, subset := range c27subsets(n, m) {
					for _, order := range c27perms(subset) {
						for _, viaJSON := range []bool{false, true} {
							label := fmt.Sprintf("%d-of-%d account, %s, %d input(s), signers (key positions) %v in order %v", m, n, kind, nIn, subset, order)
							if viaJSON {
								label += ", template handed over as JSON between the signers"
							}
							// fresh UTXO records for this trial
							var amounts []uint64
							var keys [][]byte
							for i := 0; i < nIn; i++ {
								serial++
								u := &account.UTXO{SourceID: bc.Hash{V0: serial, V1: 99}, SourcePos: 0, AssetID: *consensus.BTMAssetID,
									Amount: uint64(900000000 - 100000000*i), ControlProgram: cp.ControlProgram, AccountID: acc.ID, Address: cp.Address,
									ControlProgramIndex: cp.KeyIndex, Change: cp.Change}
								switch kind {
								case "veto":
									u.Vote = voteKey
									in := types.NewVetoInput(nil, u.SourceID, u.AssetID, u.Amount, u.SourcePos, u.ControlProgram, u.Vote, nil)
									u.OutputID, _ = in.SpentOutputID()
								case "legacy":
									u.Address, u.ControlProgram, u.ControlProgramIndex, u.Change = "", legacyProg, 7, false
									fallthrough
								default:
									in := types.NewSpendInput(nil, u.SourceID, u.AssetID, u.Amount, u.SourcePos, u.ControlProgram, nil)
									u.OutputID, _ = in.SpentOutputID()
								}
								data, _ := json.Marshal(u)
								key := account.StandardUTXOKey(u.OutputID)
								db.Set(key, data)
								keys = append(keys, key)
								amounts = append(amounts, u.Amount)
							}
							var total uint64
							for _, a := range amounts {
								total += a
							}
							want := total - amounts[len(amounts)-1] + 1 // needs every input
							if nIn == 1 {
								want = total / 2
							}
							fee := uint64(30000000)
							var act txbuilder.Action
							if kind == "veto" {
								act, err = am.DecodeVetoAction([]byte(fmt.Sprintf(`{"type":"veto","account_id":%q,"asset_id":%q,"amount":%d,"vote":"%x"}`, acc.ID, consensus.BTMAssetID.String(), want, voteKey)))
							} else {
								act, err = am.DecodeSpendAction([]byte(fmt.Sprintf(`{"type":"spend_account","account_id":%q,"asset_id":%q,"amount":%d}`, acc.ID, consensus.BTMAssetID.String(), want)))
							}
							if err != nil {
								panic(err)
							}
							pay, err2 := txbuilder.DecodeControlProgramAction([]byte(fmt.Sprintf(`{"type":"control_program","control_program":"%x","asset_id":%q,"amount":%d}`, foreign, consensus.BTMAssetID.String(), want-fee)))
							if err2 != nil {
								panic(err2)
							}
							tpl, err := txbuilder.Build(ctx, nil, []txbuilder.Action{act, pay}, time.Unix(1000, 0), 0)
							cleanup := func() {
								for _, r := range keeper.Reservations() {
									keeper.Cancel(r.ID)
								}
								for _, k := range keys {
									db.Delete(k)
								}
							}
							if err != nil {
								capFail(c, "m-of-n account: Build of a fundable request fails", label+": "+err.Error())
								cleanup()
								continue
							}
							tx := tpl.Transaction
							validate := func() error {
								data, _ := tx.TxData.MarshalText()
								tx.TxData.SerializedSize = uint64(len(data) / 2)
								tx.Tx.SerializedSize = uint64(len(data) / 2)
								blk := &bc.Block{BlockHeader: &bc.BlockHeader{Version: 1, Height: 101, Timestamp: 1}}
								_, verr := validation.ValidateTx(tx.Tx, blk, func(prog []byte) ([]byte, error) { return nil, nil })
								return verr
							}
							for step, pos := range order {
								if viaJSON {
									// the next cosigner receives the template as JSON
									if parsed := c27jsonRoundTrip(c, tpl, label); parsed != nil {
										tpl = parsed
										tx = tpl.Transaction
									}
								}
								if txbuilder.SignProgress(tpl) {
									capFail(c, "m-of-n account: SignProgress true with fewer than m signers", fmt.Sprintf("%s: after %d signer(s)", label, step))
								}
								holder := acc.XPubs[pos]
								only := func(_ context.Context, xpub chainkd.XPub, path [][]byte, data [32]byte, _ string) ([]byte, error) {
									if xpub != holder {
										return nil, fmt.Errorf("this signer does not hold that key")
									}
									return prv[xpub].Derive(path).Sign(data[:]), nil
								}
								if err := txbuilder.Sign(ctx, tpl, "", only); err != nil {
									capFail(c, "m-of-n account: txbuilder.Sign fails", label+": "+err.Error())
								}
							}
							if viaJSON {
								// ... and so does whoever submits it
								if parsed := c27jsonRoundTrip(c, tpl, label); parsed != nil {
									tpl = parsed
									tx = tpl.Transaction
									if err := txbuilder.Sign(ctx, tpl, "", func(context.Context, chainkd.XPub, [][]byte, [32]byte, string) ([]byte, error) {
										return nil, fmt.Errorf("no key")
									}); err != nil { // no new signature: only re-materializes the witnesses of the parsed template
										capFail(c, "m-of-n account: txbuilder.Sign fails", label+": "+err.Error())
									}
								}
							}
							progress := txbuilder.SignProgress(tpl)
							verr := validate()
							switch {
							case !progress:
								capFail(c, "m-of-n account: m distinct key holders signed but SignProgress is false", label)
							case verr != nil:
								capFail(c, "m-of-n account: m key holders signed (SignProgress true) but ValidateTx rejects the transaction", label+": "+verr.Error())
							}
							// witness: exactly m signatures per input (64-byte arguments)
							for i, in := range tx.Inputs {
								nsig := 0
								for _, a := range in.Arguments() {
									if len(a) == 64 {
										nsig++
									}
								}
								if nsig != m {
									capFail(c, "m-of-n account: input witness does not carry exactly m signatures", fmt.Sprintf("%s: input %d carries %d", label, i, nsig))
								}
							}
							// pays as requested
							var in, out uint64
							for _, x := range tx.Inputs {
								in += x.Amount()
							}
							paid := false
							for _, o := range tx.Outputs {
								out += o.Amount
								if string(o.ControlProgram) == string(foreign) && o.Amount == want-fee {
									paid = true
								}
							}
							if !paid || in-out != fee || len(tx.Inputs) != nIn {
								capFail(c, "m-of-n account: built transaction does not pay as requested", fmt.Sprintf("%s: in %d out %d inputs %d", label, in, out, len(tx.Inputs)))
							}
							c.Count(fmt.Sprintf("multisig/%d-of-%d/%s", m, n, kind))
							cleanup()
						}
					}
				}
			}
		}
	}
}

func runC27(c *Ctx) {
	c.Rule = "per case 6-15 wallet UTXOs (BTM and two other assets, distinct amounts, two accounts: single key and 2-of-3, some unconfirmed, some both confirmed and unconfirmed, some immature) and 2-5 build requests, each a shuffled list of 1-3 control_address/control_program/retire actions and the spend_account actions that fund them (sometimes split over two spend actions / two accounts, sometimes off by a few units, sometimes amount 0); successful templates of balanced requests are signed and validated; a case is distinct by its op line"
	env := newC27env()
	s := &c27st{c: c, env: env}
	if c.Replay != "" {
		for _, l := range c.ReplayLines() {
			s.exec(l)
		}
		return
	}
	for _, l := range c.CorpusLines() {
		s.exec(l)
	}
	for i := 0; i < c.N; i++ {
		c27gen(c, s)
	}
	c27multisig(c)
	chains := 60
	if c.Tier == "thorough" {
		chains = 1500
	}
	for i := 0; i < chains; i++ {
		c27chain(c, s, c.Seed*100000+int64(i))
	}
}

func init() { register("c27", runC27) }
