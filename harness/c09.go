//go:build hc09 || hall

package main

import (
	"bufio"
	"bytes"
	"crypto/ed25519"
	"encoding/binary"
	"encoding/hex"
	"fmt"
	"sort"
	"strconv"
	"strings"

	"github.com/bytom/bytom/consensus/bcrp"
	"github.com/bytom/bytom/consensus/segwit"
	"github.com/bytom/bytom/errors"
	"github.com/bytom/bytom/math/checked"
	"github.com/bytom/bytom/protocol/vm"
	"github.com/bytom/bytom/protocol/vm/vmutil"
)

// C09: program parsing and assembly are consistent.
//
// op lines (hex "-" = empty)            impl line
//   parse <prog>                        ok <n> <op>/<len>/<data> …  | err <class>
//   dis <prog>                          ok <text-hex>               | err <class>
//   asm <text-hex>                      ok <prog>                   | err <class>
//   push <data> / pushu <n>             bytes
//   pushn <len> <byte>                  digest of PushDataBytes(len×byte) and of its parse
//   rec <prog>                          recognisers + extractors
//   build <kind> <arg>                  builder output
//   buildn <kind> <len> <byte>          digest of the builder output + recognisers
//   exh <prefix>                        digest over prefix ++ all 65536 two-byte suffixes
//
// Direct oracles (implementation only):
//   tiling      ParseProgram ok  =>  lengths tile prog, op byte / data are the right slices
//   nopanic     ParseProgram / Disassemble / Assemble / PushData* / recognisers never panic
//   pushparse   ParseProgram(PushDataBytes(d)) = [one instruction with data d]
//   builders    recogniser(builder(x)) <=> the documented length condition; mutual exclusion
//   asm_disasm  Disassemble ok => Assemble ok and same instruction sequence

func hx(b []byte) string {
	if len(b) == 0 {
		return "-"
	}
	return hex.EncodeToString(b)
}

func unhx(s string) []byte {
	if s == "-" {
		return nil
	}
	b, err := hex.DecodeString(s)
	if err != nil {
		panic("bad hex in op line: " + s)
	}
	return b
}

func c09perr(err error) string {
	switch errors.Root(err) {
	case vm.ErrShortProgram:
		return "short"
	case vm.ErrLongProgram:
		return "long"
	case checked.ErrOverflow:
		return "overflow"
	}
	return "other:" + err.Error()
}

func c09aerr(err error) string {
	root := errors.Root(err)
	switch root {
	case vm.ErrToken:
		return "token"
	case bufio.ErrTooLong:
		return "toolong"
	case hex.ErrLength:
		return "hex"
	}
	if _, ok := root.(*strconv.NumError); ok {
		return "num"
	}
	if _, ok := root.(hex.InvalidByteError); ok {
		return "hex"
	}
	m := err.Error()
	switch {
	case strings.HasPrefix(m, "label ") && strings.HasSuffix(m, " redefined"):
		return "redef"
	case strings.HasPrefix(m, "undefined label "):
		return "undef"
	case m == "program too long":
		return "proglong"
	}
	return "other:" + m
}

func c09fnv(b []byte) uint32 {
	h := uint32(2166136261)
	for _, x := range b {
		h = (h ^ uint32(x)) * 16777619
	}
	return h
}

func c09digest(b []byte) string {
	n := len(b)
	if n > 8 {
		n = 8
	}
	return fmt.Sprintf("len=%d head=%s fnv=%d", len(b), hx(b[:n]), c09fnv(b))
}

type c09 struct {
	c       *Ctx
	reports map[string]int
	family  map[string]int
	total   int
}

// fail reports a direct-oracle failure; per signature at most 3 are written out (the rest
// are only counted) — F6 fails on a large share of all generated programs.
func (h *c09) fail(sig, detail string) {
	h.reports[sig]++
	fam := sig
	if i := strings.IndexByte(sig, ':'); i >= 0 {
		fam = sig[:i]
	}
	if len(sig) < 50 {
		h.c.Count("oraclefail/" + sig)
	} else {
		h.c.Count("oraclefail/" + fam)
	}
	if len(detail) > 400 {
		detail = detail[:400] + "…"
	}
	// written out: at most 3 per signature, 20 per family, 80 per run (the rest is counted)
	if h.reports[sig] <= 3 && h.family[fam] < 20 && h.total < 80 {
		h.family[fam]++
		h.total++
		h.c.Fail(sig, detail)
	}
}

func (h *c09) emit(op, res string) {
	h.c.Op(op, res)
	if !strings.HasSuffix(op, " -") {
		h.c.Distinct(op)
	}
}

func (h *c09) guard(what string, arg []byte, f func()) (panicked bool) {
	defer func() {
		if r := recover(); r != nil {
			panicked = true
			h.fail("nopanic:"+what, fmt.Sprintf("%s panics on %s: %v", what, hx(arg), r))
		}
	}()
	f()
	return false
}

func c09parseLine(insts []vm.Instruction, err error) string {
	if err != nil {
		return "err " + c09perr(err)
	}
	var b strings.Builder
	fmt.Fprintf(&b, "ok %d", len(insts))
	for _, i := range insts {
		fmt.Fprintf(&b, " %02x/%d/%s", byte(i.Op), i.Len, hx(i.Data))
	}
	return b.String()
}

func (h *c09) parse(p []byte) ([]vm.Instruction, error, string) {
	var insts []vm.Instruction
	var err error
	if h.guard("ParseProgram", p, func() { insts, err = vm.ParseProgram(p) }) {
		return nil, nil, "panic"
	}
	return insts, err, c09parseLine(insts, err)
}

func (h *c09) dis(p []byte) (string, error, string) {
	var s string
	var err error
	if h.guard("Disassemble", p, func() { s, err = vm.Disassemble(p) }) {
		return "", nil, "panic"
	}
	if err != nil {
		return "", err, "err " + c09perr(err)
	}
	return s, nil, "ok " + hx([]byte(s))
}

func (h *c09) asm(t []byte) ([]byte, error, string) {
	var q []byte
	var err error
	if h.guard("Assemble", t, func() { q, err = vm.Assemble(string(t)) }) {
		return nil, nil, "panic"
	}
	if err != nil {
		return nil, err, "err " + c09aerr(err)
	}
	return q, nil, "ok " + hx(q)
}

// tiling oracle
func (h *c09) checkTiling(p []byte, insts []vm.Instruction) {
	pc := uint64(0)
	for k, i := range insts {
		bad := ""
		switch {
		case i.Len < 1:
			bad = "length 0"
		case pc+uint64(i.Len) > uint64(len(p)):
			bad = "runs past the end"
		case p[pc] != byte(i.Op):
			bad = "op is not the byte at its offset"
		case i.Op >= vm.OP_1 && i.Op <= vm.OP_16:
			if i.Len != 1 || !bytes.Equal(i.Data, []byte{byte(i.Op) - 0x50}) {
				bad = "OP_N shape"
			}
		case len(i.Data) > int(i.Len)-1 || !bytes.Equal(i.Data, p[pc+uint64(i.Len)-uint64(len(i.Data)):pc+uint64(i.Len)]):
			bad = "data is not the tail of the instruction's bytes"
		}
		if bad != "" {
			h.fail("tiling", fmt.Sprintf("prog %s inst %d: %s", hx(p), k, bad))
			return
		}
		pc += uint64(i.Len)
	}
	if pc != uint64(len(p)) {
		h.fail("tiling", fmt.Sprintf("prog %s: lengths sum to %d, program has %d bytes", hx(p), pc, len(p)))
	}
}

type canonInst struct {
	op     byte
	push   bool
	data   string
	target int // instruction index of a jump target; -1 = none; -2 = not a boundary
}

func c09canon(p []byte, insts []vm.Instruction) []canonInst {
	bound := map[uint32]int{}
	pc := uint32(0)
	for k, i := range insts {
		bound[pc] = k
		pc += i.Len
	}
	bound[pc] = len(insts)
	var out []canonInst
	for _, i := range insts {
		c := canonInst{op: byte(i.Op), target: -1}
		if i.Op == vm.OP_JUMP || i.Op == vm.OP_JUMPIF {
			if k, ok := bound[binary.LittleEndian.Uint32(i.Data)]; ok {
				c.target = k
			} else {
				c.target = -2
			}
		} else if len(i.Data) > 0 {
			c = canonInst{push: true, data: string(i.Data), target: -1}
		}
		out = append(out, c)
	}
	return out
}

var c09expansion = func() (e [256]bool) {
	for i := 0; i < 256; i++ {
		e[i] = strings.HasPrefix(vm.Op(i).String(), "NOPx")
	}
	return
}()

// asm_disasm oracle on a program whose Disassemble succeeded
func (h *c09) checkRoundTrip(p []byte, insts []vm.Instruction, text string) {
	q, aerr := vm.Assemble(text)
	var qi []vm.Instruction
	var perr error
	if aerr == nil {
		qi, perr = vm.ParseProgram(q)
	}
	strict := aerr == nil && perr == nil && len(qi) == len(insts)
	if strict {
		for k := range insts {
			if insts[k].Op != qi[k].Op || insts[k].Len != qi[k].Len || !bytes.Equal(insts[k].Data, qi[k].Data) {
				strict = false
				break
			}
		}
	}
	if strict {
		h.c.Count("roundtrip/exact")
		return
	}
	// why not?  (independent analysis of p)
	canon := c09canon(p, insts)
	var offBoundary, expansion, emptyPush, longTok, nonCanon bool
	pc := 0
	for k, i := range insts {
		enc := p[pc : pc+int(i.Len)]
		switch {
		case canon[k].target == -2:
			offBoundary = true
		case i.Op == vm.OP_JUMP || i.Op == vm.OP_JUMPIF:
		case len(i.Data) > 0:
			if !bytes.Equal(enc, vm.PushDataBytes(i.Data)) {
				nonCanon = true
			}
			if 2+2*len(i.Data) >= bufio.MaxScanTokenSize {
				longTok = true
			}
		case i.Op == vm.OP_PUSHDATA1 || i.Op == vm.OP_PUSHDATA2 || i.Op == vm.OP_PUSHDATA4:
			emptyPush = true
		case c09expansion[i.Op]:
			expansion = true
		}
		pc += int(i.Len)
	}
	detail := "Assemble(Disassemble(prog)) = "
	if aerr != nil {
		detail += "error " + aerr.Error()
	} else if len(q) > 60 {
		detail += hx(q[:60]) + "…"
	} else {
		detail += hx(q)
	}
	detail += fmt.Sprintf("; prog %s disassembles to %q", hx(p), text)
	switch {
	case offBoundary:
		h.fail("asm_disasm:jump-target-not-boundary", detail)
	case expansion:
		h.fail("asm_disasm:expansion-opcode", detail)
	case emptyPush:
		h.fail("asm_disasm:empty-nonminimal-push", detail)
	case longTok:
		h.fail("asm_disasm:token-too-long", detail)
	case nonCanon:
		h.fail("asm_disasm:push-not-canonical", detail)
	default:
		h.fail("asm_disasm:unexplained:"+hx(p), detail)
		return
	}
	if offBoundary || expansion || emptyPush || longTok {
		return
	}
	// only push canonicalisation is in the way: the round trip must hold modulo it
	if aerr != nil || perr != nil {
		h.fail("asm_disasm_partial:"+hx(p), detail)
		return
	}
	cq := c09canon(q, qi)
	same := len(cq) == len(canon)
	for k := 0; same && k < len(cq); k++ {
		same = cq[k] == canon[k]
	}
	if !same {
		h.fail("asm_disasm_partial:"+hx(p), detail)
		return
	}
	h.c.Count("roundtrip/modulo-push-canonicalisation")
}

func (h *c09) opParse(p []byte) {
	insts, err, line := h.parse(p)
	h.emit("parse "+hx(p), line)
	if line == "panic" {
		return
	}
	if err != nil {
		h.c.Count("parse/err-" + c09perr(err))
		return
	}
	h.c.Count("parse/ok")
	h.checkTiling(p, insts)
}

func (h *c09) opDis(p []byte) {
	text, err, line := h.dis(p)
	h.emit("dis "+hx(p), line)
	if line == "panic" {
		return
	}
	insts, perr := vm.ParseProgram(p)
	if (err == nil) != (perr == nil) {
		h.fail("dis-vs-parse:"+hx(p), "Disassemble and ParseProgram disagree about validity")
		return
	}
	if err != nil {
		h.c.Count("dis/err-" + c09perr(err))
		return
	}
	h.c.Count("dis/ok")
	h.checkRoundTrip(p, insts, text)
	// the assembler on the disassembler's text is also a correspondence line
	h.opAsm([]byte(text))
}

func (h *c09) opAsm(t []byte) {
	_, err, line := h.asm(t)
	h.emit("asm "+hx(t), line)
	if line == "panic" {
		return
	}
	if err != nil {
		h.c.Count("asm/err-" + c09aerr(err))
	} else {
		h.c.Count("asm/ok")
	}
}

func c09pushClass(n int) string {
	switch {
	case n == 0:
		return "0"
	case n <= 75:
		return "1-75"
	case n < 256:
		return "76-255"
	case n < 65536:
		return "256-65535"
	}
	return ">=65536"
}

func (h *c09) checkPush(d []byte) (enc []byte, ok bool) {
	if h.guard("PushDataBytes", d, func() { enc = vm.PushDataBytes(d) }) {
		return nil, false
	}
	insts, err, line := h.parse(enc)
	if line == "panic" {
		return enc, false
	}
	short := func() string {
		if len(d) > 40 {
			return fmt.Sprintf("%d×%02x…", len(d), d[0])
		}
		return hx(d)
	}
	if err != nil || len(insts) != 1 || !bytes.Equal(insts[0].Data, d) || int(insts[0].Len) != len(enc) {
		h.fail("pushparse:"+short(), "PushDataBytes output does not parse back to one instruction with the data")
		return enc, true
	}
	var want vm.Op
	switch n := len(d); {
	case n == 0:
		want = vm.OP_0
	case n <= 75:
		want = vm.Op(n)
	case n < 256:
		want = vm.OP_PUSHDATA1
	case n < 65536:
		want = vm.OP_PUSHDATA2
	default:
		want = vm.OP_PUSHDATA4
	}
	if insts[0].Op != want {
		h.fail("pushparse:"+short(), fmt.Sprintf("opcode %02x, expected %02x for %d bytes", byte(insts[0].Op), byte(want), len(d)))
	}
	h.c.Count("push/" + c09pushClass(len(d)))
	return enc, true
}

func (h *c09) opPush(d []byte) {
	enc, ok := h.checkPush(d)
	if !ok {
		h.emit("push "+hx(d), "panic")
		return
	}
	h.emit("push "+hx(d), hx(enc))
}

func (h *c09) opPushN(n int, b byte) {
	d := bytes.Repeat([]byte{b}, n)
	enc, ok := h.checkPush(d)
	op := fmt.Sprintf("pushn %d %02x", n, b)
	if !ok {
		h.emit(op, "panic")
		return
	}
	insts, err := vm.ParseProgram(enc)
	pl := ""
	switch {
	case err != nil:
		pl = "err " + c09perr(err)
	case len(insts) == 1:
		pl = fmt.Sprintf("ok1 %02x/%d/%s", byte(insts[0].Op), insts[0].Len, c09digest(insts[0].Data))
	default:
		pl = fmt.Sprintf("ok%d", len(insts))
	}
	h.emit(op, c09digest(enc)+" parse="+pl)
}

func (h *c09) opPushU(n uint64) {
	var enc []byte
	if h.guard("PushDataUint64", nil, func() { enc = vm.PushDataUint64(n) }) {
		h.emit(fmt.Sprintf("pushu %d", n), "panic")
		return
	}
	h.emit(fmt.Sprintf("pushu %d", n), hx(enc))
	insts, err := vm.ParseProgram(enc)
	if err != nil || len(insts) != 1 {
		h.fail(fmt.Sprintf("pushparse:uint64:%d", n), "PushDataUint64 output does not parse to one instruction")
		return
	}
	v, err := vm.AsBigInt(insts[0].Data)
	if err != nil || !v.IsUint64() || v.Uint64() != n {
		h.fail(fmt.Sprintf("pushparse:uint64:%d", n), "PushDataUint64 output does not push the number")
	}
	h.c.Count("pushu")
}

func b01(b bool) string {
	if b {
		return "1"
	}
	return "0"
}

type c09rec struct{ pkh, sh, straight, p2w, bcrp, call bool }

func (h *c09) recognise(p []byte) (r c09rec, ok bool) {
	if h.guard("recognisers", p, func() {
		r = c09rec{segwit.IsP2WPKHScript(p), segwit.IsP2WSHScript(p), segwit.IsStraightforward(p), segwit.IsP2WScript(p),
			bcrp.IsBCRPScript(p), bcrp.IsCallContractScript(p)}
	}) {
		return r, false
	}
	// mutual exclusion (IsP2WScript is by definition the union of three of them)
	n := 0
	for _, x := range []bool{r.pkh, r.sh, r.straight, r.bcrp, r.call} {
		if x {
			n++
		}
	}
	if n > 1 {
		h.fail("recognisers-overlap:"+hx(p), fmt.Sprintf("%+v", r))
	}
	if r.p2w != (r.pkh || r.sh || r.straight) {
		h.fail("recognisers-union:"+hx(p), fmt.Sprintf("%+v", r))
	}
	return r, true
}

func (r c09rec) flags() string {
	return "p2wpkh=" + b01(r.pkh) + " p2wsh=" + b01(r.sh) + " straight=" + b01(r.straight) + " p2w=" + b01(r.p2w) +
		" bcrp=" + b01(r.bcrp) + " call=" + b01(r.call)
}

func c09xerr(err error) string {
	switch err.Error() {
	case "unsupport program":
		return "unsupported"
	case "unknow P2PKH version number", "unknow P2SHP version number":
		return "version"
	}
	if errors.Root(err) == vmutil.ErrBadValue {
		return "badvalue"
	}
	return c09perr(err)
}

// extractor calls that index the instruction list unguarded: a panic is an outcome here,
// compared with the model, not a C09 oracle failure
func c09extract(f func() ([]byte, error), digest bool) (s string) {
	defer func() {
		if r := recover(); r != nil {
			s = "err:panic"
		}
	}()
	d, err := f()
	if err != nil {
		return "err:" + c09xerr(err)
	}
	if digest {
		return "ok:" + c09digest(d)
	}
	return "ok:" + hx(d)
}

func (h *c09) opRec(p []byte) {
	r, ok := h.recognise(p)
	if !ok {
		h.emit("rec "+hx(p), "panic")
		return
	}
	line := r.flags() +
		" contract=" + c09extract(func() ([]byte, error) { return bcrp.ParseContract(p) }, false) +
		" chash=" + c09extract(func() ([]byte, error) { x, err := bcrp.ParseContractHash(p); return x[:], err }, false) +
		" stdhash=" + c09extract(func() ([]byte, error) { return segwit.GetHashFromStandardProg(p) }, false)
	h.emit("rec "+hx(p), line)
	if r.pkh || r.sh || r.straight || r.bcrp || r.call {
		h.c.Count("rec/recognised")
	} else {
		h.c.Count("rec/none")
	}
	h.checkAcceptsOnlyBuilt(p, r)
}

// c09encoding names the first instruction of p that is not encoded the way the builders
// (PushDataBytes / PushDataUint64 / AddOp) would encode it
func c09encoding(p []byte) string {
	insts, err := vm.ParseProgram(p)
	if err != nil {
		return "unparsable"
	}
	pc := 0
	for _, i := range insts {
		enc := p[pc : pc+int(i.Len)]
		pc += int(i.Len)
		switch {
		case i.Op == vm.OP_JUMP || i.Op == vm.OP_JUMPIF:
			return "jump"
		case i.Op >= vm.OP_1 && i.Op <= vm.OP_16:
			// a number 1..16: canonical for AddUint64, never produced by AddData
			return "small-int"
		case len(i.Data) > 0 && !bytes.Equal(enc, vm.PushDataBytes(i.Data)):
			switch i.Op {
			case vm.OP_PUSHDATA1:
				return "pushdata1"
			case vm.OP_PUSHDATA2:
				return "pushdata2"
			case vm.OP_PUSHDATA4:
				return "pushdata4"
			}
			return "other"
		case len(i.Data) == 0 && (i.Op == vm.OP_PUSHDATA1 || i.Op == vm.OP_PUSHDATA2 || i.Op == vm.OP_PUSHDATA4):
			return "empty-" + strings.ToLower(i.Op.String())
		}
	}
	return "canonical-pushes"
}

// checkAcceptsOnlyBuilt is the converse builders oracle: a recogniser accepts p  =>  the
// matching builder, applied to the parameters the matching extractor reads out of p, returns
// exactly p (so recognised programs and builder outputs are the same set of byte strings).
func (h *c09) checkAcceptsOnlyBuilt(p []byte, r c09rec) {
	report := func(which string, rebuilt []byte, err error) {
		if err == nil && bytes.Equal(rebuilt, p) {
			h.c.Count("accepts-only-built/" + which)
			return
		}
		got := "error"
		if err == nil {
			got = hx(rebuilt)
		}
		h.fail("recogniser-accepts-non-builder-bytes:"+which+":"+c09encoding(p),
			fmt.Sprintf("%s accepts %s, but the builder on the extracted parameters gives %s", which, hx(p), got))
	}
	defer func() {
		if x := recover(); x != nil {
			h.fail("recogniser-accepts-non-builder-bytes:panic", fmt.Sprintf("extractor panics on recognised program %s: %v", hx(p), x))
		}
	}()
	if r.pkh {
		hash, err := segwit.GetHashFromStandardProg(p)
		if err == nil {
			var b []byte
			b, err = vmutil.P2WPKHProgram(hash)
			report("p2wpkh", b, err)
			// … and the conversion used by validation is the signature program of that hash
			want, _ := vmutil.P2PKHSigProgram(hash)
			if c, cerr := segwit.ConvertP2PKHSigProgram(p); cerr != nil || !bytes.Equal(c, want) {
				h.fail("convert-differs-from-builder:p2wpkh:"+c09encoding(p), "ConvertP2PKHSigProgram("+hx(p)+") is not P2PKHSigProgram(hash)")
			}
		} else {
			report("p2wpkh", nil, err)
		}
	}
	if r.sh {
		hash, err := segwit.GetHashFromStandardProg(p)
		if err == nil {
			var b []byte
			b, err = vmutil.P2WSHProgram(hash)
			report("p2wsh", b, err)
			want, _ := vmutil.P2SHProgram(hash)
			if c, cerr := segwit.ConvertP2SHProgram(p); cerr != nil || !bytes.Equal(c, want) {
				h.fail("convert-differs-from-builder:p2wsh:"+c09encoding(p), "ConvertP2SHProgram("+hx(p)+") is not P2SHProgram(hash)")
			}
		} else {
			report("p2wsh", nil, err)
		}
	}
	if r.bcrp {
		c, err := bcrp.ParseContract(p)
		var b []byte
		if err == nil {
			b, err = vmutil.RegisterProgram(c)
		}
		report("bcrp", b, err)
	}
	if r.call {
		ch, err := bcrp.ParseContractHash(p)
		var b []byte
		if err == nil {
			b, err = vmutil.CallContractProgram(ch[:])
		}
		report("call", b, err)
	}
	if r.straight {
		cb, _ := vmutil.DefaultCoinbaseProgram()
		rt, _ := vmutil.RetireProgram(nil)
		if bytes.Equal(p, cb) {
			report("straight", cb, nil)
		} else {
			report("straight", rt, nil)
		}
	}
}

// genJumpHeavy: a parsable program with exactly k distinct JUMP/JUMPIF targets, all on
// instruction boundaries (program start and end included) unless off > 0, in which case
// `off` of the jumps point into the middle of an instruction or past the end (F6a class).
// The order in which the targets first appear (= their label numbers) is random.
func (h *c09) genJumpHeavy(k, off int) []byte {
	r := h.c.Rng
	// layout: k jumps interleaved with a few plain ops / canonical pushes
	type piece struct {
		b    []byte
		jump bool
	}
	var ps []piece
	for i := 0; i < k; i++ {
		op := byte(vm.OP_JUMP)
		if r.Intn(2) == 0 {
			op = byte(vm.OP_JUMPIF)
		}
		ps = append(ps, piece{b: []byte{op, 0, 0, 0, 0}, jump: true})
		switch r.Intn(4) {
		case 0:
			ps = append(ps, piece{b: []byte{c09plainOps[r.Intn(len(c09plainOps))]}})
		case 1:
			ps = append(ps, piece{b: vm.PushDataBytes(h.rbytes(1 + r.Intn(6)))})
		}
	}
	r.Shuffle(len(ps), func(i, j int) { ps[i], ps[j] = ps[j], ps[i] })
	var bounds []uint32
	pos := uint32(0)
	for _, x := range ps {
		bounds = append(bounds, pos)
		pos += uint32(len(x.b))
	}
	bounds = append(bounds, pos) // the end of the program
	// k distinct boundaries; always try to include start and end
	perm := r.Perm(len(bounds))
	targets := []uint32{}
	seen := map[uint32]bool{}
	add := func(t uint32) {
		if !seen[t] && len(targets) < k {
			seen[t] = true
			targets = append(targets, t)
		}
	}
	if k >= 2 {
		add(0)
		add(pos)
	}
	for _, i := range perm {
		add(bounds[i])
	}
	r.Shuffle(len(targets), func(i, j int) { targets[i], targets[j] = targets[j], targets[i] })
	var prog []byte
	j := 0
	for _, x := range ps {
		if x.jump {
			t := targets[j%len(targets)]
			if j < off {
				if r.Intn(2) == 0 {
					t = pos + 1 + uint32(r.Intn(5)) // past the end
				} else {
					t = bounds[r.Intn(len(bounds)-1)] + 1 // inside an instruction (every piece next to a jump is >= 1 byte; a jump is 5)
				}
			}
			binary.LittleEndian.PutUint32(x.b[1:], t)
			j++
		}
		prog = append(prog, x.b...)
	}
	return prog
}

func (h *c09) jumpHeavy() {
	ks := []int{1, 2, 25, 26, 27, 28, 52, 53, 54, 100}
	if h.c.Tier != "quick" {
		ks = append(ks, 259, 260, 261, 700)
	}
	for _, k := range ks {
		p := h.genJumpHeavy(k, 0)
		h.opParse(p)
		h.opDis(p)
		h.c.Count(fmt.Sprintf("jumpheavy/k=%d", k))
	}
	for _, k := range []int{2, 27, 54} {
		p := h.genJumpHeavy(k, 1+h.c.Rng.Intn(2))
		h.opDis(p)
		h.c.Count("jumpheavy/off-boundary")
	}
}

// ---- alternative encodings of the standard programs

// a piece of a standard program: an opcode, a data push (AddData) or a number (AddUint64)
type c09piece struct {
	op   byte
	data []byte
	kind int // 0 opcode, 1 data push, 2 number
	num  uint64
}

func c09op(o vm.Op) c09piece    { return c09piece{op: byte(o)} }
func c09data(d []byte) c09piece { return c09piece{kind: 1, data: d} }
func c09num(n uint64) c09piece  { return c09piece{kind: 2, num: n} }
func (x c09piece) canonical() []byte {
	switch x.kind {
	case 1:
		return vm.PushDataBytes(x.data)
	case 2:
		return vm.PushDataUint64(x.num)
	}
	return []byte{x.op}
}

// c09pushForms: every instruction encoding that pushes exactly the payload d
func c09pushForms(d []byte) [][]byte {
	n := len(d)
	var out [][]byte
	if n >= 1 && n <= 75 {
		out = append(out, append([]byte{byte(n)}, d...))
	}
	if n < 256 {
		out = append(out, append([]byte{byte(vm.OP_PUSHDATA1), byte(n)}, d...))
	}
	if n < 65536 {
		out = append(out, append([]byte{byte(vm.OP_PUSHDATA2), byte(n), byte(n >> 8)}, d...))
	}
	out = append(out, append([]byte{byte(vm.OP_PUSHDATA4), byte(n), byte(n >> 8), byte(n >> 16), byte(n >> 24)}, d...))
	if n == 0 {
		out = append(out, []byte{byte(vm.OP_0)})
	}
	if n == 1 && d[0] >= 1 && d[0] <= 16 {
		out = append(out, []byte{byte(vm.OP_1) + d[0] - 1})
	}
	return out
}

// alternatives of one piece: all encodings of the same payload; for numbers also the same
// value with redundant high-order zero bytes ("leading zeros" of the little-endian number)
func (x c09piece) alternatives() [][]byte {
	switch x.kind {
	case 1:
		return c09pushForms(x.data)
	case 2:
		d := vm.Uint64Bytes(x.num)
		out := c09pushForms(d)
		out = append(out, c09pushForms(append(append([]byte{}, d...), 0))...)
		out = append(out, c09pushForms(append(append([]byte{}, d...), 0, 0))...)
		return out
	}
	return [][]byte{{x.op}}
}

func (h *c09) stdPrograms() map[string][]c09piece {
	h20, h32 := h.rbytes(20), h.rbytes(32)
	k1, k2, k3 := h.rbytes(32), h.rbytes(32), h.rbytes(32)
	sig := func(x []byte) []c09piece {
		return []c09piece{c09op(vm.OP_DUP), c09op(vm.OP_HASH160), c09data(x), c09op(vm.OP_EQUALVERIFY), c09op(vm.OP_TXSIGHASH), c09op(vm.OP_SWAP), c09op(vm.OP_CHECKSIG)}
	}
	sh := func(x []byte) []c09piece {
		return []c09piece{c09op(vm.OP_DUP), c09op(vm.OP_SHA3), c09data(x), c09op(vm.OP_EQUALVERIFY), c09num(0), c09op(vm.OP_SWAP), c09num(0), c09op(vm.OP_CHECKPREDICATE)}
	}
	return map[string][]c09piece{
		"p2wpkh":     {c09num(0), c09data(h20)},
		"p2wsh":      {c09num(0), c09data(h32)},
		"p2pkhsig":   sig(h20),
		"p2sh":       sh(h32),
		"multisig":   {c09op(vm.OP_TXSIGHASH), c09data(k1), c09data(k2), c09data(k3), c09num(2), c09num(3), c09op(vm.OP_CHECKMULTISIG)},
		"coinbase":   {c09num(1)},
		"retire":     {c09op(vm.OP_FAIL), c09data([]byte("comment"))},
		"retire0":    {c09op(vm.OP_FAIL)},
		"register":   {c09op(vm.OP_FAIL), c09data([]byte(bcrp.BCRP)), c09data([]byte{byte(bcrp.Version)}), c09data(h.rbytes(1 + h.c.Rng.Intn(40)))},
		"register1":  {c09op(vm.OP_FAIL), c09data([]byte(bcrp.BCRP)), c09data([]byte{byte(bcrp.Version)}), c09data([]byte{byte(1 + h.c.Rng.Intn(16))})},
		"register76": {c09op(vm.OP_FAIL), c09data([]byte(bcrp.BCRP)), c09data([]byte{byte(bcrp.Version)}), c09data(h.rbytes(76 + h.c.Rng.Intn(200)))},
		"call":       {c09data([]byte(bcrp.BCRP)), c09data(h32)},
	}
}

func c09assemblePieces(ps []c09piece, alt map[int][]byte) []byte {
	var out []byte
	for k, x := range ps {
		if a, ok := alt[k]; ok {
			out = append(out, a...)
		} else {
			out = append(out, x.canonical()...)
		}
	}
	return out
}

// every recogniser / extractor / converter on one candidate
func (h *c09) feedAll(p []byte) {
	h.opRec(p)
	h.opConv("pkh", p)
	h.opConv("sh", p)
	h.c.Count("altenc/candidates")
}

// altEncodings: for every standard program, every alternative encoding of every single piece,
// some double substitutions, and near-misses (one instruction more / less, wrong version
// opcode, hash length +-1, a JUMP carrying the payload)
func (h *c09) altEncodings() {
	r := h.c.Rng
	names := []string{}
	progs := h.stdPrograms()
	for n := range progs {
		names = append(names, n)
	}
	sort.Strings(names)
	for _, name := range names {
		ps := progs[name]
		h.feedAll(c09assemblePieces(ps, nil))
		for k, x := range ps {
			for _, a := range x.alternatives() {
				h.feedAll(c09assemblePieces(ps, map[int][]byte{k: a}))
			}
		}
		for t := 0; t < 6 && len(ps) >= 2; t++ { // two pieces at once
			i, j := r.Intn(len(ps)), r.Intn(len(ps))
			ai, aj := ps[i].alternatives(), ps[j].alternatives()
			h.feedAll(c09assemblePieces(ps, map[int][]byte{i: ai[r.Intn(len(ai))], j: aj[r.Intn(len(aj))]}))
		}
		// near-misses
		canon := c09assemblePieces(ps, nil)
		for _, extra := range [][]byte{{byte(vm.OP_NOP)}, {byte(vm.OP_0)}, {0x01, 0xaa}, {byte(vm.OP_1)}} {
			h.feedAll(append(append([]byte{}, canon...), extra...))
			h.feedAll(append(append([]byte{}, extra...), canon...))
		}
		if len(ps) > 1 {
			h.feedAll(c09assemblePieces(ps[:len(ps)-1], nil))
			h.feedAll(c09assemblePieces(ps[1:], nil))
		}
		for k, x := range ps {
			switch x.kind {
			case 1: // payload length -1 / +1, payload carried by a JUMP, by JUMPIF
				if len(x.data) > 0 {
					h.feedAll(c09assemblePieces(ps, map[int][]byte{k: vm.PushDataBytes(x.data[:len(x.data)-1])}))
				}
				h.feedAll(c09assemblePieces(ps, map[int][]byte{k: vm.PushDataBytes(append(append([]byte{}, x.data...), byte(r.Intn(256))))}))
				for _, f := range c09pushForms(append(append([]byte{}, x.data...), 0)) {
					h.feedAll(c09assemblePieces(ps, map[int][]byte{k: f}))
				}
				four := append(append([]byte{}, x.data...), 0, 0, 0, 0)[:4]
				h.feedAll(c09assemblePieces(ps, map[int][]byte{k: append([]byte{byte(vm.OP_JUMP)}, four...)}))
				h.feedAll(c09assemblePieces(ps, map[int][]byte{k: append([]byte{byte(vm.OP_JUMPIF)}, four...)}))
			case 2: // wrong version / number opcode
				for _, o := range []byte{byte(vm.OP_1), byte(vm.OP_2), byte(vm.OP_NOP), byte(vm.OP_FAIL), 0x50} {
					h.feedAll(c09assemblePieces(ps, map[int][]byte{k: {o}}))
				}
			}
		}
	}
}

func c09build(kind string, arg []byte) ([]byte, error) {
	switch kind {
	case "p2wpkh":
		return vmutil.P2WPKHProgram(arg)
	case "p2wsh":
		return vmutil.P2WSHProgram(arg)
	case "retire":
		return vmutil.RetireProgram(arg)
	case "register":
		return vmutil.RegisterProgram(arg)
	case "call":
		return vmutil.CallContractProgram(arg)
	case "coinbase":
		return vmutil.DefaultCoinbaseProgram()
	case "p2pkhsig":
		return vmutil.P2PKHSigProgram(arg)
	case "p2sh":
		return vmutil.P2SHProgram(arg)
	}
	panic("kind " + kind)
}

var c09kinds = []string{"p2wpkh", "p2wsh", "retire", "register", "call", "coinbase", "p2pkhsig", "p2sh"}

// builders oracle: each recogniser accepts its builder's output exactly under the documented
// condition on the argument
func (h *c09) checkBuilder(kind string, arg, p []byte) (c09rec, bool) {
	r, ok := h.recognise(p)
	if !ok {
		return r, false
	}
	sig := fmt.Sprintf("builders:%s:len%d", kind, len(arg))
	exp := func(name string, got, want bool) {
		if got != want {
			h.fail(sig, fmt.Sprintf("%s(%s(arg of %d bytes)) = %v, expected %v", name, kind, len(arg), got, want))
		}
	}
	switch kind {
	case "p2wpkh", "p2wsh": // the two builders are the same function
		exp("IsP2WPKHScript", r.pkh, len(arg) == 20)
		exp("IsP2WSHScript", r.sh, len(arg) == 32)
	case "register":
		exp("IsBCRPScript", r.bcrp, len(arg) > 0)
		c, err := bcrp.ParseContract(p)
		if err != nil || !bytes.Equal(c, arg) {
			h.fail(sig, "ParseContract(RegisterProgram(c)) != c")
		}
	case "call":
		exp("IsCallContractScript", r.call, len(arg) == 32)
		if len(arg) == 32 {
			x, err := bcrp.ParseContractHash(p)
			if err != nil || !bytes.Equal(x[:], arg) {
				h.fail(sig, "ParseContractHash(CallContractProgram(h)) != h")
			}
		}
	case "retire":
		if !vmutil.IsUnspendable(p) {
			h.fail(sig, "RetireProgram output is not IsUnspendable")
		}
		exp("IsStraightforward", r.straight, len(arg) == 0)
	case "coinbase":
		exp("IsStraightforward", r.straight, true)
	case "p2pkhsig", "p2sh":
		// the segwit conversion of the witness program is this builder on the same hash
		w, _ := vmutil.P2WPKHProgram(arg)
		conv := segwit.ConvertP2PKHSigProgram
		if kind == "p2sh" {
			conv = segwit.ConvertP2SHProgram
		}
		if c, err := conv(w); err != nil || !bytes.Equal(c, p) {
			h.fail(sig, "Convert(P2W program of h) differs from the direct builder on h")
		}
	}
	h.c.Count("build/" + kind)
	return r, true
}

func (h *c09) opBuild(kind string, arg []byte) {
	var p []byte
	var err error
	if h.guard("builder:"+kind, arg, func() { p, err = c09build(kind, arg) }) {
		h.emit("build "+kind+" "+hx(arg), "panic")
		return
	}
	if err != nil {
		h.emit("build "+kind+" "+hx(arg), "err")
		h.fail("builders:"+kind+":error", err.Error())
		return
	}
	h.emit("build "+kind+" "+hx(arg), hx(p))
	if _, ok := h.checkBuilder(kind, arg, p); ok {
		h.opRec(p)
	}
}

func (h *c09) opBuildN(kind string, n int, b byte) {
	arg := bytes.Repeat([]byte{b}, n)
	op := fmt.Sprintf("buildn %s %d %02x", kind, n, b)
	p, err := c09build(kind, arg)
	if err != nil {
		h.emit(op, "err")
		return
	}
	r, ok := h.checkBuilder(kind, arg, p)
	if !ok {
		h.emit(op, "panic")
		return
	}
	h.emit(op, c09digest(p)+" "+r.flags()+" contract="+c09extract(func() ([]byte, error) { return bcrp.ParseContract(p) }, true))
}

func c09keys(ks []byte) []ed25519.PublicKey {
	var out []ed25519.PublicKey
	for len(ks) > 0 {
		n := 32
		if len(ks) < n {
			n = len(ks)
		}
		out = append(out, ed25519.PublicKey(ks[:n]))
		ks = ks[n:]
	}
	return out
}

func (h *c09) opMultisig(m int, height int64, ks []byte) {
	op := fmt.Sprintf("multisig %d %s", m, hx(ks))
	f := func() ([]byte, error) { return vmutil.P2SPMultiSigProgram(c09keys(ks), m) }
	if height >= 0 {
		op = fmt.Sprintf("multisigh %d %d %s", m, height, hx(ks))
		f = func() ([]byte, error) { return vmutil.P2SPMultiSigProgramWithHeight(c09keys(ks), m, uint64(height)) }
	}
	res := c09extract(f, false)
	h.emit(op, res)
	h.c.Count("multisig/" + strings.SplitN(res, ":", 2)[0])
	if strings.HasPrefix(res, "ok:") {
		p, _ := f()
		insts, err := vm.ParseProgram(p)
		n := len(c09keys(ks))
		want := n + 4
		if height > 0 {
			want += 4
		}
		if err != nil || len(insts) != want {
			h.fail(fmt.Sprintf("builders:multisig:%d-of-%d", m, n), "multisig program does not parse to TXSIGHASH, n keys, m, n, CHECKMULTISIG")
		}
	}
}

func (h *c09) opConv(kind string, p []byte) {
	f := segwit.ConvertP2PKHSigProgram
	if kind == "sh" {
		f = segwit.ConvertP2SHProgram
	}
	res := c09extract(func() ([]byte, error) { return f(p) }, false)
	h.emit("conv "+kind+" "+hx(p), res)
	h.c.Count("conv/" + strings.SplitN(res, ":", 2)[0])
}

func (h *c09) opExh(pre []byte) {
	okc, ninst := 0, 0
	var acc uint64
	p := make([]byte, len(pre)+2)
	copy(p, pre)
	for a := 0; a < 256; a++ {
		for b := 0; b < 256; b++ {
			p[len(pre)], p[len(pre)+1] = byte(a), byte(b)
			insts, err, pl := h.parse(p)
			text, derr, dl := h.dis(p)
			if pl != "panic" && err == nil {
				okc++
				ninst += len(insts)
				h.checkTiling(p, insts)
				if dl != "panic" && derr == nil {
					h.checkRoundTrip(p, insts, text)
				}
			}
			acc += uint64(c09fnv([]byte(pl + "|" + dl)))
		}
	}
	h.emit("exh "+hx(pre), fmt.Sprintf("n=65536 ok=%d insts=%d sum=%d", okc, ninst, acc))
	h.c.Count("exh-lines")
}

// ---------------------------------------------------------------------------- generators

var c09plainOps = func() (o []byte) {
	for i := 0; i < 256; i++ {
		op := vm.Op(i)
		switch {
		case i <= 0x4e, op >= vm.OP_1 && op <= vm.OP_16, op == vm.OP_JUMP, op == vm.OP_JUMPIF, c09expansion[i]:
		default:
			o = append(o, byte(i))
		}
	}
	return
}()

func (h *c09) rbytes(n int) []byte {
	b := make([]byte, n)
	h.c.Rng.Read(b)
	return b
}

// genProgram: grammar-generated program.  mode 0: canonical pushes, boundary jumps, assigned
// opcodes (the class for which the round trip must hold); mode 1: anything goes, including
// non-minimal and truncated pushes, off-boundary and far jumps, expansion opcodes.
func (h *c09) genProgram(mode int) []byte {
	r := h.c.Rng
	n := r.Intn(12)
	type piece struct {
		b    []byte
		jump bool
	}
	var ps []piece
	for i := 0; i < n; i++ {
		switch k := r.Intn(10); {
		case k < 4:
			ps = append(ps, piece{b: []byte{c09plainOps[r.Intn(len(c09plainOps))]}})
		case k < 7:
			var l int
			switch r.Intn(6) {
			case 0:
				l = 0
			case 1:
				l = 1 + r.Intn(4)
			case 2:
				l = []int{20, 32, 64, 75, 76}[r.Intn(5)]
			case 3:
				l = 76 + r.Intn(180)
			case 4:
				l = 256 + r.Intn(60)
			default:
				l = r.Intn(80)
			}
			d := h.rbytes(l)
			if mode == 0 || r.Intn(3) > 0 {
				ps = append(ps, piece{b: vm.PushDataBytes(d)})
				break
			}
			switch r.Intn(4) { // non-minimal forms
			case 0:
				if l < 256 {
					ps = append(ps, piece{b: append([]byte{byte(vm.OP_PUSHDATA1), byte(l)}, d...)})
				}
			case 1:
				ps = append(ps, piece{b: append([]byte{byte(vm.OP_PUSHDATA2), byte(l), byte(l >> 8)}, d...)})
			case 2:
				ps = append(ps, piece{b: append([]byte{byte(vm.OP_PUSHDATA4), byte(l), byte(l >> 8), 0, 0}, d...)})
			default:
				ps = append(ps, piece{b: []byte{byte(vm.OP_1) + byte(r.Intn(16))}})
			}
		case k < 9:
			op := byte(vm.OP_JUMP)
			if r.Intn(2) == 0 {
				op = byte(vm.OP_JUMPIF)
			}
			ps = append(ps, piece{b: []byte{op, 0, 0, 0, 0}, jump: true})
		default:
			if mode == 1 {
				switch r.Intn(3) {
				case 0:
					ps = append(ps, piece{b: []byte{0x50}}) // expansion opcode
				case 1:
					ps = append(ps, piece{b: []byte{byte(r.Intn(256))}})
				default:
					ps = append(ps, piece{b: []byte{byte(vm.OP_PUSHDATA4), 0xfb + byte(r.Intn(5)), 0xff, 0xff, 0xff}})
				}
			} else {
				ps = append(ps, piece{b: []byte{byte(vm.OP_1) + byte(r.Intn(16))}})
			}
		}
	}
	// layout, then fill the jump targets
	var bounds []int
	off := 0
	for _, p := range ps {
		bounds = append(bounds, off)
		off += len(p.b)
	}
	bounds = append(bounds, off)
	var prog []byte
	for _, p := range ps {
		if p.jump {
			t := uint32(bounds[r.Intn(len(bounds))])
			if mode == 1 {
				switch r.Intn(5) {
				case 0:
					t = uint32(r.Intn(off + 3))
				case 1:
					t = r.Uint32()
				}
			}
			binary.LittleEndian.PutUint32(p.b[1:], t)
		}
		prog = append(prog, p.b...)
	}
	if mode == 1 && len(prog) > 0 && r.Intn(4) == 0 {
		prog = prog[:r.Intn(len(prog)+1)] // truncate: short PUSHDATA / JUMP forms
	}
	return prog
}

var c09spaces = []string{" ", " ", " ", "  ", "\t", "\n", "\r\n", "\v", "\f", " \t ", "\xc2\xa0", "\xc2\x85", "\xe2\x80\x80", "\xe2\x80\x8a",
	"\xe2\x80\xa8", "\xe2\x80\xaf", "\xe2\x81\x9f", "\xe3\x80\x80", "\xe1\x9a\x80"}

func (h *c09) genToken() string {
	r := h.c.Rng
	lab := func() string { return "$" + []string{"a", "b", "alpha", "x1", "", "zulu", "JUMP"}[r.Intn(7)] }
	switch r.Intn(16) {
	case 0, 1, 2:
		return vm.Op(c09plainOps[r.Intn(len(c09plainOps))]).String()
	case 3:
		return vm.Op(r.Intn(256)).String()
	case 4, 5:
		s := "0x" + hex.EncodeToString(h.rbytes(r.Intn(80)))
		switch r.Intn(8) {
		case 0:
			s = s[:len(s)-r.Intn(2)]
		case 1:
			s = strings.ToUpper(s[2:])
			s = "0x" + s
		case 2:
			s += "g"
		}
		return s
	case 6:
		var b strings.Builder
		b.WriteByte('\'')
		for i, n := 0, r.Intn(12); i < n; i++ {
			switch r.Intn(10) {
			case 0:
				b.WriteString("\\'")
			case 1:
				b.WriteString("\\\\")
			case 2:
				b.WriteByte(' ')
			case 3:
				b.WriteByte(byte(0x80 + r.Intn(5)))
			case 4:
				b.WriteString(c09spaces[r.Intn(len(c09spaces))])
			default:
				b.WriteByte(byte('a' + r.Intn(26)))
			}
		}
		if r.Intn(10) > 0 {
			b.WriteByte('\'')
		}
		return b.String()
	case 7:
		return strconv.Itoa(r.Intn(300))
	case 8:
		return []string{"-1", "+7", "-0", "18446744073709551615", "18446744073709551616",
			"115792089237316195423570985008687907853269984665640564039457584007913129639935",
			"115792089237316195423570985008687907853269984665640564039457584007913129639936",
			"-115792089237316195423570985008687907853269984665640564039457584007913129639935",
			"-115792089237316195423570985008687907853269984665640564039457584007913129639936",
			"007", "1_000", "0b1", "1e3", "+", "-", "12a"}[r.Intn(16)]
	case 9, 10:
		return lab()
	case 11:
		return "JUMP:" + lab()
	case 12:
		return "JUMPIF:" + lab()
	case 13:
		return []string{"JUMP:", "JUMPIF:"}[r.Intn(2)] + []string{"0", "5", "4294967295", "4294967296", "", "+1", "-1", "0x10", "12a", "007"}[r.Intn(10)]
	case 14:
		return []string{"PUSHDATA1", "PUSHDATA2", "PUSHDATA4", "JUMP", "JUMPIF", "0", "TRUE", "FALSE", "16", "17", "DATA_1", "DATA_75", "DATA_76", "NOPx50",
			"'", "''", "'\\'", "$", "0x", "0X00", "jump:$a", "add", "1ADD", "x'a'", "'a'x"}[r.Intn(25)]
	default:
		n := 1 + r.Intn(6)
		b := make([]byte, n)
		for i := range b {
			b[i] = byte(0x21 + r.Intn(0x5e))
		}
		return string(b)
	}
}

func (h *c09) genText() []byte {
	r := h.c.Rng
	var b strings.Builder
	if r.Intn(6) == 0 {
		b.WriteString(c09spaces[r.Intn(len(c09spaces))])
	}
	for i, n := 0, r.Intn(10); i < n; i++ {
		b.WriteString(h.genToken())
		if i < n-1 || r.Intn(4) == 0 {
			b.WriteString(c09spaces[r.Intn(len(c09spaces))])
		}
	}
	return []byte(b.String())
}

// random bytes; 0x85 / 0xA0 only directly after 0xC2 (see the model's proviso)
func (h *c09) genRawText() []byte {
	r := h.c.Rng
	n := r.Intn(40)
	b := make([]byte, 0, n)
	for len(b) < n {
		var x byte
		switch r.Intn(4) {
		case 0:
			x = byte(r.Intn(256))
		case 1:
			x = " \t\n'\\$:0x"[r.Intn(9)]
		default:
			x = byte(0x20 + r.Intn(0x5f))
		}
		if (x == 0x85 || x == 0xa0) && (len(b) == 0 || b[len(b)-1] != 0xc2) {
			continue
		}
		b = append(b, x)
	}
	return b
}

var c09lens = []int{0, 1, 2, 19, 20, 21, 31, 32, 33, 70, 74, 75, 76, 77, 255, 256, 257, 1000}
var c09bigLens = []int{65535, 65536, 65537, 70000}

func (h *c09) line(l string) {
	w := strings.Fields(l)
	if len(w) < 2 {
		return
	}
	switch w[0] {
	case "parse":
		h.opParse(unhx(w[1]))
	case "dis":
		h.opDis(unhx(w[1]))
	case "asm":
		h.opAsm(unhx(w[1]))
	case "push":
		h.opPush(unhx(w[1]))
	case "pushu":
		n, _ := strconv.ParseUint(w[1], 10, 64)
		h.opPushU(n)
	case "pushn":
		n, _ := strconv.Atoi(w[1])
		h.opPushN(n, unhx(w[2])[0])
	case "rec":
		h.opRec(unhx(w[1]))
	case "build":
		h.opBuild(w[1], unhx(w[2]))
	case "buildn":
		n, _ := strconv.Atoi(w[2])
		h.opBuildN(w[1], n, unhx(w[3])[0])
	case "exh":
		h.opExh(unhx(w[1]))
	case "multisig":
		m, _ := strconv.Atoi(w[1])
		h.opMultisig(m, -1, unhx(w[2]))
	case "multisigh":
		m, _ := strconv.Atoi(w[1])
		ht, _ := strconv.ParseInt(w[2], 10, 64)
		h.opMultisig(m, ht, unhx(w[3]))
	case "conv":
		h.opConv(w[1], unhx(w[2]))
	}
}

func runC09(c *Ctx) {
	c.Rule = "ParseProgram/Disassemble on every byte string of length <= 2 (and, digested, on all 3-byte strings: 256 first bytes in the thorough tier, 8 in quick), on random strings <= 300 bytes and on grammar-generated programs (canonical and non-canonical pushes incl. truncated PUSHDATA1/2/4, jumps to boundaries / off boundaries / past the end, expansion opcodes); Assemble on every disassembly and on generated token streams (names, hex, quoted strings with escapes, decimal numbers around 2^64 and 2^256, labels, numeric jumps, every Unicode space bufio knows, tokens around the 64 KiB Scanner limit); PushDataBytes for every length 0..300 and 65535..65537, 70000; all builders and recognisers on argument lengths 0..77, 255..257, 1000, 65535.., random programs and mutated builder outputs; for every standard program (P2WPKH, P2WSH, P2PKHSig, P2SH, multisig, coinbase, retire, BCRP register / call) every alternative encoding of every push (DATA_n / PUSHDATA1/2/4 / OP_1..16 / numbers with redundant zero bytes / JUMP carrying the payload) and near-misses (one instruction more or less, wrong version opcode, payload length +-1) through all recognisers, extractors and converters, with the converse oracle (accepted => builder on the extracted parameters returns exactly these bytes); jump-heavy programs with k distinct JUMP/JUMPIF targets on instruction boundaries (start and end included), k in {1,2,25,26,27,28,52,53,54,100} (thorough also 259..261, 700), label numbers in random order, plus off-boundary variants. A case is distinct by its op line; non-trivial = reaches ParseOp/Assemble with a non-empty input."
	h := &c09{c: c, reports: map[string]int{}, family: map[string]int{}}
	replaying := c.Replay != ""
	lines := c.CorpusLines()
	if replaying {
		lines = c.ReplayLines()
	}
	for _, l := range lines {
		h.line(l)
	}
	if replaying {
		return
	}
	r := c.Rng
	// -- exhaustive small programs
	h.opParse(nil)
	h.opDis(nil)
	for a := 0; a < 256; a++ {
		p := []byte{byte(a)}
		h.opParse(p)
		h.opDis(p)
		h.opRec(p)
	}
	for a := 0; a < 256; a++ {
		for b := 0; b < 256; b++ {
			if c.Tier == "quick" && (a*256+b)%4 != int(c.Seed)%4 {
				continue
			}
			p := []byte{byte(a), byte(b)}
			h.opParse(p)
			h.opDis(p)
		}
	}
	h.opExh(nil)
	if c.Tier == "quick" {
		for _, a := range []byte{0x00, 0x02, 0x4c, 0x4d, 0x4e, 0x51, 0x63, byte(r.Intn(256))} {
			h.opExh([]byte{a})
		}
	} else {
		for a := 0; a < 256; a++ {
			h.opExh([]byte{byte(a)})
		}
	}
	// -- pushes
	for n := 0; n <= 300; n++ {
		if n < 80 || n > 250 || c.Tier != "quick" || n%7 == 0 {
			h.opPush(h.rbytes(n))
		}
	}
	for _, n := range c09bigLens {
		h.opPushN(n, byte(r.Intn(256)))
	}
	for _, n := range []uint64{0, 1, 2, 15, 16, 17, 255, 256, 65535, 65536, 1 << 32, 1<<63 - 1, 1 << 63, 1<<64 - 1} {
		h.opPushU(n)
	}
	// -- builders and recognisers
	for _, k := range c09kinds {
		for n := 0; n <= 77; n++ {
			h.opBuild(k, h.rbytes(n))
		}
		for _, n := range c09lens {
			h.opBuild(k, h.rbytes(n))
		}
		for _, n := range c09bigLens {
			h.opBuildN(k, n, byte(1+r.Intn(255)))
		}
	}
	// -- jump-heavy programs: k distinct jump targets (label naming beyond the 26 words)
	jr := 2
	if c.Tier != "quick" {
		jr = 6
	}
	for i := 0; i < jr; i++ {
		h.jumpHeavy()
	}
	// -- alternative encodings of every standard program through every recogniser / converter
	rounds := 2
	if c.Tier != "quick" {
		rounds = 12
	}
	for i := 0; i < rounds; i++ {
		h.altEncodings()
	}
	// -- standard programs (C02 groundwork): multisig builders and the segwit conversions
	for n := 0; n <= 7; n++ {
		for m := -1; m <= n+1; m++ {
			h.opMultisig(m, -1, h.rbytes(32*n))
			h.opMultisig(m, int64(r.Intn(3)*r.Intn(100000)), h.rbytes(32*n))
		}
	}
	h.opMultisig(1, -1, h.rbytes(33)) // a 32-byte and a 1-byte "key"
	h.opMultisig(17, 1<<40, h.rbytes(32*17))
	for _, p := range [][]byte{nil, {0x00}, {0x51}, {0x00, 0x51}, {0x00, 0x4c}, {0x51, 0x01, 0xaa}, {0x00, 0x00, 0x6a}} {
		h.opConv("pkh", p)
		h.opConv("sh", p)
	}
	// -- tokens around the Scanner's 64 KiB limit, and a >= 32 KiB push through the disassembler
	for _, n := range []int{65533, 65534, 65535, 65536, 65537} {
		q := []byte("'" + strings.Repeat("q", n-2) + "'")
		h.opAsm(q)
		h.opAsm(append([]byte("ADD "), append(q, " ADD"...)...))
		w := []byte(strings.Repeat("7", n))
		h.opAsm(w)
		h.opAsm(append(w, ' '))
		if n%2 == 0 {
			h.opAsm([]byte("0x" + strings.Repeat("ab", (n-2)/2)))
		}
	}
	h.opAsm([]byte(strings.Repeat(" ", 70000) + "ADD"))
	h.opAsm([]byte("'" + strings.Repeat("a", 70000)))
	for _, n := range []int{32766, 32767, 32768} {
		h.opDis(vm.PushDataBytes(bytes.Repeat([]byte{0xab}, n)))
	}
	// -- generated
	for i := 0; i < c.N; i++ {
		switch i % 10 {
		case 0, 1:
			p := h.rbytes(r.Intn(40))
			if r.Intn(8) == 0 {
				p = h.rbytes(r.Intn(300))
			}
			h.opParse(p)
			h.opDis(p)
			if r.Intn(4) == 0 {
				h.opRec(p)
			}
		case 2, 3:
			p := h.genProgram(0)
			h.opParse(p)
			h.opDis(p)
		case 4, 5:
			p := h.genProgram(1)
			h.opParse(p)
			h.opDis(p)
		case 6, 7:
			h.opAsm(h.genText())
		case 8:
			h.opAsm(h.genRawText())
		default:
			// mutated builder output through the recognisers
			k := c09kinds[r.Intn(len(c09kinds))]
			n := []int{20, 32, 1, 4, 0, 33, 76}[r.Intn(7)]
			p, _ := c09build(k, h.rbytes(n))
			p = append([]byte{}, p...)
			switch r.Intn(4) {
			case 0:
				if len(p) > 0 {
					p[r.Intn(len(p))] ^= byte(1 << uint(r.Intn(8)))
				}
			case 1:
				p = p[:r.Intn(len(p)+1)]
			case 2:
				p = append(p, byte(r.Intn(256)))
			}
			h.opRec(p)
			c.Distinct("rec " + hx(p))
			if r.Intn(3) == 0 {
				h.opConv([]string{"pkh", "sh"}[r.Intn(2)], p)
			}
		}
	}
	for sig, n := range h.reports {
		if len(sig) < 60 {
			c.Extra["oracle-failures/"+sig] = n
		}
	}
}

func init() { register("c09", runC09) }
