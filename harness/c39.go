//go:build hc39 || hall

package main

import (
	"fmt"
	"reflect"
	"sort"
	"strconv"
	"strings"
	"sync"
	"sync/atomic"
	"time"

	"github.com/bytom/bytom/event"
)

// C39: event dispatcher.
//
// Sequential stream (model correspondence + direct oracle), one op per line:
//   reset <cap> | sub <t>* | post <t> <v> | postn <t> <v0> <n> | recv <id> | recvn <id> <n>
//   | unsub <id> | stop | closed <id> | dump
// Subscription ids are the allocation order of Subscribe calls (a failed Subscribe also
// consumes an id: the code leaves a ghost subscription registered, found through the hook).
// Direct oracle (no model): per subscriber, the events received are exactly the events of
// its types posted between its Subscribe and its Unsubscribe/Stop, in order, once each,
// except those posted while its channel was full; Post fails iff the dispatcher stopped;
// Unsubscribe/Stop return (watchdog).
// Concurrent stream (direct oracle only): several posters, draining readers, concurrent
// Unsubscribe/Stop; per-poster FIFO, exactly once, completeness for stable subscribers, no
// successful Post after Stop returned.

type c39T0 struct{ V int }
type c39T1 struct{ V int }
type c39T2 struct{ V int }
type c39T3 struct{ V int }
type c39T4 struct{ V int }
type c39T5 struct{ V int }

const c39NTypes = 8

func c39mk(t, v int) interface{} {
	switch t {
	case 0:
		return c39T0{v}
	case 1:
		return c39T1{v}
	case 2:
		return c39T2{v}
	case 3:
		return c39T3{v}
	case 4:
		return c39T4{v}
	case 5:
		return c39T5{v}
	case 6:
		return v
	default:
		return nil
	}
}

func c39un(x interface{}) (int, int) {
	switch e := x.(type) {
	case c39T0:
		return 0, e.V
	case c39T1:
		return 1, e.V
	case c39T2:
		return 2, e.V
	case c39T3:
		return 3, e.V
	case c39T4:
		return 4, e.V
	case c39T5:
		return 5, e.V
	case int:
		return 6, e
	case nil:
		return 7, 0
	}
	return -1, -1
}

type c39exp struct {
	t, v     int
	optional bool // posted while the channel was full: the property allows its loss
}

type c39sub struct {
	h       *event.Subscription
	ghost   bool
	types   map[int]bool
	active  bool
	pending int // events in the channel according to the oracle's own bookkeeping
	expect  []c39exp
}

type c39state struct {
	fails   [][2]string // oracle failures of the op being executed (flushed after c.Op)
	d       *event.Dispatcher
	cap     int
	subs    []*c39sub
	stopped bool
	caseTag string
}

func c39typeIndex() map[reflect.Type]int {
	m := map[reflect.Type]int{}
	for t := 0; t < c39NTypes; t++ {
		m[reflect.TypeOf(c39mk(t, 0))] = t
	}
	return m
}

func c39watch(f func()) bool {
	done := make(chan struct{})
	go func() { f(); close(done) }()
	select {
	case <-done:
		return true
	case <-time.After(10 * time.Second):
		return false
	}
}

func (st *c39state) fail(sig, detail string) { st.fails = append(st.fails, [2]string{sig, detail}) }

var c39reported = map[string]int{}

func (st *c39state) flush(c *Ctx) {
	for _, f := range st.fails {
		c.Count("oracle-fail/" + f[0])
		c39reported[f[0]]++
		if c39reported[f[0]] <= 20 { // `check` re-reads ops.txt once per FAIL line
			c.Fail(f[0], f[1])
		}
	}
	st.fails = nil
}

func (st *c39state) recvOne(c *Ctx, id int) string {
	s := st.subs[id]
	select {
	case ev, ok := <-s.h.Chan():
		if !ok {
			st.checkDrained(c, id, "chclosed")
			return "chclosed"
		}
		t, v := c39un(ev.Data)
		if s.pending > 0 {
			s.pending--
		}
		// oracle: must be the next non-optional expected event (optional ones may be skipped)
		if !s.ghost {
			matched := false
			for len(s.expect) > 0 {
				e := s.expect[0]
				s.expect = s.expect[1:]
				if e.t == t && e.v == v {
					matched = true
					break
				}
				if !e.optional {
					st.fail("recv:out-of-order-or-lost", fmt.Sprintf("%s sub %d received (%d,%d) while (%d,%d) was due", st.caseTag, id, t, v, e.t, e.v))
					matched = true
					break
				}
			}
			if !matched {
				st.fail("recv:unexpected-or-duplicate", fmt.Sprintf("%s sub %d received (%d,%d) which was never due", st.caseTag, id, t, v))
			}
		}
		return fmt.Sprintf("ev %d %d", t, v)
	default:
		st.checkDrained(c, id, "empty")
		return "empty"
	}
}

func (st *c39state) checkDrained(c *Ctx, id int, what string) {
	s := st.subs[id]
	if s.ghost {
		return
	}
	for _, e := range s.expect {
		if !e.optional {
			st.fail("recv:event-lost", fmt.Sprintf("%s sub %d channel %s but (%d,%d) was due", st.caseTag, id, what, e.t, e.v))
			break
		}
	}
	s.expect = nil
	if what == "chclosed" && s.active {
		st.fail("recv:closed-while-subscribed", fmt.Sprintf("%s sub %d", st.caseTag, id))
	}
}

func (st *c39state) postOne(c *Ctx, t, v int) bool {
	err := st.d.Post(c39mk(t, v))
	if (err != nil) != st.stopped {
		st.fail("post:stopped-mismatch", fmt.Sprintf("%s Post err=%v but stopped=%v", st.caseTag, err, st.stopped))
	}
	if err == nil {
		for _, s := range st.subs {
			if s != nil && s.active && s.types[t] {
				if s.pending < st.cap {
					s.expect = append(s.expect, c39exp{t, v, false})
					s.pending++
				} else {
					// posted while the channel was full: the property allows the loss, and a full Go
					// channel cannot take it anyway, so nothing is expected (recording it as an
					// "optional" entry made identical events — all nil events are (7,0) — ambiguous
					// and raised a false alarm in the first thorough run)
					c.Count("oracle/posted-while-full")
				}
			}
		}
	}
	return err == nil
}

func (st *c39state) dump(typeIdx map[reflect.Type]int) string {
	m, stopped := st.d.VerifSubm()
	ptr := map[*event.Subscription]int{}
	for i, s := range st.subs {
		if s != nil && s.h != nil {
			ptr[s.h] = i
		}
	}
	var ents []string
	var keys []int
	byT := map[int][]*event.Subscription{}
	for rt, l := range m {
		ti, ok := typeIdx[rt]
		if !ok {
			ti = 99
		}
		keys = append(keys, ti)
		byT[ti] = l
	}
	sort.Ints(keys)
	for _, k := range keys {
		var ids []string
		for _, p := range byT[k] {
			if id, ok := ptr[p]; ok {
				ids = append(ids, strconv.Itoa(id))
			} else {
				ids = append(ids, "?")
			}
		}
		ents = append(ents, fmt.Sprintf("%d:%s", k, strings.Join(ids, ",")))
	}
	var lens []string
	for i, s := range st.subs {
		if s == nil || s.h == nil {
			lens = append(lens, fmt.Sprintf("%d:?", i))
			continue
		}
		f := "o"
		if s.h.Closed() {
			f = "c"
		}
		lens = append(lens, fmt.Sprintf("%d:%d%s", i, len(s.h.Chan()), f))
	}
	b := 0
	if stopped {
		b = 1
	}
	return fmt.Sprintf("st=%d m=%s len=%s", b, strings.Join(ents, ";"), strings.Join(lens, ","))
}

func c39mix(h uint64, t, v int) uint64 {
	return (h*31 + uint64(t)*7 + uint64(v) + 1) % 4294967296
}

// exec runs one op line on the real dispatcher and returns the canonical result line.
func (st *c39state) exec(c *Ctx, line string, typeIdx map[reflect.Type]int) string {
	w := strings.Fields(line)
	if len(w) == 0 {
		return "bad-op"
	}
	num := func(i int) int {
		if i >= len(w) {
			return -1
		}
		n, err := strconv.Atoi(w[i])
		if err != nil {
			return -1
		}
		return n
	}
	okID := func(id int) bool { return id >= 0 && id < len(st.subs) && st.subs[id] != nil && st.subs[id].h != nil }
	c.Count("op/" + w[0])
	switch w[0] {
	case "reset":
		st.d = event.NewDispatcher()
		st.cap = num(1)
		st.subs = nil
		st.stopped = false
		return "reset"
	case "sub":
		var ts []int
		var args []interface{}
		for i := 1; i < len(w); i++ {
			ts = append(ts, num(i))
			args = append(args, c39mk(num(i), 0))
		}
		before, _ := st.d.VerifSubm()
		known := map[*event.Subscription]bool{}
		for _, l := range before {
			for _, p := range l {
				known[p] = true
			}
		}
		h, err := st.d.Subscribe(args...)
		s := &c39sub{h: h, types: map[int]bool{}}
		res := ""
		if err != nil {
			c.Count("sub/dup")
			// the code has left a ghost subscription registered: find it through the hook
			after, _ := st.d.VerifSubm()
			for _, l := range after {
				for _, p := range l {
					if !known[p] {
						s.h = p
					}
				}
			}
			s.ghost = true
			res = "dup"
		} else {
			res = fmt.Sprintf("sub %d", len(st.subs))
			if st.stopped {
				if !h.Closed() {
					st.fail("subscribe-after-stop:not-closed", st.caseTag)
				}
			} else {
				s.active = true
				for _, t := range ts {
					s.types[t] = true
				}
			}
		}
		if s.h != nil && st.cap != event.VerifMaxEventChSize && !st.stopped {
			if !s.h.VerifSetCap(st.cap) {
				panic("c39: VerifSetCap refused")
			}
		}
		st.subs = append(st.subs, s)
		return res
	case "post":
		if st.postOne(c, num(1), num(2)) {
			return "ok"
		}
		return "closed"
	case "postn":
		k := 0
		for i := 0; i < num(3); i++ {
			if st.postOne(c, num(1), num(2)+i) {
				k++
			}
		}
		return fmt.Sprintf("posted %d", k)
	case "recv":
		if !okID(num(1)) {
			return "bad-handle"
		}
		return st.recvOne(c, num(1))
	case "recvn":
		if !okID(num(1)) {
			return "bad-handle"
		}
		k, h := 0, uint64(0)
		for i := 0; i < num(2); i++ {
			r := st.recvOne(c, num(1))
			if !strings.HasPrefix(r, "ev ") {
				return fmt.Sprintf("got %d %d %s", k, h, r)
			}
			var t, v int
			fmt.Sscanf(r, "ev %d %d", &t, &v)
			k++
			h = c39mix(h, t, v)
		}
		return fmt.Sprintf("got %d %d more", k, h)
	case "unsub":
		id := num(1)
		if !okID(id) {
			return "bad-handle"
		}
		if !c39watch(st.subs[id].h.Unsubscribe) {
			st.fail("unsubscribe:blocked", st.caseTag)
		}
		st.subs[id].active = false
		if !st.subs[id].h.Closed() {
			st.fail("unsubscribe:not-closed", st.caseTag)
		}
		return "done"
	case "stop":
		if !c39watch(st.d.Stop) {
			st.fail("stop:blocked", st.caseTag)
		}
		st.stopped = true
		for _, s := range st.subs {
			if s != nil {
				s.active = false
			}
		}
		return "done"
	case "closed":
		if !okID(num(1)) {
			return "bad-handle"
		}
		if st.subs[num(1)].h.Closed() {
			return "true"
		}
		return "false"
	case "dump":
		return st.dump(typeIdx)
	}
	return "bad-op"
}

func c39genCase(c *Ctx) []string {
	caps := []int{1, 1, 2, 2, 3, 4, 8, 65536, 65536}
	cp := caps[c.Rng.Intn(len(caps))]
	lines := []string{fmt.Sprintf("reset %d", cp)}
	nsub := 0
	ntypes := 2 + c.Rng.Intn(3)
	if c.Rng.Intn(6) == 0 {
		ntypes = c39NTypes
	}
	v := 0
	n := 8 + c.Rng.Intn(50)
	stopped := false
	for i := 0; i < n; i++ {
		r := c.Rng.Intn(100)
		pick := func() int {
			if nsub == 0 {
				return 0
			}
			return c.Rng.Intn(nsub)
		}
		switch {
		case r < 16 || nsub == 0:
			k := c.Rng.Intn(4)
			var ts []string
			for j := 0; j < k; j++ {
				ts = append(ts, strconv.Itoa(c.Rng.Intn(ntypes)))
			}
			if k >= 1 && c.Rng.Intn(8) == 0 { // force a duplicate type
				ts = append(ts, ts[c.Rng.Intn(len(ts))])
			}
			lines = append(lines, strings.TrimSpace("sub "+strings.Join(ts, " ")))
			nsub++
		case r < 55:
			if t := c.Rng.Intn(ntypes); t == 7 { // the nil event carries no payload
				lines = append(lines, "post 7 0")
			} else {
				lines = append(lines, fmt.Sprintf("post %d %d", t, v))
			}
			v++
		case r < 60:
			k := 1 + c.Rng.Intn(2*minInt(cp, 10)+2)
			lines = append(lines, fmt.Sprintf("postn %d %d %d", c.Rng.Intn(minInt(ntypes, 7)), v, k))
			v += k
		case r < 76:
			lines = append(lines, fmt.Sprintf("recv %d", pick()))
		case r < 81:
			lines = append(lines, fmt.Sprintf("recvn %d %d", pick(), 1+c.Rng.Intn(12)))
		case r < 89:
			lines = append(lines, fmt.Sprintf("unsub %d", pick()))
		case r < 92:
			if !stopped || c.Rng.Intn(3) == 0 {
				lines = append(lines, "stop")
				stopped = true
			}
		case r < 96:
			lines = append(lines, fmt.Sprintf("closed %d", pick()))
		default:
			lines = append(lines, "dump")
		}
	}
	// drain everything at the end so that the oracle sees every delivered event
	lines = append(lines, "dump")
	for id := 0; id < nsub; id++ {
		lines = append(lines, fmt.Sprintf("recvn %d %d", id, 400))
	}
	return lines
}

func minInt(a, b int) int {
	if a < b {
		return a
	}
	return b
}

// ---- concurrent stream: direct oracle only ------------------------------------------------

type c39cev struct{ P, Seq, T int }
type c39cA struct{ E c39cev }
type c39cB struct{ E c39cev }
type c39cC struct{ E c39cev }

func c39cmk(e c39cev) interface{} {
	switch e.T {
	case 0:
		return c39cA{e}
	case 1:
		return c39cB{e}
	}
	return c39cC{e}
}

func c39cun(x interface{}) (c39cev, bool) {
	switch e := x.(type) {
	case c39cA:
		return e.E, e.E.T == 0
	case c39cB:
		return e.E, e.E.T == 1
	case c39cC:
		return e.E, e.E.T == 2
	}
	return c39cev{}, false
}

func c39concurrent(c *Ctx, round int) {
	rng := c.Rng
	d := event.NewDispatcher()
	nPosters := 2 + rng.Intn(4)
	perPoster := 200 + rng.Intn(1500)
	nStable := 1 + rng.Intn(3)
	nVolatile := rng.Intn(4)
	doStop := rng.Intn(2) == 0
	smallCap := 0
	if rng.Intn(3) == 0 {
		smallCap = 1 + rng.Intn(16)
	}
	tag := fmt.Sprintf("conc#%d(p=%d,n=%d,stable=%d,vol=%d,stop=%v,cap=%d)", round, nPosters, perPoster, nStable, nVolatile, doStop, smallCap)
	type rsub struct {
		h      *event.Subscription
		types  [3]bool
		got    []c39cev
		done   chan struct{}
		stable bool
	}
	var foreign int32
	mkSub := func(stable bool) *rsub {
		r := &rsub{done: make(chan struct{}), stable: stable}
		var args []interface{}
		for t := 0; t < 3; t++ {
			if rng.Intn(2) == 0 || (t == 2 && len(args) == 0) {
				r.types[t] = true
				args = append(args, c39cmk(c39cev{T: t}))
			}
		}
		h, err := d.Subscribe(args...)
		if err != nil {
			panic(err)
		}
		if smallCap > 0 && !stable {
			h.VerifSetCap(smallCap)
		}
		r.h = h
		go func() {
			for ev := range h.Chan() {
				e, ok := c39cun(ev.Data)
				if !ok {
					atomic.AddInt32(&foreign, 1)
					continue
				}
				r.got = append(r.got, e)
			}
			close(r.done)
		}()
		return r
	}
	var subs []*rsub
	for i := 0; i < nStable; i++ {
		subs = append(subs, mkSub(true))
	}
	for i := 0; i < nVolatile; i++ {
		subs = append(subs, mkSub(false))
	}
	var stopReturned int32
	okPosts := make([][]c39cev, nPosters) // events whose Post returned nil
	var lateOK int32
	types := make([][]int, nPosters)
	for p := range types {
		types[p] = make([]int, perPoster)
		for i := range types[p] {
			types[p][i] = rng.Intn(3)
		}
	}
	var wg sync.WaitGroup
	for p := 0; p < nPosters; p++ {
		wg.Add(1)
		go func(p int) {
			defer wg.Done()
			for i := 0; i < perPoster; i++ {
				e := c39cev{P: p, Seq: i, T: types[p][i]}
				after := atomic.LoadInt32(&stopReturned) == 1
				err := d.Post(c39cmk(e))
				if err == nil {
					okPosts[p] = append(okPosts[p], e)
					if after {
						atomic.AddInt32(&lateOK, 1)
					}
				}
			}
		}(p)
	}
	// concurrently unsubscribe the volatile subscribers (must never block)
	blocked := false
	for _, r := range subs {
		if !r.stable {
			time.Sleep(time.Duration(rng.Intn(300)) * time.Microsecond)
			if !c39watch(r.h.Unsubscribe) {
				blocked = true
			}
		}
	}
	if blocked {
		c.Fail("conc:unsubscribe-blocked", tag)
	}
	stoppedEarly := false
	if doStop && rng.Intn(2) == 0 {
		// stop while posters are still running
		time.Sleep(time.Duration(rng.Intn(500)) * time.Microsecond)
		if !c39watch(d.Stop) {
			c.Fail("conc:stop-blocked", tag)
		}
		atomic.StoreInt32(&stopReturned, 1)
		stoppedEarly = true
	}
	wg.Wait()
	if !stoppedEarly {
		for _, r := range subs {
			if r.stable {
				if !c39watch(r.h.Unsubscribe) {
					c.Fail("conc:unsubscribe-blocked", tag)
				}
			}
		}
		if doStop {
			d.Stop()
			atomic.StoreInt32(&stopReturned, 1)
		}
	}
	if atomic.LoadInt32(&stopReturned) == 1 {
		if err := d.Post(c39cmk(c39cev{T: 0})); err == nil {
			c.Fail("conc:post-after-stop-succeeded", tag)
		}
	}
	if atomic.LoadInt32(&foreign) > 0 {
		c.Fail("conc:foreign-event", tag)
	}
	if lateOK > 0 {
		c.Fail("conc:post-after-stop-succeeded", fmt.Sprintf("%s %d posts started after Stop returned and succeeded", tag, lateOK))
	}
	for si, r := range subs {
		select {
		case <-r.done:
		case <-time.After(10 * time.Second):
			c.Fail("conc:channel-not-closed", tag)
			continue
		}
		last := make([]int, nPosters)
		for i := range last {
			last[i] = -1
		}
		cnt := make([]int, nPosters)
		for _, e := range r.got {
			if !r.types[e.T] {
				c.Fail("conc:wrong-type-delivered", fmt.Sprintf("%s sub %d", tag, si))
			}
			if e.Seq <= last[e.P] {
				c.Fail("conc:per-poster-order-or-duplicate", fmt.Sprintf("%s sub %d poster %d seq %d after %d", tag, si, e.P, e.Seq, last[e.P]))
			}
			last[e.P] = e.Seq
			cnt[e.P]++
		}
		if r.stable && !stoppedEarly {
			// subscribed before every post started, unsubscribed after every post returned,
			// reader drains and total < 65536: every successfully posted event of its types is due
			for p := 0; p < nPosters; p++ {
				want := 0
				for _, e := range okPosts[p] {
					if r.types[e.T] {
						want++
					}
				}
				if cnt[p] != want {
					c.Fail("conc:stable-subscriber-missed-events", fmt.Sprintf("%s sub %d poster %d got %d want %d", tag, si, p, cnt[p], want))
				}
			}
		}
	}
	c.Count("conc/rounds")
	if stoppedEarly {
		c.Count("conc/stopped-while-posting")
	}
	if smallCap > 0 {
		c.Count("conc/small-cap")
	}
}

// Stop racing with Unsubscribe of still-open subscriptions, with Post and with Subscribe: many
// small rounds, every call of the implementation in its own goroutine under a watchdog. The
// first call that does not return ends the share (the blocked goroutines are left behind; a
// dispatcher whose locks are deadlocked cannot be cleaned up).
func c39stopRace(c *Ctx, rounds int) {
	type call struct {
		name string
		f    func()
		done chan struct{}
	}
	for r := 0; r < rounds; r++ {
		d := event.NewDispatcher()
		nsubs := 1 + c.Rng.Intn(5)
		var subs []*event.Subscription
		for i := 0; i < nsubs; i++ {
			var args []interface{}
			for t := 0; t < 3; t++ {
				if c.Rng.Intn(2) == 0 || (t == 2 && len(args) == 0) {
					args = append(args, c39cmk(c39cev{T: t}))
				}
			}
			h, err := d.Subscribe(args...)
			if err != nil {
				panic(err)
			}
			subs = append(subs, h)
		}
		// a few events in the buffers, nobody reads
		for i := 0; i < c.Rng.Intn(4); i++ {
			d.Post(c39cmk(c39cev{P: 9, Seq: i, T: c.Rng.Intn(3)}))
		}
		var calls []*call
		add := func(name string, f func()) { calls = append(calls, &call{name: name, f: f, done: make(chan struct{})}) }
		nStops := 1 + c.Rng.Intn(2)
		for i := 0; i < nStops; i++ {
			add("Stop", d.Stop)
		}
		for i, h := range subs {
			h := h
			add(fmt.Sprintf("Unsubscribe(sub %d)", i), h.Unsubscribe)
			if c.Rng.Intn(3) == 0 {
				add(fmt.Sprintf("Unsubscribe(sub %d) again", i), h.Unsubscribe)
			}
		}
		for i := 0; i < c.Rng.Intn(4); i++ {
			e := c39cev{P: 8, Seq: i, T: c.Rng.Intn(3)}
			add("Post", func() { d.Post(c39cmk(e)) })
		}
		if c.Rng.Intn(2) == 0 {
			add("Subscribe", func() {
				if h, err := d.Subscribe(c39cmk(c39cev{T: 0})); err == nil && h != nil {
					h.Unsubscribe()
				}
			})
		}
		c.Rng.Shuffle(len(calls), func(i, j int) { calls[i], calls[j] = calls[j], calls[i] })
		start := make(chan struct{})
		for _, cl := range calls {
			cl := cl
			go func() { <-start; cl.f(); close(cl.done) }()
		}
		close(start)
		deadline := time.After(3 * time.Second)
		var hung []string
		for _, cl := range calls {
			select {
			case <-cl.done:
			case <-deadline:
				// the deadline channel fires once: collect every call that is still out
				for _, o := range calls {
					select {
					case <-o.done:
					default:
						hung = append(hung, o.name)
					}
				}
			}
			if hung != nil {
				break
			}
		}
		c.Count("stoprace/rounds")
		if hung != nil {
			var all []string
			for _, cl := range calls {
				all = append(all, cl.name)
			}
			which := map[string]bool{}
			for _, h := range hung {
				which[strings.Fields(strings.Split(h, "(")[0])[0]] = true
			}
			var ws []string
			for w := range which {
				ws = append(ws, w)
			}
			sort.Strings(ws)
			c.Fail("call-does-not-return:"+strings.Join(ws, "+"), fmt.Sprintf("stop-race round %d: dispatcher with %d open subscriptions; started concurrently: [%s]; after 3 s still blocked: [%s] (every later Post / Subscribe / Unsubscribe on this dispatcher hangs too)", r, nsubs, strings.Join(all, ", "), strings.Join(hung, ", ")))
			c.Count("stoprace/hung")
			return // abandon the share on the first hang
		}
		// all returned: the dispatcher is stopped, every subscription closed, Post fails
		if err := d.Post(c39cmk(c39cev{T: 0})); err == nil {
			c.Fail("conc:post-after-stop-succeeded", fmt.Sprintf("stop-race round %d", r))
		}
		for i, h := range subs {
			if !h.Closed() {
				c.Fail("stoprace:subscription-not-closed", fmt.Sprintf("stop-race round %d sub %d", r, i))
			}
		}
	}
}

// the real capacity, on the implementation alone: 65536 fit, the next ones are dropped,
// after reading k events k more fit.
func c39fullReal(c *Ctx) {
	st := &c39state{caseTag: "full-real"}
	ti := c39typeIndex()
	run := func(l string) string { r := st.exec(c, l, ti); st.flush(c); return r }
	run("reset 65536")
	run("sub 0")
	run("sub 0 1")
	if r := run("postn 0 0 65600"); r != "posted 65600" {
		c.Fail("full-real:post", r)
	}
	run("recvn 0 100")
	run("postn 0 70000 150")
	r0 := run("recvn 0 70000")
	run("post 1 5")
	r1 := run("recvn 1 70000")
	c.Extra["full_real"] = []string{r0, r1}
	if !strings.HasPrefix(r0, "got 65536 ") || !strings.HasPrefix(r1, "got 65536 ") {
		c.Fail("full-real:count", r0+" / "+r1)
	}
	c.Count("full-real/cases")
}

func runC39(c *Ctx) {
	c.Rule = "sequential dispatcher histories (reset; 8–57 random ops among subscribe with 0–3 types incl. forced duplicates, post, bulk post, non-blocking receive, bulk receive, unsubscribe, stop, Closed, state dump; channel capacity 1,2,3,4,8 through the hook or the real 65536; final drain of every subscription) compared line by line with the Lean model and checked by the per-subscriber oracle; a case is distinct by its op lines; plus concurrent rounds (2–5 posters × 200–1700 events, stable and volatile subscribers, concurrent Unsubscribe/Stop) and a real-capacity overflow case, both checked by the direct oracle only"
	ti := c39typeIndex()
	st := &c39state{}
	runLines := func(lines []string, tag string) {
		for _, l := range lines {
			if strings.HasPrefix(l, "reset") {
				st = &c39state{}
			}
			if st.d == nil && !strings.HasPrefix(l, "reset") {
				st.exec(c, "reset 65536", ti)
			}
			st.caseTag = tag
			c.Op(l, st.exec(c, l, ti))
			st.flush(c)
		}
	}
	if c.Replay != "" {
		runLines(c.ReplayLines(), "replay")
		return
	}
	runLines(c.CorpusLines(), "corpus")
	for i := 0; i < c.N; i++ {
		lines := c39genCase(c)
		c.Distinct(strings.Join(lines, "|"))
		runLines(lines, fmt.Sprintf("case#%d", i))
	}
	rounds := 6
	if c.Tier == "thorough" {
		rounds = 60
	}
	for i := 0; i < rounds; i++ {
		c39concurrent(c, i)
	}
	stopRounds := 1500
	if c.Tier == "thorough" {
		stopRounds = 20000
	}
	c39stopRace(c, stopRounds)
	c39fullReal(c)
}

func init() { register("c39", runC39) }
