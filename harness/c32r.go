//go:build hc32 || hall

package main

import (
	"bytes"
	"encoding/hex"
	"fmt"
	"math/big"
	"strconv"
	"strings"

	"github.com/bytom/bytom/p2p/connection"
)

// C32, frame level: nonce progression and whole-frame replay.
//
//	inc2 <nonce>            the real incr2Nonce (hook VerifIncr2Nonce) on one 24-byte nonce.
//	                        Direct oracle: the result is nonce + 2 modulo 2^192, big-endian
//	                        (math/big) — in particular every carry out of the low byte is taken.
//	replay <side> <k> <j>   the k-th sealed frame waiting in side's inbox is replaced by the j-th
//	                        sealed frame ever delivered to that side. Direct oracle: the Read that
//	                        takes the replaced frame returns an error and no data (a frame sealed
//	                        under an earlier nonce must never open under the current one).
//
// Long streams: 130…600 frames in one direction (1–3 byte writes, so one frame each, drained
// as they come), a replay of frame K−128, K−256, K−2 or a random earlier frame at a random
// point past frame 128.

func c32record(peer *c32side, sealed []byte) {
	fs := connection.VerifSealedFrameSize
	for len(sealed) >= fs {
		peer.hist = append(peer.hist, append([]byte(nil), sealed[:fs]...))
		sealed = sealed[fs:]
	}
}

func c32inc2(line string, w []string) (string, string, []c32fail) {
	if len(w) != 2 {
		return line, "bad-op", nil
	}
	b, err := hex.DecodeString(w[1])
	if err != nil || len(b) != 24 {
		return line, "bad-op", nil
	}
	var n [24]byte
	copy(n[:], b)
	got := connection.VerifIncr2Nonce(n)
	want := new(big.Int).Add(new(big.Int).SetBytes(b), big.NewInt(2))
	want.Mod(want, new(big.Int).Lsh(big.NewInt(1), 192))
	wb := want.FillBytes(make([]byte, 24))
	var fails []c32fail
	if !bytes.Equal(got[:], wb) {
		fails = append(fails, c32fail{"incr2Nonce:not-plus-2: " + line, fmt.Sprintf("incr2Nonce(%s) = %s, nonce+2 mod 2^192 = %s (a carry is lost: the nonce sequence of this direction repeats)", w[1], hex.EncodeToString(got[:]), hex.EncodeToString(wb))})
	}
	return line, hex.EncodeToString(got[:]), fails
}

func c32replay(st *c32state, line string, w []string) (string, string, []c32fail) {
	if len(w) != 4 {
		return line, "bad-op", nil
	}
	me, _ := st.side(w[1])
	k, e1 := strconv.Atoi(w[2])
	j, e2 := strconv.Atoi(w[3])
	fs := connection.VerifSealedFrameSize
	me.conn.in.mu.Lock()
	defer me.conn.in.mu.Unlock()
	if e1 != nil || e2 != nil || k < 0 || j < 0 || j >= len(me.hist) || (k+1)*fs > len(me.conn.in.buf) {
		return line, "bad-op", nil
	}
	if !bytes.Equal(me.conn.in.buf[k*fs:(k+1)*fs], me.hist[j]) {
		copy(me.conn.in.buf[k*fs:(k+1)*fs], me.hist[j])
		st.corrupt[w[1]] = true
		if me.replayAt < 0 {
			me.replayAt, me.replayJ = me.taken+k, j
		}
	}
	return line, "ok", nil
}

// c32replayCheck runs after every Read: counts the frames taken from the inbox and judges the
// Read that took a replaced frame.
func c32replayCheck(st *c32state, me *c32side, side string, avail, avail1, n int, rerr error, buf []byte) *c32fail {
	took := (avail - avail1) / connection.VerifSealedFrameSize
	first := me.taken
	me.taken += took
	if me.replayAt < 0 || took == 0 || me.replayAt < first || me.replayAt >= me.taken {
		return nil
	}
	at, j := me.replayAt, me.replayJ
	me.replayAt = -1
	if rerr == nil {
		return &c32fail{fmt.Sprintf("read:replayed-frame-accepted: frame %d of the stream to %s replaced by recorded frame %d", at, side, j),
			fmt.Sprintf("%s sealed frame #%d in the inbox of %s was replaced by the earlier sealed frame #%d of the same direction; Read returned n=%d err=nil data %s… instead of an error (both frames were sealed under the same nonce: the nonce of this direction repeats after %d frames)", st.tag, at, side, j, n, c32hex(buf[:minInt32(n, 8)]), at-j)}
	}
	return nil
}

func c32nonceGrid(c *Ctx, emit func([]c32fail)) {
	run := func(n []byte) {
		op, res, fs := c32inc2("inc2 "+hex.EncodeToString(n), []string{"inc2", hex.EncodeToString(n)})
		c.Op(op, res)
		emit(fs)
		c.Count("inc2")
	}
	// low bytes around the wrap, for every length of the 0xff run above it
	for _, low := range []byte{0x00, 0x01, 0x7f, 0x80, 0xfc, 0xfd, 0xfe, 0xff} {
		for run255 := 0; run255 <= 23; run255++ {
			n := make([]byte, 24)
			c.Rng.Read(n)
			if run255 < 23 && n[22-run255] == 0xff {
				n[22-run255] = 0x3c
			}
			for i := 0; i < run255; i++ {
				n[22-i] = 0xff
			}
			n[23] = low
			run(n)
		}
	}
	for i := 0; i < 200; i++ {
		n := make([]byte, 24)
		c.Rng.Read(n)
		run(n)
	}
}

func c32longCase(c *Ctx, st *c32state, emit func([]c32fail)) {
	do := func(l string) string {
		op, res, fs := st.exec(c, l)
		c.Op(op, res)
		emit(fs)
		return res
	}
	if do("reset * *") != "reset" || st.dead {
		return
	}
	c.Count("case/long-stream")
	// the direction: mostly the one whose nonces are odd (the low byte never passes through 0)
	_, as := st.a.sc.VerifNonces()
	from, to := "A", "B"
	if (as[23]&1 == 1) != (c.Rng.Intn(4) != 0) {
		from, to = "B", "A"
	}
	total := 130 + c.Rng.Intn(171)
	if c.Rng.Intn(4) == 0 {
		total = 300 + c.Rng.Intn(301)
	}
	replayAt := 128 + c.Rng.Intn(total-129)
	me, _ := st.side(to)
	written := 0
	for written < total && !st.dead {
		burst := 1 + c.Rng.Intn(4)
		for b := 0; b < burst && written < total; b++ {
			d := make([]byte, 1+c.Rng.Intn(3))
			c.Rng.Read(d)
			do(fmt.Sprintf("w %s %s", from, c32hex(d)))
			written++
		}
		if me.replayAt < 0 && me.taken <= replayAt && replayAt < written && replayAt >= 0 {
			k := replayAt - me.taken
			var j int
			switch c.Rng.Intn(5) {
			case 0, 1:
				j = replayAt - 128
			case 2:
				if j = replayAt - 256; j < 0 {
					j = replayAt - 128
				}
			case 3:
				j = replayAt - 2
			default:
				j = c.Rng.Intn(replayAt)
			}
			do(fmt.Sprintf("replay %s %d %d", to, k, j))
			c.Count(fmt.Sprintf("replay/distance-%s", map[bool]string{true: "multiple-of-128", false: "other"}[(replayAt-j)%128 == 0]))
			replayAt = -1
		}
		for st.readable(to) && !st.dead {
			res := do(fmt.Sprintf("r %s %d", to, 1024+c.Rng.Intn(8)))
			if strings.Contains(res, "err=decrypt") || strings.Contains(res, "err=EOF") {
				return
			}
		}
	}
}
