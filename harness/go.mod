module verifharness

go 1.16

replace (
	github.com/bytom/bytom => /repo
	github.com/tendermint/ed25519 => /repo/lib/github.com/tendermint/ed25519
	github.com/tendermint/go-wire => github.com/tendermint/go-amino v0.6.2
	github.com/zondax/ledger-goclient => github.com/Zondax/ledger-cosmos-go v0.1.0
	golang.org/x/crypto => /repo/lib/golang.org/x/crypto
	golang.org/x/net => /repo/lib/golang.org/x/net
	gonum.org/v1/gonum/mat => github.com/gonum/gonum/mat v0.9.1
)

require (
	github.com/bytom/bytom v0.0.0
	github.com/golang/protobuf v1.4.3
	github.com/pborman/uuid v1.2.1
	github.com/sirupsen/logrus v1.8.1
	github.com/tendermint/go-wire v0.16.0
	github.com/tendermint/tmlibs v0.9.0
	golang.org/x/crypto v0.0.0-20210322153248-0c34fe9e7dc2
)
