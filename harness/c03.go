//go:build hc03 || hall

package main

import (
	"fmt"
	"math/bits"
	"strings"

	"golang.org/x/crypto/sha3"

	"github.com/bytom/bytom/protocol/bc"
	"github.com/bytom/bytom/protocol/bc/types"
	"github.com/bytom/bytom/protocol/vm/vmutil"
)

// C03: transaction and block identity commit to all consensus content.
//   op line:   tx <hex text> | hdr <hex text>
//   impl line: id=<tx id> in=[input ids] mux=<mux id> res=[result ids] sig=[sighashes]   |  hash=<block hash>
//              (computed by the real MapTx / EntryID / SigHash / BlockHeader.Hash)
// Direct oracle (implementation alone): every single-field mutation of a consensus field changes
// the id, every mutation of a witness-only field leaves it unchanged; same for block headers;
// the transactions merkle root changes with any tx id or tx order.

const (
	sigNoOutputs  = "txid-ignores-inputs-when-no-outputs"
	sigRetirement = "retirement-output-fields-not-in-txid"
)

func init() { register("c03", runC03) }

func hashList(l []bc.Hash) string {
	s := make([]string, len(l))
	for i := range l {
		s[i] = hxHash(l[i])
	}
	return "[" + strings.Join(s, ",") + "]"
}

func c03TxLine(text []byte) (line string, tx *types.Tx) {
	defer func() {
		if r := recover(); r != nil {
			line, tx = "panic", nil
		}
	}()
	tx = &types.Tx{}
	if err := tx.UnmarshalText(text); err != nil {
		return "err", nil
	}
	var muxID bc.Hash
	for id, e := range tx.Entries {
		if _, ok := e.(*bc.Mux); ok {
			muxID = id
		}
	}
	res := make([]bc.Hash, len(tx.ResultIds))
	for i, r := range tx.ResultIds {
		res[i] = *r
	}
	sig := make([]bc.Hash, len(tx.InputIDs))
	for i := range tx.InputIDs {
		sig[i] = tx.SigHash(uint32(i))
	}
	return fmt.Sprintf("id=%s in=%s mux=%s res=%s sig=%s", hxHash(tx.ID), hashList(tx.InputIDs), hxHash(muxID), hashList(res), hashList(sig)), tx
}

func c03HdrLine(text []byte) string {
	h := &types.BlockHeader{}
	if err := h.UnmarshalText(text); err != nil {
		return "err"
	}
	return "hash=" + hxHash(h.Hash())
}

func cloneTx(text []byte) *types.TxData {
	t := &types.TxData{}
	if err := t.UnmarshalText(text); err != nil {
		panic(err)
	}
	return t
}

func txIDOf(t *types.TxData) bc.Hash { return types.NewTx(*t).ID }

func flipHash(h *bc.Hash)     { h.V2 ^= 1 << 17 }
func flipAsset(a *bc.AssetID) { a.V1 ^= 1 << 5 }
func bump(b []byte) []byte    { return append(append([]byte{}, b...), 0x01) }
func bumpList(l [][]byte) [][]byte {
	return append(append([][]byte{}, l...), []byte{0x07})
}

type c03mut struct {
	name      string
	consensus bool
	apply     func(t *types.TxData) bool // false: not applicable
	// class of a known exception this mutation may fall into
	inputSide  bool
	outputTail bool // program tail / state / vote / vm version of output `out`
	out        int
}

func spendCommitmentOf(in *types.TxInput) *types.SpendCommitment {
	switch ti := in.TypedInput.(type) {
	case *types.SpendInput:
		return &ti.SpendCommitment
	case *types.VetoInput:
		return &ti.SpendCommitment
	}
	return nil
}

func c03Mutations(t *types.TxData, c *Ctx) []c03mut {
	m := []c03mut{
		{name: "tx.version", consensus: true, apply: func(t *types.TxData) bool { t.Version++; return true }},
		{name: "tx.timerange", consensus: true, apply: func(t *types.TxData) bool { t.TimeRange++; return true }},
		{name: "tx.serializedsize", consensus: false, apply: func(t *types.TxData) bool { t.SerializedSize += 7; return true }},
	}
	if n := len(t.Inputs); n > 0 {
		i := c.Rng.Intn(n)
		in := func(t *types.TxData) *types.TxInput { return t.Inputs[i] }
		sc := func(f func(*types.SpendCommitment)) func(t *types.TxData) bool {
			return func(t *types.TxData) bool {
				s := spendCommitmentOf(in(t))
				if s == nil {
					return false
				}
				f(s)
				return true
			}
		}
		iss := func(f func(*types.IssuanceInput)) func(t *types.TxData) bool {
			return func(t *types.TxData) bool {
				ii, ok := in(t).TypedInput.(*types.IssuanceInput)
				if !ok {
					return false
				}
				// the cached asset id of a decoded issuance must be recomputed, as the
				// constructor does for a fresh value
				fresh := *types.NewIssuanceInput(ii.Nonce, ii.Amount, ii.IssuanceProgram, ii.Arguments, ii.AssetDefinition)
				fi := fresh.TypedInput.(*types.IssuanceInput)
				fi.VMVersion = ii.VMVersion
				f(fi)
				in(t).TypedInput = fi
				return true
			}
		}
		m = append(m,
			c03mut{name: "in.sourceid", consensus: true, inputSide: true, apply: sc(func(s *types.SpendCommitment) { flipHash(&s.SourceID) })},
			c03mut{name: "in.assetid", consensus: true, inputSide: true, apply: sc(func(s *types.SpendCommitment) { a := *s.AssetId; flipAsset(&a); s.AssetId = &a })},
			c03mut{name: "in.amount", consensus: true, inputSide: true, apply: sc(func(s *types.SpendCommitment) { s.Amount++ })},
			c03mut{name: "in.sourcepos", consensus: true, inputSide: true, apply: sc(func(s *types.SpendCommitment) { s.SourcePosition++ })},
			c03mut{name: "in.vmversion", consensus: true, inputSide: true, apply: sc(func(s *types.SpendCommitment) { s.VMVersion++ })},
			c03mut{name: "in.program", consensus: true, inputSide: true, apply: sc(func(s *types.SpendCommitment) { s.ControlProgram = bump(s.ControlProgram) })},
			c03mut{name: "in.statedata", consensus: true, inputSide: true, apply: sc(func(s *types.SpendCommitment) { s.StateData = bumpList(s.StateData) })},
			c03mut{name: "in.vote", consensus: true, inputSide: true, apply: func(t *types.TxData) bool {
				v, ok := in(t).TypedInput.(*types.VetoInput)
				if ok {
					v.Vote = bump(v.Vote)
				}
				return ok
			}},
			c03mut{name: "in.iss.nonce", consensus: true, inputSide: true, apply: iss(func(ii *types.IssuanceInput) { ii.Nonce = bump(ii.Nonce) })},
			c03mut{name: "in.iss.amount", consensus: true, inputSide: true, apply: iss(func(ii *types.IssuanceInput) { ii.Amount++ })},
			c03mut{name: "in.iss.assetdef", consensus: true, inputSide: true, apply: iss(func(ii *types.IssuanceInput) { ii.AssetDefinition = bump(ii.AssetDefinition) })},
			c03mut{name: "in.iss.vmversion", consensus: true, inputSide: true, apply: iss(func(ii *types.IssuanceInput) { ii.VMVersion++ })},
			c03mut{name: "in.iss.program", consensus: true, inputSide: true, apply: iss(func(ii *types.IssuanceInput) { ii.IssuanceProgram = bump(ii.IssuanceProgram) })},
			c03mut{name: "in.coinbase.arbitrary", consensus: true, inputSide: true, apply: func(t *types.TxData) bool {
				cb, ok := in(t).TypedInput.(*types.CoinbaseInput)
				if ok {
					cb.Arbitrary = bump(cb.Arbitrary)
				}
				return ok
			}},
			c03mut{name: "in.arguments", consensus: false, apply: func(t *types.TxData) bool {
				if _, ok := in(t).TypedInput.(*types.CoinbaseInput); ok {
					return false
				}
				in(t).SetArguments(bumpList(in(t).Arguments()))
				return true
			}},
			c03mut{name: "in.commitmentsuffix", consensus: false, apply: func(t *types.TxData) bool { in(t).CommitmentSuffix = bump(in(t).CommitmentSuffix); return true }},
			c03mut{name: "in.witnesssuffix", consensus: false, apply: func(t *types.TxData) bool { in(t).WitnessSuffix = bump(in(t).WitnessSuffix); return true }},
			c03mut{name: "in.sc-suffix", consensus: false, apply: func(t *types.TxData) bool {
				switch ti := in(t).TypedInput.(type) {
				case *types.SpendInput:
					ti.SpendCommitmentSuffix = bump(ti.SpendCommitmentSuffix)
					return true
				case *types.VetoInput:
					ti.VetoCommitmentSuffix = bump(ti.VetoCommitmentSuffix)
					return true
				}
				return false
			}},
		)
		if n > 1 {
			j := (i + 1 + c.Rng.Intn(n-1)) % n
			m = append(m, c03mut{name: "in.order", consensus: true, inputSide: true, apply: func(t *types.TxData) bool {
				if dInput(t.Inputs[i]) == dInput(t.Inputs[j]) {
					return false
				}
				// witness-only differences do not count as a different order
				a, b := *t.Inputs[i], *t.Inputs[j]
				t.Inputs[i], t.Inputs[j] = t.Inputs[j], t.Inputs[i]
				ia, ib := types.NewTx(types.TxData{Version: 1, Inputs: []*types.TxInput{&a}}).InputIDs[0], types.NewTx(types.TxData{Version: 1, Inputs: []*types.TxInput{&b}}).InputIDs[0]
				if ia == ib && a.Amount() == b.Amount() && a.AssetID() == b.AssetID() {
					return false
				}
				_, cbA := a.TypedInput.(*types.CoinbaseInput)
				_, cbB := b.TypedInput.(*types.CoinbaseInput)
				return !(ia == ib && cbA && cbB)
			}})
		}
		m = append(m, c03mut{name: "in.drop", consensus: true, inputSide: true, apply: func(t *types.TxData) bool {
			t.Inputs = append(append([]*types.TxInput{}, t.Inputs[:i]...), t.Inputs[i+1:]...)
			return true
		}})
	}
	if n := len(t.Outputs); n > 0 {
		k := c.Rng.Intn(n)
		out := func(t *types.TxData) *types.TxOutput { return t.Outputs[k] }
		m = append(m,
			c03mut{name: "out.assetid", consensus: true, apply: func(t *types.TxData) bool {
				if out(t).AssetId == nil {
					return false
				}
				a := *out(t).AssetId
				flipAsset(&a)
				out(t).AssetId = &a
				return true
			}},
			c03mut{name: "out.amount", consensus: true, apply: func(t *types.TxData) bool { out(t).Amount++; return true }},
			c03mut{name: "out.vmversion", consensus: true, outputTail: true, out: k, apply: func(t *types.TxData) bool { out(t).VMVersion++; return true }},
			c03mut{name: "out.program", consensus: true, outputTail: true, out: k, apply: func(t *types.TxData) bool { out(t).ControlProgram = bump(out(t).ControlProgram); return true }},
			c03mut{name: "out.statedata", consensus: true, outputTail: true, out: k, apply: func(t *types.TxData) bool { out(t).StateData = bumpList(out(t).StateData); return true }},
			c03mut{name: "out.vote", consensus: true, outputTail: true, out: k, apply: func(t *types.TxData) bool {
				v, ok := out(t).TypedOutput.(*types.VoteOutput)
				if ok {
					out(t).TypedOutput = &types.VoteOutput{Vote: bump(v.Vote)}
				}
				return ok
			}},
			c03mut{name: "out.kind", consensus: true, outputTail: true, out: k, apply: func(t *types.TxData) bool {
				o := out(t)
				if v, ok := o.TypedOutput.(*types.VoteOutput); ok {
					if len(v.Vote) != 0 {
						return false
					}
					no := types.NewOriginalTxOutput(*o.AssetId, o.Amount, o.ControlProgram, o.StateData)
					no.VMVersion, no.CommitmentSuffix = o.VMVersion, o.CommitmentSuffix
					t.Outputs[k] = no
				} else {
					no := types.NewVoteOutput(*o.AssetId, o.Amount, o.ControlProgram, nil, o.StateData)
					no.VMVersion, no.CommitmentSuffix = o.VMVersion, o.CommitmentSuffix
					t.Outputs[k] = no
				}
				return true
			}},
			c03mut{name: "out.commitmentsuffix", consensus: false, apply: func(t *types.TxData) bool { out(t).CommitmentSuffix = bump(out(t).CommitmentSuffix); return true }},
			c03mut{name: "out.drop", consensus: true, apply: func(t *types.TxData) bool {
				t.Outputs = append(append([]*types.TxOutput{}, t.Outputs[:k]...), t.Outputs[k+1:]...)
				return true
			}},
			c03mut{name: "out.duplicate", consensus: true, apply: func(t *types.TxData) bool {
				t.Outputs = append(t.Outputs, t.Outputs[k])
				return true
			}},
		)
		if n > 1 {
			j := (k + 1 + c.Rng.Intn(n-1)) % n
			m = append(m, c03mut{name: "out.order", consensus: true, apply: func(t *types.TxData) bool {
				a, b := t.Outputs[k], t.Outputs[j]
				// only consensus-visible differences make the swap a different order
				if a.AssetId == nil || b.AssetId == nil {
					return false
				}
				same := *a.AssetId == *b.AssetId && a.Amount == b.Amount
				ra, rb := vmutil.IsUnspendable(a.ControlProgram), vmutil.IsUnspendable(b.ControlProgram)
				if ra != rb {
					same = false
				}
				if !ra && !rb {
					ca, cb := *a, *b
					ca.CommitmentSuffix, cb.CommitmentSuffix = nil, nil
					ca.AssetVersion, cb.AssetVersion = 1, 1
					if dOutput(&ca) != dOutput(&cb) {
						same = false
					}
				}
				if same {
					return false
				}
				t.Outputs[k], t.Outputs[j] = b, a
				return true
			}})
		}
	}
	return m
}

func c03OracleTx(c *Ctx, text []byte) {
	base := cloneTx(text)
	id0 := txIDOf(base)
	for _, mu := range c03Mutations(base, c) {
		t := cloneTx(text)
		var applicable bool
		func() {
			defer func() {
				if r := recover(); r != nil {
					applicable = false
				}
			}()
			applicable = mu.apply(t)
		}()
		if !applicable {
			continue
		}
		var id1 bc.Hash
		ok := true
		func() {
			defer func() {
				if r := recover(); r != nil {
					ok = false
				}
			}()
			id1 = txIDOf(t)
		}()
		if !ok {
			continue
		}
		c.Count("mut:" + mu.name)
		changed := id1 != id0
		switch {
		case mu.consensus && !changed:
			switch {
			case mu.inputSide && len(base.Outputs) == 0:
				failLimited(c, sigNoOutputs, short(mu.name+" on "+string(text)))
			case mu.outputTail && vmutil.IsUnspendable(base.Outputs[mu.out].ControlProgram) && vmutil.IsUnspendable(t.Outputs[mu.out].ControlProgram):
				failLimited(c, sigRetirement, short(mu.name+" on "+string(text)))
			default:
				failLimited(c, "consensus-mutation-keeps-txid:"+mu.name, short(string(text)))
			}
		case !mu.consensus && changed:
			failLimited(c, "witness-mutation-changes-txid:"+mu.name, short(string(text)))
		}
	}
}

// ---------------------------------------------------------------------------------------
// integer fields: ±2^k for every k ≤ 62 and multiples of 2^32 / 2^16 / 2^8 (narrowing slips).
// Both variants go through the wire format (MarshalText → UnmarshalText) before their ids are compared.

type c03IntField struct {
	name      string
	inputSide bool
	get       func(t *types.TxData) (uint64, bool)
	set       func(t *types.TxData, v uint64)
}

func c03IntFields(t *types.TxData, inputs, outputs []int) []c03IntField {
	fs := []c03IntField{
		{name: "tx.version", get: func(t *types.TxData) (uint64, bool) { return t.Version, true }, set: func(t *types.TxData, v uint64) { t.Version = v }},
		{name: "tx.timerange", get: func(t *types.TxData) (uint64, bool) { return t.TimeRange, true }, set: func(t *types.TxData, v uint64) { t.TimeRange = v }},
	}
	for _, i := range inputs {
		i := i
		scField := func(name string, sel func(*types.SpendCommitment) *uint64) c03IntField {
			return c03IntField{name: fmt.Sprintf("in[%d].%s", i, name), inputSide: true,
				get: func(t *types.TxData) (uint64, bool) {
					if sc := spendCommitmentOf(t.Inputs[i]); sc != nil {
						return *sel(sc), true
					}
					return 0, false
				},
				set: func(t *types.TxData, v uint64) { *sel(spendCommitmentOf(t.Inputs[i])) = v }}
		}
		issField := func(name string, sel func(*types.IssuanceInput) *uint64) c03IntField {
			return c03IntField{name: fmt.Sprintf("in[%d].%s", i, name), inputSide: true,
				get: func(t *types.TxData) (uint64, bool) {
					if ii, ok := t.Inputs[i].TypedInput.(*types.IssuanceInput); ok {
						return *sel(ii), true
					}
					return 0, false
				},
				set: func(t *types.TxData, v uint64) {
					ii := t.Inputs[i].TypedInput.(*types.IssuanceInput)
					fresh := types.NewIssuanceInput(ii.Nonce, ii.Amount, ii.IssuanceProgram, ii.Arguments, ii.AssetDefinition).TypedInput.(*types.IssuanceInput)
					fresh.VMVersion = ii.VMVersion
					*sel(fresh) = v
					t.Inputs[i].TypedInput = fresh
				}}
		}
		fs = append(fs,
			scField("spend.amount", func(s *types.SpendCommitment) *uint64 { return &s.Amount }),
			scField("spend.sourceposition", func(s *types.SpendCommitment) *uint64 { return &s.SourcePosition }),
			issField("issuance.amount", func(ii *types.IssuanceInput) *uint64 { return &ii.Amount }),
			issField("issuance.vmversion", func(ii *types.IssuanceInput) *uint64 { return &ii.VMVersion }),
		)
	}
	for _, k := range outputs {
		k := k
		fs = append(fs, c03IntField{name: fmt.Sprintf("out[%d].amount", k),
			get: func(t *types.TxData) (uint64, bool) { return t.Outputs[k].Amount, t.Outputs[k].AssetId != nil },
			set: func(t *types.TxData, v uint64) { t.Outputs[k].Amount = v }})
	}
	return fs
}

type c03Delta struct {
	name string
	val  uint64
}

const c03MaxWire = 1<<63 - 1

// c03Deltas: the values old ± 2^k (all k when full, a sample otherwise) and old + m·2^32, 2^16, 2^8
// that stay inside the wire range [0, 2^63-1]
func c03Deltas(c *Ctx, old uint64, full bool) []c03Delta {
	var ds []c03Delta
	add := func(name string, v uint64, ok bool) {
		if ok && v != old && v <= c03MaxWire {
			ds = append(ds, c03Delta{name, v})
		}
	}
	pow := func(k uint) {
		d := uint64(1) << k
		add(fmt.Sprintf("+2^%d", k), old+d, old+d >= old)
		add(fmt.Sprintf("-2^%d", k), old-d, old >= d)
	}
	if full {
		for k := uint(0); k <= 62; k++ {
			pow(k)
		}
	} else {
		pow(32)
		pow(16)
		pow(8)
		for j := 0; j < 3; j++ {
			pow(uint(c.Rng.Intn(63)))
		}
	}
	for _, m := range []uint64{3, 5, 1<<20 + 1} {
		add(fmt.Sprintf("+%d*2^32", m), old+m<<32, old+m<<32 >= old)
	}
	add("+3*2^16", old+3<<16, true)
	add("+257*2^8", old+257<<8, true)
	add("+2^32+2^16+2^8", old+1<<32+1<<16+1<<8, true)
	return ds
}

func long(s string) string {
	if len(s) > 1500 {
		return s[:1500] + "…"
	}
	return s
}

// c03IntOracle: every integer field × every delta: encode, decode, map; the tx id must change.
func c03IntOracle(c *Ctx, text []byte, full bool) {
	base := cloneTx(text)
	id0 := txIDOf(base)
	var ins, outs []int
	if full {
		for i := range base.Inputs {
			ins = append(ins, i)
		}
		for k := range base.Outputs {
			outs = append(outs, k)
		}
	} else {
		if n := len(base.Inputs); n > 0 {
			ins = []int{c.Rng.Intn(n)}
		}
		if n := len(base.Outputs); n > 0 {
			outs = []int{c.Rng.Intn(n)}
		}
	}
	for _, f := range c03IntFields(base, ins, outs) {
		old, ok := f.get(base)
		if !ok {
			continue
		}
		for _, d := range c03Deltas(c, old, full) {
			t := cloneTx(text)
			f.set(t, d.val)
			wire, err := t.MarshalText()
			if err != nil {
				c.Count("intmut:not-encodable")
				continue
			}
			back := &types.TxData{}
			if err := back.UnmarshalText(wire); err != nil {
				c.Count("intmut:not-decodable")
				continue
			}
			if v, ok := f.get(back); !ok || v != d.val {
				failLimited(c, "intfield-does-not-roundtrip:"+f.name, long(string(wire)))
				continue
			}
			var id1 bc.Hash
			okMap := true
			func() {
				defer func() {
					if r := recover(); r != nil {
						okMap = false
					}
				}()
				id1 = txIDOf(back)
			}()
			if !okMap {
				continue
			}
			c.Count("intmut:checked")
			if id1 != id0 {
				continue
			}
			if f.inputSide && len(base.Outputs) == 0 {
				failLimited(c, sigNoOutputs, short(f.name+" on "+string(text)))
				continue
			}
			// strip the index for the signature: in[3].spend.sourceposition -> in.spend.sourceposition
			sigName := f.name
			if p := strings.Index(sigName, "["); p >= 0 {
				sigName = sigName[:p] + sigName[strings.Index(sigName, "]")+1:]
			}
			failLimited(c, "consensus-mutation-keeps-txid:"+sigName+":"+d.name,
				long(fmt.Sprintf("%s: %d -> %d (%s): both transactions decode, both have id %s; A=%s B=%s", f.name, old, d.val, d.name, id0.String(), text, wire)))
		}
	}
}

// ---------------------------------------------------------------------------------------
// byte-string fields at boundary lengths: every hashed byte string of every entry is set to a string
// of length L and one byte is flipped at the first, middle and last position; the id must change.
// Base and last-flip variants are also op lines, so the model (which hashes the whole string)
// is compared with the implementation at every boundary length.

var c03StrLens = []int{0, 1, 63, 64, 65, 126, 127, 128, 129, 255, 256, 257, 16383, 16384}

type c03StrField struct {
	name string
	set  func(t *types.TxData, v []byte)
}

func c03SetIssuance(t *types.TxData, i int, f func(ii *types.IssuanceInput)) {
	ii := t.Inputs[i].TypedInput.(*types.IssuanceInput)
	fresh := types.NewIssuanceInput(ii.Nonce, ii.Amount, ii.IssuanceProgram, ii.Arguments, ii.AssetDefinition).TypedInput.(*types.IssuanceInput)
	fresh.VMVersion = ii.VMVersion
	f(fresh)
	t.Inputs[i].TypedInput = fresh
}

// fields of c03StrBaseTx: inputs [spend, veto, issuance, coinbase], outputs [original, vote]
func c03StrFields() []c03StrField {
	return []c03StrField{
		{"in.spend.controlprogram", func(t *types.TxData, v []byte) { spendCommitmentOf(t.Inputs[0]).ControlProgram = v }},
		{"in.spend.statedata[0]", func(t *types.TxData, v []byte) { spendCommitmentOf(t.Inputs[0]).StateData = [][]byte{v, {9}} }},
		{"in.veto.controlprogram", func(t *types.TxData, v []byte) { spendCommitmentOf(t.Inputs[1]).ControlProgram = v }},
		{"in.veto.vote", func(t *types.TxData, v []byte) { t.Inputs[1].TypedInput.(*types.VetoInput).Vote = v }},
		{"in.veto.statedata[1]", func(t *types.TxData, v []byte) { spendCommitmentOf(t.Inputs[1]).StateData = [][]byte{{9}, v} }},
		{"in.issuance.program", func(t *types.TxData, v []byte) { c03SetIssuance(t, 2, func(ii *types.IssuanceInput) { ii.IssuanceProgram = v }) }},
		{"in.issuance.nonce", func(t *types.TxData, v []byte) { c03SetIssuance(t, 2, func(ii *types.IssuanceInput) { ii.Nonce = v }) }},
		{"in.issuance.assetdefinition", func(t *types.TxData, v []byte) { c03SetIssuance(t, 2, func(ii *types.IssuanceInput) { ii.AssetDefinition = v }) }},
		{"in.coinbase.arbitrary", func(t *types.TxData, v []byte) { t.Inputs[3].TypedInput.(*types.CoinbaseInput).Arbitrary = v }},
		{"out.original.controlprogram", func(t *types.TxData, v []byte) { t.Outputs[0].ControlProgram = v }},
		{"out.original.statedata[0]", func(t *types.TxData, v []byte) { t.Outputs[0].StateData = [][]byte{v} }},
		{"out.vote.controlprogram", func(t *types.TxData, v []byte) { t.Outputs[1].ControlProgram = v }},
		{"out.vote.vote", func(t *types.TxData, v []byte) { t.Outputs[1].TypedOutput = &types.VoteOutput{Vote: v} }},
		{"out.vote.statedata[1]", func(t *types.TxData, v []byte) { t.Outputs[1].StateData = [][]byte{{9}, v} }},
	}
}

func c03StrBaseTx(g *codecGen) []byte {
	t := &types.TxData{Version: 1, TimeRange: 99,
		Inputs: []*types.TxInput{
			types.NewSpendInput(nil, g.hash(), bc.AssetID(g.hash()), 5, 1, []byte{0x51}, nil),
			types.NewVetoInput(nil, g.hash(), bc.AssetID(g.hash()), 6, 2, []byte{0x52}, []byte{7}, nil),
			types.NewIssuanceInput([]byte{1}, 7, []byte{0x53}, nil, []byte{2}),
			types.NewCoinbaseInput([]byte{3})},
		Outputs: []*types.TxOutput{
			types.NewOriginalTxOutput(bc.AssetID(g.hash()), 3, []byte{0x54}, nil),
			types.NewVoteOutput(bc.AssetID(g.hash()), 4, []byte{0x55}, []byte{8}, nil)}}
	text, _ := t.MarshalText()
	return text
}

// through the wire format, then MapTx
func c03WireID(t *types.TxData) (id bc.Hash, wire []byte, ok bool) {
	defer func() {
		if r := recover(); r != nil {
			ok = false
		}
	}()
	wire, err := t.MarshalText()
	if err != nil {
		return id, nil, false
	}
	back := &types.TxData{}
	if err := back.UnmarshalText(wire); err != nil {
		return id, wire, false
	}
	return txIDOf(back), wire, true
}

func c03StrOracle(c *Ctx, g *codecGen) {
	base := c03StrBaseTx(g)
	for _, f := range c03StrFields() {
		for _, L := range c03StrLens {
			v := g.bytesN(L)
			if L > 0 {
				v[0] = 0x51 // never an unspendable program
			}
			t := cloneTx(base)
			f.set(t, v)
			id0, wire0, ok := c03WireID(t)
			if !ok {
				failLimited(c, "strfield-does-not-roundtrip:"+f.name, fmt.Sprintf("len=%d", L))
				continue
			}
			l, _ := c03TxLine(wire0)
			c.Op("tx "+string(wire0), l)
			c.Count("strmut:bases")
			pos := map[string]int{"first": 0, "middle": L / 2, "last": L - 1}
			for _, where := range []string{"first", "middle", "last"} {
				if L == 0 || (where == "middle" && L < 3) || (where == "first" && L < 2) {
					continue
				}
				w := append([]byte{}, v...)
				w[pos[where]] ^= 0x04
				t2 := cloneTx(base)
				f.set(t2, w)
				id1, wire1, ok := c03WireID(t2)
				if !ok {
					continue
				}
				if where == "last" {
					l, _ := c03TxLine(wire1)
					c.Op("tx "+string(wire1), l)
				}
				c.Count("strmut:checked")
				if id1 == id0 {
					failLimited(c, fmt.Sprintf("consensus-mutation-keeps-txid:%s:len=%d:flip=%s", f.name, L, where),
						long(fmt.Sprintf("%s of %d bytes, byte %d flipped: both transactions decode, both have id %s; A=%s B=%s", f.name, L, pos[where], id0.String(), wire0, wire1)))
				}
			}
		}
	}
}

// ---------------------------------------------------------------------------------------
// decode-level stream: the WIRE bytes of an issuance input's witness fields (issuance program, vm
// version, asset definition) are altered while the asset id in its commitment is left alone.
// (Built by decoding the original, changing the field of the decoded object — its cached asset id
// stays — and re-encoding.) Such a text must be rejected (errBadAssetID), or at least must not get
// the ids of the original.
func c03IssuanceWireOracle(c *Ctx, text []byte) {
	base := cloneTx(text)
	id0 := txIDOf(base)
	done := false
	for i, in := range base.Inputs {
		if _, ok := in.TypedInput.(*types.IssuanceInput); !ok || done {
			continue
		}
		done = true // the first issuance input of the transaction
		for _, m := range []struct {
			name string
			f    func(ii *types.IssuanceInput)
		}{
			{"issuance.program", func(ii *types.IssuanceInput) { ii.IssuanceProgram = bump(ii.IssuanceProgram) }},
			{"issuance.program.lastbyte", func(ii *types.IssuanceInput) {
				if n := len(ii.IssuanceProgram); n > 0 {
					ii.IssuanceProgram = append([]byte{}, ii.IssuanceProgram...)
					ii.IssuanceProgram[n-1] ^= 0x10
				} else {
					ii.IssuanceProgram = []byte{0x51}
				}
			}},
			{"issuance.vmversion", func(ii *types.IssuanceInput) { ii.VMVersion++ }},
			{"issuance.assetdefinition", func(ii *types.IssuanceInput) { ii.AssetDefinition = bump(ii.AssetDefinition) }},
		} {
			t := cloneTx(text) // decoded: the issuance carries the asset id of the commitment
			m.f(t.Inputs[i].TypedInput.(*types.IssuanceInput))
			wire, err := t.MarshalText()
			if err != nil || string(wire) == string(text) {
				continue
			}
			line, tx := c03TxLine(wire)
			c.Op("tx "+string(wire), line)
			c.Count("wiremut:issuance-witness")
			if tx == nil {
				continue // rejected: fine
			}
			sameInput := len(tx.InputIDs) > i && tx.InputIDs[i] == types.NewTx(*base).InputIDs[i]
			if tx.ID == id0 || sameInput {
				failLimited(c, "issuance-witness-not-bound-to-commitment:"+m.name,
					long(fmt.Sprintf("input %d: %s altered on the wire, asset id of the commitment kept: the text decodes and gets the original's ids (tx id %s); original=%s altered=%s", i, m.name, id0.String(), text, wire)))
			} else {
				failLimited(c, "issuance-witness-mismatch-accepted:"+m.name, long(fmt.Sprintf("input %d: altered=%s", i, wire)))
			}
		}
	}
}

// c03AllKindsTx: a small transaction with a spend, a veto and an issuance input and two outputs,
// swept with EVERY delta on EVERY integer field once per run
func c03AllKindsTx(g *codecGen) []byte {
	t := &types.TxData{Version: 1, TimeRange: 654,
		Inputs:  []*types.TxInput{g.input(1), g.input(3), g.input(0)},
		Outputs: []*types.TxOutput{types.NewOriginalTxOutput(bc.AssetID(g.hash()), 3, []byte{0x51}, nil), types.NewVoteOutput(bc.AssetID(g.hash()), 70000, []byte{0x52}, []byte{1, 2}, nil)}}
	spendCommitmentOf(t.Inputs[0]).SourcePosition = 3
	spendCommitmentOf(t.Inputs[0]).Amount = 5
	spendCommitmentOf(t.Inputs[1]).SourcePosition = 1<<33 + 7
	text, _ := t.MarshalText()
	return text
}

var c03HeadersSwept, c03TxsSampled int

func c03HeaderIntOracle(c *Ctx, h *types.BlockHeader) {
	h0 := h.Hash()
	c03HeadersSwept++
	full := c03HeadersSwept <= 10 // every delta on the first headers of a run, a sample afterwards
	for _, f := range []struct {
		name string
		sel  func(*types.BlockHeader) *uint64
	}{{"version", func(b *types.BlockHeader) *uint64 { return &b.Version }}, {"height", func(b *types.BlockHeader) *uint64 { return &b.Height }},
		{"timestamp", func(b *types.BlockHeader) *uint64 { return &b.Timestamp }}} {
		old := *f.sel(h)
		for _, d := range c03Deltas(c, old, full) {
			b := *h
			*f.sel(&b) = d.val
			wire, err := b.MarshalText()
			if err != nil {
				continue
			}
			back := &types.BlockHeader{}
			if err := back.UnmarshalText(wire); err != nil || *f.sel(back) != d.val {
				continue
			}
			c.Count("intmut:hdr")
			if back.Hash() == h0 {
				failLimited(c, "consensus-mutation-keeps-blockhash:"+f.name+":"+d.name, long(fmt.Sprintf("%s: %d -> %d: both headers decode and hash to %s; B=%s", f.name, old, d.val, h0.String(), wire)))
			}
		}
	}
}

func c03OracleHeader(c *Ctx, h *types.BlockHeader) {
	c03HeaderIntOracle(c, h)
	h0 := h.Hash()
	try := func(name string, consensus bool, f func(b *types.BlockHeader)) {
		b := *h
		b.SupLinks = append(types.SupLinks{}, h.SupLinks...)
		f(&b)
		c.Count("mut:hdr." + name)
		if changed := b.Hash() != h0; changed != consensus {
			if consensus {
				failLimited(c, "consensus-mutation-keeps-blockhash:"+name, short(dHeader(h)))
			} else {
				failLimited(c, "witness-mutation-changes-blockhash:"+name, short(dHeader(h)))
			}
		}
	}
	try("version", true, func(b *types.BlockHeader) { b.Version++ })
	try("height", true, func(b *types.BlockHeader) { b.Height++ })
	try("prev", true, func(b *types.BlockHeader) { flipHash(&b.PreviousBlockHash) })
	try("timestamp", true, func(b *types.BlockHeader) { b.Timestamp++ })
	try("txroot", true, func(b *types.BlockHeader) { flipHash(&b.TransactionsMerkleRoot) })
	try("witness", false, func(b *types.BlockHeader) { b.BlockWitness = bump(b.BlockWitness) })
	try("suplinks.add", false, func(b *types.BlockHeader) {
		b.SupLinks = append(b.SupLinks, &types.SupLink{SourceHeight: 9})
	})
	try("suplinks.drop", false, func(b *types.BlockHeader) { b.SupLinks = nil })
}

// the block hash commits to every tx id and their order through the merkle root
func c03OracleMerkle(c *Ctx, g *codecGen) {
	n := 1 + c.Rng.Intn(5)
	var txs []*bc.Tx
	for i := 0; i < n; i++ {
		txs = append(txs, types.NewTx(*g.txData()).Tx)
	}
	root0, err := types.TxMerkleRoot(txs)
	if err != nil {
		return
	}
	c.Count("mut:merkle")
	i := c.Rng.Intn(n)
	repl := append([]*bc.Tx{}, txs...)
	repl[i] = types.NewTx(*g.txData()).Tx
	if repl[i].ID != txs[i].ID {
		if r, _ := types.TxMerkleRoot(repl); r == root0 {
			failLimited(c, "merkle-root-ignores-a-txid", fmt.Sprintf("%d txs, replaced #%d", n, i))
		}
	}
	if n > 1 {
		j := (i + 1) % n
		if txs[i].ID != txs[j].ID {
			sw := append([]*bc.Tx{}, txs...)
			sw[i], sw[j] = sw[j], sw[i]
			if r, _ := types.TxMerkleRoot(sw); r == root0 {
				failLimited(c, "merkle-root-ignores-tx-order", fmt.Sprintf("%d txs, swapped #%d #%d", n, i, j))
			}
		}
	}
	if r, _ := types.TxMerkleRoot(txs[:n-1]); n > 1 && r == root0 {
		failLimited(c, "merkle-root-ignores-dropped-tx", fmt.Sprintf("%d txs", n))
	}
}

// ---------------------------------------------------------------------------------------
// large merkle trees: `mroot <n> <seed>` => root of the n synthetic leaves (ids only), computed
// by the real TxMerkleRoot; the model computes the same root with its own recursion + SHA3.

func c03Leaf(seed uint64, i int) bc.Hash {
	return bc.Hash{V0: seed, V1: uint64(i), V2: 0, V3: 0xC03}
}

func c03Leaves(seed uint64, n int) []bc.Hash {
	ids := make([]bc.Hash, n)
	for i := range ids {
		ids[i] = c03Leaf(seed, i)
	}
	return ids
}

func c03Root(ids []bc.Hash) bc.Hash {
	txs := make([]*bc.Tx, len(ids))
	for i := range ids {
		txs[i] = &bc.Tx{ID: ids[i]}
	}
	r, err := types.TxMerkleRoot(txs)
	if err != nil {
		panic(err)
	}
	return r
}

// refRoot: an independent, straightforward recursive RFC-6962 style root (split at the largest
// power of two strictly below n), written against the documentation, not the code.
func refRoot(ids []bc.Hash) [32]byte {
	switch n := len(ids); {
	case n == 0:
		return sha3.Sum256(nil)
	case n == 1:
		return sha3.Sum256(append([]byte{0x00}, ids[0].Bytes()...))
	default:
		k := 1 << uint(bits.Len(uint(n-1))-1)
		l, r := refRoot(ids[:k]), refRoot(ids[k:])
		return sha3.Sum256(append(append([]byte{0x01}, l[:]...), r[:]...))
	}
}

var c03MerkleFails int

func c03MerkleFail(c *Ctx, sig, detail string) {
	c.Count("oraclefail:merkle")
	if c03MerkleFails < 8 {
		c03MerkleFails++
		c.Fail(sig, detail)
	}
}

func c03MerkleCase(c *Ctx, n int, seed uint64) {
	ids := c03Leaves(seed, n)
	root := c03Root(ids)
	c.Op(fmt.Sprintf("mroot %d %d", n, seed), hxHash(root))
	c.Count("merkle:sizes")
	if ref := refRoot(ids); bc.NewHash(ref) != root {
		c03MerkleFail(c, fmt.Sprintf("txmerkleroot-differs-from-reference:n=%d", n), fmt.Sprintf("TxMerkleRoot of %d leaves (seed %d) = %s, straightforward recursion = %x", n, seed, hxHash(root), ref))
	}
	if n == 0 {
		return
	}
	// the tree the inclusion proofs are cut from (buildMerkleTree) must have the same root
	txs := make([]*types.Tx, n)
	for i := range ids {
		txs[i] = &types.Tx{Tx: &bc.Tx{ID: ids[i]}}
	}
	if hs, _ := types.GetTxMerkleTreeProof(txs, nil); len(hs) != 1 || *hs[0] != root {
		c03MerkleFail(c, fmt.Sprintf("txmerkleroot-differs-from-buildMerkleTree:n=%d", n), fmt.Sprintf("%d leaves (seed %d)", n, seed))
	}
	positions := []int{n - 1, 0, c.Rng.Intn(n), n - 1 - c.Rng.Intn(minInt(n, 300)), n - 1 - c.Rng.Intn(minInt(n, 40))}
	// completeness of an inclusion proof for a leaf (tail biased) against TxMerkleRoot
	p := positions[3]
	hs, fl := types.GetTxMerkleTreeProof(txs, []*types.Tx{txs[p]})
	if !types.ValidateTxMerkleTreeProof(hs, fl, []*bc.Hash{&ids[p]}, root) {
		c03MerkleFail(c, fmt.Sprintf("merkle-proof-of-included-leaf-rejected:n=%d:pos=%d", n, p), fmt.Sprintf("%d leaves (seed %d), proof for leaf %d does not validate against TxMerkleRoot", n, seed, p))
	}
	// the property: changing, removing or appending ONE leaf changes the root
	for _, p := range positions {
		c.Count("mut:merkle.leaf")
		mod := append([]bc.Hash{}, ids...)
		mod[p].V2 ^= 1
		if c03Root(mod) == root {
			c03MerkleFail(c, fmt.Sprintf("merkle-root-ignores-changed-leaf:n=%d:pos=%d", n, p), fmt.Sprintf("%d leaves (seed %d): replacing leaf %d keeps TxMerkleRoot %s", n, seed, p, hxHash(root)))
		}
		if n > 1 {
			rem := append(append([]bc.Hash{}, ids[:p]...), ids[p+1:]...)
			if c03Root(rem) == root {
				c03MerkleFail(c, fmt.Sprintf("merkle-root-ignores-removed-leaf:n=%d:pos=%d", n, p), fmt.Sprintf("%d leaves (seed %d): removing leaf %d keeps TxMerkleRoot %s", n, seed, p, hxHash(root)))
			}
		}
	}
	app := append(append([]bc.Hash{}, ids...), c03Leaf(seed+1, n))
	if c03Root(app) == root {
		c03MerkleFail(c, fmt.Sprintf("merkle-root-ignores-appended-leaf:n=%d", n), fmt.Sprintf("%d leaves (seed %d): appending a leaf keeps TxMerkleRoot %s", n, seed, hxHash(root)))
	}
}

func minInt(a, b int) int {
	if a < b {
		return a
	}
	return b
}

// leaf counts around every power of two and every 256-leaf boundary up to a few thousand
var c03MerkleSizes = []int{0, 1, 2, 3, 5, 8, 255, 256, 257, 511, 513, 1023, 1024, 1025, 1279, 1280, 1281, 1300, 1535, 1537, 2047, 2048, 2049, 2303, 4097}

func c03MerkleLine(c *Ctx, line string) bool {
	f := strings.Fields(line)
	if len(f) != 3 || f[0] != "mroot" {
		return false
	}
	var n int
	var seed uint64
	if _, err := fmt.Sscan(f[1], &n); err != nil || n < 0 || n > 1<<16 {
		return false
	}
	if _, err := fmt.Sscan(f[2], &seed); err != nil {
		return false
	}
	c03MerkleCase(c, n, seed)
	return true
}

func c03Line(c *Ctx, line string) {
	if strings.HasPrefix(line, "mroot ") {
		if !c03MerkleLine(c, line) {
			c.Op(line, "bad-op")
		}
		return
	}
	kind, text, ok := parseOpLine(line)
	if !ok {
		c.Op(line, "bad-op")
		return
	}
	switch kind {
	case "tx":
		l, tx := c03TxLine(text)
		c.Op(line, l)
		if tx != nil {
			c03OracleTx(c, text)
			if c03TxsSampled < 100 || c03TxsSampled%4 == 0 {
				c03IssuanceWireOracle(c, text)
			}
			if c03TxsSampled++; c03TxsSampled <= 400 || c03TxsSampled%3 == 0 {
				c03IntOracle(c, text, false)
			}
		}
	case "hdr":
		c.Op(line, c03HdrLine(text))
		h := &types.BlockHeader{}
		if err := h.UnmarshalText(text); err == nil {
			c03OracleHeader(c, h)
		}
	default:
		c.Op(line, "bad-op")
	}
}

func runC03(c *Ctx) {
	c.Rule = "distinct = distinct generated transactions / headers; every one is subjected to every applicable single-field mutation (consensus fields and witness-only fields separately)"
	if c.Replay != "" {
		for _, l := range c.ReplayLines() {
			c03Line(c, l)
		}
		return
	}
	for _, l := range c.CorpusLines() {
		c03Line(c, l)
	}
	// large trees first: fixed boundary sizes in every tier, random sizes in addition in the thorough tier
	for _, n := range c03MerkleSizes {
		c03MerkleCase(c, n, uint64(c.Seed))
	}
	if c.Tier == "thorough" {
		for i := 0; i < 40; i++ {
			n := 900 + c.Rng.Intn(4300)
			if i%4 == 0 {
				n = 256*(4+c.Rng.Intn(14)) + []int{-1, 0, 1, 2, 255}[c.Rng.Intn(5)]
			}
			c03MerkleCase(c, n, uint64(c.Seed)+uint64(i)+1)
		}
	}
	g := &codecGen{r: c.Rng, count: c.Count}
	c03StrOracle(c, g)
	c03IssuanceWireOracle(c, c03StrBaseTx(g))
	// every integer field × every delta, once per run, on a transaction with all committed input kinds
	{
		text := c03AllKindsTx(g)
		l, _ := c03TxLine(text)
		c.Op("tx "+string(text), l)
		c03IntOracle(c, text, true)
	}
	for i := 0; i < c.N; i++ {
		switch k := c.Rng.Intn(10); {
		case k < 7:
			t := g.txData()
			if c.Rng.Intn(12) == 0 && len(t.Inputs) > 0 {
				t.Outputs = nil // exercises the no-output exception
			}
			text, err := t.MarshalText()
			if err != nil {
				continue
			}
			c03Line(c, "tx "+string(text))
			c.Distinct(string(text))
		case k < 9:
			text, err := g.header().MarshalText()
			if err != nil {
				continue
			}
			c03Line(c, "hdr "+string(text))
			c.Distinct(string(text))
		default:
			c03OracleMerkle(c, g)
		}
	}
}
