//go:build hc29 || hall

package main

import (
	"encoding/hex"
	"fmt"
	"os"
	"strconv"
	"strings"

	"github.com/bytom/bytom/blockchain/pseudohsm"
	"github.com/bytom/bytom/common"
	"github.com/bytom/bytom/common/bech32"
	"github.com/bytom/bytom/consensus"
	"github.com/bytom/bytom/encoding/base32"
	"github.com/bytom/bytom/wallet/mnemonic"
)

// C29: addresses and text encodings, real implementation in-process.  All strings / byte
// slices travel as hex ("-" = empty).  An op line may end in `#want=<result>`: the DIRECT
// ORACLE's requirement on the implementation's answer (exact result with '_' for ' ', or
// `err` = any error, or `nopanic`); the model driver ignores that word.  So every line is a
// complete replay.
//
//	b32enc <hrp> <data> | b32dec <str> | cvt <data> <from> <to> <pad>
//	addrenc <net> <pkh|sh> <prog> | addrdec <net> <str>
//	base32enc <data> | base32dec <str>
//	mnnew <lang> <entropy> | mnent <lang> <i,i,x,…>
//	mnstr <lang> <ws-variant> <i,i,x,…>   the sentence joined with irregular white space, fed to EVERY
//	      mnemonic entry point under recover (EntropyFromMnemonic, IsMnemonicValid — compared with the
//	      model — and MnemonicToByteArray (3 forms), NewSeedWithErrorChecking, NewSeed,
//	      HSM.ImportKeyFromMnemonic: a panic is an oracle failure `panic:<function>`)

func c29h(b []byte) string {
	if len(b) == 0 {
		return "-"
	}
	return hex.EncodeToString(b)
}

func c29unh(s string) ([]byte, bool) {
	if s == "-" {
		return nil, true
	}
	b, err := hex.DecodeString(s)
	return b, err == nil
}

func c29bechErr(err error) string {
	m := err.Error()
	switch {
	case strings.HasPrefix(m, "invalid bech32 string length"):
		return "length"
	case strings.HasPrefix(m, "invalid character in string"):
		return "char"
	case strings.HasPrefix(m, "string not all lowercase"):
		return "mixed-case"
	case strings.HasPrefix(m, "invalid index of 1"):
		return "separator"
	case strings.HasPrefix(m, "failed converting data to bytes"), strings.HasPrefix(m, "unable to convert data bytes to chars"):
		return "charset"
	case strings.HasPrefix(m, "checksum failed"):
		return "checksum"
	case strings.HasPrefix(m, "only bit groups"):
		return "bit-groups"
	case strings.HasPrefix(m, "invalid incomplete group"):
		return "incomplete"
	case strings.HasPrefix(m, "no witness version"):
		return "no-version"
	case strings.HasPrefix(m, "invalid witness version"):
		return "version"
	case strings.HasPrefix(m, "invalid data length for witness"):
		return "data-length-v0"
	case strings.HasPrefix(m, "invalid data length"):
		return "data-length"
	case err == common.ErrUnsupportedWitnessVer:
		return "unsupported-version"
	case err == common.ErrUnsupportedWitnessProgLen:
		return "unsupported-proglen"
	case err == common.ErrUnknownAddressType:
		return "unknown-type"
	case strings.HasPrefix(m, "witness program must be"):
		return "prog-len"
	}
	return "other:" + strings.ReplaceAll(m, " ", "_")
}

var c29nets = map[string]*consensus.Params{"main": &consensus.MainNetParams, "test": &consensus.TestNetParams, "solo": &consensus.SoloNetParams}
var c29netNames = []string{"main", "test", "solo"}
var c29langs = []string{"en", "zh_CN", "zh_TW", "it", "ja", "ko", "es"}

// implementation's answer to one op line; panics are caught and reported as "panic"
func c29impl(w []string) (out string) {
	defer func() {
		if r := recover(); r != nil {
			out = "panic:" + strings.ReplaceAll(fmt.Sprint(r), " ", "_")
		}
	}()
	switch {
	case w[0] == "b32enc" && len(w) == 3:
		hrp, ok1 := c29unh(w[1])
		data, ok2 := c29unh(w[2])
		if !ok1 || !ok2 {
			return "bad-op"
		}
		d := append([]byte{}, data...) // Bech32Encode appends to its argument
		s, err := bech32.Bech32Encode(string(hrp), d[:len(d):len(d)])
		if err != nil {
			return "err " + c29bechErr(err)
		}
		return "ok " + c29h([]byte(s))
	case w[0] == "b32dec" && len(w) == 2:
		s, ok := c29unh(w[1])
		if !ok {
			return "bad-op"
		}
		hrp, data, err := bech32.Bech32Decode(string(s))
		if err != nil {
			return "err " + c29bechErr(err)
		}
		return "ok " + c29h([]byte(hrp)) + " " + c29h(data)
	case w[0] == "cvt" && len(w) == 5:
		data, ok := c29unh(w[1])
		f, e1 := strconv.Atoi(w[2])
		t, e2 := strconv.Atoi(w[3])
		if !ok || e1 != nil || e2 != nil || f < 0 || f > 255 || t < 0 || t > 255 {
			return "bad-op"
		}
		r, err := bech32.ConvertBits(data, uint8(f), uint8(t), w[4] == "1")
		if err != nil {
			return "err " + c29bechErr(err)
		}
		return "ok " + c29h(r)
	case w[0] == "addrenc" && len(w) == 4:
		p := c29nets[w[1]]
		prog, ok := c29unh(w[3])
		if p == nil || !ok {
			return "bad-op"
		}
		var a common.Address
		var err error
		if w[2] == "pkh" {
			a, err = common.NewAddressWitnessPubKeyHash(prog, p)
		} else {
			a, err = common.NewAddressWitnessScriptHash(prog, p)
		}
		if err != nil {
			return "err " + c29bechErr(err)
		}
		return "ok " + c29h([]byte(a.EncodeAddress()))
	case w[0] == "addrdec" && len(w) == 3:
		p := c29nets[w[1]]
		s, ok := c29unh(w[2])
		if p == nil || !ok {
			return "bad-op"
		}
		a, err := common.DecodeAddress(string(s), p)
		if err != nil {
			return "err " + c29bechErr(err)
		}
		switch t := a.(type) {
		case *common.AddressWitnessPubKeyHash:
			return "ok pkh " + c29h([]byte(t.Hrp())) + " " + c29h(t.WitnessProgram())
		case *common.AddressWitnessScriptHash:
			return "ok sh " + c29h([]byte(t.Hrp())) + " " + c29h(t.WitnessProgram())
		}
		return "ok other"
	case w[0] == "base32enc" && len(w) == 2:
		d, ok := c29unh(w[1])
		if !ok {
			return "bad-op"
		}
		return c29h([]byte(base32.StdEncoding.EncodeToString(d)))
	case w[0] == "base32dec" && len(w) == 2:
		s, ok := c29unh(w[1])
		if !ok {
			return "bad-op"
		}
		r, err := base32.StdEncoding.DecodeString(string(s))
		if err != nil {
			if ce, ok := err.(base32.CorruptInputError); ok {
				return fmt.Sprintf("err %d %s", int64(ce), c29h(r))
			}
			return "err other"
		}
		return "ok " + c29h(r)
	case w[0] == "mnnew" && len(w) == 3:
		e, ok := c29unh(w[2])
		if !ok {
			return "bad-op"
		}
		m, err := mnemonic.NewMnemonic(e, w[1])
		if err != nil {
			if err == mnemonic.ErrEntropyLengthInvalid {
				return "err entropy-length"
			}
			return "err other"
		}
		wm, err := mnemonic.SetWordMap(w[1])
		if err != nil {
			return "err other"
		}
		var idx []string
		for _, word := range strings.Split(m, " ") {
			i, ok := wm[word]
			if !ok {
				return "err word-not-in-map"
			}
			idx = append(idx, strconv.Itoa(i))
		}
		return "ok " + strings.Join(idx, ",")
	case w[0] == "mnstr" && len(w) == 4:
		m, ok := c29sentence(w[1], w[2], w[3])
		if !ok {
			return "bad-op"
		}
		valid := mnemonic.IsMnemonicValid(m, w[1])
		e, err := mnemonic.EntropyFromMnemonic(m, w[1])
		if err != nil {
			return fmt.Sprintf("err %s valid=%v", c29mnErr(err), valid)
		}
		return fmt.Sprintf("ok %s valid=%v", c29h(e), valid)
	case w[0] == "mnent" && len(w) == 3:
		wl, err := mnemonic.SetWordList(w[1])
		if err != nil {
			return "bad-op"
		}
		var words []string
		if w[2] != "-" {
			for _, x := range strings.Split(w[2], ",") {
				if x == "x" {
					words = append(words, "zzzzzzzzzz")
					continue
				}
				i, err := strconv.Atoi(x)
				if err != nil || i < 0 || i >= len(wl) {
					return "bad-op"
				}
				words = append(words, wl[i])
			}
		}
		e, err := mnemonic.EntropyFromMnemonic(strings.Join(words, " "), w[1])
		if err != nil {
			m := err.Error()
			switch {
			case m == "Invalid mnemonic":
				return "err word-count"
			case strings.HasPrefix(m, "word `"):
				return "err unknown-word"
			case strings.HasPrefix(m, "mnemonic's entropy doesn't match"):
				return "err checksum"
			}
			return "err other"
		}
		return "ok " + c29h(e)
	}
	return "bad-op"
}

func c29mnErr(err error) string {
	m := err.Error()
	switch {
	case m == "Invalid mnemonic":
		return "word-count"
	case strings.HasPrefix(m, "word `"):
		return "unknown-word"
	case strings.HasPrefix(m, "mnemonic's entropy doesn't match"):
		return "checksum"
	}
	return "other"
}

// white-space variants of a sentence (deterministic in the variant name, so op lines replay)
var c29wsVariants = []string{"clean", "lead", "trail", "both", "double", "tab", "nl", "crlf", "nbsp", "ideo", "mixed", "lead-tab", "trail-nl"}

func c29sentence(lang, variant, idxs string) (string, bool) {
	wl, err := mnemonic.SetWordList(lang)
	if err != nil {
		return "", false
	}
	var words []string
	if idxs != "-" {
		for _, x := range strings.Split(idxs, ",") {
			if x == "x" {
				words = append(words, "zzzzzzzzzz")
				continue
			}
			i, err := strconv.Atoi(x)
			if err != nil || i < 0 || i >= len(wl) {
				return "", false
			}
			words = append(words, wl[i])
		}
	}
	sep := func(i int) string { return " " }
	pre, post := "", ""
	switch variant {
	case "clean":
	case "lead":
		pre = " "
	case "trail":
		post = " "
	case "both":
		pre, post = "  ", " "
	case "double":
		sep = func(i int) string {
			if i%4 == 1 {
				return "  "
			}
			return " "
		}
	case "tab":
		sep = func(i int) string { return "\t" }
	case "nl":
		sep = func(i int) string { return "\n" }
	case "crlf":
		sep = func(i int) string { return "\r\n" }
	case "nbsp":
		sep = func(i int) string { return "\u00a0" }
	case "ideo":
		sep = func(i int) string { return "\u3000" }
	case "mixed":
		all := []string{" ", "\t", "  ", "\n", " \t ", "\u00a0", " "}
		sep = func(i int) string { return all[i%len(all)] }
		pre, post = "\n", "\t"
	case "lead-tab":
		pre = "\t"
	case "trail-nl":
		post = "\n"
	default:
		return "", false
	}
	var b strings.Builder
	b.WriteString(pre)
	for i, w := range words {
		if i > 0 {
			b.WriteString(sep(i))
		}
		b.WriteString(w)
	}
	b.WriteString(post)
	return b.String(), true
}

// every other mnemonic entry point on the same sentence: must not panic (implementation only)
func c29mnEntryPoints(c *Ctx, lang, variant, idxs string, hsm bool) {
	m, ok := c29sentence(lang, variant, idxs)
	if !ok {
		return
	}
	call := func(name string, f func()) {
		defer func() {
			if r := recover(); r != nil {
				c.Fail("panic:"+name+":"+lang+":"+variant+":"+idxs, fmt.Sprint(name, " panicked: ", r))
				c.Count("mnapi/" + name + "/panic")
			}
		}()
		f()
		c.Count("mnapi/" + name + "/returned")
	}
	call("MnemonicToByteArray", func() { mnemonic.MnemonicToByteArray(m, lang) })
	call("MnemonicToByteArray-raw", func() { mnemonic.MnemonicToByteArray(m, lang, true) })
	call("MnemonicToByteArray-notraw", func() { mnemonic.MnemonicToByteArray(m, lang, false) })
	call("NewSeedWithErrorChecking", func() { mnemonic.NewSeedWithErrorChecking(m, "pw", lang) })
	call("NewSeed", func() { mnemonic.NewSeed(m, "") })
	if hsm {
		call("ImportKeyFromMnemonic", func() {
			dir, err := os.MkdirTemp("/var/tmp", "verif-c29-hsm-")
			if err != nil {
				return
			}
			defer os.RemoveAll(dir)
			h, _ := pseudohsm.VerifNew(dir, 2, 1)
			defer pseudohsm.VerifClose(h)
			h.ImportKeyFromMnemonic("imp", "pw", m, lang)
		})
	}
}

// run one op line: differential record + direct oracle from the #want annotation
func c29op(c *Ctx, line string) string {
	all := strings.Fields(line)
	var w []string
	want, kind := "", "none"
	for _, x := range all {
		if strings.HasPrefix(x, "#want=") {
			want = x[6:]
		} else if strings.HasPrefix(x, "#kind=") {
			kind = x[6:]
		} else {
			w = append(w, x)
		}
	}
	if len(w) == 0 {
		return ""
	}
	out := c29impl(w)
	if out == "bad-op" {
		return out
	}
	c.Op(line, out)
	if w[0] == "mnstr" && len(w) == 4 {
		c29mnEntryPoints(c, w[1], w[2], w[3], strings.Contains(kind, "hsm"))
	}
	res := "ok"
	if strings.HasPrefix(out, "err") {
		res = "err"
		if f := strings.Fields(out); len(f) > 1 && w[0] != "base32dec" {
			res = "err-" + f[1]
		}
	} else if strings.HasPrefix(out, "panic") {
		res = "panic"
	}
	c.Count(w[0] + "/" + kind + "/" + res)
	c.Distinct(line)
	sig := kind + ":" + strings.Join(w, " ")
	if len(sig) > 300 {
		sig = sig[:300]
	}
	switch {
	case strings.HasPrefix(out, "panic"):
		c.Fail(sig, "implementation panicked: "+out)
	case want == "" || want == "nopanic":
	case want == "err":
		if !strings.HasPrefix(out, "err") {
			c.Fail(sig, "property requires rejection, implementation answered: "+out)
		}
	default:
		if strings.ReplaceAll(out, " ", "_") != want {
			c.Fail(sig, "property requires "+want+", implementation answered: "+out)
		}
	}
	return out
}

const c29charset = "qpzry9x8gf2tvdw0s3jn54khce6mua7l"

func c29rand(c *Ctx, n int) []byte {
	b := make([]byte, n)
	c.Rng.Read(b)
	if c.Rng.Intn(6) == 0 { // structured: zeros / ones / single bit
		for i := range b {
			b[i] = []byte{0, 0xff, 0x80, 1}[c.Rng.Intn(4)]
		}
	}
	return b
}

func c29want(s string) string { return " #want=" + strings.ReplaceAll(s, " ", "_") }

// one address: encode, decode on its own and the other networks, then substitutions
func c29address(c *Ctx, net string, kind string, prog []byte, substAll bool, substSample int) {
	out := c29op(c, fmt.Sprintf("addrenc %s %s %s #kind=encode", net, kind, c29h(prog)))
	if !strings.HasPrefix(out, "ok ") {
		if (kind == "pkh" && len(prog) == 20) || (kind == "sh" && len(prog) == 32) {
			c.Fail("addrenc:"+net+":"+c29h(prog), "encoding a well-formed program failed: "+out)
		}
		return
	}
	addrHex := strings.Fields(out)[1]
	addr, _ := c29unh(addrHex)
	if len(addr) == 0 {
		c.Fail("addrenc:"+net+":"+c29h(prog), "EncodeAddress returned the empty string for a well-formed program")
		return
	}
	hrp := c29nets[net].Bech32HRPSegwit
	c29op(c, fmt.Sprintf("addrdec %s %s #kind=roundtrip%s", net, addrHex, c29want("ok "+kind+" "+c29h([]byte(hrp))+" "+c29h(prog))))
	up := []byte(strings.ToUpper(string(addr)))
	c29op(c, fmt.Sprintf("addrdec %s %s #kind=roundtrip-upper%s", net, c29h(up), c29want("ok "+kind+" "+c29h([]byte(hrp))+" "+c29h(prog))))
	for _, o := range c29netNames {
		if o != net {
			c29op(c, fmt.Sprintf("addrdec %s %s #kind=wrong-net #want=err", o, addrHex))
		}
	}
	// single-character substitutions
	positions := make([]int, 0, len(addr))
	for i := range addr {
		if substAll || c.Rng.Intn(len(addr)) < substSample {
			positions = append(positions, i)
		}
	}
	for _, i := range positions {
		var repl []byte
		if substAll {
			repl = append(repl, []byte(c29charset)...)
			repl = append(repl, '1', 'b', 'i', 'o', 'B', 'Q', ' ', '~', 0x7f, 0x80, 0xff, 0)
			u := []byte(strings.ToUpper(string(addr[i : i+1])))
			repl = append(repl, u[0])
		} else {
			repl = append(repl, c29charset[c.Rng.Intn(32)], c29charset[c.Rng.Intn(32)], byte(c.Rng.Intn(256)))
		}
		seen := map[byte]bool{addr[i]: true}
		for _, r := range repl {
			if seen[r] {
				continue
			}
			seen[r] = true
			m := append([]byte{}, addr...)
			m[i] = r
			c29op(c, fmt.Sprintf("addrdec %s %s #kind=substitution #want=err", net, c29h(m)))
		}
	}
}

func c29bech(c *Ctx, substAll bool) {
	// random lower-case printable hrp without upper-case letters, data within the 90 limit
	hl := 1 + c.Rng.Intn(10)
	if c.Rng.Intn(8) == 0 {
		hl = 1 + c.Rng.Intn(83)
	}
	hrp := make([]byte, hl)
	for i := range hrp {
		for {
			ch := byte(33 + c.Rng.Intn(94))
			if ch >= 'A' && ch <= 'Z' {
				continue
			}
			hrp[i] = ch
			break
		}
	}
	if c.Rng.Intn(3) == 0 {
		for i := range hrp {
			hrp[i] = "abc1xyz02"[c.Rng.Intn(9)]
		}
	}
	maxd := 90 - hl - 7
	dl := 0
	if maxd > 0 {
		dl = c.Rng.Intn(maxd + 1)
	}
	data := make([]byte, dl)
	for i := range data {
		data[i] = byte(c.Rng.Intn(32))
	}
	out := c29op(c, fmt.Sprintf("b32enc %s %s #kind=encode", c29h(hrp), c29h(data)))
	if !strings.HasPrefix(out, "ok ") {
		c.Fail("b32enc:"+c29h(hrp)+":"+c29h(data), "encoding valid 5-bit data failed: "+out)
		return
	}
	sHex := strings.Fields(out)[1]
	s, _ := c29unh(sHex)
	c29op(c, fmt.Sprintf("b32dec %s #kind=roundtrip%s", sHex, c29want("ok "+c29h(hrp)+" "+c29h(data))))
	// substitutions that keep the separator where it is and are not a mere case change
	sep := strings.LastIndexByte(string(s), '1')
	n := 6
	if substAll {
		n = len(s)
	}
	for k := 0; k < n; k++ {
		i := k
		if !substAll {
			i = c.Rng.Intn(len(s))
		}
		if i == sep {
			continue
		}
		var r byte
		if i > sep {
			r = c29charset[c.Rng.Intn(32)]
		} else {
			r = byte(33 + c.Rng.Intn(94))
		}
		if r == '1' || strings.ToLower(string(r)) == strings.ToLower(string(s[i])) {
			continue
		}
		m := append([]byte{}, s...)
		m[i] = r
		c29op(c, fmt.Sprintf("b32dec %s #kind=substitution #want=err", c29h(m)))
	}
	// anything else: must not panic
	m := append([]byte{}, s...)
	switch c.Rng.Intn(5) {
	case 0:
		m[c.Rng.Intn(len(m))] = byte(c.Rng.Intn(256))
	case 1:
		m = m[:c.Rng.Intn(len(m))]
	case 2:
		m = append(m, c29charset[c.Rng.Intn(32)])
	case 3:
		m[c.Rng.Intn(len(m))] = '1'
	case 4:
		m = []byte(strings.ToUpper(string(m)))
	}
	c29op(c, fmt.Sprintf("b32dec %s #kind=mutated #want=nopanic", c29h(m)))
	c29op(c, fmt.Sprintf("addrdec %s %s #kind=mutated #want=nopanic", c29netNames[c.Rng.Intn(3)], c29h(m)))
}

func c29junk(c *Ctx) {
	n := c.Rng.Intn(100)
	b := make([]byte, n)
	switch c.Rng.Intn(4) {
	case 0:
		c.Rng.Read(b)
	case 1:
		for i := range b {
			b[i] = byte(33 + c.Rng.Intn(94))
		}
	case 2:
		for i := range b {
			b[i] = c29charset[c.Rng.Intn(32)]
		}
		if n > 3 {
			copy(b, []string{"bn1", "tn1", "sn1", "BN1"}[c.Rng.Intn(4)])
		}
	case 3:
		for i := range b {
			b[i] = "ABCDEFGHIJKLMNOPQRSTUVWXYZ234567=\n\r a1"[c.Rng.Intn(38)]
		}
	}
	c29op(c, fmt.Sprintf("b32dec %s #kind=junk #want=nopanic", c29h(b)))
	c29op(c, fmt.Sprintf("addrdec %s %s #kind=junk #want=nopanic", c29netNames[c.Rng.Intn(3)], c29h(b)))
	ascii := true
	for _, x := range b {
		if x >= 0x80 {
			ascii = false
		}
	}
	if ascii {
		c29op(c, fmt.Sprintf("base32dec %s #kind=junk #want=nopanic", c29h(b)))
	} else {
		// non-ASCII: outside the model's domain (strings.Map rewrites invalid UTF-8); implementation only
		func() {
			defer func() {
				if r := recover(); r != nil {
					c.Fail("base32dec-nonascii:"+c29h(b), fmt.Sprint("DecodeString panicked: ", r))
				}
			}()
			base32.StdEncoding.DecodeString(string(b))
			c.Count("base32dec/nonascii-implonly/nopanic")
		}()
	}
}

func c29cvt(c *Ctx) {
	n := c.Rng.Intn(45)
	data := c29rand(c, n)
	// the address path: 8 -> 5 with pad, back 5 -> 8 without
	out := c29op(c, fmt.Sprintf("cvt %s 8 5 1 #kind=8to5", c29h(data)))
	if f := strings.Fields(out); len(f) == 2 && f[0] == "ok" {
		c29op(c, fmt.Sprintf("cvt %s 5 8 0 #kind=roundtrip%s", f[1], c29want("ok "+c29h(data))))
	} else {
		c.Fail("cvt:"+c29h(data), "ConvertBits(8,5,pad) failed: "+out)
	}
	// arbitrary group sizes incl. invalid ones, arbitrary bytes (high bits set)
	f, t := c.Rng.Intn(10), c.Rng.Intn(10)
	c29op(c, fmt.Sprintf("cvt %s %d %d %d #kind=any #want=nopanic", c29h(c29rand(c, c.Rng.Intn(12))), f, t, c.Rng.Intn(2)))
	d5 := make([]byte, c.Rng.Intn(70))
	for i := range d5 {
		d5[i] = byte(c.Rng.Intn(32))
	}
	c29op(c, fmt.Sprintf("cvt %s 5 8 0 #kind=5to8 #want=nopanic", c29h(d5)))
}

func c29base32(c *Ctx) {
	n := c.Rng.Intn(40)
	if c.Rng.Intn(3) == 0 {
		n = c.Rng.Intn(8)
	}
	data := c29rand(c, n)
	out := c29op(c, fmt.Sprintf("base32enc %s #kind=encode", c29h(data)))
	c29op(c, fmt.Sprintf("base32dec %s #kind=roundtrip%s", out, c29want("ok "+c29h(data))))
	s, _ := c29unh(out)
	if len(s) > 0 {
		m := append([]byte{}, s...)
		switch c.Rng.Intn(5) {
		case 0:
			m[c.Rng.Intn(len(m))] = byte(c.Rng.Intn(128))
		case 1:
			m = m[:c.Rng.Intn(len(m))]
		case 2:
			i := c.Rng.Intn(len(m))
			m = append(append(append([]byte{}, m[:i]...), '\n'), m[i:]...)
		case 3:
			m[c.Rng.Intn(len(m))] = '='
		case 4:
			m = append(m, "A=\r"[c.Rng.Intn(3)])
		}
		c29op(c, fmt.Sprintf("base32dec %s #kind=mutated #want=nopanic", c29h(m)))
	}
}

func c29mnemonic(c *Ctx) {
	lang := c29langs[c.Rng.Intn(len(c29langs))]
	sizes := []int{16, 20, 24, 28, 32}
	n := sizes[c.Rng.Intn(5)]
	e := c29rand(c, n)
	out := c29op(c, fmt.Sprintf("mnnew %s %s #kind=new", lang, c29h(e)))
	f := strings.Fields(out)
	if len(f) != 2 || f[0] != "ok" {
		c.Fail("mnnew:"+lang+":"+c29h(e), "NewMnemonic failed on a valid entropy length: "+out)
		return
	}
	c29op(c, fmt.Sprintf("mnent %s %s #kind=roundtrip%s", lang, f[1], c29want("ok "+c29h(e))))
	// the real string API as well (words joined by one space)
	if m, err := mnemonic.NewMnemonic(e, lang); err == nil {
		back, err := mnemonic.EntropyFromMnemonic(m, lang)
		if err != nil || c29h(back) != c29h(e) {
			c.Fail("mnemonic-string:"+lang+":"+c29h(e), fmt.Sprintf("EntropyFromMnemonic(NewMnemonic(e)) = %x, %v", back, err))
		}
		if !mnemonic.IsMnemonicValid(m, lang) {
			c.Fail("mnemonic-valid:"+lang+":"+c29h(e), "IsMnemonicValid rejects a generated mnemonic")
		}
	}
	// white-space variants of the valid sentence: same answer, no entry point panics
	for _, v := range c29wsVariants {
		if v != "clean" && c.Rng.Intn(3) != 0 {
			continue
		}
		kind := "ws-" + v
		if n == 16 && c.Rng.Intn(6) == 0 {
			kind += "-hsm"
		}
		c29op(c, fmt.Sprintf("mnstr %s %s %s #kind=%s%s", lang, v, f[1], kind, c29want("ok "+c29h(e)+" valid=true")))
	}
	// corrupt one word: must not decode to the same entropy (checksum catches most)
	idx := strings.Split(f[1], ",")
	m := append([]string{}, idx...)
	switch c.Rng.Intn(4) {
	case 0:
		m[c.Rng.Intn(len(m))] = strconv.Itoa(c.Rng.Intn(2048))
	case 1:
		m[c.Rng.Intn(len(m))] = "x"
	case 2:
		m = m[:c.Rng.Intn(len(m))]
	case 3:
		i, j := c.Rng.Intn(len(m)), c.Rng.Intn(len(m))
		m[i], m[j] = m[j], m[i]
	}
	ms := strings.Join(m, ",")
	if ms == "" {
		ms = "-"
	}
	c29op(c, fmt.Sprintf("mnent %s %s #kind=mutated #want=nopanic", lang, ms))
	// near-valid sentences with irregular white space
	c29op(c, fmt.Sprintf("mnstr %s %s %s #kind=ws-near-valid #want=nopanic", lang, c29wsVariants[c.Rng.Intn(len(c29wsVariants))], ms))
	// invalid entropy lengths
	bad := c.Rng.Intn(40)
	c29op(c, fmt.Sprintf("mnnew %s %s #kind=any-length #want=nopanic", lang, c29h(c29rand(c, bad))))
}

func runC29(c *Ctx) {
	c.Rule = "addresses: random/structured 20- and 32-byte programs on the three networks: encode, decode (also upper-cased), decode on the other networks, every single-character substitution (all positions x bech32 charset + separator/case/non-charset/non-ASCII bytes) for a number of addresses and sampled ones for the rest; bech32: random hrp (1..83 printable chars) and data within the 90 limit: encode/decode, substitutions, mutated strings; ConvertBits 8->5->8 and arbitrary group sizes; base32 std encode/decode incl. mutated strings; BIP-39 entropy<->word indices for 7 languages x 5 lengths incl. corrupted sentences; junk strings into every decoder. A case is distinct by its op line."
	if c.Replay != "" {
		for _, l := range c.ReplayLines() {
			c29op(c, l)
		}
		return
	}
	for _, l := range c.CorpusLines() {
		c29op(c, l)
	}
	fullSubst := 6
	if c.Tier != "quick" {
		fullSubst = 60
	}
	k := 0
	for _, net := range c29netNames {
		for _, kind := range []string{"pkh", "sh"} {
			n := 20
			if kind == "sh" {
				n = 32
			}
			for j := 0; j < fullSubst/6+1; j++ {
				c29address(c, net, kind, c29rand(c, n), k < fullSubst, 2)
				k++
			}
			// wrong program lengths are refused
			c29op(c, fmt.Sprintf("addrenc %s %s %s #kind=bad-length #want=err", net, kind, c29h(c29rand(c, n+1-2*c.Rng.Intn(2)))))
		}
	}
	for i := 0; i < c.N; i++ {
		switch c.Rng.Intn(8) {
		case 0, 1:
			kind, n := "pkh", 20
			if c.Rng.Intn(2) == 0 {
				kind, n = "sh", 32
			}
			c29address(c, c29netNames[c.Rng.Intn(3)], kind, c29rand(c, n), false, 3)
		case 2, 3:
			c29bech(c, c.Rng.Intn(10) == 0)
		case 4:
			c29cvt(c)
		case 5:
			c29base32(c)
		case 6:
			c29mnemonic(c)
		case 7:
			c29junk(c)
		}
	}
}

func init() { register("c29", runC29) }
