//go:build hnode || hall

package main

// Orphan-pool cases of the node engine (mode `opool`): the real protocol.OrphanManage with
// its capacity limit, least-recently-added eviction and expiry pass, against
// lean/BytomModel/Model/OrphanPool.lean. Op lines: oadd <id> <parent> | odel <id> |
// oexpire <k> (k = number of Add calls after which the clock reading was taken).
// Direct oracles (implementation alone): C12:opool-over-limit, C12:opool-index-not-grouping,
// C12:opool-evicted-not-oldest, C12:opool-panic.

import (
	"fmt"
	"sort"
	"strings"
	"time"

	"github.com/bytom/bytom/protocol"
	"github.com/bytom/bytom/protocol/bc"
	"github.com/bytom/bytom/protocol/bc/types"
)

type opoolCase struct {
	c       *Ctx
	om      *protocol.OrphanManage
	limit   int
	blocks  map[int]*types.Block // id -> block
	idOf    map[bc.Hash]int
	parent  map[int]int
	marks   []time.Time // marks[k] = clock reading after the k-th Add call (1-based)
	arrival map[int]int // id -> number of the Add call that inserted it (harness's own bookkeeping)
	present map[int]bool
	order   []int // ids present, arrival order (harness's own bookkeeping)
}

func (oc *opoolCase) block(id, parent int) *types.Block {
	if b, ok := oc.blocks[id]; ok {
		return b
	}
	var prev bc.Hash
	if pb, ok := oc.blocks[parent]; ok {
		prev = pb.Hash()
	} else {
		prev = bc.NewHash([32]byte{0xee, byte(parent >> 8), byte(parent)})
		oc.idOf[prev] = parent
	}
	b := &types.Block{BlockHeader: types.BlockHeader{Version: 1, Height: uint64(1000 + id), PreviousBlockHash: prev, Timestamp: uint64(1700000000000 + id)}}
	oc.blocks[id] = b
	oc.idOf[b.Hash()] = id
	oc.parent[id] = parent
	return b
}

func joinInts(l []int, sep string) string {
	if len(l) == 0 {
		return "-"
	}
	s := make([]string, len(l))
	for i, x := range l {
		s[i] = fmt.Sprint(x)
	}
	return strings.Join(s, sep)
}

// dump is the canonical answer line; it also evaluates the property-level oracles on the
// implementation's state with the harness's own bookkeeping as reference.
func (oc *opoolCase) dump() string {
	hs, prev := oc.om.VerifDump()
	ids := []int{}
	for _, h := range hs {
		ids = append(ids, oc.idOf[h])
	}
	sort.Ints(ids)
	ps := []int{}
	for p := range prev {
		ps = append(ps, oc.idOf[p])
	}
	sort.Ints(ps)
	byP := map[int][]int{}
	for p, l := range prev {
		for _, h := range l {
			byP[oc.idOf[p]] = append(byP[oc.idOf[p]], oc.idOf[h])
		}
	}
	parts := []string{}
	for _, p := range ps {
		parts = append(parts, fmt.Sprintf("%d:%s", p, joinInts(byP[p], ",")))
	}
	idx := "-"
	if len(parts) > 0 {
		idx = strings.Join(parts, ";")
	}
	// the waiting index must be exactly the grouping of the pool by parent, arrival order
	want := map[int][]int{}
	in := map[int]bool{}
	for _, id := range ids {
		in[id] = true
	}
	for _, id := range oc.order {
		if in[id] {
			want[oc.parent[id]] = append(want[oc.parent[id]], id)
		}
	}
	grouped := len(want) == len(byP) && len(ps) == len(byP)
	for p, l := range want {
		if joinInts(l, ",") != joinInts(byP[p], ",") {
			grouped = false
		}
	}
	if !grouped {
		oc.c.Fail("C12:opool-index-not-grouping", fmt.Sprintf("ids=%v idx=%s", ids, idx))
	}
	if len(ids) > oc.limit {
		oc.c.Fail("C12:opool-over-limit", fmt.Sprintf("n=%d limit=%d", len(ids), oc.limit))
	}
	return fmt.Sprintf("n=%d ids=%s idx=%s grouped=%v", len(ids), joinInts(ids, ","), idx, grouped)
}

func (oc *opoolCase) guarded(op string, f func()) {
	defer func() {
		if r := recover(); r != nil {
			oc.c.Fail("C12:opool-panic", fmt.Sprintf("%s: %v", op, r))
			oc.c.Op(op, "panic")
		}
	}()
	f()
}

func (oc *opoolCase) tick() time.Time {
	t := time.Now()
	for {
		u := time.Now()
		if u.After(t) {
			return u
		}
	}
}

func (oc *opoolCase) syncOrder() {
	hs, _ := oc.om.VerifDump()
	in := map[int]bool{}
	for _, h := range hs {
		in[oc.idOf[h]] = true
	}
	kept := oc.order[:0]
	for _, id := range oc.order {
		if in[id] {
			kept = append(kept, id)
		} else {
			delete(oc.present, id)
		}
	}
	oc.order = kept
}

func (oc *opoolCase) add(id, parent int) {
	op := fmt.Sprintf("oadd %d %d", id, parent)
	oc.guarded(op, func() {
		b := oc.block(id, parent)
		parent = oc.parent[id] // a re-added id keeps its first parent (same block)
		op = fmt.Sprintf("oadd %d %d", id, parent)
		was := oc.present[id]
		full := len(oc.order) >= oc.limit
		oldest := -1
		if len(oc.order) > 0 {
			oldest = oc.order[0]
		}
		oc.tick()
		oc.om.Add(b)
		oc.marks = append(oc.marks, oc.tick())
		if !was {
			oc.present[id] = true
			oc.order = append(oc.order, id)
			oc.arrival[id] = len(oc.marks) - 1
			if full {
				oc.c.Count("opool:add-when-full")
				h := oc.blocks[oldest].Hash()
				if oc.om.BlockExist(&h) && oc.limit > 0 {
					oc.c.Fail("C12:opool-evicted-not-oldest", fmt.Sprintf("oldest %d survived a full Add", oldest))
				}
			}
		} else {
			oc.c.Count("opool:add-duplicate")
		}
		if h := b.Hash(); !oc.om.BlockExist(&h) {
			oc.c.Fail("C12:opool-added-block-missing", fmt.Sprintf("id=%d", id))
		}
		oc.syncOrder()
		oc.c.Op(op, oc.dump())
	})
}

func (oc *opoolCase) del(id int) {
	op := fmt.Sprintf("odel %d", id)
	oc.guarded(op, func() {
		var h bc.Hash
		if b, ok := oc.blocks[id]; ok {
			h = b.Hash()
		} else {
			h = bc.NewHash([32]byte{0xdd, byte(id)})
			oc.idOf[h] = id
		}
		oc.om.Delete(&h)
		oc.syncOrder()
		oc.c.Count("opool:del")
		oc.c.Op(op, oc.dump())
	})
}

func (oc *opoolCase) expire(k int) {
	op := fmt.Sprintf("oexpire %d", k)
	oc.guarded(op, func() {
		var now time.Time
		if k >= 1 && k < len(oc.marks) {
			now = oc.marks[k].Add(protocol.VerifOrphanBlockTTL())
		} else if k >= len(oc.marks) {
			now = oc.tick().Add(protocol.VerifOrphanBlockTTL())
		} else {
			now = oc.marks[0]
		}
		oc.om.VerifExpire(now)
		// expected survivors by the harness's own bookkeeping: arrival number > k
		for _, id := range oc.order {
			h := oc.blocks[id].Hash()
			if (oc.arrival[id] <= k) == oc.om.BlockExist(&h) {
				oc.c.Fail("C12:opool-expiry-wrong", fmt.Sprintf("id=%d arrival=%d k=%d", id, oc.arrival[id], k))
			}
		}
		oc.syncOrder()
		oc.c.Count("opool:expire")
		oc.c.Op(op, oc.dump())
	})
}

func genCaseOpool(c *Ctx) {
	limits := []int{1, 2, 3, 4, 8, 16, 32, 256}
	limit := limits[c.Rng.Intn(len(limits))]
	old := protocol.VerifSetOrphanLimit(limit)
	defer protocol.VerifSetOrphanLimit(old)
	oc := &opoolCase{c: c, limit: limit, blocks: map[int]*types.Block{}, idOf: map[bc.Hash]int{}, parent: map[int]int{},
		arrival: map[int]int{}, present: map[int]bool{}}
	oc.om = protocol.NewOrphanManageWithData(map[bc.Hash]*protocol.OrphanBlock{}, map[bc.Hash][]*bc.Hash{})
	oc.marks = []time.Time{oc.tick()}
	c.Op(fmt.Sprintf("reset limit=%d%s", limit, caseTag), "ok")
	c.Count(fmt.Sprintf("opool:limit=%d", limit))
	n := 20 + c.Rng.Intn(60) + 3*limit // long enough for the pool to fill and turn over
	if limit == 256 {
		n = 450 + c.Rng.Intn(200)
	}
	nextID := 1
	nParents := 1 + c.Rng.Intn(4)
	for i := 0; i < n; i++ {
		r := c.Rng.Intn(100)
		if limit == 256 && r < 80 {
			r = r * 62 / 80 // a pool of 256 needs more adds to fill up; deletes, duplicates and expiry stay in the mix
		} else if limit == 256 {
			r = 62 + (r-80)*38/20
		}
		switch {
		case r < 62:
			id := nextID
			nextID++
			var parent int
			switch c.Rng.Intn(3) {
			case 0: // a few shared missing parents (sibling orphans)
				parent = 100000 + c.Rng.Intn(nParents)
			case 1: // child of another orphan (chains)
				if id > 1 {
					parent = 1 + c.Rng.Intn(id-1)
				} else {
					parent = 100000
				}
			default:
				parent = 100000 + c.Rng.Intn(50)
			}
			oc.add(id, parent)
		case r < 70: // duplicate add of a present or an evicted id
			if nextID > 1 {
				id := 1 + c.Rng.Intn(nextID-1)
				oc.add(id, oc.parent[id])
			}
		case r < 88:
			if nextID > 1 && c.Rng.Intn(5) > 0 {
				oc.del(1 + c.Rng.Intn(nextID-1))
			} else {
				oc.del(90000 + c.Rng.Intn(5)) // never added
			}
		default:
			k := c.Rng.Intn(len(oc.marks) + 1)
			oc.expire(k)
		}
	}
	c.Distinct(fmt.Sprintf("opool-%d-%d", limit, n))
}
