//go:build hc28 || hall

package main

import (
	"bytes"
	"encoding/hex"
	"encoding/json"
	"fmt"
	"math/rand"
	"os"
	"runtime"
	"strings"
	"sync"
	"time"

	"github.com/pborman/uuid"

	"github.com/bytom/bytom/blockchain/pseudohsm"
	"github.com/bytom/bytom/crypto/ed25519/chainkd"
)

// C28: chainkd derivation / signatures and the pseudohsm key file / key store, real implementation
// in-process.  All values hex ("-" empty), paths comma separated ("." = empty path).
// `#want=<result>|any` carries the direct oracle's requirement, `#kind=` the generator class.
//
//	root <seed> | xpub <xprv> | child <xprv> <sel> <0|1> | pubchild <xpub> <sel>
//	derive <xprv> <path> | pubderive <xpub> <path> | sign <xprv> <msg> | verify <xpub> <msg> <sig>
//	ks <auth> <auth2>      (encrypt with auth, decrypt with auth2; light scrypt parameters)
//
// Derivation with a REUSED path value: `rderive <xprv> <path> <reuse|fresh|scribble>` => xpub.Derive(path)
// — the harness keeps ONE [][]byte path value per case; `reuse` writes the given selectors IN PLACE
// into that value's existing backing arrays (an address-index loop doing PutUint32(path[4], i)) and
// derives with it, `fresh` derives with a newly allocated path, `scribble` derives with the reused
// value and overwrites its bytes afterwards.  Oracle: the result equals xprv.Derive(deep copy).XPub()
// and a signature of the derived xprv verifies under it; the model derives from the path CONTENTS.
//
// Concurrent signing: `csign <goroutines> <gomaxprocs> <seed>` => ok   — the batch (keys derived from
// the seed, messages of 32 bytes … 64 KiB) is signed by that many goroutines at once; every
// signature must verify under the derived xpub AND equal the signature the same (key, message)
// gets sequentially; each call under recover (`panic:sign`), the batch under a watchdog.
//
// Stateful key-store histories on ONE running pseudohsm.HSM over a temp directory (slots = aliases
// k0..k2, passwords p0..p2 by number; a case starts with `reset`):
//
//	reset | hcreate <k> <pw> | hsign <k> <pw> | hcheck <k> <pw> | hresetpw <k> <old> <new>
//	| hdelete <k> <pw> | hreload                          => ok | err
//
// compared with the reference model Model/HSM.lean (an operation succeeds iff the presented
// password is the slot's CURRENT one) and with the direct oracle "the long-lived HSM answers every
// hsign / hcheck exactly like a NEW HSM object over the same directory" (and signatures verify).

func c28h(b []byte) string {
	if len(b) == 0 {
		return "-"
	}
	return hex.EncodeToString(b)
}

func c28unh(s string) ([]byte, bool) {
	if s == "-" {
		return nil, true
	}
	b, err := hex.DecodeString(s)
	return b, err == nil
}

func c28path(s string) ([][]byte, bool) {
	if s == "." {
		return nil, true
	}
	var out [][]byte
	for _, w := range strings.Split(s, ",") {
		b, ok := c28unh(w)
		if !ok {
			return nil, false
		}
		out = append(out, b)
	}
	return out, true
}

func c28pathStr(p [][]byte) string {
	if len(p) == 0 {
		return "."
	}
	s := make([]string, len(p))
	for i := range p {
		s[i] = c28h(p[i])
	}
	return strings.Join(s, ",")
}

func c28xprv(b []byte) (x chainkd.XPrv, ok bool) {
	if len(b) != 64 {
		return x, false
	}
	copy(x[:], b)
	return x, true
}

func c28xpub(b []byte) (x chainkd.XPub, ok bool) {
	if len(b) != 64 {
		return x, false
	}
	copy(x[:], b)
	return x, true
}

var c28ksKey = func() *pseudohsm.XKey {
	xprv := chainkd.RootXPrv([]byte("c28 key store key"))
	return &pseudohsm.XKey{ID: uuid.UUID(bytes.Repeat([]byte{7}, 16)), KeyType: "bytom_kd", Alias: "c28", XPrv: xprv, XPub: xprv.XPub()}
}()

func c28impl(w []string) (out string) {
	defer func() {
		if r := recover(); r != nil {
			out = "panic"
		}
	}()
	arg := func(i int) []byte {
		b, ok := c28unh(w[i])
		if !ok {
			panic("bad hex")
		}
		return b
	}
	switch {
	case w[0] == "root" && len(w) == 2:
		x := chainkd.RootXPrv(arg(1))
		return c28h(x[:])
	case w[0] == "xpub" && len(w) == 2:
		x, ok := c28xprv(arg(1))
		if !ok {
			return "bad-op"
		}
		p := x.XPub()
		return c28h(p[:])
	case w[0] == "child" && len(w) == 4:
		x, ok := c28xprv(arg(1))
		if !ok {
			return "bad-op"
		}
		c := x.Child(arg(2), w[3] == "1")
		return c28h(c[:])
	case w[0] == "pubchild" && len(w) == 3:
		x, ok := c28xpub(arg(1))
		if !ok {
			return "bad-op"
		}
		c := x.Child(arg(2))
		return c28h(c[:])
	case w[0] == "derive" && len(w) == 3:
		x, ok := c28xprv(arg(1))
		p, ok2 := c28path(w[2])
		if !ok || !ok2 {
			return "bad-op"
		}
		c := x.Derive(p)
		return c28h(c[:])
	case w[0] == "pubderive" && len(w) == 3:
		x, ok := c28xpub(arg(1))
		p, ok2 := c28path(w[2])
		if !ok || !ok2 {
			return "bad-op"
		}
		c := x.Derive(p)
		return c28h(c[:])
	case w[0] == "sign" && len(w) == 3:
		x, ok := c28xprv(arg(1))
		if !ok {
			return "bad-op"
		}
		return c28h(x.Sign(arg(2)))
	case w[0] == "verify" && len(w) == 4:
		x, ok := c28xpub(arg(1))
		if !ok {
			return "bad-op"
		}
		return fmt.Sprint(x.Verify(arg(2), arg(3)))
	case w[0] == "ks" && len(w) == 3:
		blob, err := pseudohsm.EncryptKey(c28ksKey, string(arg(1)), 2, 1)
		if err != nil {
			return "err-encrypt"
		}
		k, err := pseudohsm.DecryptKey(blob, string(arg(2)))
		if err == pseudohsm.ErrDecrypt {
			return "err-decrypt"
		}
		if err != nil {
			return "err-other"
		}
		if k.XPrv != c28ksKey.XPrv || k.XPub != c28ksKey.XPub {
			return "ok-wrong-key"
		}
		return "ok"
	}
	return "bad-op"
}

// ---- derivation with a reused, in-place mutated path value ---------------------------------

var c28pathReg [][]byte // the caller-owned path value of the current case

func c28rderive(c *Ctx, w []string) (out string, fail string) {
	defer func() {
		if r := recover(); r != nil {
			out, fail = "panic", fmt.Sprint("Derive panicked: ", r)
		}
	}()
	xb, ok1 := c28unh(w[1])
	path, ok2 := c28path(w[2])
	xprv, ok3 := c28xprv(xb)
	if !ok1 || !ok2 || !ok3 {
		return "bad-op", ""
	}
	deep := func() [][]byte {
		cp := make([][]byte, len(path))
		for i := range path {
			cp[i] = append([]byte{}, path[i]...)
		}
		return cp
	}
	var arg [][]byte
	switch w[3] {
	case "fresh":
		arg = deep()
	case "reuse", "scribble":
		same := len(c28pathReg) == len(path)
		for i := 0; same && i < len(path); i++ {
			same = len(c28pathReg[i]) == len(path[i])
		}
		if !same {
			c28pathReg = deep() // a new value of the new shape, reused from now on
		} else {
			for i := range path {
				copy(c28pathReg[i], path[i]) // in place: same slice headers, same backing arrays
			}
		}
		arg = c28pathReg
	default:
		return "bad-op", ""
	}
	xpub := xprv.XPub()
	got := xpub.Derive(arg)
	refPrv := xprv.Derive(deep())
	ref := refPrv.XPub()
	if got != ref {
		fail = fmt.Sprintf("xpub.Derive(path) = %x… but xprv.Derive(path).XPub() = %x… (path value %s)", got[:8], ref[:8], w[3])
	} else if msg := []byte("rderive"); !got.Verify(msg, refPrv.Sign(msg)) {
		fail = "signature of the derived xprv does not verify under the derived xpub"
	}
	if w[3] == "scribble" {
		for i := range c28pathReg {
			for j := range c28pathReg[i] {
				c28pathReg[i][j] ^= 0xa5
			}
		}
	}
	return c28h(got[:]), fail
}

// ---- concurrent signing ------------------------------------------------------------------

func c28csign(c *Ctx, w []string) (out string, fail string) {
	var g, procs int
	var seed int64
	if _, err := fmt.Sscanf(w[1]+" "+w[2]+" "+w[3], "%d %d %d", &g, &procs, &seed); err != nil || g < 1 || g > 512 {
		return "bad-op", ""
	}
	rng := rand.New(rand.NewSource(seed))
	// several derived keys
	type key struct {
		xprv chainkd.XPrv
		xpub chainkd.XPub
	}
	keys := make([]key, 4)
	for i := range keys {
		sd := make([]byte, 32)
		rng.Read(sd)
		x := chainkd.RootXPrv(sd).Derive([][]byte{{byte(i)}, sd[:3]})
		keys[i] = key{x, x.XPub()}
	}
	sizes := []int{32, 33, 64, 100, 127, 128, 129, 200, 1000, 4096, 65536}
	type job struct {
		k    int
		msg  []byte
		want []byte
	}
	perG := 48
	jobs := make([][]job, g)
	for i := range jobs {
		for j := 0; j < perG; j++ {
			n := sizes[rng.Intn(len(sizes))]
			if rng.Intn(3) == 0 { // a good share of long messages: most of the call is then spent hashing
				n = []int{4096, 16384, 65536}[rng.Intn(3)]
			}
			m := make([]byte, n)
			rng.Read(m)
			k := rng.Intn(len(keys))
			jobs[i] = append(jobs[i], job{k, m, nil})
		}
	}
	// the sequential signatures first (determinism reference)
	for i := range jobs {
		for j := range jobs[i] {
			jobs[i][j].want = keys[jobs[i][j].k].xprv.Sign(jobs[i][j].msg)
		}
	}
	if procs > 0 {
		defer runtime.GOMAXPROCS(runtime.GOMAXPROCS(procs))
	}
	var mu sync.Mutex
	bad, panics := 0, 0
	first := ""
	var wg sync.WaitGroup
	start := make(chan struct{})
	for i := 0; i < g; i++ {
		wg.Add(1)
		go func(js []job) {
			defer wg.Done()
			<-start
			for _, jb := range js {
				func() {
					defer func() {
						if r := recover(); r != nil {
							mu.Lock()
							panics++
							if first == "" {
								first = fmt.Sprint("panic:sign: ", r)
							}
							mu.Unlock()
						}
					}()
					sig := keys[jb.k].xprv.Sign(jb.msg)
					ok := keys[jb.k].xpub.Verify(jb.msg, sig)
					if !ok || !bytes.Equal(sig, jb.want) {
						mu.Lock()
						bad++
						if first == "" {
							first = fmt.Sprintf("key %d, message of %d bytes %x…: concurrent signature verifies=%v, equals the sequential signature=%v", jb.k, len(jb.msg), jb.msg[:8], ok, bytes.Equal(sig, jb.want))
						}
						mu.Unlock()
					}
				}()
			}
		}(jobs[i])
	}
	done := make(chan struct{})
	go func() { wg.Wait(); close(done) }()
	// a stirrer: every collection stops the world, so the signing goroutines are descheduled at
	// arbitrary points of a call and resumed on other processors
	go func() {
		for {
			select {
			case <-done:
				return
			default:
				runtime.GC()
				time.Sleep(200 * time.Microsecond)
			}
		}
	}()
	close(start)
	select {
	case <-done:
	case <-time.After(120 * time.Second):
		return "timeout", "concurrent signing batch did not finish within 120 s (watchdog)"
	}
	c.Count(fmt.Sprintf("csign/signatures-g%d-p%d", g, procs))
	c.Dist[fmt.Sprintf("csign/signatures-g%d-p%d", g, procs)] += g*perG - 1
	switch {
	case panics > 0:
		return "panic", fmt.Sprintf("%d panics, %d bad signatures of %d; first: %s", panics, bad, g*perG, first)
	case bad > 0:
		return "bad", fmt.Sprintf("%d of %d concurrent signatures are wrong; first: %s", bad, g*perG, first)
	}
	return "ok", ""
}

// ---- stateful HSM histories -------------------------------------------------------------

type c28hsm struct {
	dir   string
	h     *pseudohsm.HSM
	xpubs map[int]chainkd.XPub // slot -> xpub of the key created there (kept after delete)
	light bool
}

var c28cur *c28hsm
var c28nextLight = true // scrypt parameters of the HSM the next h-op creates (set by `reset`)

// the password universe of the key-store histories: number -> passphrase (fixed, so that op
// lines replay).  Families share a prefix of 32 / 63 / 64 / 100 / 128 / 999 bytes and differ only
// after it; the empty passphrase and one-byte ones are included.
var c28pwTable = func() []string {
	rep := func(ch string, n int) string { return strings.Repeat(ch, n) }
	return []string{
		"pass-0-word", "pass-1-word", "pass-2-word", // 0..2 short, distinct everywhere
		"", "a", "b", // 3..5 empty / one byte
		rep("x", 63), rep("x", 64), rep("x", 65), rep("x", 64) + "A", rep("x", 64) + "B", // 6..10 around 64
		rep("y", 32) + "1", rep("y", 32) + "2", // 11,12 share 32
		rep("w", 99) + "1", rep("w", 99) + "2", // 13,14 length 100, last byte differs
		rep("z", 128) + "1", rep("z", 128) + "2", // 15,16 share 128
		rep("v", 999) + "1", rep("v", 999) + "2", rep("v", 1000), // 17..19 length 1000 / share 999
	}
}()

// families of passwords that are easy to confuse with one another
var c28pwFamilies = [][]int{{0, 1, 2}, {3, 4, 5}, {6, 7, 8, 9, 10}, {11, 12, 4}, {13, 14, 19}, {15, 16, 7}, {17, 18, 19}}

func c28pw(i string) string {
	var k int
	if _, err := fmt.Sscanf(i, "%d", &k); err == nil && k >= 0 && k < len(c28pwTable) {
		return c28pwTable[k]
	}
	return "pass-" + i + "-word"
}

func c28hsmNew(dir string, light bool) *pseudohsm.HSM {
	if light {
		h, _ := pseudohsm.VerifNew(dir, 2, 1)
		return h
	}
	h, _ := pseudohsm.New(dir)
	return h
}

func c28hsmReset(light bool) {
	c28hsmClose()
	dir, err := os.MkdirTemp("/var/tmp", "verif-c28-hsm-")
	if err != nil {
		panic(err)
	}
	c28cur = &c28hsm{dir: dir, h: c28hsmNew(dir, light), xpubs: map[int]chainkd.XPub{}, light: light}
}

func c28hsmClose() {
	if c28cur != nil {
		pseudohsm.VerifClose(c28cur.h)
		os.RemoveAll(c28cur.dir)
		c28cur = nil
	}
}

// one HSM op on the long-lived object; for hsign / hcheck also on a NEW object over the same dir
func c28hsmOp(c *Ctx, w []string) (out string, fail string) {
	defer func() {
		if r := recover(); r != nil {
			out, fail = "panic", fmt.Sprint("HSM operation panicked: ", r)
		}
	}()
	st := c28cur
	res := func(err error) string {
		if err != nil {
			return "err"
		}
		return "ok"
	}
	slot := func(i int) (int, chainkd.XPub, bool) {
		var k int
		fmt.Sscanf(w[i], "%d", &k)
		x, ok := st.xpubs[k]
		return k, x, ok
	}
	switch {
	case w[0] == "hcreate" && len(w) == 3:
		k, _, _ := slot(1)
		xp, _, err := st.h.XCreate(fmt.Sprintf("k%d", k), c28pw(w[2]), "en")
		if err == nil {
			st.xpubs[k] = xp.XPub
		}
		return res(err), ""
	case (w[0] == "hsign" || w[0] == "hcheck") && len(w) == 3:
		_, xpub, known := slot(1)
		if !known {
			xpub = chainkd.XPub{1, 2, 3} // never created: unknown key
		}
		fresh := c28hsmNew(st.dir, st.light)
		defer pseudohsm.VerifClose(fresh)
		if w[0] == "hcheck" {
			_, e1 := st.h.LoadChainKDKey(xpub, c28pw(w[2]))
			_, e2 := fresh.LoadChainKDKey(xpub, c28pw(w[2]))
			if (e1 == nil) != (e2 == nil) {
				fail = fmt.Sprintf("LoadChainKDKey on the running HSM: %v; on a new HSM over the same directory: %v", e1, e2)
			}
			return res(e1), fail
		}
		path := [][]byte{{byte(len(w[2]))}, []byte(w[1])}
		msg := []byte("msg " + w[1] + w[2])
		s1, e1 := st.h.XSign(xpub, path, msg, c28pw(w[2]))
		s2, e2 := fresh.XSign(xpub, path, msg, c28pw(w[2]))
		switch {
		case (e1 == nil) != (e2 == nil):
			fail = fmt.Sprintf("XSign on the running HSM: %v; on a new HSM over the same directory: %v", e1, e2)
		case e1 == nil && !bytes.Equal(s1, s2):
			fail = "XSign on the running HSM and on a new HSM give different signatures"
		case e1 == nil && !xpub.Derive(path).Verify(msg, s1):
			fail = "XSign signature does not verify under the derived xpub"
		}
		return res(e1), fail
	case w[0] == "hresetpw" && len(w) == 4:
		_, xpub, known := slot(1)
		if !known {
			xpub = chainkd.XPub{1, 2, 3}
		}
		return res(st.h.ResetPassword(xpub, c28pw(w[2]), c28pw(w[3]))), ""
	case w[0] == "hdelete" && len(w) == 3:
		k, xpub, known := slot(1)
		if !known {
			xpub = chainkd.XPub{1, 2, 3}
		}
		err := st.h.XDelete(xpub, c28pw(w[2]))
		if err == nil {
			delete(st.xpubs, k)
		}
		return res(err), ""
	case w[0] == "hreload" && len(w) == 1:
		pseudohsm.VerifClose(st.h)
		st.h = c28hsmNew(st.dir, st.light)
		return "ok", ""
	}
	return "bad-op", ""
}

func c28op(c *Ctx, line string) string {
	if f := strings.Fields(line); len(f) >= 4 && f[0] == "rderive" {
		out, fail := c28rderive(c, f)
		if out == "bad-op" {
			return out
		}
		c.Op(line, out)
		res := "value"
		if out == "panic" {
			res = out
		}
		c.Count("rderive/" + f[3] + "/" + res)
		c.Distinct(line)
		if fail != "" {
			c.Fail("derive-reused-path:"+strings.Join(f[:4], " "), fail)
		}
		return out
	}
	if f := strings.Fields(line); len(f) >= 4 && f[0] == "csign" {
		out, fail := c28csign(c, f)
		if out == "bad-op" {
			return out
		}
		c.Op(line, out)
		c.Count("csign/" + out)
		c.Distinct(line)
		if fail != "" {
			sig := "sign-concurrent:" + strings.Join(f[:4], " ")
			if out == "panic" {
				sig = "panic:sign:" + strings.Join(f[:4], " ")
			}
			c.Fail(sig, fail)
		}
		return out
	}
	if f := strings.Fields(line); len(f) > 0 && (f[0] == "reset" || strings.HasPrefix(f[0], "h")) {
		var w []string
		kind := "hsm"
		for _, x := range f {
			if strings.HasPrefix(x, "#kind=") {
				kind = x[6:]
			} else if !strings.HasPrefix(x, "#") {
				w = append(w, x)
			}
		}
		if w[0] == "reset" {
			// a case boundary: the key store (temp dir + HSM object) is created by the first h-op
			c28hsmClose()
			c28pathReg = nil
			c28nextLight = kind != "hsm-lightscrypt"
			c.Op(line, "ok")
			return "ok"
		}
		if c28cur == nil {
			c28hsmReset(c28nextLight)
		}
		out, fail := c28hsmOp(c, w)
		if out == "bad-op" {
			return out
		}
		c.Op(line, out)
		c.Count(w[0] + "/" + kind + "/" + out)
		c.Distinct(line)
		if fail != "" {
			c.Fail("hsm-history:"+strings.Join(w, " "), fail)
		}
		return out
	}
	var w []string
	want, kind := "", "none"
	for _, x := range strings.Fields(line) {
		if strings.HasPrefix(x, "#want=") {
			want = x[6:]
		} else if strings.HasPrefix(x, "#kind=") {
			kind = x[6:]
		} else {
			w = append(w, x)
		}
	}
	if len(w) == 0 {
		return ""
	}
	out := c28impl(w)
	if out == "bad-op" {
		return out
	}
	c.Op(line, out)
	res := "value"
	if out == "panic" || out == "true" || out == "false" || strings.HasPrefix(out, "err") || strings.HasPrefix(out, "ok") {
		res = out
	}
	c.Count(w[0] + "/" + kind + "/" + res)
	c.Distinct(line)
	sig := kind + ":" + strings.Join(w, " ")
	if len(sig) > 400 {
		sig = sig[:400]
	}
	if want != "" && want != "any" && out != want {
		c.Fail(sig, "property requires "+want+", implementation answered: "+out)
	}
	if want == "" && out == "panic" {
		c.Fail(sig, "implementation panicked")
	}
	return out
}

func c28bytes(c *Ctx, n int) []byte {
	b := make([]byte, n)
	c.Rng.Read(b)
	if c.Rng.Intn(8) == 0 {
		for i := range b {
			b[i] = []byte{0, 0xff}[c.Rng.Intn(2)]
		}
	}
	return b
}

func c28randPath(c *Ctx, depth int) [][]byte {
	p := make([][]byte, depth)
	for i := range p {
		p[i] = c28bytes(c, c.Rng.Intn(12))
		if c.Rng.Intn(6) == 0 {
			p[i] = c28bytes(c, 12+c.Rng.Intn(60))
		}
	}
	return p
}

// everything the property says about one (seed, path, message)
func c28case(c *Ctx, seed []byte, path [][]byte, msg []byte) {
	c28op(c, "reset #kind=stateless")
	rootHex := c28op(c, "root "+c28h(seed)+" #kind=root")
	rb, _ := c28unh(rootHex)
	root, _ := c28xprv(rb)
	_ = root
	xpubHex := c28op(c, "xpub "+rootHex+" #kind=root")
	pb, _ := c28unh(xpubHex)
	rootPub, _ := c28xpub(pb)
	// derivation commutes: the child public key from the private side is what the public side derives
	ps := c28pathStr(path)
	dHex := c28op(c, fmt.Sprintf("derive %s %s #kind=depth%d", rootHex, ps, len(path)))
	if dHex == "panic" {
		return
	}
	dPubHex := c28op(c, "xpub "+dHex+" #kind=derived")
	c28op(c, fmt.Sprintf("pubderive %s %s #kind=depth%d #want=%s", xpubHex, ps, len(path), dPubHex))
	db, _ := c28unh(dHex)
	dprv, _ := c28xprv(db)
	dpb, _ := c28unh(dPubHex)
	dpub, _ := c28xpub(dpb)
	// single steps, hardened and not
	if len(path) > 0 {
		sel := path[0]
		ch := c28op(c, fmt.Sprintf("child %s %s 0 #kind=nonhardened", rootHex, c28h(sel)))
		chPub := c28op(c, "xpub "+ch+" #kind=derived")
		c28op(c, fmt.Sprintf("pubchild %s %s #kind=commute #want=%s", xpubHex, c28h(sel), chPub))
		c28op(c, fmt.Sprintf("child %s %s 1 #kind=hardened", rootHex, c28h(sel)))
	}
	// sign / verify with the derived key
	sigHex := c28op(c, fmt.Sprintf("sign %s %s #kind=sign", dHex, c28h(msg)))
	c28op(c, fmt.Sprintf("verify %s %s %s #kind=own #want=true", dPubHex, c28h(msg), sigHex))
	// determinism + the expanded-key route give the same signature (implementation only)
	if s2 := dprv.Sign(msg); c28h(s2) != sigHex {
		c.Fail("sign-deterministic:"+dHex, "two Sign calls differ")
	}
	if s3 := chainkd.Ed25519InnerSign(dprv.ExpandedPrivateKey(), msg); c28h(s3) != sigHex {
		c.Fail("sign-expanded:"+dHex, "Ed25519InnerSign(ExpandedPrivateKey) differs from Sign")
	}
	_ = dpub
	// other key
	otherPub := rootPub
	if len(path) == 0 {
		o := chainkd.RootXPrv(append([]byte{1}, seed...)).XPub()
		otherPub = o
	}
	c28op(c, fmt.Sprintf("verify %s %s %s #kind=other-key #want=false", c28h(otherPub[:]), c28h(msg), sigHex))
	// other message
	m2 := append([]byte{}, msg...)
	if len(m2) == 0 || c.Rng.Intn(3) == 0 {
		m2 = append(m2, byte(c.Rng.Intn(256)))
	} else {
		m2[c.Rng.Intn(len(m2))] ^= 1 << uint(c.Rng.Intn(8))
	}
	c28op(c, fmt.Sprintf("verify %s %s %s #kind=other-msg #want=false", dPubHex, c28h(m2), sigHex))
	// tampered signature
	sb, _ := c28unh(sigHex)
	t := append([]byte{}, sb...)
	t[c.Rng.Intn(len(t))] ^= 1 << uint(c.Rng.Intn(8))
	c28op(c, fmt.Sprintf("verify %s %s %s #kind=tampered-sig #want=false", dPubHex, c28h(msg), c28h(t)))
	if c.Rng.Intn(4) == 0 {
		c28op(c, fmt.Sprintf("verify %s %s %s #kind=short-sig #want=false", dPubHex, c28h(msg), c28h(sb[:c.Rng.Intn(64)])))
	}
}

// the key file: right / wrong password, tampered file, and the HSM on disk
func c28keystore(c *Ctx, hsm bool) {
	auth := c28bytes(c, c.Rng.Intn(20))
	for i := range auth { // printable: the passphrase is a Go string that goes through JSON untouched, but keep it simple
		auth[i] = 32 + auth[i]%95
	}
	c28op(c, fmt.Sprintf("ks %s %s #kind=right-password #want=ok", c28h(auth), c28h(auth)))
	other := append([]byte{}, auth...)
	switch c.Rng.Intn(3) {
	case 0:
		other = append(other, 'x')
	case 1:
		if len(other) > 0 {
			other[c.Rng.Intn(len(other))] ^= 1
		} else {
			other = []byte(" ")
		}
	case 2:
		other = []byte(strings.ToUpper(string(other)) + "0")
	}
	c28op(c, fmt.Sprintf("ks %s %s #kind=wrong-password #want=err-decrypt", c28h(auth), c28h(other)))
	// long passphrases: a pair that shares a long prefix and differs only after it / in the last byte
	{
		pl := []int{31, 32, 62, 63, 64, 65, 99, 127, 128, 999}[c.Rng.Intn(10)]
		base := bytes.Repeat([]byte{byte('a' + c.Rng.Intn(26))}, pl)
		if c.Rng.Intn(2) == 0 {
			for i := range base {
				base[i] = 33 + byte(c.Rng.Intn(94))
			}
		}
		a1 := append(append([]byte{}, base...), 'A')
		a2 := append(append([]byte{}, base...), 'B')
		switch c.Rng.Intn(3) {
		case 0:
			a2 = append([]byte{}, base...) // proper prefix
		case 1:
			a2 = append(append([]byte{}, a1...), 'A') // extension
		}
		c28op(c, fmt.Sprintf("ks %s %s #kind=long-right-password #want=ok", c28h(a1), c28h(a1)))
		c28op(c, fmt.Sprintf("ks %s %s #kind=long-shared-prefix-%d #want=err-decrypt", c28h(a1), c28h(a2), pl))
		c28op(c, fmt.Sprintf("ks %s %s #kind=long-shared-prefix-%d #want=err-decrypt", c28h(a2), c28h(a1), pl))
	}
	if c.Rng.Intn(4) == 0 {
		c28op(c, "ks - - #kind=empty-password #want=ok")
		c28op(c, fmt.Sprintf("ks - %s #kind=empty-vs-nonempty #want=err-decrypt", c28h([]byte{byte(1 + c.Rng.Intn(255))})))
	}
	// tampered file: the MAC must catch a changed ciphertext (implementation only)
	func() {
		defer func() {
			if r := recover(); r != nil {
				c.Fail("ks-tamper-panic", fmt.Sprint("DecryptKey panicked on a tampered file: ", r))
			}
		}()
		blob, err := pseudohsm.EncryptKey(c28ksKey, string(auth), 2, 1)
		if err != nil {
			c.Fail("ks-encrypt", err.Error())
			return
		}
		var m map[string]interface{}
		json.Unmarshal(blob, &m)
		cr := m["crypto"].(map[string]interface{})
		ct := []byte(cr["ciphertext"].(string))
		i := c.Rng.Intn(len(ct))
		if ct[i] == '0' {
			ct[i] = '1'
		} else {
			ct[i] = '0'
		}
		cr["ciphertext"] = string(ct)
		b2, _ := json.Marshal(m)
		_, err = pseudohsm.DecryptKey(b2, string(auth))
		c.Count("ks/tampered-ciphertext/" + fmt.Sprint(err == pseudohsm.ErrDecrypt))
		if err != pseudohsm.ErrDecrypt {
			c.Fail("ks-tampered-ciphertext", fmt.Sprintf("tampered ciphertext accepted: err=%v", err))
		}
	}()
	if !hsm {
		return
	}
	// the HSM on disk (LightScrypt): signs identically to the in-memory key, refuses a wrong password
	dir, err := os.MkdirTemp("/var/tmp", "verif-c28-")
	if err != nil {
		return
	}
	defer os.RemoveAll(dir)
	h, _ := pseudohsm.New(dir)
	xp, _, err := h.XCreate(fmt.Sprintf("k%d", c.Rng.Int63()), string(auth), "en")
	if err != nil {
		c.Fail("hsm-create", err.Error())
		return
	}
	path := c28randPath(c, c.Rng.Intn(4))
	msg := c28bytes(c, c.Rng.Intn(40))
	sig, err := h.XSign(xp.XPub, path, msg, string(auth))
	if err != nil {
		c.Fail("hsm-sign", err.Error())
		return
	}
	xprv, err := h.LoadChainKDKey(xp.XPub, string(auth))
	if err != nil {
		c.Fail("hsm-load", err.Error())
		return
	}
	if xprv.XPub() != xp.XPub {
		c.Fail("hsm-xpub", "stored key does not match its xpub")
	}
	if !bytes.Equal(sig, xprv.Derive(path).Sign(msg)) {
		c.Fail("hsm-sign-identical", "XSign differs from signing with the loaded key")
	}
	if !xp.XPub.Derive(path).Verify(msg, sig) {
		c.Fail("hsm-sign-verifies", "XSign signature does not verify under the derived xpub")
	}
	if _, err := h.XSign(xp.XPub, path, msg, string(other)); err == nil {
		c.Fail("hsm-wrong-password", "XSign succeeded with a wrong password")
	}
	c.Count("hsm/create-sign-load")
	// the same through the differential: sign with the loaded key
	c28op(c, fmt.Sprintf("derive %s %s #kind=hsm", c28h(xprv[:]), c28pathStr(path)))
}

// an address-index loop and friends: Derive calls on one or two roots that reuse ONE path value whose
// selector bytes are rewritten in place between the calls
func c28reusedPaths(c *Ctx, steps int) {
	c28op(c, "reset #kind=reused-path")
	roots := []chainkd.XPrv{chainkd.RootXPrv(c28bytes(c, 32))}
	if c.Rng.Intn(2) == 0 {
		roots = append(roots, chainkd.RootXPrv(c28bytes(c, 32)))
	}
	depth := 1 + c.Rng.Intn(5)
	path := make([][]byte, depth)
	for i := range path {
		path[i] = make([]byte, []int{1, 2, 4, 4, 8}[c.Rng.Intn(5)])
		c.Rng.Read(path[i])
	}
	for s := 0; s < steps; s++ {
		// rewrite one selector (mostly the last: the index), sometimes several, sometimes none
		switch r := c.Rng.Intn(10); {
		case r < 5:
			last := path[depth-1]
			last[len(last)-1]++ // PutUint32(path[last], i+1)
		case r < 7:
			c.Rng.Read(path[c.Rng.Intn(depth)])
		case r < 8:
			for i := range path {
				c.Rng.Read(path[i])
			}
		case r < 9:
			path[0][0] ^= 1 // the first selector: nothing of the previous derivation can be reused
		}
		mode := "reuse"
		switch c.Rng.Intn(8) {
		case 0:
			mode = "fresh"
		case 1:
			mode = "scribble"
		}
		root := roots[c.Rng.Intn(len(roots))]
		c28op(c, fmt.Sprintf("rderive %s %s %s #kind=reused-path", c28h(root[:]), c28pathStr(path), mode))
	}
}

// a random history over 3 slots and 3 passwords; `probe` re-checks every (slot, password) pair
func c28history(c *Ctx, steps int, kind string) {
	c28op(c, "reset #kind="+kind)
	tag := " #kind=" + kind
	cur := map[int]int{} // harness-side mirror only to bias the generator towards interesting ops
	fam := c28pwFamilies[c.Rng.Intn(len(c28pwFamilies))]
	pws := []int{fam[c.Rng.Intn(len(fam))], fam[c.Rng.Intn(len(fam))], fam[c.Rng.Intn(len(fam))]}
	if c.Rng.Intn(3) == 0 {
		pws[2] = c.Rng.Intn(len(c28pwTable))
	}
	pick := func() int { return c.Rng.Intn(3) }
	pickPw := func() int { return pws[c.Rng.Intn(3)] }
	for i := 0; i < steps; i++ {
		k := pick()
		pw, known := cur[k]
		if !known || c.Rng.Intn(3) == 0 {
			pw = pickPw()
		}
		switch r := c.Rng.Intn(20); {
		case r < 3 || (len(cur) == 0 && r < 10):
			p := pickPw()
			if c28op(c, fmt.Sprintf("hcreate %d %d%s", k, p, tag)) == "ok" {
				cur[k] = p
			}
		case r < 8:
			c28op(c, fmt.Sprintf("hsign %d %d%s", k, pw, tag))
		case r < 12:
			c28op(c, fmt.Sprintf("hcheck %d %d%s", k, pw, tag))
		case r < 16:
			n := pickPw()
			if c28op(c, fmt.Sprintf("hresetpw %d %d %d%s", k, pw, n, tag)) == "ok" {
				cur[k] = n
			}
			// the old and the new password right after a reset
			c28op(c, fmt.Sprintf("hcheck %d %d%s", k, pw, tag))
			c28op(c, fmt.Sprintf("hsign %d %d%s", k, n, tag))
		case r < 17:
			if c28op(c, fmt.Sprintf("hdelete %d %d%s", k, pw, tag)) == "ok" {
				delete(cur, k)
			}
		case r < 18:
			c28op(c, "hreload"+tag)
		default:
			for kk := 0; kk < 3; kk++ {
				for _, pp := range fam {
					op := "hcheck"
					if c.Rng.Intn(3) == 0 {
						op = "hsign"
					}
					c28op(c, fmt.Sprintf("%s %d %d%s", op, kk, pp, tag))
				}
			}
		}
	}
	c28hsmClose()
}

func runC28(c *Ctx) {
	defer c28hsmClose()
	c.Rule = "random and structured seeds (0..64 bytes), non-hardened paths of depth 0..8 (a few of depth 64) with selectors of 0..72 bytes, messages of 0..100 bytes: root key, xpub, private-side derivation, public-side derivation (must agree), single hardened / non-hardened steps, signature, verification under the own key (true), another key, another message, a tampered or truncated signature (false); key file with right / wrong password and tampered ciphertext; HSM on disk. Derivation sequences on one or two roots that reuse ONE path value whose selectors are rewritten in place between calls (index loop, random selector, all, first; fresh / scribbled-after variants; xpub.Derive must equal xprv.Derive(deep copy).XPub()). Concurrent signing batches (more goroutines than processors, GOMAXPROCS 1 / 2 / default; messages 32 bytes .. 64 KiB, 4 derived keys; every signature verifies and equals the sequential one; recover + watchdog). Key-store histories: one running HSM per case over a temp directory, 30-60 random operations (create / sign / check-password / reset-password incl. old and new password right after it / delete / new HSM object / probe of all 9 slot-password pairs) over 3 aliases and 3 passwords, compared with the reference model and with a new HSM object over the same directory. Precondition-violating keys (scalar overflow, invalid xpub point) are run for the panic branches (differential only). A case is distinct by its op line."
	if c.Replay != "" {
		for _, l := range c.ReplayLines() {
			c28op(c, l)
		}
		return
	}
	for _, l := range c.CorpusLines() {
		c28op(c, l)
	}
	// derivation with one reused, in-place rewritten path value
	for i := 0; i < 3+c.N/40; i++ {
		c28reusedPaths(c, 6+c.Rng.Intn(10))
	}
	// concurrent signing: more goroutines than processors, also with GOMAXPROCS 1 and 2
	c28op(c, "reset #kind=stateless")
	for _, pr := range []int{1, 2, 0} {
		g := 4*runtime.NumCPU() + 3
		if g > 96 {
			g = 96
		}
		c28op(c, fmt.Sprintf("csign %d %d %d #kind=concurrent", g, pr, c.Rng.Int63n(1<<40)))
	}
	for i := 0; i < c.N/300; i++ {
		c28op(c, fmt.Sprintf("csign %d %d %d #kind=concurrent", 8+c.Rng.Intn(64), []int{1, 2, 3, 0}[c.Rng.Intn(4)], c.Rng.Int63n(1<<40)))
	}
	// key-store histories on one running HSM (light scrypt through the verif hook; a few with the
	// production LightScrypt parameters)
	nh := 4 + c.N/12
	for i := 0; i < nh; i++ {
		c28history(c, 30+c.Rng.Intn(30), "hsm")
	}
	for i := 0; i < 1+c.N/400; i++ {
		c28history(c, 8, "hsm-lightscrypt")
	}
	// fixed small cases first
	c28case(c, nil, nil, nil)
	c28case(c, []byte("seed"), [][]byte{{}}, []byte("msg"))
	n := c.N
	for i := 0; i < n; i++ {
		seed := c28bytes(c, c.Rng.Intn(65))
		depth := c.Rng.Intn(9)
		if i%40 == 7 {
			depth = 64
		}
		c28case(c, seed, c28randPath(c, depth), c28bytes(c, c.Rng.Intn(100)))
		if i%6 == 0 {
			c28op(c, "reset #kind=stateless")
			c28keystore(c, i%60 == 0)
		}
		if i%10 == 3 {
			// precondition violations: the panic branches
			x := bytes.Repeat([]byte{0xff}, 64)
			copy(x[32:], c28bytes(c, 32))
			c28op(c, fmt.Sprintf("child %s %s 0 #kind=scalar-overflow #want=any", c28h(x), c28h(c28bytes(c, 3))))
			p := c28bytes(c, 64)
			c28op(c, fmt.Sprintf("pubchild %s %s #kind=random-xpub #want=any", c28h(p), c28h(c28bytes(c, 3))))
		}
	}
}

func init() { register("c28", runC28) }
