//go:build hc36 || hall

package main

import (
	"encoding/base64"
	"encoding/hex"
	"encoding/json"
	"fmt"
	"net/http"
	"net/url"
	"sort"
	"strconv"
	"strings"
	"sync"
	"time"

	"github.com/bytom/bytom/accesstoken"
	dbm "github.com/bytom/bytom/database/leveldb"
	"github.com/bytom/bytom/net/http/authn"
)

// C36: RPC access control.
//
// One op per line (stateful, every case starts with reset):
//   reset <disable 0|1>
//   create <idhex> <secrethex>     accesstoken.Create; generated lines carry the secret the
//                                  real Create drew; replayed/corpus lines overwrite the
//                                  stored record with the secret on the line (determinism)
//   delete <idhex>                 accesstoken.Delete
//   adv <seconds>                  the clock advances (hook: every cache entry gets older)
//   req <origin> <pathhex> <rawhex|none>   API.Authenticate on a request with that
//                                  RemoteAddr class, URL path, and Authorization: Basic base64(raw)
//   dump                           token store and credential cache (hook)
// impl line of req: <verdict> tok=<authn.Token(ctx) hex> local=<authn.Localhost(ctx)>
//
// Direct oracle (no model; own bookkeeping of the history):
//   with auth enabled, a request from a non-loopback origin to a non-exempt path is admitted
//   only if its credentials are an issued token's (id, secret) that is live now, or was live
//   when the same credentials were presented ≤ 300 s earlier; non-loopback requests to the
//   three protected prefixes are refused whatever the credentials; live credentials are
//   never answered with invalid-token / no-token.

type c36pres struct {
	user, pw string
	t        int64
	live     bool
}

type c36tok struct{ id, secret string }

type c36state struct {
	store   *accesstoken.CredentialStore
	api     *authn.API
	disable bool
	now     int64 // virtual seconds
	issued  map[string]string
	pres    []c36pres
	// generator knowledge
	live, dead []c36tok
	advs       []int64 // prefix sums of advances since reset (to avoid a window of exactly 300)
}

type c36line struct {
	op, res string
}
type c36fail struct {
	sig, detail string
}

var c36origins = map[string][]string{
	"loopback":  {"127.0.0.1:1234", "[::1]:80", "127.5.6.7:9", "[::ffff:127.0.0.1]:8080"},
	"remote":    {"8.8.8.8:53", "[2001:db8::1]:443", "192.168.1.5:80", "0.0.0.0:1", "128.0.0.1:80", "[::2]:80"},
	"malformed": {"localhost:80", "127.0.0.1", "", "garbage", "127.0.0.1:80:90", "[::1]", "example.com:443"},
}

var c36paths = []string{
	"/backup-wallet", "/backup-wallet/x", "/backup-wallets", "/backup-walle", "/Backup-wallet", "//backup-wallet",
	"/restore-wallet", "/restore-wallet-image", "/restore-walle", "/list-access-tokens", "/list-access-tokens?x", "/list-access-token",
	"/dashboard", "/dashboard/", "/dashboard/index.html", "/dashboardx", "/dashboar", "/equity", "/equity/", "/equity/a/b", "/equityx",
	"/create-access-token", "/", "", "/net-info", "/list-transactions", "/dashboard/../backup-wallet", "/equity/../list-access-tokens",
}

func c36hex(s string) string {
	if s == "" {
		return "-"
	}
	return hex.EncodeToString([]byte(s))
}

func c36unhex(s string) (string, bool) {
	if s == "-" {
		return "", true
	}
	b, err := hex.DecodeString(s)
	return string(b), err == nil
}

func (st *c36state) reset(disable bool) {
	st.store = accesstoken.NewStore(dbm.NewMemDB())
	st.api = authn.NewAPI(st.store, disable)
	st.disable = disable
	st.now = 0
	st.issued = map[string]string{}
	st.pres = nil
	st.live, st.dead = nil, nil
	st.advs = []int64{0}
}

func c36prefix(path string, ps ...string) bool {
	for _, p := range ps {
		if strings.HasPrefix(path, p) {
			return true
		}
	}
	return false
}

// exec runs one op line; returns the canonical op line (create may fill in the secret),
// the implementation's result line and the oracle failures.
func (st *c36state) exec(c *Ctx, line string, replay bool, rngPick func(n int) int) (string, string, []c36fail) {
	w := strings.Fields(line)
	var fails []c36fail
	if len(w) == 0 {
		return line, "bad-op", nil
	}
	switch w[0] {
	case "reset":
		st.reset(len(w) > 1 && w[1] == "1")
		return line, "reset", nil
	case "create":
		if len(w) != 3 {
			return line, "bad-op", nil
		}
		id, ok := c36unhex(w[1])
		if !ok {
			return line, "bad-op", nil
		}
		tok, err := st.store.Create(id, "client")
		if err != nil {
			if w[2] == "*" {
				line = "create " + w[1] + " -"
			}
			switch {
			case strings.Contains(err.Error(), accesstoken.ErrBadID.Error()):
				return line, "bad-id", nil
			case strings.Contains(err.Error(), accesstoken.ErrDuplicateID.Error()):
				return line, "duplicate", nil
			}
			return line, "error:" + err.Error(), nil
		}
		parts := strings.Split(tok.Token, ":")
		if len(parts) != 2 || parts[0] != id || len(parts[1]) != 64 {
			fails = append(fails, c36fail{"create:token-format", tok.Token})
		}
		secret := parts[len(parts)-1]
		if w[2] != "*" {
			// replay / corpus: pin the secret to the one on the line
			s, ok := c36unhex(w[2])
			if !ok {
				return line, "bad-op", nil
			}
			secret = s
			tok.Token = id + ":" + secret
			v, err := json.Marshal(tok)
			if err != nil {
				panic(err)
			}
			st.store.DB.Set([]byte(id), v)
		}
		st.issued[id] = secret
		st.live = append(st.live, c36tok{id, secret})
		return "create " + w[1] + " " + c36hex(secret), "created", fails
	case "delete":
		id, ok := c36unhex(w[1])
		if !ok {
			return line, "bad-op", nil
		}
		st.store.Delete(id)
		if sec, ok := st.issued[id]; ok {
			st.dead = append(st.dead, c36tok{id, sec})
			for i, t := range st.live {
				if t.id == id {
					st.live = append(st.live[:i:i], st.live[i+1:]...)
					break
				}
			}
		}
		delete(st.issued, id)
		return line, "deleted", nil
	case "adv":
		d, err := strconv.ParseInt(w[1], 10, 64)
		if err != nil || d < 0 {
			return line, "bad-op", nil
		}
		st.api.VerifAgeCache(time.Duration(d) * time.Second)
		st.now += d
		st.advs = append(st.advs, st.now)
		return line, "ok", nil
	case "dump":
		toks, err := st.store.List()
		if err != nil {
			return line, "error:" + err.Error(), nil
		}
		var ts []string
		sort.Slice(toks, func(i, j int) bool { return toks[i].ID < toks[j].ID })
		for _, t := range toks {
			p := strings.SplitN(t.Token, ":", 2)
			ts = append(ts, c36hex(t.ID)+"="+c36hex(p[len(p)-1]))
		}
		var cs []string
		for _, e := range st.api.VerifCache() {
			cs = append(cs, fmt.Sprintf("%s@%d", c36hex(e.Key), int64(e.Age/time.Second)))
		}
		return line, "tokens=" + strings.Join(ts, ",") + " cache=" + strings.Join(cs, ","), nil
	case "req":
		if len(w) != 4 {
			return line, "bad-op", nil
		}
		addrs, ok := c36origins[w[1]]
		path, ok2 := c36unhex(w[2])
		if !ok || !ok2 {
			return line, "bad-op", nil
		}
		req := &http.Request{Method: "POST", URL: &url.URL{Path: path}, Header: http.Header{}, RemoteAddr: addrs[rngPick(len(addrs))]}
		hasCred := false
		user, pw := "", ""
		if w[3] == "none" {
			switch rngPick(4) {
			case 1:
				req.Header.Set("Authorization", "Bearer abcdef")
			case 2:
				req.Header.Set("Authorization", "Basic !!!not-base64!!!")
			case 3:
				req.Header.Set("Authorization", "Basic")
			}
		} else {
			raw, ok := c36unhex(w[3])
			if !ok {
				return line, "bad-op", nil
			}
			req.Header.Set("Authorization", "Basic "+base64.StdEncoding.EncodeToString([]byte(raw)))
			if i := strings.IndexByte(raw, ':'); i >= 0 {
				hasCred, user, pw = true, raw[:i], raw[i+1:]
			}
		}
		out, err := st.api.Authenticate(req)
		verdict := "ok"
		if err != nil {
			switch err.Error() {
			case authn.ErrNoToken.Error():
				verdict = "no-token"
			case authn.ErrInvalidToken.Error():
				verdict = "invalid-token"
			case "only local can get access backup-wallets":
				verdict = "local-only-backup"
			case "only local can get access restore-wallet":
				verdict = "local-only-restore"
			case "only local can get access token list":
				verdict = "local-only-list"
			default:
				verdict = "error:" + err.Error()
			}
		}
		loc := 0
		if authn.Localhost(out.Context()) {
			loc = 1
		}
		res := fmt.Sprintf("%s tok=%s local=%d", verdict, c36hex(authn.Token(out.Context())), loc)
		c.Count("verdict/" + verdict)
		// ---- direct oracle
		nonLocal := w[1] != "loopback"
		protected := c36prefix(path, "/backup-wallet", "/restore-wallet", "/list-access-tokens")
		exempt := c36prefix(path, "/dashboard/", "/equity/") || path == "/dashboard" || path == "/equity"
		liveNow := false
		if hasCred {
			sec, ok := st.issued[user]
			liveNow = ok && sec == pw
		}
		if nonLocal && protected && verdict == "ok" {
			fails = append(fails, c36fail{"authn:local-only-path-admitted", line})
		}
		if nonLocal && !protected && !exempt && !st.disable && verdict == "ok" {
			authorised, viaConcat := false, ""
			if liveNow {
				authorised = true
			}
			if hasCred && !authorised {
				for _, p := range st.pres {
					if !p.live || st.now-p.t > 300 {
						continue
					}
					if p.user == user && p.pw == pw {
						authorised = true
						break
					}
					if p.user+p.pw == user+pw {
						viaConcat = fmt.Sprintf("(%q,%q) was validated %d s earlier; cache key %q is shared", p.user, p.pw, st.now-p.t, user+pw)
					}
				}
			}
			if !authorised {
				if viaConcat != "" {
					c.Count("oracle/concat-collision-admitted")
					fails = append(fails, c36fail{"authn:cache-key-concat-collision", fmt.Sprintf("admitted (%q,%q) from %s on %q: %s", user, pw, w[1], path, viaConcat)})
				} else {
					fails = append(fails, c36fail{"authn:unauthorised-admitted", fmt.Sprintf("admitted (%q,%q) from %s on %q at t=%d", user, pw, w[1], path, st.now)})
				}
			}
		}
		if !st.disable && liveNow && (verdict == "invalid-token" || verdict == "no-token") {
			fails = append(fails, c36fail{"authn:live-token-refused", line})
		}
		if !st.disable && !hasCred && nonLocal && !protected && !exempt && verdict != "no-token" {
			fails = append(fails, c36fail{"authn:no-credentials-not-refused", line + " => " + verdict})
		}
		if hasCred && !st.disable {
			st.pres = append(st.pres, c36pres{user, pw, st.now, liveNow})
		}
		switch {
		case !hasCred:
			c.Count("cred/none")
		case liveNow:
			c.Count("cred/live")
		default:
			c.Count("cred/not-live")
		}
		return line, res, fails
	}
	return line, "bad-op", nil
}

func c36randID(c *Ctx) string {
	const good = "abcdefgXYZ019_-"
	switch c.Rng.Intn(12) {
	case 0:
		return "" // invalid
	case 1:
		return "a b" // invalid
	case 2:
		return "tok:en" // invalid (colon)
	case 3:
		return "é" // invalid (non-ascii)
	}
	n := 1 + c.Rng.Intn(5)
	b := make([]byte, n)
	for i := range b {
		b[i] = good[c.Rng.Intn(len(good))]
	}
	return string(b)
}

func (st *c36state) genCred(c *Ctx) string {
	pickTok := func(l []c36tok) (c36tok, bool) {
		if len(l) == 0 {
			return c36tok{}, false
		}
		return l[c.Rng.Intn(len(l))], true
	}
	any := func() (c36tok, bool) {
		if len(st.dead) > 0 && (len(st.live) == 0 || c.Rng.Intn(3) == 0) {
			return pickTok(st.dead)
		}
		return pickTok(st.live)
	}
	r := c.Rng.Intn(100)
	switch {
	case r < 12:
		return "none"
	case r < 40:
		if t, ok := pickTok(st.live); ok {
			return c36hex(t.id + ":" + t.secret)
		}
	case r < 50:
		if t, ok := pickTok(st.dead); ok {
			return c36hex(t.id + ":" + t.secret)
		}
	case r < 58:
		if t, ok := any(); ok { // wrong secret
			s := []byte(t.secret)
			if len(s) > 0 {
				i := c.Rng.Intn(len(s))
				if s[i] == 'a' {
					s[i] = 'b'
				} else {
					s[i] = 'a'
				}
			}
			return c36hex(t.id + ":" + string(s))
		}
	case r < 62:
		if t, ok := any(); ok { // wrong id, right secret
			return c36hex(t.id + "x:" + t.secret)
		}
	case r < 88:
		if t, ok := any(); ok { // the same concatenation split elsewhere
			cc := t.id + t.secret
			j := c.Rng.Intn(len(cc) + 1)
			if c.Rng.Intn(2) == 0 { // near the id boundary
				j = len(t.id) - 2 + c.Rng.Intn(5)
				if j < 0 {
					j = 0
				}
				if j > len(cc) {
					j = len(cc)
				}
			}
			return c36hex(cc[:j] + ":" + cc[j:])
		}
	case r < 91:
		return c36hex("nocolonatall")
	case r < 94:
		return c36hex(":onlypw")
	case r < 96:
		return "-"
	}
	return c36hex(c36randID(c) + ":" + strconv.Itoa(c.Rng.Intn(1000)))
}

func (st *c36state) genLine(c *Ctx) string {
	r := c.Rng.Intn(100)
	switch {
	case r < 14 || (len(st.live) == 0 && len(st.dead) == 0 && r < 40):
		id := c36randID(c)
		if len(st.live) > 0 && c.Rng.Intn(8) == 0 {
			id = st.live[c.Rng.Intn(len(st.live))].id // duplicate
		}
		if len(st.dead) > 0 && c.Rng.Intn(8) == 0 {
			id = st.dead[c.Rng.Intn(len(st.dead))].id // re-create a deleted id
		}
		// ids engineered so that id+secret concatenations of different tokens can coincide in prefix
		return "create " + c36hex(id) + " *"
	case r < 22:
		if len(st.live) > 0 && c.Rng.Intn(5) != 0 {
			return "delete " + c36hex(st.live[c.Rng.Intn(len(st.live))].id)
		}
		return "delete " + c36hex(c36randID(c))
	case r < 40:
		cands := []int64{0, 1, 7, 60, 149, 150, 151, 299, 300, 301, 302, 450, 600, 1000}
		for try := 0; try < 20; try++ {
			d := cands[c.Rng.Intn(len(cands))]
			if c.Rng.Intn(4) == 0 {
				d = int64(c.Rng.Intn(400))
			}
			ok := true
			for _, p := range st.advs { // never create a window of exactly 300 s (see notes/C36.md)
				if st.now+d-p == 300 {
					ok = false
				}
			}
			if ok {
				return fmt.Sprintf("adv %d", d)
			}
		}
		return "adv 0"
	case r < 43:
		return "dump"
	}
	origins := []string{"remote", "remote", "remote", "remote", "malformed", "loopback"}
	path := c36paths[c.Rng.Intn(len(c36paths))]
	if c.Rng.Intn(3) != 0 {
		path = []string{"/create-account", "/net-info", "/", "/list-transactions"}[c.Rng.Intn(4)]
	}
	return fmt.Sprintf("req %s %s %s", origins[c.Rng.Intn(len(origins))], c36hex(path), st.genCred(c))
}

func runC36(c *Ctx) {
	c.Rule = "token create/delete/clock/request histories (reset with auth enabled 7/8 or disabled 1/8; 10–70 ops: create with valid/invalid/duplicate/re-created ids, delete, clock advances around the 300 s window (never a window of exactly 300 s), requests from loopback v4/v6/v4-mapped, non-loopback, malformed origins to protected / near-protected / exempt / near-exempt / ordinary paths with credentials none | live | deleted | wrong secret | wrong id | same concatenation split elsewhere | malformed) against the real accesstoken store and authn.API; each line compared with the Lean model, each request checked by the direct oracle; a case is distinct by its op lines"
	st := &c36state{}
	st.reset(false)
	pick := func(n int) int { return c.Rng.Intn(n) }
	// `check` re-reads ops.txt once per FAIL line, so a finding that recurs a thousand times
	// is reported through c.Fail only the first 20 times per signature; all are counted.
	reported := map[string]int{}
	emit := func(lines []c36line, fails []c36fail) {
		for _, l := range lines {
			c.Op(l.op, l.res)
		}
		for _, f := range fails {
			c.Count("oracle-fail/" + f.sig)
			reported[f.sig]++
			if reported[f.sig] <= 20 {
				c.Fail(f.sig, f.detail)
			}
		}
	}
	runFixed := func(lines []string) {
		// replay / corpus: lines as given; cut into cases at reset; a case that took too long in
		// real time (the cache compares with the real clock) is re-run
		var cases [][]string
		for _, l := range lines {
			if strings.HasPrefix(l, "reset") || len(cases) == 0 {
				cases = append(cases, nil)
			}
			cases[len(cases)-1] = append(cases[len(cases)-1], l)
		}
		for _, cs := range cases {
			for attempt := 0; ; attempt++ {
				var out []c36line
				var fails []c36fail
				st.reset(false)
				start := time.Now()
				for _, l := range cs {
					op, res, f := st.exec(c, l, true, func(n int) int { return 0 })
					out = append(out, c36line{op, res})
					// failure index bookkeeping: Fail refers to the last emitted op, so emit in order
					fails = append(fails, f...)
				}
				if time.Since(start) < 400*time.Millisecond || attempt > 5 {
					// emit ops first, then failures (their index then points at the case's last op)
					emit(out, fails)
					break
				}
				c.Count("case/rerun-slow")
			}
		}
	}
	if c.Replay != "" {
		runFixed(c.ReplayLines())
		return
	}
	runFixed(c.CorpusLines())
	for i := 0; i < c.N; i++ {
		var out []c36line
		var fails []c36fail
		disable := c.Rng.Intn(8) == 0
		start := time.Now()
		line := "reset 0"
		if disable {
			line = "reset 1"
		}
		op, res, _ := st.exec(c, line, false, pick)
		out = append(out, c36line{op, res})
		n := 10 + c.Rng.Intn(60)
		for k := 0; k < n; k++ {
			op, res, f := st.exec(c, st.genLine(c), false, pick)
			out = append(out, c36line{op, res})
			fails = append(fails, f...)
		}
		op, res, _ = st.exec(c, "dump", false, pick)
		out = append(out, c36line{op, res})
		if time.Since(start) > 400*time.Millisecond {
			c.Count("case/dropped-slow") // real time leaked into the cache ages: not comparable
			continue
		}
		var key []string
		for _, l := range out {
			key = append(key, l.op)
		}
		c.Distinct(strings.Join(key, "|"))
		c.Count("case/ok")
		if disable {
			c.Count("case/auth-disabled")
		}
		emit(out, fails)
	}
	rounds := 300
	if c.Tier == "thorough" {
		rounds = 3000
	}
	c36concurrent(c, rounds)
	c36lifecycle(c, rounds)
}

// ---- concurrent share (direct oracle only) -------------------------------------------------
//
// Several requests in flight on ONE authn.API: genuine ones that have to go to the store
// (cold cache or expired entry) and never-issued credential pairs whose id and secret have the
// lengths of a genuine pair. The store's DB is wrapped: a lookup of a gated id announces itself
// and waits, so that other requests are served while it is between the cache read and the
// cache write of cachedTokenAuthnCheck (what a slow disk read does to two HTTP requests).
// Epilogue, sequential: every never-issued pair must still be refused. Every call of the
// implementation runs under a watchdog.

type c36gatedDB struct {
	dbm.DB
	mu      sync.Mutex
	gated   map[string]bool
	entered chan string
	release chan struct{}
	slow    bool
}

func (g *c36gatedDB) Get(key []byte) []byte {
	v := g.DB.Get(key)
	g.mu.Lock()
	gate, slow := g.gated[string(key)], g.slow
	g.mu.Unlock()
	if gate {
		g.entered <- string(key)
		<-g.release
	} else if slow {
		time.Sleep(20 * time.Microsecond)
	}
	return v
}

func c36remote(user, pw string) *http.Request {
	req := &http.Request{Method: "POST", URL: &url.URL{Path: "/list-balances"}, Header: http.Header{}, RemoteAddr: "203.0.113.7:40000"}
	req.SetBasicAuth(user, pw)
	return req
}

// authOK runs Authenticate under a watchdog; ok=false when it did not return.
func c36auth(api *authn.API, user, pw string) (admitted, returned bool) {
	done := make(chan bool, 1)
	go func() { _, err := api.Authenticate(c36remote(user, pw)); done <- err == nil }()
	select {
	case a := <-done:
		return a, true
	case <-time.After(5 * time.Second):
		return false, false
	}
}

func c36concurrent(c *Ctx, rounds int) {
	const idChars = "abcdefghijklmnopqrstuvwxyz"
	randID := func(n int) string {
		b := make([]byte, n)
		for i := range b {
			b[i] = idChars[c.Rng.Intn(len(idChars))]
		}
		return string(b)
	}
	failures := 0
	for r := 0; r < rounds && failures < 5; r++ { // a handful of concrete schedules is enough
		gdb := &c36gatedDB{DB: dbm.NewMemDB(), gated: map[string]bool{}, entered: make(chan string, 64), release: make(chan struct{})}
		store := accesstoken.NewStore(gdb)
		api := authn.NewAPI(store, false)
		nTok := 1 + c.Rng.Intn(3)
		type pair struct{ user, pw string }
		var genuine, bogus []pair
		used := map[string]bool{}
		for i := 0; i < nTok; i++ {
			id := randID(3 + c.Rng.Intn(4))
			if used[id] {
				continue
			}
			used[id] = true
			tok, err := store.Create(id, "client")
			if err != nil {
				panic(err)
			}
			secret := strings.SplitN(tok.Token, ":", 2)[1]
			genuine = append(genuine, pair{id, secret})
			// never issued, same lengths: another id, a secret of 64 hex characters
			for k := 0; k < 1+c.Rng.Intn(2); k++ {
				bid := randID(len(id))
				for used[bid] {
					bid = randID(len(id))
				}
				used[bid] = true
				bs := make([]byte, 32)
				c.Rng.Read(bs)
				bogus = append(bogus, pair{bid, hex.EncodeToString(bs)})
			}
		}
		tag := fmt.Sprintf("concurrent round %d (%d tokens, %d never-issued pairs)", r, len(genuine), len(bogus))
		hang := func(what string) {
			c.Fail("call-does-not-return:Authenticate", tag+": "+what)
		}
		// sanity on the quiet server
		quietBad := false
		for _, b := range bogus {
			if a, ret := c36auth(api, b.user, b.pw); !ret {
				hang("quiet server")
				return
			} else if a {
				c.Fail("authn:never-issued-pair-admitted", fmt.Sprintf("%s: (%q,%q) admitted on a quiet server", tag, b.user, b.pw))
				quietBad = true
			}
		}
		if quietBad {
			continue
		}
		var steps []string
		if r%2 == 0 {
			// gated: each genuine request is held inside its store lookup while never-issued pairs are served
			for _, g := range genuine {
				if c.Rng.Intn(3) == 0 {
					api.VerifAgeCache(301 * time.Second) // an expired entry instead of a cold cache (second and later tokens)
				}
				gdb.mu.Lock()
				gdb.gated[g.user] = true
				gdb.mu.Unlock()
				done := make(chan bool, 1)
				go func(g pair) { _, err := api.Authenticate(c36remote(g.user, g.pw)); done <- err == nil }(g)
				select {
				case <-gdb.entered:
				case <-time.After(5 * time.Second):
					hang("genuine request never reached the store")
					return
				}
				steps = append(steps, fmt.Sprintf("genuine (%s,…) enters the store lookup", g.user))
				for _, b := range bogus {
					if c.Rng.Intn(2) == 0 {
						continue
					}
					a, ret := c36auth(api, b.user, b.pw)
					if !ret {
						hang("never-issued pair while a genuine lookup is in flight")
						return
					}
					steps = append(steps, fmt.Sprintf("never-issued (%s,…) refused=%v", b.user, !a))
					if a {
						c.Fail("authn:never-issued-pair-admitted", fmt.Sprintf("%s: (%q,%q) admitted while a genuine lookup was in flight", tag, b.user, b.pw))
					}
				}
				gdb.mu.Lock()
				delete(gdb.gated, g.user)
				gdb.mu.Unlock()
				gdb.release <- struct{}{}
				select {
				case ok := <-done:
					steps = append(steps, fmt.Sprintf("genuine (%s,…) lookup completes, admitted=%v", g.user, ok))
					if !ok {
						c.Fail("authn:live-token-refused", tag+": genuine request refused")
					}
				case <-time.After(5 * time.Second):
					hang("genuine request after release")
					return
				}
			}
			c.Count("concurrent/gated-rounds")
		} else {
			// free running: everybody at once against a slow store, several passes
			gdb.mu.Lock()
			gdb.slow = true
			gdb.mu.Unlock()
			var wg sync.WaitGroup
			start := make(chan struct{})
			for pass := 0; pass < 3; pass++ {
				for _, p := range append(append([]pair(nil), genuine...), bogus...) {
					wg.Add(1)
					go func(p pair) {
						defer wg.Done()
						<-start
						for k := 0; k < 4; k++ {
							api.Authenticate(c36remote(p.user, p.pw))
						}
					}(p)
				}
			}
			close(start)
			fin := make(chan struct{})
			go func() { wg.Wait(); close(fin) }()
			select {
			case <-fin:
			case <-time.After(20 * time.Second):
				hang("free-running requests")
				return
			}
			steps = append(steps, "all pairs requested concurrently (3 x 4 times each) against a slow store")
			c.Count("concurrent/free-rounds")
		}
		// epilogue: every never-issued pair must still be refused, every genuine one admitted
		for _, b := range bogus {
			a, ret := c36auth(api, b.user, b.pw)
			if !ret {
				hang("epilogue")
				return
			}
			if a {
				c.Count("oracle/never-issued-admitted")
				failures++
				c.Fail("authn:never-issued-pair-admitted", fmt.Sprintf("%s: the never-issued pair (%q,%q) is admitted from a non-loopback origin after: %s. Cache now: %v", tag, b.user, b.pw, strings.Join(steps, "; "), c36cacheKeys(api)))
				break
			}
		}
		for _, g := range genuine {
			if a, ret := c36auth(api, g.user, g.pw); ret && !a {
				c.Fail("authn:live-token-refused", tag+": genuine pair refused in the epilogue")
			}
		}
	}
}

// Token lifecycle under concurrency: Create / Delete / Check (through Authenticate and directly on
// the CredentialStore) interleaved; in the gated rounds a Check's DB read of token T is held open
// while a Delete of T completes. Epilogue (sequential, after ageing the authn cache by > 5 min):
// every deleted token is refused by the long-lived API and by a fresh API over the same store, and
// the long-lived CredentialStore answers every Check like a NEW CredentialStore over the same DB.
func c36lifecycle(c *Ctx, rounds int) {
	const idChars = "abcdefghijklmnopqrstuvwxyz"
	randID := func(n int) string {
		b := make([]byte, n)
		for i := range b {
			b[i] = idChars[c.Rng.Intn(len(idChars))]
		}
		return string(b)
	}
	watch := func(f func(), d time.Duration) bool {
		done := make(chan struct{})
		go func() { f(); close(done) }()
		select {
		case <-done:
			return true
		case <-time.After(d):
			return false
		}
	}
	failures := 0
	for r := 0; r < rounds && failures < 5; r++ {
		gdb := &c36gatedDB{DB: dbm.NewMemDB(), gated: map[string]bool{}, entered: make(chan string, 64), release: make(chan struct{})}
		store := accesstoken.NewStore(gdb)
		api := authn.NewAPI(store, false)
		type tokT struct {
			id, secret string
			deleted    bool
		}
		var toks []*tokT
		var steps []string
		used := map[string]bool{}
		create := func() *tokT {
			id := randID(3 + c.Rng.Intn(4))
			for used[id] {
				id = randID(3 + c.Rng.Intn(4))
			}
			used[id] = true
			tok, err := store.Create(id, "client")
			if err != nil {
				panic(err)
			}
			t := &tokT{id: id, secret: strings.SplitN(tok.Token, ":", 2)[1]}
			toks = append(toks, t)
			return t
		}
		for i := 0; i < 2+c.Rng.Intn(3); i++ {
			create()
		}
		tag := fmt.Sprintf("lifecycle round %d", r)
		hang := func(what string) { c.Fail("call-does-not-return:"+what, tag+": "+strings.Join(steps, "; ")) }
		hung := false
		if r%2 == 0 {
			// gated: hold the DB read of a Check of T open, delete T meanwhile
			for _, t := range toks {
				if c.Rng.Intn(3) == 0 {
					continue // stays live
				}
				warm := c.Rng.Intn(4) == 0
				if warm { // T was already checked once before (the usual case in a running node)
					store.Check(t.id, t.secret)
					steps = append(steps, fmt.Sprintf("Check(%s) (warm-up)", t.id))
				}
				gdb.mu.Lock()
				gdb.gated[t.id] = true
				gdb.mu.Unlock()
				viaAPI := c.Rng.Intn(2) == 0
				done := make(chan bool, 1)
				go func(t *tokT) {
					if viaAPI {
						_, err := api.Authenticate(c36remote(t.id, t.secret))
						done <- err == nil
					} else {
						done <- store.Check(t.id, t.secret) == nil
					}
				}(t)
				inFlight := false
				select {
				case <-gdb.entered:
					inFlight = true
					steps = append(steps, fmt.Sprintf("Check(%s)%s has read the DB record and is held", t.id, map[bool]string{true: " via Authenticate", false: ""}[viaAPI]))
				case ok := <-done: // served without touching the DB
					steps = append(steps, fmt.Sprintf("Check(%s) answered %v without a DB read", t.id, ok))
				case <-time.After(5 * time.Second):
					hang("Check")
					hung = true
				}
				if hung {
					break
				}
				gdb.mu.Lock()
				delete(gdb.gated, t.id)
				gdb.mu.Unlock()
				if !watch(func() { store.Delete(t.id) }, 5*time.Second) {
					hang("Delete")
					hung = true
					break
				}
				t.deleted = true
				steps = append(steps, fmt.Sprintf("Delete(%s) completes", t.id))
				if inFlight {
					gdb.release <- struct{}{}
					select {
					case ok := <-done:
						steps = append(steps, fmt.Sprintf("Check(%s) resumes and answers %v", t.id, ok))
					case <-time.After(5 * time.Second):
						hang("Check")
						hung = true
					}
				}
				if hung {
					break
				}
			}
			c.Count("lifecycle/gated-rounds")
		} else {
			// free running against a slow store: checkers, deleters and creators at once
			gdb.mu.Lock()
			gdb.slow = true
			gdb.mu.Unlock()
			var wg sync.WaitGroup
			var mu sync.Mutex
			start := make(chan struct{})
			for _, t := range toks {
				t := t
				del := c.Rng.Intn(3) != 0
				delay := time.Duration(c.Rng.Intn(200)) * time.Microsecond
				for k := 0; k < 2; k++ {
					wg.Add(1)
					viaAPI := k == 0
					go func() {
						defer wg.Done()
						<-start
						for j := 0; j < 6; j++ {
							if viaAPI {
								api.Authenticate(c36remote(t.id, t.secret))
							} else {
								store.Check(t.id, t.secret)
							}
						}
					}()
				}
				if del {
					wg.Add(1)
					go func() {
						defer wg.Done()
						<-start
						time.Sleep(delay)
						store.Delete(t.id)
						mu.Lock()
						t.deleted = true
						mu.Unlock()
					}()
				}
			}
			wg.Add(1)
			go func() { defer wg.Done(); <-start; store.Create("zz"+randID(4), "client") }()
			close(start)
			if !watch(wg.Wait, 20*time.Second) {
				hang("Create/Delete/Check (free running)")
				hung = true
			}
			steps = append(steps, "per token: 6 Authenticate + 6 Check calls, a Delete after a random delay, one Create, all concurrent against a slow store")
			gdb.mu.Lock()
			gdb.slow = false
			gdb.mu.Unlock()
			c.Count("lifecycle/free-rounds")
		}
		if hung {
			return
		}
		// sometimes the id is issued again: the old secret must stay dead, the new one must work
		var recreated []*tokT
		if c.Rng.Intn(3) == 0 {
			for _, t := range toks {
				if t.deleted {
					tok, err := store.Create(t.id, "client")
					if err != nil {
						c.Fail("store:recreate-after-delete-refused", tag+": "+err.Error())
						continue
					}
					recreated = append(recreated, &tokT{id: t.id, secret: strings.SplitN(tok.Token, ":", 2)[1]})
					steps = append(steps, fmt.Sprintf("Create(%s) again", t.id))
					break
				}
			}
		}
		// ---- epilogue
		api.VerifAgeCache(301 * time.Second)
		freshStore := accesstoken.NewStore(gdb) // the same DB, no history
		freshAPI := authn.NewAPI(store, false)   // a fresh authenticator over the LONG-LIVED store
		bad := false
		for _, t := range toks {
			want := !t.deleted
			gotLong := store.Check(t.id, t.secret) == nil
			gotFresh := freshStore.Check(t.id, t.secret) == nil
			a1, ret1 := c36auth(api, t.id, t.secret)
			a2, ret2 := c36auth(freshAPI, t.id, t.secret)
			if !ret1 || !ret2 {
				hang("Authenticate (epilogue)")
				return
			}
			switch {
			case t.deleted && (a1 || a2):
				c.Count("oracle/deleted-token-admitted")
				c.Fail("authn:deleted-token-admitted", fmt.Sprintf("%s: token %q was deleted, the authn cache is older than 5 minutes, yet a non-loopback request with its credentials is admitted (long-lived API: %v, fresh API over the same store: %v; store.Check=%v, new store over the same DB=%v). Schedule: %s", tag, t.id, a1, a2, gotLong, gotFresh, strings.Join(steps, "; ")))
				bad = true
			case gotLong != gotFresh:
				c.Fail("store:long-lived-differs-from-fresh", fmt.Sprintf("%s: Check(%q) = %v on the long-lived CredentialStore, %v on a new CredentialStore over the same DB. Schedule: %s", tag, t.id, gotLong, gotFresh, strings.Join(steps, "; ")))
				bad = true
			case gotFresh != want && len(recreated) == 0:
				c.Fail("store:check-disagrees-with-history", fmt.Sprintf("%s: Check(%q) = %v, token deleted = %v", tag, t.id, gotFresh, t.deleted))
				bad = true
			case !t.deleted && (!a1 || !a2):
				c.Fail("authn:live-token-refused", fmt.Sprintf("%s: live token %q refused in the epilogue", tag, t.id))
				bad = true
			}
		}
		for _, t := range recreated {
			gotLong := store.Check(t.id, t.secret) == nil
			gotFresh := freshStore.Check(t.id, t.secret) == nil
			if gotLong != gotFresh || !gotFresh {
				c.Fail("store:long-lived-differs-from-fresh", fmt.Sprintf("%s: re-issued token %q: Check = %v on the long-lived store, %v on a new store. Schedule: %s", tag, t.id, gotLong, gotFresh, strings.Join(steps, "; ")))
				bad = true
			}
		}
		if bad {
			failures++
		}
	}
}

func c36cacheKeys(api *authn.API) []string {
	var ks []string
	for _, e := range api.VerifCache() {
		k := e.Key
		if len(k) > 14 {
			k = k[:14] + "…"
		}
		ks = append(ks, k)
	}
	return ks
}

func init() { register("c36", runC36) }
