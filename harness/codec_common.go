//go:build hc03 || hc04 || hc05 || hall

package main

// Shared by the codec properties C03/C04/C05: type-directed generator of ledger values over
// the repository's own constructors, canonical one-line dumps (mirrored by
// lean/BytomModel/Model/CodecDump.lean), error classification, and the runner that feeds one
// text to the REAL UnmarshalText functions.

import (
	"encoding/hex"
	"fmt"
	"io"
	"math/rand"
	"strings"

	"github.com/bytom/bytom/encoding/blockchain"
	bytomerrors "github.com/bytom/bytom/errors"
	"github.com/bytom/bytom/protocol/bc"
	"github.com/bytom/bytom/protocol/bc/types"
)

// ---------------------------------------------------------------------------------------
// dumps

// failLimited records a direct-oracle failure, at most 3 times per signature and run (the
// orchestrator re-reads the whole op stream per recorded failure); further hits are counted.
var failSeen = map[string]int{}
var failTotal int

func failLimited(c *Ctx, sig, detail string) {
	failSeen[sig]++
	failTotal++
	c.Count("oraclefail:" + sig)
	if failSeen[sig] <= 3 {
		c.Fail(sig, detail)
	}
}

// sigNorm makes a panic message usable as a signature: numbers and addresses are dropped
func sigNorm(s string) string {
	var b strings.Builder
	for _, r := range s {
		if r >= '0' && r <= '9' {
			if b.Len() == 0 || !strings.HasSuffix(b.String(), "#") {
				b.WriteByte('#')
			}
			continue
		}
		b.WriteRune(r)
	}
	return short(b.String())
}

func short(s string) string {
	if len(s) > 160 {
		return s[:160] + "…"
	}
	return s
}

func hx(b []byte) string {
	if len(b) == 0 {
		return "-"
	}
	return hex.EncodeToString(b)
}

func hxList(l [][]byte) string {
	s := make([]string, len(l))
	for i, b := range l {
		s[i] = hx(b)
	}
	return "[" + strings.Join(s, ",") + "]"
}

func hxHash(h bc.Hash) string { return hex.EncodeToString(h.Bytes()) }

func hxAsset(a *bc.AssetID) string {
	if a == nil {
		return "nil"
	}
	return hex.EncodeToString(a.Bytes())
}

func dSC(sc *types.SpendCommitment) string {
	return fmt.Sprintf("sc(%s,%s,%d,%d,%d,%s,%s)", hxHash(sc.SourceID), hxAsset(sc.AssetId), sc.Amount, sc.SourcePosition, sc.VMVersion, hx(sc.ControlProgram), hxList(sc.StateData))
}

func dTyped(t types.TypedInput) string {
	switch in := t.(type) {
	case nil:
		return "nil"
	case *types.IssuanceInput:
		return fmt.Sprintf("iss(%s,%d,%s,%d,%s,%s)", hx(in.Nonce), in.Amount, hx(in.AssetDefinition), in.VMVersion, hx(in.IssuanceProgram), hxList(in.Arguments))
	case *types.SpendInput:
		return fmt.Sprintf("sp(%s,%s,%s)", dSC(&in.SpendCommitment), hx(in.SpendCommitmentSuffix), hxList(in.Arguments))
	case *types.CoinbaseInput:
		return fmt.Sprintf("cb(%s)", hx(in.Arbitrary))
	case *types.VetoInput:
		return fmt.Sprintf("ve(%s,%s,%s,%s)", dSC(&in.SpendCommitment), hx(in.VetoCommitmentSuffix), hx(in.Vote), hxList(in.Arguments))
	}
	return "?"
}

func dInput(i *types.TxInput) string {
	return fmt.Sprintf("in(%d,%s,%s,%s)", i.AssetVersion, dTyped(i.TypedInput), hx(i.CommitmentSuffix), hx(i.WitnessSuffix))
}

func dOutput(o *types.TxOutput) string {
	oc := "nil"
	if o.AssetId != nil {
		oc = fmt.Sprintf("oc(%s,%d,%d,%s,%s)", hxAsset(o.AssetId), o.Amount, o.VMVersion, hx(o.ControlProgram), hxList(o.StateData))
	} else if o.Amount != 0 || o.VMVersion != 0 || len(o.ControlProgram) != 0 || len(o.StateData) != 0 {
		oc = "nil!"
	}
	typed := "?"
	switch t := o.TypedOutput.(type) {
	case *types.VoteOutput:
		typed = fmt.Sprintf("vote(%s)", hx(t.Vote))
	default:
		if o.TypedOutput != nil && o.OutputType() == types.OriginalOutputType {
			typed = "orig"
		}
	}
	return fmt.Sprintf("out(%d,%s,%s,%s)", o.AssetVersion, oc, hx(o.CommitmentSuffix), typed)
}

func dTxSized(t *types.TxData, size uint64) string {
	ins := make([]string, len(t.Inputs))
	for i, in := range t.Inputs {
		ins[i] = dInput(in)
	}
	outs := make([]string, len(t.Outputs))
	for i, o := range t.Outputs {
		outs[i] = dOutput(o)
	}
	return fmt.Sprintf("tx(%d,%d,%d,[%s],[%s])", t.Version, size, t.TimeRange, strings.Join(ins, ","), strings.Join(outs, ","))
}

func dTx(t *types.TxData) string { return dTxSized(t, t.SerializedSize) }

func dSupLink(s *types.SupLink) string {
	sigs := make([]string, len(s.Signatures))
	for i, b := range s.Signatures {
		sigs[i] = hx(b)
	}
	return fmt.Sprintf("sl(%d,%s,[%s])", s.SourceHeight, hxHash(s.SourceHash), strings.Join(sigs, ","))
}

func dHeader(h *types.BlockHeader) string {
	sl := make([]string, len(h.SupLinks))
	for i, s := range h.SupLinks {
		sl[i] = dSupLink(s)
	}
	return fmt.Sprintf("hdr(%d,%d,%s,%d,%s,%s,[%s])", h.Version, h.Height, hxHash(h.PreviousBlockHash), h.Timestamp, hxHash(h.TransactionsMerkleRoot), hx(h.BlockWitness), strings.Join(sl, ","))
}

// dBlock: sized=false prints the recorded SerializedSize of each tx, sized=true the size the
// encoding of that tx has (for comparing a constructed block with its decoding)
func dBlock(flag int, b *types.Block, sizes []uint64) string {
	txs := make([]string, len(b.Transactions))
	for i, t := range b.Transactions {
		if sizes != nil {
			txs[i] = dTxSized(&t.TxData, sizes[i])
		} else {
			txs[i] = dTx(&t.TxData)
		}
	}
	return fmt.Sprintf("blk(%d,%s,[%s])", flag, dHeader(&b.BlockHeader), strings.Join(txs, ","))
}

// ---------------------------------------------------------------------------------------
// error classes (mirror Codec.Err.name)

func errClass(err error) string {
	root := bytomerrors.Root(err)
	switch root {
	case io.EOF:
		return "eof"
	case io.ErrUnexpectedEOF:
		return "ueof"
	case blockchain.ErrRange:
		return "range"
	case hex.ErrLength:
		return "hex"
	}
	if _, ok := root.(hex.InvalidByteError); ok {
		return "hex"
	}
	msg := root.Error()
	for _, p := range [][2]string{
		{"binary: varint overflows", "overflow"},
		{"unsupported serflags", "serflags"},
		{"unsupported input type", "intype"},
		{"unsupported output type", "outtype"},
		{"unrecognized VM version", "vmversion"},
		{"asset ID does not match", "assetid"},
		{"trailing garbage", "trailing"},
		{"unsupported serialization flags", "hdrflags"},
		{"unsupported asset version", "assetversion"},
		{"DecodeMessage() got an empty message", "emptymsg"},
	} {
		if strings.HasPrefix(msg, p[0]) {
			return p[1]
		}
	}
	return "other:" + msg
}

// ---------------------------------------------------------------------------------------
// running one text through the real decoders

type codecResult struct {
	line    string // canonical implementation line
	outcome string // ok | err | panic
	tx      *types.Tx
	txd     *types.TxData
	hdr     *types.BlockHeader
	blk     *types.Block
	flag    int
}

func reText(re, text []byte) string {
	if string(re) == string(text) {
		return "="
	}
	return string(re)
}

// runCodec calls the real UnmarshalText of `kind` on text, recovering panics.
func runCodec(kind string, text []byte) (res codecResult) {
	defer func() {
		if r := recover(); r != nil {
			res = codecResult{line: "panic", outcome: "panic"}
		}
	}()
	fail := func(err error) codecResult { return codecResult{line: "err " + errClass(err), outcome: "err"} }
	switch kind {
	case "tx":
		tx := &types.Tx{}
		if err := tx.UnmarshalText(text); err != nil {
			return fail(err)
		}
		re, err := tx.TxData.MarshalText()
		if err != nil {
			return codecResult{line: "ok-but-marshal-fails " + err.Error(), outcome: "ok", tx: tx}
		}
		return codecResult{line: "ok " + dTx(&tx.TxData) + " re=" + reText(re, text), outcome: "ok", tx: tx, txd: &tx.TxData}
	case "txd":
		tx := &types.TxData{}
		if err := tx.UnmarshalText(text); err != nil {
			return fail(err)
		}
		re, err := tx.MarshalText()
		if err != nil {
			return codecResult{line: "ok-but-marshal-fails " + err.Error(), outcome: "ok", txd: tx}
		}
		return codecResult{line: "ok " + dTx(tx) + " re=" + reText(re, text), outcome: "ok", txd: tx}
	case "hdr":
		h := &types.BlockHeader{}
		if err := h.UnmarshalText(text); err != nil {
			return fail(err)
		}
		re, err := h.MarshalText()
		if err != nil {
			return codecResult{line: "ok-but-marshal-fails " + err.Error(), outcome: "ok", hdr: h}
		}
		return codecResult{line: "ok " + dHeader(h) + " re=" + reText(re, text), outcome: "ok", hdr: h}
	case "blk":
		b := &types.Block{}
		if err := b.UnmarshalText(text); err != nil {
			return fail(err)
		}
		flag := 0
		if len(text) >= 2 {
			if v, err := hex.DecodeString(string(text[:2])); err == nil {
				flag = int(v[0])
			}
		}
		var re []byte
		var err error
		switch flag {
		case types.SerBlockHeader:
			re, err = b.MarshalTextForBlockHeader()
		case types.SerBlockTransactions:
			re, err = b.MarshalTextForTransactions()
		default:
			re, err = b.MarshalText()
		}
		if err != nil {
			return codecResult{line: "ok-but-marshal-fails " + err.Error(), outcome: "ok", blk: b, flag: flag}
		}
		return codecResult{line: "ok " + dBlock(flag, b, nil) + " re=" + reText(re, text), outcome: "ok", blk: b, flag: flag}
	}
	return codecResult{line: "bad-op", outcome: "err"}
}

func isPlainHexText(text []byte) bool {
	if len(text) == 0 {
		return false
	}
	for _, c := range text {
		if !(c >= '0' && c <= '9' || c >= 'a' && c <= 'f') {
			return false
		}
	}
	return true
}

// opLine renders the op line for a text: the text itself when it is plain lowercase hex,
// otherwise `<kind>r <hex of the text bytes>`.
func opLine(kind string, text []byte) string {
	if isPlainHexText(text) {
		return kind + " " + string(text)
	}
	return kind + "r " + hx(text)
}

// parseOpLine is the inverse of opLine (for corpus / replay lines).
func parseOpLine(line string) (kind string, text []byte, ok bool) {
	f := strings.Fields(line)
	if len(f) != 2 {
		return "", nil, false
	}
	kind = f[0]
	switch kind {
	case "tx", "txd", "hdr", "blk":
		if f[1] == "-" {
			return kind, nil, true
		}
		return kind, []byte(f[1]), true
	case "txr", "txdr", "hdrr", "blkr":
		if f[1] == "-" {
			return kind[:len(kind)-1], nil, true
		}
		b, err := hex.DecodeString(f[1])
		if err != nil {
			return "", nil, false
		}
		return kind[:len(kind)-1], b, true
	}
	return "", nil, false
}

// ---------------------------------------------------------------------------------------
// generator

type codecGen struct {
	r *rand.Rand
	// knobs
	allowBadAV    bool // outputs with asset version != 1 (zero commitment)
	allowBadAVIn  bool // inputs with asset version != 1 and a nil typed input (rejected by the decoder)
	allowSCSuffix bool // non-empty spend/veto commitment suffix
	count         func(string)
}

var boundaryLens = []int{0, 0, 1, 1, 2, 31, 32, 33, 64, 127, 128, 129, 255, 256, 300}

func (g *codecGen) bytesN(n int) []byte {
	b := make([]byte, n)
	g.r.Read(b)
	return b
}

// bytes: nil, empty, boundary and random lengths; rarely a 2-byte-varint boundary length
func (g *codecGen) bytes(max int) []byte {
	switch g.r.Intn(10) {
	case 0:
		return nil
	case 1:
		return []byte{}
	case 2, 3:
		n := boundaryLens[g.r.Intn(len(boundaryLens))]
		if n > max {
			n = max
		}
		return g.bytesN(n)
	case 4:
		if max >= 300 && g.r.Intn(40) == 0 {
			return g.bytesN([]int{16383, 16384, 16385}[g.r.Intn(3)])
		}
	}
	return g.bytesN(g.r.Intn(max + 1))
}

func (g *codecGen) list(maxElems, maxLen int) [][]byte {
	switch g.r.Intn(6) {
	case 0:
		return nil
	case 1:
		return [][]byte{}
	}
	n := g.r.Intn(maxElems + 1)
	l := make([][]byte, n)
	for i := range l {
		l[i] = g.bytes(maxLen)
	}
	return l
}

var boundaryU63 = []uint64{0, 1, 2, 127, 128, 129, 255, 256, 16383, 16384, 1<<21 - 1, 1 << 21, 1<<28 - 1, 1 << 28, 1<<31 - 1, 1 << 31,
	1<<35 - 1, 1 << 35, 1<<42 - 1, 1 << 42, 1<<49 - 1, 1 << 49, 1<<56 - 1, 1 << 56, 1<<62 - 1, 1 << 62, 1<<63 - 2, 1<<63 - 1}

func (g *codecGen) u63() uint64 {
	switch g.r.Intn(4) {
	case 0:
		return boundaryU63[g.r.Intn(len(boundaryU63))]
	case 1:
		return uint64(g.r.Intn(1000))
	}
	return g.r.Uint64() >> uint(1+g.r.Intn(63))
}

func (g *codecGen) hash() bc.Hash {
	if g.r.Intn(12) == 0 {
		return bc.Hash{}
	}
	return bc.Hash{V0: g.r.Uint64(), V1: g.r.Uint64(), V2: g.r.Uint64(), V3: g.r.Uint64()}
}

func (g *codecGen) program() []byte {
	if g.r.Intn(8) == 0 { // unspendable (retirement)
		return append([]byte{0x6a}, g.bytes(20)...)
	}
	return g.bytes(300)
}

func (g *codecGen) suffix() []byte {
	if g.r.Intn(5) == 0 {
		return g.bytes(40)
	}
	return nil
}

func (g *codecGen) input(kind int) *types.TxInput {
	var in *types.TxInput
	switch kind {
	case 0:
		in = types.NewIssuanceInput(g.bytes(40), g.u63(), g.program(), g.list(4, 80), g.bytes(300))
		if g.r.Intn(6) == 0 {
			in.TypedInput.(*types.IssuanceInput).VMVersion = g.u63()
		}
		g.count("in:issuance")
	case 1:
		in = types.NewSpendInput(g.list(4, 80), g.hash(), bc.AssetID(g.hash()), g.u63(), g.u63(), g.program(), g.list(3, 60))
		if g.allowSCSuffix && g.r.Intn(8) == 0 {
			in.TypedInput.(*types.SpendInput).SpendCommitmentSuffix = g.bytesN(1 + g.r.Intn(8))
			g.count("in:spend-scsuffix")
		}
		g.count("in:spend")
	case 2:
		in = types.NewCoinbaseInput(g.bytes(100))
		g.count("in:coinbase")
	case 3:
		in = types.NewVetoInput(g.list(4, 80), g.hash(), bc.AssetID(g.hash()), g.u63(), g.u63(), g.program(), g.bytes(70), g.list(3, 60))
		if g.allowSCSuffix && g.r.Intn(8) == 0 {
			in.TypedInput.(*types.VetoInput).VetoCommitmentSuffix = g.bytesN(1 + g.r.Intn(8))
			g.count("in:veto-scsuffix")
		}
		g.count("in:veto")
	default: // unknown asset version: no typed input
		in = &types.TxInput{AssetVersion: []uint64{0, 2, 3, 1 << 40, 1<<63 - 1}[g.r.Intn(5)]}
		g.count("in:badav")
	}
	in.CommitmentSuffix = g.suffix()
	in.WitnessSuffix = g.suffix()
	if len(in.CommitmentSuffix) > 0 || len(in.WitnessSuffix) > 0 {
		g.count("in:suffix")
	}
	return in
}

func (g *codecGen) output() *types.TxOutput {
	var o *types.TxOutput
	if g.r.Intn(3) == 0 {
		o = types.NewVoteOutput(bc.AssetID(g.hash()), g.u63(), g.program(), g.bytes(70), g.list(3, 60))
		g.count("out:vote")
	} else {
		o = types.NewOriginalTxOutput(bc.AssetID(g.hash()), g.u63(), g.program(), g.list(3, 60))
		g.count("out:original")
	}
	if g.allowBadAV && g.r.Intn(10) == 0 {
		// unknown asset version: the commitment is not serialised, so only the zero
		// commitment can round-trip
		o.AssetVersion = []uint64{0, 2, 1 << 40}[g.r.Intn(3)]
		o.OutputCommitment = types.OutputCommitment{}
		g.count("out:badav")
	}
	o.CommitmentSuffix = g.suffix()
	return o
}

func (g *codecGen) txData() *types.TxData {
	t := &types.TxData{Version: g.u63(), TimeRange: g.u63()}
	if g.r.Intn(3) == 0 {
		t.Version = 1
	}
	nIn, nOut := g.r.Intn(9), g.r.Intn(9)
	if g.r.Intn(10) == 0 {
		nIn = 0
	}
	for i := 0; i < nIn; i++ {
		k := g.r.Intn(4)
		if g.allowBadAVIn && g.r.Intn(12) == 0 {
			k = 4
		}
		t.Inputs = append(t.Inputs, g.input(k))
	}
	for i := 0; i < nOut; i++ {
		t.Outputs = append(t.Outputs, g.output())
	}
	g.count(fmt.Sprintf("tx:ins=%d", nIn))
	g.count(fmt.Sprintf("tx:outs=%d", nOut))
	return t
}

func (g *codecGen) supLinks() types.SupLinks {
	switch g.r.Intn(4) {
	case 0:
		return nil
	case 1:
		return types.SupLinks{}
	}
	n := g.r.Intn(6)
	var sl types.SupLinks
	for i := 0; i < n; i++ {
		s := &types.SupLink{SourceHeight: g.u63(), SourceHash: g.hash()}
		for j := range s.Signatures {
			switch g.r.Intn(3) {
			case 0:
				s.Signatures[j] = g.bytesN(64)
			case 1:
				s.Signatures[j] = g.bytes(70)
			}
		}
		sl = append(sl, s)
	}
	g.count(fmt.Sprintf("hdr:suplinks=%d", n))
	return sl
}

func (g *codecGen) header() *types.BlockHeader {
	h := &types.BlockHeader{Version: g.u63(), Height: g.u63(), PreviousBlockHash: g.hash(), Timestamp: g.u63()}
	h.TransactionsMerkleRoot = g.hash()
	switch g.r.Intn(3) {
	case 0:
		h.BlockWitness = g.bytesN(64)
	case 1:
		h.BlockWitness = g.bytes(100)
	}
	h.SupLinks = g.supLinks()
	return h
}

func (g *codecGen) block() *types.Block {
	b := &types.Block{BlockHeader: *g.header()}
	n := g.r.Intn(5)
	for i := 0; i < n; i++ {
		b.Transactions = append(b.Transactions, &types.Tx{TxData: *g.txData()})
	}
	g.count(fmt.Sprintf("blk:txs=%d", n))
	return b
}
