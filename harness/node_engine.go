//go:build hnode || hall

package main

// The node-history engine (DESIGN.md §5 "node-history engine"): drives the REAL
// protocol.Chain + casper.Casper + database.Store + TxPool on a MemDB with small epochs,
// real hashes and real signatures, and dumps canonical observable state after every event.

import (
	"bytes"
	"encoding/binary"
	"encoding/hex"
	"fmt"
	"math/rand"
	"os"
	"sort"
	"strings"
	"time"

	"github.com/sirupsen/logrus"

	"github.com/bytom/bytom/config"
	"github.com/bytom/bytom/consensus"
	"github.com/bytom/bytom/crypto/ed25519/chainkd"
	"github.com/bytom/bytom/crypto/sha3pool"
	"github.com/bytom/bytom/database"
	dbm "github.com/bytom/bytom/database/leveldb"
	"github.com/bytom/bytom/event"
	"github.com/bytom/bytom/protocol"
	"github.com/bytom/bytom/protocol/bc"
	"github.com/bytom/bytom/protocol/bc/types"
	"github.com/bytom/bytom/protocol/casper"
	"github.com/bytom/bytom/protocol/state"
)

const nodeInterval = uint64(1000) // BlockTimeInterval used by the engine (ms)

var opTrue = []byte{0x51}

// nodeEnv is the global consensus configuration of one case (ActiveNetParams and
// CommonConfig are process-wide variables of the implementation).
type nodeEnv struct {
	E        uint64
	keys     []chainkd.XPrv // federation validators, order = index
	pubs     []string
	outsider chainkd.XPrv // a key that is not a validator
	localIdx int          // index of the validator key the node under test holds, -1 = outsider
	votePend uint64
	// signedFor[target/order][source] = the valid signature handed out for that link
	signedFor map[string]map[bc.Hash][]byte
	// forceRelabel: every invalid signature is a relabelled genuine one when one is available
	forceRelabel bool
}

type detReader struct{ r *rand.Rand }

func (d detReader) Read(p []byte) (int, error) {
	for i := range p {
		p[i] = byte(d.r.Intn(256))
	}
	return len(p), nil
}

func newNodeEnv(E uint64, nVal int, localIdx int, votePend uint64) *nodeEnv {
	logrus.SetLevel(logrus.PanicLevel)
	env := &nodeEnv{E: E, localIdx: localIdx, votePend: votePend}
	kr := detReader{rand.New(rand.NewSource(424242))}
	for i := 0; i < nVal; i++ {
		k, err := chainkd.NewXPrv(kr)
		if err != nil {
			panic(err)
		}
		env.keys = append(env.keys, k)
		env.pubs = append(env.pubs, k.XPub().String())
	}
	env.outsider, _ = chainkd.NewXPrv(kr)
	var xpubs []chainkd.XPub
	for _, k := range env.keys {
		xpubs = append(xpubs, k.XPub())
	}
	params := consensus.Params{
		Name:            "test", // "solo" would overwrite the federation with the local key
		Bech32HRPSegwit: "tn",
		CasperConfig: consensus.CasperConfig{
			BlockTimeInterval:    nodeInterval,
			MaxTimeOffsetMs:      3000,
			BlocksOfEpoch:        E,
			MinValidatorVoteNum:  1e14,
			VotePendingBlockNums: []consensus.VotePendingBlockNum{{BeginBlock: 0, EndBlock: ^uint64(0), Num: votePend}},
			FederationXpubs:      xpubs,
		},
	}
	// the daemons of earlier nodes (blockProcessor, authVerificationLoop) never terminate and
	// read the global parameters: write them only when they change (the concurrency mode keeps
	// them constant, so a -race run sees no harness-made write)
	if fmt.Sprint(consensus.ActiveNetParams) != fmt.Sprint(params) {
		consensus.ActiveNetParams = params
	}
	config.CommonConfig = config.DefaultConfig()
	env.useLocalKey()
	return env
}

func (env *nodeEnv) useLocalKey() {
	k := env.outsider
	if env.localIdx >= 0 {
		k = env.keys[env.localIdx]
	}
	config.CommonConfig.XPrv = &k
}

func (env *nodeEnv) useOutsiderKey() {
	k := env.outsider
	config.CommonConfig.XPrv = &k
}

// ---------------------------------------------------------------------------------------

var nodeDirSeq int

// Nodes are not closed at once: goroutines of the implementation (the casper
// cached-verification loop) may still touch the store for a moment after the last call
// returned. A closed node is parked and its database is closed (and its directory removed)
// only when 40 younger nodes have been parked after it, or at the end of the run.
var parkedNodes []*node

func (n *node) close() {
	if n == nil {
		return
	}
	n.quiesce()
	parkedNodes = append(parkedNodes, n)
	for len(parkedNodes) > 40 {
		parkedNodes[0].reallyClose()
		parkedNodes = parkedNodes[1:]
	}
}

func closeParkedNodes() {
	time.Sleep(20 * time.Millisecond)
	for _, n := range parkedNodes {
		n.reallyClose()
	}
	parkedNodes = nil
}

func (n *node) reallyClose() {
	if n.db != nil {
		n.db.Close()
	}
	if n.dir != "" {
		os.RemoveAll(n.dir)
	}
}

// quiesce waits until the casper background loop has FINISHED every queued epoch
// notification. An empty queue is not enough: the loop takes a notification and only then
// reads the store (validators of the epoch) and replays parked votes. A sequential history
// that goes on while the loop is still reading is not the history the model is given: the
// loop's late cache fill of a checkpoint can cross the invalidation made by the next vote
// and leave a stale (still unjustified) source checkpoint in the store cache, after which a
// supermajority link from it justifies nothing (seen once in about a hundred runs of the
// tree stream on a loaded machine; DESIGN.md A.7). The hook queues a marker notification
// behind the real ones and waits until the loop has taken it.
func (n *node) quiesce() {
	if n.chain == nil {
		return
	}
	n.chain.VerifNodeCasper().VerifNodeDrain(5 * time.Second)
}

type node struct {
	sub   *event.Subscription // verification messages the node posts for broadcast
	env   *nodeEnv
	dir   string
	db    dbm.DB
	store *database.Store
	disp  *event.Dispatcher
	pool  *protocol.TxPool
	chain *protocol.Chain
	// set by dumpContracts when Store.GetContract and the persisted row disagree
	contractMismatch string
}

func newNode(env *nodeEnv, db dbm.DB) (n *node, err error) {
	defer func() {
		if r := recover(); r != nil {
			err = fmt.Errorf("panic: %v", r)
		}
	}()
	n = &node{env: env}
	if db == nil {
		// MemDB cannot carry a node (its IteratorPrefixWithStart ignores the prefix, see
		// C20 / F24), so the engine runs on the LevelDB backend in a scratch directory.
		nodeDirSeq++
		n.dir = fmt.Sprintf("/var/tmp/verif-node-%d-%d", os.Getpid(), nodeDirSeq)
		os.RemoveAll(n.dir)
		ldb, err := dbm.NewGoLevelDB("node", n.dir)
		if err != nil {
			return nil, err
		}
		db = ldb
	}
	n.db = db
	n.store = database.NewStore(db)
	n.disp = event.NewDispatcher()
	n.sub, _ = n.disp.Subscribe(casper.ValidCasperSignMsg{})
	n.pool = protocol.NewTxPool(n.store, n.disp)
	n.chain, err = protocol.NewChain(n.store, n.pool, n.disp)
	return n, err
}

// drainPosted returns the verification messages posted since the last call.
func (n *node) drainPosted() []casper.ValidCasperSignMsg {
	var out []casper.ValidCasperSignMsg
	for n.sub != nil {
		select {
		case ev, ok := <-n.sub.Chan():
			if !ok {
				return out
			}
			if m, ok := ev.Data.(casper.ValidCasperSignMsg); ok {
				out = append(out, m)
			}
		default:
			return out
		}
	}
	return out
}

// reopen builds a fresh Store/TxPool/Chain over the same database (a process restart).
func (n *node) reopen() (err error) {
	defer func() {
		if r := recover(); r != nil {
			err = fmt.Errorf("panic: %v", r)
		}
	}()
	n.quiesce()
	time.Sleep(2 * time.Millisecond)
	n.store = database.NewStore(n.db)
	n.disp = event.NewDispatcher()
	n.sub, _ = n.disp.Subscribe(casper.ValidCasperSignMsg{})
	n.pool = protocol.NewTxPool(n.store, n.disp)
	n.chain = nil
	n.chain, err = protocol.NewChain(n.store, n.pool, n.disp)
	if err == nil {
		// NewChain applies the best block again: an epoch-start block queues a notification
		n.quiesce()
	}
	return err
}

// cloneBlock round-trips through the wire encoding so that no two nodes ever share
// (and mutate) one *types.Block.
func cloneBlock(b *types.Block) *types.Block {
	raw, err := b.MarshalText()
	if err != nil {
		panic(err)
	}
	nb := &types.Block{}
	if err := nb.UnmarshalText(raw); err != nil {
		panic(err)
	}
	return nb
}

type procResult struct {
	orphan bool
	err    error
	panic  string
}

func (r procResult) String() string {
	switch {
	case r.panic != "":
		return "panic"
	case r.err != nil:
		return "err"
	case r.orphan:
		return "orphan"
	}
	return "ok"
}

// processBlock delivers a copy of b to the node. A panic inside the block-processor
// goroutine cannot be recovered from here; the verif-tag build of the harness therefore
// calls the processor synchronously through ProcessBlock and a watchdog.
func (n *node) processBlock(b *types.Block) (res procResult) {
	done := make(chan procResult, 1)
	go func() {
		defer func() {
			if r := recover(); r != nil {
				done <- procResult{panic: fmt.Sprint(r)}
			}
		}()
		o, err := n.chain.ProcessBlock(cloneBlock(b))
		done <- procResult{orphan: o, err: err}
	}()
	select {
	case r := <-done:
		return r
	case <-time.After(20 * time.Second):
		return procResult{panic: "timeout: ProcessBlock did not return"}
	}
}

// ---------------------------------------------------------------------------------------
// block construction

type blockSpec struct {
	parent   *types.Block
	slotSkip uint64 // timestamp = parent.ts + interval*(1+slotSkip)
	arb      byte   // extra coinbase arbitrary byte => different hash at same slot
	txs      []*types.Tx
	rewards  map[string]uint64 // rewards of the previous checkpoint (epoch-start blocks)
	ckptTs   uint64            // timestamp of the previous checkpoint block
	nVal     int
	cbProg   []byte // program of the block's own coinbase output (nil: TRUE)
}

func coinbaseTx(height uint64, arb byte, rewards map[string]uint64, E uint64) *types.Tx {
	return coinbaseTxFor(opTrue, height, arb, rewards, E)
}

// altCoinbaseProg: a second always-true program (TRUE TRUE EQUAL). Blocks that pay it earn their
// proposer reward under another key of the checkpoint's reward table than the node's own
// proposer (which pays the default coinbase program, TRUE).
var altCoinbaseProg = []byte{0x51, 0x51, 0x87}

// coinbaseTxFor: the block's own (first) output pays `own`; the first block of an epoch pays
// the whole reward table of the closed epoch.
func coinbaseTxFor(own []byte, height uint64, arb byte, rewards map[string]uint64, E uint64) *types.Tx {
	opTrue := own // the rest of the function is written for "the block's own program"
	arbitrary := append([]byte{0x00}, []byte(fmt.Sprint(height))...)
	arbitrary = append(arbitrary, arb)
	outs := []*types.TxOutput{types.NewOriginalTxOutput(*consensus.BTMAssetID, 0, opTrue, [][]byte{})}
	if height%E == 1 && height != 1 {
		var progs []string
		for p := range rewards {
			progs = append(progs, p)
		}
		sort.Strings(progs)
		for _, p := range progs {
			if p == hex.EncodeToString(opTrue) {
				outs[0].Amount = rewards[p]
				continue
			}
			pb, _ := hex.DecodeString(p)
			outs = append(outs, types.NewOriginalTxOutput(*consensus.BTMAssetID, rewards[p], pb, [][]byte{}))
		}
	}
	data := types.TxData{Version: 1, Inputs: []*types.TxInput{types.NewCoinbaseInput(arbitrary)}, Outputs: outs}
	raw, err := data.MarshalText()
	if err != nil {
		panic(err)
	}
	data.SerializedSize = uint64(len(raw))
	return types.NewTx(data)
}

// slotOrder is the validator order scheduled for timestamp ts (independent
// re-computation of the round-robin rule, used to pick the signing key).
func slotOrder(ckptTs, ts uint64, nVal int) int {
	start := ckptTs + nodeInterval
	return int(((ts - start) / nodeInterval) % uint64(nVal))
}

func (env *nodeEnv) buildBlock(s blockSpec) *types.Block {
	height := s.parent.Height + 1
	ts := s.parent.Timestamp + nodeInterval*(1+s.slotSkip)
	own := s.cbProg
	if own == nil {
		own = opTrue
	}
	cb := coinbaseTxFor(own, height, s.arb, s.rewards, env.E)
	txs := append([]*types.Tx{cb}, s.txs...)
	var bcTxs []*bc.Tx
	for _, t := range txs {
		bcTxs = append(bcTxs, t.Tx)
	}
	root, err := types.TxMerkleRoot(bcTxs)
	if err != nil {
		panic(err)
	}
	b := &types.Block{
		BlockHeader: types.BlockHeader{
			Version: 1, Height: height, PreviousBlockHash: s.parent.Hash(), Timestamp: ts,
			BlockCommitment: types.BlockCommitment{TransactionsMerkleRoot: root},
		},
		Transactions: txs,
	}
	env.signBlock(b, slotOrder(s.ckptTs, ts, len(env.keys)))
	return b
}

func (env *nodeEnv) signBlock(b *types.Block, order int) {
	sig := env.keys[order].Sign(b.BlockHeader.Hash().Bytes())
	b.BlockHeader.BlockWitness.Set(sig)
}

var relabelledVotes int

// voteMsg builds a signed verification message by validator `order` for source -> target.
func (env *nodeEnv) voteMsg(order int, source, target bc.Hash, valid bool) *casper.ValidCasperSignMsg {
	buf := new(bytes.Buffer)
	source.WriteTo(buf)
	target.WriteTo(buf)
	var msg [32]byte
	sha3pool.Sum256(msg[:], buf.Bytes())
	key, pub := env.outsider, env.outsider.XPub().String()
	if order < len(env.keys) {
		key, pub = env.keys[order], env.pubs[order]
	}
	sig := key.Sign(msg[:])
	rk := fmt.Sprintf("%x/%d", target.Bytes(), order)
	if valid {
		if env.signedFor == nil {
			env.signedFor = map[string]map[bc.Hash][]byte{}
		}
		if env.signedFor[rk] == nil {
			env.signedFor[rk] = map[bc.Hash][]byte{}
		}
		env.signedFor[rk][source] = sig
	} else {
		// an invalid signature is either garbage (one bit of the right signature flipped) or a
		// REPLAY: a genuine signature of the same validator for the same target but ANOTHER
		// source (a verifier that remembers "this validator's signature for this target was
		// good" without the source accepts it)
		replayed := false
		// or a RELABELLED vote: the genuine signature ANOTHER validator handed out for the very same
		// link, presented under this validator's public key (a verifier that remembers "this
		// signature for this message was good" without the key accepts it)
		if (source.V0>>1)&1 == 0 || env.forceRelabel {
			for o := 0; o < len(env.keys) && !replayed; o++ {
				if o == order {
					continue
				}
				if other, ok := env.signedFor[fmt.Sprintf("%x/%d", target.Bytes(), o)][source]; ok {
					sig = append([]byte{}, other...)
					replayed = true
					relabelledVotes++
				}
			}
		}
		if !replayed && source.V0&1 == 0 {
			var srcs []bc.Hash
			for src := range env.signedFor[rk] {
				if src != source {
					srcs = append(srcs, src)
				}
			}
			sort.Slice(srcs, func(i, j int) bool { return srcs[i].String() < srcs[j].String() })
			if len(srcs) > 0 {
				sig = append([]byte{}, env.signedFor[rk][srcs[0]]...)
				replayed = true
			}
		}
		if !replayed {
			sig = append([]byte{}, sig...)
			sig[5] ^= 0x40
		}
	}
	return &casper.ValidCasperSignMsg{SourceHash: source, TargetHash: target, Signature: sig, PubKey: pub}
}

// ---------------------------------------------------------------------------------------
// naming and dumps

type namer struct {
	byHash map[bc.Hash]string
	blocks map[string]*types.Block
	order  []string
}

func newNamer() *namer {
	return &namer{byHash: map[bc.Hash]string{}, blocks: map[string]*types.Block{}}
}

func (nm *namer) add(name string, b *types.Block) {
	nm.byHash[b.Hash()] = name
	nm.blocks[name] = b
	nm.order = append(nm.order, name)
}

func (nm *namer) name(h bc.Hash) string {
	if n, ok := nm.byHash[h]; ok {
		return n
	}
	if hb := h.Bytes(); hb[0] == 0xee && hb[3] == 0 { // nodeCase.unknownHash
		return fmt.Sprintf("b%d", int(hb[1])<<8|int(hb[2]))
	}
	return "?" + h.String()[:8]
}

// rank is the fork-choice tie-break key of a hash: hashes are compared as lowercase hex
// strings, i.e. as big-endian numbers; the first 8 bytes decide except on a 2^-64 collision.
func rank(h bc.Hash) uint64 { return binary.BigEndian.Uint64(h.Bytes()[:8]) }

func statusName(s state.CheckpointStatus) string {
	return [...]string{"G", "U", "J", "F"}[s]
}

// dumpChain: best block, height index, main-chain membership of every named block.
func (n *node) dumpChain(nm *namer, maxH uint64) string {
	var sb strings.Builder
	best := n.chain.BestBlockHeader()
	fmt.Fprintf(&sb, "best=%s main=", nm.name(best.Hash()))
	for h := uint64(0); h <= maxH; h++ {
		if h > 0 {
			sb.WriteByte(',')
		}
		hash, err := n.store.GetMainChainHash(h)
		if err != nil {
			sb.WriteByte('-')
		} else {
			sb.WriteString(nm.name(*hash))
		}
	}
	sb.WriteString(" inmain=")
	first := true
	for _, name := range nm.order {
		if n.chain.InMainChain(nm.blocks[name].Hash()) {
			if !first {
				sb.WriteByte(',')
			}
			first = false
			sb.WriteString(name)
		}
	}
	if first {
		sb.WriteByte('-')
	}
	return sb.String()
}

func (n *node) dumpStored(nm *namer) string {
	var out []string
	for _, name := range nm.order {
		h := nm.blocks[name].Hash()
		if _, err := n.store.GetBlockHeader(&h); err == nil {
			out = append(out, name)
		}
	}
	if len(out) == 0 {
		return "stored=-"
	}
	return "stored=" + strings.Join(out, ",")
}

// nameLess orders block names numerically (b2 < b10); unknown names last, by text.
func nameLess(a, b string) bool {
	var x, y int
	_, ea := fmt.Sscanf(a, "b%d", &x)
	_, eb := fmt.Sscanf(b, "b%d", &y)
	if ea == nil && eb == nil {
		return x < y
	}
	if (ea == nil) != (eb == nil) {
		return ea == nil
	}
	return a < b
}

func (n *node) dumpOrphans(nm *namer) string {
	hs, prev := n.chain.VerifNodeOrphans()
	var names []string
	for _, h := range hs {
		names = append(names, nm.name(h))
	}
	sort.Slice(names, func(i, j int) bool { return nameLess(names[i], names[j]) })
	s := "orph=" + strings.Join(names, ",")
	if len(names) == 0 {
		s = "orph=-"
	}
	var ps []string
	for p, l := range prev {
		var ls []string
		for _, h := range l {
			ls = append(ls, nm.name(h))
		}
		ps = append(ps, nm.name(p)+":"+strings.Join(ls, "/"))
	}
	sort.Slice(ps, func(i, j int) bool {
		return nameLess(ps[i][:strings.IndexByte(ps[i], ':')], ps[j][:strings.IndexByte(ps[j], ':')])
	})
	if len(ps) == 0 {
		return s + " wait=-"
	}
	return s + " wait=" + strings.Join(ps, ",")
}

func (n *node) dumpCasper(nm *namer) string {
	c := n.chain.VerifNodeCasper()
	_, fin := c.LastFinalized()
	_, just := c.LastJustified()
	var sb strings.Builder
	fmt.Fprintf(&sb, "fin=%s just=%s tree=", nm.name(fin), nm.name(just))
	// canonical form: children ordered by the rank of their hash, sup links by source name
	flat := c.VerifNodeTree()
	type tn struct {
		v        casper.VerifTreeNode
		children []*tn
	}
	var root *tn
	var stack []*tn
	for _, v := range flat {
		node := &tn{v: v}
		stack = stack[:v.Depth]
		if v.Depth == 0 {
			root = node
		} else {
			p := stack[v.Depth-1]
			p.children = append(p.children, node)
		}
		stack = append(stack, node)
	}
	first := true
	var walk func(t *tn, depth int)
	walk = func(t *tn, depth int) {
		if !first {
			sb.WriteByte(';')
		}
		first = false
		fmt.Fprintf(&sb, "%d:%s@%d%s", depth, nm.name(t.v.Hash), t.v.Height, statusName(t.v.Status))
		sls := append([]casper.VerifSupLink{}, t.v.SupLinks...)
		sort.SliceStable(sls, func(i, j int) bool { return nameLess(nm.name(sls[i].SourceHash), nm.name(sls[j].SourceHash)) })
		for _, sl := range sls {
			fmt.Fprintf(&sb, "[%s", nm.name(sl.SourceHash))
			for _, s := range sl.Slots {
				fmt.Fprintf(&sb, ".%d", s)
			}
			sb.WriteByte(']')
		}
		sort.SliceStable(t.children, func(i, j int) bool { return rank(t.children[i].v.Hash) < rank(t.children[j].v.Hash) })
		for _, ch := range t.children {
			walk(ch, depth+1)
		}
	}
	if root != nil {
		walk(root, 0)
	}
	return sb.String()
}
