//go:build hc01 || hall

package main

import (
	"crypto/sha256"
	"fmt"
	"math/big"
	"runtime"
	"strconv"
	"strings"

	"github.com/bytom/bytom/consensus"
	"github.com/bytom/bytom/errors"
	"github.com/bytom/bytom/protocol/bc"
	"github.com/bytom/bytom/protocol/bc/types"
	"github.com/bytom/bytom/protocol/validation"
	"github.com/bytom/bytom/protocol/vm"
)

// C01: validated transactions conserve value and report the true fee.
//
//   op line:   tx <blockVersion> <blockHeight> <first> <txVersion> <size> <timeRange> <hint> <nIn> <in>* <nOut> <out>*
//              in  = <s|i|v|c>:<asset>:<amount>:<vmOk>:<vmCost>:<x>:<id>      out = <o|v|r>:<asset>:<amount>:<voteLen>
//   impl line: ok <BTMValue> <GasLeft> <GasUsed> <StorageGas> fee=<TxData.Fee()>   |   err <class> fee=<TxData.Fee()>
//
// The real types.TxData is built from the abstract description, mapped with types.MapTx and
// validated with validation.ValidateTx. (vmOk, vmCost) of every input program are measured
// with vm.Verify on the same code/arguments and a huge gas limit; `hint` is the error class
// the implementation returned: it tells the model whether Go's `range parity` visited the
// BTM entry before or after an unbalanced asset (the only nondeterminism of ValidateTx).
//
// Direct oracle (implementation only, math/big): accepted ⇒ for every non-BTM asset the true
// sum of spends+issuances+vetoes equals the true sum of outputs+votes+retirements, BTM in ≥ out,
// BTMValue = in − out = Fee(); a pure coinbase transaction reports BTMValue = 0 = Fee().

type c01in struct {
	kind   byte // s i v c
	asset  int
	amount uint64
	vmOk   bool
	argLen int // length of the single witness argument (vm cost = 9 + argLen)
	x      int // veto: len(vote); coinbase: len(arbitrary)
	id     int
}

type c01out struct {
	kind    byte // o v r
	asset   int
	amount  uint64
	voteLen int
}

type c01tx struct {
	bv, bh   uint64
	first    bool
	ver      uint64
	size     uint64 // 0 = use the real serialized size; sizeSet => take literally
	sizeSet  bool
	tr       uint64
	ins      []c01in
	outs     []c01out
	label    string
	mut      *c01mut // one field of one entry of the MAPPED transaction changed in place
}

// c01mut: field in {pv wd wdpos wdref ms mspos msref | ov srcpos srcref dv dstpos dstref}
type c01mut struct {
	field string
	idx   int
	asset int    // value mutations
	v     uint64 // amount / position / referenced index
}

func (m *c01mut) String() string {
	switch m.field {
	case "pv", "wd", "ms", "ov", "dv":
		return fmt.Sprintf("M %s %d %d %d", m.field, m.idx, m.asset, m.v)
	case "wdref", "srcref":
		return fmt.Sprintf("M %s %d", m.field, m.idx)
	}
	return fmt.Sprintf("M %s %d %d", m.field, m.idx, m.v)
}

func c01findMux(tx *bc.Tx) *bc.Mux {
	for _, e := range tx.Entries {
		if m, ok := e.(*bc.Mux); ok {
			return m
		}
	}
	return nil
}

func c01outSource(e bc.Entry) *bc.ValueSource {
	switch o := e.(type) {
	case *bc.OriginalOutput:
		return o.Source
	case *bc.VoteOutput:
		return o.Source
	case *bc.Retirement:
		return o.Source
	}
	return nil
}

func c01inDest(e bc.Entry) *bc.ValueDestination {
	switch in := e.(type) {
	case *bc.Spend:
		return in.WitnessDestination
	case *bc.VetoInput:
		return in.WitnessDestination
	case *bc.Issuance:
		return in.WitnessDestination
	case *bc.Coinbase:
		return in.WitnessDestination
	}
	return nil
}

var c01unknownHash = bc.Hash{V0: 0xdead, V1: 0xbeef, V2: 1, V3: 2}

// c01applyMut changes ONE field of ONE entry of the mapped transaction in place (a fresh
// AssetAmount / Hash is installed, so entries that shared the old pointer keep the old value).
// Returns false when the mutation does not apply to this transaction.
func c01applyMut(tx *bc.Tx, m *c01mut) bool {
	fresh := func() *bc.AssetAmount {
		a := c01asset(m.asset)
		return &bc.AssetAmount{AssetId: &a, Amount: m.v}
	}
	mux := c01findMux(tx)
	if mux == nil {
		return false
	}
	switch m.field {
	case "pv", "wd", "wdpos", "wdref", "ms", "mspos", "msref":
		if m.idx < 0 || m.idx >= len(tx.InputIDs) || m.idx >= len(mux.Sources) {
			return false
		}
		e := tx.Entries[tx.InputIDs[m.idx]]
		switch m.field {
		case "pv":
			switch in := e.(type) {
			case *bc.Spend:
				tx.Entries[*in.SpentOutputId].(*bc.OriginalOutput).Source.Value = fresh()
			case *bc.VetoInput:
				tx.Entries[*in.SpentOutputId].(*bc.VoteOutput).Source.Value = fresh()
			case *bc.Issuance:
				in.Value = fresh()
			default:
				return false
			}
		case "wd", "wdpos", "wdref":
			d := c01inDest(e)
			if d == nil {
				return false
			}
			switch m.field {
			case "wd":
				d.Value = fresh()
			case "wdpos":
				d.Position = m.v
			default:
				h := c01unknownHash
				d.Ref = &h
			}
		case "ms":
			mux.Sources[m.idx].Value = fresh()
		case "mspos":
			mux.Sources[m.idx].Position = m.v
		case "msref":
			h := c01unknownHash
			if int(m.v) < len(tx.InputIDs) {
				h = tx.InputIDs[m.v]
			}
			mux.Sources[m.idx].Ref = &h
		}
	default:
		if m.idx < 0 || m.idx >= len(tx.ResultIds) || m.idx >= len(mux.WitnessDestinations) {
			return false
		}
		src := c01outSource(tx.Entries[*tx.ResultIds[m.idx]])
		if src == nil {
			return false
		}
		switch m.field {
		case "ov":
			src.Value = fresh()
		case "srcpos":
			src.Position = m.v
		case "srcref":
			h := c01unknownHash
			src.Ref = &h
		case "dv":
			mux.WitnessDestinations[m.idx].Value = fresh()
		case "dstpos":
			mux.WitnessDestinations[m.idx].Position = m.v
		case "dstref":
			h := c01unknownHash
			if int(m.v) < len(tx.ResultIds) {
				h = *tx.ResultIds[m.v]
			}
			mux.WitnessDestinations[m.idx].Ref = &h
		default:
			return false
		}
	}
	return true
}

// what the transaction's inputs really hold / its outputs really carry, read from the ENTRIES
// (consumed outputs' Source.Value, Issuance.Value; result entries' Source.Value), math/big
func c01entrySums(tx *bc.Tx) (in, out map[string]*big.Int, hasCoinbase bool) {
	in, out = map[string]*big.Int{}, map[string]*big.Int{}
	add := func(m map[string]*big.Int, v *bc.AssetAmount) {
		k := v.AssetId.String()
		if m[k] == nil {
			m[k] = new(big.Int)
		}
		m[k].Add(m[k], new(big.Int).SetUint64(v.Amount))
	}
	for _, id := range tx.InputIDs {
		switch e := tx.Entries[id].(type) {
		case *bc.Spend:
			add(in, tx.Entries[*e.SpentOutputId].(*bc.OriginalOutput).Source.Value)
		case *bc.VetoInput:
			add(in, tx.Entries[*e.SpentOutputId].(*bc.VoteOutput).Source.Value)
		case *bc.Issuance:
			add(in, e.Value)
		case *bc.Coinbase:
			hasCoinbase = true
		}
	}
	for _, id := range tx.ResultIds {
		if src := c01outSource(tx.Entries[*id]); src != nil {
			add(out, src.Value)
		}
	}
	return
}


var c01prog = []byte{byte(vm.OP_NOP)}

func c01hash(tag string, n int) bc.Hash {
	return bc.NewHash(sha256.Sum256([]byte(fmt.Sprintf("%s-%d", tag, n))))
}

var c01assetCache = map[int]bc.AssetID{}

func c01asset(k int) bc.AssetID {
	if k == 0 {
		return *consensus.BTMAssetID
	}
	if a, ok := c01assetCache[k]; ok {
		return a
	}
	in := types.NewIssuanceInput([]byte{1}, 1, c01prog, nil, []byte(fmt.Sprintf("asset-%d", k)))
	a := in.AssetID()
	c01assetCache[k] = a
	return a
}

func c01arg(ok bool, n int) [][]byte {
	if n < 0 {
		return [][]byte{}
	}
	b := make([]byte, n)
	if ok {
		for i := range b {
			b[i] = 1
		}
	}
	return [][]byte{b}
}

func c01fill(n int, seed int) []byte {
	b := make([]byte, n)
	for i := range b {
		b[i] = byte(seed + i*7 + 1)
	}
	return b
}

func (t *c01tx) build() *types.TxData {
	td := &types.TxData{Version: t.ver, TimeRange: t.tr}
	for _, in := range t.ins {
		args := c01arg(in.vmOk, in.argLen)
		switch in.kind {
		case 's':
			td.Inputs = append(td.Inputs, types.NewSpendInput(args, c01hash("src", in.id), c01asset(in.asset), in.amount, 0, c01prog, nil))
		case 'v':
			td.Inputs = append(td.Inputs, types.NewVetoInput(args, c01hash("src", in.id), c01asset(in.asset), in.amount, 0, c01prog, c01fill(in.x, 3), nil))
		case 'i':
			td.Inputs = append(td.Inputs, types.NewIssuanceInput([]byte(fmt.Sprintf("nonce-%d", in.id)), in.amount, c01prog, args, []byte(fmt.Sprintf("asset-%d", in.asset))))
		case 'c':
			td.Inputs = append(td.Inputs, types.NewCoinbaseInput(c01fill(in.x, in.id)))
		}
	}
	for _, o := range t.outs {
		switch o.kind {
		case 'o':
			td.Outputs = append(td.Outputs, types.NewOriginalTxOutput(c01asset(o.asset), o.amount, []byte{byte(vm.OP_TRUE)}, nil))
		case 'r':
			td.Outputs = append(td.Outputs, types.NewOriginalTxOutput(c01asset(o.asset), o.amount, []byte{byte(vm.OP_FAIL)}, nil))
		case 'v':
			td.Outputs = append(td.Outputs, types.NewVoteOutput(c01asset(o.asset), o.amount, []byte{byte(vm.OP_TRUE)}, c01fill(o.voteLen, 5), nil))
		}
	}
	if t.sizeSet {
		td.SerializedSize = t.size
	} else {
		// amounts above 2^63-1 cannot be serialized (varint63); such in-memory transactions
		// get a nominal size
		if b, err := td.MarshalText(); err == nil {
			td.SerializedSize = uint64(len(b) / 2)
		} else {
			td.SerializedSize = uint64(300 + 60*(len(t.ins)+len(t.outs)))
		}
	}
	return td
}

var c01errNames = map[error]string{
	validation.ErrTxVersion:                 "txversion",
	validation.ErrWrongTransactionSize:      "size",
	validation.ErrBadTimeRange:              "timerange",
	validation.ErrInputDoubleSend:           "doublespend",
	validation.ErrEmptyResults:              "emptyresults",
	validation.ErrOverflow:                  "overflow",
	validation.ErrNoSource:                  "nosource",
	validation.ErrGasCalculate:              "gas",
	validation.ErrUnbalanced:                "unbalanced",
	validation.ErrOverGasCredit:             "overgas",
	validation.ErrVotePubKey:                "votepubkey",
	validation.ErrVoteOutputAmount:          "voteamount",
	validation.ErrVoteOutputAseet:           "voteasset",
	validation.ErrWrongCoinbaseTransaction:  "wrongcoinbase",
	validation.ErrWrongCoinbaseAsset:        "wrongcoinbaseasset",
	validation.ErrCoinbaseArbitraryOversize: "arbitrary",
	validation.ErrMismatchedReference:       "mismatchedref",
	validation.ErrMismatchedValue:           "mismatchedvalue",
	validation.ErrMismatchedPosition:        "mismatchedposition",
	validation.ErrMissingField:              "missingfield",
	validation.ErrPosition:                  "position",
	validation.ErrMismatchedAssetID:         "mismatchedassetid",
	bc.ErrMissingEntry:                      "missingentry",
	vm.ErrFalseVMResult:                     "vm",
	vm.ErrRunLimitExceeded:                  "vm",
	vm.ErrUnexpected:                        "vm",
	vm.ErrUnsupportedVM:                     "vm",
	vm.ErrDataStackUnderflow:                "vm",
	vm.ErrVerifyFailed:                      "vm",
	vm.ErrDisallowedOpcode:                  "vm",
	vm.ErrBadValue:                          "vm",
}

func c01class(err error) string {
	root := errors.Root(err)
	if n, ok := c01errNames[root]; ok {
		return n
	}
	return "other(" + strings.ReplaceAll(root.Error(), " ", "_") + ")"
}

func c01probe(in c01in, txVersion uint64) (bool, int64) {
	if in.kind == 'c' {
		return true, 0
	}
	const limit = int64(1) << 40
	left, err := vm.Verify(&vm.Context{VMVersion: 1, Code: c01prog, Arguments: c01arg(in.vmOk, in.argLen), TxVersion: &txVersion}, limit)
	return err == nil, limit - left
}

var c01noConverter = func(prog []byte) ([]byte, error) { return nil, errors.New("no converter") }

func c01prepare(t *c01tx) (*types.TxData, *bc.Tx) {
	for i := range t.ins {
		// BTM cannot be issued (an issuance's asset id is a hash of its program and definition)
		if t.ins[i].kind == 'i' && t.ins[i].asset == 0 {
			t.ins[i].asset = 9
		}
	}
	td := t.build()
	return td, types.MapTx(td)
}

func c01single(tx *bc.Tx, block *bc.Block) (gs *validation.GasState, err error, panicked bool) {
	defer func() {
		if r := recover(); r != nil {
			panicked = true
		}
	}()
	gs, err = validation.ValidateTx(tx, block, c01noConverter)
	return
}

func c01run(c *Ctx, t *c01tx) {
	td, tx := c01prepare(t)
	if t.mut != nil && !c01applyMut(tx, t.mut) {
		t.mut = nil
	}
	block := &bc.Block{BlockHeader: &bc.BlockHeader{Version: t.bv, Height: t.bh}}
	if t.first {
		block.Transactions = []*bc.Tx{tx}
	} else {
		block.Transactions = []*bc.Tx{types.MapTx(&types.TxData{Version: 1, SerializedSize: 1}), tx}
	}
	gs, err, panicked := c01single(tx, block)
	c01emit(c, t, td, tx, gs, err, panicked)
}

// c01emit writes the op line (with the implementation's verdict as hint) and the result line,
// and evaluates the property's direct oracle on the verdict.
func c01emit(c *Ctx, t *c01tx, td *types.TxData, tx *bc.Tx, gs *validation.GasState, err error, panicked bool) {
	// canonical entry-id classes
	idOf := map[bc.Hash]int{}
	ids := make([]int, len(tx.InputIDs))
	for i, h := range tx.InputIDs {
		if _, ok := idOf[h]; !ok {
			idOf[h] = i
		}
		ids[i] = idOf[h]
	}
	fee := td.Fee()
	var res, hint string
	switch {
	case panicked:
		hint = "panic"
		res = fmt.Sprintf("err panic fee=%d", fee)
	case err != nil:
		hint = c01class(err)
		res = fmt.Sprintf("err %s fee=%d", hint, fee)
	default:
		hint = "ok"
		res = fmt.Sprintf("ok %d %d %d %d fee=%d", gs.BTMValue, gs.GasLeft, gs.GasUsed, gs.StorageGas, fee)
	}
	var sb strings.Builder
	first := 0
	if t.first {
		first = 1
	}
	fmt.Fprintf(&sb, "tx %d %d %d %d %d %d %s %d", t.bv, t.bh, first, t.ver, td.SerializedSize, t.tr, hint, len(t.ins))
	nCoinbase := 0
	for i, in := range t.ins {
		ok, cost := c01probe(in, t.ver)
		v := 0
		if ok {
			v = 1
		}
		if in.kind == 'c' {
			nCoinbase++
		}
		fmt.Fprintf(&sb, " %c:%d:%d:%d:%d:%d:%d", in.kind, in.asset, in.amount, v, cost, in.x, ids[i])
	}
	fmt.Fprintf(&sb, " %d", len(t.outs))
	for _, o := range t.outs {
		fmt.Fprintf(&sb, " %c:%d:%d:%d", o.kind, o.asset, o.amount, o.voteLen)
	}
	if t.mut != nil {
		sb.WriteString(" " + t.mut.String())
	}
	op := sb.String()
	c.Op(op, res)
	c.Count("verdict/" + hint)
	c.Count(fmt.Sprintf("shape/in=%d,out=%d", minInt(len(t.ins), 6), minInt(len(t.outs), 6)))
	if t.label != "" {
		c.Count("gen/" + t.label)
	}
	c.Distinct(op)

	// ---- direct oracle (the property on the implementation's own answer)
	if err != nil || panicked {
		return
	}
	if t.mut != nil {
		// entry-level mutation: the abstract description no longer describes the entries; the
		// sums are read from the entries themselves
		c.Count("mut/" + t.mut.field + "/accepted")
		in, out, hasCb := c01entrySums(tx)
		if hasCb {
			return
		}
		bad := ""
		btm := consensus.BTMAssetID.String()
		keys := map[string]bool{}
		for k := range in {
			keys[k] = true
		}
		for k := range out {
			keys[k] = true
		}
		zero := new(big.Int)
		get := func(m map[string]*big.Int, k string) *big.Int {
			if m[k] == nil {
				return zero
			}
			return m[k]
		}
		for k := range keys {
			if k != btm && get(in, k).Cmp(get(out, k)) != 0 {
				bad = fmt.Sprintf("asset %s: consumed %s != produced %s", k[:8], get(in, k), get(out, k))
			}
		}
		diff := new(big.Int).Sub(get(in, btm), get(out, btm))
		if bad == "" && diff.Sign() < 0 {
			bad = fmt.Sprintf("BTM consumed %s < produced %s", get(in, btm), get(out, btm))
		}
		if bad == "" && (!diff.IsUint64() || diff.Uint64() != gs.BTMValue) {
			bad = fmt.Sprintf("BTMValue %d != consumed-produced %s", gs.BTMValue, diff)
		}
		if bad != "" && len(t.outs) > 0 {
			entry := "mux"
			switch t.mut.field {
			case "pv", "wd", "wdpos", "wdref":
				entry = map[byte]string{'s': "spend", 'i': "issuance", 'v': "veto", 'c': "coinbase"}[t.ins[t.mut.idx].kind]
			case "ov", "srcpos", "srcref":
				entry = map[byte]string{'o': "output", 'v': "voteoutput", 'r': "retirement"}[t.outs[t.mut.idx].kind]
			}
			sig := "accepted-after-entry-mutation:" + entry + "." + t.mut.field
			c01failCount[sig]++
			if c01failCount[sig] <= 3 {
				c.Fail(sig, bad+" :: "+op)
			}
		}
		return
	}
	in := map[int]*big.Int{}
	out := map[int]*big.Int{}
	get := func(m map[int]*big.Int, k int) *big.Int {
		if m[k] == nil {
			m[k] = new(big.Int)
		}
		return m[k]
	}
	for _, i := range t.ins {
		if i.kind != 'c' {
			get(in, i.asset).Add(get(in, i.asset), new(big.Int).SetUint64(i.amount))
		}
	}
	for _, o := range t.outs {
		get(out, o.asset).Add(get(out, o.asset), new(big.Int).SetUint64(o.amount))
	}
	assets := map[int]bool{}
	for k := range in {
		assets[k] = true
	}
	for k := range out {
		assets[k] = true
	}
	bad := ""
	if nCoinbase > 0 && len(t.ins) == 1 {
		// pure coinbase transaction: creates exactly its outputs; reports no fee
		if gs.BTMValue != 0 || fee != 0 {
			bad = fmt.Sprintf("pure coinbase tx reports BTMValue=%d Fee()=%d", gs.BTMValue, fee)
		}
		for k := range assets {
			if k != 0 && get(out, k).Sign() != 0 {
				bad = fmt.Sprintf("coinbase tx creates %s units of non-BTM asset %d", get(out, k), k)
			}
		}
		if get(out, 0).BitLen() > 63 {
			bad = fmt.Sprintf("coinbase tx creates %s BTM (> MaxInt64)", get(out, 0))
		}
	} else {
		for k := range assets {
			if k != 0 && get(in, k).Cmp(get(out, k)) != 0 {
				bad = fmt.Sprintf("asset %d: in %s != out %s", k, get(in, k), get(out, k))
			}
		}
		diff := new(big.Int).Sub(get(in, 0), get(out, 0))
		if bad == "" && diff.Sign() < 0 {
			bad = fmt.Sprintf("BTM in %s < out %s", get(in, 0), get(out, 0))
		}
		if bad == "" && (!diff.IsUint64() || diff.Uint64() != gs.BTMValue) {
			bad = fmt.Sprintf("BTMValue %d != in-out %s", gs.BTMValue, diff)
		}
		if bad == "" && fee != gs.BTMValue {
			bad = fmt.Sprintf("Fee() %d != BTMValue %d", fee, gs.BTMValue)
		}
	}
	if bad != "" {
		sig := "accepted:" + op
		switch {
		case len(t.outs) == 0:
			sig = "accepted tx without results (block version != 1): mux never checked"
		case nCoinbase > 0:
			sig = "accepted tx mixing a coinbase input with other inputs: fee disagreement"
		}
		// the orchestrator re-reads the whole op stream per recorded failure: report the first
		// few hits of a listed signature, count the rest
		c01failCount[sig]++
		c.Count("oracle-fail/" + strings.SplitN(sig, ":", 2)[0])
		if c01failCount[sig] <= 3 || strings.HasPrefix(sig, "accepted:") {
			c.Fail(sig, bad+" :: "+op)
		}
	}
}

var c01failCount = map[string]int{}

func minInt(a, b int) int {
	if a < b {
		return a
	}
	return b
}

// ---------------------------------------------------------------------------- batches (validation.ValidateTxs)

// c01verdict is a canonical rendering of one validation result (error class + gas state).
func c01verdict(gs *validation.GasState, err error) string {
	if err != nil {
		cl := c01class(err)
		if cl == "gas" || cl == "unbalanced" {
			// which of the two is reported depends on Go's map iteration order
			cl = "gas|unbalanced"
		}
		return "err " + cl
	}
	return fmt.Sprintf("ok %d %d %d %d", gs.BTMValue, gs.GasLeft, gs.GasUsed, gs.StorageGas)
}

// c01batch validates the transactions TOGETHER with the real validation.ValidateTxs (the entry
// point of block validation and of the proposer's pre-validation), in the given order on one
// scheduler thread (GOMAXPROCS(1): the first worker goroutine drains the whole work channel, so
// all transactions share one worker), in reverse order, and with the default parallelism.
// Emits `reset-batch <n>` + one ordinary tx line per transaction whose result is the BATCH
// verdict (compared with the single-transaction model), and checks on the implementation alone
// that every batch verdict / GasState equals ValidateTx on that transaction alone.
func c01batch(c *Ctx, ts []*c01tx) {
	if len(ts) == 0 {
		return
	}
	n := len(ts)
	tds := make([]*types.TxData, n)
	txs := make([]*bc.Tx, n)
	for i, t := range ts {
		t.bv, t.bh, t.first = ts[0].bv, ts[0].bh, i == 0
		tds[i], txs[i] = c01prepare(t)
	}
	block := &bc.Block{BlockHeader: &bc.BlockHeader{Version: ts[0].bv, Height: ts[0].bh}, Transactions: txs}
	// alone
	single := make([]string, n)
	for i := range txs {
		gs, err, panicked := c01single(txs[i], block)
		if panicked {
			// a panic inside a ValidateTxs worker goroutine cannot be recovered: keep such
			// transactions out of batches (they are covered by the single stream)
			c.Count("batch/skipped-panicking-member")
			return
		}
		single[i] = c01verdict(gs, err)
	}
	c.Op(fmt.Sprintf("reset-batch %d", n), "ok")
	// one worker, given order
	prev := runtime.GOMAXPROCS(1)
	res := validation.ValidateTxs(txs, block, c01noConverter)
	// one worker, reverse order
	rtxs := make([]*bc.Tx, n)
	for i := range txs {
		rtxs[n-1-i] = txs[i]
	}
	rblock := &bc.Block{BlockHeader: block.BlockHeader, Transactions: rtxs}
	if n > 1 {
		// keep "first transaction of the block" the same transaction
		rtxs[0], rtxs[n-1] = rtxs[n-1], rtxs[0]
	}
	rres := validation.ValidateTxs(rtxs, rblock, c01noConverter)
	runtime.GOMAXPROCS(prev)
	// default parallelism
	pres := validation.ValidateTxs(txs, block, c01noConverter)
	for i := range txs {
		c01emit(c, ts[i], tds[i], txs[i], res[i].GetGasState(), res[i].GetError(), false)
	}
	c.Count(fmt.Sprintf("batch/size=%d", (n+9)/10*10))
	for i := range txs {
		j := n - 1 - i
		if n > 1 && (j == 0 || j == n-1) {
			j = n - 1 - j
		}
		for _, r := range []struct {
			how string
			v   string
		}{
			{"one worker, given order", c01verdict(res[i].GetGasState(), res[i].GetError())},
			{"one worker, reverse order", c01verdict(rres[j].GetGasState(), rres[j].GetError())},
			{"parallel", c01verdict(pres[i].GetGasState(), pres[i].GetError())},
		} {
			if r.v != single[i] {
				c.Fail("batch-verdict-differs-from-single", fmt.Sprintf("tx #%d of a batch of %d (%s): ValidateTxs says %q, ValidateTx alone says %q", i, n, r.how, r.v, single[i]))
				return
			}
		}
	}
}

// siblings of a transaction: SAME inputs (same mux / spend / issuance entry ids), different
// outputs, size, version or time range
func c01sibling(c *Ctx, base *c01tx) *c01tx {
	t := *base
	t.ins = append([]c01in(nil), base.ins...)
	t.outs = append([]c01out(nil), base.outs...)
	t.label = "sibling"
	pick := func() *c01out {
		if len(t.outs) == 0 {
			return nil
		}
		return &t.outs[c.Rng.Intn(len(t.outs))]
	}
	switch c.Rng.Intn(12) {
	case 0:
		if o := pick(); o != nil {
			o.amount++
		}
	case 1:
		if o := pick(); o != nil && o.amount > 0 {
			o.amount--
		}
	case 2:
		if o := pick(); o != nil {
			o.amount = c01amount(c)
		}
	case 3:
		if o := pick(); o != nil {
			o.amount = o.amount*10000 + 1000000
		}
	case 4:
		if o := pick(); o != nil {
			o.asset = c.Rng.Intn(9)
		}
	case 5:
		if len(t.outs) > 1 {
			k := c.Rng.Intn(len(t.outs))
			t.outs = append(t.outs[:k:k], t.outs[k+1:]...)
		}
	case 6:
		t.outs = append(t.outs, c01out{kind: 'o', asset: c.Rng.Intn(9), amount: c01amount(c)})
	case 7:
		// a wrap-around multiset on one of the assets
		if o := pick(); o != nil {
			for _, v := range c01wrapParts(c, o.amount, 0) {
				t.outs = append(t.outs, c01out{kind: 'o', asset: o.asset, amount: v})
			}
			o.amount = 0
		}
	case 8:
		if o := pick(); o != nil {
			o.kind, o.voteLen = 'v', []int{64, 64, 63}[c.Rng.Intn(3)]
		}
	case 9:
		t.sizeSet, t.size = true, []uint64{1, 50, 100000, 1 << 40}[c.Rng.Intn(4)]
	case 10:
		// everything to one huge output per asset: value created
		for i := range t.outs {
			t.outs[i].amount = t.outs[i].amount + 1000000
		}
	default:
		// identical twin (different id only through the time range)
		t.tr = t.bh + uint64(1+c.Rng.Intn(5))
	}
	return &t
}

func c01genBatch(c *Ctx) []*c01tx {
	var ts []*c01tx
	target := 2 + c.Rng.Intn(39)
	nBase := 1 + c.Rng.Intn(3)
	for b := 0; b < nBase; b++ {
		var base *c01tx
		switch c.Rng.Intn(6) {
		case 0:
			base = c01wrap(c)
		case 1:
			base = c01valid(c)
			c01mutate(c, base)
		default:
			base = c01valid(c)
		}
		base.first = false
		ts = append(ts, base)
		// a few exact twins of the base (so that every worker is likely to have seen it) and siblings
		for k, n := 0, c.Rng.Intn(3); k < n; k++ {
			tw := *base
			ts = append(ts, &tw)
		}
		for k, n := 0, 1+c.Rng.Intn(1+target/nBase); k < n && len(ts) < target; k++ {
			ts = append(ts, c01sibling(c, base))
		}
	}
	c.Rng.Shuffle(len(ts), func(i, j int) { ts[i], ts[j] = ts[j], ts[i] })
	if c.Rng.Intn(6) == 0 {
		// the block's own coinbase transaction first
		ts = append([]*c01tx{c01coinbase(c)}, ts...)
	}
	for _, t := range ts {
		t.bv, t.bh = 1, 100
	}
	return ts
}

// ---------------------------------------------------------------------------- parsing (corpus / replay)

func c01parse(line string) (*c01tx, error) {
	w := strings.Fields(line)
	if len(w) < 10 || w[0] != "tx" {
		return nil, fmt.Errorf("not a tx line")
	}
	u := func(s string) uint64 { v, _ := strconv.ParseUint(s, 10, 64); return v }
	t := &c01tx{bv: u(w[1]), bh: u(w[2]), first: w[3] == "1", ver: u(w[4]), size: u(w[5]), sizeSet: true, tr: u(w[6]), label: "replayed"}
	nin := int(u(w[8]))
	p := 9
	for k := 0; k < nin; k++ {
		f := strings.Split(w[p], ":")
		if len(f) != 7 {
			return nil, fmt.Errorf("bad input %q", w[p])
		}
		cost := int(u(f[4]))
		in := c01in{kind: f[0][0], asset: int(u(f[1])), amount: u(f[2]), vmOk: f[3] == "1", argLen: cost - 9, x: int(u(f[5])), id: int(u(f[6]))}
		if in.argLen < 0 {
			in.argLen = -1
		}
		t.ins = append(t.ins, in)
		p++
	}
	nout := int(u(w[p]))
	p++
	for k := 0; k < nout; k++ {
		f := strings.Split(w[p], ":")
		if len(f) != 4 {
			return nil, fmt.Errorf("bad output %q", w[p])
		}
		t.outs = append(t.outs, c01out{kind: f[0][0], asset: int(u(f[1])), amount: u(f[2]), voteLen: int(u(f[3]))})
		p++
	}
	if p < len(w) && w[p] == "M" && p+2 < len(w) {
		m := &c01mut{field: w[p+1], idx: int(u(w[p+2]))}
		switch m.field {
		case "pv", "wd", "ms", "ov", "dv":
			if p+4 < len(w) {
				m.asset, m.v = int(u(w[p+3])), u(w[p+4])
			}
		case "wdref", "srcref":
		default:
			if p+3 < len(w) {
				m.v = u(w[p+3])
			}
		}
		t.mut = m
	}
	return t, nil
}

// ---------------------------------------------------------------------------- generators

var c01boundary = []uint64{0, 1, 2, 100, 99999999, 100000000, 1 << 31, 1 << 62, 1<<63 - 2, 1<<63 - 1, 1 << 63, 1<<63 + 1, 1<<64 - 1}

func c01amount(c *Ctx) uint64 {
	switch c.Rng.Intn(6) {
	case 0:
		return c01boundary[c.Rng.Intn(len(c01boundary))]
	case 1:
		return c.Rng.Uint64()
	case 2:
		return c.Rng.Uint64() >> uint(c.Rng.Intn(64))
	default:
		return uint64(c.Rng.Intn(1000000))
	}
}

// split total into n parts (uint64, exact)
func c01split(c *Ctx, total uint64, n int) []uint64 {
	parts := make([]uint64, n)
	rest := total
	for i := 0; i < n-1; i++ {
		var p uint64
		if rest > 0 {
			switch c.Rng.Intn(3) {
			case 0:
				if rest == 1<<64-1 {
					p = c.Rng.Uint64()
				} else {
					p = c.Rng.Uint64() % (rest + 1)
				}
			case 1:
				p = rest / uint64(n-i)
			default:
				p = 0
			}
		}
		parts[i] = p
		rest -= p
	}
	parts[n-1] = rest
	c.Rng.Shuffle(n, func(i, j int) { parts[i], parts[j] = parts[j], parts[i] })
	return parts
}

var c01fees = []uint64{0, 1, 199, 200, 2000, 20000, 100000, 1000000, 10000000, 60000000, 60000200, 1000000000}

func c01valid(c *Ctx) *c01tx {
	t := &c01tx{bv: 1, bh: 100, ver: 1, label: "balanced"}
	if c.Rng.Intn(4) == 0 {
		t.tr = 100 + uint64(c.Rng.Intn(3))
	}
	nextID := 0
	nAssets := 1 + c.Rng.Intn(5)
	for a := 0; a < nAssets; a++ {
		asset := a
		if a > 0 {
			asset = 1 + c.Rng.Intn(6)
		}
		nOut := 1 + c.Rng.Intn(3)
		var total uint64
		var outs []uint64
		for k := 0; k < nOut; k++ {
			var v uint64
			switch c.Rng.Intn(8) {
			case 0:
				v = c01boundary[c.Rng.Intn(len(c01boundary))]
			case 1:
				v = c.Rng.Uint64() >> uint(1+c.Rng.Intn(63))
			default:
				v = uint64(c.Rng.Intn(5000000))
			}
			if total+v < total { // keep the uint64 sum exact
				v = 0
			}
			total += v
			outs = append(outs, v)
		}
		for _, v := range outs {
			o := c01out{kind: 'o', asset: asset, amount: v}
			switch c.Rng.Intn(10) {
			case 0:
				o.kind = 'r'
			case 1:
				if asset == 0 && v >= consensus.MinVoteOutputAmount {
					o.kind, o.voteLen = 'v', 64
				}
			}
			t.outs = append(t.outs, o)
		}
		inTotal := total
		if asset == 0 {
			fee := c01fees[c.Rng.Intn(len(c01fees))]
			if c.Rng.Intn(4) == 0 {
				fee = uint64(c.Rng.Intn(3000000))
			}
			if inTotal+fee >= inTotal {
				inTotal += fee
			}
		}
		nIn := 1 + c.Rng.Intn(3)
		for _, v := range c01split(c, inTotal, nIn) {
			in := c01in{kind: 's', asset: asset, amount: v, vmOk: true, argLen: 1 + c.Rng.Intn(6), id: nextID}
			nextID++
			switch c.Rng.Intn(8) {
			case 0:
				if asset != 0 {
					in.kind = 'i'
				}
			case 1:
				in.kind, in.x = 'v', 64
			}
			t.ins = append(t.ins, in)
		}
	}
	c.Rng.Shuffle(len(t.ins), func(i, j int) { t.ins[i], t.ins[j] = t.ins[j], t.ins[i] })
	c.Rng.Shuffle(len(t.outs), func(i, j int) { t.outs[i], t.outs[j] = t.outs[j], t.outs[i] })
	return t
}

// c01wrapParts returns k >= 3 amounts, each <= 2^63-1, whose sum is congruent to w modulo 2^64
// and whose TRUE sum is w + j*2^64 with j >= 1 (mode 0), or - mode 1 - k amounts whose true sum
// lies in [2^63, 2^64) (crosses the int64 bound only).
func c01wrapParts(c *Ctx, w uint64, mode int) []uint64 {
	const m63 = uint64(1)<<63 - 1
	big := func() uint64 {
		switch c.Rng.Intn(5) {
		case 0:
			return m63
		case 1:
			return m63 - uint64(c.Rng.Intn(3))
		case 2:
			return 1 << 62
		case 3:
			return 1<<62 + uint64(c.Rng.Intn(1000))
		default:
			return c.Rng.Uint64() >> 1
		}
	}
	if mode == 1 {
		// true sum in [2^63, 2^64): two or three big parts, no uint64 wrap
		parts := []uint64{1 << 62, 1 << 62, uint64(c.Rng.Intn(1000))}
		if c.Rng.Intn(2) == 0 {
			parts = []uint64{m63, uint64(1 + c.Rng.Intn(1000)), uint64(c.Rng.Intn(3))}
		}
		return parts
	}
	var parts []uint64
	var sum uint64 // modulo 2^64
	carries := 0
	add := func(v uint64) {
		if sum+v < sum {
			carries++
		}
		sum += v
		parts = append(parts, v)
	}
	for i, n := 0, 2+c.Rng.Intn(4); i < n; i++ {
		add(big())
	}
	for {
		last := w - sum // modulo 2^64
		if last <= m63 {
			if sum+last < sum {
				carries++
			}
			parts = append(parts, last)
			break
		}
		add(m63)
	}
	if carries == 0 {
		// no wrap happened (tiny parts): force one full turn with two maximal parts and 2
		parts = append(parts, m63, m63, 2)
	}
	c.Rng.Shuffle(len(parts), func(i, j int) { parts[i], parts[j] = parts[j], parts[i] })
	return parts
}

// wrap-around multisets: one asset whose outputs (or inputs, or both) have a true total that
// crosses 2^63 / 2^64 while the wrapped total matches the other side exactly.
func c01wrap(c *Ctx) *c01tx {
	t := &c01tx{bv: 1, bh: 100, ver: 1, label: "wrap"}
	asset := 0
	if c.Rng.Intn(3) != 0 {
		asset = 1 + c.Rng.Intn(5)
	}
	side := c.Rng.Intn(4) // 0,1: outputs wrap; 2: inputs wrap; 3: both wrap
	mode := 0
	if c.Rng.Intn(5) == 0 {
		mode = 1
	}
	fee := []uint64{1000000, 10000000, 60000000, 1000000000}[c.Rng.Intn(4)]
	var w uint64
	switch c.Rng.Intn(4) {
	case 0:
		w = uint64(10 + c.Rng.Intn(100))
	case 1:
		w = 100000000 + uint64(c.Rng.Intn(1000000))
	case 2:
		w = c.Rng.Uint64() >> uint(2+c.Rng.Intn(40))
	default:
		w = uint64(c.Rng.Intn(5000000))
	}
	id := 0
	addIn := func(a int, v uint64) {
		in := c01in{kind: 's', asset: a, amount: v, vmOk: true, argLen: 1 + c.Rng.Intn(4), id: id}
		id++
		switch c.Rng.Intn(5) {
		case 0:
			if a != 0 {
				in.kind = 'i'
			}
		case 1:
			in.kind, in.x = 'v', 64
		}
		t.ins = append(t.ins, in)
	}
	addOut := func(a int, v uint64) {
		o := c01out{kind: 'o', asset: a, amount: v}
		switch c.Rng.Intn(5) {
		case 0:
			o.kind = 'r'
		case 1:
			if a == 0 && v >= consensus.MinVoteOutputAmount {
				o.kind, o.voteLen = 'v', 64
			}
		}
		t.outs = append(t.outs, o)
	}
	// the wrapping asset: outputs total (mod 2^64) = w; inputs total (mod 2^64) = w (+ fee for BTM)
	inTotal := w
	if asset == 0 {
		inTotal = w + fee
	}
	if side == 2 || side == 3 {
		for _, v := range c01wrapParts(c, inTotal, mode) {
			addIn(asset, v)
		}
	} else {
		for _, v := range c01split(c, inTotal, 1+c.Rng.Intn(3)) {
			addIn(asset, v)
		}
	}
	if side != 2 {
		for _, v := range c01wrapParts(c, w, mode) {
			addOut(asset, v)
		}
	} else {
		for _, v := range c01split(c, w, 1+c.Rng.Intn(3)) {
			addOut(asset, v)
		}
	}
	if asset != 0 {
		// BTM for gas, balanced with an ample fee
		change := uint64(c.Rng.Intn(1000000))
		addIn(0, change+fee)
		if change > 0 || c.Rng.Intn(2) == 0 {
			addOut(0, change)
		}
	}
	// sometimes a second, ordinary asset
	if c.Rng.Intn(3) == 0 {
		a2 := 6
		v := uint64(c.Rng.Intn(100000))
		addIn(a2, v)
		addOut(a2, v)
	}
	c.Rng.Shuffle(len(t.ins), func(i, j int) { t.ins[i], t.ins[j] = t.ins[j], t.ins[i] })
	c.Rng.Shuffle(len(t.outs), func(i, j int) { t.outs[i], t.outs[j] = t.outs[j], t.outs[i] })
	return t
}

// entry-level mutation share: a (mostly valid) transaction is mapped with MapTx and then ONE
// field of ONE entry is changed in place
func c01entryMut(c *Ctx) *c01tx {
	var t *c01tx
	switch c.Rng.Intn(10) {
	case 0:
		t = c01coinbase(c)
	case 1:
		t = c01wrap(c)
	default:
		t = c01valid(c)
	}
	t.label = "entry-mutation"
	m := &c01mut{}
	inF := []string{"pv", "pv", "pv", "wd", "wd", "wdpos", "wdref", "ms", "ms", "mspos", "msref"}
	outF := []string{"ov", "ov", "srcpos", "srcref", "dv", "dv", "dstpos", "dstref"}
	useIn := c.Rng.Intn(2) == 0
	if len(t.outs) == 0 {
		useIn = true
	}
	if len(t.ins) == 0 {
		return t
	}
	var baseAsset int
	var baseAmount uint64
	n := 0
	if useIn {
		m.field = inF[c.Rng.Intn(len(inF))]
		m.idx = c.Rng.Intn(len(t.ins))
		if c.Rng.Intn(2) == 0 {
			// prefer the rarer input kinds (veto, issuance) half of the time
			var rare []int
			for k, in := range t.ins {
				if in.kind == 'v' || in.kind == 'i' {
					rare = append(rare, k)
				}
			}
			if len(rare) > 0 {
				m.idx = rare[c.Rng.Intn(len(rare))]
			}
		}
		baseAsset, baseAmount, n = t.ins[m.idx].asset, t.ins[m.idx].amount, len(t.ins)
	} else {
		m.field = outF[c.Rng.Intn(len(outF))]
		m.idx = c.Rng.Intn(len(t.outs))
		baseAsset, baseAmount, n = t.outs[m.idx].asset, t.outs[m.idx].amount, len(t.outs)
	}
	switch m.field {
	case "pv", "wd", "ms", "ov", "dv":
		m.asset, m.v = baseAsset, baseAmount
		switch c.Rng.Intn(8) {
		case 0:
			m.v++
		case 1:
			m.v--
		case 2:
			m.v = 1000
		case 3:
			m.v = baseAmount / 2
		case 4:
			m.v = c01amount(c)
		case 5:
			m.asset = c.Rng.Intn(7)
		case 6:
			m.asset = (baseAsset + 1) % 7
			m.v = c01amount(c)
		default:
			// same value, fresh pointer: must change nothing
		}
	case "wdpos", "mspos", "srcpos", "dstpos":
		m.v = []uint64{0, 1, uint64(m.idx), uint64(m.idx) + 1, uint64(n), uint64(n) + 7, 1 << 40}[c.Rng.Intn(7)]
	case "msref", "dstref":
		m.v = []uint64{uint64(c.Rng.Intn(n)), uint64(m.idx), uint64(n), uint64(n) + 3}[c.Rng.Intn(4)]
	}
	t.mut = m
	return t
}

func c01coinbase(c *Ctx) *c01tx {
	t := &c01tx{bv: 1, bh: 101, ver: 1, first: true, label: "coinbase"}
	t.ins = []c01in{{kind: 'c', x: c.Rng.Intn(20), id: 0}}
	n := 1 + c.Rng.Intn(4)
	for k := 0; k < n; k++ {
		v := uint64(0)
		if k > 0 || c.Rng.Intn(2) == 0 {
			switch c.Rng.Intn(6) {
			case 0:
				v = c01boundary[c.Rng.Intn(len(c01boundary))]
			case 1:
				v = 1<<62 + uint64(c.Rng.Intn(3))
			default:
				v = uint64(c.Rng.Intn(600000000))
			}
		}
		t.outs = append(t.outs, c01out{kind: 'o', asset: 0, amount: v})
	}
	return t
}

func c01mutate(c *Ctx, t *c01tx) {
	t.label = "mutated"
	pickIn := func() *c01in {
		if len(t.ins) == 0 {
			return nil
		}
		return &t.ins[c.Rng.Intn(len(t.ins))]
	}
	pickOut := func() *c01out {
		if len(t.outs) == 0 {
			return nil
		}
		return &t.outs[c.Rng.Intn(len(t.outs))]
	}
	switch m := c.Rng.Intn(20); m {
	case 0:
		if in := pickIn(); in != nil {
			switch c.Rng.Intn(3) {
			case 0:
				in.amount++
			case 1:
				in.amount--
			default:
				in.amount = c01amount(c)
			}
		}
	case 1:
		if o := pickOut(); o != nil {
			switch c.Rng.Intn(3) {
			case 0:
				o.amount++
			case 1:
				o.amount--
			default:
				o.amount = c01amount(c)
			}
		}
	case 2:
		if o := pickOut(); o != nil {
			o.asset = c.Rng.Intn(9)
		}
	case 3:
		if in := pickIn(); in != nil && in.kind != 'c' {
			in.asset = c.Rng.Intn(9)
		}
	case 4:
		if len(t.ins) > 0 {
			k := c.Rng.Intn(len(t.ins))
			t.ins = append(t.ins[:k:k], t.ins[k+1:]...)
		}
	case 5:
		if len(t.outs) > 0 {
			k := c.Rng.Intn(len(t.outs))
			t.outs = append(t.outs[:k:k], t.outs[k+1:]...)
		}
	case 6:
		if in := pickIn(); in != nil {
			t.ins = append(t.ins, *in)
		}
	case 7:
		if in := pickIn(); in != nil {
			in.vmOk = false
		}
	case 8:
		switch c.Rng.Intn(3) {
		case 0:
			t.ver = 2
		case 1:
			t.bv = 2
		default:
			t.ver, t.bv = 2, 2
		}
	case 9:
		t.sizeSet = true
		t.size = []uint64{0, 1, 1 << 20, 1<<63 - 1, 1 << 63, 1<<64 - 1}[c.Rng.Intn(6)]
	case 10:
		t.tr = uint64(1 + c.Rng.Intn(int(t.bh)))
	case 11:
		if o := pickOut(); o != nil {
			o.kind, o.voteLen = 'v', 64
			switch c.Rng.Intn(4) {
			case 0:
				o.voteLen = []int{0, 32, 63, 65}[c.Rng.Intn(4)]
			case 1:
				if o.amount >= consensus.MinVoteOutputAmount {
					o.amount = consensus.MinVoteOutputAmount - 1
				}
			}
		}
	case 12:
		if in := pickIn(); in != nil && in.kind != 'c' {
			in.kind, in.x = 'v', []int{0, 63, 64, 65}[c.Rng.Intn(4)]
		}
	case 13:
		cb := c01in{kind: 'c', x: []int{0, 5, 128, 129}[c.Rng.Intn(4)], id: 1000}
		if c.Rng.Intn(2) == 0 {
			t.ins = append([]c01in{cb}, t.ins...)
		} else {
			t.ins = append(t.ins, cb)
		}
		t.first = c.Rng.Intn(3) != 0
	case 14:
		t.outs = nil
		if c.Rng.Intn(2) == 0 {
			t.ver, t.bv = 2, 2
		}
	case 15:
		t.ins = append([]c01in{{kind: 'c', x: 3, id: 1001}}, t.ins...)
		t.ins = append(t.ins, c01in{kind: 'c', x: 4, id: 1002})
		t.first = c.Rng.Intn(4) != 0
	case 16:
		t.first = !t.first
	case 17:
		if in := pickIn(); in != nil {
			in.argLen = []int{-1, 0, 1, 30, 200}[c.Rng.Intn(5)]
		}
	case 18:
		// the whole BTM fee removed / made tiny: gas paths
		for i := range t.ins {
			if t.ins[i].asset == 0 && t.ins[i].kind != 'c' && t.ins[i].amount > 0 {
				t.ins[i].amount -= uint64(c.Rng.Intn(int(minU(t.ins[i].amount, 3000000)) + 1))
				break
			}
		}
	default:
		if in := pickIn(); in != nil && in.kind != 'c' {
			in.kind = "siv"[c.Rng.Intn(3)]
			if in.kind == 'v' {
				in.x = 64
			}
		}
	}
}

func minU(a, b uint64) uint64 {
	if a < b {
		return a
	}
	return b
}

func c01wild(c *Ctx) *c01tx {
	t := &c01tx{bv: uint64(1 + c.Rng.Intn(2)), bh: uint64(c.Rng.Intn(200)), ver: uint64(1 + c.Rng.Intn(2)), first: c.Rng.Intn(2) == 0, label: "wild"}
	if c.Rng.Intn(2) == 0 {
		t.tr = uint64(c.Rng.Intn(300))
	}
	for k, n := 0, c.Rng.Intn(5); k < n; k++ {
		in := c01in{kind: "ssivc"[c.Rng.Intn(5)], asset: c.Rng.Intn(3), amount: c01amount(c), vmOk: c.Rng.Intn(6) != 0, argLen: 1 + c.Rng.Intn(4), id: c.Rng.Intn(6)}
		if in.kind == 'v' {
			in.x = []int{64, 64, 64, 3}[c.Rng.Intn(4)]
		}
		if in.kind == 'c' {
			in.x = c.Rng.Intn(140)
		}
		t.ins = append(t.ins, in)
	}
	for k, n := 0, c.Rng.Intn(5); k < n; k++ {
		o := c01out{kind: "ooovr"[c.Rng.Intn(5)], asset: c.Rng.Intn(3), amount: c01amount(c)}
		if o.kind == 'v' {
			o.voteLen = []int{64, 64, 64, 3}[c.Rng.Intn(4)]
		}
		t.outs = append(t.outs, o)
	}
	return t
}

func runC01(c *Ctx) {
	c.Rule = "abstract transactions (1-12 inputs of kind spend/issuance/veto/coinbase, 0-12 outputs original/vote/retirement, <=6 assets incl. BTM, amounts from {0,1,small,2^31,2^62,2^63-1,2^63,2^64-1,random}) are turned into real types.TxData, mapped with MapTx and validated with validation.ValidateTx; 12% wrap-around multisets (k>=3 outputs and/or inputs of ONE asset, BTM or not, kinds original/vote/retirement and spend/issuance/veto mixed, every amount <= 2^63-1, whose TRUE sum crosses 2^63 or is 2^64*j + W while the other side totals exactly W, so that any unchecked uint64/int64 accumulation balances), 15% ENTRY-LEVEL mutations (a mapped bc.Tx with ONE field of ONE entry changed in place: consumed output's Source.Value / Issuance.Value, WitnessDestination value/position/ref of spend, veto, issuance, coinbase, mux source and destination values/positions/refs, result outputs' Source value/position/ref; amounts +-1, 1000, half, boundary, other asset, identical copy), 28% balanced-by-construction with a fee from a gas-relevant grid, 30% single-field mutations of those, 5% coinbase transactions, 10% unstructured; a case is distinct by its full abstract description; every 25th case is a BATCH of 2-40 transactions (1-3 base transactions, exact twins, and siblings with the SAME inputs but different outputs / amounts / size / time range: unbalanced, overflow, wrap-around, fee-changing variants) validated together by the real validation.ValidateTxs on one worker in two orders and with default parallelism: each batch verdict and GasState must equal ValidateTx on that transaction alone and the model's"
	replaying := c.Replay != ""
	lines := c.CorpusLines()
	if replaying {
		lines = c.ReplayLines()
	}
	for k := 0; k < len(lines); k++ {
		w := strings.Fields(lines[k])
		if len(w) == 2 && w[0] == "reset-batch" {
			n, _ := strconv.Atoi(w[1])
			var ts []*c01tx
			for j := 0; j < n && k+1 < len(lines); j++ {
				k++
				if t, err := c01parse(lines[k]); err == nil {
					ts = append(ts, t)
				}
			}
			c01batch(c, ts)
			continue
		}
		if len(w) > 0 && w[0] == "reset" {
			c.Op("reset", "ok")
			continue
		}
		t, err := c01parse(lines[k])
		if err != nil {
			continue
		}
		c01run(c, t)
	}
	if replaying {
		return
	}
	for i := 0; i < c.N; i++ {
		if i%40 == 0 {
			// a cut point for replays (the stream is declared stateful because of the batches)
			c.Op("reset", "ok")
		}
		if i%25 == 7 {
			// ~4% of the cases are batches of 2-40 transactions through validation.ValidateTxs
			c01batch(c, c01genBatch(c))
			c.Op("reset", "ok")
			continue
		}
		var t *c01tx
		switch r := c.Rng.Intn(100); {
		case r < 12:
			t = c01wrap(c)
		case r < 27:
			t = c01entryMut(c)
		case r < 55:
			t = c01valid(c)
		case r < 85:
			if c.Rng.Intn(6) == 0 {
				t = c01coinbase(c)
			} else {
				t = c01valid(c)
			}
			c01mutate(c, t)
		case r < 90:
			t = c01coinbase(c)
		default:
			t = c01wild(c)
		}
		c01run(c, t)
	}
}

func init() { register("c01", runC01) }
