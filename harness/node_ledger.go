//go:build hnode || hall

package main

// Ledger layer of the node-history engine: transactions that spend coinbase rewards,
// create normal / vote outputs, veto, retire and register contracts; dumps of the persisted
// UTXO set; op-line description of every block's transactions for the Lean ledger model.

import (
	"fmt"
	"sort"
	"strings"

	"github.com/bytom/bytom/consensus"
	"github.com/bytom/bytom/consensus/bcrp"
	"github.com/bytom/bytom/crypto/sha3pool"
	"github.com/bytom/bytom/database"
	"github.com/bytom/bytom/protocol/bc"
	"github.com/bytom/bytom/protocol/bc/types"
	"github.com/bytom/bytom/protocol/vm/vmutil"
)

// outInfo describes one transaction output the engine knows by name.
type outInfo struct {
	name   string
	tx     *types.Tx
	idx    int
	kind   byte // 'n' normal, 'v' vote, 'r' retirement, 'k' contract registration (both are retirements: never utxos)
	amount uint64
	block  string // block that carries the creating tx ("" while unconfirmed)
	vote   []byte
	id     bc.Hash
	cb     bool // created by a coinbase tx
}

type txInfo struct {
	name string
	tx   *types.Tx
	ins  []string // names of spent outputs
	outs []string // names of created outputs (retirements included, as r<k>)
}

type ledgerNames struct {
	outs    map[string]*outInfo
	outByID map[bc.Hash]string
	order   []string
	txs     map[string]*txInfo
	nOut    int
	nTx     int
}

func newLedgerNames() *ledgerNames {
	return &ledgerNames{outs: map[string]*outInfo{}, outByID: map[bc.Hash]string{}, txs: map[string]*txInfo{}}
}

func finalizeTx(data types.TxData) *types.Tx {
	raw, err := data.MarshalText()
	if err != nil {
		panic(err)
	}
	data.SerializedSize = uint64(len(raw))
	return types.NewTx(data)
}

// spendInputFor builds the input that spends a known output (spend for normal outputs,
// veto for vote outputs).
func spendInputFor(o *outInfo) *types.TxInput {
	id := *o.tx.ResultIds[o.idx]
	switch e := o.tx.Entries[id].(type) {
	case *bc.OriginalOutput:
		return types.NewSpendInput(nil, *e.Source.Ref, *e.Source.Value.AssetId, e.Source.Value.Amount, e.Ordinal, e.ControlProgram.Code, e.StateData)
	case *bc.VoteOutput:
		return types.NewVetoInput(nil, *e.Source.Ref, *e.Source.Value.AssetId, e.Source.Value.Amount, e.Ordinal, e.ControlProgram.Code, e.Vote, e.StateData)
	}
	panic("unspendable output " + o.name)
}

type outSpec struct {
	kind   byte
	amount uint64
}

var votePub = func() []byte {
	b := make([]byte, 64)
	for i := range b {
		b[i] = byte(0xa0 + i%7)
	}
	return b
}()

// registers the txs' outputs under fresh names and returns the tx name
func (ln *ledgerNames) addTx(tx *types.Tx, ins []string, kinds []byte, coinbase bool) *txInfo {
	// the same transaction (e.g. identical coinbase txs of two blocks at one height) keeps its name
	for _, ti := range ln.txs {
		if ti.tx.ID == tx.ID {
			return ti
		}
	}
	ln.nTx++
	ti := &txInfo{name: fmt.Sprintf("t%d", ln.nTx), tx: tx, ins: ins}
	for i, o := range tx.Outputs {
		kind := kinds[i]
		// two conflicting transactions with the same inputs and an identical output at the same
		// position produce the same output id (the mux id covers the inputs only): one name
		if name, ok := ln.outByID[*tx.ResultIds[i]]; ok {
			ti.outs = append(ti.outs, name)
			continue
		}
		ln.nOut++
		name := fmt.Sprintf("o%d", ln.nOut)
		info := &outInfo{name: name, tx: tx, idx: i, kind: kind, amount: o.Amount, id: *tx.ResultIds[i], cb: coinbase}
		ln.outs[name] = info
		ln.outByID[info.id] = name
		ln.order = append(ln.order, name)
		ti.outs = append(ti.outs, name)
	}
	ln.txs[ti.name] = ti
	return ti
}

// buildTx spends the named outputs and creates the given outputs; the BTM difference is the fee.
func (ln *ledgerNames) buildTx(ins []string, outs []outSpec, salt byte) *txInfo {
	data := types.TxData{Version: 1}
	for _, in := range ins {
		data.Inputs = append(data.Inputs, spendInputFor(ln.outs[in]))
	}
	var kinds []byte
	for _, o := range outs {
		switch o.kind {
		case 'n':
			data.Outputs = append(data.Outputs, types.NewOriginalTxOutput(*consensus.BTMAssetID, o.amount, []byte{0x51}, nil))
		case 'v':
			data.Outputs = append(data.Outputs, types.NewVoteOutput(*consensus.BTMAssetID, o.amount, []byte{0x51}, votePub, nil))
		case 'r':
			prog, _ := vmutil.RetireProgram([]byte{salt})
			data.Outputs = append(data.Outputs, types.NewOriginalTxOutput(*consensus.BTMAssetID, o.amount, prog, nil))
		case 'k':
			prog, err := vmutil.RegisterProgram([]byte{0x51, salt, 0x75}) // contract: TRUE <salt> DROP
			if err != nil {
				panic(err)
			}
			data.Outputs = append(data.Outputs, types.NewOriginalTxOutput(*consensus.BTMAssetID, o.amount, prog, nil))
		}
		kinds = append(kinds, o.kind)
	}
	return ln.addTx(finalizeTx(data), ins, kinds, false)
}

// txLine is the abstract description of a transaction for the model:
//   <tx>:<in>,<in>:<out>/<kind>/<amount>,…     (kind n|v|r|k; r outputs are never utxos)
func (ln *ledgerNames) txLine(ti *txInfo) string {
	var outs []string
	for _, o := range ti.outs {
		oi := ln.outs[o]
		k := oi.kind
		extra := ""
		if k == 'k' {
			var h [32]byte
			contract, _ := bcrp.ParseContract(ti.tx.Outputs[oi.idx].ControlProgram)
			sha3pool.Sum256(h[:], contract)
			extra = fmt.Sprintf("/%x", h[:4])
		}
		outs = append(outs, fmt.Sprintf("%s/%c/%d%s", o, k, oi.amount, extra))
	}
	ins := "-"
	if len(ti.ins) > 0 {
		ins = strings.Join(ti.ins, ",")
	}
	return fmt.Sprintf("%s:%s:%s", ti.name, ins, strings.Join(outs, ","))
}

// dumpUtxo lists the persisted entry of every named output: <out>=<type>/<height>/<spent>
// with type n(ormal) c(oinbase) v(ote); outputs without a record are omitted.
func (n *node) dumpUtxo(ln *ledgerNames) string {
	var parts []string
	for _, name := range ln.order {
		o := ln.outs[name]
		e, err := n.store.GetUtxo(&o.id)
		if err != nil {
			continue
		}
		t := "?"
		switch e.Type {
		case 0:
			t = "n"
		case 1:
			t = "c"
		case 2:
			t = "v"
		}
		sp := 0
		if e.Spent {
			sp = 1
		}
		parts = append(parts, fmt.Sprintf("%s=%s/%d/%d", name, t, e.BlockHeight, sp))
	}
	if len(parts) == 0 {
		return "utxo=-"
	}
	return "utxo=" + strings.Join(parts, ",")
}

// dumpContracts lists registered contracts: <first 4 bytes of the contract hash>@<registering tx>.
func (n *node) dumpContracts(ln *ledgerNames) string {
	seen := map[string]bool{}
	var parts []string
	for _, name := range ln.order {
		o := ln.outs[name]
		if o.kind != 'k' {
			continue
		}
		contract, err := bcrp.ParseContract(o.tx.Outputs[o.idx].ControlProgram)
		if err != nil {
			continue
		}
		var h [32]byte
		sha3pool.Sum256(h[:], contract)
		key := fmt.Sprintf("%x", h[:4])
		if seen[key] {
			continue
		}
		seen[key] = true
		raw := n.db.Get(database.CalcContractKey(h))
		// Store.GetContract is what validation sees (Chain.ProgramConverter): it must answer exactly
		// what the persisted row says, also right after a reorganisation removed or re-created the row
		code, gerr := n.store.GetContract(h)
		switch {
		case len(raw) >= 32 && (gerr != nil || string(code) != string(raw[32:])):
			n.contractMismatch = fmt.Sprintf("contract %s: the row holds code %x but Store.GetContract answers %x (%v)", key, raw[32:], code, gerr)
		case len(raw) < 32 && gerr == nil:
			n.contractMismatch = fmt.Sprintf("contract %s: no row, but Store.GetContract answers code %x", key, code)
		}
		if len(raw) < 32 {
			continue
		}
		txName := "?"
		for tn, ti := range ln.txs {
			if string(ti.tx.ID.Bytes()) == string(raw[:32]) {
				txName = tn
			}
		}
		parts = append(parts, key+"@"+txName)
	}
	sort.Strings(parts)
	if len(parts) == 0 {
		return "contracts=-"
	}
	return "contracts=" + strings.Join(parts, ",")
}

// ---------------------------------------------------------------------------------------
// ledger-mode generator (C10): valid blocks carrying spends, votes, vetoes, retirements and
// contract registrations on competing branches

// branchView computes, by walking the ancestors of `tip`, which named outputs exist on that
// branch and are unspent, with their creation heights.
type branchView struct {
	height  uint64
	created map[string]uint64 // output -> creation height
	spent   map[string]bool
}

func (nc *nodeCase) branchView(tip string) *branchView {
	bv := &branchView{created: map[string]uint64{}, spent: map[string]bool{}, height: nc.nm.blocks[tip].Height}
	for _, a := range nc.ancestors(tip) {
		h := nc.nm.blocks[a].Height
		for _, ti := range nc.blockTxs[a] {
			for _, o := range ti.outs {
				bv.created[o] = h
			}
			for _, in := range ti.ins {
				bv.spent[in] = true
			}
		}
	}
	return bv
}

// spendable lists outputs a block at height h on this branch may spend.
func (nc *nodeCase) spendable(bv *branchView, h uint64) []string {
	var out []string
	for _, name := range nc.ln.order {
		ch, ok := bv.created[name]
		if !ok || bv.spent[name] {
			continue
		}
		o := nc.ln.outs[name]
		if o.amount == 0 || o.kind == 'r' || o.kind == 'k' {
			continue
		}
		if o.cb && ch+consensus.CoinbasePendingBlockNumber > h {
			continue
		}
		if o.kind == 'v' && ch+nc.env.votePend > h {
			continue
		}
		out = append(out, name)
	}
	return out
}

const ledgerFee = uint64(20000000)

// randomTxs builds 0–2 valid transactions for a child of `parent`.
func (nc *nodeCase) randomTxs(parent string) []*txInfo {
	rng := nc.c.Rng
	bv := nc.branchView(parent)
	h := bv.height + 1
	avail := nc.spendable(bv, h)
	var txs []*txInfo
	n := rng.Intn(3)
	for k := 0; k < n && len(avail) > 0; k++ {
		i := rng.Intn(len(avail))
		in := avail[i]
		avail = append(avail[:i], avail[i+1:]...)
		o := nc.ln.outs[in]
		if o.amount <= ledgerFee+1 {
			continue
		}
		rest := o.amount - ledgerFee
		var outs []outSpec
		switch c := rng.Intn(10); {
		case c < 3 && rest >= 2*consensus.MinVoteOutputAmount:
			outs = []outSpec{{'v', consensus.MinVoteOutputAmount + uint64(rng.Intn(1000))}, {'n', 0}}
		case c < 5 && rest >= 3:
			outs = []outSpec{{'n', rest / 3}, {'r', rest / 3}, {'n', 0}}
		case (c < 7 || (ledgerSaltRange < 4 && c < 9)) && rest >= 2*consensus.BCRPRequiredBTMAmount:
			outs = []outSpec{{'k', consensus.BCRPRequiredBTMAmount}, {'n', 0}}
		default:
			outs = []outSpec{{'n', rest / 2}, {'n', 0}}
		}
		// last output takes the remainder
		var sum uint64
		for _, x := range outs[:len(outs)-1] {
			sum += x.amount
		}
		outs[len(outs)-1].amount = rest - sum
		ti := nc.ln.buildTx([]string{in}, outs, byte(rng.Intn(ledgerSaltRange)))
		txs = append(txs, ti)
		nc.c.Count("tx-" + string(outs[0].kind))
		// chained spend inside the block
		if rng.Intn(4) == 0 {
			first := ti.outs[len(ti.outs)-1]
			fo := nc.ln.outs[first]
			if fo.kind == 'n' && fo.amount > ledgerFee+2 {
				t2 := nc.ln.buildTx([]string{first}, []outSpec{{'n', fo.amount - ledgerFee}}, 0)
				txs = append(txs, t2)
				nc.c.Count("tx-chained")
			}
		}
	}
	return txs
}

// ledgerSaltRange: number of distinct contracts / retirement programs the generated
// transactions choose from (1 or 2: the same contract is registered again and again, also
// twice on one branch or in one block).
var ledgerSaltRange = 4

func genCaseLedger(c *Ctx, mode string) {
	rng := c.Rng
	ledgerSaltRange = []int{1, 2, 4}[rng.Intn(3)]
	defer func() { ledgerSaltRange = 4 }()
	E := uint64(2 + rng.Intn(2))
	nc := newNodeCase(c, mode, E, 4, -1, 2)
	defer nc.close()
	// base chain long enough for the first epoch reward to mature
	base := int(E) + 1 + int(consensus.CoinbasePendingBlockNumber) + rng.Intn(3)
	tip := "b0"
	for i := 0; i < base; i++ {
		name := nc.defBlock(tip, 0, 0, nil)
		if name == "" {
			panic("base chain block rejected: " + nc.lastRefErr)
		}
		nc.deliver(name)
		tip = name
	}
	tips := []string{tip}
	var pending []string
	steps := 4 + rng.Intn(10)
	for i := 0; i < steps && !nc.dead; i++ {
		var parent string
		switch {
		case rng.Intn(3) == 0:
			// fork from a recent block
			all := nc.nm.order
			parent = all[len(all)-1-rng.Intn(minInt(len(all)-base+1, 5))]
		default:
			parent = tips[rng.Intn(len(tips))]
		}
		txs := nc.randomTxs(parent)
		name := nc.defBlock(parent, uint64(rng.Intn(2)), byte(rng.Intn(3)), txs)
		if name == "" {
			c.Count("ledger-block-rejected-by-ref:" + firstWords(nc.lastRefErr, 6))
			continue
		}
		tips = append(tips, name)
		if rng.Intn(5) == 0 {
			pending = append(pending, name) // delivered later (out of order)
			continue
		}
		nc.deliver(name)
		if len(pending) > 0 && rng.Intn(2) == 0 {
			nc.deliver(pending[0])
			pending = pending[1:]
		}
		if rng.Intn(12) == 0 {
			nc.restart()
		}
	}
	for _, p := range pending {
		if !nc.dead {
			nc.deliver(p)
		}
	}
	if !nc.dead {
		nc.oracleReplay("end")
	}
	c.Distinct(fmt.Sprintf("ledger-%d-%d", c.Seed, c.nOps))
	c.Count(fmt.Sprintf("E=%d", E))
}

func minInt(a, b int) int {
	if a < b {
		return a
	}
	return b
}

func firstWords(s string, n int) string {
	w := strings.Fields(s)
	if len(w) > n {
		w = w[:n]
	}
	return strings.Join(w, "_")
}

// oracleReplay (C10): a fresh node fed only the current main chain, in order, must hold the
// same persisted ledger: same entries with the same type, creation height and spent flag,
// and the same contract table.
func (nc *nodeCase) oracleReplay(when string) {
	best := nc.nm.name(nc.sut.chain.BestBlockHeader().Hash())
	chain := nc.ancestors(best)
	nc.env.useLocalKey()
	fresh, err := newNode(nc.env, nil)
	if err != nil {
		panic(err)
	}
	defer fresh.close()
	for i := len(chain) - 2; i >= 0; i-- {
		r := fresh.processBlock(nc.nm.blocks[chain[i]])
		fresh.quiesce()
		if r.String() != "ok" {
			nc.c.Fail("C10:replay-rejects-main-chain", fmt.Sprintf("%s: a fresh node fed the main chain in order rejects %s: %v %s", when, chain[i], r.err, r.panic))
			return
		}
	}
	// the block height of a normal entry constrains nothing: compare it only for coinbase
	// (maturity) and vote (lock) entries; spent non-coinbase records are equivalent to none
	norm := normUtxoDump
	got, want := norm(nc.sut.dumpUtxo(nc.ln)), norm(fresh.dumpUtxo(nc.ln))
	if got != want {
		// classify: only heights of restored (un-spent) vote outputs differ?
		g, w := splitDump(got), splitDump(want)
		what := "utxo-differs"
		onlyVoteHeight := true
		for k, v := range w {
			if g[k] != v {
				gv := strings.Split(g[k], "/")
				wv := strings.Split(v, "/")
				if !(len(gv) == 3 && len(wv) == 3 && gv[0] == "v" && wv[0] == "v" && gv[2] == wv[2] && gv[1] == "0") {
					onlyVoteHeight = false
				}
			}
		}
		for k := range g {
			if _, ok := w[k]; !ok {
				onlyVoteHeight = false
			}
		}
		if onlyVoteHeight {
			what = "restored-vote-output-loses-lock-height"
		}
		nc.c.Fail("C10:"+what, fmt.Sprintf("%s: main chain %s: node has %s, replay from genesis gives %s", when, best, diffDump(g, w), diffDump(w, g)))
	}
	if gc, wc := nc.sut.dumpContracts(nc.ln), fresh.dumpContracts(nc.ln); gc != wc {
		nc.c.Fail("C10:contracts-differ", fmt.Sprintf("%s: main chain %s: node has %s, replay from genesis gives %s", when, best, gc, wc))
	}
}

func splitDump(d string) map[string]string {
	m := map[string]string{}
	d = strings.TrimPrefix(d, "utxo=")
	if d == "-" {
		return m
	}
	for _, p := range strings.Split(d, ",") {
		kv := strings.SplitN(p, "=", 2)
		if len(kv) == 2 {
			m[kv[0]] = kv[1]
		}
	}
	return m
}

func diffDump(a, b map[string]string) string {
	var out []string
	for k, v := range a {
		if b[k] != v {
			out = append(out, k+"="+v)
		}
	}
	sort.Strings(out)
	return "{" + strings.Join(out, " ") + "}"
}

// normUtxoDump: the block height of a normal entry constrains nothing (only coinbase maturity
// and vote locks read it) and a spent non-coinbase record is equivalent to no record.
func normUtxoDump(d string) string {
	m := splitDump(d)
	var parts []string
	for k, v := range m {
		f := strings.Split(v, "/")
		if len(f) == 3 && f[2] == "1" && f[0] != "c" {
			continue // a spent normal / vote entry is as good as no entry: nothing can spend it
		}
		if len(f) == 3 && f[0] == "n" {
			v = "n/-/" + f[2]
		}
		parts = append(parts, k+"="+v)
	}
	sort.Strings(parts)
	if len(parts) == 0 {
		return "utxo=-"
	}
	return "utxo=" + strings.Join(parts, ",")
}
