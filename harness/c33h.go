//go:build hc33 || hall

package main

import (
	"fmt"
	"io/ioutil"
	"net"

	log "github.com/sirupsen/logrus"
	wire "github.com/tendermint/go-wire"
	"github.com/tendermint/tmlibs/flowrate"

	"github.com/bytom/bytom/consensus"
	"github.com/bytom/bytom/netsync/chainmgr"
	msgs "github.com/bytom/bytom/netsync/messages"
	"github.com/bytom/bytom/protocol/bc"
	"github.com/bytom/bytom/protocol/bc/types"
)

// C33, handler level: the request handlers of netsync/chainmgr/handle.go are driven the way
// ProtocolReactor.Receive drives them — the request is wire-encoded, decoded with
// decodeMessage and handed to processMsg (hook VerifReceive) — with a connection-level peer
// that records what is sent back.
//
//	hh <skip> <stop> <locator…>   GetHeadersMessage   → none | ok id:h …   (HeadersMessage)
//	hb <stop> <locator…>          GetBlocksMessage    → none | ok id:h …   (BlocksMessage)
//	gb <height> <id>              GetBlockMessage     → none | ok id:h      (BlockMessage)
//	gm <height> <id>              GetMerkleBlockMessage → none | ok id:h    (MerkleBlockMessage)
//
// Direct oracle: the handler does not panic (`handler-panics:<which>`), sends at most one
// message of the right type, the message obeys the C33 response rules (c33oracle) and is the
// located result itself (headers) / a non-empty prefix of it (blocks).

type c33peer struct {
	id   string
	sent []msgs.BlockchainMessage
}

func (p *c33peer) Addr() net.Addr                     { return &net.IPAddr{IP: net.ParseIP("192.168.0.9")} }
func (p *c33peer) ID() string                         { return p.id }
func (p *c33peer) IsLAN() bool                        { return false }
func (p *c33peer) Moniker() string                    { return "" }
func (p *c33peer) RemoteAddrHost() string             { return "192.168.0.9" }
func (p *c33peer) ServiceFlag() consensus.ServiceFlag { return consensus.SFFullNode }
func (p *c33peer) TrafficStatus() (*flowrate.Status, *flowrate.Status) {
	return nil, nil
}
func (p *c33peer) TrySend(_ byte, msg interface{}) bool {
	if w, ok := msg.(struct{ msgs.BlockchainMessage }); ok {
		p.sent = append(p.sent, w.BlockchainMessage)
	} else {
		p.sent = append(p.sent, nil)
	}
	return true
}

type c33peerSet struct{}

func (c33peerSet) StopPeerGracefully(string)          {}
func (c33peerSet) IsBanned(string, byte, string) bool { return false }

func init() { log.SetOutput(ioutil.Discard) }

func (s *c33state) manager() (*chainmgr.Manager, *c33peer) {
	if s.mgr == nil {
		s.mgr = chainmgr.VerifNewHandlerManager(s.chain, c33peerSet{})
		s.peer = &c33peer{id: "verif-peer"}
		s.mgr.VerifAddPeer(s.peer)
	}
	return s.mgr, s.peer
}

func c33hashes(s *c33state, labels []uint64) []*bc.Hash {
	out := make([]*bc.Hash, len(labels))
	for i, l := range labels {
		out[i] = s.hashOf(l)
	}
	return out
}

// c33handler executes one handler-level op line; w = fields of the line.
func c33handler(c *Ctx, s *c33state, line string, w []string, u func(int) uint64) {
	if s.backend == "mock" {
		c33mockSides(s)
	}
	m, peer := s.manager()
	peer.sent = nil
	var req msgs.BlockchainMessage
	var locL []uint64
	var stopL, skip uint64
	switch w[0] {
	case "hh":
		skip, stopL = u(1), u(2)
		for i := 3; i < len(w); i++ {
			locL = append(locL, u(i))
		}
		req = msgs.NewGetHeadersMessage(c33hashes(s, locL), s.hashOf(stopL), skip)
	case "hb":
		stopL = u(1)
		for i := 2; i < len(w); i++ {
			locL = append(locL, u(i))
		}
		req = msgs.NewGetBlocksMessage(c33hashes(s, locL), s.hashOf(stopL))
	case "gb":
		req = &msgs.GetBlockMessage{Height: u(1), RawHash: s.hashOf(u(2)).Byte32()}
	case "gm":
		req = &msgs.GetMerkleBlockMessage{Height: u(1), RawHash: s.hashOf(u(2)).Byte32()}
	}
	bz := wire.BinaryBytes(struct{ msgs.BlockchainMessage }{req})
	panicked := ""
	var rerr error
	func() {
		defer func() {
			if r := recover(); r != nil {
				panicked = fmt.Sprint(r)
			}
		}()
		rerr = m.VerifReceive(peer, bz)
	}()
	if panicked != "" {
		c.Op(line, "panic")
		c.Fail("handler-panics:"+w[0]+": "+line, panicked)
		s.mgr = nil // a fresh manager for the next request
		return
	}
	if rerr != nil {
		c.Op(line, "undecodable")
		c.Fail("request does not decode: "+line, rerr.Error())
		return
	}
	// what was sent
	var hs []*types.BlockHeader
	res := "none"
	bad := ""
	if len(peer.sent) > 1 {
		bad = fmt.Sprintf("%d messages sent for one request", len(peer.sent))
	}
	if len(peer.sent) >= 1 {
		switch sm := peer.sent[0].(type) {
		case *msgs.HeadersMessage:
			if w[0] != "hh" {
				bad = "headers message sent for " + w[0]
			}
			hs, rerr = sm.GetHeaders()
		case *msgs.BlocksMessage:
			if w[0] != "hb" {
				bad = "blocks message sent for " + w[0]
			}
			var bs []*types.Block
			bs, rerr = sm.GetBlocks()
			for _, b := range bs {
				hs = append(hs, &b.BlockHeader)
			}
		case *msgs.BlockMessage:
			if w[0] != "gb" {
				bad = "block message sent for " + w[0]
			}
			var b *types.Block
			if b, rerr = sm.GetBlock(); rerr == nil {
				hs = append(hs, &b.BlockHeader)
			}
		case *msgs.MerkleBlockMessage:
			if w[0] != "gm" {
				bad = "merkle block message sent for " + w[0]
			}
			h := &types.BlockHeader{}
			if rerr = h.UnmarshalText(sm.RawBlockHeader); rerr == nil {
				hs = append(hs, h)
			}
		default:
			bad = fmt.Sprintf("unexpected message %T", sm)
		}
		if rerr != nil {
			bad = "sent message does not decode: " + rerr.Error()
		}
		res = c33show(s, hs, nil)
	}
	c.Op(line, res)
	c.Count(w[0] + "/" + map[bool]string{true: "none", false: "answered"}[res == "none"])
	if bad != "" {
		c.Fail(bad+": "+line, res)
		return
	}
	if !m.VerifHasPeer(peer.id) {
		c.Fail("peer dropped although the send succeeded: "+line, res)
	}
	switch w[0] {
	case "hh":
		_, maxH := chainmgr.VerifMaxNums()
		want, werr := chainmgr.VerifLocateHeaders(s.chain, c33hashes(s, locL), s.hashOf(stopL), skip, maxH)
		if len(hs) > 0 {
			c33oracle(c, s, line, "hh", hs, nil, locL, stopL, skip, maxH)
		}
		if got, exp := res, c33resp(s, want, werr); got != exp {
			c.Fail("handler answer differs from locateHeaders: "+line, "sent "+got+", located "+exp)
		}
	case "hb":
		maxB, _ := chainmgr.VerifMaxNums()
		wantB, werr := chainmgr.VerifLocateBlocks(s.chain, c33hashes(s, locL), s.hashOf(stopL), func() bool { return false })
		var want []*types.BlockHeader
		for _, b := range wantB {
			want = append(want, &b.BlockHeader)
		}
		exp := c33resp(s, want, werr)
		// size budget: a non-empty prefix (the blocks of this harness are small: everything fits)
		if len(hs) > 0 {
			c33oracle(c, s, line, "hb", hs, nil, locL, stopL, 0, maxB)
		}
		if res != exp {
			c.Fail("handler answer differs from locateBlocks: "+line, "sent "+res+", located "+exp)
		}
	}
}

// c33resp: what a handler sends for a located result: nothing on error or an empty result
func c33resp(s *c33state, hs []*types.BlockHeader, err error) string {
	if err != nil || len(hs) == 0 {
		return "none"
	}
	return c33show(s, hs, nil)
}

// handler-level queries of one generated case (labels: main chain 0..n-1 by height, then side blocks)
func c33genHandlers(c *Ctx, mainL, sideL []uint64, pick func() uint64, unknown func() uint64) []string {
	r := c.Rng
	var out []string
	n := len(mainL)
	top := mainL[n-1]
	mid := mainL[n/2]
	locs := func(l ...uint64) string {
		s := ""
		for _, x := range l {
			s += fmt.Sprintf(" %d", x)
		}
		return s
	}
	both := func(stop uint64, loc ...uint64) {
		out = append(out, fmt.Sprintf("hb %d%s", stop, locs(loc...)))
		skip := c33skips[r.Intn(len(c33skips))]
		out = append(out, fmt.Sprintf("hh %d %d%s", skip, stop, locs(loc...)))
	}
	// the shapes a peer can send: stop below start, stop == start, stop on a side chain,
	// unknown stop, empty locator, locator entirely on side chains / unknown, huge skip
	switch r.Intn(8) {
	case 0:
		both(mainL[r.Intn(n/2+1)], top) // stop below (or at) start
	case 1:
		both(mid, mid) // stop == start
	case 2:
		if len(sideL) > 0 {
			both(sideL[r.Intn(len(sideL))], mainL[r.Intn(n)]) // stop on a side chain
		} else {
			both(unknown(), mid)
		}
	case 3:
		both(unknown(), mainL[r.Intn(n)]) // unknown stop
	case 4:
		both(top) // empty locator
	case 5:
		if len(sideL) > 0 {
			both(top, sideL[r.Intn(len(sideL))], unknown()) // locator off the main chain
		} else {
			both(top, unknown(), unknown())
		}
	case 6:
		out = append(out, fmt.Sprintf("hh %d %d %d", ^uint64(0)-uint64(r.Intn(3)), top, mainL[r.Intn(n)])) // huge skip
	default:
		both(pick(), pick(), pick())
	}
	for i := 0; i < 2; i++ {
		both(pick(), pick(), pick(), pick())
	}
	// long locators (65…300 entries): unknown and side-branch hashes first, the first
	// main-chain entry only at index 64, 65, 100 or last — the whole locator has to be scanned
	if r.Intn(3) == 0 {
		total := []int{65, 66, 100, 101, 150, 300, 65 + r.Intn(236)}[r.Intn(7)]
		first := []int{64, 65, 100, total - 1, 64 + r.Intn(total-64)}[r.Intn(5)]
		if first >= total {
			first = total - 1
		}
		var loc []uint64
		for i := 0; i < first; i++ {
			if len(sideL) > 0 && r.Intn(2) == 0 {
				loc = append(loc, sideL[r.Intn(len(sideL))])
			} else {
				loc = append(loc, unknown())
			}
		}
		// then main-chain entries in descending height (labels of main blocks ascend with height)
		at := r.Intn(n)
		if n > 1 && at == 0 {
			at = 1 + r.Intn(n-1)
		}
		for len(loc) < total {
			loc = append(loc, mainL[at])
			if at > 0 {
				at--
			}
		}
		out = append(out, fmt.Sprintf("hh %d %d%s", []uint64{0, 0, 1, 3}[r.Intn(4)], top, locs(loc...)))
		out = append(out, fmt.Sprintf("hb %d%s", top, locs(loc...)))
	}
	k := "gb"
	if r.Intn(2) == 0 {
		k = "gm"
	}
	switch r.Intn(3) {
	case 0:
		out = append(out, fmt.Sprintf("%s %d %d", k, r.Intn(n+3), pick()))
	case 1:
		out = append(out, fmt.Sprintf("%s 0 %d", k, pick()))
	default:
		out = append(out, fmt.Sprintf("%s 0 %d", k, unknown()))
	}
	return out
}
