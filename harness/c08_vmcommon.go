//go:build hc06 || hc07 || hc08 || hall

package main

import (
	"bytes"
	"crypto/ed25519"
	"encoding/hex"
	"fmt"
	"math/big"
	"strconv"
	"strings"

	"github.com/bytom/bytom/errors"
	"github.com/bytom/bytom/math/checked"
	"github.com/bytom/bytom/protocol/vm"
)

// Shared by the VM harnesses (C06, C07, C08): a vm.Verify case, its op line (format in
// lean/BytomModel/Drv/VMCommon.lean), execution of the REAL vm.Verify with vm.TraceOut
// hashed (FNV-1a/64) and a step watchdog, error-class canonicalisation, the deterministic
// CheckOutput callback, Ed25519 key material and the oracle table of valid signatures.

const vmMaxSteps = 200000

// vmStepBudget is the watchdog threshold for a case: every instruction except a zero-key
// CHECKMULTISIG (which needs three pushes first) costs at least one unit of a potential that
// never exceeds the limit, so a terminating run traces far fewer than 4*limit+1000 instructions.
func vmStepBudget(limit int64) int {
	if limit < 0 {
		return 1000
	}
	if limit > (vmMaxSteps-1000)/4 {
		return vmMaxSteps
	}
	return int(4*limit + 1000)
}

type vmCase struct {
	vmVersion     uint64
	limit         int64
	code          []byte
	args, state   [][]byte
	txVersion     *uint64
	blockHeight   *uint64
	assetID       *[]byte
	amount        *uint64
	destPos       *uint64
	spentOutputID *[]byte
	entryID       []byte
	sigHash       *[]byte
	checkOutput   bool
	sigs          [][3][]byte // (pk,msg,sig) for which ed25519.Verify is true
}

func hx(b []byte) string {
	if len(b) == 0 {
		return "-"
	}
	return hex.EncodeToString(b)
}
func hxList(l [][]byte) string {
	if len(l) == 0 {
		return "."
	}
	s := make([]string, len(l))
	for i, b := range l {
		s[i] = hx(b)
	}
	return strings.Join(s, ",")
}
func optU(p *uint64) string {
	if p == nil {
		return "nil"
	}
	return strconv.FormatUint(*p, 10)
}
func optB(p *[]byte) string {
	if p == nil {
		return "nil"
	}
	return hx(*p)
}

func (k *vmCase) line() string {
	sg := "."
	if len(k.sigs) > 0 {
		parts := make([]string, len(k.sigs))
		for i, t := range k.sigs {
			parts[i] = hx(t[0]) + ":" + hx(t[1]) + ":" + hx(t[2])
		}
		sg = strings.Join(parts, ";")
	}
	co := "0"
	if k.checkOutput {
		co = "1"
	}
	return fmt.Sprintf("v %d %d %s %s %s %s %s %s %s %s %s %s %s %s %s", k.vmVersion, k.limit, hx(k.code), hxList(k.args),
		hxList(k.state), optU(k.txVersion), optU(k.blockHeight), optB(k.assetID), optU(k.amount), optU(k.destPos),
		optB(k.spentOutputID), hx(k.entryID), optB(k.sigHash), co, sg)
}

func unhx(s string) ([]byte, error) {
	if s == "-" {
		return []byte{}, nil
	}
	return hex.DecodeString(s)
}
func unhxList(s string) ([][]byte, error) {
	if s == "." {
		return nil, nil
	}
	var out [][]byte
	for _, p := range strings.Split(s, ",") {
		b, err := unhx(p)
		if err != nil {
			return nil, err
		}
		out = append(out, b)
	}
	return out, nil
}
func unoptU(s string) (*uint64, error) {
	if s == "nil" {
		return nil, nil
	}
	v, err := strconv.ParseUint(s, 10, 64)
	return &v, err
}
func unoptB(s string) (*[]byte, error) {
	if s == "nil" {
		return nil, nil
	}
	b, err := unhx(s)
	return &b, err
}

// parseVMCase reads an op line back (corpus / replay).
func parseVMCase(line string) (*vmCase, error) {
	w := strings.Fields(line)
	if len(w) != 16 || w[0] != "v" {
		return nil, fmt.Errorf("not a vm case line")
	}
	k := &vmCase{}
	var err error
	fail := func(e error) bool {
		if e != nil && err == nil {
			err = e
		}
		return e != nil
	}
	var e error
	k.vmVersion, e = strconv.ParseUint(w[1], 10, 64)
	fail(e)
	k.limit, e = strconv.ParseInt(w[2], 10, 64)
	fail(e)
	k.code, e = unhx(w[3])
	fail(e)
	k.args, e = unhxList(w[4])
	fail(e)
	k.state, e = unhxList(w[5])
	fail(e)
	k.txVersion, e = unoptU(w[6])
	fail(e)
	k.blockHeight, e = unoptU(w[7])
	fail(e)
	k.assetID, e = unoptB(w[8])
	fail(e)
	k.amount, e = unoptU(w[9])
	fail(e)
	k.destPos, e = unoptU(w[10])
	fail(e)
	k.spentOutputID, e = unoptB(w[11])
	fail(e)
	k.entryID, e = unhx(w[12])
	fail(e)
	k.sigHash, e = unoptB(w[13])
	fail(e)
	k.checkOutput = w[14] == "1"
	if w[15] != "." {
		for _, t := range strings.Split(w[15], ";") {
			p := strings.Split(t, ":")
			if len(p) != 3 {
				return nil, fmt.Errorf("bad sig triple")
			}
			var tr [3][]byte
			for i := range p {
				tr[i], e = unhx(p[i])
				fail(e)
			}
			k.sigs = append(k.sigs, tr)
		}
	}
	return k, err
}

func u64p(v uint64) *uint64 { return &v }

// unpaidPushCosts: for the opcodes that push a not-yet-paid item with deferred cost, the cost
// 8+len of that item in this case (upper bound 16 for the numeric ones).
func (k *vmCase) unpaidPushCosts() map[string]int64 {
	m := map[string]int64{"PROGRAM": 8 + int64(len(k.code)), "ENTRYID": 8 + int64(len(k.entryID)),
		"AMOUNT": 16, "INDEX": 16, "BLOCKHEIGHT": 16, "SIZE": 16}
	if k.assetID != nil {
		m["ASSET"] = 8 + int64(len(*k.assetID))
	}
	if k.spentOutputID != nil {
		m["OUTPUTID"] = 8 + int64(len(*k.spentOutputID))
	}
	return m
}

var failSeen = map[string]int{}

// failCapped records a direct-oracle failure and counts it per signature in the distribution.
func failCapped(c *Ctx, sig, detail string) {
	failSeen[sig]++
	c.Count("oracle-fail/" + sig)
	c.Fail(sig, detail)
}

func num(n int64) []byte { return vm.PushDataUint64(uint64(n)) }

func sumBytes(b []byte) uint64 {
	var s uint64
	for _, x := range b {
		s += uint64(x)
	}
	return s
}

var errOtherCallback = fmt.Errorf("callback failure (not a vm error)")

// vmCheckOutput is the deterministic CheckOutput callback (same function in VMCommon.lean).
func vmCheckOutput(index uint64, amount uint64, assetID []byte, vmVersion uint64, code []byte, state [][]byte, expansion bool) (bool, error) {
	var st uint64
	for i, it := range state {
		st += uint64(i+1) * (uint64(len(it)) + sumBytes(it))
	}
	s := index + 3*amount + 5*vmVersion + 7*uint64(len(assetID)) + 11*uint64(len(code)) + 13*uint64(len(state)) +
		sumBytes(assetID) + 2*sumBytes(code) + st
	if expansion {
		s++
	}
	switch s % 7 {
	case 0:
		return false, vm.ErrBadValue
	case 1:
		return false, errOtherCallback
	case 2, 3, 4:
		return true, nil
	}
	return false, nil
}

func cp(b []byte) []byte {
	out := make([]byte, len(b))
	copy(out, b)
	return out
}
func cpList(l [][]byte) [][]byte {
	if l == nil {
		return nil
	}
	out := make([][]byte, len(l))
	for i := range l {
		out[i] = cp(l[i])
	}
	return out
}
func cpOpt(p *[]byte) *[]byte {
	if p == nil {
		return nil
	}
	b := cp(*p)
	return &b
}

// context builds a vm.Context whose byte slices are all fresh exact-capacity copies.
func (k *vmCase) context() *vm.Context {
	c := &vm.Context{
		VMVersion: k.vmVersion, Code: cp(k.code), StateData: cpList(k.state), Arguments: cpList(k.args),
		EntryID: cp(k.entryID), TxVersion: k.txVersion, BlockHeight: k.blockHeight,
		AssetID: cpOpt(k.assetID), Amount: k.amount, DestPos: k.destPos, SpentOutputID: cpOpt(k.spentOutputID),
	}
	if k.sigHash != nil {
		h := *k.sigHash
		c.TxSigHash = func() []byte { return cp(h) }
	}
	if k.checkOutput {
		c.CheckOutput = vmCheckOutput
	}
	return c
}

var vmErrNames = []struct {
	e error
	n string
}{
	{vm.ErrAltStackUnderflow, "altStackUnderflow"}, {vm.ErrBadValue, "badValue"}, {vm.ErrContext, "context"},
	{vm.ErrDataStackUnderflow, "dataStackUnderflow"}, {vm.ErrDisallowedOpcode, "disallowedOpcode"},
	{vm.ErrDivZero, "divZero"}, {vm.ErrFalseVMResult, "falseVMResult"}, {vm.ErrLongProgram, "longProgram"},
	{vm.ErrRange, "range"}, {vm.ErrReturn, "return"}, {vm.ErrRunLimitExceeded, "runLimitExceeded"},
	{vm.ErrShortProgram, "shortProgram"}, {vm.ErrUnsupportedVM, "unsupportedVM"}, {vm.ErrVerifyFailed, "verifyFailed"},
	{checked.ErrOverflow, "overflow"}, {vm.ErrUnexpected, "unexpected"},
}

func vmErrClass(err error) string {
	if err == nil {
		return "ok"
	}
	r := errors.Root(err)
	for _, x := range vmErrNames {
		if r == x.e {
			return x.n
		}
	}
	return "other"
}

// traceSink receives vm.TraceOut.
type traceSink struct {
	hash      uint64
	lines     int
	steps     int
	cur       []byte
	lastDump  [][]byte // lines of the last dump block that started with "  stack 0:"
	sinceVM   [][]byte // dump items since the last "vm" line
	fired     bool
	budget    int
	keep      *bytes.Buffer // full text when wanted
	vmLines   []string
	keepSteps bool

	// potential tracking at depth 0 (C07 direct oracle): Φ = runLimit + Σ(8+len) over the data stack
	track      bool
	curStack   [][]byte // top first
	prevPhi    int64
	prevOp     string
	prevValid  bool
	prevDepth  int
	childSeen  bool
	phiReports []phiReport

	// every instruction line, tracking or not (C07 direct oracles)
	minLimit   int64            // most negative runLimit seen on an instruction line
	minLine    string           // that line
	maxLimit0  int64            // largest runLimit seen at depth 0
	unpaidLen  map[string]int64 // opcode name -> cost 8+len of the item it pushes with deferred cost
	allowance  int64            // Σ over child instructions that fail in the deferred charge after such a push (the KNOWN defect)
	cpAllow    int64            // the same, since the last depth-0 instruction line
	knownEvent int
}

type phiReport struct {
	op    string
	delta int64 // Φ before − Φ after the instruction (whole CHECKPREDICATE incl. child for that op)
	child bool
	allow int64 // known-defect allowance accrued inside this instruction (CHECKPREDICATE children)
}

func stackCostOf(st [][]byte) int64 {
	var c int64
	for _, it := range st {
		c += 8 + int64(len(it))
	}
	return c
}

func (t *traceSink) Write(p []byte) (int, error) {
	for _, b := range p {
		t.hash ^= uint64(b)
		t.hash *= 1099511628211
		if b != '\n' {
			t.cur = append(t.cur, b)
			continue
		}
		t.lines++
		line := t.cur
		t.cur = nil
		if t.keep != nil {
			t.keep.Write(line)
			t.keep.WriteByte('\n')
		}
		if bytes.HasPrefix(line, []byte("vm ")) {
			t.steps++
			t.scanVM(line)
			if t.track {
				t.trackVM(line)
			}
			t.sinceVM = nil
			if t.keepSteps {
				t.vmLines = append(t.vmLines, string(line))
			}
			if t.budget > 0 && t.steps > t.budget {
				t.fired = true
				panic("verif watchdog")
			}
		} else if bytes.HasPrefix(line, []byte("  stack ")) {
			i := bytes.IndexByte(line, ':')
			item, _ := hex.DecodeString(string(bytes.TrimSpace(line[i+1:])))
			if bytes.HasPrefix(line, []byte("  stack 0:")) {
				t.lastDump = nil
				t.sinceVM = nil
			}
			t.lastDump = append(t.lastDump, item)
			t.sinceVM = append(t.sinceVM, item)
		}
	}
	return len(p), nil
}

// scanVM looks at every instruction line: negative run limits, the largest depth-0 run limit, and
// the occurrences of the KNOWN gas-inflation mechanism (a child-VM instruction that pushes an unpaid
// context item with deferred cost and then fails in the deferred charge: 1 <= limit <= 8+len(item)).
func (t *traceSink) scanVM(line []byte) {
	f := strings.Fields(string(line))
	if len(f) < 7 {
		return
	}
	depth, _ := strconv.Atoi(f[1])
	limit, _ := strconv.ParseInt(f[5], 10, 64)
	if limit < t.minLimit {
		t.minLimit = limit
		t.minLine = string(line)
	}
	if depth == 0 {
		if limit > t.maxLimit0 {
			t.maxLimit0 = limit
		}
		return
	}
	if c, ok := t.unpaidLen[f[6]]; ok && limit >= 1 && limit <= c {
		t.allowance += c
		t.cpAllow += c
		t.knownEvent++
	}
}

// trackVM is called for every instruction line, before sinceVM is reset.
func (t *traceSink) trackVM(line []byte) {
	f := strings.Fields(string(line)) // vm D pc P limit L OP [data]
	if len(f) < 7 {
		return
	}
	depth, _ := strconv.Atoi(f[1])
	limit, _ := strconv.ParseInt(f[5], 10, 64)
	op := f[6]
	if depth != 0 {
		t.childSeen = true
		t.prevDepth = depth
		return
	}
	// the previous depth-0 instruction completed: its dump (if any) is in sinceVM
	if t.prevValid {
		if !strings.HasPrefix(t.prevOp, "NOPx") {
			t.curStack = t.sinceVM
		}
		phi := limit + stackCostOf(t.curStack)
		t.phiReports = append(t.phiReports, phiReport{t.prevOp, t.prevPhi - phi, t.childSeen, t.cpAllow})
	}
	t.cpAllow = 0
	t.prevPhi = limit + stackCostOf(t.curStack)
	t.prevOp = op
	t.prevValid = true
	t.childSeen = false
	t.prevDepth = 0
}

// traceOps scans a kept TraceOut text and calls fn(op, before, after) for every depth-0 instruction
// that completed (before / after = the depth-0 data stack, top first, as hex strings); the first
// non-empty answer is returned.  `args` is the initial stack (bottom first).  The last instruction of
// the run counts as completed only if a stack dump follows it.
func traceOps(text string, args [][]byte, fn func(op string, before, after []string) string) string {
	var stack0, cur []string
	for i := len(args) - 1; i >= 0; i-- {
		stack0 = append(stack0, fmt.Sprintf("%x", args[i]))
	}
	pending := ""
	check := func() string {
		if pending == "" {
			return ""
		}
		next := cur
		if strings.HasPrefix(pending, "NOPx") {
			next = stack0
		}
		bad := fn(pending, stack0, next)
		stack0 = next
		return bad
	}
	lines := strings.Split(text, "\n")
	for idx, ln := range lines {
		if strings.HasPrefix(ln, "vm ") {
			f := strings.Fields(ln)
			if f[1] != "0" {
				cur = nil
				continue
			}
			if bad := check(); bad != "" {
				return bad
			}
			pending = f[6]
			cur = nil
		} else if strings.HasPrefix(ln, "  stack ") {
			if strings.HasPrefix(ln, "  stack 0:") {
				cur = nil
			}
			i := strings.IndexByte(ln, ':')
			cur = append(cur, strings.TrimSpace(ln[i+1:]))
		}
		if idx == len(lines)-1 && len(cur) > 0 {
			if bad := check(); bad != "" {
				return bad
			}
		}
	}
	return ""
}

// stackBelowCheck: after every completed depth-0 instruction whose opcode is in `arity` (it pops
// arity[op] items and pushes one), the items below the result must be exactly the previous
// depth-0 stack minus the operands.
func stackBelowCheck(text string, args [][]byte, arity map[string]int) string {
	return traceOps(text, args, func(op string, before, after []string) string {
		if k, ok := arity[op]; ok && len(before) >= k && len(after) >= 1 {
			if strings.Join(before[k:], ",") != strings.Join(after[1:], ",") {
				return fmt.Sprintf("before %s: [%s]  after: [%s]", op, strings.Join(before, ","), strings.Join(after, ","))
			}
		}
		return ""
	})
}

// equalCheck: EQUAL pushes true iff its two operands are the same byte string (same length, same
// bytes); an EQUALVERIFY that lets the program continue had equal operands.
func equalCheck(text string, args [][]byte) string {
	return traceOps(text, args, func(op string, before, after []string) string {
		if len(before) < 2 {
			return ""
		}
		same := before[0] == before[1]
		switch op {
		case "EQUAL":
			if len(after) >= 1 && (after[0] == "01") != same {
				return fmt.Sprintf("EQUAL on [%s] and [%s] pushed [%s]", before[1], before[0], after[0])
			}
		case "EQUALVERIFY":
			if !same && strings.Join(before[2:], ",") == strings.Join(after, ",") {
				return fmt.Sprintf("EQUALVERIFY on [%s] and [%s] did not fail", before[1], before[0])
			}
		}
		return ""
	})
}

// malleate returns the twin R || (S + L) of an Ed25519 signature R || S (L = the group order):
// the same group equation holds, but a verifier that checks S < L must reject it.
func malleate(sig []byte) []byte {
	if len(sig) != 64 {
		return cp(sig)
	}
	l, _ := new(big.Int).SetString("7237005577332262213973186563042994240857116359379907606001950938285454250989", 10)
	s := new(big.Int).Add(leToBig(sig[32:]), l)
	b := leBytes(s)
	if len(b) > 32 {
		return cp(sig)
	}
	out := make([]byte, 64)
	copy(out, sig[:32])
	copy(out[32:], b)
	return out
}

type vmResult struct {
	line     string
	class    string
	gasLeft  int64
	watchdog bool
	sink     *traceSink
	ctx      *vm.Context
}

// runVMContext runs the real vm.Verify on an already built context.
func runVMContext(ctx *vm.Context, limit int64, keepText bool) vmResult {
	sink := &traceSink{hash: 14695981039346656037, budget: vmStepBudget(limit)}
	if keepText {
		sink.keep = &bytes.Buffer{}
	}
	vm.TraceOut = sink
	gasLeft, err := vm.Verify(ctx, limit)
	vm.TraceOut = nil
	r := vmResult{class: vmErrClass(err), gasLeft: gasLeft, sink: sink, ctx: ctx}
	if sink.fired {
		r.watchdog = true
		r.line = "watchdog"
		return r
	}
	last := "."
	if len(sink.lastDump) > 0 {
		last = hxList(sink.lastDump)
	}
	r.line = fmt.Sprintf("%s %d %d %d %s", r.class, gasLeft, sink.lines, sink.hash, last)
	return r
}

func runVMCase(k *vmCase) vmResult { return runVMContext(k.context(), k.limit, false) }

// ---- Ed25519 material

type vmKey struct {
	pub  ed25519.PublicKey
	priv ed25519.PrivateKey
}

func vmKeys(n int) []vmKey {
	out := make([]vmKey, n)
	for i := range out {
		seed := bytes.Repeat([]byte{byte(i + 1)}, 32)
		priv := ed25519.NewKeyFromSeed(seed)
		out[i] = vmKey{priv.Public().(ed25519.PublicKey), priv}
	}
	return out
}

// sigTable computes the oracle table: every (pk,msg,sig) among the given byte strings
// (32,32,64 bytes) for which the real ed25519.Verify answers true.
func sigTable(items [][]byte) [][3][]byte {
	var pks, sgs [][]byte
	seen := map[string]bool{}
	for _, it := range items {
		key := string(it)
		if seen[key] {
			continue
		}
		seen[key] = true
		if len(it) == 32 {
			pks = append(pks, it)
		}
		if len(it) == 64 {
			sgs = append(sgs, it)
		}
	}
	var out [][3][]byte
	if len(sgs) == 0 {
		return nil
	}
	for _, pk := range pks {
		for _, msg := range pks {
			for _, sg := range sgs {
				if ed25519.Verify(ed25519.PublicKey(pk), msg, sg) {
					out = append(out, [3][]byte{pk, msg, sg})
				}
			}
		}
	}
	return out
}

// pushes of a program at top level (best effort, for the oracle table)
func programPushes(code []byte) [][]byte {
	var out [][]byte
	for pc := uint32(0); pc < uint32(len(code)); {
		inst, err := vm.ParseOp(code, pc)
		if err != nil {
			break
		}
		if len(inst.Data) > 0 {
			out = append(out, inst.Data)
		}
		pc += inst.Len
	}
	return out
}

func (k *vmCase) fillSigs() {
	items := append([][]byte{}, k.args...)
	items = append(items, k.state...)
	items = append(items, programPushes(k.code)...)
	if k.sigHash != nil {
		items = append(items, *k.sigHash)
	}
	if k.assetID != nil {
		items = append(items, *k.assetID)
	}
	if k.spentOutputID != nil {
		items = append(items, *k.spentOutputID)
	}
	items = append(items, k.entryID)
	// nested pushes (predicates)
	for _, it := range append([][]byte{}, items...) {
		if len(it) > 33 && len(it) != 64 {
			items = append(items, programPushes(it)...)
		}
	}
	k.sigs = sigTable(items)
}

// ---- numbers

func leBytes(n *big.Int) []byte {
	b := n.Bytes() // big endian, minimal
	for i, j := 0, len(b)-1; i < j; i, j = i+1, j-1 {
		b[i], b[j] = b[j], b[i]
	}
	return b
}

func leToBig(b []byte) *big.Int {
	r := make([]byte, len(b))
	for i := range b {
		r[len(b)-1-i] = b[i]
	}
	return new(big.Int).SetBytes(r)
}

func pow2(k uint) *big.Int { return new(big.Int).Lsh(big.NewInt(1), k) }

// vmBoundaryNumbers: encodings around 0, 2^63, 2^64, 2^255, 2^256 plus non-minimal and over-long forms.
func vmBoundaryNumbers() [][]byte {
	var out [][]byte
	add := func(n *big.Int) { out = append(out, leBytes(n)) }
	for _, v := range []int64{0, 1, 2, 3, 7, 8, 16, 31, 32, 33, 63, 64, 65, 127, 128, 255, 256, 257, 65535, 65536} {
		add(big.NewInt(v))
	}
	for _, k := range []uint{31, 32, 62, 63, 64, 127, 128, 254, 255} {
		p := pow2(k)
		add(new(big.Int).Sub(p, big.NewInt(1)))
		add(p)
		add(new(big.Int).Add(p, big.NewInt(1)))
	}
	add(new(big.Int).Sub(pow2(256), big.NewInt(1)))
	add(new(big.Int).Sub(pow2(256), big.NewInt(2)))
	out = append(out, []byte{0}, []byte{0, 0}, []byte{1, 0}, []byte{1, 0, 0, 0, 0, 0, 0, 0, 0}, bytes.Repeat([]byte{0}, 32),
		bytes.Repeat([]byte{0}, 33), append(bytes.Repeat([]byte{0}, 32), 1), bytes.Repeat([]byte{0xff}, 33),
		append([]byte{5}, bytes.Repeat([]byte{0}, 32)...), append(bytes.Repeat([]byte{0xff}, 31), 0x7f), append(bytes.Repeat([]byte{0}, 31), 0x80))
	return out
}
