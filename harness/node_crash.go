//go:build hnode || hall

package main

// Crash layer of the node-history engine (C19): the crash-free run of a history is recorded
// as a log of storage writes (every Set / Delete / batch commit in order); for EVERY prefix
// of that log a database holding exactly that prefix is built, the node is restarted on it,
// and the remaining events are delivered again.

import (
	"fmt"
	"os"
	"strings"

	dbm "github.com/bytom/bytom/database/leveldb"
)

type kvWrite struct {
	key   []byte
	value []byte // nil = delete
}

// logDB forwards to an inner DB and records every write operation (a batch is one operation).
type logDB struct {
	dbm.DB
	log [][]kvWrite
}

func cp(b []byte) []byte { return append([]byte{}, b...) }

func (l *logDB) Set(k, v []byte) {
	l.log = append(l.log, []kvWrite{{cp(k), cp(v)}})
	l.DB.Set(cp(k), cp(v))
}
func (l *logDB) SetSync(k, v []byte) { l.Set(k, v) }
func (l *logDB) Delete(k []byte) {
	l.log = append(l.log, []kvWrite{{cp(k), nil}})
	l.DB.Delete(cp(k))
}
func (l *logDB) DeleteSync(k []byte) { l.Delete(k) }
func (l *logDB) NewBatch() dbm.Batch  { return &logBatch{db: l} }

type logBatch struct {
	db  *logDB
	ops []kvWrite
}

func (b *logBatch) Set(k, v []byte) { b.ops = append(b.ops, kvWrite{cp(k), cp(v)}) }
func (b *logBatch) Delete(k []byte) { b.ops = append(b.ops, kvWrite{cp(k), nil}) }
func (b *logBatch) Write() {
	b.db.log = append(b.db.log, b.ops)
	inner := b.db.DB.NewBatch()
	for _, o := range b.ops {
		if o.value == nil {
			inner.Delete(o.key)
		} else {
			inner.Set(o.key, o.value)
		}
	}
	inner.Write()
	b.ops = nil
}

func dbFromLog(log [][]kvWrite) dbm.DB {
	db := dbm.NewMemDB()
	for _, op := range log {
		for _, w := range op {
			if w.value == nil {
				db.Delete(w.key)
			} else {
				db.Set(cp(w.key), cp(w.value))
			}
		}
	}
	return db
}

type nodeEvent struct {
	kind       string // deliver | vote
	name       string
	sups       []supSpec
	order      int
	src, tgt   string
	valid      bool
	logLenPost int // length of the write log after the event (crash-free run)
	dumpPost   string
}

func (nc *nodeCase) segs(d string, keys ...string) string {
	var out []string
	for _, f := range strings.Fields(d) {
		for _, k := range keys {
			if strings.HasPrefix(f, k+"=") {
				if k == "main" { // the printed index is padded to the highest height known so far
					for strings.HasSuffix(f, ",-") {
						f = strings.TrimSuffix(f, ",-")
					}
				}
				out = append(out, f)
			}
		}
	}
	return strings.Join(out, " ")
}

// runCrashPoints: nc.events / nc.crashLog were recorded on the crash-free run.
func (nc *nodeCase) runCrashPoints(maxPoints int) {
	c := nc.c
	log := nc.crashLog.log
	finalDump := nc.events[len(nc.events)-1].dumpPost
	chainKeys := []string{"best", "main", "utxo", "contracts"}
	// states the crash-free node passed through (chain-status level)
	passed := map[string]bool{nc.segs(nc.dumpAfterInit, chainKeys...): true}
	for _, e := range nc.events {
		passed[nc.segs(e.dumpPost, chainKeys...)] = true
	}
	step := 1
	if len(log) > maxPoints {
		step = (len(log) + maxPoints - 1) / maxPoints
	}
	origSut := nc.sut
	defer func() { nc.sut = origSut }()
	for k := 0; k < len(log); k += step {
		// which event was interrupted by a crash after k writes?
		j := 0
		for j < len(nc.events) && nc.events[j].logLenPost <= k {
			j++
		}
		if j >= len(nc.events) {
			break
		}
		c.Count("crash-points")
		where := fmt.Sprintf("crash after write %d of %d (during event %d: %s %s)", k, len(log), j, nc.events[j].kind, nc.events[j].name+nc.events[j].tgt)
		n := &node{env: nc.env, db: dbFromLog(log[:k])}
		err := n.reopen()
		if err != nil {
			c.Fail("C19:restart-fails", where+": restart on the surviving writes fails: "+firstWords(err.Error(), 12))
			c.Extra["crash_restart_failures"] = fmt.Sprint(c.Extra["crash_restart_failures"], " ", k)
			continue
		}
		nc.sut = n
		d := nc.dump("ok")
		if !passed[nc.segs(d, chainKeys...)] {
			c.Fail("C19:recovered-state-never-passed", where+": recovered "+nc.segs(d, chainKeys...)+" is not a state of the crash-free run")
		}
		// deliver everything again: the interrupted event, the ones after it, and the earlier
		// ones too (blocks that were waiting in the in-memory orphan pool died with the process;
		// re-delivery of what is already stored must be harmless)
		bad := false
		for _, e := range nc.events {
			r := nc.applyEvent(n, e)
			if os.Getenv("CRASHDBG") == fmt.Sprintf("%d:%d", len(log), k) {
				fmt.Fprintln(os.Stderr, "DBG", e.kind, e.name, e.src, e.tgt, r, nc.segs(nc.dump(r), "best", "just", "tree"))
			}
			if r == "panic" {
				c.Fail("C19:redelivery-panics", where+": re-delivering "+e.kind+" "+e.name+e.tgt+" panics")
				bad = true
				break
			}
		}
		if bad {
			continue
		}
		n.quiesce()
		d2 := nc.dump("ok")
		if nc.segs(d2, chainKeys...) != nc.segs(finalDump, chainKeys...) {
			c.Fail("C19:redelivery-diverges", where+": after re-delivery "+nc.segs(d2, "best", "main")+" but the crash-free run ends with "+nc.segs(finalDump, "best", "main"))
		} else if nc.segs(d2, "just") != nc.segs(finalDump, "just") {
			c.Fail("C19:redelivery-justified-differs", where+": after re-delivery "+nc.segs(d2, "fin", "just")+" but the crash-free run ends with "+nc.segs(finalDump, "fin", "just"))
		} else if nc.segs(d2, "fin") != nc.segs(finalDump, "fin") {
			c.Fail("C19:redelivery-finalized-differs", where+": after re-delivery "+nc.segs(d2, "fin", "just")+" but the crash-free run ends with "+nc.segs(finalDump, "fin", "just"))
		}
	}
}

// applyEvent delivers one recorded event to node n (no op lines, no oracles).
func (nc *nodeCase) applyEvent(n *node, e nodeEvent) (res string) {
	defer func() {
		if rec := recover(); rec != nil {
			res = "panic"
		}
	}()
	switch e.kind {
	case "deliver":
		b := cloneBlock(nc.nm.blocks[e.name])
		for _, sp := range e.sups {
			srcHash := nc.unknownHash(sp.src)
			if sb, ok := nc.nm.blocks[sp.src]; ok {
				srcHash = sb.Hash()
			}
			msg := nc.env.voteMsg(sp.order, srcHash, b.Hash(), sp.valid)
			b.SupLinks.AddSupLink(sp.srcHeight, srcHash, msg.Signature, sp.order)
		}
		_, err := n.chain.VerifNodeProcessBlock(b)
		if err != nil {
			return "err"
		}
	case "vote":
		msg := nc.env.voteMsg(e.order, nc.nm.blocks[e.src].Hash(), nc.nm.blocks[e.tgt].Hash(), e.valid)
		if err := n.chain.ProcessBlockVerification(msg); err != nil {
			return "err"
		}
	}
	return "ok"
}

func genCaseCrash(c *Ctx, mode string) {
	rng := c.Rng
	// mostly finality histories on short epochs; sometimes a ledger history
	if rng.Intn(4) == 0 {
		recordCrashCase = true
		defer func() { recordCrashCase = false }()
		genCaseLedger(c, "crash")
		return
	}
	recordCrashCase = true
	defer func() { recordCrashCase = false }()
	genCaseTree(c, "crash")
}

// recordCrashCase makes newNodeCase run the node under test on a write-logging MemDB and
// record its events, and makes the case end with the crash-point enumeration.
var recordCrashCase bool
