//go:build hnode || hall

package main

// Crash layer of the node-history engine (C19): the crash-free run of a history is recorded
// as a log of storage writes (every Set / Delete / batch commit in order); for EVERY prefix
// of that log a database holding exactly that prefix is built, the node is restarted on it,
// and the remaining events are delivered again.

import (
	"fmt"
	"github.com/bytom/bytom/protocol/state"
	"os"
	"strings"
	"time"

	dbm "github.com/bytom/bytom/database/leveldb"
)

type kvWrite struct {
	key   []byte
	value []byte // nil = delete
}

// logDB forwards to an inner DB and records every write operation (a batch is one operation).
type logDB struct {
	dbm.DB
	log [][]kvWrite
}

func cp(b []byte) []byte { return append([]byte{}, b...) }

func (l *logDB) Set(k, v []byte) {
	l.log = append(l.log, []kvWrite{{cp(k), cp(v)}})
	l.DB.Set(cp(k), cp(v))
}
func (l *logDB) SetSync(k, v []byte) { l.Set(k, v) }
func (l *logDB) Delete(k []byte) {
	l.log = append(l.log, []kvWrite{{cp(k), nil}})
	l.DB.Delete(cp(k))
}
func (l *logDB) DeleteSync(k []byte) { l.Delete(k) }
func (l *logDB) NewBatch() dbm.Batch { return &logBatch{db: l} }

type logBatch struct {
	db  *logDB
	ops []kvWrite
}

func (b *logBatch) Set(k, v []byte) { b.ops = append(b.ops, kvWrite{cp(k), cp(v)}) }
func (b *logBatch) Delete(k []byte) { b.ops = append(b.ops, kvWrite{cp(k), nil}) }
func (b *logBatch) Write() {
	b.db.log = append(b.db.log, b.ops)
	inner := b.db.DB.NewBatch()
	for _, o := range b.ops {
		if o.value == nil {
			inner.Delete(o.key)
		} else {
			inner.Set(o.key, o.value)
		}
	}
	inner.Write()
	b.ops = nil
}

func dbFromLog(log [][]kvWrite) dbm.DB {
	db := dbm.NewMemDB()
	for _, op := range log {
		for _, w := range op {
			if w.value == nil {
				db.Delete(w.key)
			} else {
				db.Set(cp(w.key), cp(w.value))
			}
		}
	}
	return db
}

type nodeEvent struct {
	kind       string // deliver | vote
	name       string
	sups       []supSpec
	order      int
	src, tgt   string
	valid      bool
	logLenPost int // length of the write log after the event (crash-free run)
	dumpPost   string
}

func (nc *nodeCase) segs(d string, keys ...string) string {
	var out []string
	// height of the best block of this dump: index entries ABOVE it are left-overs of earlier
	// branches (InMainChain and the by-height getters ignore them since fix a1a69149) and are
	// not part of the chain state
	bestH := -1
	for _, f := range strings.Fields(d) {
		if strings.HasPrefix(f, "best=") {
			if b := nc.nm.blocks[strings.TrimPrefix(f, "best=")]; b != nil {
				bestH = int(b.Height)
			}
		}
	}
	for _, f := range strings.Fields(d) {
		for _, k := range keys {
			if strings.HasPrefix(f, k+"=") {
				if k == "main" { // the printed index is padded to the highest height known so far
					for strings.HasSuffix(f, ",-") {
						f = strings.TrimSuffix(f, ",-")
					}
					if parts := strings.Split(strings.TrimPrefix(f, "main="), ","); bestH >= 0 && len(parts) > bestH+1 {
						f = "main=" + strings.Join(parts[:bestH+1], ",")
					}
				}
				out = append(out, f)
			}
		}
	}
	return strings.Join(out, " ")
}

// runCrashPoints: nc.events / nc.crashLog were recorded on the crash-free run.
func (nc *nodeCase) runCrashPoints(maxPoints int) {
	c := nc.c
	log := nc.crashLog.log
	finalDump := nc.events[len(nc.events)-1].dumpPost
	chainKeys := []string{"best", "main", "utxo", "contracts"}
	// states the crash-free node passed through (chain-status level)
	passed := map[string]bool{nc.segs(nc.dumpAfterInit, chainKeys...): true}
	for _, e := range nc.events {
		passed[nc.segs(e.dumpPost, chainKeys...)] = true
	}
	step := 1
	if len(log) > maxPoints {
		step = (len(log) + maxPoints - 1) / maxPoints
	}
	origSut := nc.sut
	defer func() { nc.sut = origSut }()
	for k := 0; k < len(log); k += step {
		// which event was interrupted by a crash after k writes?
		j := 0
		for j < len(nc.events) && nc.events[j].logLenPost <= k {
			j++
		}
		if j >= len(nc.events) {
			break
		}
		c.Count("crash-points")
		where := fmt.Sprintf("crash after write %d of %d (during event %d: %s %s)", k, len(log), j, nc.events[j].kind, nc.events[j].name+nc.events[j].tgt)
		evalPoint := func() (sgOut string, detailOut string) {
			defer func() {
				if rec := recover(); rec != nil {
					sgOut, detailOut = "C19:recovered-node-panics", where+": the node restarted on the surviving writes panics: "+firstWords(fmt.Sprint(rec), 14)
				}
			}()
			n := &node{env: nc.env, db: dbFromLog(log[:k])}
			err := n.reopen()
			if err != nil {
				return "C19:restart-fails", where + ": restart on the surviving writes fails: " + firstWords(err.Error(), 12)
			}
			nc.sut = n
			d := nc.dump("ok")
			if !passed[nc.segs(d, chainKeys...)] {
				return "C19:recovered-state-never-passed", where + ": recovered " + nc.segs(d, chainKeys...) + " is not a state of the crash-free run"
			}
			// deliver everything again: the interrupted event, the ones after it, and the earlier
			// ones too (blocks that were waiting in the in-memory orphan pool died with the process;
			// re-delivery of what is already stored must be harmless)
			bad := false
			var badSig, badDetail string
			// blocks that were (re-)delivered while the node's best block was LOWER than they are:
			// these do not take the "already processed" exit of processBlock, they are saved and
			// applied to the checkpoint tree again
			resaved := map[string]bool{}
			for _, e := range nc.events {
				if e.kind == "deliver" {
					if b := nc.nm.blocks[e.name]; b != nil && b.Height > n.chain.BestBlockHeight() {
						resaved[e.name] = true
					}
				}
				r := nc.applyEvent(n, e)
				if os.Getenv("CRASHDBG") == fmt.Sprintf("%d:%d", len(log), k) {
					fmt.Fprintln(os.Stderr, "DBG", e.kind, e.name, e.src, e.tgt, r, nc.segs(nc.dump(r), "best", "just", "tree"))
				}
				if r == "panic" {
					badSig, badDetail = "C19:redelivery-panics", where+": re-delivering "+e.kind+" "+e.name+e.tgt+" panics"
					bad = true
					break
				}
			}
			if bad {
				return badSig, badDetail
			}
			n.quiesce()
			d2 := nc.dump("ok")
			if nc.segs(d2, "best", "main", "just", "fin") != nc.segs(finalDump, "best", "main", "just", "fin") {
				// the cached-verification loop of the node runs asynchronously: give it time to
				// settle before a difference is believed
				time.Sleep(50 * time.Millisecond)
				n.quiesce()
				d2 = nc.dump("ok")
			}
			ledgerOf := func(d string) string {
				return normUtxoDump(nc.segs(d, "utxo")) + " " + nc.segs(d, "contracts")
			}
			if nc.segs(d2, "best", "main") != nc.segs(finalDump, "best", "main") {
				// sub-class: the stored best block lags behind the node's own fork choice
				sg := "C19:redelivery-diverges"
				if bh := n.chain.BestBlockHeader(); bh != nil && bh.Hash() != n.chain.VerifNodeCasper().BestChain() {
					sg += ":best-behind-fork-choice"
				} else if nc.storedButNotInTree(n, strings.TrimPrefix(nc.segs(finalDump, "best"), "best=")) {
					// F34b: the blocks of a NON-best branch past its last checkpoint are stored but
					// are not put back into the checkpoint tree by a restart (and re-delivery takes the
					// "already processed" exit), so the fork choice cannot select that branch's tip
					sg += ":stored-tail-not-in-tree"
					// ... which is F34b only when the re-delivery of that tip took the "already processed"
					// exit: a stored block ABOVE the best height at the time it is re-delivered is saved
					// and applied to the checkpoint tree again
					if resaved[strings.TrimPrefix(nc.segs(finalDump, "best"), "best=")] {
						sg += ":although-resaved"
					}
				}
				return sg, where + ": after re-delivery " + nc.segs(d2, "best", "main") + " but the crash-free run ends with " + nc.segs(finalDump, "best", "main")
			} else if ledgerOf(d2) != ledgerOf(finalDump) {
				return "C19:redelivery-ledger-differs", where + ": best/main agree but the ledger after re-delivery is " + ledgerOf(d2) + " and the crash-free run ends with " + ledgerOf(finalDump)
			} else if nc.segs(d2, "just") != nc.segs(finalDump, "just") && nc.storedButNotInTree(n, strings.TrimPrefix(nc.segs(finalDump, "just"), "just=")) {
				return "C19:redelivery-justified-differs:stored-tail-not-in-tree", where + ": after re-delivery " + nc.segs(d2, "fin", "just") + " but the crash-free run ends with " + nc.segs(finalDump, "fin", "just")
			} else if nc.segs(d2, "just") != nc.segs(finalDump, "just") {
				return "C19:redelivery-justified-differs", where + ": after re-delivery " + nc.segs(d2, "fin", "just") + " but the crash-free run ends with " + nc.segs(finalDump, "fin", "just")
			} else if nc.segs(d2, "fin") != nc.segs(finalDump, "fin") {
				// F12f is specific: the checkpoint RECORD of the expected finalized checkpoint is
				// Finalized in the store, only the finalized hash of the chain status is stale. A
				// finalization that is lost in the checkpoint records themselves is another matter.
				sg := "C19:redelivery-finalized-differs"
				want := strings.TrimPrefix(nc.segs(finalDump, "fin"), "fin=")
				if wb := nc.nm.blocks[want]; wb != nil {
					h := wb.Hash()
					if cp, err := n.store.GetCheckpoint(&h); err == nil && cp.Status == state.Finalized {
						sg += ":status-hash-stale"
					}
				}
				return sg, where + ": after re-delivery " + nc.segs(d2, "fin", "just") + " but the crash-free run ends with " + nc.segs(finalDump, "fin", "just")
			}
			return "", ""
		}
		sg, detail := evalPoint()
		if sg != "" && sg != "C19:restart-fails" {
			// a difference is believed only when a second, independent re-run of the same crash
			// point (fresh node from the same surviving writes) shows it again: the node's
			// background loops make single observations timing-dependent under load
			if sg2, detail2 := evalPoint(); sg2 != sg {
				c.Count("crash-point-difference-not-reproduced:" + sg)
				sg, detail = sg2, detail2
				if sg != "" && sg != "C19:restart-fails" {
					sg = ""
				}
			}
		}
		if sg == "C19:restart-fails" {
			c.Extra["crash_restart_failures"] = fmt.Sprint(c.Extra["crash_restart_failures"], " ", k)
		}
		if sg != "" {
			c.Fail(sg, detail)
		}
	}
}

// applyEvent delivers one recorded event to node n (no op lines, no oracles).
func (nc *nodeCase) applyEvent(n *node, e nodeEvent) (res string) {
	defer func() {
		if rec := recover(); rec != nil {
			res = "panic"
		}
	}()
	switch e.kind {
	case "deliver":
		b := cloneBlock(nc.nm.blocks[e.name])
		for _, sp := range e.sups {
			srcHash := nc.unknownHash(sp.src)
			if sb, ok := nc.nm.blocks[sp.src]; ok {
				srcHash = sb.Hash()
			}
			msg := nc.env.voteMsg(sp.order, srcHash, b.Hash(), sp.valid)
			b.SupLinks.AddSupLink(sp.srcHeight, srcHash, msg.Signature, sp.order)
		}
		_, err := n.chain.VerifNodeProcessBlock(b)
		n.quiesce()
		if err != nil {
			return "err"
		}
	case "vote":
		msg := nc.env.voteMsg(e.order, nc.nm.blocks[e.src].Hash(), nc.nm.blocks[e.tgt].Hash(), e.valid)
		if err := n.chain.ProcessBlockVerification(msg); err != nil {
			return "err"
		}
	}
	return "ok"
}

func genCaseCrash(c *Ctx, mode string) {
	rng := c.Rng
	// mostly finality histories on short epochs; sometimes a ledger history
	if rng.Intn(4) == 0 {
		recordCrashCase = true
		defer func() { recordCrashCase = false }()
		genCaseLedger(c, "crash")
		return
	}
	recordCrashCase = true
	defer func() { recordCrashCase = false }()
	genCaseTree(c, "crash")
}

// recordCrashCase makes newNodeCase run the node under test on a write-logging MemDB and
// record its events, and makes the case end with the crash-point enumeration.
var recordCrashCase bool

// storedButNotInTree: block `name` is in the node's store, but no node of the checkpoint tree
// carries its hash (the tree node of an epoch carries the hash of the epoch's latest block).
func (nc *nodeCase) storedButNotInTree(n *node, name string) bool {
	b := nc.nm.blocks[name]
	if b == nil {
		return false
	}
	h := b.Hash()
	if _, err := n.store.GetBlockHeader(&h); err != nil {
		return false
	}
	for _, t := range n.chain.VerifNodeCasper().VerifNodeTree() {
		if t.Hash == h {
			return false
		}
	}
	return true
}
