//go:build hc14 || hall

package main

import (
	"encoding/hex"
	"fmt"
	"math/big"
	"sort"
	"strconv"
	"strings"

	"github.com/bytom/bytom/consensus"
	"github.com/bytom/bytom/database/storage"
	"github.com/bytom/bytom/proposal"
	"github.com/bytom/bytom/protocol"
	"github.com/bytom/bytom/protocol/bc"
	"github.com/bytom/bytom/protocol/bc/types"
	"github.com/bytom/bytom/protocol/casper"
	"github.com/bytom/bytom/protocol/state"
	"github.com/bytom/bytom/protocol/validation"
)

// C14: coinbase rewards are exact and create no extra money.
//
// The node engine of DESIGN.md does not exist; the real functions are driven directly:
//   * state.NewCheckpoint / Checkpoint.Increase (applyVotes + applyValidatorReward) over real
//     blocks spanning several epochs;
//   * validation.checkCoinbaseAmount (hook VerifCheckCoinbaseAmount) on real blocks against
//     the previous epoch's checkpoint;
//   * proposal.createCoinbaseTx (hook VerifCreateCoinbaseTx) on a Chain whose finality engine
//     reads headers and the checkpoint from an in-memory state.Store of the harness.
// Op syntax: lean/BytomModel/Drv/C14.lean.
//
// Direct oracle (implementation only):
//   (a) Increase adds to Rewards[program of the block's first output] exactly
//       sum of the transactions' fees + subsidy (uint64) — fees computed by the harness as inputs
//       minus ALL outputs incl. retirement / contract-registration outputs (and TxData.Fee()
//       must agree with that) —, touches no other entry,
//       BlockReward/2 <= subsidy <= BlockReward, and subsidy == the value recomputed
//       independently from the vote table after the block (total votes, supply, same formula);
//   (b) a coinbase accepted by checkCoinbaseAmount pays nothing unless height%epoch == 1, and
//       then per program exactly the checkpoint's reward table (nothing else, nothing less);
//   (c) the proposer's own coinbase is accepted by checkCoinbaseAmount, for every table;
//   (d) over a whole history: total paid by accepted first-of-epoch coinbases == total of
//       (fees + subsidy) accumulated in the previous epochs.

type c14store struct {
	headers map[bc.Hash]*types.BlockHeader
	cp      *state.Checkpoint
}

func (s *c14store) BlockExist(*bc.Hash) bool                { return false }
func (s *c14store) GetBlock(*bc.Hash) (*types.Block, error) { return nil, fmt.Errorf("no block") }
func (s *c14store) GetBlockHeader(h *bc.Hash) (*types.BlockHeader, error) {
	if bh, ok := s.headers[*h]; ok {
		return bh, nil
	}
	return nil, fmt.Errorf("no header")
}
func (s *c14store) GetStoreStatus() *state.BlockStoreState                          { return nil }
func (s *c14store) GetTransactionsUtxo(*state.UtxoViewpoint, []*bc.Tx) error        { return nil }
func (s *c14store) GetUtxo(*bc.Hash) (*storage.UtxoEntry, error)                    { return nil, nil }
func (s *c14store) GetMainChainHash(uint64) (*bc.Hash, error)                       { return nil, nil }
func (s *c14store) GetContract(hash [32]byte) ([]byte, error)                       { return nil, nil }
func (s *c14store) GetCheckpoint(*bc.Hash) (*state.Checkpoint, error)               { return s.cp, nil }
func (s *c14store) CheckpointsFromNode(uint64, *bc.Hash) ([]*state.Checkpoint, error) { return nil, nil }
func (s *c14store) GetCheckpointsByHeight(uint64) ([]*state.Checkpoint, error)      { return nil, nil }
func (s *c14store) SaveCheckpoints([]*state.Checkpoint) error                       { return nil }
func (s *c14store) SaveBlock(*types.Block) error                                    { return nil }
func (s *c14store) SaveBlockHeader(*types.BlockHeader) error                        { return nil }
func (s *c14store) SaveChainStatus(*types.BlockHeader, []*types.BlockHeader, *state.UtxoViewpoint, *state.ContractViewpoint, uint64, *bc.Hash) error {
	return nil
}

type c14state struct {
	c     *state.Checkpoint
	epoch uint64
	// history accounting for oracle (d)
	accumulated *big.Int // fees + subsidies added to reward tables so far (completed + current epoch)
	pendingPay  *big.Int // table total of the checkpoint that the next first-of-epoch block must pay
	paid        *big.Int
	owed        *big.Int
}

var c14chainCasper *casper.Casper
var c14theStore = &c14store{headers: map[bc.Hash]*types.BlockHeader{}}
var c14chain *protocol.Chain

func c14propose(st *c14state, height uint64) (outs []ecOut, res string) {
	defer func() {
		if r := recover(); r != nil {
			outs, res = nil, "panic"
		}
	}()
	if c14chain == nil {
		genesis := &state.Checkpoint{Height: 0, Status: state.Justified, Votes: map[string]uint64{}, Rewards: map[string]uint64{}}
		c14chainCasper = casper.NewCasper(c14theStore, nil, []*state.Checkpoint{genesis})
		c14chain = protocol.VerifEconChain(c14chainCasper)
	}
	// headers from the last epoch boundary up to height-1
	E := consensus.ActiveNetParams.BlocksOfEpoch
	c14theStore.cp = st.c
	c14theStore.headers = map[bc.Hash]*types.BlockHeader{}
	var prev bc.Hash
	if height == 0 {
		return nil, "panic"
	}
	base := height - 1
	if E != 0 {
		for base%E != 0 && base%E != 1 && base > 0 {
			base--
		}
	}
	prev = bc.Hash{V0: 0xc14, V1: base}
	for h := base; h <= height-1; h++ {
		bh := &types.BlockHeader{Version: 1, Height: h, PreviousBlockHash: prev, Timestamp: h + uint64(c14nonce)}
		hash := bh.Hash()
		c14theStore.headers[hash] = bh
		prev = hash
	}
	c14nonce++ // fresh hashes per call: the casper caches prev-checkpoint lookups by hash
	tx, err := proposal.VerifCreateCoinbaseTx(c14chain, height, prev)
	if err != nil {
		return nil, "err"
	}
	for _, o := range tx.Outputs {
		outs = append(outs, ecOut{amount: o.Amount, program: hex.EncodeToString(o.ControlProgram)})
	}
	return outs, ""
}

var c14nonce int

func c14canon(outs []ecOut) string {
	if len(outs) == 0 {
		return "-"
	}
	rest := append([]ecOut(nil), outs[1:]...)
	sort.SliceStable(rest, func(i, j int) bool { return rest[i].program < rest[j].program })
	return ecOuts(append([]ecOut{outs[0]}, rest...))
}

func c14check(st *c14state, height uint64, hasTx bool, outs []ecOut) (res string) {
	defer func() {
		if r := recover(); r != nil {
			res = "panic"
		}
	}()
	b := &types.Block{BlockHeader: types.BlockHeader{Version: 1, Height: height}}
	if hasTx {
		b.Transactions = []*types.Tx{ecCoinbaseTx(height, outs)}
	}
	if err := validation.VerifCheckCoinbaseAmount(b, st.c); err != nil {
		return "err"
	}
	return "ok"
}

func c14validateCoinbaseTx(height uint64, outs []ecOut) (ok bool) {
	defer func() {
		if r := recover(); r != nil {
			ok = false
		}
	}()
	tx := ecCoinbaseTx(height, outs)
	blk := &bc.Block{BlockHeader: &bc.BlockHeader{Version: 1, Height: height}, Transactions: []*bc.Tx{tx.Tx}}
	_, err := validation.ValidateTx(tx.Tx, blk, func(prog []byte) ([]byte, error) { return nil, fmt.Errorf("no converter") })
	return err == nil
}

func c14total(m map[string]uint64) *big.Int {
	t := new(big.Int)
	for _, v := range m {
		t.Add(t, new(big.Int).SetUint64(v))
	}
	return t
}

func c14line(c *Ctx, st *c14state, line string) {
	w := strings.Fields(line)
	u := func(s string) uint64 { v, _ := strconv.ParseUint(s, 10, 64); return v }
	switch w[0] {
	case "reset":
		var fed []string
		if w[5] != "-" {
			fed = strings.Split(w[5], ",")
		}
		ecSetParams(u(w[1]), u(w[2]), u(w[3]), fed)
		st.epoch = u(w[3])
		st.c = &state.Checkpoint{Votes: map[string]uint64{}, Rewards: map[string]uint64{}}
		st.accumulated, st.paid, st.owed, st.pendingPay = new(big.Int), new(big.Int), new(big.Int), nil
		c.Op(line, "ok")
	case "ckpt":
		st.c = &state.Checkpoint{Height: u(w[2]), Timestamp: u(w[3]), Status: ecStatus(w[1]), Votes: ecMap(ecParsePairs(w[4])), Rewards: ecMap(ecParsePairs(w[5]))}
		st.c.Hash = bc.Hash{V0: st.c.Height, V1: 14}
		st.pendingPay = nil
		c.Op(line, "ok")
	case "new":
		st.c = state.NewCheckpoint(st.c)
		c.Op(line, "ok")
		if len(st.c.Rewards) != 0 {
			c.Fail("NewCheckpoint starts with a non-empty reward table", ecSortedMap(st.c.Rewards))
		}
	case "apply":
		height, ts := u(w[1]), u(w[2])
		outs0 := ecParseOuts(w[4])
		txs := ecParseTxs(w[5:])
		hasCb := len(w) > 8 && w[5] == "T" && w[6] == "-" && w[7] == "-" && w[8] == "0"
		if hasCb {
			txs = txs[1:]
		}
		blk, suffix, feeMismatch := ecBlock(st.c.Hash, height, ts, outs0, hasCb, txs)
		before := map[string]uint64{}
		for k, v := range st.c.Rewards {
			before[k] = v
		}
		res := ""
		func() {
			defer func() {
				if r := recover(); r != nil {
					res = "panic"
				}
			}()
			if err := st.c.Increase(blk); err != nil {
				res = "err"
			}
		}()
		sub := uint64(0)
		var fails [][2]string
		if res == "" {
			sub = st.c.VerifValidatorReward()
			res = ecSortedMap(st.c.Rewards)
			// the exact subsidy, recomputed here from the vote table as it stands after this block
			if exp := c14exactSubsidy(st.c.Votes, st.c.Height); exp != sub {
				fails = append(fails, [2]string{"subsidy differs from the value recomputed from the vote table", fmt.Sprintf("height %d: validatorReward()=%d, recomputed from Votes=%d (votes %s)", height, sub, exp, ecSortedMap(st.c.Votes))})
			}
			// oracle (a)
			script := hex.EncodeToString(blk.Transactions[0].Outputs[0].ControlProgram)
			// fees computed by the harness itself: inputs minus ALL outputs (votes, ordinary outputs
			// and retirements / contract registrations); the coinbase transaction has none
			want := before[script]
			fees := new(big.Int)
			for _, t := range txs {
				want += t.ecFee()
				fees.Add(fees, new(big.Int).SetUint64(t.ecFee()))
			}
			if feeMismatch != "" {
				fails = append(fails, [2]string{"TxData.Fee() differs from inputs minus all outputs", feeMismatch})
			}
			want += sub
			if st.c.Rewards[script] != want {
				fails = append(fails, [2]string{"Increase: reward entry != previous + fees + subsidy", fmt.Sprintf("%s: got %d want %d (fees = inputs - all outputs incl. retirements = %s, subsidy %d)", script, st.c.Rewards[script], want, fees, sub)})
			}
			for k, v := range st.c.Rewards {
				if k != script && before[k] != v {
					fails = append(fails, [2]string{"Increase: touched another program's reward", k})
				}
			}
			if len(st.c.Rewards) != len(before) && len(st.c.Rewards) != len(before)+1 {
				fails = append(fails, [2]string{"Increase: reward table size changed unexpectedly", res})
			}
			if sub > consensus.BlockReward || sub < consensus.BlockReward/2 {
				fails = append(fails, [2]string{"validatorReward outside [BlockReward/2, BlockReward]", fmt.Sprint(sub)})
			}
			st.accumulated.Add(st.accumulated, fees)
			st.accumulated.Add(st.accumulated, new(big.Int).SetUint64(sub))
			c.Count(fmt.Sprintf("apply/subsidy=%s", c14subClass(sub)))
		}
		c.Op(fmt.Sprintf("apply %d %d %d %s", height, ts, sub, suffix), res)
		for _, f := range fails {
			c.Fail(f[0], f[1])
		}
	case "check":
		height := u(w[1])
		outs := ecParseOuts(w[3])
		res := c14check(st, height, w[2] == "1", outs)
		c.Op(line, res)
		c.Count("check/" + res)
		// the property speaks about VALID blocks: ValidateBlock also runs ValidateTx on the
		// coinbase transaction (which is what rejects output totals that wrap uint64/int64,
		// while checkoutRewardCoinbase's own `outputMap[..] +=` is unchecked). The oracle below
		// uses TRUE (math/big) sums, so it is evaluated when BOTH accept.
		txOK := false
		if res == "ok" && w[2] == "1" {
			txOK = c14validateCoinbaseTx(height, outs)
			if !txOK {
				c.Count("check/ok-but-coinbase-tx-invalid")
			}
		}
		if res == "ok" && txOK {
			// oracle (b)
			E := consensus.ActiveNetParams.BlocksOfEpoch
			total := new(big.Int)
			per := map[string]*big.Int{}
			for i, o := range outs {
				total.Add(total, new(big.Int).SetUint64(o.amount))
				if i == 0 && o.amount == 0 {
					continue
				}
				if per[o.program] == nil {
					per[o.program] = new(big.Int)
				}
				per[o.program].Add(per[o.program], new(big.Int).SetUint64(o.amount))
			}
			if height%E != 1 {
				if total.Sign() != 0 {
					c.Fail("coinbase of a block that is not first of its epoch pays", line)
				}
			} else {
				if len(per) != len(st.c.Rewards) {
					c.Fail("accepted reward coinbase pays a different set of programs than the table", line+" table="+ecSortedMap(st.c.Rewards))
				}
				for k, v := range st.c.Rewards {
					if per[k] == nil || per[k].Cmp(new(big.Int).SetUint64(v)) != 0 {
						c.Fail("accepted reward coinbase pays an amount different from the table", line+" table="+ecSortedMap(st.c.Rewards))
						break
					}
				}
			}
		}
	case "propose":
		height := u(w[1])
		outs, res := c14propose(st, height)
		var fails [][2]string
		if res == "" {
			res = c14canon(outs)
			// oracle (c)
			if v := c14check(st, height, true, outs); v != "ok" {
				fails = append(fails, [2]string{"proposer's coinbase rejected by checkCoinbaseAmount", fmt.Sprintf("height %d table=%s coinbase=%s verdict=%s", height, ecSortedMap(st.c.Rewards), res, v)})
			}
			E := consensus.ActiveNetParams.BlocksOfEpoch
			if E != 0 && height%E == 1 && height != 1 {
				c.Count("propose/payout")
				// oracle (d): what the first block of the epoch pays == everything accumulated before
				paid := new(big.Int)
				for _, o := range outs {
					paid.Add(paid, new(big.Int).SetUint64(o.amount))
				}
				if st.pendingPay != nil && paid.Cmp(st.pendingPay) != 0 {
					fails = append(fails, [2]string{"first-of-epoch coinbase total != reward table total of the previous epoch", fmt.Sprintf("paid %s owed %s", paid, st.pendingPay)})
				}
			} else {
				c.Count("propose/zero")
			}
		}
		c.Op(line, res)
		for _, f := range fails {
			c.Fail(f[0], f[1])
		}
	case "epochend":
		// bookkeeping only (no model op): the table of the finished epoch is what must be paid next
		st.pendingPay = c14total(st.c.Rewards)
		if st.accumulated != nil && st.pendingPay.Cmp(st.accumulated) != 0 {
			c.Fail("reward table total != accumulated fees + subsidies of the epoch", fmt.Sprintf("table %s accumulated %s", st.pendingPay, st.accumulated))
		}
		st.accumulated = new(big.Int)
	}
}

// c14exactSubsidy recomputes validatorReward() independently: total of the vote table (uint64,
// as the code adds it), total supply at that height, the same float64 expression.
func c14exactSubsidy(votes map[string]uint64, height uint64) uint64 {
	var total uint64
	for _, v := range votes {
		total += v
	}
	supply := height*consensus.BlockReward/2 + consensus.InitBTMSupply
	rate := float64(total) / float64(supply)
	if rate <= consensus.RewardThreshold {
		return uint64((rate + consensus.RewardThreshold) * float64(consensus.BlockReward))
	}
	return consensus.BlockReward
}

func c14subClass(s uint64) string {
	switch {
	case s == consensus.BlockReward:
		return "BlockReward"
	case s == consensus.BlockReward/2:
		return "BlockReward/2"
	default:
		return "between"
	}
}

// ---------------------------------------------------------------------------- generator

var c14scripts = []string{"51", "a1", "a2a2", "00a3", "6a"}

func c14case(c *Ctx) []string {
	var ls []string
	epoch := []uint64{2, 3, 4, 4, 5}[c.Rng.Intn(5)]
	interval := uint64(6000)
	min := uint64(100)
	ls = append(ls, fmt.Sprintf("reset %d %d %d %d %s", interval, min, epoch, consensus.MaxNumOfValidators, fmt.Sprintf("%x", make([]byte, 64))))
	// votes decide the pledge rate: none / small / around the threshold / huge
	var votes []ecPair
	switch c.Rng.Intn(5) {
	case 0:
	case 1:
		votes = []ecPair{{"01", uint64(c.Rng.Intn(1000000))}}
	case 2:
		votes = []ecPair{{"01", consensus.InitBTMSupply / 4}, {"02", consensus.InitBTMSupply / 4}}
	case 3:
		votes = []ecPair{{"01", consensus.InitBTMSupply/2 + uint64(c.Rng.Intn(1000))}, {"02", uint64(c.Rng.Intn(100000000))}}
	default:
		votes = []ecPair{{"01", c.Rng.Uint64() >> uint(c.Rng.Intn(10))}, {"02", c.Rng.Uint64() >> uint(5+c.Rng.Intn(30))}}
	}
	tally := map[string]uint64{}
	for _, v := range votes {
		tally[v.key] = v.val
	}
	startEpoch := uint64(c.Rng.Intn(3))
	height := startEpoch * epoch
	ts := uint64(1600000000000)
	ls = append(ls, fmt.Sprintf("ckpt j %d %d %s -", height, ts, ecPairs(votes)))
	if height == 0 {
		ls = append(ls, "epochend")
	}
	nEpochs := 2 + c.Rng.Intn(3)
	for e := 0; e < nEpochs; e++ {
		// first block of the new epoch: proposer's coinbase vs validator, on the finished checkpoint
		first := height + 1
		ls = append(ls, fmt.Sprintf("propose %d 51", first))
		ls = append(ls, "@checkproposed", "@mutants")
		ls = append(ls, "new")
		for b := uint64(0); b < epoch; b++ {
			height++
			ts += interval
			script := c14scripts[c.Rng.Intn(len(c14scripts))]
			if c.Rng.Intn(3) == 0 {
				script = "51"
			}
			outs0 := fmt.Sprintf("0:%s", script)
			if b == 0 {
				outs0 = "@proposed"
			} else {
				ls = append(ls, fmt.Sprintf("check %d 1 %s", height, outs0))
			}
			var sb strings.Builder
			fmt.Fprintf(&sb, "apply %d %d 0 %s T - - 0", height, ts, outs0)
			for t, nt := 0, c.Rng.Intn(4); t < nt; t++ {
				var ve, vo []ecPair
				veto := func(k string, a uint64) {
					ve = append(ve, ecPair{k, a})
					if tally[k] > a {
						tally[k] -= a
					} else {
						delete(tally, k)
					}
				}
				keys := []string{"01", "02", "03", "04"}
				switch c.Rng.Intn(6) {
				case 0:
					veto("01", uint64(c.Rng.Intn(1000)))
				case 1, 2:
					// FULL veto: takes back the whole tally of a key (the entry is deleted), mid-epoch
					k := keys[c.Rng.Intn(len(keys))]
					if tally[k] > 0 {
						veto(k, tally[k])
					}
					if c.Rng.Intn(3) == 0 {
						k2 := keys[c.Rng.Intn(len(keys))]
						if tally[k2] > 0 {
							veto(k2, tally[k2])
						}
					}
				case 3:
					// partial veto / veto above the tally
					k := keys[c.Rng.Intn(len(keys))]
					if tally[k] > 0 {
						veto(k, []uint64{tally[k] / 2, tally[k] - 1, tally[k] + 1}[c.Rng.Intn(3)])
					}
				}
				if c.Rng.Intn(3) == 0 {
					k := keys[c.Rng.Intn(len(keys))]
					a := uint64(c.Rng.Intn(100000))
					switch c.Rng.Intn(3) {
					case 0:
						a = consensus.InitBTMSupply / uint64(8+c.Rng.Intn(40))
					case 1:
						a = 1000000000000000 * uint64(1+c.Rng.Intn(30))
					}
					vo = append(vo, ecPair{k, a})
					tally[k] += a
				}
				fee := uint64(c.Rng.Intn(5000000))
				if c.Rng.Intn(5) == 0 {
					fee = 0
				}
				fmt.Fprintf(&sb, " T %s %s %d", ecPairs(ve), ecPairs(vo), fee)
				if c.Rng.Intn(3) == 0 {
					// BTM burnt by a retirement output: bare OP_FAIL, RetireProgram, or a BCRP
					// contract registration (all unspendable => Retirement entries); not a fee
					burn := []uint64{1, 30000000, 100000000, uint64(1 + c.Rng.Intn(500000000))}[c.Rng.Intn(4)]
					fmt.Fprintf(&sb, " B%d:%d", burn, c.Rng.Intn(3))
				}
			}
			ls = append(ls, sb.String())
		}
		ls = append(ls, "epochend")
	}
	ls = append(ls, fmt.Sprintf("propose %d 51", height+1), "@checkproposed", "@mutants")
	// a few non-boundary heights against the full table
	ls = append(ls, fmt.Sprintf("propose %d 51", height+2), "@checkproposed")
	if c.Rng.Intn(4) == 0 {
		// a table whose entries are huge / whose total wraps uint64 (not reachable by accumulation,
		// but the validator and the proposer must still agree and the oracle uses true sums)
		big := []string{"a1:9223372036854775807,a2a2:9223372036854775807,51:12", "a1:18446744073709551615,51:1", "51:9223372036854775808", "a1:4611686018427387904,a2a2:4611686018427387904,00a3:4611686018427387904,6a:4611686018427387905"}[c.Rng.Intn(4)]
		h := (startEpoch+10)*epoch + 1
		ls = append(ls, fmt.Sprintf("ckpt u %d %d - %s", h-1, ts, big), fmt.Sprintf("propose %d 51", h), "@checkproposed", "@mutants")
	}
	return ls
}

// single-rule mutations of an accepted coinbase
func c14mutants(c *Ctx, height uint64, outs []ecOut) []string {
	var ls []string
	add := func(o []ecOut, hasTx int) {
		ls = append(ls, fmt.Sprintf("check %d %d %s", height, hasTx, ecOuts(o)))
	}
	cp := func() []ecOut { return append([]ecOut(nil), outs...) }
	add(cp(), 0) // empty block
	if len(outs) > 0 {
		k := c.Rng.Intn(len(outs))
		m := cp()
		m[k].amount++
		add(m, 1)
		m = cp()
		if m[k].amount > 0 {
			m[k].amount--
			add(m, 1)
		}
		m = cp()
		m[k].flags = "n"
		add(m, 1)
		m = cp()
		m[k].flags = "x"
		add(m, 1)
		m = cp()
		m[k].program = "ee"
		add(m, 1)
		// split one output into two with the same program (same total per program)
		if outs[k].amount > 1 && k > 0 {
			m = cp()
			m[k].amount = outs[k].amount - 1
			m = append(m, ecOut{amount: 1, program: outs[k].program})
			add(m, 1)
		}
		// wrap-around: replace one output by >= 3 outputs of the same program whose TRUE total is
		// the original amount + 2^64 (each part <= 2^63-1), or + 2^63.. (parts above 2^63 too)
		{
			const m63 = uint64(1)<<63 - 1
			m = append(cp()[:k:k], outs[k+1:]...)
			a := outs[k].amount
			if a <= m63-2 {
				m = append(m, ecOut{amount: m63, program: outs[k].program}, ecOut{amount: m63, program: outs[k].program}, ecOut{amount: a + 2, program: outs[k].program})
			} else {
				m = append(m, ecOut{amount: 1 << 63, program: outs[k].program}, ecOut{amount: 1 << 63, program: outs[k].program}, ecOut{amount: a, program: outs[k].program})
			}
			if k == 0 {
				// keep a first output so that the wrapped parts are not at position 0
				m = append([]ecOut{{amount: 0, program: "ee"}}, m...)
			}
			add(m, 1)
			m = append(cp(), ecOut{amount: 1 << 63, program: outs[k].program}, ecOut{amount: 1 << 63, program: outs[k].program})
			add(m, 1)
			m = append(cp(), ecOut{amount: m63, program: "ee"}, ecOut{amount: m63, program: "ee"}, ecOut{amount: 2, program: "ee"})
			add(m, 1)
		}
		// drop an output
		m = append(cp()[:k:k], outs[k+1:]...)
		add(m, 1)
		// one table entry paid twice instead of another one (same number of paying outputs)
		if len(outs) >= 3 {
			j := 1 + c.Rng.Intn(len(outs)-1)
			k2 := 1 + c.Rng.Intn(len(outs)-1)
			if j != k2 {
				m = cp()
				m[j] = outs[k2]
				add(m, 1)
			}
			// every paying output replaced by the first paying one
			m = cp()
			for i := 2; i < len(m); i++ {
				m[i] = outs[1]
			}
			add(m, 1)
		}
		// move the first output to the end / duplicate it
		m = append(cp()[1:], outs[0])
		add(m, 1)
		m = append(cp(), outs[0])
		add(m, 1)
	}
	m := append(cp(), ecOut{amount: uint64(c.Rng.Intn(3)), program: "ee"})
	add(m, 1)
	add(nil, 1)
	return ls
}

func runC14(c *Ctx) {
	c.Rule = "histories of 2-4 epochs (BlocksOfEpoch 2-5) starting at epoch 0-2: every block has a coinbase whose first output names one of 5 reward programs and 0-3 further transactions with fees and votes/vetoes (pledge rate: none, tiny, below / around / above the 0.5 threshold, random); at every epoch boundary the real proposer's coinbase (createCoinbaseTx) is built on the finished checkpoint, checked by the real checkCoinbaseAmount, and ~12 single-rule mutants of it are checked too; reward tables after every Increase, verdicts and proposed outputs are compared with the model"
	st := &c14state{c: &state.Checkpoint{Votes: map[string]uint64{}, Rewards: map[string]uint64{}}, accumulated: new(big.Int)}
	replaying := c.Replay != ""
	lines := c.CorpusLines()
	if replaying {
		lines = c.ReplayLines()
	}
	for _, l := range lines {
		c14line(c, st, l)
	}
	if replaying {
		return
	}
	for i := 0; i < c.N; i++ {
		var proposed []ecOut
		var proposedHeight uint64
		for _, l := range c14case(c) {
			switch {
			case strings.HasPrefix(l, "propose"):
				proposedHeight, _ = strconv.ParseUint(strings.Fields(l)[1], 10, 64)
				c14line(c, st, l)
				proposed, _ = c14propose(st, proposedHeight)
			case l == "@checkproposed":
				if proposed != nil {
					c14line(c, st, fmt.Sprintf("check %d 1 %s", proposedHeight, ecOuts(proposed)))
				}
			case l == "@mutants":
				if proposed != nil {
					for _, m := range c14mutants(c, proposedHeight, proposed) {
						c14line(c, st, m)
					}
				}
			case strings.Contains(l, "@proposed"):
				o := ecOuts(proposed)
				if proposed == nil {
					o = "0:51"
				}
				c14line(c, st, strings.Replace(l, "@proposed", o, 1))
			default:
				c14line(c, st, l)
			}
		}
		c.Distinct(fmt.Sprintf("history-%d", i))
	}
}

func init() { register("c14", runC14) }
