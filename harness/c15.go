//go:build hc15 || hall

package main

import (
	"fmt"
	"math/big"
	"sort"
	"strconv"
	"strings"

	"github.com/bytom/bytom/consensus"
	"github.com/bytom/bytom/protocol/bc"
	"github.com/bytom/bytom/protocol/state"
)

// C15: validator set and block-proposer schedule are deterministic.
//
// Stateful op stream (syntax: lean/BytomModel/Drv/C15.lean). The real state.Checkpoint is
// filled with vote maps, grown with Checkpoint.Increase over real blocks carrying VetoInputs
// and VoteOutputs, and asked for AllValidators / EffectiveValidators / GetValidator(t).
//
// Direct oracle (implementation only):
//   * AllValidators = exactly the keys with votes >= MinValidatorVoteNum (none while Growing),
//     strictly sorted by (votes desc, key desc); identical on 8 rebuilds of the map in
//     shuffled insertion order;
//   * EffectiveValidators = the first <= 10 of them with orders 0..k-1, or the federation keys
//     with their indices iff none qualifies;
//   * for t >= start = checkpoint.Timestamp + BlockTimeInterval: GetValidator(t) is non-nil,
//     its order is ((t-start)/interval) mod n (math/big), exactly one validator has it,
//     and repeated calls agree.

type c15state struct {
	c   *state.Checkpoint
	fed []string
	// the branch-wide tally kept by the harness itself from the op history (uint64 like the
	// chain's), and the status; what the oracle compares the implementation against
	tally  map[string]uint64
	status state.CheckpointStatus
	epoch  uint64
}

// expected ranking from the harness's own tally: keys with tally >= min, votes desc, key desc
func (st *c15state) expectedAll() []ecPair {
	if st.status == state.Growing {
		return nil
	}
	var l []ecPair
	for k, v := range st.tally {
		if v >= consensus.ActiveNetParams.MinValidatorVoteNum {
			l = append(l, ecPair{k, v})
		}
	}
	sort.Slice(l, func(i, j int) bool {
		if l[i].val != l[j].val {
			return l[i].val > l[j].val
		}
		return l[i].key > l[j].key
	})
	return l
}

// expected effective validators (key by order) from the harness's own tally
func (st *c15state) expectedEff() []string {
	all := st.expectedAll()
	var keys []string
	if len(all) == 0 {
		return st.fed
	}
	for i := 0; i < len(all) && i < consensus.MaxNumOfValidators; i++ {
		keys = append(keys, all[i].key)
	}
	return keys
}

func c15clone(c *state.Checkpoint, rng func(n int, swap func(i, j int))) *state.Checkpoint {
	var l []ecPair
	for k, v := range c.Votes {
		l = append(l, ecPair{k, v})
	}
	sort.Slice(l, func(i, j int) bool { return l[i].key < l[j].key })
	rng(len(l), func(i, j int) { l[i], l[j] = l[j], l[i] })
	d := *c
	d.Votes = ecMap(l)
	return &d
}

func c15validators(vs []*state.Validator) string {
	if len(vs) == 0 {
		return "-"
	}
	s := make([]string, len(vs))
	for i, v := range vs {
		s[i] = fmt.Sprintf("%s:%d:%d", ecKey(v.PubKey), v.Order, v.VoteNum)
	}
	return strings.Join(s, ",")
}

func c15effective(c *state.Checkpoint) string {
	m := c.EffectiveValidators()
	var vs []*state.Validator
	for _, v := range m {
		vs = append(vs, v)
	}
	sort.Slice(vs, func(i, j int) bool {
		if vs[i].Order != vs[j].Order {
			return vs[i].Order < vs[j].Order
		}
		return vs[i].PubKey < vs[j].PubKey
	})
	return c15validators(vs)
}

func c15get(c *state.Checkpoint, ts uint64) (res string) {
	defer func() {
		if r := recover(); r != nil {
			res = "panic"
		}
	}()
	v := c.GetValidator(ts)
	if v == nil {
		return "nil"
	}
	return fmt.Sprintf("%s %d %d", ecKey(v.PubKey), v.Order, v.VoteNum)
}

func c15line(c *Ctx, st *c15state, line string) {
	w := strings.Fields(line)
	u := func(s string) uint64 { v, _ := strconv.ParseUint(s, 10, 64); return v }
	shuffle := func(n int, swap func(i, j int)) { c.Rng.Shuffle(n, swap) }
	switch w[0] {
	case "reset":
		st.fed = nil
		if w[5] != "-" {
			st.fed = strings.Split(w[5], ",")
		}
		ecSetParams(u(w[1]), u(w[2]), u(w[3]), st.fed)
		st.c = &state.Checkpoint{Votes: map[string]uint64{}, Rewards: map[string]uint64{}}
		st.tally, st.status, st.epoch = map[string]uint64{}, state.Growing, u(w[3])
		c.Op(line, "ok")
	case "ckpt":
		st.c = &state.Checkpoint{Height: u(w[2]), Timestamp: u(w[3]), Status: ecStatus(w[1]), Votes: ecMap(ecParsePairs(w[4])), Rewards: map[string]uint64{}}
		st.c.Hash = bc.Hash{V0: st.c.Height, V1: 15}
		st.tally, st.status = ecMap(ecParsePairs(w[4])), ecStatus(w[1])
		c.Op(line, "ok")
	case "new":
		st.c = state.NewCheckpoint(st.c)
		st.status = state.Growing
		c.Op(line, ecSortedMap(st.c.Votes))
		// the tally is a property of the branch: an epoch boundary must not change any non-zero entry
		for k, v := range st.tally {
			if v != 0 && st.c.Votes[k] != v {
				c.Fail("NewCheckpoint does not carry a tally over the epoch boundary", fmt.Sprintf("key %s: branch tally %d, new checkpoint has %d", k, v, st.c.Votes[k]))
				break
			}
		}
		for k, v := range st.c.Votes {
			if v == 0 {
				c.Fail("NewCheckpoint keeps a zero vote entry", k)
			}
		}
	case "apply":
		// apply <height> <ts> <subsidy(ignored on input)> <outs0> {T ...}*
		height, ts := u(w[1]), u(w[2])
		outs0 := ecParseOuts(w[4])
		txs := ecParseTxs(w[5:])
		hasCb := len(w) > 8 && w[5] == "T" && w[6] == "-" && w[7] == "-" && w[8] == "0"
		if hasCb {
			txs = txs[1:]
		}
		blk, suffix, _ := ecBlock(st.c.Hash, height, ts, outs0, hasCb, txs)
		res := ""
		func() {
			defer func() {
				if r := recover(); r != nil {
					res = "panic"
				}
			}()
			if err := st.c.Increase(blk); err != nil {
				res = "err"
			}
		}()
		sub := uint64(0)
		if res == "" {
			sub = st.c.VerifValidatorReward()
			res = ecStatusName(st.c.Status) + " " + ecSortedMap(st.c.Votes)
			// the harness's own tally (vetoes then vote outputs, transaction by transaction)
			for _, t := range txs {
				for _, v := range t.vetoes {
					if st.tally[v.key] > v.val {
						st.tally[v.key] -= v.val
					} else {
						delete(st.tally, v.key)
					}
				}
				for _, v := range t.votes {
					st.tally[v.key] += v.val
				}
			}
			if st.epoch != 0 && height%st.epoch == 0 {
				st.status = state.Unjustified
			}
		}
		c.Op(fmt.Sprintf("apply %d %d %d %s", height, ts, sub, suffix), res)
		c.Count("apply/" + strings.Fields(res)[0])
	case "all":
		ref := c15validators(st.c.AllValidators())
		c.Op(line, ref)
		// oracle: against the ranking computed from the harness's OWN branch-wide tally
		vs := st.c.AllValidators()
		exp := st.expectedAll()
		if len(vs) != len(exp) {
			c.Fail("AllValidators: wrong member count", fmt.Sprintf("%d returned, %d keys qualify by the branch tally (%s)", len(vs), len(exp), ecPairs(exp)))
		} else {
			for i, v := range vs {
				if v.PubKey != exp[i].key || v.VoteNum != exp[i].val {
					c.Fail("AllValidators: not the ranking of the branch tally", fmt.Sprintf("position %d: got %s:%d want %s:%d", i, v.PubKey, v.VoteNum, exp[i].key, exp[i].val))
					break
				}
			}
		}
		for i, v := range vs {
			if v.VoteNum < consensus.ActiveNetParams.MinValidatorVoteNum {
				c.Fail("AllValidators: member does not qualify", v.PubKey)
			}
			if i > 0 {
				p := vs[i-1]
				if !(p.VoteNum > v.VoteNum || (p.VoteNum == v.VoteNum && p.PubKey > v.PubKey)) {
					c.Fail("AllValidators: not strictly sorted by (votes desc, key desc)", ref)
				}
			}
		}
		for k := 0; k < 8; k++ {
			if got := c15validators(c15clone(st.c, shuffle).AllValidators()); got != ref {
				c.Fail("AllValidators: depends on map order", ref+" vs "+got)
			}
		}
		c.Count(fmt.Sprintf("all/n=%d", minInt15(len(vs), 12)))
	case "eff":
		ref := c15effective(st.c)
		c.Op(line, ref)
		all := st.c.AllValidators()
		m := st.c.EffectiveValidators()
		if len(all) == 0 && c15dupFed(st.fed) {
			// precondition of the property violated by the configuration (a federation key
			// listed twice): compared with the model only
			c.Count("eff/federation-with-duplicate-key(config outside the property)")
		} else if len(all) == 0 {
			if len(m) != len(st.fed) {
				c.Fail("EffectiveValidators: federation fallback has wrong size", ref)
			}
			for i, k := range st.fed {
				if v, ok := m[k]; !ok || v.Order != i {
					c.Fail("EffectiveValidators: federation key missing or wrong order", ref)
				}
			}
			c.Count("eff/federation")
		} else {
			n := len(all)
			if n > consensus.MaxNumOfValidators {
				n = consensus.MaxNumOfValidators
			}
			if len(m) != n {
				c.Fail("EffectiveValidators: wrong size", ref)
			}
			for i := 0; i < n; i++ {
				if v, ok := m[all[i].PubKey]; !ok || v.Order != i || v.VoteNum != all[i].VoteNum {
					c.Fail("EffectiveValidators: not the ranked prefix", ref)
				}
			}
			c.Count(fmt.Sprintf("eff/n=%d", n))
		}
		if !(len(st.expectedAll()) == 0 && c15dupFed(st.fed)) {
			want := st.expectedEff()
			if len(m) != len(want) {
				c.Fail("EffectiveValidators: not the validators of the branch tally", fmt.Sprintf("got %s, want keys %v", ref, want))
			} else {
				for i, k := range want {
					if v, ok := m[k]; !ok || v.Order != i {
						c.Fail("EffectiveValidators: not the validators of the branch tally", fmt.Sprintf("got %s, want keys %v", ref, want))
						break
					}
				}
			}
		}
		for k := 0; k < 8; k++ {
			if got := c15effective(c15clone(st.c, shuffle)); got != ref {
				c.Fail("EffectiveValidators: depends on map order", ref+" vs "+got)
			}
		}
	case "get":
		ts := u(w[1])
		ref := c15get(st.c, ts)
		c.Op(line, ref)
		I := consensus.ActiveNetParams.BlockTimeInterval
		start := new(big.Int).Add(new(big.Int).SetUint64(st.c.Timestamp), new(big.Int).SetUint64(I))
		wantEff := st.expectedEff()
		n := len(wantEff)
		t := new(big.Int).SetUint64(ts)
		roundOK := n > 0 && I > 0 && new(big.Int).Mul(big.NewInt(int64(n)), new(big.Int).SetUint64(I)).IsUint64() && start.IsUint64()
		if t.Cmp(start) >= 0 && roundOK && !(len(st.expectedAll()) == 0 && c15dupFed(st.fed)) {
			slot := new(big.Int).Sub(t, start)
			slot.Div(slot, new(big.Int).SetUint64(I))
			slot.Mod(slot, big.NewInt(int64(n)))
			cnt := 0
			for _, v := range st.c.EffectiveValidators() {
				if int64(v.Order) == slot.Int64() {
					cnt++
				}
			}
			f := strings.Fields(ref)
			if cnt != 1 {
				c.Fail("GetValidator: slot order not carried by exactly one validator", fmt.Sprintf("t=%d order=%s count=%d", ts, slot, cnt))
			} else if len(f) != 3 || f[1] != slot.String() {
				c.Fail("GetValidator: wrong slot", fmt.Sprintf("t=%d want order %s got %q", ts, slot, ref))
			} else if f[0] != ecKey(wantEff[slot.Int64()]) {
				c.Fail("GetValidator: not the proposer the branch tally schedules", fmt.Sprintf("t=%d slot %s: got %s want %s", ts, slot, f[0], wantEff[slot.Int64()]))
			}
			for k := 0; k < 4; k++ {
				if got := c15get(c15clone(st.c, shuffle), ts); got != ref {
					c.Fail("GetValidator: depends on map order", ref+" vs "+got)
				}
			}
			c.Count("get/scheduled")
		} else {
			c.Count("get/outside(t<start or degenerate)")
		}
	}
}

func c15dupFed(fed []string) bool {
	seen := map[string]bool{}
	for _, k := range fed {
		if seen[k] {
			return true
		}
		seen[k] = true
	}
	return false
}

func minInt15(a, b int) int {
	if a < b {
		return a
	}
	return b
}

// ---------------------------------------------------------------------------- generator

func c15keys(c *Ctx) []string {
	var keys []string
	n := 4 + c.Rng.Intn(13)
	for len(keys) < n {
		var b []byte
		switch c.Rng.Intn(6) {
		case 0: // short keys: prefix ordering
			b = make([]byte, 1+c.Rng.Intn(3))
			for i := range b {
				b[i] = byte(c.Rng.Intn(3)) * 0x7f
			}
		default:
			b = make([]byte, 64)
			b[0] = byte(c.Rng.Intn(4)) * 0x55
			b[63] = byte(c.Rng.Intn(256))
			if c.Rng.Intn(2) == 0 {
				b[1] = byte(c.Rng.Intn(256))
			}
		}
		k := fmt.Sprintf("%x", b)
		dup := false
		for _, o := range keys {
			if o == k {
				dup = true
			}
		}
		if !dup {
			keys = append(keys, k)
		}
	}
	return keys
}

func c15votes(c *Ctx, min uint64) uint64 {
	switch c.Rng.Intn(10) {
	case 0:
		return 0
	case 1:
		return min - 1
	case 2, 3:
		return min
	case 4:
		return min + 1
	case 5:
		return 2 * min
	case 6:
		return 1<<64 - 1 - uint64(c.Rng.Intn(2))
	case 7:
		return uint64(c.Rng.Intn(int(minU15(min, 1<<30)) + 1))
	default:
		return min + uint64(c.Rng.Intn(5))
	}
}

func minU15(a, b uint64) uint64 {
	if a < b {
		return a
	}
	return b
}

func c15case(c *Ctx) []string {
	var ls []string
	interval := []uint64{1, 500, 6000, 6000}[c.Rng.Intn(4)]
	min := []uint64{100, 100, 100000000000000}[c.Rng.Intn(3)]
	epoch := []uint64{2, 3, 4, 100}[c.Rng.Intn(4)]
	keys := c15keys(c)
	var fed []string
	for i, n := 0, c.Rng.Intn(5); i < n; i++ {
		b := make([]byte, 64)
		b[0], b[63] = byte(0xf0+i), byte(c.Rng.Intn(3))
		fed = append(fed, fmt.Sprintf("%x", b))
	}
	if len(fed) == 0 && c.Rng.Intn(4) != 0 {
		fed = []string{fmt.Sprintf("%x", make([]byte, 64))}
	}
	if len(fed) > 1 && c.Rng.Intn(10) == 0 {
		fed[len(fed)-1] = fed[0] // duplicated federation key
	}
	fs := "-"
	if len(fed) > 0 {
		fs = strings.Join(fed, ",")
	}
	ls = append(ls, fmt.Sprintf("reset %d %d %d %d %s", interval, min, epoch, consensus.MaxNumOfValidators, fs))
	// initial checkpoint
	var votes []ecPair
	nv := c.Rng.Intn(len(keys) + 1)
	if c.Rng.Intn(8) == 0 {
		nv = 0
	}
	perm := c.Rng.Perm(len(keys))
	crowded := c.Rng.Intn(3) == 0 // > 10 candidates with many ties
	if crowded {
		nv = len(keys)
	}
	for i := 0; i < nv; i++ {
		v := c15votes(c, min)
		if crowded {
			v = min + uint64(c.Rng.Intn(3))
		}
		votes = append(votes, ecPair{keys[perm[i]], v})
	}
	status := "guuujf"[c.Rng.Intn(6)]
	height := uint64(c.Rng.Intn(50)) * epoch
	ts := uint64(1600000000000) + uint64(c.Rng.Intn(1000000))
	if c.Rng.Intn(12) == 0 {
		ts = 1<<64 - 1 - uint64(c.Rng.Intn(20000))
	}
	ls = append(ls, fmt.Sprintf("ckpt %c %d %d %s", status, height, ts, ecPairs(votes)))
	// grow the checkpoint over some blocks with votes and vetoes
	if c.Rng.Intn(2) == 0 {
		if c.Rng.Intn(2) == 0 {
			ls = append(ls, "new")
		}
		for b, nb := 0, 1+c.Rng.Intn(3); b < nb; b++ {
			height++
			ts += interval * uint64(1+c.Rng.Intn(3))
			var sb strings.Builder
			fmt.Fprintf(&sb, "apply %d %d 0 0:51 T - - 0", height, ts)
			for t, nt := 0, c.Rng.Intn(4); t < nt; t++ {
				var ve, vo []ecPair
				for i, n := 0, c.Rng.Intn(3); i < n; i++ {
					ve = append(ve, ecPair{keys[c.Rng.Intn(len(keys))], c15votes(c, min)})
				}
				for i, n := 0, c.Rng.Intn(3); i < n; i++ {
					vo = append(vo, ecPair{keys[c.Rng.Intn(len(keys))], c15votes(c, min)})
				}
				fmt.Fprintf(&sb, " T %s %s %d", ecPairs(ve), ecPairs(vo), c.Rng.Intn(1000))
			}
			ls = append(ls, sb.String())
		}
	}
	ls = append(ls, "all", "eff")
	// slots: boundaries +-1 over three rounds, before start, random
	start := ts + interval
	n := uint64(10)
	for r := uint64(0); r < 3; r++ {
		for s := uint64(0); s < n; s += 1 + uint64(c.Rng.Intn(4)) {
			t := start + (r*n+s)*interval
			for _, d := range []int64{-1, 0, 1} {
				if c.Rng.Intn(3) == 0 || d == 0 {
					ls = append(ls, fmt.Sprintf("get %d", t+uint64(d)))
				}
			}
		}
	}
	ls = append(ls, fmt.Sprintf("get %d", start), fmt.Sprintf("get %d", start-1), fmt.Sprintf("get %d", ts), fmt.Sprintf("get %d", c.Rng.Uint64()), "get 0", "get 18446744073709551615")
	return ls
}

// multi-epoch histories: keys reach MinValidatorVoteNum only by accumulation ACROSS epoch
// boundaries, partial vetoes leave remainders below the minimum, single votes are smaller than
// the minimum (mainnet-like 1e14 vs 6e13)
func c15multi(c *Ctx) []string {
	var ls []string
	interval := uint64(6000)
	min := []uint64{100000000000000, 100000000000000, 1000}[c.Rng.Intn(3)]
	epoch := []uint64{2, 3, 4}[c.Rng.Intn(3)]
	fed := fmt.Sprintf("%x", append(make([]byte, 63), 0xfe))
	ls = append(ls, fmt.Sprintf("reset %d %d %d %d %s", interval, min, epoch, consensus.MaxNumOfValidators, fed))
	keys := c15keys(c)
	if len(keys) > 8 {
		keys = keys[:8]
	}
	frac := func() uint64 { // a vote smaller than the minimum
		return min / 10 * uint64([]int{3, 4, 5, 6, 6, 7, 9}[c.Rng.Intn(7)])
	}
	tally := map[string]uint64{}
	var votes []ecPair
	for _, k := range keys {
		if c.Rng.Intn(2) == 0 {
			v := frac()
			votes = append(votes, ecPair{k, v})
			tally[k] = v
		}
	}
	height := uint64(c.Rng.Intn(5)) * epoch
	ts := uint64(1600000000000) + uint64(c.Rng.Intn(1000000))
	ls = append(ls, fmt.Sprintf("ckpt j %d %d %s", height, ts, ecPairs(votes)))
	for e, ne := 0, 3+c.Rng.Intn(3); e < ne; e++ {
		ls = append(ls, "new")
		if c.Rng.Intn(3) == 0 {
			ls = append(ls, "all", "eff") // Growing: federation
		}
		for b := uint64(0); b < epoch; b++ {
			height++
			ts += interval
			var sb strings.Builder
			fmt.Fprintf(&sb, "apply %d %d 0 0:51 T - - 0", height, ts)
			for t, nt := 0, c.Rng.Intn(3); t < nt; t++ {
				var ve, vo []ecPair
				k := keys[c.Rng.Intn(len(keys))]
				switch c.Rng.Intn(5) {
				case 0:
					// partial veto leaving a remainder below the minimum
					if tally[k] > min/10*4 {
						a := tally[k] - min/10*uint64(1+c.Rng.Intn(4))
						ve = append(ve, ecPair{k, a})
						tally[k] -= a
					}
				case 1:
					if tally[k] > 0 && c.Rng.Intn(2) == 0 {
						ve = append(ve, ecPair{k, tally[k]}) // full veto
						delete(tally, k)
					}
				}
				for i, n := 0, 1+c.Rng.Intn(2); i < n; i++ {
					k2 := keys[c.Rng.Intn(len(keys))]
					v := frac()
					vo = append(vo, ecPair{k2, v})
					tally[k2] += v
				}
				fmt.Fprintf(&sb, " T %s %s %d", ecPairs(ve), ecPairs(vo), c.Rng.Intn(1000))
			}
			ls = append(ls, sb.String())
		}
		// the finished epoch's checkpoint decides the next epoch's validators and slots
		ls = append(ls, "all", "eff")
		start := ts + interval
		for s := 0; s < 4; s++ {
			ls = append(ls, fmt.Sprintf("get %d", start+uint64(c.Rng.Intn(25))*interval+uint64(c.Rng.Intn(int(interval)))))
		}
	}
	return ls
}

func runC15(c *Ctx) {
	c.Rule = "vote/veto histories over 4-16 keys (64-byte keys differing in first/last bytes plus short keys for prefix order), vote totals clustered at MinValidatorVoteNum (ties, 0, 2^64-1), > 10 candidates, vetoes exceeding votes, 0-4 federation keys (sometimes duplicated / none), all four checkpoint states; each checkpoint is queried with AllValidators, EffectiveValidators and GetValidator(t) at slot boundaries +-1 over three rounds, before the epoch start and at extreme timestamps; every query is repeated on maps rebuilt in shuffled order; every third case is a multi-epoch history (3-5 epochs, NewCheckpoint at each boundary) in which single votes are 0.3-0.9 of MinValidatorVoteNum (1e14 or 1000), keys qualify only by accumulation across epoch boundaries, partial vetoes leave remainders below the minimum; the oracle compares AllValidators / EffectiveValidators / the scheduled proposer with the ranking computed from the harness's own branch-wide tally"
	st := &c15state{c: &state.Checkpoint{Votes: map[string]uint64{}, Rewards: map[string]uint64{}}, tally: map[string]uint64{}}
	replaying := c.Replay != ""
	lines := c.CorpusLines()
	if replaying {
		lines = c.ReplayLines()
	}
	for _, l := range lines {
		c15line(c, st, l)
	}
	if replaying {
		return
	}
	for i := 0; i < c.N; i++ {
		ls := c15case
		if i%3 == 2 {
			ls = c15multi
			c.Count("gen/multi-epoch")
		}
		for _, l := range ls(c) {
			c15line(c, st, l)
		}
		c.Distinct(fmt.Sprintf("case-%d", i))
	}
}

func init() { register("c15", runC15) }
