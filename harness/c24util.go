//go:build hc24 || hc25 || hc26 || hc27 || hall

package main

// capFail reports at most 8 direct-oracle failures per signature and run (every further
// one is only counted): the orchestrator cuts a replay context out of ops.txt for every
// reported failure, and the known findings recur thousands of times.
var capFailSeen = map[string]int{}

func capFail(c *Ctx, sig, detail string) {
	capFailSeen[sig]++
	if capFailSeen[sig] > 8 {
		c.Count("oracle-failures-not-listed-individually/" + sig)
		return
	}
	c.Fail(sig, detail)
}
