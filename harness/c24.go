//go:build hc24 || hc25 || hall

package main

import (
	"bytes"
	"encoding/json"
	"fmt"
	"math"
	"math/rand"
	"sort"
	"strconv"
	"strings"
	"time"

	"github.com/bytom/bytom/account"
	"github.com/bytom/bytom/asset"
	"github.com/bytom/bytom/blockchain/signers"
	"github.com/bytom/bytom/consensus"
	"github.com/bytom/bytom/consensus/segwit"
	"github.com/bytom/bytom/crypto/ed25519/chainkd"
	"github.com/bytom/bytom/database/storage"
	dbm "github.com/bytom/bytom/database/leveldb"
	"github.com/bytom/bytom/protocol"
	"github.com/bytom/bytom/protocol/bc"
	"github.com/bytom/bytom/protocol/bc/types"
	"github.com/bytom/bytom/protocol/state"
	"github.com/bytom/bytom/protocol/vm/vmutil"
	"github.com/bytom/bytom/wallet"
)

// C24 / C25: the REAL wallet.Wallet (wallet/verif_hooks_verif.go: no chain, no goroutines)
// with a real account.Manager on a MemDB, driven synchronously through AttachBlock /
// DetachBlock in the walletUpdater's order over block trees the harness constructs
// (real types.Block / types.Tx: coinbase, spends, vote outputs, vetoes, retirements,
// issuances; every block is checked with the real state.UtxoViewpoint on its branch).
//
//   reset <cbPending> <defaultPending> <b:e:n,..> <p2w:owner,..>        parameters + program table
//   block <id> <parent> <height> T<c> C | S<asset>,<amt> | I<kind>,<out>,<okind>,<asset>,<amt>,<prog>,<vote>,<gk>,<gh> | O<out>,<kind>,<asset>,<amt>,<prog>,<vote> ...
//   attach <id> | detach <id> | pool <block> <txindex> | unpool <block> <txindex>   (wallet.AddUnconfirmedTx / RemoveUnconfirmedTx)
//   impl line (attach/detach): ok|skip [valid=1 gvalid=1 novote=b] st=<workH>,<work>,<bestH>,<best> utxos=<out>:<asset>:<amt>:<prog>:<vote>:<acct>:<validHeight>;...
//
// Direct oracles (no model):
//   C24  after every attach/detach the wallet's UTXO records (all fields but ValidHeight)
//        equal those of a FRESH wallet that attaches only the wallet's current chain from genesis.
//   C25  every wallet UTXO the real utxoKeeper accepts as mature at the tip height must pass
//        the real UtxoViewpoint.ApplyTransaction at tip height + 1 on the from-genesis view.

const (
	c24SigF14     = "detachUtxos leaves a wallet-owned vote output of a detached block in the wallet"
	c25SigStale   = "usable wallet UTXO is not in the consensus UTXO set (vote output of a detached block, F14)"
	c25SigF15     = "restored coinbase/vote output has ValidHeight 0 and is reported mature while consensus still locks it"
	c25SigPending = "vote ValidHeight uses VotePendingBlockNums(created height) but consensus uses VotePendingBlockNums(spend height)"
	// an output that is both a wallet-DB record and still in the keeper's unconfirmed map (its
	// unconfirmed copy was computed by txOutToUtxos(tx, 0) and carries another ValidHeight)
	c25SigParticularUnc = "ReserveParticular(use_unconfirmed) hands out a locked confirmed output through its unconfirmed copy"
	c25SigFindUnc       = "findUtxos(use_unconfirmed) lists a locked confirmed output through its unconfirmed copy"
)

type w24prog struct {
	code  []byte
	p2w   bool
	owner int
}

type w24env struct {
	base     map[string][]byte // wallet DB snapshot: accounts + control programs
	progs    []w24prog         // index 1..
	acctIdx  map[string]int
	progIdx  map[string]int
	progTbl  string
	assetIDs map[int]bc.AssetID
	assetIdx map[bc.AssetID]int
}

type w24out struct {
	id, kind, asset int
	amount          uint64
	prog, vote      int
	hash, sourceID  bc.Hash
	sourcePos       uint64
}

type w24blk struct {
	id, parent int
	blk        *types.Block
	view       map[bc.Hash]storage.UtxoEntry // consensus view after this block on its branch
	ownedVote  bool
	invalid    string
}

type w24 struct {
	c      *Ctx
	mode   string
	env    *w24env
	db     dbm.DB
	am     *account.Manager
	w      *wallet.Wallet
	height uint64
	outs   map[int]*w24out
	outID  map[bc.Hash]int
	blocks map[int]*w24blk
	blkID  map[bc.Hash]int
	chain  []int
	fails  [][2]string
}

type w24reader struct{ r *rand.Rand }

func (x w24reader) Read(p []byte) (int, error) { return x.r.Read(p) }

func w24vote(v int) []byte {
	if v == 0 {
		return nil
	}
	return bytes.Repeat([]byte{byte(v)}, 64)
}

func w24assetDef(k int) []byte { return []byte(fmt.Sprintf(`{"name":"asset%d"}`, k)) }

func newW24env() *w24env {
	consensus.ActiveNetParams = consensus.SoloNetParams
	rd := w24reader{rand.New(rand.NewSource(20260921))}
	db := dbm.NewMemDB()
	am := account.VerifNewManager(db, func() uint64 { return 0 })
	env := &w24env{base: map[string][]byte{}, progs: []w24prog{{}}, acctIdx: map[string]int{}, progIdx: map[string]int{},
		assetIDs: map[int]bc.AssetID{0: *consensus.BTMAssetID}, assetIdx: map[bc.AssetID]int{*consensus.BTMAssetID: 0}}
	mk := func(n int) []chainkd.XPub {
		var xs []chainkd.XPub
		for i := 0; i < n; i++ {
			_, xpub, err := chainkd.NewXKeys(rd)
			if err != nil {
				panic(err)
			}
			xs = append(xs, xpub)
		}
		return xs
	}
	for ai, n := range []int{1, 2} { // account 1: single key (P2WPKH); account 2: 2-of-2 (P2WSH)
		acc, err := am.Create(mk(n), n, fmt.Sprintf("acc%d", ai+1), signers.BIP0044)
		if err != nil {
			panic(err)
		}
		env.acctIdx[acc.ID] = ai + 1
		for j := 0; j < 2; j++ {
			cp, err := am.CreateAddress(acc.ID, j == 1)
			if err != nil {
				panic(err)
			}
			env.progs = append(env.progs, w24prog{code: cp.ControlProgram, owner: ai + 1})
		}
	}
	for i := 0; i < 2; i++ { // foreign P2WPKH programs
		h := make([]byte, 20)
		rd.Read(h)
		p, _ := vmutil.P2WPKHProgram(h)
		env.progs = append(env.progs, w24prog{code: p})
	}
	env.progs = append(env.progs, w24prog{code: []byte{0x51, 0x51}}) // not a P2W script
	env.progs = append(env.progs, w24prog{code: []byte{0x6a}})       // unspendable: retirement
	var tbl []string
	for i := 1; i < len(env.progs); i++ {
		env.progs[i].p2w = segwit.IsP2WScript(env.progs[i].code)
		env.progIdx[string(env.progs[i].code)] = i
		b := 0
		if env.progs[i].p2w {
			b = 1
		}
		tbl = append(tbl, fmt.Sprintf("%d:%d", b, env.progs[i].owner))
	}
	env.progTbl = strings.Join(tbl, ",")
	it := db.IteratorPrefix([]byte{})
	for it.Next() {
		env.base[string(it.Key())] = append([]byte{}, it.Value()...)
	}
	it.Release()
	for k := 1; k <= 3; k++ {
		in := types.NewIssuanceInput([]byte{byte(k)}, 1, []byte{0x51}, nil, w24assetDef(k))
		id := in.AssetID()
		env.assetIDs[k] = id
		env.assetIdx[id] = k
	}
	return env
}

func (e *w24env) freshWallet(height func() uint64) (dbm.DB, *account.Manager, *wallet.Wallet) {
	db := dbm.NewMemDB()
	for k, v := range e.base {
		db.Set([]byte(k), v)
	}
	am := account.VerifNewManager(db, height)
	return db, am, wallet.VerifNewWallet(db, am, asset.NewRegistry(db, nil))
}

func w24pendTable() string {
	var ps []string
	for _, p := range consensus.ActiveNetParams.VotePendingBlockNums {
		ps = append(ps, fmt.Sprintf("%d:%d:%d", p.BeginBlock, p.EndBlock, p.Num))
	}
	if len(ps) == 0 {
		return "-"
	}
	return strings.Join(ps, ",")
}

func (s *w24) fail(sig, detail string) { s.fails = append(s.fails, [2]string{sig, detail}) }

func (s *w24) reset(w []string) string {
	// parameters come from the line (so a replay reproduces them); they must be realisable
	if len(w) != 5 {
		return "bad-op"
	}
	if cb, _ := strconv.ParseUint(w[1], 10, 64); cb != consensus.CoinbasePendingBlockNumber {
		s.fail("harness: CoinbasePendingBlockNumber in the op line differs from the code", w[1])
	}
	var tbl []consensus.VotePendingBlockNum
	if w[3] != "-" {
		for _, e := range strings.Split(w[3], ",") {
			f := strings.Split(e, ":")
			b, _ := strconv.ParseUint(f[0], 10, 64)
			en, _ := strconv.ParseUint(f[1], 10, 64)
			n, _ := strconv.ParseUint(f[2], 10, 64)
			tbl = append(tbl, consensus.VotePendingBlockNum{BeginBlock: b, EndBlock: en, Num: n})
		}
	}
	consensus.ActiveNetParams.VotePendingBlockNums = tbl
	if d, _ := strconv.ParseUint(w[2], 10, 64); d != w24default() {
		s.fail("harness: default vote pending number in the op line differs from the code", w[2])
	}
	if w[4] != s.env.progTbl {
		s.fail("harness: program table in the op line differs from this run's table", w[4])
	}
	s.height = 0
	s.db, s.am, s.w = s.env.freshWallet(func() uint64 { return s.height })
	s.outs, s.outID = map[int]*w24out{}, map[bc.Hash]int{}
	s.blocks, s.blkID = map[int]*w24blk{}, map[bc.Hash]int{}
	s.chain = nil
	return s.dump()
}

// the value VotePendingBlockNums returns when no range matches
func w24default() uint64 {
	saved := consensus.ActiveNetParams.VotePendingBlockNums
	consensus.ActiveNetParams.VotePendingBlockNums = nil
	d := consensus.VotePendingBlockNums(0)
	consensus.ActiveNetParams.VotePendingBlockNums = saved
	return d
}

func w24nums(s string) []uint64 {
	var out []uint64
	for _, f := range strings.Split(s, ",") {
		v, _ := strconv.ParseUint(f, 10, 64)
		out = append(out, v)
	}
	return out
}

// block line -> real block, validated with the real UtxoViewpoint on its branch
func (s *w24) defBlock(w []string) string {
	res, _ := s.buildBlock(w, true)
	return res
}

// canon rewrites tentative output ids of a block line to the ids already given to the same
// real output (an identical output created in another block, e.g. the same transaction
// included on two branches): in the op stream a numeric id stands for ONE output hash.
func (s *w24) canon(w []string) []string {
	_, local := s.buildBlock(w, false)
	ren := map[string]string{}
	for _, o := range local {
		if j, ok := s.outID[o.hash]; ok && j != o.id {
			ren[strconv.Itoa(o.id)] = strconv.Itoa(j)
		}
	}
	if len(ren) == 0 {
		return w
	}
	out := append([]string{}, w...)
	for i, tok := range out {
		if i < 4 || (tok[0] != 'O' && tok[0] != 'I') {
			continue
		}
		f := strings.Split(tok[1:], ",")
		k := 0
		if tok[0] == 'I' {
			k = 1
		}
		if n, ok := ren[f[k]]; ok {
			f[k] = n
			out[i] = tok[:1] + strings.Join(f, ",")
		}
	}
	return out
}

func (s *w24) buildBlock(w []string, commit bool) (string, map[int]*w24out) {
	local := map[int]*w24out{}
	id, _ := strconv.Atoi(w[1])
	parent, _ := strconv.Atoi(w[2])
	height, _ := strconv.ParseUint(w[3], 10, 64)
	b := &w24blk{id: id, parent: parent}
	hdr := types.BlockHeader{Version: 1, Height: height, Timestamp: height*1000 + uint64(id)}
	view := state.NewUtxoViewpoint()
	if p, ok := s.blocks[parent]; ok {
		hdr.PreviousBlockHash = p.blk.Hash()
		for h, e := range p.view {
			e := e
			view.Entries[h] = &e
		}
	} else if parent != 0 {
		return "invalid: unknown parent", local
	}
	var txs []*types.Tx
	var cur *types.TxData
	var curOuts [][]uint64
	flush := func() {
		if cur == nil {
			return
		}
		tx := types.NewTx(*cur)
		for i, f := range curOuts {
			o := &w24out{id: int(f[0]), kind: int(f[1]), asset: int(f[2]), amount: f[3], prog: int(f[4]), vote: int(f[5]), hash: *tx.ResultIds[i]}
			switch e := tx.Entries[o.hash].(type) {
			case *bc.OriginalOutput:
				o.sourceID, o.sourcePos = *e.Source.Ref, e.Source.Position
			case *bc.VoteOutput:
				o.sourceID, o.sourcePos = *e.Source.Ref, e.Source.Position
			}
			local[o.id] = o
			if o.kind == 1 && s.env.progs[o.prog].owner != 0 && s.env.progs[o.prog].p2w {
				b.ownedVote = true
			}
		}
		txs = append(txs, tx)
		cur, curOuts = nil, nil
	}
	for _, tok := range w[4:] {
		body := tok[1:]
		switch tok[0] {
		case 'T':
			flush()
			cur = &types.TxData{Version: 1}
		case 'C':
			cur.Inputs = append(cur.Inputs, types.NewCoinbaseInput([]byte(fmt.Sprintf("%d/%d", height, id))))
		case 'S':
			f := w24nums(body)
			cur.Inputs = append(cur.Inputs, types.NewIssuanceInput([]byte{byte(f[0]), byte(id), byte(len(txs))}, f[1], []byte{0x51}, nil, w24assetDef(int(f[0]))))
		case 'I':
			f := w24nums(body)
			o, ok := local[int(f[1])]
			if !ok {
				o, ok = s.outs[int(f[1])]
			}
			if !ok {
				return "invalid: input spends unknown output", local
			}
			if e, ok := view.Entries[o.hash]; ok && commit && (uint64(e.Type) != f[7] || e.BlockHeight != f[8]) {
				s.fail("harness: ghost type/height in the op line differs from the consensus entry", tok)
			}
			prog := s.env.progs[o.prog].code
			if f[0] == 1 {
				cur.Inputs = append(cur.Inputs, types.NewVetoInput(nil, o.sourceID, s.env.assetIDs[o.asset], o.amount, o.sourcePos, prog, w24vote(o.vote), nil))
			} else {
				cur.Inputs = append(cur.Inputs, types.NewSpendInput(nil, o.sourceID, s.env.assetIDs[o.asset], o.amount, o.sourcePos, prog, nil))
			}
		case 'O':
			f := w24nums(body)
			prog := s.env.progs[f[4]].code
			if f[1] == 1 {
				cur.Outputs = append(cur.Outputs, types.NewVoteOutput(s.env.assetIDs[int(f[2])], f[3], prog, w24vote(int(f[5])), nil))
			} else {
				cur.Outputs = append(cur.Outputs, types.NewOriginalTxOutput(s.env.assetIDs[int(f[2])], f[3], prog, nil))
			}
			curOuts = append(curOuts, f)
		}
	}
	flush()
	b.blk = &types.Block{BlockHeader: hdr, Transactions: txs}
	if err := view.ApplyBlock(types.MapBlock(b.blk)); err != nil {
		b.invalid = err.Error()
	}
	b.view = map[bc.Hash]storage.UtxoEntry{}
	for h, e := range view.Entries {
		if !e.Spent { // a from-genesis replay that persists like the store keeps only these (+ spent coinbase, irrelevant here)
			b.view[h] = *e
		}
	}
	if !commit {
		return "", local
	}
	for k, o := range local {
		if j, ok := s.outID[o.hash]; ok && j != k {
			s.fail("harness: one output hash under two numeric ids", fmt.Sprintf("%d and %d", j, k))
		}
		s.outs[k] = o
		s.outID[o.hash] = k
	}
	s.blocks[id] = b
	s.blkID[b.blk.Hash()] = id
	if b.invalid != "" {
		return "invalid: " + b.invalid, local
	}
	return "ok", local
}

type w24rec struct {
	u   *account.UTXO
	key string
}

func (s *w24) records(db dbm.DB) []w24rec {
	var out []w24rec
	for _, pre := range []string{account.UTXOPreFix, account.SUTXOPrefix} {
		it := db.IteratorPrefix([]byte(pre))
		for it.Next() {
			u := &account.UTXO{}
			if err := json.Unmarshal(it.Value(), u); err != nil {
				s.fail("wallet DB holds an undecodable UTXO record", string(it.Key()))
				continue
			}
			out = append(out, w24rec{u, string(it.Key())})
		}
		it.Release()
	}
	return out
}

func (s *w24) utxoLine(u *account.UTXO) (int, string) {
	id := s.outID[u.OutputID]
	vote := 0
	if len(u.Vote) > 0 {
		vote = int(u.Vote[0])
	}
	return id, fmt.Sprintf("%d:%d:%d:%d:%d:%d:%d", id, s.env.assetIdx[u.AssetID], u.Amount, s.env.progIdx[string(u.ControlProgram)], vote, s.env.acctIdx[u.AccountID], u.ValidHeight)
}

func (s *w24) dump() string {
	st := s.w.GetWalletStatusInfo()
	recs := s.records(s.db)
	type kv struct {
		id int
		s  string
	}
	var l []kv
	for _, r := range recs {
		id, ln := s.utxoLine(r.u)
		l = append(l, kv{id, ln})
	}
	sort.Slice(l, func(i, j int) bool { return l[i].id < l[j].id })
	var ss []string
	for _, e := range l {
		ss = append(ss, e.s)
	}
	return fmt.Sprintf("st=%d,%d,%d,%d utxos=%s", st.WorkHeight, s.blkID[st.WorkHash], st.BestHeight, s.blkID[st.BestHash], strings.Join(ss, ";"))
}

func (s *w24) onChain(outID int) bool {
	o := s.outs[outID]
	if o == nil || len(s.chain) == 0 {
		return false
	}
	_, ok := s.blocks[s.chain[len(s.chain)-1]].view[o.hash]
	return ok
}

// C24 direct oracle: fresh wallet scanning only the current chain
func (s *w24) oracleRescan(op string) {
	fdb, _, fw := s.env.freshWallet(func() uint64 { return s.height })
	for _, id := range s.chain {
		if err := fw.AttachBlock(s.blocks[id].blk); err != nil {
			s.fail("fresh wallet fails to attach a main-chain block", err.Error())
			return
		}
	}
	norm := func(recs []w24rec) map[string]string {
		m := map[string]string{}
		for _, r := range recs {
			c := *r.u
			c.ValidHeight = 0
			j, _ := json.Marshal(&c)
			m[r.key] = string(j)
		}
		return m
	}
	got, want := norm(s.records(s.db)), norm(s.records(fdb))
	for k, g := range got {
		wv, ok := want[k]
		if ok && wv == g {
			continue
		}
		u := &account.UTXO{}
		json.Unmarshal([]byte(g), u)
		id, ln := s.utxoLine(u)
		if !ok && len(u.Vote) > 0 && !s.onChain(id) {
			s.fail(c24SigF14, fmt.Sprintf("after %q: wallet holds %s, a rescan of the chain %v does not", op, ln, s.chain))
		} else if !ok {
			s.fail("wallet holds a UTXO that a rescan of the main chain does not: "+ln, fmt.Sprintf("after %q chain %v", op, s.chain))
		} else {
			s.fail("wallet UTXO record differs from the rescan's: "+ln, fmt.Sprintf("after %q: wallet %s rescan %s", op, g, wv))
		}
	}
	for k, wv := range want {
		if _, ok := got[k]; !ok {
			u := &account.UTXO{}
			json.Unmarshal([]byte(wv), u)
			_, ln := s.utxoLine(u)
			s.fail("wallet lacks a UTXO that a rescan of the main chain finds: "+ln, fmt.Sprintf("after %q chain %v", op, s.chain))
		}
	}
}

// C25 direct oracle: usable (per the real keeper) => spendable at the next height (real view)
func (s *w24) oracleMature(op string) {
	if len(s.chain) == 0 {
		return
	}
	tip := s.blocks[s.chain[len(s.chain)-1]]
	keeper := account.VerifKeeperOf(s.am)
	dbRecs := map[bc.Hash]*account.UTXO{}
	type class struct {
		acct  string
		asset bc.AssetID
		vote  string
	}
	classes := map[class]bool{}
	var order []bc.Hash
	for _, u := range s.w.GetAccountUtxos("", "", false, false, false) {
		dbRecs[u.OutputID] = u
		order = append(order, u.OutputID)
		classes[class{u.AccountID, u.AssetID, string(u.Vote)}] = true
	}
	// h = the record the keeper handed out as usable (how = which entry point)
	probe := func(h *account.UTXO, how string, sigUnc string) {
		db := dbRecs[h.OutputID]
		_, ln := s.utxoLine(h)
		view := state.NewUtxoViewpoint()
		e, ok := tip.view[h.OutputID]
		if ok {
			view.Entries[h.OutputID] = &e
		}
		ptx := &bc.Tx{TxHeader: &bc.TxHeader{}, SpentOutputIDs: []bc.Hash{h.OutputID}}
		nb := &bc.Block{BlockHeader: &bc.BlockHeader{Height: s.height + 1}}
		err := view.ApplyTransaction(nb, ptx)
		if err == nil {
			s.c.Count("c25/usable-and-spendable")
			return
		}
		detail := fmt.Sprintf("after %q at height %d: %s reports wallet UTXO %s as mature, consensus at height %d says: %v", op, s.height, how, ln, s.height+1, err)
		switch {
		case db != nil && h.ValidHeight != db.ValidHeight && db.ValidHeight > s.height:
			s.fail(sigUnc, detail+fmt.Sprintf(" (the wallet-DB record of this output has ValidHeight %d, the unconfirmed copy %d)", db.ValidHeight, h.ValidHeight))
		case !ok && len(h.Vote) > 0:
			s.fail(c25SigStale, detail)
		case ok && (h.ValidHeight == 0 || (db != nil && db.ValidHeight == 0)) && (e.Type == storage.CoinbaseUTXOType || e.Type == storage.VoteUTXOType):
			// restored by a detach (F15); a pool copy of the same output, if any, is no better
			s.fail(c25SigF15, detail+fmt.Sprintf(" (entry type %d created at %d)", e.Type, e.BlockHeight))
		case ok && e.Type == storage.VoteUTXOType && consensus.VotePendingBlockNums(e.BlockHeight) != consensus.VotePendingBlockNums(s.height+1):
			s.fail(c25SigPending, detail+fmt.Sprintf(" (created at %d: pending %d, at spend height pending %d)", e.BlockHeight, consensus.VotePendingBlockNums(e.BlockHeight), consensus.VotePendingBlockNums(s.height+1)))
		default:
			s.fail("usable wallet UTXO is not spendable at the next height: "+ln, detail)
		}
	}
	for _, id := range order {
		for _, useUnc := range []bool{false, true} {
			res, err := keeper.ReserveParticular(id, useUnc, time.Unix(1, 0))
			if err != nil {
				if err != account.ErrImmature {
					s.fail("keeper rejects a wallet UTXO for an unexpected reason", err.Error())
				}
				s.c.Count("c25/immature")
				continue
			}
			keeper.Cancel(res.ID)
			probe(res.UTXOs[0], fmt.Sprintf("ReserveParticular(use_unconfirmed=%v)", useUnc), c25SigParticularUnc)
		}
	}
	// what Reserve would consider spendable now, per (account, asset, vote) class
	var cls []class
	for c := range classes {
		cls = append(cls, c)
	}
	sort.Slice(cls, func(i, j int) bool {
		return cls[i].acct+cls[i].asset.String()+cls[i].vote < cls[j].acct+cls[j].asset.String()+cls[j].vote
	})
	for _, c := range cls {
		for _, useUnc := range []bool{false, true} {
			asset := c.asset
			var vote []byte
			if c.vote != "" {
				vote = []byte(c.vote)
			}
			listed, _ := keeper.FindUtxos(c.acct, &asset, useUnc, vote)
			sort.Slice(listed, func(i, j int) bool { return listed[i].OutputID.String() < listed[j].OutputID.String() })
			for _, h := range listed {
				if dbRecs[h.OutputID] == nil {
					continue // only in the pool: not an output of the chain yet
				}
				s.c.Count("c25/listed-by-findUtxos")
				probe(h, fmt.Sprintf("findUtxos(use_unconfirmed=%v)", useUnc), c25SigFindUnc)
			}
		}
	}
}

func (s *w24) exec(line string) {
	w := strings.Fields(line)
	if len(w) == 0 {
		return
	}
	s.fails = nil
	result := ""
	switch w[0] {
	case "reset":
		result = s.reset(w)
	case "block":
		if s.db == nil || len(w) < 4 {
			return
		}
		result = s.defBlock(w)
	case "pool", "unpool":
		if s.db == nil || len(w) != 3 {
			return
		}
		bid, _ := strconv.Atoi(w[1])
		ti, _ := strconv.Atoi(w[2])
		b, ok := s.blocks[bid]
		if !ok || ti >= len(b.blk.Transactions) {
			return
		}
		func() {
			defer func() {
				if p := recover(); p != nil {
					s.fail("wallet pool event handler panics", fmt.Sprint(p))
				}
			}()
			if w[0] == "pool" {
				s.w.AddUnconfirmedTx(&protocol.TxDesc{Tx: b.blk.Transactions[ti]})
			} else {
				s.w.RemoveUnconfirmedTx(&protocol.TxDesc{Tx: b.blk.Transactions[ti]})
			}
		}()
		s.c.Count(w[0])
		result = "ok"
		if s.mode == "c25" {
			s.oracleMature(line)
		}
	case "attach", "detach":
		if s.db == nil || len(w) != 2 {
			return
		}
		id, _ := strconv.Atoi(w[1])
		b, ok := s.blocks[id]
		if !ok {
			return
		}
		if w[0] == "attach" {
			before := s.w.GetWalletStatusInfo()
			if err := s.w.AttachBlock(b.blk); err != nil {
				s.fail("AttachBlock returns an error", err.Error())
			}
			if after := s.w.GetWalletStatusInfo(); after.WorkHash != before.WorkHash && after.WorkHash == b.blk.Hash() {
				s.chain = append(s.chain, id)
				s.height = b.blk.Height
				nv := 1
				if b.ownedVote {
					nv = 0
				}
				result = fmt.Sprintf("ok valid=1 gvalid=1 novote=%d ", nv)
				s.c.Count("attach")
			} else {
				result = "skip "
				s.c.Count("attach-skipped")
			}
		} else {
			if err := s.w.DetachBlock(b.blk); err != nil {
				s.fail("DetachBlock returns an error", err.Error())
			}
			if n := len(s.chain); n > 0 {
				s.chain = s.chain[:n-1]
			}
			s.height = b.blk.Height - 1
			result = "ok "
			s.c.Count("detach")
		}
		result += s.dump()
		if s.mode == "c24" {
			s.oracleRescan(line)
		} else {
			s.oracleMature(line)
		}
	default:
		return
	}
	s.c.Op(line, result)
	if w[0] != "block" {
		s.c.Distinct(line + "@" + fmt.Sprint(s.chain))
	}
	for _, f := range s.fails {
		capFail(s.c, f[0], f[1])
	}
}

// ------------------------------------------------------------------ generator (abstract)

type g24out struct {
	id, kind, asset int
	amount          uint64
	prog, vote      int
	gk, gh          int
}

type g24blk struct {
	id, parent, height int
	unspent            map[int]*g24out
	walletTxs          []int // indices of non-coinbase transactions paying a wallet program
	attachedOnce       bool
}

type g24 struct {
	r       *rand.Rand
	env     *w24env
	x       *w24
	blocks  map[int]*g24blk
	nextBlk int
	nextOut int
	tip     int
	pend    func(h uint64) uint64
	pooled  [][2]int
}

func (g *g24) pickProg(ownedBias int) int {
	if g.r.Intn(10) < ownedBias {
		return 1 + g.r.Intn(4)
	}
	return 5 + g.r.Intn(3) // foreign x2, non-P2W
}

func (g *g24) newBlock(parent int) int {
	r := g.r
	p := g.blocks[parent]
	id := g.nextBlk
	g.nextBlk++
	h := 0
	unspent := map[int]*g24out{}
	if p != nil {
		h = p.height + 1
		for k, v := range p.unspent {
			unspent[k] = v
		}
	}
	toks := []string{}
	addOut := func(kind, asset int, amount uint64, prog, vote int, coinbase bool) {
		o := &g24out{id: g.nextOut, kind: kind, asset: asset, amount: amount, prog: prog, vote: vote, gh: h}
		g.nextOut++
		switch {
		case coinbase:
			o.gk = 1
		case kind == 1:
			o.gk = 2
		}
		toks = append(toks, fmt.Sprintf("O%d,%d,%d,%d,%d,%d", o.id, kind, asset, amount, prog, vote))
		if kind != 2 && amount != 0 {
			unspent[o.id] = o
		}
	}
	// coinbase
	toks = append(toks, "T1", "C")
	cbAmt := uint64(41250000000 + 100000000*uint64(r.Intn(5)))
	if r.Intn(6) == 0 {
		cbAmt = 0
	}
	addOut(0, 0, cbAmt, g.pickProg(7), 0, true)
	nTx := r.Intn(4)
	if h == 0 {
		nTx = 0
	}
	for t := 0; t < nTx; t++ {
		if r.Intn(9) == 0 { // issuance of a non-BTM asset
			a := 1 + r.Intn(3)
			amt := uint64(1 + r.Intn(1000))
			toks = append(toks, "T0", fmt.Sprintf("S%d,%d", a, amt))
			addOut(0, a, amt, g.pickProg(7), 0, false)
			continue
		}
		// spendable candidates at this height
		var cands []*g24out
		for _, o := range unspent {
			ok := true
			switch o.gk {
			case 1:
				ok = uint64(o.gh)+consensus.CoinbasePendingBlockNumber <= uint64(h)
			case 2:
				ok = uint64(o.gh)+g.pend(uint64(h)) <= uint64(h)
			}
			if ok && (o.gh < h || o.gk == 0) { // normal outputs may be spent by a later tx of the same block
				cands = append(cands, o)
			}
		}
		if len(cands) == 0 {
			continue
		}
		sort.Slice(cands, func(i, j int) bool { return cands[i].id < cands[j].id })
		// prefer wallet-owned inputs, and immature-looking ones (coinbase / vote) when available
		pick := func() *g24out {
			for try := 0; try < 4; try++ {
				o := cands[r.Intn(len(cands))]
				if g.env.progs[o.prog].owner != 0 && (o.gk != 0 || try > 1) {
					return o
				}
			}
			return cands[r.Intn(len(cands))]
		}
		first := pick()
		ins := []*g24out{first}
		if r.Intn(3) == 0 {
			if o := pick(); o.id != first.id && o.asset == first.asset {
				ins = append(ins, o)
			}
		}
		toks = append(toks, "T0")
		var total uint64
		for _, o := range ins {
			kind := 0
			if o.kind == 1 {
				kind = 1
			}
			toks = append(toks, fmt.Sprintf("I%d,%d,%d,%d,%d,%d,%d,%d,%d", kind, o.id, o.kind, o.asset, o.amount, o.prog, o.vote, o.gk, o.gh))
			total += o.amount
			delete(unspent, o.id)
		}
		asset := first.asset
		nOut := 1 + r.Intn(3)
		rest := total
		for k := 0; k < nOut && rest > 0; k++ {
			amt := rest
			if k < nOut-1 {
				amt = rest / uint64(2+r.Intn(3))
				if asset == 0 {
					amt -= amt % 100000000
				}
			} else if asset == 0 && rest > 1000000 {
				amt = rest - 1000000 // fee
			}
			if amt == 0 {
				continue
			}
			rest -= amt
			x := r.Intn(100)
			switch {
			case x < 35 && asset == 0 && amt >= consensus.MinVoteOutputAmount:
				addOut(1, 0, amt, g.pickProg(8), 1+r.Intn(2), false)
			case x < 45:
				addOut(2, asset, amt, 8, 0, false) // retirement
			default:
				addOut(0, asset, amt, g.pickProg(7), 0, false)
			}
		}
	}
	w := g.x.canon(append([]string{"block", strconv.Itoa(id), strconv.Itoa(parent), strconv.Itoa(h)}, toks...))
	// adopt renamed ids in the abstract unspent set
	for i, tok := range w {
		if i >= 4 && tok[0] == 'O' && tok != toks[i-4] {
			oldID, _ := strconv.Atoi(strings.Split(toks[i-4][1:], ",")[0])
			newID, _ := strconv.Atoi(strings.Split(tok[1:], ",")[0])
			if o, ok := unspent[oldID]; ok {
				delete(unspent, oldID)
				c := *o
				c.id = newID
				unspent[newID] = &c
			}
		}
	}
	nb := &g24blk{id: id, parent: parent, height: h, unspent: unspent}
	ti := -1
	for _, tok := range w[4:] {
		if tok[0] == 'T' {
			ti++
		}
		if tok[0] == 'O' && ti > 0 {
			f := strings.Split(tok[1:], ",")
			pi, _ := strconv.Atoi(f[4])
			if pi >= 1 && pi <= 4 && (len(nb.walletTxs) == 0 || nb.walletTxs[len(nb.walletTxs)-1] != ti) {
				nb.walletTxs = append(nb.walletTxs, ti)
			}
		}
	}
	g.blocks[id] = nb
	g.x.exec(strings.Join(w, " "))
	return id
}

func (g *g24) ancestors(id int) []int { // from id up to genesis
	var out []int
	for id != 0 {
		out = append(out, id)
		id = g.blocks[id].parent
	}
	return out
}

// the walletUpdater's walk: detach while best is not on the (new) main chain, then attach
func (g *g24) switchTo(target int) {
	onMain := map[int]bool{}
	path := g.ancestors(target)
	for _, b := range path {
		onMain[b] = true
	}
	for g.tip != 0 && !onMain[g.tip] {
		g.x.exec(fmt.Sprintf("detach %d", g.tip))
		g.tip = g.blocks[g.tip].parent
	}
	for i := len(path) - 1; i >= 0; i-- {
		if g.tip == 0 && g.blocks[path[i]].parent == 0 || g.blocks[path[i]].parent == g.tip {
			// the pool announces some of the block's wallet transactions before the block arrives
			// (MsgNewTx), and its MsgRemoveTx may be handled only later
			nb := g.blocks[path[i]]
			for _, ti := range nb.walletTxs {
				if g.r.Intn(3) == 0 {
					g.x.exec(fmt.Sprintf("pool %d %d", path[i], ti))
					g.pooled = append(g.pooled, [2]int{path[i], ti})
				}
			}
			g.x.exec(fmt.Sprintf("attach %d", path[i]))
			g.tip = path[i]
			var keep [][2]int
			for _, p := range g.pooled {
				if g.r.Intn(3) == 0 {
					g.x.exec(fmt.Sprintf("unpool %d %d", p[0], p[1]))
				} else {
					keep = append(keep, p)
				}
			}
			g.pooled = keep
		}
	}
}

func c24gen(c *Ctx, env *w24env, xw *w24) {
	r := c.Rng
	// vote pending table for this case
	var tbl []consensus.VotePendingBlockNum
	switch r.Intn(6) {
	case 0:
		tbl = []consensus.VotePendingBlockNum{{BeginBlock: 0, EndBlock: math.MaxUint64, Num: 10}}
	case 1, 2:
		tbl = []consensus.VotePendingBlockNum{{BeginBlock: 0, EndBlock: math.MaxUint64, Num: 3}}
	case 3:
		tbl = []consensus.VotePendingBlockNum{{BeginBlock: 0, EndBlock: 14, Num: 6}, {BeginBlock: 14, EndBlock: math.MaxUint64, Num: 2}}
	case 4:
		tbl = []consensus.VotePendingBlockNum{{BeginBlock: 0, EndBlock: 14, Num: 2}, {BeginBlock: 14, EndBlock: math.MaxUint64, Num: 7}}
	default:
		tbl = []consensus.VotePendingBlockNum{{BeginBlock: 0, EndBlock: math.MaxUint64, Num: 5}}
	}
	consensus.ActiveNetParams.VotePendingBlockNums = tbl
	g := &g24{r: r, env: env, x: xw, blocks: map[int]*g24blk{}, nextBlk: 1, nextOut: 1, pend: consensus.VotePendingBlockNums}
	xw.exec(fmt.Sprintf("reset %d %d %s %s", consensus.CoinbasePendingBlockNumber, w24default(), w24pendTable(), env.progTbl))
	gen := g.newBlock(0)
	g.switchTo(gen)
	rounds := 5 + r.Intn(9)
	for i := 0; i < rounds; i++ {
		x := r.Intn(100)
		switch {
		case x < 50 || g.blocks[g.tip].height < 2:
			n := 1 + r.Intn(6)
			for k := 0; k < n; k++ {
				g.switchTo(g.newBlock(g.tip))
			}
		case x < 85:
			anc := g.ancestors(g.tip)
			d := 1 + r.Intn(3)
			if r.Intn(3) == 0 {
				d = 1 + r.Intn(13)
			}
			if d >= len(anc) {
				d = len(anc) - 1
			}
			from := anc[d]
			n := 1 + r.Intn(d+2)
			cur := from
			for k := 0; k < n; k++ {
				cur = g.newBlock(cur)
			}
			g.switchTo(cur)
		case x < 95:
			ids := []int{}
			for id := range g.blocks {
				ids = append(ids, id)
			}
			sort.Ints(ids)
			g.switchTo(ids[r.Intn(len(ids))])
		default: // an attach that does not extend the wallet's work hash must be skipped
			ids := []int{}
			for id, b := range g.blocks {
				if b.parent != g.tip && id != g.tip {
					ids = append(ids, id)
				}
			}
			sort.Ints(ids)
			if len(ids) > 0 {
				xw.exec(fmt.Sprintf("attach %d", ids[r.Intn(len(ids))]))
			}
		}
	}
}

func runW24(mode string) command {
	return func(c *Ctx) {
		c.Rule = "block trees of up to ~60 blocks built from real types.Block/types.Tx (coinbase incl. zero-amount, spends, vote outputs, vetoes, retirements, issuances of 3 assets; 2 wallet accounts (P2WPKH and 2-of-2 P2WSH) with 4 programs, 2 foreign P2W programs, one non-P2W program), every block checked by the real UtxoViewpoint on its branch; the wallet is walked through them in the walletUpdater's order: runs of extensions, forks 1-13 blocks deep with branches of any length, switches to arbitrary known blocks, attaches that do not extend the work hash; vote-pending tables constant / decreasing / increasing; a case is distinct by (op, chain after it)"
		env := newW24env()
		s := &w24{c: c, mode: mode, env: env}
		if c.Replay != "" {
			for _, l := range c.ReplayLines() {
				s.exec(l)
			}
			return
		}
		for _, l := range c.CorpusLines() {
			s.exec(l)
		}
		for i := 0; i < c.N; i++ {
			c24gen(c, env, s)
		}
		c24updater(c, env, s)
	}
}

func init() {
	register("c24", runW24("c24"))
	register("c25", runW24("c25"))
}
