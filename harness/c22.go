//go:build hc22 || hall

package main

import (
	"encoding/binary"
	"fmt"
	"sort"
	"strconv"
	"strings"
	"time"

	"github.com/golang/protobuf/proto"

	"github.com/bytom/bytom/consensus"
	"github.com/bytom/bytom/database"
	dbm "github.com/bytom/bytom/database/leveldb"
	"github.com/bytom/bytom/database/storage"
	"github.com/bytom/bytom/event"
	"github.com/bytom/bytom/protocol"
	"github.com/bytom/bytom/protocol/bc"
	"github.com/bytom/bytom/protocol/bc/types"
)

// C22: operation sequences on a real protocol.TxPool over a real database.Store (MemDB)
// holding the confirmed utxos; transactions are real types.Tx forming a small DAG.
//
//	reset <maxPool> <maxOrphan> <conf,…|-> <id>/<in,…|->/<o|r…|->/<d|n> …     → ok
//	submit <id> | remove <id> | expire <k>   → ret=<r> pool=… utxo=o:t,… orph=… prev=o:t+t,…
//
// Codes: output k of tx t is t*10+k; every other number is an output created by no tx of
// the universe (confirmed-spendable iff listed in conf). `submit` is the skeleton of
// Chain.ValidateTx (protocol/tx.go): HaveTransaction guard, dust check + error cache,
// [consensus validation skipped], TxPool.ProcessTransaction. `expire k` calls ExpireOrphan
// with a time just after the k-th operation of the case (+ orphanTTL).
//
// Direct oracle (from the dump and the universe alone):
//	inv1  utxo index = original outputs of pooled txs
//	inv2a every index entry (p,o): o is a registered orphan, p is spent by o, (') p is unavailable
//	inv2b every orphan is indexed under every unavailable output it spends
//	inv3  pool ∩ orphans = ∅
//	inv4  no orphan has all spent outputs available

type c22tx struct {
	id    int
	ins   []int
	kinds string // 'o' original output, 'r' retirement
	dust  bool
	tx    *types.Tx
}

type c22env struct {
	c       *Ctx
	txs     map[int]*c22tx
	order   []int
	conf    map[int]bool
	outCode map[bc.Hash]int
	txCode  map[bc.Hash]int
	pool    *protocol.TxPool
	tAfter  []time.Time
	ttl     time.Duration
	multi   bool // the universe has a tx with >= 2 inputs
	maxPool int
	wasFull bool // len(pool) reached maxNewTxNum at some point of this case
	removedAt  map[int]int // tx code -> index of the last op in which RemoveTransaction took it out of the pool
	insertedAt map[int]int // tx code -> index of the last op that put it into the orphan table (submit -> orphan)
	nSig    map[string]int
}

func c22srcHash(code int) bc.Hash {
	var b [32]byte
	b[0] = 0xc2
	binary.BigEndian.PutUint64(b[8:], uint64(code))
	return bc.NewHash(b)
}

func c22csv(s string) ([]int, error) {
	if s == "-" {
		return nil, nil
	}
	var out []int
	for _, p := range strings.Split(s, ",") {
		n, err := strconv.Atoi(p)
		if err != nil {
			return nil, err
		}
		out = append(out, n)
	}
	return out, nil
}

// reset builds the universe described by the line and a fresh pool over a fresh store.
func (e *c22env) reset(line string) error {
	w := strings.Fields(line)
	if len(w) < 4 {
		return fmt.Errorf("bad reset line")
	}
	maxPool, err1 := strconv.Atoi(w[1])
	maxOrphan, err2 := strconv.Atoi(w[2])
	conf, err3 := c22csv(w[3])
	if err1 != nil || err2 != nil || err3 != nil {
		return fmt.Errorf("bad reset line")
	}
	e.txs, e.order, e.conf = map[int]*c22tx{}, nil, map[int]bool{}
	e.outCode, e.txCode = map[bc.Hash]int{}, map[bc.Hash]int{}
	e.tAfter, e.multi = nil, false
	e.maxPool, e.wasFull = maxPool, false
	e.removedAt, e.insertedAt = map[int]int{}, map[int]int{}
	for _, o := range conf {
		e.conf[o] = true
	}
	db := dbm.NewMemDB()
	for _, tok := range w[4:] {
		p := strings.Split(tok, "/")
		if len(p) != 4 {
			return fmt.Errorf("bad tx token %q", tok)
		}
		id, err := strconv.Atoi(p[0])
		if err != nil {
			return err
		}
		ins, err := c22csv(p[1])
		if err != nil {
			return err
		}
		t := &c22tx{id: id, ins: ins, dust: p[3] == "d"}
		if p[2] != "-" {
			t.kinds = p[2]
		}
		if len(ins) >= 2 {
			e.multi = true
		}
		data := types.TxData{Version: 1, SerializedSize: 100, TimeRange: uint64(1000 + id)}
		for _, code := range ins {
			var in *types.TxInput
			if par, ok := e.txs[code/10]; ok && code < 1000 && code%10 < len(par.kinds) && par.kinds[code%10] == 'o' {
				k := code % 10
				out, err := par.tx.OriginalOutput(*par.tx.ResultIds[k])
				if err != nil {
					return err
				}
				in = types.NewSpendInput(nil, *out.Source.Ref, *consensus.BTMAssetID, out.Source.Value.Amount, uint64(k), par.tx.Outputs[k].ControlProgram, nil)
			} else {
				in = types.NewSpendInput(nil, c22srcHash(code), *consensus.BTMAssetID, 10, 0, []byte{0x51}, nil)
			}
			data.Inputs = append(data.Inputs, in)
		}
		for k, kind := range t.kinds {
			// output ids commit to (mux id, position, amount, program) and the mux id only to the
			// INPUTS: two txs double-spending the same inputs would share the ids of equal
			// outputs, so amounts/programs are made unique per tx
			prog := []byte{0x51, byte(id), byte(k)}
			if kind == 'r' {
				prog = []byte{0x6a}
			}
			amt := uint64(5 + id)
			if t.dust && k == 0 {
				amt = 0
			}
			data.Outputs = append(data.Outputs, types.NewOriginalTxOutput(*consensus.BTMAssetID, amt, prog, nil))
		}
		t.tx = types.NewTx(data)
		for i, code := range ins {
			h := t.tx.SpentOutputIDs[i]
			if old, ok := e.outCode[h]; ok && old != code {
				return fmt.Errorf("output id collision: codes %d and %d", old, code)
			}
			e.outCode[h] = code
		}
		for k := range t.kinds {
			h := *t.tx.ResultIds[k]
			if old, ok := e.outCode[h]; ok && old != id*10+k {
				return fmt.Errorf("result id collision: codes %d and %d", old, id*10+k)
			}
			e.outCode[h] = id*10 + k
		}
		e.txCode[t.tx.ID] = id
		e.txs[id] = t
		e.order = append(e.order, id)
	}
	// confirmed utxos
	for h, code := range e.outCode {
		if e.conf[code] {
			b, err := proto.Marshal(storage.NewUtxoEntry(storage.NormalUTXOType, 1, false))
			if err != nil {
				return err
			}
			hh := h
			db.Set(database.CalcUtxoKey(&hh), b)
		}
	}
	protocol.VerifSetPoolLimits(maxPool, maxOrphan)
	e.ttl = protocol.VerifOrphanTTL()
	e.pool = protocol.NewTxPool(database.NewStore(db), event.NewDispatcher())
	return nil
}

func c22join(xs []int, sep string) string {
	sort.Ints(xs)
	s := make([]string, len(xs))
	for i, x := range xs {
		s[i] = strconv.Itoa(x)
	}
	if len(s) == 0 {
		return ""
	}
	return strings.Join(s, sep)
}

func c22dash(s string) string {
	if s == "" {
		return "-"
	}
	return s
}

type c22dump struct {
	pool, orph []int
	utxo       map[int]int
	prev       map[int][]int
	stale      int
	unknown    int
}

func (e *c22env) dump() c22dump {
	d := e.pool.VerifDump()
	r := c22dump{utxo: map[int]int{}, prev: map[int][]int{}, stale: len(d.Stale)}
	tx := func(h bc.Hash) int {
		if c, ok := e.txCode[h]; ok {
			return c
		}
		r.unknown++
		return -1
	}
	out := func(h bc.Hash) int {
		if c, ok := e.outCode[h]; ok {
			return c
		}
		r.unknown++
		return -1
	}
	for _, h := range d.Pool {
		r.pool = append(r.pool, tx(h))
	}
	for _, h := range d.Orphans {
		r.orph = append(r.orph, tx(h))
	}
	for o, t := range d.Utxo {
		r.utxo[out(o)] = tx(t)
	}
	for p, ids := range d.ByPrev {
		var l []int
		for _, id := range ids {
			l = append(l, tx(id))
		}
		sort.Ints(l)
		r.prev[out(p)] = l
	}
	sort.Ints(r.pool)
	sort.Ints(r.orph)
	return r
}

func (d c22dump) line() string {
	var us, ps []string
	var uk, pk []int
	for o := range d.utxo {
		uk = append(uk, o)
	}
	sort.Ints(uk)
	for _, o := range uk {
		us = append(us, fmt.Sprintf("%d:%d", o, d.utxo[o]))
	}
	for p := range d.prev {
		pk = append(pk, p)
	}
	sort.Ints(pk)
	for _, p := range pk {
		ps = append(ps, fmt.Sprintf("%d:%s", p, c22join(append([]int{}, d.prev[p]...), "+")))
	}
	return fmt.Sprintf("pool=%s utxo=%s orph=%s prev=%s", c22dash(c22join(append([]int{}, d.pool...), ",")), c22dash(strings.Join(us, ",")),
		c22dash(c22join(append([]int{}, d.orph...), ",")), c22dash(strings.Join(ps, ",")))
}

func c22has(xs []int, x int) bool {
	for _, y := range xs {
		if y == x {
			return true
		}
	}
	return false
}

// oracle evaluates the invariants on the dump; the first violated clause is reported.
func (e *c22env) oracle(op string, d c22dump) {
	avail := func(o int) bool { _, ok := d.utxo[o]; return ok || e.conf[o] }
	// cause tag of a violated clause: the two recorded open causes are (P22) a pool that reached
	// its limit inside processOrphans and (B22) a pooled PARENT of this orphan that was removed
	// AFTER the orphan was last put into the orphan table (its index bucket had been deleted when
	// the parent arrived; a re-submission of the orphan re-indexes it and ends the excuse; only
	// multi-input orphans can be hit); anything else is unlisted
	parentRemovedSince := func(t int) bool {
		x, ok := e.txs[t]
		if !ok {
			return false
		}
		ins, had := e.insertedAt[t]
		for _, p := range x.ins {
			if p >= 1000 {
				continue
			}
			if at, ok := e.removedAt[p/10]; ok && (!had || at > ins) {
				return true
			}
		}
		return false
	}
	arity := func(t int) string {
		multi := false
		if x, ok := e.txs[t]; ok && len(x.ins) >= 2 {
			multi = true
		}
		switch {
		case e.wasFull:
			return "after the pool limit was reached"
		case multi && parentRemovedSince(t):
			return "multi-input orphan after a pooled transaction was removed"
		case multi:
			return "multi-input orphan"
		}
		return "single-input orphan"
	}
	fail := func(sig, detail string) {
		e.c.Count("violated/" + strings.SplitN(sig, ":", 2)[0])
		// a recorded class is written out at most 25 times per run (all are counted)
		if e.nSig == nil {
			e.nSig = map[string]int{}
		}
		e.nSig[sig]++
		if e.nSig[sig] <= 25 {
			e.c.Fail(sig, fmt.Sprintf("after %q: %s; state %s", op, detail, d.line()))
		}
	}
	if d.unknown > 0 || d.stale > 0 {
		fail(fmt.Sprintf("dump has %d unknown hashes / %d stale index objects after %s", d.unknown, d.stale, op), "pool maps refer to objects outside the universe or to replaced orphan objects")
		return
	}
	// inv1
	want := map[int]int{}
	for _, t := range d.pool {
		for k, kind := range e.txs[t].kinds {
			if kind == 'o' {
				want[t*10+k] = t
			}
		}
	}
	same := len(want) == len(d.utxo)
	for o, t := range want {
		if d.utxo[o] != t {
			same = false
		}
	}
	if !same {
		fail("inv1 output index differs from the original outputs of pooled txs: "+op+" "+d.line(), fmt.Sprintf("want %v", want))
		return
	}
	// inv3
	for _, o := range d.orph {
		if c22has(d.pool, o) {
			fail("inv3 tx both pooled and orphaned / "+arity(o), fmt.Sprintf("tx %d", o))
			return
		}
	}
	// inv2a
	for p, ids := range d.prev {
		if len(ids) == 0 {
			fail("inv2a empty index bucket: "+op+" "+d.line(), fmt.Sprintf("bucket %d", p))
			return
		}
		for _, o := range ids {
			if !c22has(d.orph, o) || !c22has(e.txs[o].ins, p) {
				fail("inv2a dangling index entry: "+op+" "+d.line(), fmt.Sprintf("entry (%d,%d)", p, o))
				return
			}
		}
	}
	for p, ids := range d.prev {
		if avail(p) {
			fail("inv2a' orphan indexed under an available output / "+arity(ids[0]), fmt.Sprintf("entry (%d,%d)", p, ids[0]))
			return
		}
	}
	// inv2b
	for _, o := range d.orph {
		for _, p := range e.txs[o].ins {
			if !avail(p) && !c22has(d.prev[p], o) {
				fail("inv2b orphan not indexed under an output it waits for / "+arity(o), fmt.Sprintf("orphan %d, output %d", o, p))
				return
			}
		}
	}
	// inv4
	for _, o := range d.orph {
		all := true
		for _, p := range e.txs[o].ins {
			if !avail(p) {
				all = false
			}
		}
		if all {
			fail("inv4 orphan with all parents available is not promoted / "+arity(o), fmt.Sprintf("orphan %d", o))
			return
		}
	}
}

func (e *c22env) tick() {
	// strictly increasing clock between operations (see `expire`)
	if n := len(e.tAfter); n > 0 {
		for time.Since(e.tAfter[n-1]) < 2*time.Microsecond {
		}
	}
}

func (e *c22env) line(l string) {
	w := strings.Fields(l)
	if len(w) == 0 {
		return
	}
	if w[0] == "reset" {
		if err := e.reset(l); err != nil {
			panic(fmt.Sprintf("c22: %v in %q", err, l))
		}
		e.c.Op(l, "ok")
		return
	}
	if len(w) != 2 || e.pool == nil {
		return
	}
	n, err := strconv.Atoi(w[1])
	if err != nil {
		return
	}
	e.tick()
	ret := "-"
	switch w[0] {
	case "submit":
		t, ok := e.txs[n]
		if !ok {
			return
		}
		tx := t.tx
		switch {
		case e.pool.HaveTransaction(&tx.ID):
			ret = "have"
		case e.pool.IsDust(tx):
			e.pool.AddErrCache(&tx.ID, protocol.ErrDustTx)
			ret = "dust"
		default:
			isOrphan, err := e.pool.ProcessTransaction(tx, 1, 1)
			switch {
			case err == protocol.ErrPoolIsFull:
				ret = "full"
			case err != nil:
				ret = "error:" + err.Error()
			case isOrphan:
				ret = "orphan"
				e.insertedAt[n] = len(e.tAfter)
			default:
				ret = "pooled"
			}
		}
	case "remove":
		if t, ok := e.txs[n]; ok {
			if e.pool.IsTransactionInPool(&t.tx.ID) {
				e.removedAt[n] = len(e.tAfter)
			}
			e.pool.RemoveTransaction(&t.tx.ID)
		} else {
			h := c22srcHash(n)
			e.pool.RemoveTransaction(&h)
		}
	case "expire":
		if n < len(e.tAfter) {
			e.pool.ExpireOrphan(e.tAfter[n].Add(e.ttl + time.Nanosecond))
		} else {
			// k at or after the current operation: everything inserted so far expires
			e.pool.ExpireOrphan(time.Now().Add(e.ttl + time.Hour))
		}
	default:
		return
	}
	e.tAfter = append(e.tAfter, time.Now())
	d := e.dump()
	if len(d.pool) >= e.maxPool {
		e.wasFull = true
	}
	e.c.Op(l, "ret="+ret+" "+d.line())
	e.c.Count(w[0] + "/" + ret)
	e.oracle(l, d)
}

// c22universe draws a DAG: ids 1..K; each input is an unspent original output of an earlier
// tx (never shared: two orphans waiting for the same tx output would be processed in Go map
// order), or an outside output (confirmed or missing; these may be double-spent).
func c22universe(c *Ctx, single bool) string {
	k := 2 + c.Rng.Intn(6)
	maxPool, maxOrphan := 10000, 2000
	if c.Rng.Intn(8) == 0 {
		maxPool = 1 + c.Rng.Intn(3)
	}
	if c.Rng.Intn(8) == 0 {
		maxOrphan = 1 + c.Rng.Intn(3)
	}
	var free []int // unspent original tx outputs
	var srcs, conf []int
	var toks []string
	nextSrc := 1000
	for id := 1; id <= k; id++ {
		nIn := 1
		if !single {
			switch r := c.Rng.Intn(100); {
			case r < 45:
				nIn = 1
			case r < 85:
				nIn = 2
			default:
				nIn = 3
			}
		}
		var ins []int
		for i := 0; i < nIn; i++ {
			switch r := c.Rng.Intn(100); {
			case r < 60 && len(free) > 0:
				j := c.Rng.Intn(len(free))
				ins = append(ins, free[j])
				free = append(free[:j], free[j+1:]...)
			case r < 70 && len(srcs) > 0 && !c22has(ins, srcs[0]):
				ins = append(ins, srcs[c.Rng.Intn(len(srcs))]) // double spend of an outside output
			default:
				s := nextSrc
				nextSrc++
				srcs = append(srcs, s)
				if c.Rng.Intn(100) < 80 {
					conf = append(conf, s)
				}
				ins = append(ins, s)
			}
		}
		// no duplicate inputs inside one tx
		seen := map[int]bool{}
		var uniq []int
		for _, x := range ins {
			if !seen[x] {
				seen[x] = true
				uniq = append(uniq, x)
			}
		}
		ins = uniq
		nOut := 1 + c.Rng.Intn(3)
		kinds := ""
		for j := 0; j < nOut; j++ {
			if c.Rng.Intn(100) < 85 {
				kinds += "o"
				free = append(free, id*10+j)
			} else {
				kinds += "r"
			}
		}
		fl := "n"
		if c.Rng.Intn(25) == 0 {
			fl = "d"
		}
		var is []string
		for _, x := range ins {
			is = append(is, strconv.Itoa(x))
		}
		toks = append(toks, fmt.Sprintf("%d/%s/%s/%s", id, strings.Join(is, ","), kinds, fl))
	}
	var cs []string
	for _, x := range conf {
		cs = append(cs, strconv.Itoa(x))
	}
	return fmt.Sprintf("reset %d %d %s %s", maxPool, maxOrphan, c22dash(strings.Join(cs, ",")), strings.Join(toks, " "))
}

func runC22(c *Ctx) {
	c.Rule = "random transaction DAGs of 2-7 real transactions (1-3 inputs: unshared outputs of earlier txs, confirmed or missing outside outputs incl. double spends of those; 1-3 outputs, 15% retirements, 4% dust; 1/3 of the universes single-input only; small pool/orphan limits in 1/8 of the cases) x random sequences of submit (any order, repeated) / remove / expire; all four maps dumped after every operation; a case is distinct by universe + op prefix"
	oldTx, oldOrphan := protocol.VerifSetPoolLimits(10000, 2000)
	defer protocol.VerifSetPoolLimits(oldTx, oldOrphan)
	e := &c22env{c: c}
	lines := c.CorpusLines()
	if c.Replay != "" {
		lines = c.ReplayLines()
	}
	for _, l := range lines {
		e.line(l)
	}
	if c.Replay != "" {
		return
	}
	for i := 0; i < c.N; i++ {
		single := c.Rng.Intn(3) == 0
		u := c22universe(c, single)
		e.line(u)
		if single {
			c.Count("universe/single-input")
		} else if e.multi {
			c.Count("universe/multi-input")
		} else {
			c.Count("universe/single-input")
		}
		k := len(e.order)
		// schedule: every tx once in a random order (so promotion chains complete), with
		// random re-submissions / removals / expirations interleaved, then a random tail
		var sched []string
		for _, j := range c.Rng.Perm(k) {
			sched = append(sched, fmt.Sprintf("submit %d", e.order[j]))
			for c.Rng.Intn(100) < 35 {
				sched = append(sched, "")
			}
		}
		// dedicated shape (1/5 of the cases that allow it): a multi-parent tx C is parked as an orphan
		// while one parent A is pooled, A is removed, C is SUBMITTED AGAIN (must be re-indexed under
		// A's output too), then the other parent and A arrive: C has to be promoted
		if c.Rng.Intn(5) == 0 {
			var cands [][3]int // (C, A, B or 0)
			for _, id := range e.order {
				t := e.txs[id]
				if len(t.ins) < 2 {
					continue
				}
				for i, p := range t.ins {
					if p < 1000 && e.txs[p/10] != nil {
						b := 0
						for j, q := range t.ins {
							if j != i && q < 1000 && e.txs[q/10] != nil && q/10 != p/10 {
								b = q / 10
							}
						}
						cands = append(cands, [3]int{id, p / 10, b})
					}
				}
			}
			if len(cands) > 0 {
				cc := cands[c.Rng.Intn(len(cands))]
				sched = nil
				for _, id := range e.order {
					if id < cc[0] && id != cc[2] {
						sched = append(sched, fmt.Sprintf("submit %d", id))
					}
				}
				sched = append(sched, fmt.Sprintf("submit %d", cc[0]), fmt.Sprintf("remove %d", cc[1]), fmt.Sprintf("submit %d", cc[0]))
				if cc[2] != 0 {
					sched = append(sched, fmt.Sprintf("submit %d", cc[2]))
				}
				sched = append(sched, fmt.Sprintf("submit %d", cc[1]))
				c.Count("schedule/orphan re-submitted after a pooled parent was removed")
			}
		}
		for n := c.Rng.Intn(k + 3); n > 0; n-- {
			sched = append(sched, "")
		}
		key := u
		for j, op := range sched {
			if op == "" {
				switch r := c.Rng.Intn(100); {
				case r < 50:
					op = fmt.Sprintf("submit %d", e.order[c.Rng.Intn(k)])
				case r < 82:
					op = fmt.Sprintf("remove %d", e.order[c.Rng.Intn(k)])
				default:
					op = fmt.Sprintf("expire %d", c.Rng.Intn(j+2))
				}
			}
			key += "|" + op
			c.Distinct(key)
			e.line(op)
		}
	}
}

func init() { register("c22", runC22) }
