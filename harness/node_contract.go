//go:build hnode || hall

package main

// Contract-call epilogue of the rules layer (C13, also C10's "acceptance never depends on the
// forks the node saw"): a branch registers a contract K (block B1) and then carries a
// transaction that calls K with an argument K's code refuses (block B2). On B2's own chain K
// is registered, so the call program stands for K's code and the transaction is invalid.
//
// The scenario only matters because of WHEN the node evaluates programs: saveBlock validates
// the transactions of a block when the block is stored, with the contract table of whatever
// the main chain is at that moment; blocks attached later by a reorganisation only get the
// utxo checks. B2 therefore reaches the node either (side-branch) as a block of a branch that
// is not the main chain yet, or (orphan) before its parent B1.
//
// Implementation-only: the Lean ledger model has no program evaluation, nothing is emitted to
// the model, and the epilogue runs after everything else of the case.

import (
	"fmt"

	"github.com/bytom/bytom/consensus"
	"github.com/bytom/bytom/crypto/sha3pool"
	"github.com/bytom/bytom/protocol/bc"
	"github.com/bytom/bytom/protocol/bc/types"
	"github.com/bytom/bytom/protocol/validation"
	"github.com/bytom/bytom/protocol/vm/vmutil"
)

func (nc *nodeCase) contractCallEpilogue() {
	c, n, rng := nc.c, nc.sut, nc.c.Rng
	n.quiesce()
	best := n.chain.BestBlockHeader()
	tipName := nc.nm.name(best.Hash())
	tip, known := nc.nm.blocks[tipName]
	if !known || tipName == "b0" {
		return
	}
	E := nc.env.E
	shape := "side-branch"
	switch rng.Intn(3) {
	case 0:
		if (best.Height+1)%E != 0 {
			shape = "orphan"
		}
	case 1:
		shape = "in-order"
	}
	// fork point: the best block (orphan shape) or its grandparent (side-branch shape: B1 is below
	// the best height, B2 reaches it, B3 overtakes)
	forkName := tipName
	if shape == "side-branch" {
		anc := nc.ancestors(tipName)
		if len(anc) < 3 {
			return
		}
		forkName = anc[2]
	}
	fork := nc.nm.blocks[forkName]
	bv := nc.branchView(forkName)
	need := consensus.BCRPRequiredBTMAmount + 4*ledgerFee
	in := ""
	for _, name := range nc.spendable(bv, fork.Height+1) {
		if o := nc.ln.outs[name]; o.kind == 'n' && o.amount >= need {
			in = name
			break
		}
	}
	if in == "" {
		c.Count("contract-epilogue:no-funds")
		return
	}
	// K: <arg> 1 EQUAL   (true exactly for the argument 1); a fresh K per case
	kCode := []byte{0x51, 0x87, byte(0x51 + rng.Intn(16)), 0x75}
	var kHash [32]byte
	sha3pool.Sum256(kHash[:], kCode)
	regProg, err := vmutil.RegisterProgram(kCode)
	if err != nil {
		panic(err)
	}
	callProg, err := vmutil.CallContractProgram(kHash[:])
	if err != nil {
		panic(err)
	}
	if _, err := n.store.GetContract(kHash); err == nil {
		c.Count("contract-epilogue:contract-already-registered")
		return
	}
	o := nc.ln.outs[in]
	locked := o.amount - consensus.BCRPRequiredBTMAmount - ledgerFee
	regTx := finalizeTx(types.TxData{Version: 1, Inputs: []*types.TxInput{spendInputFor(o)}, Outputs: []*types.TxOutput{
		types.NewOriginalTxOutput(*consensus.BTMAssetID, consensus.BCRPRequiredBTMAmount, regProg, nil),
		types.NewOriginalTxOutput(*consensus.BTMAssetID, locked, callProg, nil),
	}})
	e := regTx.Entries[*regTx.ResultIds[1]].(*bc.OriginalOutput)
	callTx := func(arg byte) *types.Tx {
		return finalizeTx(types.TxData{Version: 1,
			Inputs:  []*types.TxInput{types.NewSpendInput([][]byte{{arg}}, *e.Source.Ref, *e.Source.Value.AssetId, e.Source.Value.Amount, e.Ordinal, e.ControlProgram.Code, e.StateData)},
			Outputs: []*types.TxOutput{types.NewOriginalTxOutput(*consensus.BTMAssetID, locked-ledgerFee, []byte{0x51}, nil)}})
	}
	badCall, goodCall := callTx(2), callTx(1)
	// ground truth, independent of any node state: with K registered (as it is on B2's own chain)
	// the call with argument 2 is refused and the call with argument 1 is fine
	withK := func(prog []byte) ([]byte, error) {
		if string(prog) == string(callProg) {
			return kCode, nil
		}
		return nil, fmt.Errorf("not registered")
	}
	blk := &bc.Block{BlockHeader: &bc.BlockHeader{Height: fork.Height + 2}}
	if _, err := validation.ValidateTx(badCall.Tx, blk, withK); err == nil {
		c.Count("contract-epilogue:setup-bad-call-valid")
		return
	}
	if _, err := validation.ValidateTx(goodCall.Tx, blk, withK); err != nil {
		c.Count("contract-epilogue:setup-good-call-invalid")
		return
	}
	build := func(parent *types.Block, arb byte, txs ...*types.Tx) *types.Block {
		ph := parent.Hash()
		ck, err := n.chain.PrevCheckpointByPrevHash(&ph)
		if err != nil {
			return nil
		}
		return nc.env.buildBlock(blockSpec{parent: parent, arb: arb, txs: txs, rewards: ck.Rewards, ckptTs: ck.Timestamp, nVal: len(nc.env.keys)})
	}
	send := func(b *types.Block) procResult {
		r := n.processBlock(b)
		n.quiesce()
		return r
	}
	b1 := build(fork, 21, regTx)
	if b1 == nil {
		c.Count("contract-epilogue:setup-no-checkpoint")
		return
	}
	c.Count("contract-epilogue:" + shape)
	sig := "C13:invalid-block-connected:contract-call-refused:" + shape
	var b2 *types.Block
	var r2 procResult
	switch shape {
	case "orphan":
		// same epoch as B1 ((tip.Height+1) is not an epoch end): B2 can be built before B1 is known
		ph := tip.Hash()
		ck, err := n.chain.PrevCheckpointByPrevHash(&ph)
		if err != nil {
			return
		}
		b2 = nc.env.buildBlock(blockSpec{parent: b1, arb: 22, txs: []*types.Tx{badCall}, rewards: nil, ckptTs: ck.Timestamp, nVal: len(nc.env.keys)})
		if (b2.Height)%E == 1 {
			c.Count("contract-epilogue:orphan-shape-not-applicable")
			return
		}
		r2 = send(b2)
		if r1 := send(b1); r1.String() != "ok" {
			c.Count("contract-epilogue:setup-b1-refused:" + firstWords(fmt.Sprint(r1.err), 9))
			return
		}
	case "in-order":
		// the ordinary path: B1 extends the best block and is connected before B2 arrives; B2 must
		// be refused, and a sibling that calls K with the argument K accepts must be connected
		if r1 := send(b1); r1.String() != "ok" || !n.chain.InMainChain(b1.Hash()) {
			c.Count("contract-epilogue:setup-b1-refused:" + firstWords(fmt.Sprint(r1.err), 9))
			return
		}
		if b2 = build(b1, 22, badCall); b2 == nil {
			return
		}
		r2 = send(b2)
		if !n.chain.InMainChain(b2.Hash()) {
			if b2g := build(b1, 24, goodCall); b2g != nil {
				if rg := send(b2g); !n.chain.InMainChain(b2g.Hash()) {
					c.Fail("C13:valid-block-refused:contract-call-accepted-by-contract", fmt.Sprintf("contract K (<arg> 1 EQUAL) is registered by the connected block B1 (height %d); its child spends an output locked by the call-K program with argument 1, which K accepts, and is not connected (ProcessBlock: %s %v)", b1.Height, rg.String(), rg.err))
					return
				}
				c.Count("contract-epilogue:accepted-call-connected")
			}
		}
	default:
		if r1 := send(b1); r1.String() != "ok" {
			c.Count("contract-epilogue:setup-b1-refused:" + firstWords(fmt.Sprint(r1.err), 9))
			return
		}
		if n.chain.InMainChain(b1.Hash()) {
			// B1 became the main chain at once: the ordinary in-order path, B2 must be refused
			shape = "in-order"
			sig = "C13:invalid-block-connected:contract-call-refused:in-order"
			c.Count("contract-epilogue:in-order")
		}
		if b2 = build(b1, 22, badCall); b2 == nil {
			return
		}
		r2 = send(b2)
		if b3 := build(b2, 23); b3 != nil {
			send(b3)
		}
	}
	if n.chain.InMainChain(b2.Hash()) {
		c.Fail(sig, fmt.Sprintf("contract K (<arg> 1 EQUAL) is registered by block B1 (height %d, child of %s); B2 on top of it spends an output locked by the call-K program with argument 2, which K refuses (ValidateTx with K registered: false VM result); B2 was delivered as %s (ProcessBlock: %s) and is now on the main chain, best height %d",
			b1.Height, forkName, shape, r2.String(), n.chain.BestBlockHeight()))
		return
	}
	c.Count("contract-epilogue:refused-call-not-connected")
}
