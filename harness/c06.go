//go:build hc06 || hall

package main

import (
	"bytes"
	"fmt"
	"strings"

	"github.com/bytom/bytom/protocol/vm"
)

// C06: VM values behave as immutable byte strings.
// Every generated program is run on the REAL vm.Verify in four memory layouts of the same
// byte values:
//   fresh  – every context byte string in its own exact-capacity array
//   spare  – own arrays with spare capacity behind each item
//   shared – all items cut out of ONE buffer, capacity to the end of the buffer
//            (what encoding/blockchain.ReadVarstr31 hands out)
//   guard  – like shared, with guard bytes between the items
//   op line   (one per layout):  h <limit> <arrays> <slices…>   (format: Drv/C06.lean)
//   impl line: <class> <gasLeft> <#trace lines> <fnv64(trace)> <last dump> <arrays after the run>
// compared with the HEAP instance of the model (Go slice semantics), byte for byte.
// Direct oracle (implementation alone): caller-owned arrays unchanged; all layouts give the
// same class / gas / trace; a CAT never changes the items below its result.

const (
	sigF1caller = "F1: append in place — CAT/CATPUSHDATA wrote into caller-owned memory"
	sigF1layout = "F1: the result of vm.Verify depends on how the argument bytes are laid out in memory"
	sigF1item   = "F1: CAT/CATPUSHDATA changed another stack item (shared backing array)"
)

type c06slice struct{ arr, off, ln, cp int }

func (s c06slice) String() string { return fmt.Sprintf("%d:%d:%d:%d", s.arr, s.off, s.ln, s.cp) }

type c06layout struct {
	name   string
	arrays [][]byte
	code   c06slice
	entry  c06slice
	args   []c06slice
	state  []c06slice
	asset  *c06slice
	spent  *c06slice
}

// items in a fixed order: code, args…, state…, entry, asset?, spent?
func c06items(k *vmCase) [][]byte {
	it := [][]byte{k.code}
	it = append(it, k.args...)
	it = append(it, k.state...)
	it = append(it, k.entryID)
	if k.assetID != nil {
		it = append(it, *k.assetID)
	}
	if k.spentOutputID != nil {
		it = append(it, *k.spentOutputID)
	}
	return it
}

func c06build(c *Ctx, k *vmCase, kind string) *c06layout {
	items := c06items(k)
	l := &c06layout{name: kind}
	var sl []c06slice
	switch kind {
	case "fresh", "spare":
		for i, it := range items {
			extra := 0
			if kind == "spare" {
				extra = 1 + c.Rng.Intn(8)
			}
			a := make([]byte, len(it)+extra)
			copy(a, it)
			for j := len(it); j < len(a); j++ {
				a[j] = 0xcc
			}
			l.arrays = append(l.arrays, a)
			sl = append(sl, c06slice{i, 0, len(it), len(it) + extra})
		}
	case "shared", "guard":
		var buf []byte
		var offs []int
		for _, it := range items {
			if kind == "guard" {
				buf = append(buf, 0xaa, 0xab, 0xac, 0xad)
			}
			offs = append(offs, len(buf))
			buf = append(buf, it...)
		}
		if kind == "guard" {
			buf = append(buf, 0xaa, 0xab, 0xac, 0xad)
		}
		buf = append([]byte{}, buf...) // fresh array of exactly this length … (cap may be rounded up:
		buf = buf[:len(buf):len(buf)]   // … cut it so that cap == len)
		l.arrays = [][]byte{buf}
		for i, it := range items {
			sl = append(sl, c06slice{0, offs[i], len(it), len(buf) - offs[i]})
		}
	}
	i := 0
	next := func() c06slice { s := sl[i]; i++; return s }
	l.code = next()
	for range k.args {
		l.args = append(l.args, next())
	}
	for range k.state {
		l.state = append(l.state, next())
	}
	l.entry = next()
	if k.assetID != nil {
		s := next()
		l.asset = &s
	}
	if k.spentOutputID != nil {
		s := next()
		l.spent = &s
	}
	return l
}

func (l *c06layout) slice(s c06slice) []byte { return l.arrays[s.arr][s.off : s.off+s.ln : s.off+s.cp] }

func (l *c06layout) context(k *vmCase) *vm.Context {
	ctx := &vm.Context{VMVersion: 1, Code: l.slice(l.code), EntryID: l.slice(l.entry), TxVersion: k.txVersion,
		BlockHeight: k.blockHeight, Amount: k.amount, DestPos: k.destPos}
	for _, s := range l.args {
		ctx.Arguments = append(ctx.Arguments, l.slice(s))
	}
	for _, s := range l.state {
		ctx.StateData = append(ctx.StateData, l.slice(s))
	}
	if l.asset != nil {
		b := l.slice(*l.asset)
		ctx.AssetID = &b
	}
	if l.spent != nil {
		b := l.slice(*l.spent)
		ctx.SpentOutputID = &b
	}
	if k.sigHash != nil {
		h := *k.sigHash
		ctx.TxSigHash = func() []byte { return cp(h) }
	}
	if k.checkOutput {
		ctx.CheckOutput = vmCheckOutput
	}
	return ctx
}

func c06sl(l []c06slice) string {
	if len(l) == 0 {
		return "."
	}
	s := make([]string, len(l))
	for i := range l {
		s[i] = l[i].String()
	}
	return strings.Join(s, ",")
}
func c06opt(s *c06slice) string {
	if s == nil {
		return "nil"
	}
	return s.String()
}
func c06arrays(a [][]byte) string {
	if len(a) == 0 {
		return "."
	}
	s := make([]string, len(a))
	for i := range a {
		s[i] = hx(a[i])
	}
	return strings.Join(s, ";")
}

func (l *c06layout) line(k *vmCase) string {
	co := "0"
	if k.checkOutput {
		co = "1"
	}
	return fmt.Sprintf("h %d %s %s %s %s %s %s %s %s %s %s %s %s %s .", k.limit, c06arrays(l.arrays), l.code, c06sl(l.args),
		c06sl(l.state), optU(k.txVersion), optU(k.blockHeight), c06opt(l.asset), optU(k.amount), optU(k.destPos), c06opt(l.spent),
		l.entry, optB(k.sigHash), co)
}

// ---- generator: aliasing-relevant alphabet

func c06program(c *Ctx, depth int) []byte {
	r := c.Rng
	n := 2 + r.Intn(9)
	var out []byte
	rb := func(n int) []byte { b := make([]byte, n); r.Read(b); return b }
	for i := 0; i < n; i++ {
		switch x := r.Intn(100); {
		case x < 14:
			out = append(out, vm.PushDataBytes(rb(r.Intn(10)))...)
		case x < 24:
			out = append(out, []byte{0x76, 0x78, 0x6e, 0x73, 0x7d}[r.Intn(5)]) // DUP OVER 2DUP IFDUP TUCK
		case x < 30:
			out = append(out, num(int64(r.Intn(3)))...)
			out = append(out, 0x79) // PICK
		case x < 42:
			out = append(out, num(int64(r.Intn(5)))...)
			out = append(out, []byte{0x80, 0x81}[r.Intn(2)]) // LEFT RIGHT
		case x < 48:
			out = append(out, num(int64(r.Intn(3)))...)
			out = append(out, num(int64(r.Intn(4)))...)
			out = append(out, 0x7f) // SUBSTR
		case x < 66:
			if r.Intn(3) != 0 {
				out = append(out, vm.PushDataBytes(rb(1+r.Intn(4)))...)
			}
			out = append(out, []byte{0x7e, 0x7e, 0x89}[r.Intn(3)]) // CAT CATPUSHDATA
		case x < 72:
			out = append(out, []byte{0x7c, 0x7b, 0x6b, 0x6c, 0x72}[r.Intn(5)]) // SWAP ROT TOALT FROMALT 2SWAP
		case x < 80:
			out = append(out, []byte{0xc4, 0xca, 0xc2, 0xcb, 0xae}[r.Intn(5)]) // PROGRAM ENTRYID ASSET OUTPUTID TXSIGHASH
		case x < 86:
			out = append(out, []byte{0xab, 0xa8, 0xaa, 0x83, 0x82}[r.Intn(5)]) // HASH160 SHA256 SHA3 INVERT SIZE
		case x < 90:
			out = append(out, []byte{0x87, 0x84, 0x85, 0x75, 0x6d}[r.Intn(5)])
		case x < 96 && depth < 2:
			// predicate taken from the stack or pushed; items are handed to the child by slice header
			pred := c06program(c, depth+1)
			out = append(out, num(int64(r.Intn(3)))...)
			out = append(out, vm.PushDataBytes(pred)...)
			out = append(out, num(int64(r.Intn(2)*r.Intn(300)))...)
			out = append(out, 0xc0)
		default:
			out = append(out, 0x76, 0x51, 0x80) // DUP 1 LEFT: a prefix sharing the original's array
			out = append(out, vm.PushDataBytes(rb(1+r.Intn(3)))...)
			out = append(out, 0x7e)
		}
	}
	return out
}

func c06case(c *Ctx) *vmCase {
	r := c.Rng
	k := &vmCase{vmVersion: 1, limit: 20000, entryID: make([]byte, 32), txVersion: u64p(1)}
	r.Read(k.entryID)
	if r.Intn(4) != 0 {
		a := make([]byte, 32)
		r.Read(a)
		k.assetID = &a
		s := make([]byte, 32)
		r.Read(s)
		k.spentOutputID = &s
		h := make([]byte, 32)
		r.Read(h)
		k.sigHash = &h
		k.amount = u64p(uint64(r.Intn(1000)))
		k.destPos = u64p(0)
		k.blockHeight = u64p(100)
	}
	k.code = c06program(c, 0)
	for i := 1 + r.Intn(4); i > 0; i-- {
		b := make([]byte, r.Intn(12))
		r.Read(b)
		k.args = append(k.args, b)
	}
	for i := r.Intn(2); i > 0; i-- {
		b := make([]byte, r.Intn(8))
		r.Read(b)
		k.state = append(k.state, b)
	}
	if r.Intn(8) == 0 {
		k.limit = int64(r.Intn(400))
	}
	return k
}

// c06catCheck scans a kept trace text: after a depth-0 CAT/CATPUSHDATA the items below the result
// must be the previous depth-0 stack minus the two operands.  `args` is the initial stack (bottom first).
func c06catCheck(text string, args [][]byte) string {
	var stack0, cur []string
	for i := len(args) - 1; i >= 0; i-- {
		stack0 = append(stack0, fmt.Sprintf("%x", args[i]))
	}
	pending := ""
	for _, ln := range strings.Split(text, "\n") {
		if strings.HasPrefix(ln, "vm ") {
			f := strings.Fields(ln)
			if f[1] != "0" {
				cur = nil
				continue
			}
			if pending != "" {
				next := cur
				if strings.HasPrefix(pending, "NOPx") {
					next = stack0
				}
				if (pending == "CAT" || pending == "CATPUSHDATA") && len(stack0) >= 2 && len(next) >= 1 {
					if strings.Join(stack0[2:], ",") != strings.Join(next[1:], ",") {
						return fmt.Sprintf("before %s: [%s]  after: [%s]", pending, strings.Join(stack0, ","), strings.Join(next, ","))
					}
				}
				stack0 = next
			}
			pending = f[6]
			cur = nil
		} else if strings.HasPrefix(ln, "  stack ") {
			if strings.HasPrefix(ln, "  stack 0:") {
				cur = nil
			}
			i := strings.IndexByte(ln, ':')
			cur = append(cur, strings.TrimSpace(ln[i+1:]))
		}
	}
	return ""
}

func c06one(c *Ctx, k *vmCase, tag string) {
	var first string
	for _, kind := range []string{"fresh", "spare", "shared", "guard"} {
		l := c06build(c, k, kind)
		before := make([][]byte, len(l.arrays))
		for i := range l.arrays {
			before[i] = cp(l.arrays[i])
		}
		line := l.line(k)
		res := runVMContext(l.context(k), k.limit, kind == "fresh")
		arrs := c06arrays(l.arrays)
		if res.watchdog || res.class == "unexpected" {
			arrs = "?"
		}
		c.Op(line, res.line+" "+arrs)
		c.Distinct(line)
		c.Count("layout/" + kind)
		c.Count("class/" + res.class)
		c.Count("tag/" + tag)
		// direct oracle 1: caller-owned memory unchanged
		for i := range l.arrays {
			if !bytes.Equal(before[i], l.arrays[i]) {
				failCapped(c, sigF1caller, fmt.Sprintf("layout %s array %d: %x -> %x", kind, i, before[i], l.arrays[i]))
				break
			}
		}
		// direct oracle 2: layout independence
		if kind == "fresh" {
			first = res.line
			if bad := c06catCheck(res.sink.keep.String(), k.args); bad != "" {
				failCapped(c, sigF1item, bad)
			}
		} else if res.line != first {
			failCapped(c, sigF1layout, fmt.Sprintf("fresh: %s   %s: %s", first, kind, res.line))
		}
	}
}

func runC06(c *Ctx) {
	c.Rule = "programs over the aliasing-relevant alphabet (pushes, DUP/OVER/2DUP/IFDUP/TUCK/PICK, LEFT/RIGHT/SUBSTR, CAT/CATPUSHDATA, SWAP/ROT/alt stack, PROGRAM/ENTRYID/ASSET/OUTPUTID/TXSIGHASH, hashes, INVERT, nested CHECKPREDICATE whose predicate and arguments are stack items, the chain DUP 1 LEFT x CAT), 1..4 arguments, optional state data; each program in four memory layouts (fresh / spare capacity / one shared buffer / shared buffer with guard bytes); a case is distinct by its op line"
	lines := c.CorpusLines()
	if c.Replay != "" {
		lines = c.ReplayLines()
	}
	for _, l := range lines {
		if strings.HasPrefix(l, "v ") { // a plain case: run it in all four layouts
			k, err := parseVMCase(l)
			if err == nil {
				c06one(c, k, "corpus")
			}
		}
	}
	if c.Replay != "" {
		return
	}
	for i := 0; i < c.N; i++ {
		c06one(c, c06case(c), "grammar")
	}
}

func init() { register("c06", runC06) }
