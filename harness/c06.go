//go:build hc06 || hall

package main

import (
	"bytes"
	"fmt"
	"strings"

	"github.com/bytom/bytom/protocol/vm"
)

// C06: VM values behave as immutable byte strings.
// Every generated program is run on the REAL vm.Verify in four memory layouts of the same
// byte values:
//   fresh  – every context byte string in its own exact-capacity array
//   spare  – own arrays with spare capacity behind each item
//   shared – all items cut out of ONE buffer, capacity to the end of the buffer
//            (what encoding/blockchain.ReadVarstr31 hands out)
//   guard  – like shared, with guard bytes between the items
//   op line   (one per layout):  h <limit> <arrays> <slices…>   (format: Drv/C06.lean)
//   impl line: <class> <gasLeft> <#trace lines> <fnv64(trace)> <last dump> <arrays after the run>
// compared with the HEAP instance of the model (Go slice semantics), byte for byte.
// Direct oracle (implementation alone): caller-owned arrays unchanged; all layouts give the
// same class / gas / trace; a CAT never changes the items below its result.

const (
	sigF1caller = "F1: append in place — CAT/CATPUSHDATA wrote into caller-owned memory"
	sigF1layout = "F1: the result of vm.Verify depends on how the argument bytes are laid out in memory"
	sigF1item   = "F1: CAT/CATPUSHDATA changed another stack item (shared backing array)"
	sigListSlot = "vm.Verify wrote a slot of the caller's Arguments / StateData list (the VM's stack is the caller's slice)"
	sigTwice    = "running vm.Verify twice on the same context gives different answers"
	sigEqual     = "EQUAL / EQUALVERIFY does not compare the byte strings (items sharing memory compare equal)"
	sigProgBytes = "layout:program-bytes — the verdict depends on the bytes that follow the program / predicate slice in memory"
)

type c06slice struct{ arr, off, ln, cp int }

func (s c06slice) String() string { return fmt.Sprintf("%d:%d:%d:%d", s.arr, s.off, s.ln, s.cp) }

type c06layout struct {
	name   string
	arrays [][]byte
	code   c06slice
	entry  c06slice
	args   []c06slice
	state  []c06slice
	asset  *c06slice
	spent  *c06slice

	outerArgs, outerState [][]byte // the whole backing lists of ctx.Arguments / ctx.StateData
}

// items in a fixed order: code, args…, state…, entry, asset?, spent?
func c06items(k *vmCase) [][]byte {
	it := [][]byte{k.code}
	it = append(it, k.args...)
	it = append(it, k.state...)
	it = append(it, k.entryID)
	if k.assetID != nil {
		it = append(it, *k.assetID)
	}
	if k.spentOutputID != nil {
		it = append(it, *k.spentOutputID)
	}
	return it
}

func c06build(c *Ctx, k *vmCase, kind string) *c06layout {
	items := c06items(k)
	l := &c06layout{name: kind}
	var sl []c06slice
	switch kind {
	case "fresh", "spare":
		for i, it := range items {
			extra := 0
			if kind == "spare" {
				extra = 1 + c.Rng.Intn(8)
			}
			a := make([]byte, len(it)+extra)
			copy(a, it)
			for j := len(it); j < len(a); j++ {
				a[j] = 0xcc
			}
			l.arrays = append(l.arrays, a)
			sl = append(sl, c06slice{i, 0, len(it), len(it) + extra})
		}
	case "witness":
		// the arguments as items of ONE decoded witness buffer (ReadVarstrList: count, then
		// length-prefixed items, every item a sub-slice with capacity to the end of the buffer);
		// the program in its own array followed by bytes that would complete a truncated
		// instruction; everything else in exact-capacity arrays
		nArgs := len(k.args)
		wbuf := []byte{byte(nArgs)}
		var woffs []int
		for _, a := range k.args {
			wbuf = append(wbuf, byte(len(a)))
			woffs = append(woffs, len(wbuf))
			wbuf = append(wbuf, a...)
		}
		wbuf = append(wbuf, 0x00, 0x01, 0x02) // the next field of the transaction
		wbuf = append([]byte{}, wbuf...)
		wbuf = wbuf[:len(wbuf):len(wbuf)]
		for i, it := range items {
			switch {
			case i == 0:
				a := append(cp(it), 0x00, 0x00, 0x00, 0x00, 0x51)
				a = a[:len(a):len(a)]
				l.arrays = append(l.arrays, a)
				sl = append(sl, c06slice{len(l.arrays) - 1, 0, len(it), len(a)})
			case i >= 1 && i <= nArgs:
				if i == 1 {
					l.arrays = append(l.arrays, wbuf)
				}
				sl = append(sl, c06slice{1, woffs[i-1], len(it), len(wbuf) - woffs[i-1]})
			default:
				l.arrays = append(l.arrays, cp(it))
				sl = append(sl, c06slice{len(l.arrays) - 1, 0, len(it), len(it)})
			}
		}
	case "complete":
		// one buffer; every item is followed by 00 00 00 00 51 — bytes that complete a truncated
		// JUMP / PUSHDATA at the end of the item
		var buf []byte
		var offs []int
		for _, it := range items {
			offs = append(offs, len(buf))
			buf = append(buf, it...)
			buf = append(buf, 0x00, 0x00, 0x00, 0x00, 0x51)
		}
		buf = append([]byte{}, buf...)
		buf = buf[:len(buf):len(buf)]
		l.arrays = [][]byte{buf}
		for i, it := range items {
			sl = append(sl, c06slice{0, offs[i], len(it), len(buf) - offs[i]})
		}
	case "overlap":
		// one buffer; arguments that are prefixes of the longest argument START AT THE SAME
		// ADDRESS as it (overlapping sub-slices of one decoded field), the rest follow
		longest := -1
		for i, a := range k.args {
			if longest < 0 || len(a) > len(k.args[longest]) {
				longest = i
			}
		}
		var buf []byte
		offs := make([]int, len(items))
		buf = append(buf, items[0]...)
		lpos := -1
		if longest >= 0 {
			lpos = len(buf)
			buf = append(buf, k.args[longest]...)
		}
		for i := 1; i < len(items); i++ {
			ai := i - 1
			if ai < len(k.args) && longest >= 0 && bytes.HasPrefix(k.args[longest], items[i]) {
				offs[i] = lpos
				continue
			}
			offs[i] = len(buf)
			buf = append(buf, items[i]...)
		}
		buf = append(buf, 0x00, 0x01)
		buf = append([]byte{}, buf...)
		buf = buf[:len(buf):len(buf)]
		l.arrays = [][]byte{buf}
		for i, it := range items {
			sl = append(sl, c06slice{0, offs[i], len(it), len(buf) - offs[i]})
		}
	case "shared", "guard":
		var buf []byte
		var offs []int
		for _, it := range items {
			if kind == "guard" {
				buf = append(buf, 0xaa, 0xab, 0xac, 0xad)
			}
			offs = append(offs, len(buf))
			buf = append(buf, it...)
		}
		if kind == "guard" {
			buf = append(buf, 0xaa, 0xab, 0xac, 0xad)
		}
		buf = append([]byte{}, buf...) // fresh array of exactly this length … (cap may be rounded up:
		buf = buf[:len(buf):len(buf)]   // … cut it so that cap == len)
		l.arrays = [][]byte{buf}
		for i, it := range items {
			sl = append(sl, c06slice{0, offs[i], len(it), len(buf) - offs[i]})
		}
	}
	i := 0
	next := func() c06slice { s := sl[i]; i++; return s }
	l.code = next()
	for range k.args {
		l.args = append(l.args, next())
	}
	for range k.state {
		l.state = append(l.state, next())
	}
	l.entry = next()
	if k.assetID != nil {
		s := next()
		l.asset = &s
	}
	if k.spentOutputID != nil {
		s := next()
		l.spent = &s
	}
	return l
}

func (l *c06layout) slice(s c06slice) []byte { return l.arrays[s.arr][s.off : s.off+s.ln : s.off+s.cp] }

// c06list lays a list of items out as an outer [][]byte: exact (len == cap), with spare capacity
// behind it (make([][]byte, n, n+k) as ReadVarstrList-style decoders produce), or as a sub-slice
// of a longer list with guard slots before and behind.  `outer` is the whole backing list.
func c06list(items [][]byte, mode string) (list, outer [][]byte) {
	guard := func() []byte { return []byte{0xde, 0xad} }
	switch mode {
	case "spare":
		outer = make([][]byte, len(items), len(items)+2)
		copy(outer, items)
		full := outer[:cap(outer)]
		for i := len(items); i < len(full); i++ {
			full[i] = guard()
		}
		return outer, full
	case "sub":
		outer = make([][]byte, 0, len(items)+3)
		outer = append(outer, guard())
		outer = append(outer, items...)
		outer = append(outer, guard(), guard())
		return outer[1 : 1+len(items)], outer
	case "subtight":
		outer = make([][]byte, 0, len(items)+2)
		outer = append(outer, guard())
		outer = append(outer, items...)
		outer = append(outer, guard())
		return outer[1 : 1+len(items) : 1+len(items)], outer
	}
	if len(items) == 0 {
		return nil, nil
	}
	outer = make([][]byte, len(items))
	copy(outer, items)
	return outer, outer
}

type c06slot struct {
	ptr *byte
	ln  int
	val []byte
}

func c06snap(outer [][]byte) []c06slot {
	out := make([]c06slot, len(outer))
	for i, it := range outer {
		out[i] = c06slot{ln: len(it), val: cp(it)}
		if len(it) > 0 {
			out[i].ptr = &it[0]
		}
	}
	return out
}

// c06slotDiff: "" if every slot of the outer list still holds the same slice (same first byte
// address, same length, same bytes).
func c06slotDiff(before []c06slot, outer [][]byte) string {
	for i, it := range outer {
		var p *byte
		if len(it) > 0 {
			p = &it[0]
		}
		if len(it) != before[i].ln || p != before[i].ptr || !bytes.Equal(it, before[i].val) {
			return fmt.Sprintf("slot %d: %x -> %x", i, before[i].val, it)
		}
	}
	return ""
}

func (l *c06layout) context(k *vmCase) *vm.Context {
	ctx := &vm.Context{VMVersion: 1, Code: l.slice(l.code), EntryID: l.slice(l.entry), TxVersion: k.txVersion,
		BlockHeight: k.blockHeight, Amount: k.amount, DestPos: k.destPos}
	var args, state [][]byte
	for _, s := range l.args {
		args = append(args, l.slice(s))
	}
	for _, s := range l.state {
		state = append(state, l.slice(s))
	}
	mode := map[string]string{"fresh": "exact", "spare": "spare", "shared": "sub", "guard": "subtight", "witness": "spare", "complete": "sub", "overlap": "exact"}[l.name]
	ctx.Arguments, l.outerArgs = c06list(args, mode)
	ctx.StateData, l.outerState = c06list(state, mode)
	if l.asset != nil {
		b := l.slice(*l.asset)
		ctx.AssetID = &b
	}
	if l.spent != nil {
		b := l.slice(*l.spent)
		ctx.SpentOutputID = &b
	}
	if k.sigHash != nil {
		h := *k.sigHash
		ctx.TxSigHash = func() []byte { return cp(h) }
	}
	if k.checkOutput {
		ctx.CheckOutput = vmCheckOutput
	}
	return ctx
}

func c06sl(l []c06slice) string {
	if len(l) == 0 {
		return "."
	}
	s := make([]string, len(l))
	for i := range l {
		s[i] = l[i].String()
	}
	return strings.Join(s, ",")
}
func c06opt(s *c06slice) string {
	if s == nil {
		return "nil"
	}
	return s.String()
}
func c06arrays(a [][]byte) string {
	if len(a) == 0 {
		return "."
	}
	s := make([]string, len(a))
	for i := range a {
		s[i] = hx(a[i])
	}
	return strings.Join(s, ";")
}

func (l *c06layout) line(k *vmCase) string {
	co := "0"
	if k.checkOutput {
		co = "1"
	}
	return fmt.Sprintf("h %d %s %s %s %s %s %s %s %s %s %s %s %s %s .", k.limit, c06arrays(l.arrays), l.code, c06sl(l.args),
		c06sl(l.state), optU(k.txVersion), optU(k.blockHeight), c06opt(l.asset), optU(k.amount), optU(k.destPos), c06opt(l.spent),
		l.entry, optB(k.sigHash), co)
}

// ---- generator: aliasing-relevant alphabet

func c06program(c *Ctx, depth int) []byte {
	r := c.Rng
	n := 2 + r.Intn(9)
	var out []byte
	rb := func(n int) []byte { b := make([]byte, n); r.Read(b); return b }
	for i := 0; i < n; i++ {
		switch x := r.Intn(100); {
		case x < 14:
			out = append(out, vm.PushDataBytes(rb(r.Intn(10)))...)
		case x < 24:
			out = append(out, []byte{0x76, 0x78, 0x6e, 0x73, 0x7d}[r.Intn(5)]) // DUP OVER 2DUP IFDUP TUCK
		case x < 30:
			out = append(out, num(int64(r.Intn(3)))...)
			out = append(out, 0x79) // PICK
		case x < 42:
			out = append(out, num(int64(r.Intn(5)))...)
			out = append(out, []byte{0x80, 0x81}[r.Intn(2)]) // LEFT RIGHT
		case x < 48:
			out = append(out, num(int64(r.Intn(3)))...)
			out = append(out, num(int64(r.Intn(4)))...)
			out = append(out, 0x7f) // SUBSTR
		case x < 66:
			if r.Intn(3) != 0 {
				out = append(out, vm.PushDataBytes(rb(1+r.Intn(4)))...)
			}
			out = append(out, []byte{0x7e, 0x7e, 0x89}[r.Intn(3)]) // CAT CATPUSHDATA
		case x < 72:
			out = append(out, []byte{0x7c, 0x7b, 0x6b, 0x6c, 0x72}[r.Intn(5)]) // SWAP ROT TOALT FROMALT 2SWAP
		case x < 80:
			out = append(out, []byte{0xc4, 0xca, 0xc2, 0xcb, 0xae}[r.Intn(5)]) // PROGRAM ENTRYID ASSET OUTPUTID TXSIGHASH
		case x < 86:
			out = append(out, []byte{0xab, 0xa8, 0xaa, 0x83, 0x82}[r.Intn(5)]) // HASH160 SHA256 SHA3 INVERT SIZE
		case x < 90:
			out = append(out, []byte{0x87, 0x84, 0x85, 0x75, 0x6d}[r.Intn(5)])
		case x < 94 && depth < 2:
			// predicate taken from the stack or pushed; items are handed to the child by slice header
			pred := c06program(c, depth+1)
			out = append(out, num(int64(r.Intn(3)))...)
			out = append(out, vm.PushDataBytes(pred)...)
			out = append(out, num(int64(r.Intn(2)*r.Intn(300)))...)
			out = append(out, 0xc0)
		case x < 99 && depth < 3:
			// an item compared with a proper prefix / suffix-free cut of itself that starts at the
			// same address: DUP n LEFT EQUAL, DUP 0 n SUBSTR EQUAL(VERIFY), OVER n LEFT EQUAL
			n := int64(1 + r.Intn(4))
			switch r.Intn(4) {
			case 0:
				out = append(append(out, 0x76), num(n)...)
				out = append(out, 0x80, 0x87)
			case 1:
				out = append(append(append(out, 0x76), num(0)...), num(n)...)
				out = append(out, 0x7f, []byte{0x87, 0x88}[r.Intn(2)])
			case 2:
				out = append(append(out, vm.PushDataBytes(rb(2+r.Intn(6)))...), 0x76)
				out = append(append(out, num(n)...), 0x80, 0x87)
			default:
				out = append(append(out, 0x76), num(n)...)
				out = append(out, 0x80, 0x7c, 0x87) // … SWAP EQUAL
			}
		default:
			out = append(out, 0x76, 0x51, 0x80) // DUP 1 LEFT: a prefix sharing the original's array
			out = append(out, vm.PushDataBytes(rb(1+r.Intn(3)))...)
			out = append(out, 0x7e)
		}
	}
	return out
}

// c06truncTail: an instruction whose operand bytes are cut off by the end of the program:
// JUMP / JUMPIF with 0..3 operand bytes, PUSHDATA1/2/4 with missing length bytes or a length
// reaching 1..3 bytes past the end, DATA_n short by 1..3 bytes.
func c06truncTail(c *Ctx) []byte {
	r := c.Rng
	rb := func(n int) []byte { b := make([]byte, n); r.Read(b); return b }
	switch r.Intn(8) {
	case 0, 1:
		return append([]byte{0x63}, rb(r.Intn(4))...)
	case 2:
		return append([]byte{0x51, 0x64}, rb(r.Intn(4))...)
	case 3:
		if r.Intn(3) == 0 {
			return []byte{0x4c}
		}
		n := 3 + r.Intn(4)
		return append([]byte{0x4c, byte(n)}, rb(n-1-r.Intn(3))...)
	case 4:
		if r.Intn(2) == 0 {
			return append([]byte{0x4d}, rb(r.Intn(2))...)
		}
		n := 3 + r.Intn(4)
		return append([]byte{0x4d, byte(n), 0}, rb(n-1-r.Intn(3))...)
	case 5:
		if r.Intn(2) == 0 {
			return append([]byte{0x4e}, rb(r.Intn(4))...)
		}
		n := 3 + r.Intn(4)
		return append([]byte{0x4e, byte(n), 0, 0, 0}, rb(n-1-r.Intn(3))...)
	default:
		n := 3 + r.Intn(6)
		return append([]byte{byte(n)}, rb(n-1-r.Intn(3))...)
	}
}

// c06truncCase: the truncated instruction ends the program itself, a predicate handed over as a
// witness argument (`0 SWAP 0 CHECKPREDICATE`), or a predicate pushed by the program.
func c06truncCase(c *Ctx) *vmCase {
	r := c.Rng
	k := &vmCase{vmVersion: 1, limit: 20000, entryID: make([]byte, 32), txVersion: u64p(1)}
	r.Read(k.entryID)
	body := [][]byte{{}, {0x51}, {0x51, 0x51, 0x93}, {0x00}, {0x61}}[r.Intn(5)]
	tail := c06truncTail(c)
	prog := append(cp(body), tail...)
	extra := func() {
		for i := r.Intn(3); i > 0; i-- {
			b := make([]byte, r.Intn(6))
			r.Read(b)
			k.args = append(k.args, b)
		}
	}
	switch r.Intn(3) {
	case 0: // the program itself
		extra()
		k.code = prog
	case 1: // predicate as (the last) witness argument
		extra()
		k.args = append(k.args, prog)
		k.code = []byte{0x00, 0x7c, 0x00, 0xc0}
		if r.Intn(2) == 0 {
			k.code = append(k.code, 0x75, 0x51)
		}
	default: // predicate pushed by the program (an exact-capacity copy in every layout)
		extra()
		k.code = append(append([]byte{0x00}, vm.PushDataBytes(prog)...), 0x00, 0xc0)
	}
	return k
}

// c06hasTruncated: the program or one of the arguments (a possible predicate) does not parse
func c06hasTruncated(k *vmCase) (res bool) {
	defer func() {
		if recover() != nil { // a parser that reads past the slice end
			res = true
		}
	}()
	if _, err := vm.ParseProgram(k.code); err != nil {
		return true
	}
	for _, a := range k.args {
		if _, err := vm.ParseProgram(a); err != nil {
			return true
		}
	}
	return false
}

// c06overlapCase: witness arguments that are prefixes of one another (in the `overlap` layout they
// start at the same address), compared by EQUAL / EQUALVERIFY.
func c06overlapCase(c *Ctx) *vmCase {
	r := c.Rng
	k := &vmCase{vmVersion: 1, limit: 20000, entryID: make([]byte, 32), txVersion: u64p(1)}
	r.Read(k.entryID)
	x := make([]byte, 2+r.Intn(8))
	r.Read(x)
	n := 1 + r.Intn(len(x)-1)
	if r.Intn(5) == 0 {
		n = len(x) // genuinely equal
	}
	k.args = [][]byte{cp(x), cp(x[:n])}
	if r.Intn(2) == 0 {
		k.args[0], k.args[1] = k.args[1], k.args[0]
	}
	if r.Intn(3) == 0 {
		k.args = append([][]byte{cp(x[:1+r.Intn(len(x))])}, k.args...)
	}
	k.code = [][]byte{{0x87}, {0x88, 0x51}, {0x7c, 0x87}, {0x6e, 0x87, 0x69, 0x87}, {0x87, 0x91}}[r.Intn(5)]
	return k
}

func c06case(c *Ctx) *vmCase {
	r := c.Rng
	k := &vmCase{vmVersion: 1, limit: 20000, entryID: make([]byte, 32), txVersion: u64p(1)}
	r.Read(k.entryID)
	if r.Intn(4) != 0 {
		a := make([]byte, 32)
		r.Read(a)
		k.assetID = &a
		s := make([]byte, 32)
		r.Read(s)
		k.spentOutputID = &s
		h := make([]byte, 32)
		r.Read(h)
		k.sigHash = &h
		k.amount = u64p(uint64(r.Intn(1000)))
		k.destPos = u64p(0)
		k.blockHeight = u64p(100)
	}
	k.code = c06program(c, 0)
	if r.Intn(10) < 4 { // first writes stay inside the supplied stacks: slot overwrites of the caller's lists
		pre := [][]byte{
			{0x7c},             // SWAP
			{0x77, 0x77},       // NIP NIP
			{0x7b},             // ROT
			{0x75, 0x51},       // DROP 1
			{0x83},             // INVERT (replaces the top slot)
			{0xa8, 0x20},       // SHA256 <32-byte digest> EQUAL  (hash lock; digest appended below)
			{0x6c, 0x8b, 0x6b}, // FROMALTSTACK 1ADD TOALTSTACK
			{0x6c, 0x75},       // FROMALTSTACK DROP
			{0x7c, 0x75, 0x51}, // SWAP DROP 1
			{0x8b},             // 1ADD
		}[r.Intn(10)]
		if pre[0] == 0xa8 {
			d := make([]byte, 32)
			r.Read(d)
			pre = append(append([]byte{0xa8, 0x20}, d...), 0x87)
		}
		if r.Intn(2) == 0 {
			k.code = pre
		} else {
			k.code = append(pre, k.code...)
		}
	}
	for i := 1 + r.Intn(4); i > 0; i-- {
		b := make([]byte, r.Intn(12))
		r.Read(b)
		k.args = append(k.args, b)
	}
	for i := r.Intn(3); i > 0; i-- {
		b := make([]byte, r.Intn(8))
		r.Read(b)
		if r.Intn(2) == 0 {
			b = []byte{byte(r.Intn(100))}
		}
		k.state = append(k.state, b)
	}
	if r.Intn(8) == 0 {
		k.limit = int64(r.Intn(400))
	}
	return k
}

// c06catCheck: a depth-0 CAT/CATPUSHDATA leaves the items below its result unchanged.
func c06catCheck(text string, args [][]byte) string {
	return stackBelowCheck(text, args, map[string]int{"CAT": 2, "CATPUSHDATA": 2})
}

func c06one(c *Ctx, k *vmCase, tag string) {
	var first string
	for _, kind := range []string{"fresh", "spare", "shared", "guard", "witness", "complete", "overlap"} {
		l := c06build(c, k, kind)
		before := make([][]byte, len(l.arrays))
		for i := range l.arrays {
			before[i] = cp(l.arrays[i])
		}
		line := l.line(k)
		ctx := l.context(k)
		snapA, snapS := c06snap(l.outerArgs), c06snap(l.outerState)
		lenA, lenS := len(ctx.Arguments), len(ctx.StateData)
		res := runVMContext(ctx, k.limit, kind == "fresh" || kind == "overlap")
		arrs := c06arrays(l.arrays)
		if res.watchdog || res.class == "unexpected" {
			arrs = "?"
		}
		c.Op(line, res.line+" "+arrs)
		c.Distinct(line)
		c.Count("layout/" + kind)
		c.Count("class/" + res.class)
		c.Count("tag/" + tag)
		// direct oracle 1: caller-owned memory unchanged
		for i := range l.arrays {
			if !bytes.Equal(before[i], l.arrays[i]) {
				failCapped(c, sigF1caller, fmt.Sprintf("layout %s array %d: %x -> %x", kind, i, before[i], l.arrays[i]))
				break
			}
		}
		// direct oracle 1b: the caller's LISTS — every slot of the outer slices (inside and beyond
		// the supplied length) still holds the same item, and the lengths are what they were
		if d := c06slotDiff(snapA, l.outerArgs); d != "" || len(ctx.Arguments) != lenA {
			failCapped(c, sigListSlot, fmt.Sprintf("layout %s Arguments %s", kind, d))
		} else if d := c06slotDiff(snapS, l.outerState); d != "" || len(ctx.StateData) != lenS {
			failCapped(c, sigListSlot, fmt.Sprintf("layout %s StateData %s", kind, d))
		}
		// direct oracle 1c: the same context verified again gives the same answer
		if !res.watchdog {
			again := runVMContext(ctx, k.limit, false)
			if again.line != res.line {
				failCapped(c, sigTwice, fmt.Sprintf("layout %s first: %s  second: %s", kind, res.line, again.line))
			}
		}
		if kind == "overlap" {
			if bad := equalCheck(res.sink.keep.String(), k.args); bad != "" {
				failCapped(c, sigEqual, fmt.Sprintf("layout overlap code=%x args=%s: %s", k.code, hxList(k.args), bad))
			}
		}
		// direct oracle 2: layout independence
		if kind == "fresh" {
			first = res.line
			if bad := c06catCheck(res.sink.keep.String(), k.args); bad != "" {
				failCapped(c, sigF1item, bad)
			}
			if bad := equalCheck(res.sink.keep.String(), k.args); bad != "" {
				failCapped(c, sigEqual, fmt.Sprintf("code=%x: %s", k.code, bad))
			}
		} else if res.line != first {
			sig := sigF1layout
			if tag == "trunc" || c06hasTruncated(k) {
				sig = sigProgBytes
			}
			failCapped(c, sig, fmt.Sprintf("code=%x args=%s  fresh: %s   %s: %s", k.code, hxList(k.args), first, kind, res.line))
		}
	}
}

func runC06(c *Ctx) {
	c.Rule = "programs over the aliasing-relevant alphabet (pushes, DUP/OVER/2DUP/IFDUP/TUCK/PICK, LEFT/RIGHT/SUBSTR, CAT/CATPUSHDATA, SWAP/ROT/alt stack, PROGRAM/ENTRYID/ASSET/OUTPUTID/TXSIGHASH, hashes, INVERT, nested CHECKPREDICATE whose predicate and arguments are stack items, the chain DUP 1 LEFT x CAT), 40% of the programs start with (or consist of) a write that stays inside the supplied stacks (SWAP, NIP NIP, ROT, DROP 1, INVERT, SHA256 <digest> EQUAL, FROMALTSTACK 1ADD TOALTSTACK, 1ADD …); 1..4 arguments, 0..2 state items; a quarter of the cases are programs / predicates (run from a witness argument by `0 SWAP 0 CHECKPREDICATE` or pushed) that END IN A TRUNCATED INSTRUCTION (JUMP/JUMPIF with 0..3 operand bytes, PUSHDATA1/2/4 with missing length bytes or a length reaching 1..3 bytes past the end, DATA_n short by 1..3); an eighth of the cases compare witness arguments that are prefixes of one another with EQUAL / EQUALVERIFY, and the grammar emits DUP n LEFT EQUAL / DUP 0 n SUBSTR EQUAL(VERIFY) chains (items starting at the same address with different lengths); each program in seven memory layouts of the bytes (… plus `overlap`: arguments that are prefixes of the longest argument start at the same address inside one buffer) (fresh exact capacity / spare capacity / one shared buffer / shared buffer with guard bytes / arguments as items of one ReadVarstrList-style witness buffer with the program followed by completing bytes / one buffer where every item is followed by bytes completing the instruction) combined with four layouts of the argument and state LISTS (exact / spare capacity behind the list / sub-slice of a longer list with and without capacity); after each run the caller's byte arrays and every slot of the caller's lists are compared with snapshots and the same context is verified a second time; a case is distinct by its op line"
	lines := c.CorpusLines()
	if c.Replay != "" {
		lines = c.ReplayLines()
	}
	for _, l := range lines {
		if strings.HasPrefix(l, "v ") { // a plain case: run it in all four layouts
			k, err := parseVMCase(l)
			if err == nil {
				c06one(c, k, "corpus")
			}
		}
	}
	if c.Replay != "" {
		return
	}
	for i := 0; i < c.N; i++ {
		if i%4 == 3 {
			c06one(c, c06truncCase(c), "trunc")
			continue
		}
		if i%8 == 1 {
			c06one(c, c06overlapCase(c), "overlap")
			continue
		}
		c06one(c, c06case(c), "grammar")
	}
}

func init() { register("c06", runC06) }
