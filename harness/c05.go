//go:build hc05 || hall

package main

import (
	"encoding/binary"
	"encoding/hex"
	"fmt"
	"runtime"
	"strings"

	wire "github.com/tendermint/go-wire"

	"github.com/bytom/bytom/encoding/blockchain"
	"github.com/bytom/bytom/netsync/chainmgr"
	"github.com/bytom/bytom/netsync/consensusmgr"
	msgs "github.com/bytom/bytom/netsync/messages"
	"github.com/bytom/bytom/protocol/bc"
	"github.com/bytom/bytom/protocol/bc/types"
)

// C05: decoding untrusted bytes never crashes and uses bounded memory.
//   op lines:  tx|txd|hdr|blk <text>        (or <kind>r <hex of text> when the text is not plain hex)
//              msg|cmsg <hex of message>    decodeMessage of the chain / consensus reactor
//              msgtx|msgblk|msgmined|cmsgblk <text>   raw tx / block carried inside a wire-framed message
//   impl line: ok <dump> re=… | err <class> | panic | nopanic | big
// Direct oracle (implementation alone): no panic; TotalAlloc of the decode call <= allocK*len + allocK0.
// At start-up the harness probes whether the implementation under test preallocates the declared
// number of suplinks (a 2^20-entry header); only if it does, inputs whose declared count would
// allocate >= 1 GiB are NOT executed: they are recorded as oracle failures and answered `big`.

const (
	sigF2       = "mapinputs-panic-unknown-asset-version"
	sigF3       = "suplinks-prealloc-from-declared-size"
	sigF4chain  = "chainmgr-decodeMessage-empty-index-panic"
	sigF4cons   = "consensusmgr-decodeMessage-empty-index-panic"
	allocK      = 640     // bytes allocated per byte of input text, upper bound for honest decoders
	allocK0     = 1 << 16 // constant part
	bigPrealloc = 1 << 30
)

func init() { register("c05", runC05) }

// declaredSupLinks pre-scans a header / block text with the repository's own primitive
// readers and returns the suplink count the decoder would pass to make([]*SupLink, size).
func declaredSupLinks(text []byte) (size uint64, ok bool) {
	defer func() {
		if r := recover(); r != nil { // a broken primitive must surface in the decode itself, not here
			size, ok = 0, false
		}
	}()
	raw := make([]byte, hex.DecodedLen(len(text)))
	if _, err := hex.Decode(raw, text); err != nil {
		return 0, false
	}
	r := blockchain.NewReader(raw)
	flag, err := r.ReadByte()
	if err != nil || (flag != 1 && flag != 3) {
		return 0, false
	}
	for i := 0; i < 2; i++ {
		if _, err := blockchain.ReadVarint63(r); err != nil {
			return 0, false
		}
	}
	var h bc.Hash
	if _, err := h.ReadFrom(r); err != nil {
		return 0, false
	}
	if _, err := blockchain.ReadVarint63(r); err != nil {
		return 0, false
	}
	// commitment: must contain a 32-byte hash; witness: must contain a varstr
	c, err := blockchain.ReadVarstr31(r)
	if err != nil || len(c) < 32 {
		return 0, false
	}
	w, err := blockchain.ReadVarstr31(r)
	if err != nil {
		return 0, false
	}
	if _, err := blockchain.ReadVarstr31(blockchain.NewReader(w)); err != nil {
		return 0, false
	}
	s, err := blockchain.ReadVarstr31(r)
	if err != nil {
		return 0, false
	}
	n, err := blockchain.ReadVarint31(blockchain.NewReader(s))
	if err != nil {
		return 0, false
	}
	return uint64(n), true
}

type c05stats struct {
	maxRatio  float64
	maxAlloc  uint64
	maxSample string
}

var c05st c05stats

// decodeOnly calls the real UnmarshalText of kind on text and reports panic message + bytes allocated.
func decodeOnly(kind string, text []byte) (panicMsg string, alloc uint64) {
	var ms0, ms1 runtime.MemStats
	defer func() {
		runtime.ReadMemStats(&ms1)
		alloc = ms1.TotalAlloc - ms0.TotalAlloc
		if r := recover(); r != nil {
			panicMsg = fmt.Sprint(r)
		}
	}()
	runtime.ReadMemStats(&ms0)
	switch kind {
	case "tx":
		(&types.Tx{}).UnmarshalText(text)
	case "txd":
		(&types.TxData{}).UnmarshalText(text)
	case "hdr":
		(&types.BlockHeader{}).UnmarshalText(text)
	case "blk":
		(&types.Block{}).UnmarshalText(text)
	}
	return
}

// preallocates: does SupLinks.readFrom allocate the declared count up front? (probed once)
var preallocates bool

func probePrealloc() {
	z := strings.Repeat("00", 32)
	text := []byte("01" + "00" + "00" + z + "00" + "20" + z + "0100" + "03808040")
	_, alloc := decodeOnly("hdr", text)
	preallocates = alloc >= 8<<20
}

func c05Codec(c *Ctx, opKind, kind string, text []byte, line string) {
	if preallocates && (kind == "hdr" || kind == "blk") {
		if size, ok := declaredSupLinks(text); ok && size*8 >= bigPrealloc {
			c.Op(line, "big")
			c.Count("outcome:big-not-executed")
			failLimited(c, sigF3, fmt.Sprintf("a %d-byte %s text declares %d suplinks: make([]*SupLink, %d) = %d bytes before any of them is read (not executed)", len(text), kind, size, size, size*8))
			return
		}
	}
	var res codecResult
	switch opKind {
	case "msgtx":
		res = viaMessage(opKind, text)
	case "msgblk", "msgmined", "cmsgblk":
		res = viaMessage(opKind, text)
	default:
		res = runCodec(kind, text)
	}
	c.Op(line, res.line)
	c.Count("outcome:" + res.outcome)
	if strings.HasPrefix(res.line, "err ") {
		c.Count("errclass:" + res.line[4:])
	}
	// direct oracle on the decode call alone
	pmsg, alloc := decodeOnly(kind, text)
	if pmsg != "" || res.outcome == "panic" {
		switch {
		case pmsg == "fail on handle transaction input":
			failLimited(c, sigF2, short(kind+" "+string(text)))
		default:
			failLimited(c, "panic:"+kind+":"+sigNorm(pmsg), short(string(text)))
		}
	}
	bound := uint64(allocK*len(text) + allocK0)
	ratio := float64(alloc) / float64(len(text)+1)
	if alloc > c05st.maxAlloc {
		c05st.maxAlloc = alloc
	}
	if alloc > allocK0/4 && ratio > c05st.maxRatio {
		c05st.maxRatio, c05st.maxSample = ratio, short(line)
	}
	if alloc > bound {
		if size, ok := declaredSupLinks(text); (kind == "hdr" || kind == "blk") && ok && size*8 > uint64(len(text)) {
			failLimited(c, sigF3, fmt.Sprintf("a %d-byte %s text declaring %d suplinks made the decoder allocate %d bytes (> %d*len+%d)", len(text), kind, size, alloc, allocK, allocK0))
		} else {
			failLimited(c, "alloc-not-linear:"+kind, fmt.Sprintf("%d bytes allocated for a %d-byte text: %s", alloc, len(text), short(string(text))))
		}
	}
}

// viaMessage wraps the text into the wire framing of the message that carries it, runs the
// reactor's decodeMessage and the message's Get… accessor (what the node does on receipt).
func viaMessage(opKind string, text []byte) (res codecResult) {
	defer func() {
		if r := recover(); r != nil {
			res = codecResult{line: "panic", outcome: "panic"}
		}
	}()
	fail := func(err error) codecResult { return codecResult{line: "err " + errClass(err), outcome: "err"} }
	blockLine := func(b *types.Block) codecResult {
		flag := 0
		if len(text) >= 2 {
			if v, err := hex.DecodeString(string(text[:2])); err == nil {
				flag = int(v[0])
			}
		}
		var re []byte
		var err error
		switch flag {
		case types.SerBlockHeader:
			re, err = b.MarshalTextForBlockHeader()
		case types.SerBlockTransactions:
			re, err = b.MarshalTextForTransactions()
		default:
			re, err = b.MarshalText()
		}
		if err != nil {
			return codecResult{line: "ok-but-marshal-fails " + err.Error(), outcome: "ok"}
		}
		return codecResult{line: "ok " + dBlock(flag, b, nil) + " re=" + reText(re, text), outcome: "ok"}
	}
	switch opKind {
	case "msgtx":
		bz := wire.BinaryBytes(struct{ msgs.BlockchainMessage }{&msgs.TransactionMessage{RawTx: text}})
		_, m, err := chainmgr.VerifDecodeMessage(bz)
		if err != nil {
			return codecResult{line: "wire-error " + err.Error(), outcome: "err"}
		}
		tx, err := m.(*msgs.TransactionMessage).GetTransaction()
		if err != nil {
			return fail(err)
		}
		re, _ := tx.TxData.MarshalText()
		return codecResult{line: "ok " + dTx(&tx.TxData) + " re=" + reText(re, text), outcome: "ok"}
	case "msgblk":
		bz := wire.BinaryBytes(struct{ msgs.BlockchainMessage }{&msgs.BlockMessage{RawBlock: text}})
		_, m, err := chainmgr.VerifDecodeMessage(bz)
		if err != nil {
			return codecResult{line: "wire-error " + err.Error(), outcome: "err"}
		}
		b, err := m.(*msgs.BlockMessage).GetBlock()
		if err != nil {
			return fail(err)
		}
		return blockLine(b)
	case "msgmined":
		bz := wire.BinaryBytes(struct{ msgs.BlockchainMessage }{&msgs.MineBlockMessage{RawBlock: text}})
		_, m, err := chainmgr.VerifDecodeMessage(bz)
		if err != nil {
			return codecResult{line: "wire-error " + err.Error(), outcome: "err"}
		}
		b, err := m.(*msgs.MineBlockMessage).GetMineBlock()
		if err != nil {
			return fail(err)
		}
		return blockLine(b)
	case "cmsgblk":
		bz := wire.BinaryBytes(struct{ consensusmgr.ConsensusMessage }{&consensusmgr.BlockProposeMsg{RawBlock: text}})
		_, m, err := consensusmgr.VerifDecodeMessage(bz)
		if err != nil {
			return codecResult{line: "wire-error " + err.Error(), outcome: "err"}
		}
		b, err := m.(*consensusmgr.BlockProposeMsg).GetProposeBlock()
		if err != nil {
			return fail(err)
		}
		return blockLine(b)
	}
	return codecResult{line: "bad-op", outcome: "err"}
}

// c05Msg runs decodeMessage of a reactor on raw message bytes
func c05Msg(c *Ctx, kind string, bz []byte, line string) {
	var pmsg string
	func() {
		defer func() {
			if r := recover(); r != nil {
				pmsg = fmt.Sprint(r)
			}
		}()
		if kind == "msg" {
			chainmgr.VerifDecodeMessage(bz)
		} else {
			consensusmgr.VerifDecodeMessage(bz)
		}
	}()
	if pmsg == "" {
		c.Op(line, "nopanic")
		c.Count("outcome:msg-nopanic")
		return
	}
	c.Op(line, "panic")
	c.Count("outcome:msg-panic")
	if len(bz) == 0 && strings.Contains(pmsg, "index out of range [0] with length 0") {
		if kind == "msg" {
			failLimited(c, sigF4chain, "decodeMessage(empty message): "+pmsg)
		} else {
			failLimited(c, sigF4cons, "decodeMessage(empty message): "+pmsg)
		}
		return
	}
	failLimited(c, "panic:"+kind+":"+sigNorm(pmsg), hx(bz))
}

// c05Batch: a headers / blocks message whose raw entries are `raws`, through the real wire framing,
// the reactor's decodeMessage and GetHeaders / GetBlocks (what the node does on receipt), under recover.
//   op line: msghdrs|msgblks <hex of raw entry>[,<hex of raw entry>…]   impl line: nopanic | panic
func c05Batch(c *Ctx, kind string, raws [][]byte, line string) {
	var pmsg string
	func() {
		defer func() {
			if r := recover(); r != nil {
				pmsg = fmt.Sprint(r)
			}
		}()
		var bz []byte
		if kind == "msghdrs" {
			bz = wire.BinaryBytes(struct{ msgs.BlockchainMessage }{&msgs.HeadersMessage{RawHeaders: raws}})
		} else {
			bz = wire.BinaryBytes(struct{ msgs.BlockchainMessage }{&msgs.BlocksMessage{RawBlocks: raws}})
		}
		_, m, err := chainmgr.VerifDecodeMessage(bz)
		if err != nil {
			return
		}
		switch mm := m.(type) {
		case *msgs.HeadersMessage:
			mm.GetHeaders()
		case *msgs.BlocksMessage:
			mm.GetBlocks()
		}
	}()
	if pmsg == "" {
		c.Op(line, "nopanic")
		c.Count("outcome:batch-nopanic")
		return
	}
	c.Op(line, "panic")
	c.Count("outcome:batch-panic")
	failLimited(c, "panic:"+kind+":"+sigNorm(pmsg), "raw entries (hex) "+line[len(kind)+1:]+": "+pmsg)
}

func c05BatchLine(kind string, raws [][]byte) string {
	hs := make([]string, len(raws))
	for i, r := range raws {
		hs[i] = hx(r)
	}
	return kind + " " + strings.Join(hs, ",")
}

// malformed raw entries of the batch messages (the entries are JSON strings holding hex text)
func c05BatchEntries(c *Ctx, g *codecGen) [][]byte {
	hdr, _ := g.header().MarshalText()
	quoted := func(b []byte) []byte { return []byte(`"` + string(b) + `"`) }
	return [][]byte{
		[]byte(`"`), []byte(` " `), []byte("\t\"\n"), {}, []byte(`""`), []byte(` `), []byte("\n\n"), []byte(`"" `), []byte(`"0`), []byte(`"01ab`), []byte(`01ab"`),
		[]byte(`"zz"`), []byte(`"0"`), []byte(`123`), []byte(`null`), []byte(`true`), []byte(`{}`), []byte(`[]`), []byte(`["01"]`), []byte(`{"a":"01"}`),
		[]byte(`"\u0030\u0031"`), []byte(`"\"`), []byte(`"\`), []byte(`'01'`), []byte(`"01""`), []byte(`""01"`), {0x22, 0x00, 0x22}, {0xff}, {0x22, 0xff, 0x22},
		quoted(hdr), append([]byte("  "), append(quoted(hdr), '\n')...), quoted(hdr[:len(hdr)-1]), quoted(hdr[:len(hdr)/2]), hdr,
	}
}

func c05BatchStream(c *Ctx, g *codecGen) {
	for _, kind := range []string{"msghdrs", "msgblks"} {
		for _, e := range c05BatchEntries(c, g) {
			c05Batch(c, kind, [][]byte{e}, c05BatchLine(kind, [][]byte{e}))
		}
		// a bad entry behind a good one, and several bad ones
		hdr, _ := g.header().MarshalText()
		good := []byte(`"` + string(hdr) + `"`)
		for _, e := range [][]byte{[]byte(`"`), []byte(` "`), {}, []byte(`""`)} {
			raws := [][]byte{good, e}
			c05Batch(c, kind, raws, c05BatchLine(kind, raws))
		}
	}
}

func c05Line(c *Ctx, line string) {
	f := strings.Fields(line)
	if len(f) != 2 {
		c.Op(line, "bad-op")
		return
	}
	switch f[0] {
	case "msghdrs", "msgblks":
		var raws [][]byte
		for _, h := range strings.Split(f[1], ",") {
			if h == "-" {
				raws = append(raws, []byte{})
				continue
			}
			b, err := hex.DecodeString(h)
			if err != nil {
				c.Op(line, "bad-op")
				return
			}
			raws = append(raws, b)
		}
		c05Batch(c, f[0], raws, line)
		return
	case "msg", "cmsg":
		var bz []byte
		if f[1] != "-" {
			var err error
			if bz, err = hex.DecodeString(f[1]); err != nil {
				c.Op(line, "bad-op")
				return
			}
		}
		c05Msg(c, f[0], bz, line)
		return
	case "msgtx", "msgblk", "msgmined", "cmsgblk":
		text := []byte(f[1])
		if f[1] == "-" {
			text = nil
		}
		kind := "blk"
		if f[0] == "msgtx" {
			kind = "tx"
		}
		c05Codec(c, f[0], kind, text, line)
		return
	}
	kind, text, ok := parseOpLine(line)
	if !ok {
		c.Op(line, "bad-op")
		return
	}
	c05Codec(c, kind, kind, text, line)
}

// ---------------------------------------------------------------------------------------
// mutations

var interestingVarints = []uint64{0, 1, 0x7f, 0x80, 0xff, 0x3fff, 0x4000, 1 << 20, 1 << 28, 1<<31 - 1, 1 << 31, 1<<32 - 1, 1<<63 - 1, 1 << 63, 1<<64 - 1}

func uvarint(v uint64) []byte {
	var b [10]byte
	return append([]byte{}, b[:binary.PutUvarint(b[:], v)]...)
}

func mutateRaw(c *Ctx, raw []byte) ([]byte, string) {
	r := c.Rng
	if len(raw) == 0 {
		return raw, "none"
	}
	out := append([]byte{}, raw...)
	switch k := r.Intn(9); k {
	case 0:
		return out[:r.Intn(len(out))], "truncate"
	case 1:
		out[r.Intn(len(out))] ^= 1 << uint(r.Intn(8))
		return out, "bitflip"
	case 2:
		out[r.Intn(len(out))] = byte(r.Intn(256))
		return out, "byte"
	case 3, 4: // overwrite one byte by an interesting varint (length prefixes, versions, counts)
		p := r.Intn(len(out))
		v := uvarint(interestingVarints[r.Intn(len(interestingVarints))])
		return append(append(append([]byte{}, out[:p]...), v...), out[p+1:]...), "varint"
	case 5:
		p := r.Intn(len(out))
		return append(out[:p], out[p+1:]...), "delete"
	case 6:
		p := r.Intn(len(out) + 1)
		ins := make([]byte, 1+r.Intn(4))
		r.Read(ins)
		return append(append(append([]byte{}, out[:p]...), ins...), out[p:]...), "insert"
	case 7:
		extra := make([]byte, 1+r.Intn(6))
		r.Read(extra)
		return append(out, extra...), "trailing"
	default: // small value in a random position (types, versions, flags)
		out[r.Intn(len(out))] = byte(r.Intn(5))
		return out, "small"
	}
}

func mutateText(c *Ctx, text []byte) ([]byte, string) {
	r := c.Rng
	out := append([]byte{}, text...)
	switch r.Intn(4) {
	case 0:
		if len(out) > 0 {
			return out[:len(out)-1], "text-odd"
		}
	case 1:
		if len(out) > 0 {
			out[r.Intn(len(out))] = "gz G!\x00\xff"[r.Intn(7)]
			return out, "text-badchar"
		}
	case 2:
		return []byte(strings.ToUpper(string(out))), "text-upper"
	}
	return out, "text-same"
}

// craftedHeader builds a header encoding whose suplinks extensible string declares `size`
// entries but carries only `have` of them.
func craftedHeader(g *codecGen, size uint64, have int) []byte {
	h := g.header()
	h.SupLinks = nil
	b, _ := h.MarshalText()
	raw, _ := hex.DecodeString(string(b))
	raw = raw[:len(raw)-2] // drop the suplinks extensible string (01 00)
	body := uvarint(size)
	for i := 0; i < have; i++ {
		s := &types.SupLink{SourceHeight: g.u63(), SourceHash: g.hash()}
		hb, _ := (&types.BlockHeader{SupLinks: types.SupLinks{s}}).MarshalText()
		hr, _ := hex.DecodeString(string(hb))
		// the suplink bytes are the tail after the count byte of the last extensible string
		tail := hr[len(hr)-(1+32+10+len(uvarint(s.SourceHeight))):]
		body = append(body, tail...)
	}
	raw = append(raw, uvarint(uint64(len(body)))...)
	raw = append(raw, body...)
	return raw
}

func runC05(c *Ctx) {
	c.Rule = "distinct = distinct texts/messages fed to the real decoders (valid encodings, structured mutations, crafted suplink counts, raw random bytes, wire-framed messages)"
	defer func() {
		c.Extra["max_alloc_bytes"] = c05st.maxAlloc
		c.Extra["max_alloc_ratio_bytes_per_text_byte"] = c05st.maxRatio
		c.Extra["max_alloc_ratio_sample"] = c05st.maxSample
		c.Extra["alloc_bound"] = fmt.Sprintf("%d*len(text)+%d", allocK, allocK0)
		c.Extra["implementation_preallocates_suplinks"] = preallocates
	}()
	probePrealloc()
	if c.Replay != "" {
		for _, l := range c.ReplayLines() {
			c05Line(c, l)
		}
		return
	}
	for _, l := range c.CorpusLines() {
		c05Line(c, l)
	}
	g := &codecGen{r: c.Rng, count: func(string) {}}
	c05BatchStream(c, g)
	kinds := []string{"tx", "tx", "tx", "txd", "hdr", "hdr", "blk", "blk"}
	for i := 0; i < c.N; i++ {
		stream := c.Rng.Intn(20)
		switch {
		case stream < 2: // raw random bytes as text bytes or as binary
			kind := kinds[c.Rng.Intn(len(kinds))]
			raw := make([]byte, c.Rng.Intn(40))
			c.Rng.Read(raw)
			text := []byte(hex.EncodeToString(raw))
			if c.Rng.Intn(4) == 0 {
				text = raw
			}
			c.Count("stream:random")
			line := opLine(kind, text)
			if len(text) == 0 {
				line = kind + " -"
			}
			c05Codec(c, kind, kind, text, line)
			c.Distinct(line)
		case stream < 4: // reactor messages
			kind := []string{"msg", "cmsg"}[c.Rng.Intn(2)]
			var bz []byte
			switch c.Rng.Intn(4) {
			case 0: // empty / tiny
				bz = make([]byte, c.Rng.Intn(3))
				c.Rng.Read(bz)
			case 1: // valid framing of some message
				if kind == "msg" {
					bz = wire.BinaryBytes(struct{ msgs.BlockchainMessage }{[]msgs.BlockchainMessage{
						&msgs.GetBlockMessage{Height: g.u63()}, &msgs.TransactionMessage{RawTx: g.bytes(60)},
						&msgs.StatusMessage{BestHeight: g.u63()}, &msgs.HeadersMessage{RawHeaders: g.list(3, 40)},
						&msgs.FilterClearMessage{}, &msgs.BlocksMessage{RawBlocks: g.list(3, 40)}}[c.Rng.Intn(6)]})
				} else {
					bz = wire.BinaryBytes(struct{ consensusmgr.ConsensusMessage }{[]consensusmgr.ConsensusMessage{
						&consensusmgr.BlockProposeMsg{RawBlock: g.bytes(60)},
						&consensusmgr.BlockVerificationMsg{SourceHash: g.hash(), TargetHash: g.hash(), PubKey: g.bytes(32), Signature: g.bytes(64)}}[c.Rng.Intn(2)]})
				}
				if c.Rng.Intn(2) == 0 {
					bz, _ = mutateRaw(c, bz)
				}
			default:
				bz = make([]byte, c.Rng.Intn(30))
				c.Rng.Read(bz)
				if len(bz) > 0 && c.Rng.Intn(2) == 0 {
					bz[0] = []byte{0x10, 0x11, 0x12, 0x13, 0x14, 0x15, 0x21, 0x30, 0x31, 0x40, 0x50, 0x51, 0x52, 0x60, 0x61}[c.Rng.Intn(15)]
				}
			}
			if c.Rng.Intn(3) == 0 { // random / mutated raw entries of a batch message
				bk := []string{"msghdrs", "msgblks"}[c.Rng.Intn(2)]
				ents := c05BatchEntries(c, g)
				e := append([]byte{}, ents[c.Rng.Intn(len(ents))]...)
				if c.Rng.Intn(2) == 0 {
					e, _ = mutateRaw(c, e)
				}
				if c.Rng.Intn(4) == 0 {
					e = append([]byte(" \t\n"[c.Rng.Intn(3):]), e...)
				}
				c.Count("stream:batch-message")
				c05Batch(c, bk, [][]byte{e}, c05BatchLine(bk, [][]byte{e}))
				continue
			}
			c.Count("stream:message")
			line := kind + " " + hx(bz)
			c05Msg(c, kind, bz, line)
			c.Distinct(line)
		case stream < 6: // crafted suplink counts
			sizes := []uint64{0, 1, 2, 3, 100, 1 << 10, 1 << 16, 1 << 20, 1 << 28, 1 << 30, 1<<31 - 1}
			size := sizes[c.Rng.Intn(len(sizes))]
			raw := craftedHeader(g, size, c.Rng.Intn(3))
			kind := "hdr"
			if c.Rng.Intn(3) == 0 {
				kind = "blk"
				raw[0] = 3
				raw = append(raw, 0) // no transactions
			}
			text := []byte(hex.EncodeToString(raw))
			c.Count("stream:crafted-suplinks")
			c05Codec(c, kind, kind, text, opLine(kind, text))
			c.Distinct(string(text))
		default: // generated value, possibly mutated, possibly wrapped in a message
			kind := kinds[c.Rng.Intn(len(kinds))]
			g.allowBadAV, g.allowSCSuffix = c.Rng.Intn(4) == 0, c.Rng.Intn(4) == 0
			g.allowBadAVIn = g.allowBadAV
			var text []byte
			switch kind {
			case "tx", "txd":
				text, _ = g.txData().MarshalText()
			case "hdr":
				text, _ = g.header().MarshalText()
			case "blk":
				b := g.block()
				if g.allowBadAV && len(b.Transactions) > 0 && c.Rng.Intn(2) == 0 {
					b.Transactions[0].Inputs = append(b.Transactions[0].Inputs, g.input(4))
				}
				switch c.Rng.Intn(4) {
				case 0:
					text, _ = b.MarshalTextForBlockHeader()
				case 1:
					text, _ = b.MarshalTextForTransactions()
				default:
					text, _ = b.MarshalText()
				}
			}
			mut := "valid"
			if c.Rng.Intn(5) != 0 {
				raw, _ := hex.DecodeString(string(text))
				n := 1 + c.Rng.Intn(2)
				var names []string
				for j := 0; j < n; j++ {
					var m string
					raw, m = mutateRaw(c, raw)
					names = append(names, m)
				}
				mut = strings.Join(names, "+")
				text = []byte(hex.EncodeToString(raw))
				if c.Rng.Intn(12) == 0 {
					var m string
					text, m = mutateText(c, text)
					mut += "+" + m
				}
			}
			for _, m := range strings.Split(mut, "+") {
				c.Count("mut:" + m)
			}
			opKind := kind
			if c.Rng.Intn(8) == 0 && isPlainHexText(text) {
				switch kind {
				case "tx":
					opKind = "msgtx"
				case "blk":
					opKind = []string{"msgblk", "msgmined", "cmsgblk"}[c.Rng.Intn(3)]
				}
			}
			c.Count("stream:" + opKind)
			line := opLine(kind, text)
			if opKind != kind {
				line = opKind + " " + string(text)
			} else if len(text) == 0 {
				line = kind + " -"
			}
			c05Codec(c, opKind, kind, text, line)
			c.Distinct(line)
		}
	}
}
