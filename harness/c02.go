//go:build hc02 || hall

package main

import (
	"bytes"
	"crypto/ed25519"
	"encoding/hex"
	"fmt"
	"math/big"
	"strconv"
	"strings"

	"github.com/bytom/bytom/consensus"
	"github.com/bytom/bytom/consensus/segwit"
	"github.com/bytom/bytom/crypto"
	"github.com/bytom/bytom/crypto/ed25519/chainkd"
	"github.com/bytom/bytom/errors"
	"github.com/bytom/bytom/protocol/bc"
	"github.com/bytom/bytom/protocol/bc/types"
	"github.com/bytom/bytom/protocol/validation"
	"github.com/bytom/bytom/protocol/vm"
	"github.com/bytom/bytom/protocol/vm/vmutil"
)

// C02: outputs locked by standard programs are spendable only with a matching witness.
//
//   op line:   tx <blockVersion> <blockHeight> <hex of the serialized transaction> <sigtable> <label>
//              sigtable = pk:msg:sig;...  every (32-byte item, signature hash, 64-byte item) of the
//              transaction's witnesses for which the real ed25519.Verify answers true ("." = none)
//              label    = <A|R|X>/<what>   (not read by the model; A: the direct oracle expects
//              acceptance, R: rejection, X: no expectation)
//   impl line: ok <BTMValue> <GasLeft> <GasUsed> <StorageGas>  |  vm:<vm error class>  |  val:<validation error class>
//              the verdict of the REAL validation.ValidateTx on the REAL types.Tx decoded from that text.
//
// The model side (Drv/C02.lean) decodes the same bytes, maps the transaction, computes every
// entry id and signature hash with its own SHA3-256, converts P2WPKH / P2WSH control programs,
// runs the VM model with the validation context and reproduces ValidateTx's verdict and gas.
//
// Every base transaction spends outputs locked with vmutil.P2WPKHProgram(Ripemd160(pk)) or
// vmutil.P2WSHProgram(Sha256(vmutil.P2SPMultiSigProgram(pks, m))) for 1 <= m <= n <= 6 with real
// chainkd keys and real signatures over bc.Tx.SigHash; then every single mutation listed in
// c02mutations is applied to a fresh copy.
//
// Entry kinds: every base (and its mutations: all witness mutations, a sample of the committed-field ones in the
// quick tier) is also built as a VETO of a vote output carrying the same control program (types.NewVetoInput,
// amount >= MinVoteOutputAmount, 64-byte vote key; label suffix @veto) and as an ISSUANCE whose issuance program
// is that witness-form program (label suffix @issuance): NewTxVMContext must convert the program for all of them.
//
// Huge-witness share: every lock is also spent / vetoed with tens of thousands of empty / 1- / 2-byte witness
// arguments (around and above MaxGasAmount/8 of them) and NO signature, or the valid witness buried under / on top
// of them; the text is the real serialization (real storage gas) and the fee buys the maximal gas.
// Oracle `C02:accepted-without-valid-witness` (c02satisfied): for EVERY accepted transaction of the stream, each
// input locked by a standard program is re-judged without the implementation — standard-library Ed25519 over
// bc.Tx.SigHash, hash of the presented key / script against the committed one, the ordered matching of the m
// signatures below the script — and must be satisfied.
//
// Signature malleability share: every valid signature R||S of a witness is also offered as its
// non-canonical twins R||(S+kL) (L = group order; k = 1.. while it fits 256 bits), with each of the
// three top bits of S set, and with R re-encoded non-canonically (y+p, possible only for y < 19);
// plus outputs locked to small-order / non-canonically encoded public keys with the degenerate
// signatures (identity, 0), (identity, L), (non-canonical identity, 0).
// The Ed25519 oracle table of the op line is computed with the Go STANDARD LIBRARY crypto/ed25519 of
// the harness module (RFC 8032 strict: S < L), never with the verifier the repository links into
// protocol/vm; and c02nonCanonical decides canonicity from the bytes alone (S < L, y(R) < p).
// Oracle `C02:non-canonical-signature-accepted`: ValidateTx accepted a spend of a standard output in
// which a signature the program consumes is not canonical.
//
// Direct oracle (implementation only): unmutated => accepted; any mutation of a signature, a
// public key, the redeem script or a committed field => rejected; mutations that provably do not
// change what is signed (listed with the reason at c02mutations) => accepted.

type c02key struct {
	xprv chainkd.XPrv
	pub  []byte
}

func c02newKey(c *Ctx) c02key {
	seed := make([]byte, 32)
	c.Rng.Read(seed)
	root := chainkd.RootXPrv(seed)
	path := [][]byte{{byte(c.Rng.Intn(256))}, {byte(c.Rng.Intn(256)), 1}}
	x := root.Derive(path)
	return c02key{x, []byte(x.XPub().PublicKey())}
}

// c02lock is how one spent output is locked and who signs.
type c02lock struct {
	kind    string // "pkh" | "sh"
	keys    []c02key
	m       int
	signers []int  // ascending indices into keys (sh); [0] for pkh
	script  []byte // sh: redeem script
	prog    []byte // control program of the spent output
}

func c02must(b []byte, err error) []byte {
	if err != nil {
		panic(err)
	}
	return b
}

func c02pkh(c *Ctx) *c02lock {
	k := c02newKey(c)
	return &c02lock{kind: "pkh", keys: []c02key{k}, m: 1, signers: []int{0}, prog: c02must(vmutil.P2WPKHProgram(crypto.Ripemd160(k.pub)))}
}

func c02sh(c *Ctx, m, n int) *c02lock {
	l := &c02lock{kind: "sh", m: m}
	var pubs []ed25519.PublicKey
	for i := 0; i < n; i++ {
		k := c02newKey(c)
		l.keys = append(l.keys, k)
		pubs = append(pubs, ed25519.PublicKey(k.pub))
	}
	l.script = c02must(vmutil.P2SPMultiSigProgram(pubs, m))
	l.prog = c02must(vmutil.P2WSHProgram(crypto.Sha256(l.script)))
	// a random m-subset, ascending
	perm := c.Rng.Perm(n)[:m]
	pick := map[int]bool{}
	for _, p := range perm {
		pick[p] = true
	}
	for i := 0; i < n; i++ {
		if pick[i] {
			l.signers = append(l.signers, i)
		}
	}
	return l
}

// witness for message msg
func (l *c02lock) witness(msg []byte) [][]byte {
	if l.kind == "pkh" {
		return [][]byte{l.keys[0].xprv.Sign(msg), l.keys[0].pub}
	}
	var args [][]byte
	for _, s := range l.signers {
		args = append(args, l.keys[s].xprv.Sign(msg))
	}
	return append(args, l.script)
}

type c02base struct {
	td    *types.TxData
	locks []*c02lock
	name  string
}

func c02rand32(c *Ctx) (h [32]byte) {
	c.Rng.Read(h[:])
	return
}

func c02asset(c *Ctx) bc.AssetID {
	h := c02rand32(c)
	return bc.NewAssetID(h)
}

func c02hash(c *Ctx) bc.Hash {
	return bc.NewHash(c02rand32(c))
}

const c02fee = 40000000 // 200000 gas at VMGasRate 200

// sign fills the witness of every input from its lock
func (b *c02base) sign() {
	tx := types.MapTx(b.td)
	for i, l := range b.locks {
		h := tx.SigHash(uint32(i))
		b.td.Inputs[i].SetArguments(l.witness(h.Bytes()))
	}
}

// c02build: shape 0 = one BTM input, two BTM outputs; shape 1 = input 0 carries another asset,
// input 1 (BTM, P2WPKH of its own key) pays the gas; shape 2 = like 0 plus a retirement output;
// shape 3 = input 0 is a VETO of a vote output with that control program; shape 4 = input 0 is an ISSUANCE
// whose issuance program is that (witness-form) program, input 1 pays the gas
func c02build(c *Ctx, lock *c02lock, shape int) *c02base {
	b := &c02base{td: &types.TxData{Version: 1, TimeRange: 0}}
	other := func() []byte {
		if c.Rng.Intn(2) == 0 {
			return c02pkh(c).prog
		}
		return c02sh(c, 1, 2).prog
	}
	btm := *consensus.BTMAssetID
	switch shape {
	case 0, 2:
		amt := uint64(c02fee + 1000 + c.Rng.Intn(1000000))
		b.td.Inputs = []*types.TxInput{types.NewSpendInput(nil, c02hash(c), btm, amt, uint64(c.Rng.Intn(3)), lock.prog, nil)}
		b.locks = []*c02lock{lock}
		rest := amt - c02fee
		a0 := 1 + uint64(c.Rng.Int63n(int64(rest-300)))
		b.td.Outputs = []*types.TxOutput{
			types.NewOriginalTxOutput(btm, a0, other(), nil),
			types.NewOriginalTxOutput(btm, rest-a0-100, other(), [][]byte{{1, 2, 3}}),
		}
		if shape == 2 {
			b.td.Outputs = append(b.td.Outputs, types.NewOriginalTxOutput(btm, 100, c02must(vmutil.RetireProgram([]byte("c02"))), nil))
		}
	case 3:
		// a VETO of a vote output carrying the same control program
		amt := uint64(consensus.MinVoteOutputAmount + c02fee + 1000 + uint64(c.Rng.Intn(1000000)))
		vote := make([]byte, 64)
		c.Rng.Read(vote)
		b.td.Inputs = []*types.TxInput{types.NewVetoInput(nil, c02hash(c), btm, amt, uint64(c.Rng.Intn(3)), lock.prog, vote, nil)}
		b.locks = []*c02lock{lock}
		rest := amt - c02fee
		a0 := 1 + uint64(c.Rng.Int63n(int64(rest-300)))
		b.td.Outputs = []*types.TxOutput{
			types.NewOriginalTxOutput(btm, a0, other(), nil),
			types.NewOriginalTxOutput(btm, rest-a0-100, other(), [][]byte{{1, 2, 3}}),
		}
	case 4:
		// an ISSUANCE whose issuance program has the witness form (convertProgram applies to it too)
		nonce := make([]byte, 8)
		c.Rng.Read(nonce)
		def := make([]byte, 4+c.Rng.Intn(12))
		c.Rng.Read(def)
		amt := uint64(10 + c.Rng.Intn(100000))
		in0 := types.NewIssuanceInput(nonce, amt, lock.prog, nil, def)
		asset := in0.AssetID()
		gasLock := c02pkh(c)
		gasAmt := uint64(c02fee + 5000 + c.Rng.Intn(100000))
		b.td.Inputs = []*types.TxInput{in0, types.NewSpendInput(nil, c02hash(c), btm, gasAmt, 1, gasLock.prog, nil)}
		b.locks = []*c02lock{lock, gasLock}
		b.td.Outputs = []*types.TxOutput{
			types.NewOriginalTxOutput(asset, amt-3, other(), nil),
			types.NewOriginalTxOutput(btm, gasAmt-c02fee, other(), nil),
			types.NewOriginalTxOutput(asset, 3, other(), nil),
		}
	case 1:
		asset := c02asset(c)
		amt := uint64(10 + c.Rng.Intn(100000))
		gasLock := c02pkh(c)
		gasAmt := uint64(c02fee + 5000 + c.Rng.Intn(100000))
		b.td.Inputs = []*types.TxInput{
			types.NewSpendInput(nil, c02hash(c), asset, amt, 0, lock.prog, nil),
			types.NewSpendInput(nil, c02hash(c), btm, gasAmt, 1, gasLock.prog, nil),
		}
		b.locks = []*c02lock{lock, gasLock}
		b.td.Outputs = []*types.TxOutput{
			types.NewOriginalTxOutput(asset, amt-3, other(), nil),
			types.NewOriginalTxOutput(btm, gasAmt-c02fee, other(), nil),
			types.NewOriginalTxOutput(asset, 3, other(), nil),
		}
	}
	b.sign()
	return b
}

// ---- running one transaction text through the real code

var c02valNames = map[error]string{
	validation.ErrTxVersion:            "txversion",
	validation.ErrWrongTransactionSize: "size",
	validation.ErrBadTimeRange:         "timerange",
	validation.ErrInputDoubleSend:      "doublespend",
	validation.ErrEmptyResults:         "emptyresults",
	validation.ErrOverflow:             "overflow",
	validation.ErrNoSource:             "nosource",
	validation.ErrGasCalculate:         "gas",
	validation.ErrUnbalanced:           "unbalanced",
	validation.ErrOverGasCredit:        "overgas",
	validation.ErrVotePubKey:           "votepubkey",
	validation.ErrVoteOutputAmount:     "voteamount",
	validation.ErrVoteOutputAseet:      "voteasset",
	validation.ErrMismatchedReference:  "mismatchedref",
	validation.ErrMismatchedValue:      "mismatchedvalue",
	validation.ErrMismatchedPosition:   "mismatchedposition",
	validation.ErrMissingField:         "missingfield",
	validation.ErrPosition:             "position",
	bc.ErrMissingEntry:                 "missingentry",
	bc.ErrEntryType:                    "entrytype",
}

var c02vmNames = map[error]string{
	vm.ErrAltStackUnderflow:  "altStackUnderflow",
	vm.ErrBadValue:           "badValue",
	vm.ErrContext:            "context",
	vm.ErrDataStackUnderflow: "dataStackUnderflow",
	vm.ErrDisallowedOpcode:   "disallowedOpcode",
	vm.ErrDivZero:            "divZero",
	vm.ErrFalseVMResult:      "falseVMResult",
	vm.ErrLongProgram:        "longProgram",
	vm.ErrRange:              "range",
	vm.ErrReturn:             "return",
	vm.ErrRunLimitExceeded:   "runLimitExceeded",
	vm.ErrShortProgram:       "shortProgram",
	vm.ErrUnsupportedVM:      "unsupportedVM",
	vm.ErrVerifyFailed:       "verifyFailed",
	vm.ErrUnexpected:         "unexpected",
}

func c02class(err error) string {
	root := errors.Root(err)
	if n, ok := c02vmNames[root]; ok {
		return "vm:" + n
	}
	if n, ok := c02valNames[root]; ok {
		return "val:" + n
	}
	return "other:" + strings.ReplaceAll(root.Error(), " ", "_")
}

func c02pushes(code []byte) [][]byte {
	var out [][]byte
	for pc := uint32(0); pc < uint32(len(code)); {
		inst, err := vm.ParseOp(code, pc)
		if err != nil || inst.Len == 0 {
			break
		}
		if len(inst.Data) > 0 {
			out = append(out, inst.Data)
		}
		pc += inst.Len
	}
	return out
}

// the oracle table: every (pk, msg, sig) with pk a 32-byte item and sig a 64-byte item of some
// input's witness (arguments, the pushes inside them and the pushes of the control program), msg the signature hash of some input
// (and, when wide, every 32-byte item) for which ed25519.Verify is true
func c02sigTable(tx *types.Tx, wide bool) string {
	var pks, sgs, msgs [][]byte
	seen := map[string]bool{}
	add := func(it []byte) {
		if seen[string(it)] {
			return
		}
		seen[string(it)] = true
		switch len(it) {
		case 32:
			pks = append(pks, it)
		case 64:
			sgs = append(sgs, it)
		}
	}
	for i, in := range tx.Inputs {
		h := tx.SigHash(uint32(i))
		msgs = append(msgs, h.Bytes())
		for _, p := range c02pushes(in.ControlProgram()) {
			add(p)
		}
		for _, a := range in.Arguments() {
			add(a)
			if len(a) > 33 && len(a) != 64 {
				for _, p := range c02pushes(a) {
					add(p)
				}
			}
		}
	}
	if wide {
		msgs = append(msgs, pks...)
	}
	var parts []string
	done := map[string]bool{}
	for _, pk := range pks {
		for _, msg := range msgs {
			for _, sg := range sgs {
				if ed25519.Verify(ed25519.PublicKey(pk), msg, sg) {
					s := hex.EncodeToString(pk) + ":" + hex.EncodeToString(msg) + ":" + hex.EncodeToString(sg)
					if !done[s] {
						done[s] = true
						parts = append(parts, s)
					}
				}
			}
		}
	}
	if len(parts) == 0 {
		return "."
	}
	return strings.Join(parts, ";")
}


// ---- signature canonicity, decided from the bytes (no verifier involved)

var (
	c02L, _ = new(big.Int).SetString("7237005577332262213973186563042994240857116359379907606001950938285454250989", 10) // 2^252 + 27742317777372353535851937790883648493
	c02P    = new(big.Int).Sub(new(big.Int).Lsh(big.NewInt(1), 255), big.NewInt(19))
)

func c02le(b []byte) *big.Int {
	r := make([]byte, len(b))
	for i := range b {
		r[len(b)-1-i] = b[i]
	}
	return new(big.Int).SetBytes(r)
}

func c02toLE32(v *big.Int) []byte {
	be := v.Bytes()
	if len(be) > 32 {
		return nil
	}
	out := make([]byte, 32)
	for i := range be {
		out[len(be)-1-i] = be[i]
	}
	return out
}

// c02nonCanonical: a 64-byte signature whose S is not reduced (S >= L) or whose R is not the
// canonical encoding of its y coordinate (y >= p)
func c02nonCanonical(sig []byte) bool {
	if len(sig) != 64 {
		return false
	}
	if c02le(sig[32:]).Cmp(c02L) >= 0 {
		return true
	}
	y := append([]byte{}, sig[:32]...)
	y[31] &= 0x7f
	return c02le(y).Cmp(c02P) >= 0
}

// R || (S + k*L), nil when it does not fit 256 bits
func c02sPlus(sig []byte, k int64) []byte {
	s := new(big.Int).Add(c02le(sig[32:]), new(big.Int).Mul(big.NewInt(k), c02L))
	b := c02toLE32(s)
	if b == nil {
		return nil
	}
	return append(append([]byte{}, sig[:32]...), b...)
}

// R re-encoded as y+p (same point), nil unless y < 19
func c02rNonCanon(sig []byte) []byte {
	y := append([]byte{}, sig[:32]...)
	sign := y[31] & 0x80
	y[31] &= 0x7f
	v := c02le(y)
	if v.Cmp(big.NewInt(19)) >= 0 {
		return nil
	}
	b := c02toLE32(new(big.Int).Add(v, c02P))
	b[31] |= sign
	return append(b, sig[32:]...)
}

// the signatures the standard program of this input consumes: P2WPKH — the item below the key;
// P2WSH of TXSIGHASH <keys> m n CHECKMULTISIG — the m items below the script
func c02consumed(in *types.TxInput) [][]byte {
	args := in.Arguments()
	prog := in.ControlProgram()
	n := len(args)
	switch {
	case segwit.IsP2WPKHScript(prog):
		if n >= 2 {
			return [][]byte{args[n-2]}
		}
	case segwit.IsP2WSHScript(prog):
		if n == 0 {
			return nil
		}
		insts, err := vm.ParseProgram(args[n-1])
		if err != nil || len(insts) < 4 || insts[0].Op != vm.OP_TXSIGHASH || insts[len(insts)-1].Op != vm.OP_CHECKMULTISIG {
			return nil
		}
		mi, err := vm.AsBigInt(insts[len(insts)-3].Data)
		if err != nil || !mi.IsUint64() || mi.Uint64() > uint64(n-1) {
			return nil
		}
		m := int(mi.Uint64())
		return args[n-1-m : n-1]
	}
	return nil
}


// c02satisfied decides, WITHOUT the implementation (standard-library Ed25519, the hashes of the witness
// bytes), whether the witness of input i satisfies its standard lock: P2WPKH — the top item is a 32-byte key
// with the committed hash160 and the item below it a signature of this input's signature hash under that key;
// P2WSH of TXSIGHASH <keys> m n CHECKMULTISIG — the top item is a script with the committed hash, and the m
// items below it match, in order, a subsequence of its 32-byte keys. known = false for anything else
// (non-standard program or redeem script): no verdict.
func c02satisfied(tx *types.Tx, i int) (ok bool, known bool) {
	in := tx.Inputs[i]
	args := in.Arguments()
	prog := in.ControlProgram()
	n := len(args)
	msg := tx.SigHash(uint32(i)).Bytes()
	switch {
	case segwit.IsP2WPKHScript(prog):
		h, err := segwit.GetHashFromStandardProg(prog)
		if err != nil {
			return false, false
		}
		if n < 2 {
			return false, true
		}
		pk, sg := args[n-1], args[n-2]
		return len(pk) == 32 && bytes.Equal(crypto.Ripemd160(pk), h) && ed25519.Verify(ed25519.PublicKey(pk), msg, sg), true
	case segwit.IsP2WSHScript(prog):
		h, err := segwit.GetHashFromStandardProg(prog)
		if err != nil {
			return false, false
		}
		if n < 1 || !bytes.Equal(crypto.Sha256(args[n-1]), h) {
			return false, true
		}
		insts, err := vm.ParseProgram(args[n-1])
		if err != nil || len(insts) < 4 || insts[0].Op != vm.OP_TXSIGHASH || insts[len(insts)-1].Op != vm.OP_CHECKMULTISIG {
			return false, false
		}
		keys := insts[1 : len(insts)-3]
		mi, err1 := vm.AsBigInt(insts[len(insts)-3].Data)
		ni, err2 := vm.AsBigInt(insts[len(insts)-2].Data)
		if err1 != nil || err2 != nil || !mi.IsUint64() || !ni.IsUint64() || ni.Uint64() != uint64(len(keys)) {
			return false, false
		}
		for _, k := range keys {
			if len(k.Data) != 32 || !k.IsPushdata() {
				return false, false
			}
		}
		m := int(mi.Uint64())
		if m > len(keys) || (len(keys) > 0 && m == 0) || m > n-1 {
			return false, true
		}
		sigs := args[n-1-m : n-1]
		ki := 0
		for _, sg := range sigs {
			for ki < len(keys) && !ed25519.Verify(ed25519.PublicKey(keys[ki].Data), msg, sg) {
				ki++
			}
			if ki == len(keys) {
				return false, true
			}
			ki++
		}
		return true, true
	}
	return false, false
}

func c02noConverter(prog []byte) ([]byte, error) { return nil, errors.New("no contract converter") }

func c02run(c *Ctx, bv, bh uint64, text string, label string) string {
	tx := &types.Tx{}
	var res string
	table := "."
	func() {
		defer func() {
			if r := recover(); r != nil {
				res = "panic"
			}
		}()
		if err := tx.UnmarshalText([]byte(text)); err != nil {
			res = "undecodable"
			return
		}
		table = c02sigTable(tx, strings.Contains(label, "wild"))
		block := &bc.Block{
			BlockHeader:  &bc.BlockHeader{Version: bv, Height: bh},
			Transactions: []*bc.Tx{types.MapTx(&types.TxData{Version: 1, SerializedSize: 1}), tx.Tx},
		}
		gs, err := validation.ValidateTx(tx.Tx, block, c02noConverter)
		if err != nil {
			res = c02class(err)
		} else {
			res = fmt.Sprintf("ok %d %d %d %d", gs.BTMValue, gs.GasLeft, gs.GasUsed, gs.StorageGas)
		}
	}()
	c.Op(fmt.Sprintf("tx %d %d %s %s %s", bv, bh, text, table, label), res)
	verdict := res
	if strings.HasPrefix(res, "ok ") {
		verdict = "ok"
	}
	c.Count("verdict:" + verdict)
	cls := label
	if i := strings.Index(cls, "/"); i >= 0 {
		cls = cls[i+1:]
	}
	if i := strings.Index(cls, "."); i >= 0 {
		cls = cls[:i]
	}
	c.Count("mutation:" + cls)
	if verdict == "ok" && tx.Tx != nil {
		for i := range tx.Inputs {
			if sat, known := c02satisfied(tx, i); known && !sat {
				c.Fail("C02:accepted-without-valid-witness", fmt.Sprintf("%s: input %d (%d witness items) accepted although its witness does not carry the signatures its standard lock asks for", label, i, len(tx.Inputs[i].Arguments())))
			}
		}
		for i, in := range tx.Inputs {
			for _, sg := range c02consumed(in) {
				if c02nonCanonical(sg) {
					c.Fail("C02:non-canonical-signature-accepted", fmt.Sprintf("%s: input %d accepted with the non-canonical signature %x", label, i, sg))
				}
			}
		}
	}
	switch {
	case strings.HasPrefix(label, "A/") && verdict != "ok":
		c.Fail("C02:valid-spend-rejected", fmt.Sprintf("%s: %s", label, res))
	case strings.HasPrefix(label, "R/") && verdict == "ok":
		c.Fail("C02:mutated-spend-accepted", fmt.Sprintf("%s accepted", label))
	}
	return res
}

// ---- mutations

type c02mut struct {
	label string // A/.. R/.. X/..
	bv    uint64 // 0 = default block version
	f     func(td *types.TxData)
}

func c02text(td *types.TxData) string {
	b, err := td.MarshalText()
	if err != nil {
		panic(err)
	}
	return string(b)
}

func c02clone(td *types.TxData) *types.TxData {
	out := &types.TxData{}
	if err := out.UnmarshalText([]byte(c02text(td))); err != nil {
		panic(err)
	}
	return out
}

// the spend commitment of a spend or veto input (nil for an issuance)
func c02sc(td *types.TxData, i int) *types.SpendCommitment {
	switch t := td.Inputs[i].TypedInput.(type) {
	case *types.SpendInput:
		return &t.SpendCommitment
	case *types.VetoInput:
		return &t.SpendCommitment
	}
	return nil
}

func c02flip(b []byte, pos int) []byte {
	out := append([]byte{}, b...)
	if len(out) == 0 {
		return []byte{1}
	}
	out[pos%len(out)] ^= 1 << uint(pos%8)
	return out
}

// re-sign input i of td with its lock (after a change that the test wants to be consistent)
func c02resign(td *types.TxData, locks []*c02lock, only int) {
	tx := types.MapTx(td)
	for i, l := range locks {
		if only >= 0 && i != only {
			continue
		}
		h := tx.SigHash(uint32(i))
		td.Inputs[i].SetArguments(l.witness(h.Bytes()))
	}
}

// c02mutations lists every single mutation of base b (input 0 is the one under test).
//
// Expected ACCEPTED (A), with the reason — none of these changes an entry id, hence not the
// transaction id, the input id or the signature hash, and none changes the items the program reads:
//   * witness-suffix / commitment-suffix / spend-commitment-suffix bytes: serialized but never hashed
//     (writeForHash does not see them; C03 txid_ignores_witness) and not passed to the VM;
//   * extra witness items BELOW the ones the program consumes: the programs never look at the
//     rest of the stack (P2WPKH: [junk, sig, pk]; P2WSH: CHECKPREDICATE copies the whole stack into
//     the child and CHECKMULTISIG pops only the top m signatures);
//   * the other input's witness replaced by another valid witness of the same lock (P2WSH, other subset);
//   * the comment of a retirement output: a Retirement entry hashes only its value source
//     (C03 retirement_program_not_committed), so the id does not commit to it.
// Everything else is expected REJECTED (R).
func c02mutations(c *Ctx, b *c02base) []c02mut {
	var ms []c02mut
	add := func(label string, f func(td *types.TxData)) { ms = append(ms, c02mut{label: label, f: f}) }
	addBV := func(label string, bv uint64, f func(td *types.TxData)) { ms = append(ms, c02mut{label: label, bv: bv, f: f}) }
	lock := b.locks[0]
	args0 := b.td.Inputs[0].Arguments()
	nsig := len(args0) - 1
	if lock.kind == "pkh" {
		nsig = 1
	}
	setArgs := func(td *types.TxData, a [][]byte) { td.Inputs[0].SetArguments(a) }
	cp := func(a [][]byte) [][]byte {
		out := make([][]byte, len(a))
		for i := range a {
			out[i] = append([]byte{}, a[i]...)
		}
		return out
	}
	stranger := c02newKey(c)
	sigHash0 := types.MapTx(b.td).SigHash(0).Bytes()
	otherMsg := crypto.Sha256(sigHash0)

	// --- each signature
	for i := 0; i < nsig; i++ {
		i := i
		for _, p := range []struct {
			n   string
			pos int
		}{{"first", 0}, {"middle", 31}, {"last", 63}, {"sbyte", 32}} {
			p := p
			add(fmt.Sprintf("R/sigflip.%d.%s", i, p.n), func(td *types.TxData) {
				a := cp(args0)
				a[i][p.pos] ^= 0x01 << uint(c.Rng.Intn(8))
				setArgs(td, a)
			})
		}
		add(fmt.Sprintf("R/sigdrop.%d", i), func(td *types.TxData) {
			a := cp(args0)
			setArgs(td, append(a[:i], a[i+1:]...))
		})
		add(fmt.Sprintf("R/sigempty.%d", i), func(td *types.TxData) {
			a := cp(args0)
			a[i] = nil
			setArgs(td, a)
		})
		add(fmt.Sprintf("R/sigtrunc.%d", i), func(td *types.TxData) {
			a := cp(args0)
			a[i] = a[i][:63]
			setArgs(td, a)
		})
		add(fmt.Sprintf("R/sigotherkey.%d", i), func(td *types.TxData) {
			a := cp(args0)
			a[i] = stranger.xprv.Sign(sigHash0)
			setArgs(td, a)
		})
		add(fmt.Sprintf("R/sigothermsg.%d", i), func(td *types.TxData) {
			a := cp(args0)
			a[i] = lock.keys[lock.signers[i]].xprv.Sign(otherMsg)
			setArgs(td, a)
		})
		// non-canonical twins of signature i (same R, S + k*L; top bits; R as y+p)
		for k := int64(1); k <= 16; k++ {
			k := k
			if c02sPlus(args0[i], k) == nil {
				break
			}
			add(fmt.Sprintf("R/signoncanon.%d.S+%dL", i, k), func(td *types.TxData) {
				a := cp(args0)
				a[i] = c02sPlus(args0[i], k)
				setArgs(td, a)
			})
		}
		for _, bit := range []byte{0x20, 0x40, 0x80} {
			bit := bit
			add(fmt.Sprintf("R/signoncanon.%d.topbit%02x", i, bit), func(td *types.TxData) {
				a := cp(args0)
				a[i][63] |= bit
				setArgs(td, a)
			})
		}
		if c02rNonCanon(args0[i]) != nil {
			add(fmt.Sprintf("R/signoncanon.%d.Rnoncanon", i), func(td *types.TxData) {
				a := cp(args0)
				a[i] = c02rNonCanon(args0[i])
				setArgs(td, a)
			})
		}
		add(fmt.Sprintf("R/signoncanon.%d.Rsign", i), func(td *types.TxData) {
			a := cp(args0)
			a[i][31] ^= 0x80
			setArgs(td, a)
		})
		// duplicate signature i: inserted right after itself. The program consumes the TOP nsig
		// signatures, so the copy of the first one sinks below the consumed ones only when i == 0
		// ... and then the consumed ones are sig0(copy) sig1 .. : still the full valid list.
		if i == 0 {
			add("A/sigdup.0.below", func(td *types.TxData) {
				a := cp(args0)
				setArgs(td, append([][]byte{a[0]}, a...))
			})
		} else {
			add(fmt.Sprintf("R/sigdup.%d", i), func(td *types.TxData) {
				a := cp(args0)
				out := append([][]byte{}, a[:i+1]...)
				out = append(out, a[i])
				out = append(out, a[i+1:]...)
				setArgs(td, out)
			})
		}
		if lock.kind == "sh" {
			// signature of a committed key that is not among the signers / sits at the wrong place
			for k := range lock.keys {
				k := k
				if k == lock.signers[i] {
					continue
				}
				// replacing signer i's signature by key k's keeps the list valid iff k is not
				// another signer and the order stays ascending
				lo, hi := -1, len(lock.keys)
				if i > 0 {
					lo = lock.signers[i-1]
				}
				if i+1 < nsig {
					hi = lock.signers[i+1]
				}
				lab := "R"
				if k > lo && k < hi {
					lab = "A"
				}
				add(fmt.Sprintf("%s/sigreplacedbykey.%d.%d", lab, i, k), func(td *types.TxData) {
					a := cp(args0)
					a[i] = lock.keys[k].xprv.Sign(sigHash0)
					setArgs(td, a)
				})
			}
		}
	}
	for i := 0; i < nsig; i++ {
		for j := i + 1; j < nsig; j++ {
			i, j := i, j
			add(fmt.Sprintf("R/sigswap.%d.%d", i, j), func(td *types.TxData) {
				a := cp(args0)
				a[i], a[j] = a[j], a[i]
				setArgs(td, a)
			})
		}
	}
	add("A/extrabottom", func(td *types.TxData) {
		setArgs(td, append([][]byte{{0xde, 0xad}}, cp(args0)...))
	})
	add("R/extratop", func(td *types.TxData) {
		setArgs(td, append(cp(args0), []byte{1}))
	})
	add("R/noargs", func(td *types.TxData) { setArgs(td, nil) })

	// --- public key (P2WPKH) / redeem script (P2WSH)
	last := len(args0) - 1
	if lock.kind == "pkh" {
		for _, pos := range []int{0, 15, 31} {
			pos := pos
			add(fmt.Sprintf("R/pkflip.%d", pos), func(td *types.TxData) {
				a := cp(args0)
				a[last] = c02flip(a[last], pos)
				setArgs(td, a)
			})
		}
		add("R/pkother", func(td *types.TxData) {
			setArgs(td, [][]byte{stranger.xprv.Sign(sigHash0), stranger.pub})
		})
		add("R/pktrunc", func(td *types.TxData) {
			a := cp(args0)
			a[last] = a[last][:31]
			setArgs(td, a)
		})
		add("R/pkswapsig", func(td *types.TxData) {
			a := cp(args0)
			setArgs(td, [][]byte{a[1], a[0]})
		})
	} else {
		n := len(lock.keys)
		for _, pos := range []int{0, 1, 17, len(lock.script) - 3, len(lock.script) - 2, len(lock.script) - 1} {
			pos := pos
			add(fmt.Sprintf("R/scriptflip.%d", pos), func(td *types.TxData) {
				a := cp(args0)
				a[last] = c02flip(a[last], pos)
				setArgs(td, a)
			})
		}
		for k := 0; k < n; k++ {
			k := k
			add(fmt.Sprintf("R/scriptkey.%d", k), func(td *types.TxData) {
				var pubs []ed25519.PublicKey
				for j, key := range lock.keys {
					if j == k {
						pubs = append(pubs, ed25519.PublicKey(stranger.pub))
					} else {
						pubs = append(pubs, ed25519.PublicKey(key.pub))
					}
				}
				a := cp(args0)
				a[last] = c02must(vmutil.P2SPMultiSigProgram(pubs, lock.m))
				setArgs(td, a)
			})
		}
		if lock.m > 1 {
			add("R/scriptquorum", func(td *types.TxData) {
				var pubs []ed25519.PublicKey
				for _, key := range lock.keys {
					pubs = append(pubs, ed25519.PublicKey(key.pub))
				}
				a := cp(args0)
				a[last] = c02must(vmutil.P2SPMultiSigProgram(pubs, lock.m-1))
				setArgs(td, a[1:])
			})
		}
		add("R/scripttrue", func(td *types.TxData) { setArgs(td, [][]byte{{byte(vm.OP_TRUE)}}) })
		add("R/scriptmissing", func(td *types.TxData) { a := cp(args0); setArgs(td, a[:last]) })
		// another valid witness: a different signer subset
		if lock.m < n {
			add("A/othersubset", func(td *types.TxData) {
				l2 := *lock
				l2.signers = nil
				for k := n - lock.m; k < n; k++ {
					l2.signers = append(l2.signers, k)
				}
				if fmt.Sprint(l2.signers) == fmt.Sprint(lock.signers) {
					l2.signers = nil
					for k := 0; k < lock.m; k++ {
						l2.signers = append(l2.signers, k)
					}
				}
				setArgs(td, l2.witness(sigHash0))
			})
		}
	}

	// --- witness-only / uncommitted serialized fields
	add("A/witnesssuffix", func(td *types.TxData) { td.Inputs[0].WitnessSuffix = []byte{1, 2, 3} })
	add("A/commitmentsuffix", func(td *types.TxData) { td.Inputs[0].CommitmentSuffix = []byte{9} })
	add("A/spendcommitmentsuffix", func(td *types.TxData) {
		switch t := td.Inputs[0].TypedInput.(type) {
		case *types.SpendInput:
			t.SpendCommitmentSuffix = []byte{7, 7}
		case *types.VetoInput:
			t.VetoCommitmentSuffix = []byte{7, 7}
		}
	})
	add("A/outputcommitmentsuffix", func(td *types.TxData) { td.Outputs[0].CommitmentSuffix = []byte{5} })

	// --- committed transaction fields (signatures untouched)
	addBV("R/version.bv1", 1, func(td *types.TxData) { td.Version = 2 })
	addBV("R/version.bv2", 2, func(td *types.TxData) { td.Version = 2 })
	addBV("R/version.big", 2, func(td *types.TxData) { td.Version = 1 << 40 })
	add("R/timerange.future", func(td *types.TxData) { td.TimeRange = 100 + uint64(c.Rng.Intn(1000)) })
	add("R/timerange.past", func(td *types.TxData) { td.TimeRange = 1 + uint64(c.Rng.Intn(50)) })
	for i := range b.td.Inputs {
		i := i
		if iss, ok := b.td.Inputs[i].TypedInput.(*types.IssuanceInput); ok {
			// an issuance commits to nonce, amount, asset definition, vm version and program
			// (the last three through the asset id)
			_ = iss
			is := func(td *types.TxData) *types.IssuanceInput { return td.Inputs[i].TypedInput.(*types.IssuanceInput) }
			add(fmt.Sprintf("R/in%d.nonce", i), func(td *types.TxData) { is(td).Nonce = c02flip(is(td).Nonce, c.Rng.Intn(64)) })
			add(fmt.Sprintf("R/in%d.amount+1", i), func(td *types.TxData) { is(td).Amount++ })
			add(fmt.Sprintf("R/in%d.amount-1", i), func(td *types.TxData) { is(td).Amount-- })
			add(fmt.Sprintf("R/in%d.assetdef", i), func(td *types.TxData) {
				is(td).AssetDefinition = c02flip(is(td).AssetDefinition, c.Rng.Intn(64))
			})
			for _, pos := range []int{2, 11, 21} {
				pos := pos
				add(fmt.Sprintf("R/in%d.program.%d", i, pos), func(td *types.TxData) {
					is(td).IssuanceProgram = c02flip(is(td).IssuanceProgram, pos)
				})
			}
			add(fmt.Sprintf("R/in%d.program.otherlock", i), func(td *types.TxData) {
				is(td).IssuanceProgram = c02must(vmutil.P2WPKHProgram(crypto.Ripemd160(stranger.pub)))
			})
			continue
		}
		add(fmt.Sprintf("R/in%d.sourceid", i), func(td *types.TxData) {
			s := c02sc(td, i)
			raw := s.SourceID.Byte32()
			raw[c.Rng.Intn(32)] ^= 1 << uint(c.Rng.Intn(8))
			s.SourceID = bc.NewHash(raw)
		})
		add(fmt.Sprintf("R/in%d.assetid", i), func(td *types.TxData) {
			s := c02sc(td, i)
			raw := s.AssetId.Byte32()
			raw[c.Rng.Intn(32)] ^= 1 << uint(c.Rng.Intn(8))
			a := bc.NewAssetID(raw)
			s.AssetId = &a
		})
		add(fmt.Sprintf("R/in%d.amount+1", i), func(td *types.TxData) { c02sc(td, i).Amount++ })
		add(fmt.Sprintf("R/in%d.amount-1", i), func(td *types.TxData) { c02sc(td, i).Amount-- })
		add(fmt.Sprintf("R/in%d.sourcepos", i), func(td *types.TxData) { c02sc(td, i).SourcePosition++ })
		add(fmt.Sprintf("R/in%d.vmversion", i), func(td *types.TxData) { c02sc(td, i).VMVersion = 2 })
		add(fmt.Sprintf("R/in%d.statedata", i), func(td *types.TxData) { c02sc(td, i).StateData = [][]byte{{1}} })
		if _, ok := b.td.Inputs[i].TypedInput.(*types.VetoInput); ok {
			// the vote key of the spent vote output is part of its id
			add(fmt.Sprintf("R/in%d.vote", i), func(td *types.TxData) {
				v := td.Inputs[i].TypedInput.(*types.VetoInput)
				v.Vote = c02flip(v.Vote, c.Rng.Intn(512))
			})
			add(fmt.Sprintf("R/in%d.votelen", i), func(td *types.TxData) {
				v := td.Inputs[i].TypedInput.(*types.VetoInput)
				v.Vote = v.Vote[:63]
			})
		}
		for _, pos := range []int{0, 1, 2, 11, 21} {
			pos := pos
			lab := "R" // another hash in the same standard program
			if pos < 2 {
				lab = "X" // the two header bytes: no longer a standard program (an arbitrary script may well succeed)
			}
			add(fmt.Sprintf("%s/in%d.program.%d", lab, i, pos), func(td *types.TxData) {
				s := c02sc(td, i)
				s.ControlProgram = c02flip(s.ControlProgram, pos)
			})
		}
		add(fmt.Sprintf("R/in%d.program.otherlock", i), func(td *types.TxData) {
			c02sc(td, i).ControlProgram = c02must(vmutil.P2WPKHProgram(crypto.Ripemd160(stranger.pub)))
		})
	}
	for o := range b.td.Outputs {
		o := o
		retire := vmutil.IsUnspendable(b.td.Outputs[o].ControlProgram)
		add(fmt.Sprintf("R/out%d.assetid", o), func(td *types.TxData) {
			raw := td.Outputs[o].AssetId.Byte32()
			raw[c.Rng.Intn(32)] ^= 1 << uint(c.Rng.Intn(8))
			a := bc.NewAssetID(raw)
			td.Outputs[o].AssetId = &a
		})
		add(fmt.Sprintf("R/out%d.amount-1", o), func(td *types.TxData) { td.Outputs[o].Amount-- })
		if *b.td.Outputs[o].AssetId == *consensus.BTMAssetID {
			add(fmt.Sprintf("R/out%d.amount+1", o), func(td *types.TxData) { td.Outputs[o].Amount++ })
		}
		if retire {
			// a Retirement entry hashes only its source: neither program bytes after OP_FAIL, nor
			// vm version, nor state data are committed (C03 finding); not signed => accepted
			add(fmt.Sprintf("A/out%d.retirecomment", o), func(td *types.TxData) {
				td.Outputs[o].ControlProgram = c02must(vmutil.RetireProgram([]byte("changed")))
			})
			add(fmt.Sprintf("R/out%d.unretire", o), func(td *types.TxData) {
				td.Outputs[o].ControlProgram = []byte{byte(vm.OP_TRUE)}
			})
			continue
		}
		add(fmt.Sprintf("R/out%d.vmversion", o), func(td *types.TxData) { td.Outputs[o].VMVersion = 2 })
		for _, pos := range []int{1, 2, 13} {
			pos := pos
			add(fmt.Sprintf("R/out%d.program.%d", o, pos), func(td *types.TxData) {
				td.Outputs[o].ControlProgram = c02flip(td.Outputs[o].ControlProgram, pos)
			})
		}
		add(fmt.Sprintf("R/out%d.statedata", o), func(td *types.TxData) {
			td.Outputs[o].StateData = append(td.Outputs[o].StateData, []byte{4})
		})
		add(fmt.Sprintf("R/out%d.tovote", o), func(td *types.TxData) {
			td.Outputs[o].TypedOutput = &types.VoteOutput{Vote: bytes.Repeat([]byte{3}, 64)}
		})
		add(fmt.Sprintf("R/out%d.retire", o), func(td *types.TxData) {
			td.Outputs[o].ControlProgram = c02must(vmutil.RetireProgram(nil))
		})
	}
	if len(b.td.Inputs) > 1 {
		add("R/inputorder", func(td *types.TxData) { td.Inputs[0], td.Inputs[1] = td.Inputs[1], td.Inputs[0] })
	}
	add("R/outputorder", func(td *types.TxData) { td.Outputs[0], td.Outputs[1] = td.Outputs[1], td.Outputs[0] })
	add("R/outputadded", func(td *types.TxData) {
		td.Outputs = append(td.Outputs, types.NewOriginalTxOutput(*consensus.BTMAssetID, 7, []byte{byte(vm.OP_TRUE)}, nil))
	})
	add("R/outputdropped", func(td *types.TxData) { td.Outputs = td.Outputs[:len(td.Outputs)-1] })
	add("R/outputduplicated", func(td *types.TxData) {
		last := td.Outputs[len(td.Outputs)-1]
		if last.Amount > 1000 {
			return
		}
		td.Outputs = append(td.Outputs, last)
	})
	add("R/inputadded", func(td *types.TxData) {
		// the new input is correctly signed for the NEW transaction; the old ones keep their witnesses
		l := c02pkh(c)
		td.Inputs = append(td.Inputs, types.NewSpendInput(nil, c02hash(c), *consensus.BTMAssetID, 5000, 0, l.prog, nil))
		locks := append(append([]*c02lock{}, b.locks...), l)
		c02resign(td, locks, len(locks)-1)
	})
	add("R/inputadded.first", func(td *types.TxData) {
		l := c02pkh(c)
		td.Inputs = append([]*types.TxInput{types.NewSpendInput(nil, c02hash(c), *consensus.BTMAssetID, 5000, 0, l.prog, nil)}, td.Inputs...)
		locks := append([]*c02lock{l}, b.locks...)
		c02resign(td, locks, 0)
	})
	add("R/inputduplicated", func(td *types.TxData) { td.Inputs = append(td.Inputs, td.Inputs[0]) })
	if len(b.td.Inputs) > 1 {
		add("R/inputdropped", func(td *types.TxData) { td.Inputs = td.Inputs[:1] })
	}
	// consistent re-signing after a change is a different, valid transaction
	add("A/resigned.timerange", func(td *types.TxData) {
		td.TimeRange = 500
		c02resign(td, b.locks, -1)
	})
	add("A/resigned.amount", func(td *types.TxData) {
		for _, o := range td.Outputs {
			if *o.AssetId == *consensus.BTMAssetID {
				o.Amount--
				break
			}
		}
		c02resign(td, b.locks, -1)
	})
	// signatures of the old transaction do not carry over to the new one, and vice versa
	add("R/resigned.onlyother", func(td *types.TxData) {
		if len(b.locks) < 2 {
			td.TimeRange = 500
			return
		}
		td.TimeRange = 500
		c02resign(td, b.locks, 1)
	})
	return ms
}

// ---- unstructured: P2WSH of hand-made scripts and odd witnesses (correspondence only)

func c02wild(c *Ctx) (*types.TxData, string) {
	k1, k2 := c02newKey(c), c02newKey(c)
	push := func(b *vmutil.Builder, d []byte) { b.AddData(d) }
	bld := vmutil.NewBuilder()
	name := ""
	nsigs := 1
	signers := []c02key{k1}
	switch c.Rng.Intn(9) {
	case 0: // m > n
		name = "mgtn"
		bld.AddOp(vm.OP_TXSIGHASH)
		push(bld, k1.pub)
		bld.AddUint64(2).AddUint64(1).AddOp(vm.OP_CHECKMULTISIG)
	case 1: // m = 0 < n
		name = "mzero"
		bld.AddOp(vm.OP_TXSIGHASH)
		push(bld, k1.pub)
		bld.AddUint64(0).AddUint64(1).AddOp(vm.OP_CHECKMULTISIG)
		nsigs = 0
	case 2: // 0-of-0
		name = "zeroofzero"
		bld.AddOp(vm.OP_TXSIGHASH)
		bld.AddUint64(0).AddUint64(0).AddOp(vm.OP_CHECKMULTISIG)
		nsigs = 0
	case 3: // message not 32 bytes
		name = "shortmsg"
		push(bld, bytes.Repeat([]byte{7}, 31))
		push(bld, k1.pub)
		bld.AddUint64(1).AddUint64(1).AddOp(vm.OP_CHECKMULTISIG)
	case 4: // wrong-length key
		name = "shortkey"
		bld.AddOp(vm.OP_TXSIGHASH)
		push(bld, k1.pub[:31])
		push(bld, k2.pub)
		bld.AddUint64(1).AddUint64(2).AddOp(vm.OP_CHECKMULTISIG)
		signers = []c02key{k2}
	case 5: // the same key twice, 2-of-2 with one signature twice
		name = "samekeytwice"
		bld.AddOp(vm.OP_TXSIGHASH)
		push(bld, k1.pub)
		push(bld, k1.pub)
		bld.AddUint64(2).AddUint64(2).AddOp(vm.OP_CHECKMULTISIG)
		signers = []c02key{k1, k1}
		nsigs = 2
	case 6: // plain CHECKSIG script
		name = "checksig"
		bld.AddOp(vm.OP_TXSIGHASH)
		push(bld, k1.pub)
		bld.AddOp(vm.OP_CHECKSIG)
	case 7: // huge n
		name = "hugen"
		bld.AddOp(vm.OP_TXSIGHASH)
		push(bld, k1.pub)
		bld.AddUint64(1).AddUint64(1 << 40).AddOp(vm.OP_CHECKMULTISIG)
	case 8: // 1-of-3 with the signature of the middle key and junk keys of odd lengths in the witness
		name = "oneofthree"
		k3 := c02newKey(c)
		bld.AddOp(vm.OP_TXSIGHASH)
		push(bld, k1.pub)
		push(bld, k2.pub)
		push(bld, k3.pub)
		bld.AddUint64(1).AddUint64(3).AddOp(vm.OP_CHECKMULTISIG)
		signers = []c02key{k2}
	}
	script := c02must(bld.Build())
	prog := c02must(vmutil.P2WSHProgram(crypto.Sha256(script)))
	bare := false
	switch c.Rng.Intn(6) {
	case 0:
		// a 20-byte hash in a P2WSH-shaped spend and vice versa: P2WPKH of the script's hash160
		prog = c02must(vmutil.P2WPKHProgram(crypto.Ripemd160(script)))
		name += "-aspkh"
	case 1, 2:
		// the script itself as the control program (P2SP): its error classes surface unconverted
		prog = script
		bare = true
		name += "-bare"
	}
	btm := *consensus.BTMAssetID
	amt := uint64(c02fee + 10000)
	if c.Rng.Intn(8) == 0 {
		amt = uint64(200 * (1500 + c.Rng.Intn(4000))) + 1000 // little gas: runLimitExceeded / overgas territory
		name += "-lowgas"
	}
	td := &types.TxData{Version: 1,
		Inputs:  []*types.TxInput{types.NewSpendInput(nil, c02hash(c), btm, amt, 0, prog, nil)},
		Outputs: []*types.TxOutput{types.NewOriginalTxOutput(btm, 1000, []byte{byte(vm.OP_TRUE)}, nil)}}
	h := types.MapTx(td).SigHash(0).Bytes()
	var args [][]byte
	for i := 0; i < nsigs; i++ {
		args = append(args, signers[i%len(signers)].xprv.Sign(h))
	}
	switch c.Rng.Intn(6) {
	case 0:
		args = append([][]byte{bytes.Repeat([]byte{1}, c.Rng.Intn(70))}, args...)
	case 1:
		if len(args) > 0 {
			args = args[1:]
		}
	}
	if !bare {
		args = append(args, script)
	}
	td.Inputs[0].SetArguments(args)
	return td, name
}


// ---- degenerate keys: small-order points and non-canonical encodings as the committed key

var c02smallKeys = []struct{ name, hex string }{
	{"identity", "0100000000000000000000000000000000000000000000000000000000000000"},
	{"identity-noncanon", "eeffffffffffffffffffffffffffffffffffffffffffffffffffffffffffff7f"},
	{"order2", "ecffffffffffffffffffffffffffffffffffffffffffffffffffffffffffff7f"},
	{"order4", "0000000000000000000000000000000000000000000000000000000000000000"},
	{"order4-neg", "0000000000000000000000000000000000000000000000000000000000000080"},
	{"order4-noncanon", "edffffffffffffffffffffffffffffffffffffffffffffffffffffffffffff7f"},
	{"order4-noncanon-neg", "edffffffffffffffffffffffffffffffffffffffffffffffffffffffffffffff"},
	{"order8a", "c7176a703d4dd84fba3c0b760d10670f2a2053fa2c39ccc64ec7fd7792ac037a"},
	{"order8b", "26e8958fc2b227b045c3f489f2ef98f0d5dfac05d3c63339b13802886d53fc05"},
}

// outputs locked (P2WPKH and 1-of-1 P2WSH) to the degenerate key number k, spent with degenerate
// signatures. (identity, 0) satisfies [S]B = R + [h]A whenever [h]A is the identity: whether it is
// accepted is left to the correspondence (X/); the non-canonical ones (S = L, R = y+p) must be rejected.
func c02smallOrder(c *Ctx, k int) []struct {
	td    *types.TxData
	label string
} {
	key := c02smallKeys[k%len(c02smallKeys)]
	pk, _ := hex.DecodeString(key.hex)
	idR, _ := hex.DecodeString(c02smallKeys[0].hex)
	idNC, _ := hex.DecodeString(c02smallKeys[1].hex)
	zero := make([]byte, 32)
	sigs := []struct {
		name string
		lab  string
		sig  []byte
	}{
		{"id0", "X", append(append([]byte{}, idR...), zero...)},
		{"idL", "R", append(append([]byte{}, idR...), c02toLE32(c02L)...)},
		{"idnc0", "R", append(append([]byte{}, idNC...), zero...)},
	}
	var out []struct {
		td    *types.TxData
		label string
	}
	btm := *consensus.BTMAssetID
	for _, kind := range []string{"pkh", "sh"} {
		var prog, script []byte
		if kind == "pkh" {
			prog = c02must(vmutil.P2WPKHProgram(crypto.Ripemd160(pk)))
		} else {
			script = c02must(vmutil.P2SPMultiSigProgram([]ed25519.PublicKey{ed25519.PublicKey(pk)}, 1))
			prog = c02must(vmutil.P2WSHProgram(crypto.Sha256(script)))
		}
		for _, sg := range sigs {
			td := &types.TxData{Version: 1,
				Inputs:  []*types.TxInput{types.NewSpendInput(nil, c02hash(c), btm, c02fee+10000, 0, prog, nil)},
				Outputs: []*types.TxOutput{types.NewOriginalTxOutput(btm, 1000+uint64(c.Rng.Intn(1000)), []byte{byte(vm.OP_TRUE)}, nil)}}
			if kind == "pkh" {
				td.Inputs[0].SetArguments([][]byte{sg.sig, pk})
			} else {
				td.Inputs[0].SetArguments([][]byte{sg.sig, script})
			}
			out = append(out, struct {
				td    *types.TxData
				label string
			}{td, fmt.Sprintf("%s/smallorder.%s.%s.%s", sg.lab, key.name, kind, sg.name)})
		}
	}
	return out
}


// ---- huge witnesses: tens of thousands of tiny witness arguments, no (or a buried) signature

var c02hugeVariants = []struct {
	n      int  // number of filler arguments
	w      int  // their length
	sig    byte // 'n' no signature at all, 't' the valid witness on TOP of the filler, 'b' the valid witness BELOW it
	veto   bool
	lowFee bool // fee too small for the storage gas of such a transaction
}{
	{37501, 0, 'n', false, false}, // 8*37501 = 300008 > MaxGasAmount: loading the witness alone exhausts any gas
	{37500, 0, 'n', false, false}, // exactly MaxGasAmount
	{37499, 0, 'n', true, false},
	{37501, 0, 'n', true, false},
	{33334, 1, 'n', false, false}, // 9*33334 = 300006
	{33333, 1, 'n', true, false},
	{50000, 0, 'n', false, false},
	{37501, 0, 't', false, false}, // the right signature on top of the filler: still not affordable
	{37501, 0, 'b', true, false},
	{40000, 0, 'n', false, true},
	{20000, 2, 'n', true, false}, // 10*20000 = 200000: affordable, the program runs on filler
	{65000, 0, 't', true, false},
}

// a lock spent (or vetoed) with a huge witness; the text is the real serialization, so the storage gas is real;
// the fee buys the maximal gas (MaxGasAmount) unless lowFee
func c02hugeWitness(c *Ctx, lock *c02lock, k int) (*types.TxData, string) {
	v := c02hugeVariants[k%len(c02hugeVariants)]
	btm := *consensus.BTMAssetID
	fee := uint64(consensus.MaxGasAmount*consensus.VMGasRate) + 1000000
	if v.lowFee {
		fee = 200 * 20000
	}
	amt := fee + 5000
	td := &types.TxData{Version: 1}
	if v.veto {
		amt += consensus.MinVoteOutputAmount
		vote := make([]byte, 64)
		c.Rng.Read(vote)
		td.Inputs = []*types.TxInput{types.NewVetoInput(nil, c02hash(c), btm, amt, 0, lock.prog, vote, nil)}
	} else {
		td.Inputs = []*types.TxInput{types.NewSpendInput(nil, c02hash(c), btm, amt, 0, lock.prog, nil)}
	}
	td.Outputs = []*types.TxOutput{types.NewOriginalTxOutput(btm, amt-fee, []byte{byte(vm.OP_TRUE)}, nil)}
	filler := make([][]byte, v.n)
	for i := range filler {
		filler[i] = make([]byte, v.w)
		for j := range filler[i] {
			filler[i][j] = byte(1 + c.Rng.Intn(255))
		}
	}
	var args [][]byte
	lab := "R"
	switch v.sig {
	case 'n':
		args = filler
	case 't':
		args = append(filler, lock.witness(types.MapTx(td).SigHash(0).Bytes())...)
		lab = "X" // a valid witness the transaction cannot pay for: the code's answer is left to the correspondence
	case 'b':
		args = append(lock.witness(types.MapTx(td).SigHash(0).Bytes()), filler...)
	}
	td.Inputs[0].SetArguments(args)
	kind := "spend"
	if v.veto {
		kind = "veto"
	}
	return td, fmt.Sprintf("%s/hugewitness.%s.%s.%dx%d.sig%c.low%v", lab, lock.kind, kind, v.n, v.w, v.sig, v.lowFee)
}

// mutations of the witness of input 0 (signatures, keys, redeem script, argument list)
func c02witnessLabel(l string) bool {
	if i := strings.Index(l, "/"); i >= 0 {
		l = l[i+1:]
	}
	for _, p := range []string{"sig", "extra", "noargs", "pk", "script", "othersubset"} {
		if strings.HasPrefix(l, p) {
			return true
		}
	}
	return false
}

func c02replayLine(c *Ctx, line string) {
	w := strings.Fields(line)
	if len(w) < 4 || w[0] != "tx" {
		c.Op(line, "bad-op")
		return
	}
	bv, e1 := strconv.ParseUint(w[1], 10, 64)
	bh, e2 := strconv.ParseUint(w[2], 10, 64)
	if e1 != nil || e2 != nil {
		c.Op(line, "bad-op")
		return
	}
	label := "X/replay"
	if len(w) >= 6 {
		label = w[5]
	}
	c02run(c, bv, bh, w[3], label)
}

func runC02(c *Ctx) {
	c.Rule = "for P2WPKH and P2WSH-of-multisig m-of-n (all 1<=m<=n<=6) with fresh chainkd keys (RootXPrv + non-hardened derivation), a transaction of one of three shapes (single BTM input; asset input + BTM gas input; with a retirement output) — and, for the same lock, a VETO of a vote output carrying that control program and an ISSUANCE whose issuance program is that witness-form program — is built with the repository's program builders, signed over bc.Tx.SigHash, serialized, decoded with Tx.UnmarshalText and validated with validation.ValidateTx; then every single mutation of c02mutations (signatures, keys, redeem script, witness-only fields, every committed field, orders, added/dropped/duplicated inputs and outputs) is applied to a fresh copy; plus P2WSH of hand-made scripts (m>n, m=0, 0-of-0, short message, short key, repeated key, huge n, low gas) for the correspondence; malleability share: every valid signature also as R||(S+kL) for all k that fit 256 bits, with each top bit of S set, R with flipped sign / non-canonical y, and outputs locked to small-order / non-canonically encoded keys spent with (identity,0), (identity,L), (non-canonical identity,0); the Ed25519 oracle table is computed with the standard library verifier of the harness module, canonicity is decided from the bytes; huge-witness share: each lock spent / vetoed with 20000-65000 empty, 1- or 2-byte arguments (around MaxGasAmount/8) without a signature or with the valid witness under / on top of them; every accepted input of a standard lock is re-judged independently (c02satisfied)"
	if c.Replay != "" {
		for _, l := range c.ReplayLines() {
			c02replayLine(c, l)
		}
		return
	}
	for _, l := range c.CorpusLines() {
		c02replayLine(c, l)
	}
	type combo struct {
		kind string
		m, n int
	}
	combos := []combo{{"pkh", 1, 1}}
	for n := 1; n <= 6; n++ {
		for m := 1; m <= n; m++ {
			combos = append(combos, combo{"sh", m, n})
		}
	}
	// c.N = number of base transactions (each followed by all its mutations)
	for k := 0; k < c.N; k++ {
		cb := combos[k%len(combos)]
		if k >= len(combos) && cb.kind == "sh" && c.Rng.Intn(3) == 0 {
			cb = combos[0]
		}
		var lock *c02lock
		if cb.kind == "pkh" {
			lock = c02pkh(c)
		} else {
			lock = c02sh(c, cb.m, cb.n)
		}
		shape := (k / len(combos)) % 3
		if k < len(combos) {
			shape = k % 3
		}
		bh := uint64(60 + c.Rng.Intn(30))
		bv := uint64(1 + c.Rng.Intn(2))
		// full: every mutation (quick tier: after the first pass over the combos a sample, but always the
		// malleability twins); otherwise (the veto / issuance twins of the base) every WITNESS mutation and a
		// third of the committed-field ones
		runBase := func(shape int, tag string, full bool) {
			b := c02build(c, lock, shape)
			b.name = fmt.Sprintf("%s.%dof%d.shape%d", cb.kind, cb.m, cb.n, shape)
			c.Count("base:" + cb.kind + fmt.Sprintf(".%dof%d", cb.m, cb.n) + tag)
			c.Distinct(b.name)
			c02run(c, bv, bh, c02text(b.td), "A/base."+b.name+tag)
			for _, m := range c02mutations(c, b) {
				witness := c02witnessLabel(m.label)
				if c.Tier == "quick" {
					if full && k >= len(combos) && !strings.Contains(m.label, "signoncanon") && c.Rng.Intn(4) != 0 {
						continue
					}
					if !full && !witness && c.Rng.Intn(3) != 0 {
						continue
					}
				}
				td := c02clone(b.td)
				before := c02text(td)
				m.f(td)
				text := c02text(td)
				if text == before {
					continue // the mutation did not apply to this base
				}
				v := bv
				if m.bv != 0 {
					v = m.bv
				}
				c02run(c, v, bh, text, m.label+tag)
				c.Distinct(b.name + m.label)
			}
		}
		runBase(shape, "", true)
		runBase(3, "@veto", false)
		if k%2 == 0 || c.Tier != "quick" {
			runBase(4, "@issuance", false)
		}
		for j := 0; j < 3; j++ {
			td, name := c02wild(c)
			c02run(c, bv, bh, c02text(td), "X/wild."+name)
		}
		for _, so := range c02smallOrder(c, k) {
			c02run(c, bv, bh, c02text(so.td), so.label)
		}
		if (c.Tier == "quick" && k%2 == 0) || (c.Tier != "quick" && k%3 == 0) {
			td, lab := c02hugeWitness(c, lock, k/2+k/3)
			c02run(c, bv, bh, c02text(td), lab)
		}
	}
}

func init() { register("c02", runC02) }
