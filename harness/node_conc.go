//go:build hnode || hall

package main

// Concurrency layer of the node-history engine (C37): the events of a history are issued
// from several goroutines at once — blocks through the real ProcessBlock channel path (two
// deliverers with different orders), verification messages (including ones that flip the best
// chain), transaction submissions and read queries — under a progress watchdog. Built with
// -race by the C37 check; race reports are collected from GORACE's log files.

import (
	"fmt"
	"os"
	"runtime"
	"sync"
	"sync/atomic"
	"time"

	"github.com/bytom/bytom/consensus"
)

func genCaseConc(c *Ctx, mode string) {
	rng := c.Rng
	E := uint64(2 + rng.Intn(2))
	nVal := 2 + rng.Intn(2)
	nc := newNodeCase(c, "pool", E, nVal, 0, 2)
	defer nc.close()
	// sequential prefix: mature coinbase outputs
	base := int(E) + 1 + int(consensus.CoinbasePendingBlockNumber)
	tip := "b0"
	for i := 0; i < base; i++ {
		name := nc.defBlock(tip, 0, 0, nil)
		if name == "" {
			panic("base chain block rejected: " + nc.lastRefErr)
		}
		nc.sut.processBlock(nc.nm.blocks[name])
		nc.delivered[name] = true
		tip = name
	}
	// a block tree with transactions, built on the reference node only
	var blocks []string
	tips := []string{tip}
	var txs []*txInfo
	for i := 0; i < 8+rng.Intn(8); i++ {
		parent := tips[len(tips)-1]
		if rng.Intn(3) == 0 {
			parent = tips[rng.Intn(len(tips))]
		}
		var in []*txInfo
		if rng.Intn(2) == 0 {
			in = nc.randomTxs(parent)
			txs = append(txs, in...)
		}
		if name := nc.defBlock(parent, uint64(rng.Intn(2)), byte(rng.Intn(3)), in); name != "" {
			blocks = append(blocks, name)
			tips = append(tips, name)
		}
	}
	type voteEv struct {
		order    int
		src, tgt string
	}
	var votes []voteEv
	for _, name := range blocks {
		if nc.nm.blocks[name].Height%E == 0 {
			anc := nc.ancestorCheckpoints(name)
			if len(anc) == 0 {
				continue
			}
			for v := 1; v < nVal; v++ { // every other validator votes for every checkpoint: best chain flips
				votes = append(votes, voteEv{v, anc[0], name})
			}
		}
	}
	rng.Shuffle(len(votes), func(i, j int) { votes[i], votes[j] = votes[j], votes[i] })
	order2 := append([]string{}, blocks...)
	rng.Shuffle(len(order2), func(i, j int) { order2[i], order2[j] = order2[j], order2[i] })

	var slow int32
	var calls int64
	timed := func(what string, f func()) {
		done := make(chan struct{})
		go func() {
			defer func() {
				if r := recover(); r != nil {
					c.Fail("C37:panic", fmt.Sprintf("%s panicked under concurrency: %v", what, r))
				}
				close(done)
			}()
			f()
		}()
		select {
		case <-done:
			atomic.AddInt64(&calls, 1)
		case <-time.After(30 * time.Second):
			if atomic.CompareAndSwapInt32(&slow, 0, 1) {
				buf := make([]byte, 1<<20)
				n := runtime.Stack(buf, true)
				os.WriteFile(fmt.Sprintf("%s/goroutines-%d.txt", os.TempDir(), os.Getpid()), buf[:n], 0o644)
				c.Fail("C37:call-does-not-return", what+" did not return within 30 s (goroutine dump written)")
			}
		}
	}
	var wg sync.WaitGroup
	stop := make(chan struct{})
	run := func(f func()) {
		wg.Add(1)
		go func() { defer wg.Done(); f() }()
	}
	n := nc.sut
	run(func() {
		for _, name := range blocks {
			b := nc.nm.blocks[name]
			timed("ProcessBlock "+name, func() { n.chain.ProcessBlock(cloneBlock(b)) })
		}
	})
	run(func() {
		for _, name := range order2 {
			b := nc.nm.blocks[name]
			timed("ProcessBlock "+name, func() { n.chain.ProcessBlock(cloneBlock(b)) })
		}
	})
	run(func() {
		for _, v := range votes {
			msg := nc.env.voteMsg(v.order, nc.nm.blocks[v.src].Hash(), nc.nm.blocks[v.tgt].Hash(), true)
			timed(fmt.Sprintf("ProcessBlockVerification %d %s->%s", v.order, v.src, v.tgt), func() { n.chain.ProcessBlockVerification(msg) })
			time.Sleep(time.Duration(rng.Intn(300)) * time.Microsecond)
		}
	})
	run(func() {
		for _, ti := range txs {
			t := ti
			timed("ValidateTx "+t.name, func() { n.chain.ValidateTx(t.tx) })
		}
	})
	var readerWG sync.WaitGroup
	for r := 0; r < 2; r++ {
		readerWG.Add(1)
		go func() {
			defer readerWG.Done()
			for {
				select {
				case <-stop:
					return
				default:
				}
				timed("read queries", func() {
					h := n.chain.BestBlockHeader()
					n.chain.InMainChain(h.Hash())
					n.chain.BestBlockHeight()
					n.chain.LastFinalizedHeader()
					n.chain.LastJustifiedHeader()
					n.pool.GetTransactions()
					n.chain.GetHeaderByHeight(h.Height)
				})
			}
		}()
	}
	wg.Wait()
	close(stop)
	readerWG.Wait()
	n.quiesce()
	// deliver everything once more sequentially and check the final state's consistency
	for _, name := range blocks {
		n.processBlock(nc.nm.blocks[name])
		nc.delivered[name] = true
	}
	n.quiesce()
	final := nc.dump("ok")
	nc.oracleAfterEvent("the concurrent run", procResult{})
	nc.emit(fmt.Sprintf("conc blocks=%d votes=%d txs=%d", len(blocks), len(votes), len(txs)), "ok")
	_ = final
	c.Count("conc-calls-returned")
	c.Dist["conc-calls"] += int(atomic.LoadInt64(&calls))
	c.Distinct(fmt.Sprintf("conc-%d-%d", c.Seed, c.nOps))
}
