//go:build hnode || hall

package main

// Concurrency layer of the node-history engine (C37): the events of a history are issued
// from several goroutines at once — blocks through the real ProcessBlock channel path (two
// deliverers with different orders), verification messages (including ones that flip the best
// chain), transaction submissions and read queries — under a progress watchdog. Built with
// -race by the C37 check; race reports are collected from GORACE's log files.

import (
	"fmt"
	"os"
	"runtime"
	"sort"
	"sync"
	"sync/atomic"
	"time"

	"github.com/bytom/bytom/consensus"
	"github.com/bytom/bytom/protocol/state"
)

// genCaseFlipVsBlock: a verification message that flips the fork choice to a shorter branch is
// handled while a block extending that branch is being processed (8 fresh nodes per case).
//
//	b0 - b1 - b2 - b3 - b4          best block before the vote
//	       \ c2 - c3                c2 is a checkpoint (E = 2); c3 arrives together with the vote
func genCaseFlipVsBlock(c *Ctx) {
	for attempt := 0; attempt < 8 && !concWedged; attempt++ {
		nc := newNodeCase(c, "pool", 2, 3, -1, 2)
		n := nc.sut
		tip := "b0"
		var main []string
		for i := 0; i < 4; i++ {
			tip = nc.defBlock(tip, 0, 0, nil)
			main = append(main, tip)
		}
		c2 := nc.defBlock(main[0], 1, 1, nil)
		c3 := nc.defBlock(c2, 0, 0, nil)
		for _, name := range append(append([]string{}, main...), c2) {
			n.processBlock(nc.nm.blocks[name])
			nc.delivered[name] = true
		}
		for v := 0; v < 2; v++ {
			n.chain.ProcessBlockVerification(nc.env.voteMsg(v, nc.nm.blocks["b0"].Hash(), nc.nm.blocks[c2].Hash(), true))
		}
		last := nc.env.voteMsg(2, nc.nm.blocks["b0"].Hash(), nc.nm.blocks[c2].Hash(), true)
		blk := cloneBlock(nc.nm.blocks[c3])
		done := make(chan string, 2)
		go func() { n.chain.ProcessBlockVerification(last); done <- "vote" }()
		go func() {
			time.Sleep(time.Duration(c.Rng.Intn(200)) * time.Microsecond)
			n.chain.ProcessBlock(blk)
			done <- "block"
		}()
		for k := 0; k < 2; k++ {
			select {
			case <-done:
			case <-time.After(30 * time.Second):
				c.Fail("C37:call-does-not-return", "a fork-choice-flipping verification message concurrent with a block on the new branch: a call did not return within 30 s")
				concWedged = true
			}
		}
		if !concWedged {
			n.quiesce()
			if bh, fc := n.chain.BestBlockHeader().Hash(), n.chain.VerifNodeCasper().BestChain(); bh != fc {
				c.Fail("C37:stale-rollback", fmt.Sprintf("vote flipping the fork choice to %s concurrent with block %s (its child): all calls returned, node idle, best block %s but the fork choice is %s", c2, c3, nc.nm.name(bh), nc.nm.name(fc)))
			}
			c.Count("flip-vs-block-attempts")
		}
		nc.emit("conc flip-vs-block", "ok")
		nc.close()
	}
	c.Distinct(fmt.Sprintf("flipblock-%d-%d", c.Seed, c.nOps))
}

// genCaseCachedVotes: verification messages that arrive BEFORE their target block are cached
// and replayed by the background loop when the first block of the next epoch is applied; the
// replay can justify the target (flip the fork choice) after the block processor has already
// chosen the chain for that block.
//
//	b0 - b1 - b2 - b3              best block
//	       \ c2 - c3               votes b0->c2 of all validators arrive before c2
func genCaseCachedVotes(c *Ctx) {
	for attempt := 0; attempt < 8 && !concWedged; attempt++ {
		nc := newNodeCase(c, "pool", 2, 3, -1, 2)
		n := nc.sut
		tip := "b0"
		var main []string
		// the main chain is one block HIGHER than the side branch will be, so that only the
		// justification of c2 (never the hash tie-break between equal heights) can move the fork
		// choice to the side branch
		for i := 0; i < 4; i++ {
			tip = nc.defBlock(tip, 0, 0, nil)
			main = append(main, tip)
		}
		c2 := nc.defBlock(main[0], 1, 1, nil)
		c3 := nc.defBlock(c2, 0, 0, nil)
		c4 := nc.defBlock(c3, 0, 0, nil)
		for _, name := range main {
			n.processBlock(nc.nm.blocks[name])
			nc.delivered[name] = true
		}
		// odd attempts: the parked messages are FORGED (right validator key, wrong signature):
		// the replay must verify them like any other verification message
		forged := attempt%2 == 1
		for v := 0; v < 3; v++ {
			n.chain.ProcessBlockVerification(nc.env.voteMsg(v, nc.nm.blocks["b0"].Hash(), nc.nm.blocks[c2].Hash(), !forged))
		}
		done := make(chan struct{})
		go func() {
			n.chain.ProcessBlock(cloneBlock(nc.nm.blocks[c2]))
			n.chain.ProcessBlock(cloneBlock(nc.nm.blocks[c3]))
			close(done)
		}()
		select {
		case <-done:
		case <-time.After(30 * time.Second):
			c.Fail("C37:call-does-not-return", "blocks whose checkpoint has cached verification messages: ProcessBlock did not return within 30 s")
			concWedged = true
		}
		if !concWedged {
			n.quiesce()
			time.Sleep(5 * time.Millisecond)
			n.quiesce()
			if forged {
				for _, t := range n.chain.VerifNodeCasper().VerifNodeTree() {
					if t.Hash == nc.nm.blocks[c2].Hash() && (t.Status == state.Justified || t.Status == state.Finalized || len(t.SupLinks) > 0) {
						c.Fail("C37:cached-vote-path:forged-vote-counted", fmt.Sprintf("three verification messages for %s with forged signatures were parked before the block arrived; after the replay the checkpoint has status %v and %d sup link(s) (C17 on the cached-message path)", c2, t.Status, len(t.SupLinks)))
					}
				}
				c.Count("cached-forged-vote-attempts")
			}
			if bh, fc := n.chain.BestBlockHeader().Hash(), n.chain.VerifNodeCasper().BestChain(); bh != fc {
				c.Fail("C37:cached-vote-no-rollback", fmt.Sprintf("cached verification messages for %s replayed after its child %s was processed: node idle, best block %s but the fork choice is %s", c2, c3, nc.nm.name(bh), nc.nm.name(fc)))
			}
			c.Count("cached-vote-attempts")
			if !forged && n.chain.VerifNodeCasper().BestChain() == nc.nm.blocks[c3].Hash() {
				c.Count("cached-vote-replay-justified-the-target")
			}
			// the node must still process blocks after the replay moved the fork choice (whoever
			// asks the block processor to follow it must also take its answer)
			if c4 != "" {
				done2 := make(chan struct{})
				go func() {
					n.chain.ProcessBlock(cloneBlock(nc.nm.blocks[c4]))
					close(done2)
				}()
				select {
				case <-done2:
					if n.chain.BestBlockHeader().Hash() != n.chain.VerifNodeCasper().BestChain() {
						c.Fail("C37:cached-vote-no-rollback:after-next-block", fmt.Sprintf("after the replay of the cached messages and one more block (%s) the best block is %s but the fork choice is %s", c4, nc.nm.name(n.chain.BestBlockHeader().Hash()), nc.nm.name(n.chain.VerifNodeCasper().BestChain())))
					}
				case <-time.After(30 * time.Second):
					c.Fail("C37:call-does-not-return:after-cached-vote-replay", fmt.Sprintf("after the cached verification messages for %s were replayed (fork choice moved to its branch), ProcessBlock(%s) did not return within 30 s", c2, c4))
					concWedged = true
				}
			}
		}
		nc.emit("conc cached-votes", "ok")
		nc.close()
	}
	c.Distinct(fmt.Sprintf("cachedvotes-%d-%d", c.Seed, c.nOps))
}

// genCaseRedeliverVsConnect: peers keep announcing blocks the node already has (stored blocks
// at or below the best height) while new blocks are being connected: whatever ProcessBlock does
// for a known block, it must not read chain state the block processor is writing.
func genCaseRedeliverVsConnect(c *Ctx) {
	nc := newNodeCase(c, "pool", 2, 3, -1, 2)
	defer nc.close()
	n := nc.sut
	tip := "b0"
	var known []string
	for i := 0; i < 3; i++ {
		tip = nc.defBlock(tip, 0, 0, nil)
		n.processBlock(nc.nm.blocks[tip])
		nc.delivered[tip] = true
		known = append(known, tip)
	}
	var fresh []string
	for i := 0; i < 12; i++ {
		if tip = nc.defBlock(tip, 0, 0, nil); tip == "" {
			break
		}
		fresh = append(fresh, tip)
	}
	var mu sync.Mutex
	done := make(chan struct{})
	fin := make(chan struct{}, 2)
	go func() {
		defer func() { fin <- struct{}{} }()
		for _, name := range fresh {
			n.chain.ProcessBlock(cloneBlock(nc.nm.blocks[name]))
			mu.Lock()
			known = append(known, name)
			mu.Unlock()
		}
		close(done)
	}()
	go func() {
		defer func() { fin <- struct{}{} }()
		for i := 0; ; i++ {
			select {
			case <-done:
				return
			default:
			}
			mu.Lock()
			name := known[i%len(known)]
			mu.Unlock()
			n.chain.ProcessBlock(cloneBlock(nc.nm.blocks[name]))
			c.Count("redeliveries-during-connect")
		}
	}()
	for k := 0; k < 2; k++ {
		select {
		case <-fin:
		case <-time.After(60 * time.Second):
			c.Fail("C37:call-does-not-return:redeliver-vs-connect", "re-delivery of stored blocks while new blocks are connected: the calls did not return within 60 s")
			concWedged = true
			nc.emit("conc redeliver-vs-connect", "ok")
			return
		}
	}
	n.quiesce()
	if bh, fc := n.chain.BestBlockHeader().Hash(), n.chain.VerifNodeCasper().BestChain(); bh != fc || (len(fresh) > 0 && bh != nc.nm.blocks[fresh[len(fresh)-1]].Hash()) {
		c.Fail("C37:redeliver-vs-connect:wrong-best", fmt.Sprintf("after connecting %d blocks while stored blocks were re-delivered: best block %s, fork choice %s", len(fresh), nc.nm.name(bh), nc.nm.name(fc)))
	}
	c.Count("redeliver-vs-connect-cases")
	nc.emit("conc redeliver-vs-connect", "ok")
	c.Distinct(fmt.Sprintf("redeliver-%d-%d", c.Seed, c.nOps))
}

// genCaseSubmitVsConnect: a transaction is re-submitted in a tight loop while the block that
// confirms it is being connected (peers re-broadcast; the pool removal and the chain-state
// commit of one block connection must be atomic with respect to submissions).
func genCaseSubmitVsConnect(c *Ctx) {
	nc := newNodeCase(c, "pool", 2, 3, -1, 2)
	defer nc.close()
	n := nc.sut
	tip := "b0"
	for i := 0; i < 2+1+int(consensus.CoinbasePendingBlockNumber); i++ {
		tip = nc.defBlock(tip, 0, 0, nil)
		n.processBlock(nc.nm.blocks[tip])
		nc.delivered[tip] = true
	}
	for round := 0; round < 10 && !concWedged; round++ {
		var txs []*txInfo
		for try := 0; try < 6 && len(txs) == 0; try++ {
			txs = nc.randomTxs(tip)
		}
		if len(txs) == 0 {
			break
		}
		blk := nc.defBlock(tip, 0, 0, txs)
		if blk == "" {
			break
		}
		for _, ti := range txs {
			n.chain.ValidateTx(ti.tx)
		}
		var stop int32
		done := make(chan struct{})
		go func() {
			for atomic.LoadInt32(&stop) == 0 {
				for _, ti := range txs {
					n.chain.ValidateTx(ti.tx)
				}
			}
			close(done)
		}()
		ret := make(chan struct{})
		go func() { n.chain.ProcessBlock(cloneBlock(nc.nm.blocks[blk])); close(ret) }()
		select {
		case <-ret:
		case <-time.After(30 * time.Second):
			c.Fail("C37:call-does-not-return", "ProcessBlock concurrent with re-submissions of its transactions did not return within 30 s")
			concWedged = true
		}
		time.Sleep(2 * time.Millisecond)
		atomic.StoreInt32(&stop, 1)
		select {
		case <-done:
		case <-time.After(30 * time.Second):
			c.Fail("C37:call-does-not-return", "ValidateTx concurrent with the connection of its block did not return within 30 s")
			concWedged = true
		}
		if concWedged {
			return
		}
		nc.delivered[blk] = true
		tip = blk
		n.quiesce()
		d := n.pool.VerifDump()
		for _, h := range d.Pool {
			hh := h
			tn := nc.txName(&hh)
			for _, ti := range txs {
				if ti.name == tn && n.chain.InMainChain(nc.nm.blocks[blk].Hash()) {
					c.Fail("C37:atomicity:pooled-and-confirmed", fmt.Sprintf("%s was re-submitted while block %s (which confirms it) was being connected: node idle, the transaction is in the pool and in the main chain (C23 under concurrency)", tn, blk))
				}
			}
		}
		c.Count("submit-vs-connect-rounds")
	}
	nc.emit("conc submit-vs-connect", "ok")
	c.Distinct(fmt.Sprintf("submitconnect-%d-%d", c.Seed, c.nOps))
}

// orphanWithStoredParent: a block waiting in the orphan pool although its parent is stored
// (after all calls have returned and the node is idle, nothing will ever connect it).
func (nc *nodeCase) orphanWithStoredParent(n *node) string {
	hashes, _ := n.chain.VerifNodeOrphans()
	for _, h := range hashes {
		b := nc.nm.blocks[nc.nm.name(h)]
		if b == nil {
			continue
		}
		if _, err := n.store.GetBlockHeader(&b.PreviousBlockHash); err == nil {
			return nc.nm.name(h)
		}
	}
	return ""
}

// genCaseChildVsParent: a block and its child are delivered at the same moment from two
// goroutines (8 fresh nodes per case). Whatever the interleaving, once both calls have returned
// the child must be connected: "parent not stored, park the block" and "parent stored, collect
// the blocks waiting for it" must be atomic with respect to each other.
func genCaseChildVsParent(c *Ctx) {
	for attempt := 0; attempt < 8 && !concWedged; attempt++ {
		nc := newNodeCase(c, "pool", 2, 3, -1, 2)
		n := nc.sut
		tip := "b0"
		var names []string
		for i := 0; i < 4; i++ {
			tip = nc.defBlock(tip, 0, 0, nil)
			names = append(names, tip)
		}
		n.processBlock(nc.nm.blocks[names[0]])
		// names[1] (parent) and names[2], names[3] (child, grandchild) arrive together
		done := make(chan struct{}, 3)
		for k := 1; k < 4; k++ {
			blk := cloneBlock(nc.nm.blocks[names[k]])
			delay := time.Duration(c.Rng.Intn(300)) * time.Microsecond
			if k == 1 {
				delay = time.Duration(c.Rng.Intn(150)) * time.Microsecond
			}
			go func() {
				time.Sleep(delay)
				n.chain.ProcessBlock(blk)
				done <- struct{}{}
			}()
		}
		for k := 0; k < 3 && !concWedged; k++ {
			select {
			case <-done:
			case <-time.After(30 * time.Second):
				c.Fail("C37:call-does-not-return", "a block and its descendants delivered concurrently: ProcessBlock did not return within 30 s")
				concWedged = true
			}
		}
		if !concWedged {
			n.quiesce()
			if o := nc.orphanWithStoredParent(n); o != "" {
				c.Fail("C37:atomicity:orphan-with-stored-parent", fmt.Sprintf("block %s and its descendants delivered concurrently: all calls returned, node idle, %s waits in the orphan pool although its parent is stored (best block %s)", names[1], o, nc.nm.name(n.chain.BestBlockHeader().Hash())))
			}
			c.Count("child-vs-parent-attempts")
		}
		nc.emit("conc child-vs-parent", "ok")
		nc.close()
	}
	c.Distinct(fmt.Sprintf("childparent-%d-%d", c.Seed, c.nOps))
}

func genCaseConc(c *Ctx, mode string) {
	rng := c.Rng
	// the scenario is chosen by the case number, so that every window of 8 consecutive cases
	// contains each directed scenario (2x flip-vs-block, cached votes, submit-vs-connect,
	// child-vs-parent) and three general workloads
	switch curCase % 8 {
	case 7:
		genCaseChildVsParent(c)
		return
	case 6:
		genCaseSubmitVsConnect(c)
		return
	case 0, 1:
		genCaseFlipVsBlock(c)
		return
	case 2:
		genCaseCachedVotes(c)
		return
	case 3:
		genCaseRedeliverVsConnect(c)
		return
	}
	// constant parameters: see newNodeEnv (no write to the global parameters between cases)
	E := uint64(2)
	nVal := 3
	// half of the cases: the node is not a validator, so every justification arrives as a
	// verification message and the best chain flips INSIDE AuthVerification (tryRollback)
	local := 0
	if rng.Intn(2) == 0 {
		local = -1
	}
	nc := newNodeCase(c, "pool", E, nVal, local, 2)
	defer nc.close()
	// sequential prefix: mature coinbase outputs
	base := int(E) + 1 + int(consensus.CoinbasePendingBlockNumber)
	tip := "b0"
	for i := 0; i < base; i++ {
		name := nc.defBlock(tip, 0, 0, nil)
		if name == "" {
			panic("base chain block rejected: " + nc.lastRefErr)
		}
		nc.sut.processBlock(nc.nm.blocks[name])
		nc.delivered[name] = true
		tip = name
	}
	// the prefix is justified checkpoint by checkpoint (so that the votes of the concurrent
	// phase name justified sources and do justify, i.e. can flip the best chain)
	prevCp := "b0"
	for _, a := range reverseStrings(nc.ancestors(tip)) {
		if h := nc.nm.blocks[a].Height; h == 0 || h%E != 0 {
			continue
		}
		for v := 0; v < nVal; v++ {
			if v != local {
				nc.sut.chain.ProcessBlockVerification(nc.env.voteMsg(v, nc.nm.blocks[prevCp].Hash(), nc.nm.blocks[a].Hash(), true))
			}
		}
		prevCp = a
	}
	// a block tree with transactions, built on the reference node only
	var blocks []string
	tips := []string{tip}
	var txs []*txInfo
	for i := 0; i < 8+rng.Intn(8); i++ {
		parent := tips[len(tips)-1]
		if rng.Intn(2) == 0 { // competing branches of similar length: fork near the tips
			lo := len(tips) - 4
			if lo < 0 {
				lo = 0
			}
			parent = tips[lo+rng.Intn(len(tips)-lo)]
		}
		var in []*txInfo
		if rng.Intn(2) == 0 {
			in = nc.randomTxs(parent)
			txs = append(txs, in...)
		}
		if name := nc.defBlock(parent, uint64(rng.Intn(2)), byte(rng.Intn(3)), in); name != "" {
			blocks = append(blocks, name)
			tips = append(tips, name)
		}
	}
	type voteEv struct {
		order    int
		src, tgt string
	}
	var votes []voteEv
	for _, name := range blocks {
		if nc.nm.blocks[name].Height%E == 0 {
			anc := nc.ancestorCheckpoints(name)
			if len(anc) == 0 {
				continue
			}
			for v := 0; v < nVal; v++ { // every other validator votes for every checkpoint: best chain flips
				if v != local {
					votes = append(votes, voteEv{v, anc[0], name})
				}
			}
		}
	}
	rng.Shuffle(len(votes), func(i, j int) { votes[i], votes[j] = votes[j], votes[i] })
	if rng.Intn(3) > 0 {
		// lower targets first (random among equal heights): sources are justified when they are
		// named, so competing checkpoints of one height do get justified, often the one on the
		// shorter branch first
		sort.SliceStable(votes, func(i, j int) bool {
			return nc.nm.blocks[votes[i].tgt].Height < nc.nm.blocks[votes[j].tgt].Height
		})
	}
	order2 := append([]string{}, blocks...)
	rng.Shuffle(len(order2), func(i, j int) { order2[i], order2[j] = order2[j], order2[i] })

	var slow int32
	var calls, voteErrs, voteFlips int64
	wedged := func() bool { return atomic.LoadInt32(&slow) != 0 }
	timed := func(what string, f func()) {
		if wedged() {
			return // a call already hangs: the node is wedged, do not queue up behind it
		}
		done := make(chan struct{})
		go func() {
			defer func() {
				if r := recover(); r != nil {
					c.Fail("C37:panic", fmt.Sprintf("%s panicked under concurrency: %v", what, r))
				}
				close(done)
			}()
			f()
		}()
		select {
		case <-done:
			atomic.AddInt64(&calls, 1)
		case <-time.After(30 * time.Second):
			if atomic.CompareAndSwapInt32(&slow, 0, 1) {
				buf := make([]byte, 1<<20)
				n := runtime.Stack(buf, true)
				os.WriteFile(fmt.Sprintf("%s/goroutines-%d.txt", os.TempDir(), os.Getpid()), buf[:n], 0o644)
				c.Fail("C37:call-does-not-return", what+" did not return within 30 s (goroutine dump written)")
			}
		}
	}
	var wg sync.WaitGroup
	stop := make(chan struct{})
	run := func(f func()) {
		wg.Add(1)
		go func() { defer wg.Done(); f() }()
	}
	n := nc.sut
	run(func() {
		for _, name := range blocks {
			b := nc.nm.blocks[name]
			timed("ProcessBlock "+name, func() { n.chain.ProcessBlock(cloneBlock(b)) })
		}
	})
	run(func() {
		for _, name := range order2 {
			b := nc.nm.blocks[name]
			timed("ProcessBlock "+name, func() { n.chain.ProcessBlock(cloneBlock(b)) })
		}
	})
	run(func() {
		for _, v := range votes {
			msg := nc.env.voteMsg(v.order, nc.nm.blocks[v.src].Hash(), nc.nm.blocks[v.tgt].Hash(), true)
			timed(fmt.Sprintf("ProcessBlockVerification %d %s->%s", v.order, v.src, v.tgt), func() {
				before := n.chain.VerifNodeCasper().BestChain()
				err := n.chain.ProcessBlockVerification(msg)
				if err != nil {
					atomic.AddInt64(&voteErrs, 1)
				}
				if n.chain.VerifNodeCasper().BestChain() != before {
					atomic.AddInt64(&voteFlips, 1)
				}
			})
			time.Sleep(time.Duration(rng.Intn(300)) * time.Microsecond)
		}
	})
	run(func() {
		// every transaction is submitted several times (peers re-broadcast): a submission can
		// arrive while the block that confirms the transaction is being connected
		for pass := 0; pass < 4; pass++ {
			for _, ti := range txs {
				t := ti
				timed("ValidateTx "+t.name, func() { n.chain.ValidateTx(t.tx) })
			}
		}
	})
	var readerWG sync.WaitGroup
	for r := 0; r < 2; r++ {
		readerWG.Add(1)
		go func() {
			defer readerWG.Done()
			for {
				select {
				case <-stop:
					return
				default:
				}
				if wedged() {
					return
				}
				timed("read queries", func() {
					h := n.chain.BestBlockHeader()
					n.chain.InMainChain(h.Hash())
					n.chain.BestBlockHeight()
					n.chain.LastFinalizedHeader()
					n.chain.LastJustifiedHeader()
					n.pool.GetTransactions()
					n.chain.GetHeaderByHeight(h.Height)
				})
			}
		}()
	}
	wg.Wait()
	close(stop)
	readerWG.Wait()
	if wedged() {
		// the failure is recorded; the node cannot be used any more (and the goroutines stuck
		// inside it stay behind): end this case and the run
		nc.emit(fmt.Sprintf("conc blocks=%d votes=%d txs=%d", len(blocks), len(votes), len(txs)), "hang")
		nc.dead = true
		concWedged = true
		return
	}
	n.quiesce()
	// every call has returned: the best block must be the fork-choice winner NOW (a rollback
	// request computed before a concurrent block was connected, and applied after it, moves the
	// chain back to a stale tip and nothing repairs that until the next block arrives)
	if bh, fc := n.chain.BestBlockHeader().Hash(), n.chain.VerifNodeCasper().BestChain(); bh != fc {
		c.Fail("C37:stale-rollback", fmt.Sprintf("after the concurrent run (all calls returned, node idle): best block %s but the fork choice is %s", nc.nm.name(bh), nc.nm.name(fc)))
	}
	if o := nc.orphanWithStoredParent(n); o != "" {
		c.Fail("C37:atomicity:orphan-with-stored-parent", fmt.Sprintf("after the concurrent run (all calls returned, node idle): %s waits in the orphan pool although its parent is stored", o))
	}
	// ... and the pool holds no transaction of a main-chain block (a submission racing with the
	// connection of its block must not leave it behind)
	{
		d := n.pool.VerifDump()
		for _, h := range d.Pool {
			hh := h
			tn := nc.txName(&hh)
			for bn, btxs := range nc.blockTxs {
				for _, ti := range btxs {
					if ti.name == tn && n.chain.InMainChain(nc.nm.blocks[bn].Hash()) {
						c.Fail("C37:atomicity:pooled-and-confirmed", fmt.Sprintf("after the concurrent run (node idle): %s is in the pool and in main-chain block %s (C23 under concurrency)", tn, bn))
					}
				}
			}
		}
	}
	// deliver everything once more sequentially and check the final state's consistency
	for _, name := range blocks {
		n.processBlock(nc.nm.blocks[name])
		nc.delivered[name] = true
	}
	n.quiesce()
	final := nc.dump("ok")
	nc.oracleAfterEvent("the concurrent run", procResult{})
	nc.emit(fmt.Sprintf("conc blocks=%d votes=%d txs=%d", len(blocks), len(votes), len(txs)), "ok")
	_ = final
	c.Dist["conc-vote-errors"] += int(atomic.LoadInt64(&voteErrs))
	c.Dist["conc-votes-around-which-the-fork-choice-changed"] += int(atomic.LoadInt64(&voteFlips))
	c.Dist["conc-votes"] += len(votes)
	c.Count("conc-calls-returned")
	c.Dist["conc-calls"] += int(atomic.LoadInt64(&calls))
	c.Distinct(fmt.Sprintf("conc-%d-%d", c.Seed, c.nOps))
}

// concWedged: a call of an earlier case never returned; no further cases are generated.
var concWedged bool

func reverseStrings(l []string) []string {
	out := make([]string, 0, len(l))
	for i := len(l) - 1; i >= 0; i-- {
		out = append(out, l[i])
	}
	return out
}
