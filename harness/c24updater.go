//go:build hc24 || hc25 || hall

package main

import (
	"fmt"
	"math"
	"sync"
	"time"

	"github.com/bytom/bytom/account"
	"github.com/bytom/bytom/asset"
	"github.com/bytom/bytom/consensus"
	"github.com/bytom/bytom/contract"
	"github.com/bytom/bytom/database"
	dbm "github.com/bytom/bytom/database/leveldb"
	"github.com/bytom/bytom/event"
	"github.com/bytom/bytom/protocol"
	"github.com/bytom/bytom/protocol/bc"
	"github.com/bytom/bytom/protocol/bc/types"
	"github.com/bytom/bytom/protocol/state"
	"github.com/bytom/bytom/wallet"
)

// The REAL wallet (wallet.NewWallet: loadWalletInfo + the walletUpdater goroutine) against a chain
// object with a REAL store: blocks saved with Store.SaveBlock, reorganisations applied with
// Store.SaveChainStatus through protocol.VerifSetBest — the main-chain index keeps its stale
// entries above the best block exactly as after a real reorganisation. Direct oracles only,
// evaluated when the updater is idle:
//   C24  the wallet is on the best block of the main chain and its UTXO records equal those of a
//        fresh wallet that attaches only the main chain;
//   C25  everything the keeper reports usable at the chain height is spendable at height+1.
// Operations: extend the main chain, reorganise to shorter / equal / longer branches, stop the
// wallet and restart it later on its database (the wallet is then behind, level or ahead of the
// new best block), rescans (RescanBlocks / UpdateAccountAlias) paused after k block fetches so
// that reorganisations happen DURING the replay.

const (
	updSigOffMain  = "walletUpdater ran and left the wallet on a block that is not the best block of the main chain"
	updSigSleeping = "walletUpdater sleeps in BlockWaiter through a reorganisation to a branch that is not higher than the wallet's chain"
)

// store wrapper: counts what the updater asks, can pause it inside a block fetch, can be killed
type updStore struct {
	state.Store
	mu       sync.Mutex
	seq      int  // store calls made through this wrapper (only the wallet calls through it)
	lastMiss bool // the most recent call was "no main-chain block at that height"
	misses   int
	fetches  int
	pauseAt  int
	gate     chan struct{}
	paused   chan struct{}
	dead     bool
}

func (s *updStore) alive() {
	s.mu.Lock()
	d := s.dead
	s.mu.Unlock()
	if d {
		select {} // an abandoned wallet's updater parks here for good
	}
}

func (s *updStore) GetMainChainHash(h uint64) (*bc.Hash, error) {
	s.alive()
	hash, err := s.Store.GetMainChainHash(h)
	s.mu.Lock()
	s.seq++
	s.lastMiss = err != nil
	if err != nil {
		s.misses++
	}
	s.mu.Unlock()
	return hash, err
}

func (s *updStore) GetBlockHeader(h *bc.Hash) (*types.BlockHeader, error) {
	s.alive()
	s.mu.Lock()
	s.seq++
	s.lastMiss = false
	s.mu.Unlock()
	return s.Store.GetBlockHeader(h)
}

func (s *updStore) GetBlock(h *bc.Hash) (*types.Block, error) {
	s.alive()
	s.mu.Lock()
	s.seq++
	s.lastMiss = false
	s.fetches++
	pause := s.pauseAt != 0 && s.fetches == s.pauseAt
	gate := s.gate
	s.mu.Unlock()
	if pause {
		s.paused <- struct{}{}
		<-gate
	}
	return s.Store.GetBlock(h)
}

type upd struct {
	s        *w24
	g        *g24
	base     *database.Store
	st       *updStore
	chain    *protocol.Chain
	wdb      dbm.DB
	am       *account.Manager
	w        *wallet.Wallet
	best     int
	running  bool
	spinning bool // the updater is in its busy loop (stale index entry at WorkHeight+1): it needs no wake
	nAlias   int
}

func (u *upd) header(id int) *types.BlockHeader { h := u.s.blocks[id].blk.BlockHeader; return &h }

func (u *upd) path(id int) []int { // genesis .. id
	var p []int
	for id != 0 {
		p = append([]int{id}, p...)
		id = u.g.blocks[id].parent
	}
	return p
}

func (u *upd) newBlock(parent int) int {
	id := u.g.newBlock(parent)
	if err := u.base.SaveBlock(u.s.blocks[id].blk); err != nil {
		panic(err)
	}
	return id
}

// a new chain object over the same store; the previous one (and any wallet on it) is abandoned
func (u *upd) newChainObject() {
	if u.st != nil {
		u.st.mu.Lock()
		u.st.dead = true
		u.st.mu.Unlock()
	}
	u.st = &updStore{Store: u.base, paused: make(chan struct{}, 1)}
	u.chain = protocol.VerifWalletChain(u.st, u.header(u.best))
}

func (u *upd) setBest(target int) {
	on := map[int]bool{}
	for _, b := range u.path(u.best) {
		on[b] = true
	}
	var attached []*types.BlockHeader
	for _, b := range u.path(target) {
		if !on[b] || u.best == 0 {
			attached = append(attached, u.header(b))
		}
	}
	u.best = target
	if u.chain == nil {
		u.newChainObject()
	}
	if err := u.chain.VerifSetBest(u.header(target), attached); err != nil {
		panic(err)
	}
}

func (u *upd) start() {
	u.am = account.VerifNewManager(u.wdb, u.chain.BestBlockHeight)
	w, err := wallet.NewWallet(u.wdb, u.am, asset.NewRegistry(u.wdb, nil), contract.NewRegistry(u.wdb), nil, u.chain, event.NewDispatcher(), false)
	if err != nil {
		panic(err)
	}
	u.w, u.running, u.spinning = w, true, false
}

func (u *upd) stop() {
	u.running = false
	u.newChainObject()
}

// The updater's last store call before it goes to sleep in walletBlockWaiter is the lookup of the
// main-chain block at WorkHeight+1 that finds nothing; after that nothing happens until the chain
// wakes it. So: idle <=> a store call was made after `seqBefore` and the latest one is such a miss.
// (If the index holds a stale entry at WorkHeight+1 the updater fetches that block, AttachBlock
// skips it, and the loop spins without ever sleeping: recognised by thousands of calls without
// a status change.)
func (u *upd) waitIdle(seqBefore int, expectRun bool) bool {
	if !expectRun {
		time.Sleep(3 * time.Millisecond)
		return false
	}
	deadline := time.Now().Add(8 * time.Second)
	last := u.w.GetWalletStatusInfo()
	lastSeq := seqBefore
	for time.Now().Before(deadline) {
		time.Sleep(200 * time.Microsecond)
		u.st.mu.Lock()
		seq, miss := u.st.seq, u.st.lastMiss
		u.st.mu.Unlock()
		if seq > seqBefore && miss {
			u.spinning = false
			return true
		}
		st := u.w.GetWalletStatusInfo()
		if st != last {
			last, lastSeq = st, seq
		} else if seq-lastSeq > 4000 {
			u.s.c.Count("updater/spinning-on-a-stale-index-entry")
			u.spinning = true
			return true
		}
	}
	u.s.c.Count("updater/wait-timed-out")
	return true
}

func (u *upd) misses() int {
	u.st.mu.Lock()
	defer u.st.mu.Unlock()
	return u.st.seq
}

func (u *upd) judge(op string, ran bool) {
	s := u.s
	s.fails = nil
	s.db, s.am, s.w = u.wdb, u.am, u.w
	s.chain = u.path(u.best)
	s.height = s.blocks[u.best].blk.Height
	st := u.w.GetWalletStatusInfo()
	bestHash := s.blocks[u.best].blk.Hash()
	where := fmt.Sprintf("after %q: wallet best = block %d (height %d), work = block %d; main chain %v", op, s.blkID[st.BestHash], st.BestHeight, s.blkID[st.WorkHash], s.chain)
	switch {
	case st.BestHash == bestHash && st.WorkHash == bestHash:
		s.c.Count("updater/on-best")
		if s.mode == "c24" {
			s.oracleRescan(op)
		}
	case ran:
		s.fail(updSigOffMain, where)
	case s.height <= st.WorkHeight:
		// known finding F14b: nothing else can be said about this state (C25: the keeper judges the
		// abandoned branch's outputs at the new, lower chain height)
		s.c.Count("updater/asleep-on-abandoned-branch")
		s.fail(updSigSleeping, where)
		for _, f := range s.fails {
			capFail(s.c, f[0], f[1])
		}
		s.fails = nil
		return
	default:
		s.fail("wallet is not on the best block of the main chain", where)
	}
	if s.mode == "c25" {
		s.oracleMature(op)
	}
	for _, f := range s.fails {
		capFail(s.c, f[0], f[1])
	}
	s.fails = nil
}

// one chain operation while the wallet is live: wait for the updater, judge
func (u *upd) liveSetBest(op string, target int) {
	before := u.w.GetWalletStatusInfo()
	m := u.misses()
	u.setBest(target)
	willWake := u.spinning || u.s.blocks[target].blk.Height >= before.WorkHeight+1
	u.waitIdle(m, willWake)
	u.judge(op, willWake)
}

func (u *upd) startAndJudge(op string) {
	m := u.misses()
	u.start()
	u.waitIdle(m, true)
	u.judge(op, true)
}

// rescan through the real entry points; the updater is paused inside its k-th block fetch, the
// chain operations of `during` happen while it is paused
func (u *upd) rescan(op string, k int, during func()) {
	m := u.misses()
	u.st.mu.Lock()
	u.st.pauseAt = u.st.fetches + k
	u.st.gate = make(chan struct{})
	gate := u.st.gate
	u.st.mu.Unlock()
	if u.nAlias%2 == 0 {
		u.w.RescanBlocks()
	} else {
		accs, _ := u.am.ListAccounts("")
		if len(accs) > 0 {
			if err := u.w.UpdateAccountAlias(accs[0].ID, fmt.Sprintf("alias%d", u.nAlias)); err != nil {
				u.w.RescanBlocks()
			}
		}
	}
	u.nAlias++
	select {
	case <-u.st.paused:
		during()
		u.s.c.Count("updater/rescan-paused")
	case <-time.After(300 * time.Millisecond): // the replay needed fewer fetches
		u.s.c.Count("updater/rescan-not-paused")
	}
	u.st.mu.Lock()
	u.st.pauseAt = 0
	u.st.mu.Unlock()
	close(gate)
	u.waitIdle(m, true)
	u.judge(op, true)
}

func c24updaterCase(c *Ctx, env *w24env, s *w24, script int) {
	r := c.Rng
	consensus.ActiveNetParams.VotePendingBlockNums = []consensus.VotePendingBlockNum{{BeginBlock: 0, EndBlock: math.MaxUint64, Num: uint64(3 + 7*r.Intn(2))}}
	g := &g24{r: r, env: env, x: s, blocks: map[int]*g24blk{}, nextBlk: 1, nextOut: 1, pend: consensus.VotePendingBlockNums}
	s.exec(fmt.Sprintf("reset %d %d %s %s", consensus.CoinbasePendingBlockNumber, w24default(), w24pendTable(), env.progTbl))
	u := &upd{s: s, g: g, base: database.NewStore(dbm.NewMemDB()), wdb: dbm.NewMemDB()}
	for k, v := range env.base {
		u.wdb.Set([]byte(k), v)
	}
	defer func() {
		if u.st != nil { // park whatever is still running on this case's chain
			u.st.mu.Lock()
			u.st.dead = true
			u.st.mu.Unlock()
		}
	}()
	gen := u.newBlock(0)
	u.setBest(gen)
	u.startAndJudge("start on genesis")
	grow := func(n int) {
		for i := 0; i < n; i++ {
			b := u.newBlock(u.best)
			u.liveSetBest(fmt.Sprintf("extend to block %d", b), b)
		}
	}
	branch := func(from, n int) int {
		cur := from
		for i := 0; i < n; i++ {
			cur = u.newBlock(cur)
		}
		return cur
	}
	anc := func(d int) int {
		p := u.path(u.best)
		if d >= len(p) {
			d = len(p) - 1
		}
		return p[len(p)-1-d]
	}
	switch script {
	case 1: // wallet behind the old best block, reorganisation to a strictly shorter branch while it is down
		grow(3)
		u.stop()
		u.setBest(u.newBlock(u.best)) // A4, never seen by the wallet
		u.setBest(branch(gen, 2))     // main chain G-B1-B2; index entries 3 and 4 are stale
		u.startAndJudge("restart behind the old best block after a reorganisation to a shorter branch")
		grow(4)
		return
	case 2: // reorganisation to a longer branch during a rescan
		grow(14)
		from := anc(9)
		u.rescan("rescan, reorganisation during the replay", 4, func() { u.setBest(branch(from, 11)) })
		grow(2)
		return
	case 3: // reorganisation to a shorter branch during a rescan
		grow(14)
		from := anc(12)
		u.rescan("rescan, reorganisation to a shorter branch during the replay", 3, func() { u.setBest(branch(from, 5)) })
		grow(12)
		return
	}
	rounds := 6 + r.Intn(8)
	for i := 0; i < rounds; i++ {
		h := int(s.blocks[u.best].blk.Height)
		x := r.Intn(100)
		switch {
		case x < 35 || h < 3:
			grow(1 + r.Intn(5))
		case x < 60: // live reorganisation
			d := 1 + r.Intn(minInt(h, 12))
			n := 1 + r.Intn(d+3) // shorter, equal or longer
			t := branch(anc(d), n)
			u.liveSetBest(fmt.Sprintf("live reorganisation %d back, branch of %d -> block %d", d, n, t), t)
		case x < 80: // the wallet is down while the chain moves, then restarts on its database
			u.stop()
			for k := 0; k < 1+r.Intn(3); k++ {
				if r.Intn(2) == 0 {
					u.setBest(u.newBlock(u.best))
				} else {
					hh := int(s.blocks[u.best].blk.Height)
					d := 1 + r.Intn(maxInt(1, minInt(hh, 8)))
					u.setBest(branch(anc(d), 1+r.Intn(d+2)))
				}
			}
			u.startAndJudge("restart after the chain moved")
		default: // rescan with reorganisations during the replay
			k := 2 + r.Intn(2*h+2)
			u.rescan(fmt.Sprintf("rescan paused after %d fetches", k), k, func() {
				if r.Intn(4) > 0 {
					hh := int(s.blocks[u.best].blk.Height)
					d := 1 + r.Intn(maxInt(1, minInt(hh, 10)))
					u.setBest(branch(anc(d), 1+r.Intn(d+3)))
				} else {
					u.setBest(u.newBlock(u.best))
				}
			})
		}
	}
}

func maxInt(a, b int) int {
	if a > b {
		return a
	}
	return b
}

func minInt(a, b int) int {
	if a < b {
		return a
	}
	return b
}

func c24updater(c *Ctx, env *w24env, s *w24) {
	for script := 1; script <= 3; script++ {
		c24updaterCase(c, env, s, script)
	}
	n := 6
	if c.Tier == "thorough" {
		n = 80
	}
	for i := 0; i < n; i++ {
		c24updaterCase(c, env, s, 0)
	}
}
