//go:build hc08 || hall

package main

import (
	"bytes"
	"crypto/ed25519"
	"fmt"
	"math/big"
	"strings"

	"github.com/bytom/bytom/consensus"
	"github.com/bytom/bytom/protocol/vm"
)

// C08: every one of the 256 opcodes on shaped, boundary and random stacks.
//   op line:   v <vmVersion> <gasLimit> <code> <args> <state> <ctx…> <sigs>   (Drv/VMCommon.lean)
//   impl line: <class> <gasLeft> <#trace lines> <fnv64(TraceOut text)> <last stack dump>
// The trace text contains, per executed instruction, depth, pc, runLimit, opcode name and data
// and the whole data stack after it, so equality of its hash means: same control flow, same gas
// at every step, same stacks.
// Direct oracle (no model): the numeric opcodes are recomputed with math/big from the
// documented semantics (LE unsigned, ≤32 bytes, <2^255, exact results, ErrRange when the exact
// result does not fit; shift counts ≥256 give 0).

const (
	sigBelow       = "an opcode changed stack items below its operands (its operands share memory with other items)"
	sigGlobalTrue  = "global:true-bytes-corrupted"
	sigMultisigRef = "CHECKMULTISIG does not compute the order-preserving injection of signatures into public keys"
	sigChecksigRef = "CHECKSIG does not return the Ed25519 verdict"
	sigLshift = "LSHIFT drops the bits shifted out of the 256-bit word instead of failing with ErrRange"
)

type c08gen struct {
	c    *Ctx
	keys []vmKey
	bnd  [][]byte
	msgs [][]byte
}

var c08shape = map[byte]string{
	0x64: "B", 0x69: "B", 0x6b: "b", 0x6d: "bb", 0x6e: "bb", 0x6f: "bbb", 0x70: "bbbb", 0x71: "bbbbbb", 0x72: "bbbb",
	0x73: "B", 0x75: "b", 0x76: "b", 0x77: "bb", 0x78: "bb", 0x79: "bbbs", 0x7a: "bbbs", 0x7b: "bbb", 0x7c: "bb", 0x7d: "bb",
	0x7e: "bb", 0x7f: "bss", 0x80: "bs", 0x81: "bs", 0x82: "b", 0x89: "bb", 0x83: "b", 0x84: "bb", 0x85: "bb", 0x86: "bb",
	0x87: "bb", 0x88: "bb", 0x8b: "n", 0x8c: "n", 0x8d: "n", 0x8e: "n", 0x91: "n", 0x92: "n", 0x93: "nn", 0x94: "nn",
	0x95: "nn", 0x96: "nn", 0x97: "nn", 0x98: "nn", 0x99: "nn", 0x9a: "BB", 0x9b: "BB", 0x9c: "nn", 0x9d: "nn", 0x9e: "nn",
	0x9f: "nn", 0xa0: "nn", 0xa1: "nn", 0xa2: "nn", 0xa3: "nn", 0xa4: "nn", 0xa5: "nnn", 0xa8: "b", 0xaa: "b", 0xab: "b",
	0xac: "gmk", 0xc0: "bbsps", 0xc1: "snasb",
}

func (g *c08gen) number() []byte {
	r := g.c.Rng
	switch r.Intn(10) {
	case 0, 1, 2, 3:
		return cp(g.bnd[r.Intn(len(g.bnd))])
	case 4:
		return leBytes(big.NewInt(int64(r.Intn(300))))
	default:
		bl := uint(r.Intn(257)) + 1
		n := new(big.Int).Rand(r, pow2(bl))
		b := leBytes(n)
		if r.Intn(6) == 0 { // non-minimal: trailing zero bytes
			b = append(b, make([]byte, r.Intn(3)+1)...)
		}
		return b
	}
}

func (g *c08gen) bytesItem() []byte {
	r := g.c.Rng
	var l int
	switch r.Intn(8) {
	case 0:
		l = 0
	case 1:
		l = []int{1, 20, 31, 32, 33, 40, 64, 75, 76}[r.Intn(9)]
	default:
		l = r.Intn(41)
	}
	b := make([]byte, l)
	r.Read(b)
	if r.Intn(5) == 0 {
		for i := range b {
			b[i] = 0
		}
	}
	return b
}

var c08predicates = [][]byte{
	{}, {0x51}, {0x00}, {0x93}, {0x76, 0x75}, {0xc4}, {0x50}, {0x6a}, {0x51, 0x51, 0x93}, {0x74}, {0x75, 0x51}, {0x82}, {0xc2},
	{0x51, 0x6b}, {0x01}, {0x63, 0, 0, 0, 0}, {0x00, 0x51, 0x51, 0xc0}, {0x79}, {0xff},
}

func (g *c08gen) item(kind byte) []byte {
	r := g.c.Rng
	switch kind {
	case 'n':
		return g.number()
	case 's':
		if r.Intn(6) == 0 {
			return g.number()
		}
		return leBytes(big.NewInt(int64(r.Intn(49))))
	case 'B':
		switch r.Intn(4) {
		case 0:
			return []byte{}
		case 1:
			return []byte{0, 0}
		case 2:
			return []byte{1}
		}
		return g.bytesItem()
	case 'm':
		if r.Intn(8) == 0 {
			return g.bytesItem()
		}
		return cp(g.msgs[r.Intn(len(g.msgs))])
	case 'k':
		if r.Intn(8) == 0 {
			return g.bytesItem()
		}
		return cp(g.keys[r.Intn(len(g.keys))].pub)
	case 'g':
		k := g.keys[r.Intn(len(g.keys))]
		sg := ed25519.Sign(k.priv, g.msgs[r.Intn(len(g.msgs))])
		if r.Intn(6) == 0 {
			sg[r.Intn(64)] ^= 1
		}
		if r.Intn(10) == 0 {
			return g.bytesItem()
		}
		return sg
	case 'a':
		if r.Intn(4) == 0 {
			return g.bytesItem()
		}
		b := make([]byte, 32)
		r.Read(b)
		return b
	case 'p':
		if r.Intn(4) == 0 {
			b := make([]byte, r.Intn(7))
			r.Read(b)
			return b
		}
		return cp(c08predicates[r.Intn(len(c08predicates))])
	}
	return g.bytesItem()
}

func (g *c08gen) context(k *vmCase) {
	r := g.c.Rng
	k.vmVersion = 1
	if r.Intn(60) == 0 {
		k.vmVersion = uint64(r.Intn(3))
	}
	k.entryID = make([]byte, 32)
	r.Read(k.entryID)
	mode := r.Intn(4)
	if mode == 0 { // no tx context at all
		return
	}
	full := mode != 3
	pick := func() bool { return full || r.Intn(2) == 0 }
	if pick() {
		k.txVersion = u64p(1)
		if !full && r.Intn(2) == 0 {
			k.txVersion = u64p(uint64(r.Intn(4)))
		}
	}
	if pick() {
		k.blockHeight = u64p(uint64(r.Int63n(1 << 40)))
	}
	if pick() {
		a := make([]byte, 32)
		r.Read(a)
		k.assetID = &a
	}
	if pick() {
		v := r.Uint64()
		if r.Intn(2) == 0 {
			v = uint64(r.Intn(1000))
		}
		k.amount = &v
	}
	if pick() {
		k.destPos = u64p(uint64(r.Intn(5)))
	}
	if pick() {
		a := make([]byte, 32)
		r.Read(a)
		k.spentOutputID = &a
	}
	if pick() {
		h := make([]byte, 32)
		r.Read(h)
		if r.Intn(3) == 0 {
			h = cp(g.msgs[0])
		}
		k.sigHash = &h
	}
	k.checkOutput = pick()
}

func (g *c08gen) limit(jumpy bool) int64 {
	r := g.c.Rng
	if jumpy {
		return int64(r.Intn(1500))
	}
	switch r.Intn(12) {
	case 0:
		return int64(r.Intn(12))
	case 1, 2:
		return int64(r.Intn(300))
	case 3:
		return int64(r.Intn(3000))
	case 4:
		return consensus.MaxGasAmount
	}
	return 100000
}

// trailing bytes for opcodes that take immediate data
func (g *c08gen) trailing(op byte) []byte {
	r := g.c.Rng
	rnd := func(n int) []byte { b := make([]byte, n); r.Read(b); return b }
	switch {
	case op >= 0x01 && op <= 0x4b:
		n := int(op)
		switch r.Intn(5) {
		case 0:
			return rnd(r.Intn(n + 1)) // possibly truncated
		case 1:
			return rnd(n + r.Intn(3))
		}
		return rnd(n)
	case op == 0x4c:
		if r.Intn(6) == 0 {
			return nil
		}
		n := r.Intn(90)
		if r.Intn(3) == 0 {
			n = []int{0, 1, 75, 76, 255}[r.Intn(5)]
		}
		body := rnd(n)
		if r.Intn(5) == 0 && n > 0 {
			body = body[:r.Intn(n)]
		}
		return append([]byte{byte(n)}, body...)
	case op == 0x4d:
		if r.Intn(6) == 0 {
			return rnd(r.Intn(2))
		}
		n := r.Intn(300)
		body := rnd(n)
		if r.Intn(5) == 0 {
			n = []int{65535, 256, 0, n + 1}[r.Intn(4)]
		}
		return append([]byte{byte(n), byte(n >> 8)}, body...)
	case op == 0x4e:
		if r.Intn(6) == 0 {
			return rnd(r.Intn(4))
		}
		n := uint32(r.Intn(120))
		body := rnd(int(n))
		switch r.Intn(8) {
		case 0:
			n = 0xffffffff
		case 1:
			n = 0xfffffffb
		case 2:
			n = 0xfffffffa
		case 3:
			n = 0x7fffffff
		case 4:
			n++
		}
		return append([]byte{byte(n), byte(n >> 8), byte(n >> 16), byte(n >> 24)}, body...)
	case op == 0x63 || op == 0x64:
		if r.Intn(6) == 0 {
			return rnd(r.Intn(4))
		}
		t := uint32(r.Intn(12))
		switch r.Intn(8) {
		case 0:
			t = 0xffffffff
		case 1:
			t = 0x80000000
		}
		tail := rnd(r.Intn(4))
		for i := range tail {
			tail[i] = []byte{0x51, 0x00, 0x61, 0x75, 0x76}[int(tail[i])%5]
		}
		return append([]byte{byte(t), byte(t >> 8), byte(t >> 16), byte(t >> 24)}, tail...)
	}
	return nil
}

func (g *c08gen) multisigStack() [][]byte {
	r := g.c.Rng
	n := r.Intn(4)
	m := 0
	if n > 0 {
		m = 1 + r.Intn(n)
	}
	if r.Intn(8) == 0 {
		m = r.Intn(5)
	}
	msg := g.item('m')
	perm := r.Perm(len(g.keys))
	var pks, sgs [][]byte
	for i := 0; i < n; i++ {
		pks = append(pks, cp(g.keys[perm[i%len(perm)]].pub))
	}
	// signatures by a sub-sequence of the keys, in pop order compatible order most of the time
	idx := r.Perm(n)
	if r.Intn(3) != 0 {
		for i := 1; i < len(idx); i++ { // sort ascending
			for j := i; j > 0 && idx[j-1] > idx[j]; j-- {
				idx[j-1], idx[j] = idx[j], idx[j-1]
			}
		}
	}
	for i := 0; i < m && i < n; i++ {
		sg := ed25519.Sign(g.keys[perm[idx[i]%len(perm)]].priv, msg)
		if r.Intn(10) == 0 {
			sg[3] ^= 4
		}
		sgs = append(sgs, sg)
	}
	for len(sgs) < m {
		sgs = append(sgs, g.bytesItem())
	}
	if r.Intn(12) == 0 && n > 0 {
		pks[r.Intn(n)] = g.bytesItem()
	}
	var st [][]byte
	for i := 0; i < r.Intn(2); i++ {
		st = append(st, g.bytesItem())
	}
	st = append(st, sgs...)
	st = append(st, msg)
	st = append(st, pks...)
	st = append(st, leBytes(big.NewInt(int64(m))), leBytes(big.NewInt(int64(n))))
	if r.Intn(15) == 0 {
		st[len(st)-1] = g.number()
	}
	if r.Intn(15) == 0 {
		st[len(st)-2] = g.number()
	}
	if r.Intn(10) == 0 && len(st) > 2 {
		st = st[r.Intn(len(st)-1):]
	}
	return st
}

// stackFor builds a data stack (bottom first) for the opcode.
func (g *c08gen) stackFor(op byte) (stack [][]byte, mode string) {
	r := g.c.Rng
	shape, shaped := c08shape[op]
	if op == 0xad && r.Intn(5) != 0 {
		return g.multisigStack(), "shaped"
	}
	if op == 0xac && r.Intn(2) == 0 { // consistent (sig, msg, key) triple
		k := g.keys[r.Intn(len(g.keys))]
		msg := g.msgs[r.Intn(len(g.msgs))]
		sg := ed25519.Sign(k.priv, msg)
		if r.Intn(3) == 0 {
			sg = malleate(sg)
		}
		return [][]byte{g.bytesItem(), sg, cp(msg), cp(k.pub)}, "shaped"
	}
	if op == 0xc0 && r.Intn(2) == 0 { // items… n predicate limit
		var st [][]byte
		for i := r.Intn(4); i > 0; i-- {
			st = append(st, g.item("bnsB"[r.Intn(4)]))
		}
		n := int64(r.Intn(len(st) + 1))
		if r.Intn(10) == 0 {
			n++
		}
		lim := int64(0)
		if r.Intn(3) != 0 {
			lim = int64(r.Intn(400))
		}
		st = append(st, leBytes(big.NewInt(n)), g.item('p'), leBytes(big.NewInt(lim)))
		return st, "shaped"
	}
	switch x := r.Intn(10); {
	case x == 0:
		return nil, "empty"
	case x == 1 && shaped && len(shape) > 1: // one operand short
		shape = shape[1+r.Intn(len(shape)-1):]
		mode = "short"
	case x <= 6 && shaped:
		mode = "shaped"
		for i := r.Intn(4); i > 0; i-- { // extra items below
			stack = append(stack, g.bytesItem())
		}
	default:
		mode = "random"
		n := 1 + r.Intn(8)
		kinds := "bbbnnsBmkg"
		var sb strings.Builder
		for i := 0; i < n; i++ {
			sb.WriteByte(kinds[r.Intn(len(kinds))])
		}
		shape = sb.String()
	}
	for i := 0; i < len(shape); i++ {
		stack = append(stack, g.item(shape[i]))
	}
	return stack, mode
}

func (g *c08gen) build(op byte, stack [][]byte) *vmCase {
	r := g.c.Rng
	k := &vmCase{}
	g.context(k)
	jumpy := op == 0x63 || op == 0x64 || (op == 0xc0 && r.Intn(2) == 0)
	k.limit = g.limit(jumpy)
	var code []byte
	if len(stack) > 0 && r.Intn(10) < 3 { // stack built by pushes inside the program
		for _, it := range stack {
			code = append(code, vm.PushDataBytes(it)...)
		}
	} else {
		k.args = stack
	}
	code = append(code, op)
	code = append(code, g.trailing(op)...)
	switch {
	case op == 0x6b && r.Intn(2) == 0:
		code = append(code, 0x6c)
	case op == 0x6c || op == 0xc1:
		for i := r.Intn(4); i > 0; i-- {
			k.state = append(k.state, g.bytesItem())
		}
	}
	k.code = code
	if bytes.IndexByte(code, 0xac) >= 0 || bytes.IndexByte(code, 0xad) >= 0 {
		k.fillSigs()
	}
	return k
}

// ---- direct oracle: numeric opcodes recomputed with math/big

var (
	c08two255 = pow2(255)
	c08two256 = pow2(256)
)

func c08asNum(b []byte) (*big.Int, string) {
	if len(b) > 32 {
		return nil, "badValue"
	}
	n := leToBig(b)
	if n.Cmp(c08two255) >= 0 {
		return nil, "range"
	}
	return n, ""
}

func c08bool(b bool) []byte {
	if b {
		return []byte{1}
	}
	return []byte{}
}

func c08isTrue(b []byte) bool {
	for _, x := range b {
		if x != 0 {
			return true
		}
	}
	return false
}

// c08numeric returns (handled, expected error class or "", expected pushed item or nil for none, #popped, exactReferenceDiffers)
func c08numeric(op byte, st [][]byte) (bool, string, []byte, int, bool) {
	arity := 0
	switch {
	case op >= 0x8b && op <= 0x8e, op == 0x91, op == 0x92:
		arity = 1
	case op >= 0x93 && op <= 0xa4:
		arity = 2
	case op == 0xa5:
		arity = 3
	default:
		return false, "", nil, 0, false
	}
	raw := op == 0x9a || op == 0x9b
	var v []*big.Int
	var rawv [][]byte
	for i := 0; i < arity; i++ { // pops, top first
		if len(st) <= i {
			return true, "dataStackUnderflow", nil, 0, false
		}
		it := st[len(st)-1-i]
		if raw {
			rawv = append(rawv, it)
			continue
		}
		n, e := c08asNum(it)
		if e != "" {
			return true, e, nil, 0, false
		}
		v = append(v, n)
	}
	num := func(n *big.Int) (bool, string, []byte, int, bool) {
		if n.Sign() < 0 || n.Cmp(c08two255) >= 0 {
			return true, "range", nil, 0, false
		}
		return true, "", leBytes(n), arity, false
	}
	bl := func(b bool) (bool, string, []byte, int, bool) { return true, "", c08bool(b), arity, false }
	one := big.NewInt(1)
	switch op {
	case 0x8b:
		return num(new(big.Int).Add(v[0], one))
	case 0x8c:
		return num(new(big.Int).Sub(v[0], one))
	case 0x8d:
		return num(new(big.Int).Lsh(v[0], 1))
	case 0x8e:
		return num(new(big.Int).Rsh(v[0], 1))
	case 0x91:
		return bl(v[0].Sign() == 0)
	case 0x92:
		return bl(v[0].Sign() != 0)
	}
	if raw {
		a, b := c08isTrue(rawv[1]), c08isTrue(rawv[0])
		if op == 0x9a {
			return bl(a && b)
		}
		return bl(a || b)
	}
	if op == 0xa5 {
		mx, mn, x := v[0], v[1], v[2]
		return bl(x.Cmp(mn) >= 0 && x.Cmp(mx) < 0)
	}
	y, x := v[0], v[1]
	switch op {
	case 0x93:
		return num(new(big.Int).Add(x, y))
	case 0x94:
		return num(new(big.Int).Sub(x, y))
	case 0x95:
		return num(new(big.Int).Mul(x, y))
	case 0x96:
		if y.Sign() == 0 {
			return true, "divZero", nil, 0, false
		}
		return num(new(big.Int).Quo(x, y))
	case 0x97:
		if y.Sign() == 0 {
			return true, "divZero", nil, 0, false
		}
		return num(new(big.Int).Rem(x, y))
	case 0x98:
		if y.Cmp(big.NewInt(256)) >= 0 {
			return num(big.NewInt(0))
		}
		return num(new(big.Int).Lsh(x, uint(y.Uint64())))
	case 0x99:
		if y.Cmp(big.NewInt(256)) >= 0 {
			return num(big.NewInt(0))
		}
		return num(new(big.Int).Rsh(x, uint(y.Uint64())))
	case 0x9c:
		return bl(x.Cmp(y) == 0)
	case 0x9d:
		if x.Cmp(y) == 0 {
			return true, "", nil, arity, false
		}
		return true, "verifyFailed", nil, 0, false
	case 0x9e:
		return bl(x.Cmp(y) != 0)
	case 0x9f:
		return bl(x.Cmp(y) < 0)
	case 0xa0:
		return bl(x.Cmp(y) > 0)
	case 0xa1:
		return bl(x.Cmp(y) <= 0)
	case 0xa2:
		return bl(x.Cmp(y) >= 0)
	case 0xa3:
		if x.Cmp(y) > 0 {
			return num(y)
		}
		return num(x)
	case 0xa4:
		if x.Cmp(y) < 0 {
			return num(y)
		}
		return num(x)
	}
	return false, "", nil, 0, false
}

// c08oracle checks a single-opcode case whose stack was given as arguments, with ample gas.
func c08oracle(c *Ctx, op byte, k *vmCase, res vmResult) {
	if len(k.code) != 1 || k.limit < 50000 || k.vmVersion != 1 {
		return
	}
	handled, wantErr, push, popped, _ := c08numeric(op, k.args)
	if !handled {
		return
	}
	c.Count("oracle/numeric")
	name := vm.Op(op).String()
	sig := fmt.Sprintf("numeric-reference %s", name)
	bad := ""
	if wantErr != "" {
		if res.class != wantErr {
			bad = fmt.Sprintf("reference demands %s, implementation answered %s", wantErr, res.class)
		}
	} else {
		var want [][]byte // top first
		if push != nil {
			want = append(want, push)
		}
		for i := len(k.args) - 1 - popped; i >= 0; i-- {
			want = append(want, k.args[i])
		}
		wantClass := "ok"
		if len(want) == 0 || !c08isTrue(want[0]) {
			wantClass = "falseVMResult"
		}
		got := res.sink.sinceVM
		if res.class != wantClass {
			bad = fmt.Sprintf("reference demands %s, implementation answered %s", wantClass, res.class)
		} else if len(got) != len(want) {
			bad = fmt.Sprintf("reference stack has %d items, implementation %d", len(want), len(got))
		} else {
			for i := range want {
				if !bytes.Equal(want[i], got[i]) {
					bad = fmt.Sprintf("stack item %d: reference %x, implementation %x", i, want[i], got[i])
					break
				}
			}
		}
	}
	if bad != "" {
		if op == 0x98 && wantErr == "range" && (res.class == "ok" || res.class == "falseVMResult") {
			sig = sigLshift
		}
		failCapped(c, sig, fmt.Sprintf("args=%s: %s", hxList(k.args), bad))
	}
}

// c08smallNum: a canonical small non-negative number operand (what well-formed multisig stacks use)
func c08smallNum(b []byte) (int, bool) {
	n, e := c08asNum(b)
	if e != "" || n.BitLen() > 20 {
		return 0, false
	}
	return int(n.Int64()), true
}

// c08embeds: is there a strictly increasing map of the signatures (in pop order) into the keys
// (in pop order) such that every signature verifies under its key?  Exhaustive search with the
// real ed25519.Verify — the specification, not the implementation's greedy scan.
func c08embeds(sigs, keys [][]byte, msg []byte, from int) bool {
	if len(sigs) == 0 {
		return true
	}
	for i := from; i < len(keys); i++ {
		if len(keys[i]) == ed25519.PublicKeySize && ed25519.Verify(ed25519.PublicKey(keys[i]), msg, sigs[0]) &&
			c08embeds(sigs[1:], keys, msg, i+1) {
			return true
		}
	}
	return false
}

// c08sigOracle: CHECKSIG / CHECKMULTISIG on a well-formed stack given as arguments, ample gas:
// the pushed boolean must be the specification's verdict computed from real Ed25519 verdicts.
func c08sigOracle(c *Ctx, op byte, k *vmCase, res vmResult) {
	if len(k.code) != 1 || k.limit < 50000 || k.vmVersion != 1 || (op != 0xac && op != 0xad) {
		return
	}
	a := k.args
	var want bool
	var consumed int
	sig := sigMultisigRef
	if op == 0xac {
		sig = sigChecksigRef
		if len(a) < 3 || len(a[len(a)-2]) != 32 {
			return
		}
		pk, msg, sg := a[len(a)-1], a[len(a)-2], a[len(a)-3]
		want = len(pk) == ed25519.PublicKeySize && ed25519.Verify(ed25519.PublicKey(pk), msg, sg)
		consumed = 3
	} else {
		if len(a) < 2 {
			return
		}
		n, ok1 := c08smallNum(a[len(a)-1])
		m, ok2 := c08smallNum(a[len(a)-2])
		if !ok1 || !ok2 || m > n || (n > 0 && m == 0) || len(a) < 3+n+m {
			return
		}
		var keys, sigs [][]byte
		for i := 0; i < n; i++ {
			keys = append(keys, a[len(a)-3-i])
		}
		msg := a[len(a)-3-n]
		if len(msg) != 32 {
			return
		}
		for j := 0; j < m; j++ {
			sigs = append(sigs, a[len(a)-4-n-j])
		}
		want = true
		for _, p := range keys {
			if len(p) != ed25519.PublicKeySize {
				want = false
			}
		}
		want = want && c08embeds(sigs, keys, msg, 0)
		consumed = 3 + n + m
	}
	c.Count("oracle/signature")
	c.Count(fmt.Sprintf("oracle/signature/%v", want))
	wantClass := "falseVMResult"
	if want {
		wantClass = "ok"
	}
	got := res.sink.sinceVM
	bad := ""
	switch {
	case res.class != wantClass:
		bad = fmt.Sprintf("specification demands %v (%s), implementation answered %s", want, wantClass, res.class)
	case len(got) != len(a)-consumed+1:
		bad = fmt.Sprintf("stack has %d items, expected %d", len(got), len(a)-consumed+1)
	case !bytes.Equal(got[0], c08bool(want)):
		bad = fmt.Sprintf("pushed %x, specification demands %v", got[0], want)
	}
	if bad != "" {
		failCapped(c, sig, fmt.Sprintf("args=%s: %s", hxList(a), bad))
	}
}

// c08multisigFamily: for n keys (optionally with a duplicated key) every tuple of m <= n signers
// drawn from the listed keys and one non-listed key — repeated signatures, wrong order, every
// subset, outsiders — on the fixed message.
func (g *c08gen) multisigFamily(c *Ctx) {
	msg := g.msgs[0]
	maxN := 3
	if c.Tier != "quick" {
		maxN = 4
	}
	sigOf := map[int][]byte{}
	for i, k := range g.keys {
		sigOf[i] = ed25519.Sign(k.priv, msg)
	}
	outsider := vmKeys(5)[4]
	sigOf[len(g.keys)] = ed25519.Sign(outsider.priv, msg)
	// the malleated twin R||(S+L) of every genuine signature: signer index 100+i
	for i := range g.keys {
		sigOf[100+i] = malleate(sigOf[i])
	}
	for n := 1; n <= maxN && n <= len(g.keys); n++ {
		for _, dup := range []bool{false, true} {
			keyIdx := make([]int, n)
			for i := range keyIdx {
				keyIdx[i] = i
			}
			if dup {
				if n < 2 {
					continue
				}
				keyIdx[1] = 0 // the first key listed twice
			}
			signers := append([]int{}, keyIdx...)
			signers = append(signers, len(g.keys)) // plus the non-listed key
			if !dup && n <= 3 {
				for _, ki := range keyIdx { // plus the malleated twins of the listed keys' signatures
					signers = append(signers, 100+ki)
				}
			}
			for m := 1; m <= n; m++ {
				total := 1
				for i := 0; i < m; i++ {
					total *= len(signers)
				}
				for t := 0; t < total; t++ {
					var st [][]byte
					x := t
					for j := 0; j < m; j++ {
						st = append(st, sigOf[signers[x%len(signers)]])
						x /= len(signers)
					}
					st = append(st, msg)
					for _, ki := range keyIdx {
						st = append(st, cp(g.keys[ki].pub))
					}
					st = append(st, leBytes(big.NewInt(int64(m))), leBytes(big.NewInt(int64(n))))
					k := &vmCase{vmVersion: 1, limit: 100000, code: []byte{0xad}, args: st, entryID: make([]byte, 32), txVersion: u64p(1)}
					k.fillSigs()
					c08one(c, 0xad, "multisig-family", k)
				}
			}
		}
	}
	// CHECKSIG: every (signer, key) pair, genuine and malleated
	csSigners := []int{}
	for si := 0; si <= len(g.keys); si++ {
		csSigners = append(csSigners, si)
	}
	for i := range g.keys {
		csSigners = append(csSigners, 100+i)
	}
	for _, si := range csSigners {
		for ki := range g.keys {
			k := &vmCase{vmVersion: 1, limit: 100000, code: []byte{0xac}, args: [][]byte{sigOf[si], msg, cp(g.keys[ki].pub)},
				entryID: make([]byte, 32), txVersion: u64p(1)}
			k.fillSigs()
			c08one(c, 0xac, "checksig-family", k)
		}
	}
}

// arity of the data opcodes that pop k items and push one result
var c08arity = map[string]int{"OR": 2, "XOR": 2, "AND": 2, "EQUAL": 2, "CAT": 2, "CATPUSHDATA": 2, "ADD": 2, "SUB": 2, "MUL": 2,
	"DIV": 2, "MOD": 2, "LSHIFT": 2, "RSHIFT": 2, "BOOLAND": 2, "BOOLOR": 2, "NUMEQUAL": 2, "NUMNOTEQUAL": 2, "LESSTHAN": 2,
	"GREATERTHAN": 2, "LESSTHANOREQUAL": 2, "GREATERTHANOREQUAL": 2, "MIN": 2, "MAX": 2, "LEFT": 2, "RIGHT": 2,
	"INVERT": 1, "1ADD": 1, "1SUB": 1, "2MUL": 1, "2DIV": 1, "NOT": 1, "0NOTEQUAL": 1, "SHA256": 1, "SHA3": 1, "HASH160": 1,
	"SUBSTR": 3, "WITHIN": 3}

// c08probe: process-global state.  `1 1 NUMEQUAL  0 NOT  1 1 EQUAL` must leave three items 01 —
// BoolBytes(true) hands out one shared slice, so an opcode that writes into an operand in place
// corrupts every later "true" of the process.  The stream keeps running in the same process.
var c08probeCase = &vmCase{vmVersion: 1, limit: 10000, code: []byte{0x51, 0x51, 0x9c, 0x00, 0x91, 0x51, 0x51, 0x87}, entryID: make([]byte, 32)}

func c08probe(c *Ctx, after string) {
	res := runVMCase(c08probeCase)
	ok := res.class == "ok" && len(res.sink.lastDump) == 3
	if ok {
		for _, it := range res.sink.lastDump {
			if !bytes.Equal(it, []byte{1}) {
				ok = false
			}
		}
	}
	if !ok {
		failCapped(c, sigGlobalTrue, fmt.Sprintf("after %s: `1 1 NUMEQUAL 0 NOT 1 1 EQUAL` gives %s [%s]", after, res.class, hxList(res.sink.lastDump)))
	}
}

// aliasProgram: operands produced by DUP / OVER / PICK / TUCK / 2DUP / alt-stack round trips /
// boolean-producing opcodes, then consumed by the binary and unary data opcodes.
func (g *c08gen) aliasProgram() *vmCase {
	r := g.c.Rng
	k := &vmCase{vmVersion: 1, limit: 100000, entryID: make([]byte, 32), txVersion: u64p(1)}
	val := func() []byte {
		switch r.Intn(4) {
		case 0:
			return leBytes(big.NewInt(int64(r.Intn(70000))))
		case 1:
			b := make([]byte, 1+r.Intn(4))
			r.Read(b)
			b[len(b)-1] &= 0x7f
			return b
		}
		b := make([]byte, 1+r.Intn(8))
		r.Read(b)
		return b
	}
	push := func(b []byte) []byte { return vm.PushDataBytes(b) }
	var code []byte
	rounds := 1 + r.Intn(3)
	for i := 0; i < rounds; i++ {
		switch r.Intn(14) {
		case 0:
			code = append(code, push(val())...)
			code = append(code, 0x76) // x DUP
		case 1:
			code = append(append(code, push(val())...), push(val())...)
			code = append(code, 0x78) // x y OVER
		case 2:
			code = append(append(code, push(val())...), push(val())...)
			code = append(code, 0x7d) // x y TUCK
		case 3:
			code = append(append(code, push(val())...), push(val())...)
			code = append(code, 0x6e) // x y 2DUP
		case 4:
			code = append(append(code, push(val())...), push(val())...)
			code = append(code, 0x51, 0x79) // x y 1 PICK
		case 5:
			code = append(code, push(val())...)
			code = append(code, 0x76, 0x6b) // x DUP TOALTSTACK … FROMALTSTACK
			code = append(code, push(val())...)
			code = append(code, 0x75, 0x6c)
		case 6:
			n := int64(r.Intn(9))
			code = append(append(code, num(n)...), num(n)...)
			code = append(code, 0x9c) // n n NUMEQUAL → true
		case 7:
			v := val()
			code = append(append(code, push(v)...), push(v)...)
			code = append(code, 0x87) // v v EQUAL → true
		case 8:
			code = append(append(code, num(int64(r.Intn(5)))...), num(int64(5+r.Intn(5)))...)
			code = append(code, []byte{0x9f, 0xa1, 0x9e}[r.Intn(3)]) // LESSTHAN / LESSTHANOREQUAL / NUMNOTEQUAL → true
		case 9:
			code = append(code, 0x00, 0x91) // 0 NOT → true
		case 10:
			code = append(code, num(int64(1+r.Intn(9)))...)
			code = append(code, 0x92) // n 0NOTEQUAL → true
		case 11:
			code = append(append(append(code, num(3)...), num(1)...), num(7)...)
			code = append(code, 0xa5) // 3 1 7 WITHIN → true
		case 12: // CHECKSIG true / false
			key := g.keys[r.Intn(len(g.keys))]
			msg := g.msgs[r.Intn(len(g.msgs))]
			sg := ed25519.Sign(key.priv, msg)
			switch r.Intn(4) {
			case 0:
				sg[5] ^= 1
			case 1:
				sg = malleate(sg)
			}
			code = append(append(append(code, push(sg)...), push(msg)...), push(key.pub)...)
			code = append(code, 0xac)
		default:
			code = append(code, 0x51, 0x51, 0x9a) // 1 1 BOOLAND → true
		}
		// consumer
		bin := []byte{0x85, 0x86, 0x84, 0x7e, 0x89, 0x93, 0x94, 0x95, 0x98, 0x99, 0xa3, 0xa4, 0x9b, 0x87, 0x85, 0x86}
		un := []byte{0x83, 0x8b, 0x8c, 0x8d, 0x8e, 0x91, 0xa8}
		switch r.Intn(6) {
		case 0:
			code = append(code, un[r.Intn(len(un))])
		case 1:
			code = append(code, num(int64(r.Intn(3)))...)
			code = append(code, []byte{0x80, 0x81}[r.Intn(2)]) // LEFT RIGHT
		case 2:
			code = append(append(code, num(0)...), num(int64(r.Intn(2)))...)
			code = append(code, 0x7f) // SUBSTR
		default:
			if r.Intn(3) != 0 {
				v := val()
				if r.Intn(2) == 0 {
					v = v[:1]
				}
				code = append(code, push(v)...)
			}
			code = append(code, bin[r.Intn(len(bin))])
		}
	}
	k.code = code
	if bytes.IndexByte(code, 0xac) >= 0 {
		k.fillSigs()
	}
	return k
}

func c08alias(c *Ctx, k *vmCase) {
	res := runVMContext(k.context(), k.limit, true)
	line := k.line()
	c.Op(line, res.line)
	c.Distinct(line)
	c.Count("mode/alias")
	c.Count("class/" + res.class)
	if bad := stackBelowCheck(res.sink.keep.String(), k.args, c08arity); bad != "" {
		failCapped(c, sigBelow, fmt.Sprintf("code=%x: %s", k.code, bad))
	}
	c08probe(c, fmt.Sprintf("code=%x", k.code))
}

func c08one(c *Ctx, op byte, mode string, k *vmCase) {
	res := runVMCase(k)
	line := k.line()
	c.Op(line, res.line)
	name := vm.Op(op).String()
	if op >= 1 && op <= 75 {
		name = "DATA_n"
	} else if strings.HasPrefix(name, "NOPx") {
		name = "NOPx"
	} else if op >= 0x51 && op <= 0x60 {
		name = "OP_N"
	}
	c.Count("op/" + name)
	c.Count("class/" + res.class)
	c.Count("mode/" + mode)
	c.Count(fmt.Sprintf("op-class/%s/%s", name, res.class))
	c.Distinct(line)
	c08oracle(c, op, k, res)
	c08sigOracle(c, op, k, res)
	c08probe(c, fmt.Sprintf("code=%x args=%s", k.code, hxList(k.args)))
}

func runC08(c *Ctx) {
	c.Rule = "for each of the 256 opcode bytes: programs `[pushes] OP [immediate bytes]` on stacks that are empty, one operand short, shaped for the opcode (numbers from the boundary set 0,1,2^31..2^255±1,2^256-1, non-minimal zeros, 33-byte values; byte strings of 0..40/64/75/76 bytes; real Ed25519 keys, messages and (sometimes corrupted) signatures; predicates; CHECKMULTISIG layouts) or random (1..8 items), with the stack passed as arguments or built by pushes, gas limits 0..300, ..3000, 100000 and MaxGasAmount, with full / partial / absent transaction context; numeric opcodes additionally on the full boundary×boundary grid; short multi-opcode programs (1..3 rounds) whose operands are produced by DUP / OVER / TUCK / 2DUP / PICK / an alt-stack round trip / boolean-producing opcodes (NUMEQUAL, EQUAL, LESSTHAN…, NOT, 0NOTEQUAL, WITHIN, BOOLAND, CHECKSIG true and false) and consumed by OR, XOR, AND, INVERT, CAT, CATPUSHDATA, SUBSTR, LEFT, RIGHT, arithmetic, shifts, hashes, with the whole stack after every instruction compared and a process-global probe (`1 1 NUMEQUAL 0 NOT 1 1 EQUAL` must give 01 01 01) after every case of the stream; CHECKMULTISIG with n <= 3 (4 in the thorough tier) keys, optionally one key listed twice, and EVERY m-tuple (m <= n) of signers drawn from the listed keys and one non-listed key (repeated signatures, wrong order, all subsets), CHECKSIG on every signer x key pair, with real Ed25519 signatures and, for every genuine signature R||S, its malleated twin R||(S+L) (must be rejected); a case is distinct by its whole op line"
	g := &c08gen{c: c, keys: vmKeys(4), bnd: vmBoundaryNumbers()}
	for i := 0; i < 2; i++ {
		m := bytes.Repeat([]byte{byte(0xa0 + i)}, 32)
		g.msgs = append(g.msgs, m)
	}
	lines := c.CorpusLines()
	if c.Replay != "" {
		lines = c.ReplayLines()
	}
	for _, l := range lines {
		k, err := parseVMCase(l)
		if err != nil {
			continue
		}
		op := byte(0)
		if len(k.code) > 0 {
			op = k.code[len(k.code)-1]
			if len(k.args) > 0 {
				op = k.code[0]
			}
		}
		if len(k.args) == 0 && len(k.code) > 1 {
			c08alias(c, k) // a multi-opcode program: whole-stack comparison + below-operands oracle
			continue
		}
		c08one(c, op, "corpus", k)
	}
	if c.Replay != "" {
		return
	}
	// boundary grid for the numeric opcodes (stack as arguments, ample gas, full context)
	for op := 0x8b; op <= 0xa5; op++ {
		shape, ok := c08shape[byte(op)]
		if !ok || strings.ContainsAny(shape, "B") {
			continue
		}
		full := &vmCase{}
		mk := func(st [][]byte) *vmCase {
			k := &vmCase{vmVersion: 1, limit: 100000, code: []byte{byte(op)}, args: st, entryID: make([]byte, 32), txVersion: u64p(1)}
			_ = full
			return k
		}
		switch len(shape) {
		case 1:
			for _, a := range g.bnd {
				c08one(c, byte(op), "grid", mk([][]byte{a}))
			}
		case 2:
			for _, a := range g.bnd {
				for _, b := range g.bnd {
					if c.Tier == "quick" && c.Rng.Intn(6) != 0 {
						continue
					}
					c08one(c, byte(op), "grid", mk([][]byte{a, b}))
				}
			}
		case 3:
			for i := 0; i < len(g.bnd)*8; i++ {
				c08one(c, byte(op), "grid", mk([][]byte{g.number(), g.number(), g.number()}))
			}
		}
	}
	// shift counts around 255/256 for LSHIFT / RSHIFT
	for _, op := range []byte{0x98, 0x99} {
		for _, a := range g.bnd {
			for _, s := range []int64{0, 1, 7, 8, 63, 64, 65, 127, 128, 191, 192, 193, 254, 255, 256, 257, 1000} {
				if c.Tier == "quick" && c.Rng.Intn(3) != 0 {
					continue
				}
				k := &vmCase{vmVersion: 1, limit: 100000, code: []byte{op}, args: [][]byte{a, leBytes(big.NewInt(s))}, entryID: make([]byte, 32), txVersion: u64p(1)}
				c08one(c, op, "grid", k)
			}
		}
	}
	// operands that alias other items / the process-wide true constant
	for _, l := range []string{"02" + "0f0f" + "76" + "01f0" + "85", "55559c52855151" + "9c", "0151" + "76" + "83", "02aabb76" + "01cc" + "86"} {
		code, _ := unhx(l)
		c08alias(c, &vmCase{vmVersion: 1, limit: 100000, code: code, entryID: make([]byte, 32), txVersion: u64p(1)})
	}
	for i := 0; i < c.N*25; i++ {
		c08alias(c, g.aliasProgram())
	}
	// CHECKSIG / CHECKMULTISIG semantics against real Ed25519 verdicts
	g.multisigFamily(c)
	// shaped / random cases per opcode
	for op := 0; op < 256; op++ {
		n := c.N
		if _, shaped := c08shape[byte(op)]; !shaped && op != 0xad {
			n = c.N/3 + 8
		}
		for i := 0; i < n; i++ {
			st, mode := g.stackFor(byte(op))
			c08one(c, byte(op), mode, g.build(byte(op), st))
		}
	}
}

func init() { register("c08", runC08) }
