//go:build hc07 || hall

package main

import (
	"bytes"
	"fmt"
	"math/big"

	"github.com/bytom/bytom/consensus"
	"github.com/bytom/bytom/protocol/vm"
)

// C07: gas accounting and termination on programs with loops, nested CHECKPREDICATE and
// refund-heavy sequences.
//   op line / impl line: as C08 (the complete TraceOut text is hashed: depth, pc, runLimit and
//   opcode of every executed instruction, all stacks), compared with the HEAP instance of the model.
// Direct oracle (implementation alone):
//   * vm.Verify returns (a step watchdog stands in for "terminates");
//   * 0 ≤ gasLeft ≤ gasLimit;
//   * every completed depth-0 instruction takes ≥ 1 from Φ = runLimit + stackCost(dataStack)
//     (programs that touch the alt stack are skipped for this check; a CHECKPREDICATE is
//     measured as a whole, child included).

const (
	sigInflation = "vm.Verify returns more gas than the limit (CHECKPREDICATE refunds a failed child's unpaid stack)"
	sigNonTerm   = "vm.Verify does not terminate: a CHECKPREDICATE loop gains gas on every iteration"
	sigFreeMS    = "CHECKMULTISIG with zero public keys takes nothing from the potential"
	sigCPGain    = "a CHECKPREDICATE instruction raises the potential of its VM (refund of a failed child's unpaid stack)"
	// the same three observations when the KNOWN mechanism (a child instruction failing in the deferred
	// charge after an unpaid deferred-cost push) does not account for them: some other way of creating gas
	sigCreated    = "gas is created: vm.Verify returns more gas than the limit, beyond what the known deferred-cost refund accounts for"
	sigNonTermNew = "vm.Verify does not terminate within the step bound although no known deferred-cost refund accounts for the gas"
	sigCPCreated  = "a CHECKPREDICATE instruction raises the potential of its VM beyond what the known deferred-cost refund accounts for"
	sigNegLimit   = "a VM executes an instruction with a negative run limit"
)

type c07gen struct {
	c *Ctx
}

// c07bigOperands: numbers at and around the int64 / uint64 borders and wide numbers whose low
// word is small — the operands of every opcode that converts a stack item with bigIntInt64 /
// Uint64 (CHECKPREDICATE limit and count, PICK/ROLL index, SUBSTR/LEFT/RIGHT sizes, CHECKOUTPUT
// index and amount, CHECKMULTISIG counts).
func c07bigOperands() [][]byte {
	var out [][]byte
	add := func(n *big.Int) { out = append(out, leBytes(n)) }
	p63, p64 := pow2(63), pow2(64)
	for _, d := range []int64{-2, -1, 0, 1} {
		add(new(big.Int).Add(p63, big.NewInt(d)))
	}
	for _, k := range []int64{1, 2, 256, 1000, 1000000, 1 << 40} {
		add(new(big.Int).Sub(p64, big.NewInt(k)))
	}
	for _, d := range []int64{0, 1, 5} {
		add(new(big.Int).Add(p64, big.NewInt(d)))
	}
	for _, e := range []uint{72, 128, 200, 248, 254} {
		add(new(big.Int).Add(pow2(e), big.NewInt(3)))
	}
	add(new(big.Int).Sub(pow2(255), big.NewInt(1)))
	add(pow2(255))
	return out
}

var c07big = c07bigOperands()

// bigOperandBlock: one instruction of the bigIntInt64 family fed with a border operand.
func (g *c07gen) bigOperandBlock(depth int) []byte {
	r := g.c.Rng
	operand := func() []byte { return vm.PushDataBytes(c07big[r.Intn(len(c07big))]) }
	small := func(n int) []byte { return num(int64(r.Intn(n))) }
	str := vm.PushDataBytes([]byte("abcdefgh"))
	var b []byte
	switch r.Intn(9) {
	case 0, 1, 2: // CHECKPREDICATE  <items> n <pred> limit
		pred := [][]byte{{0x51}, {0x51, 0x51, 0x93}, {}, {0x00}, {0x61, 0x51}}[r.Intn(5)]
		b = append(b, small(2)...)
		if r.Intn(4) == 0 {
			b = append(operand(), vm.PushDataBytes(pred)...)
			b = append(b, small(300)...)
		} else {
			b = append(b, vm.PushDataBytes(pred)...)
			b = append(b, operand()...)
		}
		b = append(b, 0xc0)
		b = append(b, []byte{0x91, 0x75, 0x69}[r.Intn(3)])
	case 3: // PICK / ROLL
		b = append(append(str, str...), operand()...)
		b = append(b, []byte{0x79, 0x7a}[r.Intn(2)])
	case 4: // LEFT / RIGHT
		b = append(str, operand()...)
		b = append(b, []byte{0x80, 0x81}[r.Intn(2)])
	case 5: // SUBSTR
		b = str
		if r.Intn(2) == 0 {
			b = append(append(b, operand()...), small(4)...)
		} else {
			b = append(append(b, small(4)...), operand()...)
		}
		b = append(b, 0x7f)
	case 6: // CHECKOUTPUT index amount assetid vmversion code
		ops := [][]byte{small(3), small(100), vm.PushDataBytes(bytes.Repeat([]byte{5}, 32)), small(2), vm.PushDataBytes([]byte{0x51})}
		ops[[]int{0, 1, 3}[r.Intn(3)]] = operand()
		for _, o := range ops {
			b = append(b, o...)
		}
		b = append(b, 0xc1)
	case 7: // CHECKMULTISIG msg nsigs npubkeys
		b = vm.PushDataBytes(bytes.Repeat([]byte{7}, 32))
		if r.Intn(2) == 0 {
			b = append(append(b, operand()...), small(2)...)
		} else {
			b = append(append(b, small(2)...), operand()...)
		}
		b = append(b, 0xad)
	default: // arithmetic near the borders
		b = append(operand(), operand()...)
		b = append(b, []byte{0x93, 0x94, 0x95, 0x98, 0x99, 0xa3}[r.Intn(6)])
	}
	return b
}

type c07jump struct {
	at     int // index of the block holding the jump instruction
	target int // index of the block to jump to (len(blocks) = end of program)
}

// body generates a straight-line-ish body as blocks plus jumps between block boundaries.
func (g *c07gen) program(depth int, allowLoops bool) []byte {
	r := g.c.Rng
	nb := 2 + r.Intn(10)
	if depth > 0 {
		nb = 1 + r.Intn(5)
	}
	var blocks [][]byte
	var jumps []c07jump
	push := func(b []byte) { blocks = append(blocks, b) }
	randBytes := func(n int) []byte { b := make([]byte, n); r.Read(b); return b }
	for i := 0; i < nb; i++ {
		if r.Intn(100) < 12 { // dedicated share: border operands of the bigIntInt64 family
			push(g.bigOperandBlock(depth))
			continue
		}
		switch x := r.Intn(100); {
		case x < 14: // numbers and arithmetic
			ops := []byte{0x93, 0x94, 0x95, 0x96, 0x97, 0x98, 0x99, 0xa3, 0xa4, 0x9c, 0x9f, 0xa0}
			b := append(num(int64(r.Intn(1000))), num(int64(r.Intn(40)))...)
			push(append(b, ops[r.Intn(len(ops))]))
		case x < 22: // unary
			ops := []byte{0x8b, 0x8c, 0x8d, 0x8e, 0x91, 0x92, 0x82, 0x83}
			push(append(num(int64(r.Intn(300))), ops[r.Intn(len(ops))]))
		case x < 34: // stack shuffles (may underflow)
			ops := []byte{0x76, 0x75, 0x7c, 0x78, 0x6d, 0x77, 0x7d, 0x6e, 0x6f, 0x70, 0x71, 0x72, 0x73, 0x74, 0x7b}
			var b []byte
			for k := r.Intn(3); k > 0; k-- {
				b = append(b, vm.PushDataBytes(randBytes(r.Intn(12)))...)
			}
			push(append(b, ops[r.Intn(len(ops))]))
		case x < 40: // pick / roll
			push(append(num(int64(r.Intn(4))), []byte{0x79, 0x7a}[r.Intn(2)]))
		case x < 46: // alt stack
			push([]byte{[]byte{0x6b, 0x6c}[r.Intn(2)]})
		case x < 58: // splice, incl. the aliasing-prone chains
			switch r.Intn(5) {
			case 0:
				push(append(append(vm.PushDataBytes(randBytes(r.Intn(20))), vm.PushDataBytes(randBytes(r.Intn(20)))...), 0x7e))
			case 1:
				push(append(num(int64(r.Intn(6))), []byte{0x80, 0x81}[r.Intn(2)]))
			case 2:
				push(append(append(num(int64(r.Intn(4))), num(int64(r.Intn(6)))...), 0x7f))
			case 3:
				push(append(vm.PushDataBytes(randBytes(1+r.Intn(4))), []byte{0x7e, 0x89}[r.Intn(2)]))
			default:
				push([]byte{0x76, 0x51, 0x80, 0x01, byte(r.Intn(256)), 0x7e})
			}
		case x < 64: // hashes / bitwise / equality
			ops := []byte{0xa8, 0xaa, 0xab, 0x84, 0x85, 0x86, 0x87, 0x9a, 0x9b}
			push([]byte{ops[r.Intn(len(ops))]})
		case x < 70: // introspection
			ops := []byte{0xc2, 0xc3, 0xc4, 0xc9, 0xca, 0xcb, 0xcd, 0xae}
			push([]byte{ops[r.Intn(len(ops))]})
		case x < 80 && len(blocks) > 0: // jumps
			op := byte(0x63)
			var b []byte
			if r.Intn(3) != 0 {
				op = 0x64
				b = num(int64(r.Intn(2)))
				if r.Intn(3) == 0 {
					b = []byte{0x76} // DUP: condition = top item
				}
			}
			tgt := r.Intn(nb + 1)
			if !allowLoops && tgt <= len(blocks) {
				tgt = len(blocks) + 1 + r.Intn(2)
			}
			jumps = append(jumps, c07jump{len(blocks), tgt})
			push(append(b, op, 0, 0, 0, 0))
		case x < 84 && allowLoops: // counted loop:  N  $L 1SUB DUP JUMPIF $L  DROP
			n := 1 + r.Intn(12)
			push(num(int64(n)))
			jumps = append(jumps, c07jump{len(blocks), len(blocks)})
			push([]byte{0x8c, 0x76, 0x64, 0, 0, 0, 0})
			push([]byte{0x75})
		case x < 92 && depth < 4: // CHECKPREDICATE
			var b []byte
			nItems := r.Intn(3)
			for k := 0; k < nItems; k++ {
				b = append(b, vm.PushDataBytes(randBytes(r.Intn(10)))...)
			}
			n := int64(r.Intn(nItems + 1))
			if r.Intn(8) == 0 {
				n = int64(r.Intn(5))
			}
			pred := g.program(depth+1, allowLoops && r.Intn(2) == 0)
			var lim int64
			switch r.Intn(5) {
			case 0:
				lim = 0
			case 1:
				lim = int64(r.Intn(12))
			case 2:
				lim = int64(r.Intn(200))
			case 3:
				lim = int64(r.Intn(3000))
			default:
				lim = int64(r.Intn(1000000))
			}
			b = append(b, num(n)...)
			b = append(b, vm.PushDataBytes(pred)...)
			b = append(b, num(lim)...)
			b = append(b, 0xc0)
			if r.Intn(2) == 0 {
				b = append(b, []byte{0x75, 0x69, 0x91}[r.Intn(3)])
			}
			push(b)
		case x < 95: // zero-key multisig (free) and small multisigs
			if r.Intn(2) == 0 {
				push(append(vm.PushDataBytes(bytes.Repeat([]byte{7}, 32)), 0x00, 0x00, 0xad))
			} else {
				push(append(append(vm.PushDataBytes(bytes.Repeat([]byte{7}, 32)), vm.PushDataBytes(bytes.Repeat([]byte{9}, 32))...), 0x51, 0x51, 0xad))
			}
		case x < 97: // expansion / verify / fail
			push([]byte{[]byte{0x50, 0x69, 0x6a, 0x61, 0xb0}[r.Intn(5)]})
		default: // malformed tail: random bytes, or an instruction cut off by the end of the program
			switch r.Intn(4) {
			case 0:
				push(append([]byte{0x63}, randBytes(r.Intn(4))...))
			case 1:
				push(append([]byte{0x51, 0x64}, randBytes(r.Intn(4))...))
			case 2:
				n := 2 + r.Intn(5)
				push(append([]byte{[]byte{0x4c, byte(n)}[r.Intn(2)], byte(n)}, randBytes(n-1-r.Intn(2))...))
			default:
				push(randBytes(1 + r.Intn(5)))
			}
		}
	}
	if depth == 0 && r.Intn(2) == 0 {
		push([]byte{0x51})
	}
	// assemble
	offs := make([]int, len(blocks)+1)
	for i, b := range blocks {
		offs[i+1] = offs[i] + len(b)
	}
	var out []byte
	for _, b := range blocks {
		out = append(out, b...)
	}
	for _, j := range jumps {
		t := j.target
		if t > len(blocks) {
			t = len(blocks)
		}
		addr := uint32(offs[t])
		if r.Intn(25) == 0 {
			addr = uint32(r.Intn(len(out) + 3)) // not an instruction boundary / past the end
		}
		pos := offs[j.at+1] - 4
		out[pos], out[pos+1], out[pos+2], out[pos+3] = byte(addr), byte(addr>>8), byte(addr>>16), byte(addr>>24)
	}
	return out
}

func (g *c07gen) newCase() *vmCase {
	r := g.c.Rng
	k := &vmCase{vmVersion: 1, entryID: make([]byte, 32)}
	r.Read(k.entryID)
	if r.Intn(5) != 0 {
		k.txVersion = u64p(1)
		k.blockHeight = u64p(uint64(r.Intn(100000)))
		a := make([]byte, 32)
		r.Read(a)
		k.assetID = &a
		k.amount = u64p(uint64(r.Intn(100000)))
		k.destPos = u64p(uint64(r.Intn(3)))
		s := make([]byte, 32)
		r.Read(s)
		k.spentOutputID = &s
		h := make([]byte, 32)
		r.Read(h)
		k.sigHash = &h
		k.checkOutput = true
	}
	loops := r.Intn(3) != 0
	k.code = g.program(0, loops)
	for i := r.Intn(5); i > 0; i-- {
		b := make([]byte, r.Intn(16))
		r.Read(b)
		if r.Intn(2) == 0 {
			b = leBytes(big.NewInt(int64(r.Intn(500))))
		}
		k.args = append(k.args, b)
	}
	if r.Intn(6) == 0 {
		b := make([]byte, r.Intn(16))
		r.Read(b)
		k.state = append(k.state, b)
	}
	switch r.Intn(10) {
	case 0, 1:
		k.limit = int64(r.Intn(65))
	case 2, 3, 4:
		k.limit = int64(r.Intn(1500))
	case 5, 6, 7:
		k.limit = int64(r.Intn(20000))
	case 8:
		k.limit = 100000
	default:
		k.limit = consensus.MaxGasAmount
	}
	// a backward jump (also one produced by a mis-aimed target or inside a predicate) can burn the
	// whole limit one unit at a time while the stack — dumped by TraceOut after every step — grows
	jumpy := bytes.IndexByte(k.code, 0x63) >= 0 || bytes.IndexByte(k.code, 0x64) >= 0
	if jumpy && k.limit > 2500 {
		if g.c.Tier == "quick" || r.Intn(10) != 0 {
			k.limit = int64(r.Intn(2500))
		} else {
			k.limit = int64(r.Intn(8000))
		}
	}
	return k
}

func c07usesAlt(k *vmCase) bool {
	return len(k.state) > 0 || bytes.IndexByte(k.code, 0x6b) >= 0 || bytes.IndexByte(k.code, 0x6c) >= 0
}

func c07one(c *Ctx, k *vmCase, tag string) {
	ctx := k.context()
	sink := &traceSink{hash: 14695981039346656037, budget: vmStepBudget(k.limit), unpaidLen: k.unpaidPushCosts()}
	track := !c07usesAlt(k)
	if track {
		sink.track = true
		for i := len(k.args) - 1; i >= 0; i-- {
			sink.curStack = append(sink.curStack, k.args[i])
		}
	}
	vm.TraceOut = sink
	gasLeft, err := vm.Verify(ctx, k.limit)
	vm.TraceOut = nil
	class := vmErrClass(err)
	line := k.line()
	var res string
	if sink.fired {
		res = "watchdog"
	} else {
		last := "."
		if len(sink.lastDump) > 0 {
			last = hxList(sink.lastDump)
		}
		res = fmt.Sprintf("%s %d %d %d %s", class, gasLeft, sink.lines, sink.hash, last)
	}
	c.Op(line, res)
	c.Distinct(line)
	c.Count("class/" + class)
	c.Count("tag/" + tag)
	switch {
	case sink.steps == 0:
		c.Count("steps/0")
	case sink.steps < 10:
		c.Count("steps/1-9")
	case sink.steps < 100:
		c.Count("steps/10-99")
	case sink.steps < 1000:
		c.Count("steps/100-999")
	default:
		c.Count("steps/1000+")
	}
	if bytes.IndexByte(k.code, 0xc0) >= 0 {
		c.Count("has/checkpredicate")
	}
	// ---- direct oracle (the property on the implementation alone)
	// (a) no VM ever runs with a negative run limit
	if sink.minLimit < 0 {
		failCapped(c, sigNegLimit, fmt.Sprintf("limit %d: %s", k.limit, sink.minLine))
	}
	// (b) termination within the step bound (every instruction costs >= 1 of a potential <= limit)
	if sink.fired {
		created := sink.maxLimit0 - k.limit
		if sink.knownEvent > 0 && created <= sink.allowance {
			failCapped(c, sigNonTerm, fmt.Sprintf("more than %d instructions traced; limit %d", sink.budget, k.limit))
		} else {
			failCapped(c, sigNonTermNew, fmt.Sprintf("more than %d instructions traced; limit %d, run limit reached %d, known refunds account for %d",
				sink.budget, k.limit, sink.maxLimit0, sink.allowance))
		}
		return
	}
	// (c) gas is never created: 0 <= gasLeft <= gasLimit
	if k.limit >= 0 && (gasLeft < 0 || gasLeft > k.limit) {
		if gasLeft > k.limit && sink.knownEvent > 0 && gasLeft-k.limit <= sink.allowance {
			failCapped(c, sigInflation, fmt.Sprintf("limit %d gasLeft %d err %s", k.limit, gasLeft, class))
		} else {
			failCapped(c, sigCreated, fmt.Sprintf("limit %d gasLeft %d err %s (known refunds account for %d)", k.limit, gasLeft, class, sink.allowance))
		}
	}
	// (d) every completed depth-0 instruction takes >= 1 from the potential
	if track {
		for _, rp := range sink.phiReports {
			c.Count("phi-checked")
			if rp.delta >= 1 {
				continue
			}
			switch {
			case rp.op == "CHECKMULTISIG" && rp.delta == 0:
				failCapped(c, sigFreeMS, fmt.Sprintf("Φ unchanged by CHECKMULTISIG"))
			case rp.op == "CHECKPREDICATE" && rp.allow > 0 && rp.delta+rp.allow >= 1:
				failCapped(c, sigCPGain, fmt.Sprintf("Φ changed by %d over one CHECKPREDICATE", -rp.delta))
			case rp.op == "CHECKPREDICATE":
				failCapped(c, sigCPCreated, fmt.Sprintf("Φ changed by %d over one CHECKPREDICATE, known refunds account for %d", -rp.delta, rp.allow))
			default:
				failCapped(c, fmt.Sprintf("instruction %s took %d from the potential", rp.op, rp.delta), "every executed instruction must consume at least one unit")
			}
		}
	}
}

func runC07(c *Ctx) {
	c.Rule = "programs from a grammar: pushes, arithmetic, stack shuffles, PICK/ROLL, alt stack, splice chains (incl. DUP n LEFT x CAT), hashes, introspection, forward/backward JUMP and JUMPIF (targets at block boundaries, 4% elsewhere), counted loops, nested CHECKPREDICATE up to depth 4 with child limits 0 / <12 / <200 / <3000 / larger than the parent, zero-key CHECKMULTISIG, expansion opcodes, malformed tails; a 12% share of instructions of the bigIntInt64/Uint64 family (CHECKPREDICATE limit and count, PICK/ROLL, LEFT/RIGHT/SUBSTR, CHECKOUTPUT index/amount/vmVersion, CHECKMULTISIG counts) fed with border operands (2^63-2..2^63+1, 2^64-k, 2^64..2^64+5, 9..32-byte numbers with a small low word, 2^255-1, 2^255) plus the full operand x opcode family straight and in a JUMP loop; 0..2 arguments, optional state data; gas limits 0..64, <1500, <20000, 100000, MaxGasAmount; a case is distinct by its op line"
	g := &c07gen{c}
	lines := c.CorpusLines()
	if c.Replay != "" {
		lines = c.ReplayLines()
	}
	for _, l := range lines {
		k, err := parseVMCase(l)
		if err != nil {
			continue
		}
		c07one(c, k, "corpus")
	}
	if c.Replay != "" {
		return
	}
	// small exhaustive family: limits 0..40 for a fixed set of tiny programs
	tiny := [][]byte{{}, {0x51}, {0x00}, {0x51, 0x51, 0x93}, {0x51, 0x75}, {0x63, 0, 0, 0, 0}, {0x51, 0x64, 0, 0, 0, 0},
		{0x00, 0x00, 0x00, 0xc0}, {0x00, 0x01, 0x51, 0x00, 0xc0}, {0x51, 0x76, 0x6d}, {0x50}, {0x01, 0xaa, 0xaa},
		append(vm.PushDataBytes(bytes.Repeat([]byte{7}, 32)), 0x00, 0x00, 0xad), {0x51, 0x6b, 0x6c}, {0x00, 0x01, 0xc4, 0x51, 0xc0}}
	for _, p := range tiny {
		for lim := int64(0); lim <= 40; lim++ {
			if c.Tier == "quick" && lim%3 != 0 && lim > 12 {
				continue
			}
			c07one(c, &vmCase{vmVersion: 1, limit: lim, code: p, entryID: make([]byte, 32), txVersion: u64p(1)}, "tiny")
		}
	}
	// border-operand family: every opcode that converts a stack item to int64 / uint64, with every
	// border operand, once straight and (CHECKPREDICATE) once in a `… DROP JUMP 0` loop
	full := func(code []byte, limit int64) *vmCase {
		a := bytes.Repeat([]byte{5}, 32)
		return &vmCase{vmVersion: 1, limit: limit, code: code, entryID: make([]byte, 32), txVersion: u64p(1),
			assetID: &a, amount: u64p(7), destPos: u64p(0), checkOutput: true}
	}
	cat := func(parts ...[]byte) []byte {
		var out []byte
		for _, p := range parts {
			out = append(out, p...)
		}
		return out
	}
	str := vm.PushDataBytes([]byte("abcdefgh"))
	msg := vm.PushDataBytes(bytes.Repeat([]byte{7}, 32))
	for _, opnd := range c07big {
		o := vm.PushDataBytes(opnd)
		progs := [][]byte{
			cat(num(0), []byte{0x01, 0x51}, o, []byte{0xc0, 0x91}),                          // 0 <TRUE> limit CHECKPREDICATE NOT
			cat(num(0), []byte{0x01, 0x51}, o, []byte{0xc0, 0x75, 0x63, 0, 0, 0, 0}),        // … DROP JUMP 0
			cat(o, []byte{0x01, 0x51}, num(100), []byte{0xc0, 0x91}),                        // n = operand
			cat(num(0), []byte{0x03, 0x51, 0x51, 0x93}, o, []byte{0xc0, 0x75, 0x51}),        // longer predicate
			cat(str, str, o, []byte{0x79}), cat(str, str, o, []byte{0x7a}),                  // PICK ROLL
			cat(str, o, []byte{0x80}), cat(str, o, []byte{0x81}),                            // LEFT RIGHT
			cat(str, o, num(2), []byte{0x7f}), cat(str, num(2), o, []byte{0x7f}),            // SUBSTR
			cat(o, num(5), vm.PushDataBytes(bytes.Repeat([]byte{5}, 32)), num(1), []byte{0x01, 0x51, 0xc1}), // CHECKOUTPUT index
			cat(num(0), o, vm.PushDataBytes(bytes.Repeat([]byte{5}, 32)), num(1), []byte{0x01, 0x51, 0xc1}), // CHECKOUTPUT amount
			cat(num(0), num(5), vm.PushDataBytes(bytes.Repeat([]byte{5}, 32)), o, []byte{0x01, 0x51, 0xc1}), // CHECKOUTPUT vmVersion
			cat(msg, num(0), o, []byte{0xad}), cat(msg, o, num(1), []byte{0xad}),            // CHECKMULTISIG counts
		}
		for _, p := range progs {
			c07one(c, full(p, 10000), "border")
			if c.Tier != "quick" {
				c07one(c, full(p, 300), "border")
				c07one(c, full(p, consensus.MaxGasAmount), "border")
			}
		}
	}
	for i := 0; i < c.N; i++ {
		c07one(c, g.newCase(), "grammar")
	}
}

func init() { register("c07", runC07) }
