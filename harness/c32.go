//go:build hc32 || hall

package main

import (
	"bytes"
	"encoding/hex"
	"fmt"
	"io"
	"strconv"
	"strings"
	"sync"
	"time"

	"github.com/bytom/bytom/crypto/ed25519/chainkd"
	"github.com/bytom/bytom/p2p/connection"
)

// C32: secret connection.
//
// Two real SecretConnections A and B are established by the real MakeSecretConnection over
// an in-memory duplex pipe (two goroutines for the handshake only); afterwards the harness
// is single-threaded and only calls Read when a whole frame (or EOF) is available.
//
//   reset <A.sendNonce> <B.sendNonce>     new handshake; the nonces are read through the
//                                         hook (and sometimes moved to a carry boundary)
//   w <side> <datahex>                    side.Write(data)
//   r <side> <len>                        side.Read(buf[:len]), buf pre-filled with 0xAA
//   tamper <side> <frame> <off> <xor>     xor one byte of a sealed frame waiting in side's inbox
//   close <side>                          side.Close()
//   trunc <side> <k>                      cut the last k bytes of side's inbox, then close
//   replay <side> <k> <j>                 (c32r.go) replace the k-th sealed frame waiting in side's inbox by the
//                                         j-th sealed frame ever sent to that side (whole-frame replay)
//   inc2 <nonce hex>                      (c32r.go) incr2Nonce on a 24-byte nonce → the new nonce
// impl line of w: n=<n> err=<e> frames=<sealed frames written> nonce=<send nonce after>
// impl line of r: n=<n> err=<e> buf=<buffer with the trailing 0xAA run cut> buffered=<len(recvBuffer)> nonce=<recv nonce after>
//
// Direct oracle (no model): the bytes returned by Read (data[:n]) are exactly the next n bytes
// of what the peer wrote — every byte the receiver consumed from the stream is returned to
// the caller, in order, once; a tampered frame yields an error; after the handshake each
// side's RemotePubKey is the key the other side holds; a peer that signs with another key
// than the one it claims is rejected.

type c32pipe struct {
	mu     sync.Mutex
	cond   *sync.Cond
	buf    []byte
	closed bool
}

func newC32pipe() *c32pipe {
	p := &c32pipe{}
	p.cond = sync.NewCond(&p.mu)
	return p
}

type c32conn struct{ in, out *c32pipe }

func (c *c32conn) Read(p []byte) (int, error) {
	c.in.mu.Lock()
	defer c.in.mu.Unlock()
	for len(c.in.buf) == 0 && !c.in.closed {
		c.in.cond.Wait()
	}
	if len(c.in.buf) == 0 {
		return 0, io.EOF
	}
	n := copy(p, c.in.buf)
	c.in.buf = c.in.buf[n:]
	return n, nil
}

func (c *c32conn) Write(p []byte) (int, error) {
	c.out.mu.Lock()
	defer c.out.mu.Unlock()
	if c.out.closed {
		return 0, io.ErrClosedPipe
	}
	c.out.buf = append(c.out.buf, p...)
	c.out.cond.Broadcast()
	return len(p), nil
}

func (c *c32conn) Close() error {
	for _, p := range []*c32pipe{c.in, c.out} {
		p.mu.Lock()
		p.closed = true
		p.cond.Broadcast()
		p.mu.Unlock()
	}
	return nil
}

type c32side struct {
	sc   *connection.SecretConnection
	conn *c32conn
	prv  chainkd.XPrv
	sent []byte // everything this side wrote successfully
	pos  int    // how much of the PEER's sent stream this side's Read has consumed
	// frame level (c32r.go): every sealed frame ever delivered to this side's inbox, how many
	// of them Read has taken, and the absolute index of a frame replaced by an earlier one
	hist     [][]byte
	taken    int
	replayAt int // -1: none
	replayJ  int
}

type c32state struct {
	dead    bool // a call did not return: the case is abandoned (both pipes closed) until the next reset
	hangs   int  // calls that did not return so far in this run
	a, b    *c32side
	tag     string
	corrupt map[string]bool // side -> a frame in its inbox was tampered/truncated: stream checks off
}

func c32key(c *Ctx) chainkd.XPrv {
	seed := make([]byte, 64)
	c.Rng.Read(seed)
	x, err := chainkd.NewXPrv(bytes.NewReader(seed))
	if err != nil {
		panic(err)
	}
	return x
}

func c32handshake(c *Ctx) (*c32side, *c32side, error, error) {
	p1, p2 := newC32pipe(), newC32pipe()
	ca := &c32conn{in: p2, out: p1}
	cb := &c32conn{in: p1, out: p2}
	a := &c32side{conn: ca, prv: c32key(c), replayAt: -1}
	b := &c32side{conn: cb, prv: c32key(c), replayAt: -1}
	var ea, eb error
	var wg sync.WaitGroup
	wg.Add(2)
	go func() { defer wg.Done(); a.sc, ea = connection.MakeSecretConnection(ca, a.prv) }()
	go func() { defer wg.Done(); b.sc, eb = connection.MakeSecretConnection(cb, b.prv) }()
	wg.Wait()
	return a, b, ea, eb
}

func (st *c32state) side(s string) (*c32side, *c32side) {
	if s == "A" {
		return st.a, st.b
	}
	return st.b, st.a
}

func c32errW(err error) string {
	switch {
	case err == nil:
		return "nil"
	case err == io.ErrClosedPipe:
		return "closed-pipe"
	}
	return "error:" + err.Error()
}

func c32errR(err error) string {
	switch {
	case err == nil:
		return "nil"
	case err == io.EOF:
		return "EOF"
	case err == io.ErrUnexpectedEOF:
		return "unexpected-EOF"
	case err.Error() == "Failed to decrypt SecretConnection":
		return "decrypt"
	case err.Error() == "chunkLength is greater than dataMaxSize":
		return "too-long"
	}
	return "error:" + err.Error()
}

func c32hex(b []byte) string {
	if len(b) == 0 {
		return "-"
	}
	return hex.EncodeToString(b)
}

type c32fail struct{ sig, detail string }

// every Read / Write the harness issues runs under a watchdog: the pipes are in memory, so a
// call that has not returned after 3 s (300 ms once three calls have hung in this run) is
// blocked for good. The case is then abandoned: both pipe ends are closed, which releases the
// blocked goroutine, and the remaining lines of the case are answered "abandoned".
func (st *c32state) watched(f func()) bool {
	d := 3 * time.Second
	if st.hangs >= 3 {
		d = 300 * time.Millisecond
	}
	done := make(chan struct{})
	go func() { f(); close(done) }()
	select {
	case <-done:
		return true
	case <-time.After(d):
	}
	st.hangs++
	st.dead = true
	st.a.conn.Close()
	st.b.conn.Close()
	select { // let the released call finish so that nothing touches the connection afterwards
	case <-done:
	case <-time.After(2 * time.Second):
	}
	return false
}

func (st *c32state) exec(c *Ctx, line string) (string, string, []c32fail) {
	w := strings.Fields(line)
	var fails []c32fail
	if len(w) == 0 {
		return line, "bad-op", nil
	}
	c.Count("op/" + w[0])
	if w[0] == "inc2" {
		return c32inc2(line, w)
	}
	if st.dead && w[0] != "reset" {
		return line, "abandoned", nil
	}
	switch w[0] {
	case "reset":
		a, b, ea, eb := c32handshake(c)
		if ea != nil || eb != nil {
			fails = append(fails, c32fail{"handshake:honest-peers-failed", fmt.Sprintf("%v / %v", ea, eb)})
			return line, "reset-failed", fails
		}
		st.a, st.b = a, b
		st.dead = false
		st.corrupt = map[string]bool{}
		// each side learned the key the other side authenticated with
		if !bytes.Equal(a.sc.RemotePubKey(), b.prv.XPub().PublicKey()) || !bytes.Equal(b.sc.RemotePubKey(), a.prv.XPub().PublicKey()) {
			fails = append(fails, c32fail{"handshake:remote-pubkey-mismatch", st.tag})
		}
		ar, as := a.sc.VerifNonces()
		br, bs := b.sc.VerifNonces()
		if ar != bs || br != as || as == bs {
			fails = append(fails, c32fail{"handshake:nonces-not-crossed", st.tag})
		}
		if len(w) == 3 && w[1] != "*" {
			// pinned nonces (replay, corpus, carry-boundary cases): set both ends consistently
			na, e1 := hex.DecodeString(w[1])
			nb, e2 := hex.DecodeString(w[2])
			if e1 != nil || e2 != nil || len(na) != 24 || len(nb) != 24 {
				return line, "bad-op", nil
			}
			copy(as[:], na)
			copy(bs[:], nb)
			a.sc.VerifSetNonces(bs, as)
			b.sc.VerifSetNonces(as, bs)
		}
		return fmt.Sprintf("reset %s %s", hex.EncodeToString(as[:]), hex.EncodeToString(bs[:])), "reset", fails
	case "w":
		me, _ := st.side(w[1])
		data, err := hex.DecodeString(strings.TrimPrefix(w[2], "-"))
		if err != nil {
			return line, "bad-op", nil
		}
		me.conn.out.mu.Lock()
		before := len(me.conn.out.buf)
		me.conn.out.mu.Unlock()
		var n int
		var werr error
		if !st.watched(func() { n, werr = me.sc.Write(data) }) {
			c.Count("oracle/write-blocked")
			fails = append(fails, c32fail{"write:blocks", fmt.Sprintf("%s Write of %d bytes on %s did not return (in-memory pipe, never full)", st.tag, len(data), w[1])})
			return line, "blocked", fails
		}
		me.conn.out.mu.Lock()
		after := len(me.conn.out.buf)
		if _, peer := st.side(w[1]); after >= before {
			c32record(peer, me.conn.out.buf[before:after])
		}
		me.conn.out.mu.Unlock()
		_, sn := me.sc.VerifNonces()
		if werr == nil {
			me.sent = append(me.sent, data...)
			if n != len(data) {
				fails = append(fails, c32fail{"write:short-count", fmt.Sprintf("%s n=%d len=%d", st.tag, n, len(data))})
			}
		}
		if (after-before)%connection.VerifSealedFrameSize != 0 {
			fails = append(fails, c32fail{"write:partial-frame", st.tag})
		}
		return line, fmt.Sprintf("n=%d err=%s frames=%d nonce=%s", n, c32errW(werr), (after-before)/connection.VerifSealedFrameSize, hex.EncodeToString(sn[:])), fails
	case "r":
		me, peer := st.side(w[1])
		l, err := strconv.Atoi(w[2])
		if err != nil || l < 0 {
			return line, "bad-op", nil
		}
		me.conn.in.mu.Lock()
		avail, closed := len(me.conn.in.buf), me.conn.in.closed
		me.conn.in.mu.Unlock()
		b0 := me.sc.VerifRecvBuffered()
		if b0 == 0 && avail < connection.VerifSealedFrameSize && !closed {
			return line, "skipped-would-block", nil // never emitted: the generator checks first
		}
		buf := bytes.Repeat([]byte{0xAA}, l)
		var n int
		var rerr error
		if !st.watched(func() { n, rerr = me.sc.Read(buf) }) {
			// the harness only reads when bytes of the peer's stream are deliverable: b0 bytes are
			// sitting decrypted in recvBuffer, or a whole sealed frame (or EOF) is in the inbox
			c.Count("oracle/read-blocked")
			undelivered := len(peer.sent) - me.pos
			fails = append(fails, c32fail{"read:blocks-with-undelivered-bytes", fmt.Sprintf("%s Read(len %d) on %s did not return although %d bytes written by the peer are undelivered (%d of them already decrypted in recvBuffer, %d sealed bytes in the inbox, closed=%v)", st.tag, l, w[1], undelivered, b0, avail, closed)})
			return line, "blocked", fails
		}
		b1 := me.sc.VerifRecvBuffered()
		me.conn.in.mu.Lock()
		avail1 := len(me.conn.in.buf)
		me.conn.in.mu.Unlock()
		rn, _ := me.sc.VerifNonces()
		if f := c32replayCheck(st, me, w[1], avail, avail1, n, rerr, buf); f != nil {
			fails = append(fails, *f)
		}
		dirty := buf
		for len(dirty) > 0 && dirty[len(dirty)-1] == 0xAA {
			dirty = dirty[:len(dirty)-1]
		}
		res := fmt.Sprintf("n=%d err=%s buf=%s buffered=%d nonce=%s", n, c32errR(rerr), c32hex(dirty), b1, hex.EncodeToString(rn[:]))
		c.Count("read/" + c32errR(rerr))
		// ---- direct oracle: the stream, in order, exactly
		if n < 0 || n > l {
			fails = append(fails, c32fail{"read:count-out-of-range", st.tag})
			return line, res, fails
		}
		if !st.corrupt[w[1]] && rerr != nil && c32errR(rerr) != "EOF" && c32errR(rerr) != "unexpected-EOF" {
			// nothing in this inbox was modified by the harness, yet the connection reports an error:
			// whatever the peer wrote afterwards is lost for the receiver
			c.Count("oracle/error-on-untouched-stream")
			fails = append(fails, c32fail{"read:decrypt-error-after-valid-stream", fmt.Sprintf("%s Read(len %d) on %s failed with %q although no byte on the wire was modified; the receiver had obtained %d of the %d bytes the peer wrote successfully (the remaining %d are lost)", st.tag, l, w[1], rerr.Error(), me.pos, len(peer.sent), len(peer.sent)-me.pos)})
			st.corrupt[w[1]] = true
		}
		if !st.corrupt[w[1]] && rerr == nil {
			if b0 > 0 {
				c.Count("read/with-bytes-buffered")
			} else if avail1 < avail {
				c.Count("read/from-frame")
			}
			consumed := b0 - b1 // bytes that left recvBuffer for good (when it was not empty)
			want := peer.sent[minInt32(me.pos, len(peer.sent)):minInt32(me.pos+n, len(peer.sent))]
			switch {
			case b0 > 0 && avail1 < avail:
				// a new frame was taken from the connection while earlier bytes were still waiting in
				// recvBuffer: whatever is returned now overtakes them
				fails = append(fails, c32fail{"read:order-violated-frame-read-before-buffered-bytes", fmt.Sprintf("%s Read(len %d) on %s took the next frame from the connection while %d earlier stream bytes (offset %d…) were still in recvBuffer; returned %d bytes %s… where %s… was due", st.tag, l, w[1], b0, me.pos, n, c32hex(buf[:minInt32(n, 8)]), c32hex(peer.sent[minInt32(me.pos, len(peer.sent)):minInt32(me.pos+8, len(peer.sent))]))})
				st.corrupt[w[1]] = true // the stream position is lost: one report per case and direction
			case me.pos+n > len(peer.sent) || !bytes.Equal(buf[:n], want):
				fails = append(fails, c32fail{"read:wrong-bytes", fmt.Sprintf("%s Read(len %d) on %s returned %d bytes %s… that are not the next bytes of the stream at offset %d (%s… due)", st.tag, l, w[1], n, c32hex(buf[:minInt32(n, 8)]), me.pos, c32hex(want[:minInt32(len(want), 8)]))})
				st.corrupt[w[1]] = true
			case b0 > 0 && n == 0 && consumed > 0:
				// (F18, fixed in a002565b) copied into the caller's buffer, dropped from recvBuffer, but reported as n = 0
				c.Count("oracle/F18-lost-bytes")
				fails = append(fails, c32fail{"SecretConnection.Read:buffered-branch-returns-n=0", fmt.Sprintf("%s Read(len %d) with %d bytes buffered: copied %d stream bytes (%s…) into the buffer, removed them from recvBuffer, returned n=0 err=nil — the caller loses them", st.tag, l, b0, consumed, c32hex(dirty[:minInt32(len(dirty), 8)]))})
				me.pos += consumed
			case b0 > 0 && n != consumed:
				fails = append(fails, c32fail{"read:count-mismatch", fmt.Sprintf("%s %d bytes left recvBuffer, %d returned", st.tag, consumed, n)})
				me.pos += consumed
			default:
				if len(dirty) > n {
					fails = append(fails, c32fail{"read:wrote-beyond-n", fmt.Sprintf("%s n=%d but %d bytes of the buffer changed", st.tag, n, len(dirty))})
				}
				me.pos += n
			}
		}
		if rerr != nil && n != 0 {
			fails = append(fails, c32fail{"read:error-with-bytes", st.tag})
		}
		if st.corrupt[w[1]] && rerr == nil && avail1 < avail && b0 == 0 {
			// a frame was accepted although something in this inbox was modified: fine only if the
			// modified frame is a later one — checked exactly by the model correspondence
			c.Count("read/ok-with-corruption-pending")
		}
		return line, res, fails
	case "replay":
		return c32replay(st, line, w)
	case "tamper":
		me, _ := st.side(w[1])
		f, _ := strconv.Atoi(w[2])
		o, _ := strconv.Atoi(w[3])
		x, _ := strconv.Atoi(w[4])
		me.conn.in.mu.Lock()
		idx := f*connection.VerifSealedFrameSize + o
		if idx < len(me.conn.in.buf) {
			me.conn.in.buf[idx] ^= byte(x)
			if x&0xff != 0 {
				st.corrupt[w[1]] = true
			}
		}
		me.conn.in.mu.Unlock()
		return line, "ok", nil
	case "close":
		me, _ := st.side(w[1])
		me.sc.Close()
		return line, "ok", nil
	case "trunc":
		me, _ := st.side(w[1])
		k, _ := strconv.Atoi(w[2])
		me.conn.in.mu.Lock()
		if k > len(me.conn.in.buf) {
			k = len(me.conn.in.buf)
		}
		me.conn.in.buf = me.conn.in.buf[:len(me.conn.in.buf)-k]
		me.conn.in.mu.Unlock()
		if k > 0 {
			st.corrupt[w[1]] = true
		}
		me.sc.Close()
		return line, "ok", nil
	}
	return line, "bad-op", nil
}

func minInt32(a, b int) int {
	if a < b {
		return a
	}
	return b
}

// can side s read without blocking?
func (st *c32state) readable(s string) bool {
	me, _ := st.side(s)
	me.conn.in.mu.Lock()
	defer me.conn.in.mu.Unlock()
	return me.sc.VerifRecvBuffered() > 0 || len(me.conn.in.buf) >= connection.VerifSealedFrameSize || me.conn.in.closed
}

func (st *c32state) inboxFrames(s string) int {
	me, _ := st.side(s)
	me.conn.in.mu.Lock()
	defer me.conn.in.mu.Unlock()
	return len(me.conn.in.buf) / connection.VerifSealedFrameSize
}

// sizes of large writes: around every multiple of 1024 up to 64 KiB and around the multiples of 16·1024
func c32largeSize(c *Ctx) int {
	fixed := []int{16383, 16384, 16385, 17408, 20517, 32768, 32769, 65536, 65537, 15360, 15361, 16384 + 1024, 2*16384 - 1, 3 * 16384, 3*16384 + 1, 4*16384 + 1}
	switch c.Rng.Intn(3) {
	case 0:
		return fixed[c.Rng.Intn(len(fixed))]
	case 1:
		return (1+c.Rng.Intn(65))*1024 + c.Rng.Intn(3) - 1
	}
	return 5000 + c.Rng.Intn(62000)
}

func c32sizes(c *Ctx, max int, special []int) int {
	if c.Rng.Intn(3) == 0 {
		return special[c.Rng.Intn(len(special))]
	}
	switch c.Rng.Intn(3) {
	case 0:
		return c.Rng.Intn(40)
	case 1:
		return c.Rng.Intn(1100)
	}
	return c.Rng.Intn(max + 1)
}

func (st *c32state) genLine(c *Ctx, closed *bool, bigReads bool) string {
	sides := []string{"A", "B"}
	s := sides[c.Rng.Intn(2)]
	r := c.Rng.Intn(100)
	switch {
	case r < 38 && !*closed:
		n := c32sizes(c, 5000, []int{0, 1, 2, 1023, 1024, 1025, 2047, 2048, 2049, 3072, 4096})
		d := make([]byte, n)
		c.Rng.Read(d)
		if c.Rng.Intn(4) == 0 { // data that looks like the buffer filler
			for i := range d {
				d[i] = 0xAA
			}
		}
		return fmt.Sprintf("w %s %s", s, c32hex(d))
	case r < 90:
		for _, t := range []string{s, sides[0], sides[1]} {
			if st.readable(t) {
				// mixed sizes in random alternation: tiny (1..8), around a chunk / a frame
				// (1023..1027), several frames (2048, 4096, 65536)
				l := c32sizes(c, 3000, []int{0, 1, 2, 3, 4, 5, 6, 7, 8, 100, 1023, 1024, 1025, 1026, 1027, 2048, 4096, 65536})
				if c.Rng.Intn(4) == 0 {
					l = 1 + c.Rng.Intn(8) // a short read, so that the next (often large) one finds bytes buffered
				}
				if bigReads {
					l = 1024 + c.Rng.Intn(2000)
				}
				return fmt.Sprintf("r %s %d", t, l)
			}
		}
		return ""
	case r < 94:
		// at most one effective modification per inbox: the driver's toy AEAD is only guaranteed to
		// reject SINGLE-byte changes of a frame (two flips can cancel in its checksum; secretbox
		// rejects both) — and after the first decrypt error the direction is dead anyway
		if k := st.inboxFrames(s); k > 0 && !st.corrupt[s] {
			x := 1 << uint(c.Rng.Intn(8))
			if c.Rng.Intn(6) == 0 {
				x = 0 // control: no change
			}
			return fmt.Sprintf("tamper %s %d %d %d", s, c.Rng.Intn(k), c.Rng.Intn(connection.VerifSealedFrameSize), x)
		}
		return ""
	case r < 97 && !*closed:
		*closed = true
		if c.Rng.Intn(2) == 0 {
			me, _ := st.side(s)
			me.conn.in.mu.Lock()
			n := len(me.conn.in.buf)
			me.conn.in.mu.Unlock()
			if n > 0 {
				return fmt.Sprintf("trunc %s %d", s, 1+c.Rng.Intn(minInt32(n, 1500)))
			}
		}
		return "close " + s
	}
	return ""
}

// a dishonest peer: signs the challenge with one key, claims another
func c32dishonest(c *Ctx, round int) {
	p1, p2 := newC32pipe(), newC32pipe()
	ca := &c32conn{in: p2, out: p1}
	cb := &c32conn{in: p1, out: p2}
	honest, signer, claimed := c32key(c), c32key(c), c32key(c)
	lie := c.Rng.Intn(3) != 0
	claim := signer.XPub().PublicKey()
	if lie {
		claim = claimed.XPub().PublicKey()
	}
	var sc *connection.SecretConnection
	var eh error
	var wg sync.WaitGroup
	wg.Add(2)
	go func() { defer wg.Done(); sc, eh = connection.MakeSecretConnection(ca, honest); ca.Close() }()
	go func() { defer wg.Done(); connection.VerifDishonestHandshake(cb, signer, claim); cb.Close() }()
	wg.Wait()
	switch {
	case lie && eh == nil:
		c.Fail("handshake:accepted-unproven-key", fmt.Sprintf("round %d: peer claimed %x but signed with another key; RemotePubKey=%x", round, claim, sc.RemotePubKey()))
	case !lie && eh != nil:
		c.Fail("handshake:honest-claim-rejected", fmt.Sprintf("round %d: %v", round, eh))
	case !lie && !bytes.Equal(sc.RemotePubKey(), claim):
		c.Fail("handshake:remote-pubkey-mismatch", fmt.Sprintf("round %d", round))
	}
	if lie {
		c.Count("handshake/dishonest-rejected")
	} else {
		c.Count("handshake/hook-honest-accepted")
	}
}

func runC32(c *Ctx) {
	c.Rule = "established secret connections (real handshake per case; send nonces read through the hook, in 1/3 of the cases moved to a carry boundary …ff fe / …ff ff ff / all-ff); 6–40 ops per case: writes of 0–5000 bytes (boundaries 1023/1024/1025/2048/2049…), reads with buffers of 0–3000 bytes (so reads smaller than a buffered chunk occur; 1/4 of the cases only use buffers ≥ 1024), single-bit tampering of a waiting sealed frame (and no-change controls), close, truncation + close, both directions interleaved; each line compared with the Lean model (toy AEAD), each read checked by the stream oracle; plus dishonest-peer handshakes (direct oracle only); a case is distinct by its op lines"
	st := &c32state{}
	reported := map[string]int{}
	emitFails := func(fs []c32fail) {
		for _, f := range fs {
			c.Count("oracle-fail/" + f.sig)
			reported[f.sig]++
			if reported[f.sig] <= 20 { // `check` re-reads ops.txt per FAIL line
				c.Fail(f.sig, f.detail)
			}
		}
	}
	runLines := func(lines []string, tag string) {
		for _, l := range lines {
			if st.a == nil && !strings.HasPrefix(l, "reset") {
				op, res, fs := st.exec(c, "reset * *")
				c.Op(op, res)
				emitFails(fs)
			}
			st.tag = tag
			op, res, fs := st.exec(c, l)
			c.Op(op, res)
			emitFails(fs)
		}
	}
	if c.Replay != "" {
		runLines(c.ReplayLines(), "replay")
		return
	}
	runLines(c.CorpusLines(), "corpus")
	tails := [][]byte{{0xff, 0xfe}, {0xff, 0xff}, {0xff, 0xff, 0xff}, {0xff, 0xff, 0xfd}, bytes.Repeat([]byte{0xff}, 24), append(bytes.Repeat([]byte{0xff}, 23), 0xfe), {0x00, 0xff, 0xff, 0xff, 0xff}}
	for i := 0; i < c.N; i++ {
		st.tag = fmt.Sprintf("case#%d", i)
		line := "reset * *"
		if c.Rng.Intn(3) == 0 {
			na, nb := make([]byte, 24), make([]byte, 24)
			c.Rng.Read(na)
			t := tails[c.Rng.Intn(len(tails))]
			copy(na[24-len(t):], t)
			copy(nb, na)
			nb[23] ^= 1
			line = fmt.Sprintf("reset %s %s", hex.EncodeToString(na), hex.EncodeToString(nb))
			c.Count("case/carry-boundary-nonce")
		}
		var key []string
		op, res, fs := st.exec(c, line)
		c.Op(op, res)
		emitFails(fs)
		key = append(key, op)
		closed := false
		bigReads := c.Rng.Intn(4) == 0
		if bigReads {
			c.Count("case/reads>=1024-only")
		}
		n := 6 + c.Rng.Intn(35)
		largeCase := c.Rng.Intn(8) == 0
		if largeCase {
			// one Write of up to 64 KiB+ (sizes around every multiple of 1024 and of 16·1024), then further
			// small writes; everything is read back by the drain below
			c.Count("case/large-write")
			n = 0
			side := []string{"A", "B"}[c.Rng.Intn(2)]
			for k, nw := 0, 1+c.Rng.Intn(2); k < nw && !st.dead; k++ {
				d := make([]byte, c32largeSize(c))
				c.Rng.Read(d)
				lines := []string{fmt.Sprintf("w %s %s", side, c32hex(d))}
				for j := c.Rng.Intn(4); j > 0; j-- {
					e := make([]byte, 1+c.Rng.Intn(1500))
					c.Rng.Read(e)
					lines = append(lines, fmt.Sprintf("w %s %s", side, c32hex(e)))
				}
				if c.Rng.Intn(2) == 0 {
					lines = append(lines, fmt.Sprintf("r %s %d", map[string]string{"A": "B", "B": "A"}[side], 1+c.Rng.Intn(3000)))
				}
				for _, l := range lines {
					if st.dead {
						break
					}
					op, res, fs := st.exec(c, l)
					c.Op(op, res)
					emitFails(fs)
					key = append(key, op[:minInt32(len(op), 64)])
				}
			}
		}
		for k := 0; k < n; k++ {
			l := st.genLine(c, &closed, bigReads)
			if l == "" {
				continue
			}
			op, res, fs := st.exec(c, l)
			c.Op(op, res)
			emitFails(fs)
			key = append(key, op)
			if st.dead {
				c.Count("case/abandoned-after-hang")
				break
			}
		}
		// drain both directions with large buffers (so that the whole stream is compared)
		for _, s := range []string{"A", "B"} {
			for k := 0; k < 400 && !st.dead && st.readable(s); k++ {
				op, res, fs := st.exec(c, fmt.Sprintf("r %s %d", s, 1024+c.Rng.Intn(100)))
				c.Op(op, res)
				emitFails(fs)
				if strings.Contains(res, "err=EOF") || strings.Contains(res, "err=unexpected-EOF") || strings.Contains(res, "err=decrypt") {
					break
				}
			}
			// completeness: on an untouched direction everything the peer wrote has arrived
			if me, peer := st.side(s); !st.dead && !st.corrupt[s] && me.pos != len(peer.sent) {
				emitFails([]c32fail{{"read:stream-incomplete", fmt.Sprintf("%s after draining %s: %d of the %d bytes written by the peer were delivered", st.tag, s, me.pos, len(peer.sent))}})
			}
		}
		c.Distinct(strings.Join(key, "|"))
	}
	c32nonceGrid(c, emitFails)
	long := c.N / 40
	if long < 6 {
		long = 6
	}
	for i := 0; i < long; i++ {
		st.tag = fmt.Sprintf("long#%d", i)
		c32longCase(c, st, emitFails)
	}
	rounds := 30
	if c.Tier == "thorough" {
		rounds = 300
	}
	for i := 0; i < rounds; i++ {
		c32dishonest(c, i)
	}
}

func init() { register("c32", runC32) }
