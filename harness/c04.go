//go:build hc04 || hall

package main

import (
	"bytes"
	"encoding/hex"
	"encoding/json"
	"fmt"
	"strings"

	"github.com/bytom/bytom/encoding/blockchain"
	"github.com/bytom/bytom/protocol/bc"
	"github.com/bytom/bytom/protocol/bc/types"
)

// C04: encoding round-trips every well-formed ledger value (asset version 1 inputs of all four
// kinds with arbitrary suffixes incl. the spend/veto commitment suffix; outputs of both kinds and of
// unknown asset versions).
//   op line:   tx|txd|hdr|blk <hex text>      (what MarshalText of a generated value produced)
//   impl line: ok <dump of the decoded value> re=<= | re-encoding when it differs>   |  err <class> | panic
// Direct oracle (implementation alone): decode(encode v) == v (nil == empty, SerializedSize ==
// encoded length), encode(decode(encode v)) == encode v, same ID / block hash, JSON form round-trips.

const sigSCSuffix = "spend-commitment-suffix-doubled"

func init() { register("c04", runC04) }

// hasSCSuffix reports whether some spend/veto input carries a non-empty commitment suffix
func hasSCSuffix(t *types.TxData) bool {
	for _, in := range t.Inputs {
		switch ti := in.TypedInput.(type) {
		case *types.SpendInput:
			if len(ti.SpendCommitmentSuffix) > 0 {
				return true
			}
		case *types.VetoInput:
			if len(ti.VetoCommitmentSuffix) > 0 {
				return true
			}
		}
	}
	return false
}

// dumpDoubled is the dump of t with every spend/veto commitment suffix written twice
// (what the decoder returns today), restoring t afterwards.
func dumpDoubled(t *types.TxData, size uint64) string {
	var undo []func()
	for _, in := range t.Inputs {
		switch ti := in.TypedInput.(type) {
		case *types.SpendInput:
			old := ti.SpendCommitmentSuffix
			ti.SpendCommitmentSuffix = append(append([]byte{}, old...), old...)
			undo = append(undo, func() { ti.SpendCommitmentSuffix = old })
		case *types.VetoInput:
			old := ti.VetoCommitmentSuffix
			ti.VetoCommitmentSuffix = append(append([]byte{}, old...), old...)
			undo = append(undo, func() { ti.VetoCommitmentSuffix = old })
		}
	}
	s := dTxSized(t, size)
	for _, u := range undo {
		u()
	}
	return s
}

func allTyped(t *types.TxData) bool {
	for _, in := range t.Inputs {
		if in.TypedInput == nil {
			return false
		}
	}
	return true
}

// oracleTx checks the round-trip property on the implementation for one TxData value.
// Returns the text of its encoding (nil when it cannot be encoded).
func oracleTx(c *Ctx, v *types.TxData) (text []byte) {
	defer func() {
		if r := recover(); r != nil {
			failLimited(c, "tx-roundtrip-panic", short(fmt.Sprint(r)))
		}
	}()
	b, err := v.MarshalText()
	if err != nil {
		failLimited(c, "tx-marshal-error", short(err.Error()))
		return nil
	}
	text = b
	size := uint64(len(b) / 2)
	var back types.TxData
	if err := back.UnmarshalText(b); err != nil {
		failLimited(c, "tx-decode-of-own-encoding-fails", short(err.Error()+" "+string(b)))
		return
	}
	want, got := dTxSized(v, size), dTx(&back)
	if want != got {
		if hasSCSuffix(v) && dumpDoubled(v, size) == got {
			failLimited(c, sigSCSuffix, short("encoded "+want+" decoded "+got))
			return // the re-encoding differs for the same reason
		}
		failLimited(c, "tx-roundtrip-differs", short("want "+want+" got "+got))
		return
	}
	if back.SerializedSize != size {
		failLimited(c, "tx-serialized-size", fmt.Sprintf("recorded %d encoded %d", back.SerializedSize, size))
	}
	retain(c, "tx", got, func() string { return dTx(&back) })
	re, err := back.MarshalText()
	if err != nil || !bytes.Equal(re, b) {
		failLimited(c, "tx-reencoding-differs", short(string(b)+" -> "+string(re)))
	}
	if allTyped(v) {
		id1 := types.NewTx(*v).ID
		var tx types.Tx
		if err := tx.UnmarshalText(b); err != nil {
			failLimited(c, "tx-decode-of-own-encoding-fails", short(err.Error()))
			return
		}
		if id1 != tx.ID {
			failLimited(c, "tx-id-changes", short(id1.String()+" -> "+tx.ID.String()+" "+string(b)))
		}
		// JSON form (a quoted hex string): storage / RPC
		js, err := json.Marshal(&types.Tx{TxData: *v})
		if err != nil {
			failLimited(c, "tx-json-marshal", short(err.Error()))
			return
		}
		var jtx types.Tx
		if err := json.Unmarshal(js, &jtx); err != nil {
			failLimited(c, "tx-json-unmarshal", short(err.Error()))
			return
		}
		if dTx(&jtx.TxData) != want || jtx.ID != id1 {
			failLimited(c, "tx-json-roundtrip-differs", short(want))
		}
	}
	return
}

func oracleHeader(c *Ctx, h *types.BlockHeader) (text []byte) {
	defer func() {
		if r := recover(); r != nil {
			failLimited(c, "hdr-roundtrip-panic", short(fmt.Sprint(r)))
		}
	}()
	b, err := h.MarshalText()
	if err != nil {
		failLimited(c, "hdr-marshal-error", short(err.Error()))
		return nil
	}
	text = b
	var back types.BlockHeader
	if err := back.UnmarshalText(b); err != nil {
		failLimited(c, "hdr-decode-of-own-encoding-fails", short(err.Error()))
		return
	}
	if want, got := dHeader(h), dHeader(&back); want != got {
		failLimited(c, "hdr-roundtrip-differs", short("want "+want+" got "+got))
		return
	}
	retain(c, "hdr", dHeader(&back), func() string { return dHeader(&back) })
	if re, err := back.MarshalText(); err != nil || !bytes.Equal(re, b) {
		failLimited(c, "hdr-reencoding-differs", short(string(b)))
	}
	if h.Hash() != back.Hash() {
		failLimited(c, "hdr-hash-changes", short(string(b)))
	}
	js, err := json.Marshal(h)
	if err != nil {
		failLimited(c, "hdr-json-marshal", short(err.Error()))
		return
	}
	var jh types.BlockHeader
	if err := json.Unmarshal(js, &jh); err != nil || dHeader(&jh) != dHeader(h) {
		failLimited(c, "hdr-json-roundtrip-differs", short(string(js)))
	}
	return
}

func oracleBlock(c *Ctx, blk *types.Block, flag int) (text []byte) {
	defer func() {
		if r := recover(); r != nil {
			failLimited(c, "blk-roundtrip-panic", short(fmt.Sprint(r)))
		}
	}()
	var b []byte
	var err error
	switch flag {
	case types.SerBlockHeader:
		b, err = blk.MarshalTextForBlockHeader()
	case types.SerBlockTransactions:
		b, err = blk.MarshalTextForTransactions()
	default:
		b, err = blk.MarshalText()
	}
	if err != nil {
		failLimited(c, "blk-marshal-error", short(err.Error()))
		return nil
	}
	text = b
	var back types.Block
	if err := back.UnmarshalText(b); err != nil {
		failLimited(c, "blk-decode-of-own-encoding-fails", short(err.Error()))
		return
	}
	// what the chosen serialisation is supposed to keep
	want := &types.Block{}
	if flag != types.SerBlockTransactions {
		want.BlockHeader = blk.BlockHeader
	}
	var sizes []uint64
	if flag != types.SerBlockHeader {
		want.Transactions = blk.Transactions
		for _, t := range blk.Transactions {
			tb, err := t.TxData.MarshalText()
			if err != nil {
				failLimited(c, "tx-marshal-error", short(err.Error()))
				return
			}
			sizes = append(sizes, uint64(len(tb)/2))
		}
	}
	if w, g := dBlock(flag, want, sizes), dBlock(flag, &back, nil); w != g {
		failLimited(c, "blk-roundtrip-differs", short("want "+w+" got "+g))
		return
	}
	if flag != types.SerBlockTransactions && blk.Hash() != back.Hash() {
		failLimited(c, "blk-hash-changes", short(string(b)))
	}
	{
		g := dBlock(flag, &back, nil)
		retain(c, "blk", g, func() string { return dBlock(flag, &back, nil) })
	}
	for i, t := range back.Transactions {
		if t.Tx == nil || t.ID != types.NewTx(blk.Transactions[i].TxData).ID {
			failLimited(c, "blk-tx-id-changes", short(string(b)))
			break
		}
	}
	if flag == types.SerBlockFull {
		js, err := json.Marshal(blk)
		if err != nil {
			failLimited(c, "blk-json-marshal", short(err.Error()))
			return
		}
		var jb types.Block
		if err := json.Unmarshal(js, &jb); err != nil || dBlock(flag, &jb, nil) != dBlock(flag, &back, nil) {
			failLimited(c, "blk-json-roundtrip-differs", short(string(js)))
		}
	}
	return
}

// c04Line runs one op line (corpus / replay): implementation line plus the round-trip oracle
// on the decoded value (a value the node holds after receiving it).
func c04Line(c *Ctx, line string) {
	if f := strings.Fields(line); len(f) == 2 && (f[0] == "v31" || f[0] == "v63") {
		var n uint64
		if _, err := fmt.Sscan(f[1], &n); err == nil {
			c04VarintOp(c, map[string]int{"v31": 31, "v63": 63}[f[0]], n)
			return
		}
	} else if len(f) == 2 && (f[0] == "v31r" || f[0] == "v63r") {
		if raw, err := hex.DecodeString(f[1]); err == nil {
			res, _, _ := c04ReadVarint(map[string]int{"v31r": 31, "v63r": 63}[f[0]], raw)
			c.Op(line, res)
			return
		}
	}
	kind, text, ok := parseOpLine(line)
	if !ok {
		c.Op(line, "bad-op")
		return
	}
	res := runCodec(kind, text)
	c.Op(line, res.line)
	c.Count("outcome:" + res.outcome)
	switch {
	case res.txd != nil:
		oracleTx(c, res.txd)
	case res.hdr != nil:
		oracleHeader(c, res.hdr)
	case res.blk != nil:
		oracleBlock(c, res.blk, res.flag)
	}
}

// c04BigBlocks: blocks with many cheap transactions (one coinbase-style input, one output) around the
// 1024 / 2048 marks, built once per run and taken through every serialisation flag: model
// differential on the decoded dump plus the round-trip / retention oracle.
var c04BigBlockSizes = []int{1023, 1024, 1025, 1040, 2049}

func c04BigBlocks(c *Ctx, g *codecGen) {
	sizes := c04BigBlockSizes
	if c.Tier == "thorough" {
		sizes = append(append([]int{}, sizes...), 1000+c.Rng.Intn(3000), 4096, 4097)
	}
	for _, n := range sizes {
		b := &types.Block{BlockHeader: *g.header()}
		for i := 0; i < n; i++ {
			var in *types.TxInput
			if i%7 == 3 {
				in = types.NewSpendInput(nil, g.hash(), bc.AssetID(g.hash()), uint64(i), uint64(i%5), []byte{0x51}, nil)
			} else {
				in = types.NewCoinbaseInput([]byte{byte(i), byte(i >> 8)})
			}
			out := types.NewOriginalTxOutput(bc.AssetID{V0: uint64(i)}, uint64(i)+1, []byte{0x51, byte(i)}, nil)
			b.Transactions = append(b.Transactions, &types.Tx{TxData: types.TxData{Version: 1, TimeRange: uint64(i), Inputs: []*types.TxInput{in}, Outputs: []*types.TxOutput{out}}})
		}
		for _, flag := range []int{types.SerBlockFull, types.SerBlockTransactions, types.SerBlockHeader} {
			var text []byte
			switch flag {
			case types.SerBlockHeader:
				text, _ = b.MarshalTextForBlockHeader()
			case types.SerBlockTransactions:
				text, _ = b.MarshalTextForTransactions()
			default:
				text, _ = b.MarshalText()
			}
			if text != nil {
				res := runCodec("blk", text)
				c.Op(opLine("blk", text), res.line)
				c.Count(fmt.Sprintf("bigblk:txs=%d", n))
				c.Count("outcome:" + res.outcome)
				if res.outcome != "ok" {
					failLimited(c, fmt.Sprintf("blk-decode-of-own-encoding-fails:txs=%d:flag=%d", n, flag), fmt.Sprintf("a block with %d transactions, serialisation flag %d: %s", n, flag, res.line))
				} else if flag != types.SerBlockHeader && len(res.blk.Transactions) != n {
					failLimited(c, fmt.Sprintf("blk-drops-transactions:txs=%d:flag=%d", n, flag), fmt.Sprintf("a block with %d transactions decodes with %d", n, len(res.blk.Transactions)))
				}
			}
			oracleBlock(c, b, flag)
		}
	}
}

// c04Varints: a direct WriteVarint31 / ReadVarint31 and WriteVarint63 / ReadVarint63 sweep:
//   op line `v31 <n>` / `v63 <n>`: the value is written, a trailing byte aa appended and read back:
//   impl line `<value> <unread bytes>` | `err <class>`; the model does the same with putUvarint / readVarint31.
//   `v31r <hex>` / `v63r <hex>`: arbitrary bytes (non-minimal, over-long, truncated varints) are read.
// Direct oracle: read(write(n)) == n with exactly the trailing byte unread.
func c04VarintOp(c *Ctx, bits int, n uint64) {
	var buf bytes.Buffer
	var err error
	if bits == 31 {
		_, err = blockchain.WriteVarint31(&buf, n)
	} else {
		_, err = blockchain.WriteVarint63(&buf, n)
	}
	line := fmt.Sprintf("v%d %d", bits, n)
	if err != nil {
		c.Op(line, "err "+errClass(err))
		return
	}
	raw := append(buf.Bytes(), 0xaa)
	res, val, rest := c04ReadVarint(bits, raw)
	c.Op(line, res)
	c.Count(fmt.Sprintf("varint:v%d", bits))
	if res[:3] == "err" || val != n || rest != 1 {
		failLimited(c, fmt.Sprintf("varint%d-roundtrip-differs:n=%d", bits, n), fmt.Sprintf("Write/ReadVarint%d(%d): bytes %x read back as %s", bits, n, raw, res))
	}
}

func c04ReadVarint(bits int, raw []byte) (line string, val uint64, rest int) {
	defer func() {
		if r := recover(); r != nil {
			line = "panic"
		}
	}()
	r := blockchain.NewReader(raw)
	var err error
	if bits == 31 {
		var v uint32
		v, err = blockchain.ReadVarint31(r)
		val = uint64(v)
	} else {
		val, err = blockchain.ReadVarint63(r)
	}
	if err != nil {
		return "err " + errClass(err), 0, 0
	}
	return fmt.Sprintf("%d %d", val, r.Len()), val, r.Len()
}

func c04Varints(c *Ctx) {
	seen := map[uint64]bool{}
	add := func(bits int, n uint64) {
		if n > 1<<63-1+1 || (bits == 31 && n > 1<<31) || seen[n<<1|uint64(bits&1)] {
			return
		}
		seen[n<<1|uint64(bits&1)] = true
		c04VarintOp(c, bits, n)
	}
	for _, bits := range []int{31, 63} {
		top := uint(31)
		if bits == 63 {
			top = 63
		}
		for k := uint(0); k <= top; k++ {
			p := uint64(1) << k
			for _, d := range []uint64{0, 1} {
				add(bits, p+d)
				add(bits, p-d)
			}
			// both halves of every 2^14 block above 2^15 (bit 14 set / clear), and 7-bit group borders
			add(bits, p+16384)
			add(bits, p+16383)
			add(bits, p+p/2)
			add(bits, p+p/4+1)
		}
		for m := uint64(1); m <= 12; m++ {
			for _, d := range []uint64{0, 1, 16383} {
				add(bits, m*16384+d)
				add(bits, m*16384-1+d)
			}
		}
		for i := 0; i < 200; i++ {
			add(bits, c.Rng.Uint64()>>uint(64-1-c.Rng.Intn(int(top))))
		}
	}
	// raw varint bytes
	for i := 0; i < 300; i++ {
		n := 1 + c.Rng.Intn(11)
		raw := make([]byte, n)
		c.Rng.Read(raw)
		for j := 0; j < n-1; j++ {
			if c.Rng.Intn(3) != 0 {
				raw[j] |= 0x80
			}
		}
		if c.Rng.Intn(2) == 0 {
			raw[n-1] &= 0x7f
		}
		for _, bits := range []int{31, 63} {
			res, _, _ := c04ReadVarint(bits, raw)
			c.Op(fmt.Sprintf("v%dr %s", bits, hx(raw)), res)
			c.Count("varint:raw")
		}
	}
}

// c04BigStrings: one byte-string field at a time gets a size >= 32768 (both halves of the 2^14
// blocks: bit 14 clear and set), the value goes through the text round trip and the model differential.
var c04BigSizes = []int{32767, 32768, 40000, 49151, 49152, 65535, 65536, 81919, 81920}

func c04BigStrings(c *Ctx, g *codecGen) {
	type field struct {
		name string
		set  func(t *types.TxData, v []byte)
	}
	fields := []field{
		{"spend.controlprogram", func(t *types.TxData, v []byte) { t.Inputs[0].TypedInput.(*types.SpendInput).ControlProgram = v }},
		{"spend.argument", func(t *types.TxData, v []byte) { t.Inputs[0].SetArguments([][]byte{{1}, v}) }},
		{"spend.statedata", func(t *types.TxData, v []byte) { t.Inputs[0].TypedInput.(*types.SpendInput).StateData = [][]byte{v} }},
		{"spend.commitmentsuffix", func(t *types.TxData, v []byte) { t.Inputs[0].TypedInput.(*types.SpendInput).SpendCommitmentSuffix = v }},
		{"input.witnesssuffix", func(t *types.TxData, v []byte) { t.Inputs[0].WitnessSuffix = v }},
		{"issuance.assetdefinition", func(t *types.TxData, v []byte) {
			t.Inputs[1] = types.NewIssuanceInput([]byte{1}, 7, []byte{0x53}, nil, v)
		}},
		{"coinbase.arbitrary", func(t *types.TxData, v []byte) { t.Inputs[2].TypedInput.(*types.CoinbaseInput).Arbitrary = v }},
		{"output.controlprogram", func(t *types.TxData, v []byte) { t.Outputs[0].ControlProgram = v }},
		{"output.commitmentsuffix", func(t *types.TxData, v []byte) { t.Outputs[0].CommitmentSuffix = v }},
	}
	mk := func() *types.TxData {
		return &types.TxData{Version: 1, Inputs: []*types.TxInput{
			types.NewSpendInput(nil, g.hash(), bc.AssetID(g.hash()), 5, 1, []byte{0x51}, nil),
			types.NewIssuanceInput([]byte{1}, 7, []byte{0x53}, nil, []byte{2}),
			types.NewCoinbaseInput([]byte{3})},
			Outputs: []*types.TxOutput{types.NewOriginalTxOutput(bc.AssetID(g.hash()), 3, []byte{0x54}, nil)}}
	}
	sizes := c04BigSizes
	if c.Tier == "thorough" {
		sizes = append(append([]int{}, sizes...), 1<<17, 1<<17+5, 1<<21, 1<<21+16384)
	}
	for fi, f := range fields {
		for si, L := range sizes {
			if c.Tier != "thorough" && L != 32768 && L != 65536 && !(L == 49152 && fi%2 == 0) && (fi+si)%5 != 0 {
				continue // quick tier: every field at 32768 and 65536, a sample of the other combinations
			}
			v := g.bytesN(L)
			v[0] = 0x51
			t := mk()
			f.set(t, v)
			text, err := t.MarshalText()
			if err != nil {
				continue
			}
			res := runCodec("tx", text)
			c.Op(opLine("tx", text), res.line)
			c.Count("bigstr:" + f.name)
			c.Count("outcome:" + res.outcome)
			before := failTotal
			oracleTx(c, t)
			if failTotal > before || res.outcome != "ok" {
				failLimited(c, fmt.Sprintf("tx-roundtrip-fails-with-long-string:%s:len=%d", f.name, L), fmt.Sprintf("a transaction whose %s has %d bytes: %s", f.name, L, short(res.line)))
			}
		}
	}
}

func runC04(c *Ctx) {
	c.Rule = "distinct = distinct encodings of generated well-formed values (tx with all 4 input kinds / 2 output kinds / suffixes / nil-vs-empty, headers with 0-5 suplinks, blocks in 3 serialisations)"
	if c.Replay != "" {
		for _, l := range c.ReplayLines() {
			c04Line(c, l)
		}
		return
	}
	for _, l := range c.CorpusLines() {
		c04Line(c, l)
	}
	g := &codecGen{r: c.Rng, count: c.Count}
	c04Varints(c)
	c04BigStrings(c, g)
	c04BigBlocks(c, g)
	for i := 0; i < c.N; i++ {
		var kind string
		var text []byte
		var oracle func()
		switch k := c.Rng.Intn(10); {
		case k < 6:
			kind = "tx"
			g.allowBadAV, g.allowBadAVIn, g.allowSCSuffix = c.Rng.Intn(4) == 0, false, true
			if k == 5 {
				kind = "txd"
				g.allowBadAV = true
			}
			v := g.txData()
			text, _ = v.MarshalText()
			oracle = func() { oracleTx(c, v) }
		case k < 8:
			kind = "hdr"
			v := g.header()
			text, _ = v.MarshalText()
			oracle = func() { oracleHeader(c, v) }
		default:
			kind = "blk"
			g.allowBadAV, g.allowBadAVIn, g.allowSCSuffix = c.Rng.Intn(3) == 0, false, true
			flag := []int{types.SerBlockFull, types.SerBlockFull, types.SerBlockHeader, types.SerBlockTransactions}[c.Rng.Intn(4)]
			c.Count(fmt.Sprintf("blk:flag=%d", flag))
			v := g.block()
			switch flag {
			case types.SerBlockHeader:
				text, _ = v.MarshalTextForBlockHeader()
			case types.SerBlockTransactions:
				text, _ = v.MarshalTextForTransactions()
			default:
				text, _ = v.MarshalText()
			}
			oracle = func() { oracleBlock(c, v, flag) }
		}
		if text != nil {
			res := runCodec(kind, text)
			c.Op(opLine(kind, text), res.line)
			c.Count("kind:" + kind)
			c.Count("outcome:" + res.outcome)
			c.Distinct(string(text))
		}
		oracle()
	}
}

// Retention oracle: a value obtained by deserialisation must STAY equal to what was decoded
// while other values are serialised and deserialised afterwards (a decoder handing out
// slices of a buffer it recycles passes every immediate round-trip comparison). The last
// few decoded values are kept and dumped again after later operations.
type retained struct {
	kind, want string
	dump       func() string
	age        int
}

var retainedVals []*retained

func retain(c *Ctx, kind, want string, dump func() string) {
	checkRetained(c)
	retainedVals = append(retainedVals, &retained{kind: kind, want: want, dump: dump})
	if len(retainedVals) > 6 {
		retainedVals = retainedVals[1:]
	}
}

func checkRetained(c *Ctx) {
	keep := retainedVals[:0]
	for _, r := range retainedVals {
		r.age++
		got := func() (s string) {
			defer func() {
				if rec := recover(); rec != nil {
					s = "panic: " + fmt.Sprint(rec)
				}
			}()
			return r.dump()
		}()
		if got != r.want {
			failLimited(c, r.kind+"-decoded-value-changes-later", short(fmt.Sprintf("after %d later operations: decoded as %s, now %s", r.age, r.want, got)))
			continue
		}
		keep = append(keep, r)
	}
	retainedVals = keep
}
