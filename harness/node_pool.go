//go:build hnode || hall

package main

// Pool / proposer layer of the node-history engine (C23, C38): transactions are submitted
// to the real mempool through Chain.ValidateTx, blocks confirm them on competing branches,
// reorganisations go back and forth, and the real proposer builds blocks from the pool that
// are fed back to the chain.

import (
	"fmt"
	"os"
	"sort"
	"strings"
	"time"

	"github.com/bytom/bytom/consensus"
	"github.com/bytom/bytom/event"
	"github.com/bytom/bytom/proposal"
	"github.com/bytom/bytom/protocol"
	"github.com/bytom/bytom/protocol/bc"
	"github.com/bytom/bytom/protocol/bc/types"
	"github.com/bytom/bytom/protocol/state"
	"github.com/bytom/bytom/protocol/validation"
	"github.com/bytom/bytom/protocol/vm"
)

type poolWatch struct {
	sub    *event.Subscription
	adds   map[string]int
	rems   map[string]int
	inPool map[string]bool // by event stream
}

func (nc *nodeCase) poolInit() {
	sub, err := nc.sut.disp.Subscribe(protocol.TxMsgEvent{})
	if err != nil {
		panic(err)
	}
	nc.pw = &poolWatch{sub: sub, adds: map[string]int{}, rems: map[string]int{}, inPool: map[string]bool{}}
}

func (nc *nodeCase) txName(id fmt.Stringer) string {
	for tn, ti := range nc.ln.txs {
		if ti.tx.ID.String() == id.String() {
			return tn
		}
	}
	return "?" + id.String()[:8]
}

// drainPoolEvents returns the pool notifications since the last call as "+t3,-t5" and checks
// the pairing rule of C23 on the fly.
func (nc *nodeCase) drainPoolEvents(op string) string {
	var evs []string
	for {
		select {
		case ev, ok := <-nc.pw.sub.Chan():
			if !ok {
				return strings.Join(evs, ",")
			}
			m, ok := ev.Data.(protocol.TxMsgEvent)
			if !ok {
				continue
			}
			name := nc.txName(&m.TxMsg.Tx.ID)
			if m.TxMsg.MsgType == protocol.MsgNewTx {
				if nc.pw.inPool[name] {
					nc.c.Fail("C23:event-add-twice", "after "+op+": two MsgNewTx for "+name+" without a MsgRemoveTx in between")
				}
				nc.pw.inPool[name] = true
				evs = append(evs, "+"+name)
			} else {
				if !nc.pw.inPool[name] {
					nc.c.Fail("C23:event-remove-unpaired", "after "+op+": MsgRemoveTx for "+name+" without a preceding MsgNewTx")
				}
				nc.pw.inPool[name] = false
				evs = append(evs, "-"+name)
			}
		default:
			sort.Strings(evs)
			if len(evs) == 0 {
				return "-"
			}
			return strings.Join(evs, ",")
		}
	}
}

// emitPoolOrder tells the model the arrival order the real pool has (the restore loop of
// reorganizeChain ranges over a Go map, so the order in which detached transactions re-enter
// the pool is not determined by the history).
func (nc *nodeCase) emitPoolOrder() {
	if nc.pw == nil {
		return
	}
	descs := nc.sut.pool.GetTransactions()
	if len(descs) < 2 {
		return
	}
	sort.Slice(descs, func(i, j int) bool { return descs[i].Added.Before(descs[j].Added) })
	var names []string
	for _, d := range descs {
		id := d.Tx.ID
		names = append(names, nc.txName(&id))
	}
	nc.emit("poolorder "+strings.Join(names, ","), "ok")
}

func txNum(name string) int {
	var n int
	fmt.Sscanf(name, "t%d", &n)
	return n
}

func (nc *nodeCase) dumpPool(op string) string {
	d := nc.sut.pool.VerifDump()
	var pool, orph []string
	for _, h := range d.Pool {
		hh := h
		pool = append(pool, nc.txName(&hh))
	}
	for _, h := range d.Orphans {
		hh := h
		orph = append(orph, nc.txName(&hh))
	}
	sort.Slice(pool, func(i, j int) bool { return txNum(pool[i]) < txNum(pool[j]) })
	sort.Slice(orph, func(i, j int) bool { return txNum(orph[i]) < txNum(orph[j]) })
	j := func(l []string) string {
		if len(l) == 0 {
			return "-"
		}
		return strings.Join(l, ",")
	}
	// C23 oracle: no pooled transaction is in a main-chain block
	for _, tn := range pool {
		for bn, txs := range nc.blockTxs {
			for _, ti := range txs {
				if ti.name == tn && nc.sut.chain.InMainChain(nc.nm.blocks[bn].Hash()) {
					nc.c.Fail("C23:pooled-and-confirmed", fmt.Sprintf("after %s: %s is in the pool and in main-chain block %s", op, tn, bn))
				}
			}
		}
	}
	return fmt.Sprintf("pool=%s txorph=%s ev=%s", j(pool), j(orph), nc.drainPoolEvents(op))
}

// submit hands a transaction to Chain.ValidateTx.
func (nc *nodeCase) submit(ti *txInfo) {
	res := "pooled"
	func() {
		defer func() {
			if rec := recover(); rec != nil {
				res = "panic"
			}
		}()
		isOrphan, err := nc.sut.chain.ValidateTx(ti.tx)
		switch {
		case err != nil:
			res = "err"
		case isOrphan:
			res = "orphan"
		}
	}()
	op := "submit " + nc.ln.txLine(ti)
	nc.emit(op, nc.dump(res))
	time.Sleep(time.Millisecond) // distinct arrival times: the proposer orders the pool by them
}

// propose lets the real proposer build a block on the best block for the next slot of the
// local validator and feeds it back to the chain (C38).
func (nc *nodeCase) propose() {
	best := nc.sut.chain.BestBlockHeader()
	bestHash := best.Hash()
	ck, err := nc.sut.chain.PrevCheckpointByPrevHash(&bestHash)
	if err != nil {
		return
	}
	nVal := len(nc.env.keys)
	// first slot after the parent that belongs to the local validator
	ts := best.Timestamp + nodeInterval
	for slotOrder(ck.Timestamp, ts, nVal) != nc.env.localIdx {
		ts += nodeInterval
	}
	var blk *types.Block
	var perr error
	func() {
		defer func() {
			if rec := recover(); rec != nil {
				perr = fmt.Errorf("panic: %v", rec)
			}
		}()
		v := &state.Validator{PubKey: nc.env.pubs[nc.env.localIdx], Order: nc.env.localIdx}
		b, err := proposal.NewBlockTemplate(nc.sut.chain, v, nil, ts, 10*time.Second, 20*time.Second)
		blk, perr = b, err
	}()
	if perr != nil || blk == nil {
		nc.c.Fail("C38:proposer-fails", fmt.Sprintf("NewBlockTemplate on best %s failed: %v", nc.nm.name(bestHash), perr))
		nc.emit(fmt.Sprintf("propose ts=%d", ts-nc.nm.blocks["b0"].Timestamp), "res=err")
		return
	}
	b := blk
	var included []string
	for _, t := range b.Transactions[1:] {
		tid := t.ID
		included = append(included, nc.txName(&tid))
	}
	inc := "-"
	if len(included) > 0 {
		inc = strings.Join(included, ",")
	}
	nc.emit(fmt.Sprintf("propose ts=%d", ts-nc.nm.blocks["b0"].Timestamp), "included="+inc+" "+nc.dumpPool("propose"))
	// register the block under a name (its transactions are known pool transactions)
	var infos []*txInfo
	for _, tn := range included {
		infos = append(infos, nc.ln.txs[tn])
	}
	if existing, dup := nc.nm.byHash[b.Hash()]; dup {
		nc.deliver(existing) // the proposer rebuilt a block the node already has
		return
	}
	nc.lastSigner = nc.env.localIdx
	// the reference node (source of reward tables for harness-made blocks) must know it too
	nc.env.useOutsiderKey()
	nc.ref.processBlock(b)
	nc.ref.quiesce()
	nc.env.useLocalKey()
	name := nc.registerBlock(nc.nm.name(bestHash), b, 0, infos)
	r := nc.deliver(name)
	c := nc.c
	if r.String() != "ok" {
		if os.Getenv("POOLDBG") != "" {
			hh := b.Hash()
			ok := nc.env.keys[nc.env.localIdx].XPub().Verify(hh.Bytes(), b.BlockWitness)
			ck2, _ := nc.sut.chain.PrevCheckpointByPrevHash(&b.PreviousBlockHash)
			fmt.Fprintln(os.Stderr, "DBG outsider", nc.env.outsider.XPub().Verify(hh.Bytes(), b.BlockWitness), "witnesslen", len(b.BlockWitness), "sigok", ok, "ts", b.Timestamp, "ck.ts", ck.Timestamp, "ck2.ts", ck2.Timestamp, "ck2.h", ck2.Height, "status", ck2.Status, "votes", ck2.Votes, "order", slotOrder(ck2.Timestamp, b.Timestamp, nVal), "val", ck2.GetValidator(b.Timestamp))
		}
		c.Fail("C38:proposed-block-rejected", fmt.Sprintf("the node rejects the block %s its own proposer built on %s: %v %s", name, nc.nm.name(bestHash), r.err, r.panic))
	} else if nb := nc.sut.chain.BestBlockHeader().Hash(); nb != b.Hash() {
		c.Fail("C38:proposed-block-not-best", fmt.Sprintf("the proposed block %s on best %s was stored but the best block is %s", name, nc.nm.name(bestHash), nc.nm.name(nb)))
	}
	c.Count("proposals")
	if height := b.Height; height%nc.env.E == 1 && height > 1 {
		c.Count("proposals-paying-rewards")
	}
}

func genCasePool(c *Ctx, mode string) {
	rng := c.Rng
	E := uint64(2 + rng.Intn(2))
	nVal := 1 + rng.Intn(3)
	// the local validator must exist for the proposer; with several validators nothing gets
	// justified by the local vote alone
	nc := newNodeCase(c, mode, E, nVal, 0, 2)
	defer nc.close()
	// in half of the cases the blocks of the other proposers pay another coinbase program than
	// the node's own proposer: epochs without a block of the node then have a reward table
	// without the node's program
	nc.altCoinbase = rng.Intn(2) == 0
	if nc.altCoinbase {
		c.Count("alt-coinbase-cases")
	}
	base := int(E) + 1 + int(consensus.CoinbasePendingBlockNumber) + rng.Intn(3)
	tip := "b0"
	for i := 0; i < base; i++ {
		name := nc.defBlock(tip, 0, 0, nil)
		if name == "" {
			panic("base chain block rejected: " + nc.lastRefErr)
		}
		nc.deliver(name)
		tip = name
	}
	tips := []string{tip}
	var unconfirmed []*txInfo // built, maybe submitted, not yet put into a block by the harness
	var known []*txInfo       // every transaction built so far (for re-broadcasts)
	steps := 6 + rng.Intn(10)
	for i := 0; i < steps && !nc.dead; i++ {
		bestName := nc.nm.name(nc.sut.chain.BestBlockHeader().Hash())
		switch k := rng.Intn(10); {
		case k < 4: // build transactions on the best block's view and submit them
			txs := nc.randomTxs(bestName)
			switch rng.Intn(4) {
			case 0:
				// children before parents (orphans first), the parent maybe never submitted at all
				// (a block can still confirm it: a parent that never passed through the pool)
				for j := len(txs) - 1; j >= 0; j-- {
					if j == 0 && len(txs) > 1 && rng.Intn(2) == 0 {
						c.Count("parents-never-submitted")
						continue
					}
					nc.submit(txs[j])
				}
				c.Count("reverse-order-submits")
			default:
				for _, ti := range txs {
					nc.submit(ti)
				}
			}
			unconfirmed = append(unconfirmed, txs...)
			known = append(known, txs...)
			if rng.Intn(3) == 0 && len(known) > 0 {
				// re-broadcast: a transaction seen before (pooled, orphaned, confirmed or refused)
				nc.submit(known[rng.Intn(len(known))])
				c.Count("resubmits")
			}
			if rng.Intn(3) == 0 && len(unconfirmed) > 0 { // a conflicting spend of a pooled tx's input
				victim := unconfirmed[rng.Intn(len(unconfirmed))]
				if len(victim.ins) > 0 {
					o := nc.ln.outs[victim.ins[0]]
					if o.amount > ledgerFee+7 {
						ti := nc.ln.buildTx([]string{victim.ins[0]}, []outSpec{{'n', o.amount - ledgerFee - 7}}, 0)
						nc.submit(ti)
						unconfirmed = append(unconfirmed, ti)
						c.Count("conflicting-submits")
					}
				}
			}
		case k < 6: // the real proposer
			nc.propose()
			tips = append(tips, nc.nm.order[len(nc.nm.order)-1])
		case k < 8: // a harness-made block confirming some of the unconfirmed transactions
			parent := tips[rng.Intn(len(tips))]
			bv := nc.branchView(parent)
			var pick []*txInfo
			spentNow := map[string]bool{}
			for _, ti := range unconfirmed {
				ok := rng.Intn(2) == 0
				for _, in := range ti.ins {
					ch, exists := bv.created[in]
					o := nc.ln.outs[in]
					if !exists || bv.spent[in] || spentNow[in] || (o.cb && ch+consensus.CoinbasePendingBlockNumber > bv.height+1) || (o.kind == 'v' && ch+nc.env.votePend > bv.height+1) {
						ok = false
					}
				}
				if ok {
					pick = append(pick, ti)
					for _, in := range ti.ins {
						spentNow[in] = true
					}
					for _, o := range ti.outs {
						bv.created[o] = bv.height + 1
					}
				}
			}
			name := nc.defBlock(parent, uint64(rng.Intn(2)), byte(rng.Intn(3)), pick)
			if name == "" {
				c.Count("pool-block-rejected-by-ref:" + firstWords(nc.lastRefErr, 6))
				continue
			}
			nc.deliver(name)
			tips = append(tips, name)
		default: // an empty block somewhere (forks and reorganisations)
			parent := tips[rng.Intn(len(tips))]
			if name := nc.defBlock(parent, uint64(rng.Intn(2)), byte(rng.Intn(3)), nil); name != "" {
				nc.deliver(name)
				tips = append(tips, name)
			}
		}
	}
	if !nc.dead && rng.Intn(2) == 0 {
		nc.sharedTxReorg()
	}
	if !nc.dead && rng.Intn(2) == 0 {
		nc.proposeAtEpochStart()
	}
	if !nc.dead {
		nc.propose()
	}
	// one of two implementation-only epilogues (their blocks are not registered with the
	// ledger bookkeeping of the harness, so at most one runs)
	if !nc.dead {
		if rng.Intn(3) == 0 {
			nc.gasEpilogue()
		} else {
			nc.proposeEpilogue()
		}
	}
	c.Distinct(fmt.Sprintf("pool-%d-%d", c.Seed, c.nOps))
	c.Count(fmt.Sprintf("E=%d", E))
}

// proposeEpilogue (implementation only, after the last op line of the case, so the model is not
// involved): transactions whose TimeRange ends at, one after, and two after the best height are
// submitted, then the real proposer builds a block and the node must accept its own block.
// A transaction with TimeRange == best height is fine for the pool (it is checked against the
// best block) but expired for the next block: the proposer must leave it out.
// sharedTxReorg: t1 and t2 are in the pool; A1 = [t1] extends the best block (t1 leaves the
// pool), then the sibling branch B1 = [t1, t2], B2 = [] wins: the reorganisation attaches a block
// that holds a transaction confirmed on BOTH branches in front of one that is still pooled.
func (nc *nodeCase) sharedTxReorg() {
	c := nc.c
	bestName := nc.nm.name(nc.sut.chain.BestBlockHeader().Hash())
	if _, ok := nc.nm.blocks[bestName]; !ok {
		return
	}
	var txs []*txInfo
	for try := 0; try < 8 && len(txs) < 2; try++ {
		txs = nc.randomTxs(bestName)
	}
	if len(txs) < 2 {
		c.Count("shared-tx-reorg:not-enough-txs")
		return
	}
	for _, ti := range txs {
		nc.submit(ti)
	}
	a1 := nc.defBlock(bestName, 0, 4, txs[:1])
	if a1 == "" {
		c.Count("shared-tx-reorg:a1-rejected-by-ref")
		return
	}
	nc.deliver(a1)
	b1 := nc.defBlock(bestName, 1, 5, txs)
	if b1 == "" {
		c.Count("shared-tx-reorg:b1-rejected-by-ref")
		return
	}
	nc.deliver(b1)
	if b2 := nc.defBlock(b1, 0, 5, nil); b2 != "" {
		nc.deliver(b2)
		c.Count("shared-tx-reorg-scenarios")
	}
}

// proposeAtEpochStart: harness-made empty blocks extend the best chain until a whole epoch
// consists of them and the next block is the first of an epoch; then the node proposes it
// (with altCoinbase the closed epoch's reward table does not hold the node's own program).
func (nc *nodeCase) proposeAtEpochStart() {
	E := nc.env.E
	for i := 0; i < int(2*E)+1 && !nc.dead; i++ {
		best := nc.sut.chain.BestBlockHeader()
		bestName := nc.nm.name(best.Hash())
		if _, ok := nc.nm.blocks[bestName]; !ok {
			return
		}
		if best.Height%E == 0 && i >= int(E) {
			nc.c.Count("propose-at-epoch-start")
			nc.propose()
			return
		}
		name := nc.defBlock(bestName, 0, 6, nil)
		if name == "" {
			return
		}
		nc.deliver(name)
	}
}

func (nc *nodeCase) proposeEpilogue() {
	n := nc.sut
	best := n.chain.BestBlockHeader()
	bestName := nc.nm.name(best.Hash())
	bv := nc.branchView(bestName)
	avail := nc.spendable(bv, best.Height+1)
	submitted := 0
	for k, in := range avail {
		if k >= 3 {
			break
		}
		o := nc.ln.outs[in]
		if o.amount <= ledgerFee+1 || o.kind != 'n' {
			continue
		}
		data := types.TxData{Version: 1, TimeRange: best.Height + uint64(k)}
		data.Inputs = append(data.Inputs, spendInputFor(o))
		data.Outputs = append(data.Outputs, types.NewOriginalTxOutput(*consensus.BTMAssetID, o.amount-ledgerFee, []byte{0x51}, nil))
		tx := finalizeTx(data)
		func() {
			defer func() { recover() }()
			if _, err := n.chain.ValidateTx(tx); err == nil {
				submitted++
			}
		}()
	}
	if submitted == 0 {
		return
	}
	nc.c.Count("epilogue-timerange-submissions")
	nc.proposeRaw(fmt.Sprintf("pool holds transactions with TimeRange = best height %d (+0,+1,+2)", best.Height))
	nc.c.Count("epilogue-proposals")
}

// proposeRaw (implementation only): the real proposer builds a block on the best block and the
// node processes it; a refusal is a C38 violation. Returns the block when it was accepted.
func (nc *nodeCase) proposeRaw(context string) *types.Block {
	n := nc.sut
	best := n.chain.BestBlockHeader()
	bestName := nc.nm.name(best.Hash())
	bestHash := best.Hash()
	ck, err := n.chain.PrevCheckpointByPrevHash(&bestHash)
	if err != nil {
		return nil
	}
	ts := best.Timestamp + nodeInterval
	for slotOrder(ck.Timestamp, ts, len(nc.env.keys)) != nc.env.localIdx {
		ts += nodeInterval
	}
	var blk *types.Block
	var perr error
	func() {
		defer func() {
			if rec := recover(); rec != nil {
				perr = fmt.Errorf("panic: %v", rec)
			}
		}()
		v := &state.Validator{PubKey: nc.env.pubs[nc.env.localIdx], Order: nc.env.localIdx}
		blk, perr = proposal.NewBlockTemplate(n.chain, v, nil, ts, 10*time.Second, 20*time.Second)
	}()
	if perr != nil || blk == nil {
		nc.c.Fail("C38:proposer-fails", fmt.Sprintf("%s: NewBlockTemplate failed on best %s: %v", context, bestName, perr))
		return nil
	}
	r := n.processBlock(blk)
	n.quiesce()
	if r.String() != "ok" {
		nc.c.Fail("C38:proposed-block-rejected", fmt.Sprintf("%s: the node rejects the block (%d transactions) its own proposer built on %s: %v %s", context, len(blk.Transactions), bestName, r.err, r.panic))
		return nil
	}
	return blk
}

// gasEpilogue (implementation only, after the last op line): the pool is filled with more
// gas-heavy transactions than one block's gas limit admits (several validation batches of the
// proposer); every proposed block must pass the node's own validation.
func (nc *nodeCase) gasEpilogue() {
	n := nc.sut
	const heavyN = 36
	const heavyFee = uint64(300000 * 200) // buys the maximal gas of one transaction
	const heavyOut = uint64(2000000)
	best := n.chain.BestBlockHeader()
	if _, known := nc.nm.blocks[nc.nm.name(best.Hash())]; !known {
		return
	}
	bv := nc.branchView(nc.nm.name(best.Hash()))
	var ins []string
	var total uint64
	const fillerN = 20
	const fillerAmt = uint64(3000000)
	need := heavyN*(heavyFee+heavyOut) + fillerN*fillerAmt + 2*ledgerFee
	for _, in := range nc.spendable(bv, best.Height+1) {
		if o := nc.ln.outs[in]; o.kind == 'n' {
			ins = append(ins, in)
			total += o.amount
			if total >= need {
				break
			}
		}
	}
	if total < need {
		nc.c.Count("gas-epilogue-not-enough-funds")
		return
	}
	burner := func(k int) []byte {
		prog, err := vm.Assemble(fmt.Sprintf("%d $loop 1 SUB DUP JUMPIF:$loop NOT", k))
		if err != nil {
			panic(err)
		}
		return prog
	}
	mkSplit := func(prog []byte) *types.Tx {
		data := types.TxData{Version: 1}
		for _, in := range ins {
			data.Inputs = append(data.Inputs, spendInputFor(nc.ln.outs[in]))
		}
		for i := 0; i < heavyN; i++ {
			data.Outputs = append(data.Outputs, types.NewOriginalTxOutput(*consensus.BTMAssetID, heavyFee+heavyOut, prog, nil))
		}
		for i := 0; i < fillerN; i++ {
			data.Outputs = append(data.Outputs, types.NewOriginalTxOutput(*consensus.BTMAssetID, fillerAmt, []byte{0x51, 0x51, 0x87}, nil)) // TRUE TRUE EQUAL
		}
		data.Outputs = append(data.Outputs, types.NewOriginalTxOutput(*consensus.BTMAssetID, total-heavyN*(heavyFee+heavyOut)-fillerN*fillerAmt-ledgerFee, []byte{0x51}, nil))
		return finalizeTx(data)
	}
	mkHeavy := func(split *types.Tx, i int) *types.Tx {
		id := *split.ResultIds[i]
		e := split.Entries[id].(*bc.OriginalOutput)
		data := types.TxData{Version: 1}
		data.Inputs = append(data.Inputs, types.NewSpendInput(nil, *e.Source.Ref, *e.Source.Value.AssetId, e.Source.Value.Amount, e.Ordinal, e.ControlProgram.Code, e.StateData))
		data.Outputs = append(data.Outputs, types.NewOriginalTxOutput(*consensus.BTMAssetID, heavyOut, []byte{0x51}, nil))
		return finalizeTx(data)
	}
	gasOf := func(k int) int64 {
		blk := &bc.Block{BlockHeader: &bc.BlockHeader{Height: best.Height + 2}}
		gs, err := validation.ValidateTx(mkHeavy(mkSplit(burner(k)), 0).Tx, blk, n.chain.ProgramConverter)
		if err != nil {
			return -1
		}
		return gs.GasUsed
	}
	lo, hi := 1, 200000
	if gasOf(lo) < 0 {
		nc.c.Count("gas-epilogue-setup-failed")
		return
	}
	for hi-lo > 1 {
		if mid := (lo + hi) / 2; gasOf(mid) >= 0 {
			lo = mid
		} else {
			hi = mid
		}
	}
	if g := gasOf(lo); g*heavyN <= int64(consensus.MaxBlockGas) {
		nc.c.Count("gas-epilogue-setup-failed")
		return
	}
	split := mkSplit(burner(lo))
	if _, err := n.chain.ValidateTx(split); err != nil {
		nc.c.Count("gas-epilogue-split-refused")
		return
	}
	if nc.proposeRaw("gas epilogue (split transaction in the pool)") == nil {
		return
	}
	var heavies []*types.Tx
	for i := 0; i < heavyN; i++ {
		h := mkHeavy(split, i)
		heavies = append(heavies, h)
		n.chain.ValidateTx(h)
	}
	// cheap independent transactions: they push the children below into a LATER validation batch
	// than the heavy transaction that no longer fits
	for i := 0; i < fillerN; i++ {
		id := *split.ResultIds[heavyN+i]
		e := split.Entries[id].(*bc.OriginalOutput)
		data := types.TxData{Version: 1}
		data.Inputs = append(data.Inputs, types.NewSpendInput(nil, *e.Source.Ref, *e.Source.Value.AssetId, e.Source.Value.Amount, e.Ordinal, e.ControlProgram.Code, e.StateData))
		data.Outputs = append(data.Outputs, types.NewOriginalTxOutput(*consensus.BTMAssetID, fillerAmt/2, []byte{0x51}, nil))
		time.Sleep(time.Millisecond)
		n.chain.ValidateTx(finalizeTx(data))
	}
	// cheap children of the LAST heavy transactions (the ones that will not fit into the first
	// block): a child may be packed only together with its parent
	for i := heavyN - 8; i < heavyN; i++ {
		h := heavies[i]
		id := *h.ResultIds[0]
		e := h.Entries[id].(*bc.OriginalOutput)
		data := types.TxData{Version: 1}
		data.Inputs = append(data.Inputs, types.NewSpendInput(nil, *e.Source.Ref, *e.Source.Value.AssetId, e.Source.Value.Amount, e.Ordinal, e.ControlProgram.Code, e.StateData))
		data.Outputs = append(data.Outputs, types.NewOriginalTxOutput(*consensus.BTMAssetID, heavyOut/2, []byte{0x51}, nil))
		time.Sleep(time.Millisecond)
		n.chain.ValidateTx(finalizeTx(data))
	}
	nc.c.Count("gas-epilogues")
	for round := 0; round < 5; round++ {
		blk := nc.proposeRaw(fmt.Sprintf("gas epilogue: %d transactions of maximal gas in the pool (more than one block admits)", heavyN))
		if blk == nil {
			return
		}
		if len(blk.Transactions) == 1 {
			break
		}
	}
}
