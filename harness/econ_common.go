//go:build hc14 || hc15 || hall

package main

import (
	"encoding/hex"
	"fmt"
	"math/big"
	"sort"
	"strconv"
	"strings"

	"github.com/bytom/bytom/consensus"
	"github.com/bytom/bytom/crypto/ed25519/chainkd"
	"github.com/bytom/bytom/protocol/bc"
	"github.com/bytom/bytom/protocol/bc/types"
	"github.com/bytom/bytom/protocol/state"
	"github.com/bytom/bytom/protocol/vm"
	"github.com/bytom/bytom/protocol/vm/vmutil"
)

// Shared by the C14 and C15 harnesses: abstract checkpoints / blocks <-> the real
// state.Checkpoint and types.Block, line syntax of Drv/EconUtil.lean.

type ecPair struct {
	key string // hex
	val uint64
}

type ecTx struct {
	vetoes []ecPair
	votes  []ecPair
	spend  uint64 // extra BTM spend input (0 = none)
	out    uint64 // extra BTM original output (0 = none)
	burn   uint64 // BTM sent to an unspendable (OP_FAIL) program: a Retirement entry (0 = none)
	burnK  int    // 0: bare OP_FAIL, 1: vmutil.RetireProgram(comment), 2: vmutil.RegisterProgram(contract) (BCRP)
}

// ecFee is the transaction's fee computed by the harness itself: BTM of all inputs minus BTM of
// ALL outputs (vote outputs, ordinary outputs and retirements), clamped at 0.
func (t ecTx) ecFee() uint64 {
	in := new(big.Int).SetUint64(t.spend)
	for _, v := range t.vetoes {
		in.Add(in, new(big.Int).SetUint64(v.val))
	}
	out := new(big.Int).SetUint64(t.out)
	out.Add(out, new(big.Int).SetUint64(t.burn))
	for _, v := range t.votes {
		out.Add(out, new(big.Int).SetUint64(v.val))
	}
	d := in.Sub(in, out)
	if d.Sign() <= 0 {
		return 0
	}
	if !d.IsUint64() {
		return d.Mod(d, new(big.Int).Lsh(big.NewInt(1), 64)).Uint64()
	}
	return d.Uint64()
}

func ecBurnProgram(k int) []byte {
	switch k {
	case 1:
		p, _ := vmutil.RetireProgram([]byte("burnt by the harness"))
		return p
	case 2:
		p, _ := vmutil.RegisterProgram([]byte{0x51, 0x51, 0x9a})
		return p
	}
	return []byte{byte(vm.OP_FAIL)}
}

type ecOut struct {
	amount  uint64
	program string // hex
	flags   string // n = vote output (not original), x = non-BTM asset
}

func ecPairs(l []ecPair) string {
	if len(l) == 0 {
		return "-"
	}
	s := make([]string, len(l))
	for i, p := range l {
		s[i] = fmt.Sprintf("%s:%d", ecKey(p.key), p.val)
	}
	return strings.Join(s, ",")
}

func ecKey(k string) string {
	if k == "" {
		return "-"
	}
	return k
}

func ecParsePairs(s string) []ecPair {
	if s == "-" {
		return nil
	}
	var out []ecPair
	for _, e := range strings.Split(s, ",") {
		f := strings.Split(e, ":")
		v, _ := strconv.ParseUint(f[1], 10, 64)
		k := f[0]
		if k == "-" {
			k = ""
		}
		out = append(out, ecPair{k, v})
	}
	return out
}

func ecSortedMap(m map[string]uint64) string {
	var l []ecPair
	for k, v := range m {
		l = append(l, ecPair{k, v})
	}
	sort.Slice(l, func(i, j int) bool { return l[i].key < l[j].key })
	return ecPairs(l)
}

func ecOuts(l []ecOut) string {
	if len(l) == 0 {
		return "-"
	}
	s := make([]string, len(l))
	for i, o := range l {
		s[i] = fmt.Sprintf("%d:%s", o.amount, ecKey(o.program))
		if o.flags != "" {
			s[i] += ":" + o.flags
		}
	}
	return strings.Join(s, ",")
}

func ecParseOuts(s string) []ecOut {
	if s == "-" {
		return nil
	}
	var out []ecOut
	for _, e := range strings.Split(s, ",") {
		f := strings.Split(e, ":")
		a, _ := strconv.ParseUint(f[0], 10, 64)
		o := ecOut{amount: a, program: f[1]}
		if o.program == "-" {
			o.program = ""
		}
		if len(f) > 2 {
			o.flags = f[2]
		}
		out = append(out, o)
	}
	return out
}

func ecUnhex(s string) []byte {
	b, err := hex.DecodeString(s)
	if err != nil {
		panic(err)
	}
	return b
}

var ecOtherAsset = bc.NewAssetID([32]byte{7})

// the block's first transaction: a coinbase input and the given outputs
func ecCoinbaseTx(height uint64, outs []ecOut) *types.Tx {
	td := types.TxData{Version: 1, SerializedSize: 1}
	td.Inputs = append(td.Inputs, types.NewCoinbaseInput([]byte(strconv.FormatUint(height, 10))))
	for _, o := range outs {
		asset := *consensus.BTMAssetID
		if strings.Contains(o.flags, "x") {
			asset = ecOtherAsset
		}
		if strings.Contains(o.flags, "n") {
			td.Outputs = append(td.Outputs, types.NewVoteOutput(asset, o.amount, ecUnhex(o.program), make([]byte, 64), nil))
		} else {
			td.Outputs = append(td.Outputs, types.NewOriginalTxOutput(asset, o.amount, ecUnhex(o.program), nil))
		}
	}
	return &types.Tx{TxData: td, Tx: types.MapTx(&td)}
}

var ecSrcCounter uint64

func ecTxReal(t ecTx) *types.Tx {
	td := types.TxData{Version: 1, SerializedSize: 1}
	src := func() bc.Hash {
		ecSrcCounter++
		return bc.Hash{V0: ecSrcCounter, V1: 0xec}
	}
	for _, v := range t.vetoes {
		td.Inputs = append(td.Inputs, types.NewVetoInput(nil, src(), *consensus.BTMAssetID, v.val, 0, []byte{0x51}, ecUnhex(v.key), nil))
	}
	if t.spend > 0 {
		td.Inputs = append(td.Inputs, types.NewSpendInput(nil, src(), *consensus.BTMAssetID, t.spend, 0, []byte{0x51}, nil))
	}
	for _, v := range t.votes {
		td.Outputs = append(td.Outputs, types.NewVoteOutput(*consensus.BTMAssetID, v.val, []byte{0x51}, ecUnhex(v.key), nil))
	}
	if t.out > 0 {
		td.Outputs = append(td.Outputs, types.NewOriginalTxOutput(*consensus.BTMAssetID, t.out, []byte{0x51}, nil))
	}
	if t.burn > 0 {
		td.Outputs = append(td.Outputs, types.NewOriginalTxOutput(*consensus.BTMAssetID, t.burn, ecBurnProgram(t.burnK), nil))
	}
	return &types.Tx{TxData: td, Tx: types.MapTx(&td)}
}

// ecBlock builds the real block and the op-line suffix `<outs0> {T <vetoes> <votes> <fee> [B<burn>:<kind>]}*`.
// The fee written to the op line (what the MODEL adds to the reward table) is computed by the
// harness itself (inputs minus ALL outputs incl. retirements); `feeMismatch` reports a
// transaction whose real TxData.Fee() differs from it.
func ecBlock(prev bc.Hash, height, ts uint64, outs0 []ecOut, hasCoinbase bool, txs []ecTx) (blk *types.Block, suffix string, feeMismatch string) {
	b := &types.Block{BlockHeader: types.BlockHeader{Version: 1, Height: height, Timestamp: ts, PreviousBlockHash: prev}}
	var sb strings.Builder
	if hasCoinbase {
		cb := ecCoinbaseTx(height, outs0)
		b.Transactions = append(b.Transactions, cb)
		sb.WriteString(ecOuts(outs0))
		fmt.Fprintf(&sb, " T - - %d", cb.Fee())
	} else {
		sb.WriteString("-")
	}
	for i, t := range txs {
		tx := ecTxReal(t)
		b.Transactions = append(b.Transactions, tx)
		if !hasCoinbase && i == 0 {
			// outs0 of the model = outputs of this first transaction
			var o0 []ecOut
			for _, o := range tx.Outputs {
				f := ""
				if o.OutputType() != types.OriginalOutputType {
					f = "n"
				}
				o0 = append(o0, ecOut{amount: o.Amount, program: hex.EncodeToString(o.ControlProgram), flags: f})
			}
			sb.Reset()
			sb.WriteString(ecOuts(o0))
		}
		fee := t.ecFee()
		if tx.Fee() != fee {
			feeMismatch = fmt.Sprintf("tx %d: TxData.Fee()=%d, inputs-outputs=%d", i, tx.Fee(), fee)
		}
		fmt.Fprintf(&sb, " T %s %s %d", ecPairs(t.vetoes), ecPairs(t.votes), fee)
		if t.burn > 0 {
			fmt.Fprintf(&sb, " B%d:%d", t.burn, t.burnK)
		}
	}
	return b, sb.String(), feeMismatch
}

func ecParseTxs(w []string) []ecTx {
	var out []ecTx
	for i := 0; i+3 < len(w) && w[i] == "T"; {
		t := ecTx{vetoes: ecParsePairs(w[i+1]), votes: ecParsePairs(w[i+2])}
		fee, _ := strconv.ParseUint(w[i+3], 10, 64)
		i += 4
		if i < len(w) && strings.HasPrefix(w[i], "B") {
			f := strings.Split(w[i][1:], ":")
			t.burn, _ = strconv.ParseUint(f[0], 10, 64)
			if len(f) > 1 {
				t.burnK, _ = strconv.Atoi(f[1])
			}
			i++
		}
		// reproduce the recorded fee: fee = vetoes + spend - votes - out - burn
		var in, outv uint64
		for _, v := range t.vetoes {
			in += v.val
		}
		for _, v := range t.votes {
			outv += v.val
		}
		outv += t.burn
		if in >= outv+fee {
			t.out = in - outv - fee
		} else {
			t.spend = outv + fee - in
		}
		out = append(out, t)
	}
	return out
}

func ecSetParams(interval, minVotes, epoch uint64, fed []string) {
	consensus.ActiveNetParams.BlockTimeInterval = interval
	consensus.ActiveNetParams.MinValidatorVoteNum = minVotes
	consensus.ActiveNetParams.BlocksOfEpoch = epoch
	xs := make([]chainkd.XPub, len(fed))
	for i, k := range fed {
		copy(xs[i][:], ecUnhex(k))
	}
	consensus.ActiveNetParams.FederationXpubs = xs
}

func ecStatus(s string) state.CheckpointStatus {
	switch s {
	case "g":
		return state.Growing
	case "u":
		return state.Unjustified
	case "j":
		return state.Justified
	}
	return state.Finalized
}

func ecStatusName(s state.CheckpointStatus) string {
	return [...]string{"g", "u", "j", "f"}[s]
}

// a fresh map filled in the given order (Go randomises iteration anyway)
func ecMap(l []ecPair) map[string]uint64 {
	m := make(map[string]uint64)
	for _, p := range l {
		m[p.key] = p.val
	}
	return m
}
