#!/usr/bin/env python3
"""Helper (not run by ./check): re-pins the `pinned_*` source-text ties of Ties/C01, C14, C15 to the
CURRENT Gen/EconFacts.lean. Run it only after re-reading the model against the changed Go code:
    cd /verif && python3 notes/mkties_econ.py
"""
import re, os
ROOT = os.path.join(os.path.dirname(os.path.abspath(__file__)), "..", "lean", "BytomModel")
src = open(os.path.join(ROOT, "Gen", "EconFacts.lean")).read()
defs = dict(re.findall(r'^def (\w+) : String := (".*")$', src, flags=re.M))

def repin(path):
    s = open(path).read()
    def sub(m):
        n = m.group(1)
        return f"theorem pinned_{n} : EconFacts.{n} =\n  {defs[n]} := by rfl"
    s2 = re.sub(r'theorem pinned_(\w+) : EconFacts\.\w+ =\n  ".*" := by (?:decide|rfl)', sub, s)
    open(path, "w").write(s2)
    print(path, "changed" if s != s2 else "same")

for p in ("C01", "C14", "C15"):
    f = os.path.join(ROOT, "Ties", p + ".lean")
    if os.path.exists(f):
        repin(f)
