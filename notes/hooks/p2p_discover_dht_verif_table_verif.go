//go:build verif

package dht

import "net"

// Verification hooks (build tag `verif` only; add-only wrappers around the unexported
// routing-table operations). Used by /verif property C34.

// VerifTable wraps a routing table that is not attached to a network.
type VerifTable struct{ tab *Table }

// VerifBucketSize and VerifNBuckets expose the table constants.
const (
	VerifBucketSize = bucketSize
	VerifNBuckets   = nBuckets
)

// VerifNewTable creates an empty table for the local node id.
func VerifNewTable(self NodeID) *VerifTable {
	return &VerifTable{tab: newTable(self, &net.UDPAddr{IP: net.IP{127, 0, 0, 1}, Port: 30303})}
}

// VerifNode builds a node the way the discovery code does (sha = Sha256(id)).
func VerifNode(id NodeID) *Node {
	return NewNode(id, net.IP{127, 0, 0, 1}, 30303, 30303)
}

// Bucket returns the index of the bucket the table files the node under.
func (v *VerifTable) Bucket(n *Node) int { return logdist(v.tab.self.sha, n.sha) }

// Add calls Table.add; the result is the contested node or nil.
func (v *VerifTable) Add(n *Node) *Node { return v.tab.add(n) }

// Stuff calls Table.stuff.
func (v *VerifTable) Stuff(ns []*Node) { v.tab.stuff(ns) }

// Delete calls Table.delete.
func (v *VerifTable) Delete(n *Node) { v.tab.delete(n) }

// DeleteReplace calls Table.deleteReplace.
func (v *VerifTable) DeleteReplace(n *Node) { v.tab.deleteReplace(n) }

// Bump calls bucket.bump on the node's bucket.
func (v *VerifTable) Bump(n *Node) bool {
	return v.tab.buckets[logdist(v.tab.self.sha, n.sha)].bump(n)
}

// Count returns Table.count.
func (v *VerifTable) Count() int { return v.tab.count }

// Self returns the local node.
func (v *VerifTable) Self() *Node { return v.tab.self }

// Dump returns copies of the entries and replacements of bucket i.
func (v *VerifTable) Dump(i int) (entries, replacements []*Node) {
	b := v.tab.buckets[i]
	return append([]*Node(nil), b.entries...), append([]*Node(nil), b.replacements...)
}

// Closest calls Table.closest and returns the result entries.
func (v *VerifTable) Closest(target [32]byte, n int) []*Node {
	return v.tab.closest(target, n).entries
}
