//go:build verif

package chainmgr

import (
	"github.com/bytom/bytom/protocol/bc"
	"github.com/bytom/bytom/protocol/bc/types"
)

// Verification hooks (build tag `verif` only; add-only, read-only wrappers).
// Used by /verif property C33: the unexported sync-response builders are called on a
// blockKeeper that has nothing but the chain, exactly as handle.go calls them.

// VerifLocateHeaders calls blockKeeper.locateHeaders on the given chain.
func VerifLocateHeaders(chain Chain, locator []*bc.Hash, stopHash *bc.Hash, skip, maxNum uint64) ([]*types.BlockHeader, error) {
	bk := &blockKeeper{chain: chain}
	return bk.locateHeaders(locator, stopHash, skip, maxNum)
}

// VerifLocateBlocks calls blockKeeper.locateBlocks on the given chain.
func VerifLocateBlocks(chain Chain, locator []*bc.Hash, stopHash *bc.Hash, isTimeout func() bool) ([]*types.Block, error) {
	bk := &blockKeeper{chain: chain}
	return bk.locateBlocks(locator, stopHash, isTimeout)
}

// VerifMaxNums returns the protocol maxima handle.go passes to the builders.
func VerifMaxNums() (blocksPerMsg, headersPerMsg uint64) {
	return maxNumOfBlocksPerMsg, maxNumOfHeadersPerMsg
}
