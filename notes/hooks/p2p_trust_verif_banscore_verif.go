//go:build verif

package trust

import "time"

// Verification hooks (build tag `verif` only; add-only wrappers with an explicit clock).
// Used by /verif property C35.

// Verif constants of the decay rule.
const (
	VerifHalflife       = Halflife
	VerifLifetime       = Lifetime
	VerifPrecomputedLen = precomputedLen
)

// VerifIncrease calls increase with the clock at unix second t.
func (s *DynamicBanScore) VerifIncrease(persistent, transient uint32, t int64) uint32 {
	return s.increase(persistent, transient, time.Unix(t, 0))
}

// VerifInt calls int with the clock at unix second t.
func (s *DynamicBanScore) VerifInt(t int64) uint32 { return s.int(time.Unix(t, 0)) }

// VerifState returns the three state fields.
func (s *DynamicBanScore) VerifState() (lastUnix int64, transient float64, persistent uint32) {
	return s.lastUnix, s.transient, s.persistent
}

// VerifSetState sets the three state fields.
func (s *DynamicBanScore) VerifSetState(lastUnix int64, transient float64, persistent uint32) {
	s.lastUnix, s.transient, s.persistent = lastUnix, transient, persistent
}

// VerifDecayFactor calls decayFactor.
func VerifDecayFactor(t int64) float64 { return decayFactor(t) }
