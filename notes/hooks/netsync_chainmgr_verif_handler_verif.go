//go:build verif

package chainmgr

import (
	dbm "github.com/bytom/bytom/database/leveldb"
	"github.com/bytom/bytom/event"
	msgs "github.com/bytom/bytom/netsync/messages"
	"github.com/bytom/bytom/netsync/peers"
)

// Verification hooks (build tag `verif` only; add-only). Used by /verif property C33:
// the message HANDLERS (handleGetBlocksMsg, handleGetHeadersMsg, handleGetBlockMsg,
// handleGetMerkleBlockMsg) are driven through processMsg, exactly as the protocol reactor
// does after decoding a peer's message, on a Manager that has a chain, a block keeper and a
// peer set but no switch and no running goroutines.

// VerifNewHandlerManager builds a Manager serving requests from the given chain; peers are
// registered in a PeerSet over basePeerSet.
func VerifNewHandlerManager(chain Chain, basePeerSet peers.BasePeerSet) *Manager {
	ps := peers.NewPeerSet(basePeerSet)
	return &Manager{
		chain:           chain,
		blockKeeper:     newBlockKeeper(chain, ps, dbm.NewMemDB()),
		peers:           ps,
		txSyncCh:        make(chan *txSyncMsg),
		eventDispatcher: event.NewDispatcher(),
	}
}

// VerifAddPeer registers a connection-level peer.
func (m *Manager) VerifAddPeer(p peers.BasePeer) { m.peers.AddPeer(p) }

// VerifHasPeer reports whether the peer is still in the peer set.
func (m *Manager) VerifHasPeer(id string) bool { return m.peers.GetPeer(id) != nil }

// VerifReceive does what ProtocolReactor.Receive does with the bytes of one message:
// decode, then processMsg.
func (m *Manager) VerifReceive(p peers.BasePeer, msgBytes []byte) error {
	msgType, msg, err := decodeMessage(msgBytes)
	if err != nil {
		return err
	}
	m.processMsg(p, msgType, msg)
	return nil
}

// VerifProcessMsg calls processMsg with an already decoded message.
func (m *Manager) VerifProcessMsg(p peers.BasePeer, msgType byte, msg msgs.BlockchainMessage) {
	m.processMsg(p, msgType, msg)
}
