module verifgen

go 1.16
