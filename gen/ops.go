package main

// Fact extractor for the VM opcode table and the program-level code the Asm model mirrors
// (C09, and the standard-program builders used by C02).
//
//   protocol/vm/ops.go       OP_* constants, the `ops` table literal, init() (its effect is
//                            applied here only if its source is the one this extractor was
//                            written against), the opcode classes ParseOp branches on
//   protocol/vm/assemble.go  the `words` label list
//   consensus/general.go     the three standard-program hash sizes
//   consensus/bcrp/bcrp.go   BCRP tag and version
//   + SHA-256 of the go/printer-normalised source of every function the hand-written
//     model mirrors statement by statement (Ties/C09 pins them).
//
// Everything is go/ast; nothing of /repo is compiled or run.

import (
	"bytes"
	"crypto/sha256"
	"fmt"
	"go/ast"
	"go/parser"
	"go/printer"
	"go/token"
	"path/filepath"
	"sort"
	"strconv"
	"strings"
)

// sha256 of the printed source of protocol/vm/ops.go:init this extractor understands:
// DATA_1..75 names, "1".."16" names, CHECKPREDICATE, opsByName from every entry of ops
// (unassigned entries share the key ""), aliases "0" and "TRUE", then NOPx%02x +
// isExpansion for every still unnamed opcode.
const opsInitHash = "8ed00dd0cce1a82006791dfd161a84db517aa831a25cd569d77d4346822650b3"

func printNode(fset *token.FileSet, n interface{}) string {
	var b bytes.Buffer
	cfg := printer.Config{Mode: printer.UseSpaces, Tabwidth: 4}
	if err := cfg.Fprint(&b, fset, n); err != nil {
		panic(err)
	}
	return b.String()
}

func srcHash(fset *token.FileSet, n interface{}) string {
	return fmt.Sprintf("%x", sha256.Sum256([]byte(printNode(fset, n))))
}

func parseGo(repo, rel string) (*token.FileSet, *ast.File, error) {
	fset := token.NewFileSet()
	f, err := parser.ParseFile(fset, filepath.Join(repo, rel), nil, 0)
	return fset, f, err
}

func findFunc(f *ast.File, name string) *ast.FuncDecl {
	for _, d := range f.Decls {
		if fd, ok := d.(*ast.FuncDecl); ok && fd.Recv == nil && fd.Name.Name == name {
			return fd
		}
	}
	return nil
}

func findMethod(f *ast.File, recv, name string) *ast.FuncDecl {
	for _, d := range f.Decls {
		fd, ok := d.(*ast.FuncDecl)
		if !ok || fd.Recv == nil || fd.Name.Name != name || len(fd.Recv.List) != 1 {
			continue
		}
		t := fd.Recv.List[0].Type
		if s, ok := t.(*ast.StarExpr); ok {
			t = s.X
		}
		if id, ok := t.(*ast.Ident); ok && id.Name == recv {
			return fd
		}
	}
	return nil
}

func leanBytes(s string) string {
	if len(s) == 0 {
		return "[]"
	}
	var o []string
	for i := 0; i < len(s); i++ {
		o = append(o, fmt.Sprintf("0x%02x", s[i]))
	}
	return "[" + strings.Join(o, ", ") + "]"
}

// evalOpCond evaluates a ParseOp branch condition over `opcode` for one byte value.
func evalOpCond(e ast.Expr, consts map[string]int, b int) (bool, error) {
	switch x := e.(type) {
	case *ast.ParenExpr:
		return evalOpCond(x.X, consts, b)
	case *ast.BinaryExpr:
		switch x.Op {
		case token.LAND, token.LOR:
			l, err := evalOpCond(x.X, consts, b)
			if err != nil {
				return false, err
			}
			r, err := evalOpCond(x.Y, consts, b)
			if err != nil {
				return false, err
			}
			if x.Op == token.LAND {
				return l && r, nil
			}
			return l || r, nil
		case token.EQL, token.GEQ, token.LEQ, token.LSS, token.GTR, token.NEQ:
			val := func(e ast.Expr) (int, error) {
				id, ok := e.(*ast.Ident)
				if !ok {
					return 0, fmt.Errorf("operand %T", e)
				}
				if id.Name == "opcode" {
					return b, nil
				}
				if v, ok := consts[id.Name]; ok {
					return v, nil
				}
				return 0, fmt.Errorf("operand %s", id.Name)
			}
			l, err := val(x.X)
			if err != nil {
				return false, err
			}
			r, err := val(x.Y)
			if err != nil {
				return false, err
			}
			switch x.Op {
			case token.EQL:
				return l == r, nil
			case token.NEQ:
				return l != r, nil
			case token.GEQ:
				return l >= r, nil
			case token.LEQ:
				return l <= r, nil
			case token.LSS:
				return l < r, nil
			default:
				return l > r, nil
			}
		}
	}
	return false, fmt.Errorf("condition shape %T", e)
}

func mentionsOpcode(e ast.Expr) bool {
	found := false
	ast.Inspect(e, func(n ast.Node) bool {
		if id, ok := n.(*ast.Ident); ok && id.Name == "opcode" {
			found = true
		}
		return true
	})
	return found
}

func genOps(repo string) (string, error) {
	fset, f, err := parseGo(repo, "protocol/vm/ops.go")
	if err != nil {
		return "", err
	}
	// 1. constants
	consts := map[string]int{}
	var constNames []string
	for _, d := range f.Decls {
		gd, ok := d.(*ast.GenDecl)
		if !ok || gd.Tok != token.CONST {
			continue
		}
		for _, s := range gd.Specs {
			vs := s.(*ast.ValueSpec)
			id, ok := vs.Type.(*ast.Ident)
			if !ok || id.Name != "Op" {
				continue
			}
			if len(vs.Names) != 1 || len(vs.Values) != 1 {
				return "", fmt.Errorf("Op constant spec shape")
			}
			lit, ok := vs.Values[0].(*ast.BasicLit)
			if !ok || lit.Kind != token.INT {
				return "", fmt.Errorf("Op constant %s is not an integer literal", vs.Names[0].Name)
			}
			v, err := strconv.ParseInt(lit.Value, 0, 32)
			if err != nil || v < 0 || v > 255 {
				return "", fmt.Errorf("Op constant %s value %s", vs.Names[0].Name, lit.Value)
			}
			consts[vs.Names[0].Name] = int(v)
			constNames = append(constNames, vs.Names[0].Name)
		}
	}
	if len(consts) < 100 {
		return "", fmt.Errorf("only %d Op constants found", len(consts))
	}
	// 2. the ops table literal
	var names [256]string
	var fns [256]string
	var tableFound bool
	for _, d := range f.Decls {
		gd, ok := d.(*ast.GenDecl)
		if !ok || gd.Tok != token.VAR {
			continue
		}
		for _, s := range gd.Specs {
			vs := s.(*ast.ValueSpec)
			if len(vs.Names) != 1 || vs.Names[0].Name != "ops" {
				continue
			}
			if len(vs.Values) != 1 {
				return "", fmt.Errorf("ops: no literal")
			}
			cl, ok := vs.Values[0].(*ast.CompositeLit)
			if !ok {
				return "", fmt.Errorf("ops: not a composite literal")
			}
			if at, ok := cl.Type.(*ast.ArrayType); !ok || printNode(fset, at) != "[256]opInfo" {
				return "", fmt.Errorf("ops: type is not [256]opInfo")
			}
			tableFound = true
			for _, e := range cl.Elts {
				kv, ok := e.(*ast.KeyValueExpr)
				if !ok {
					return "", fmt.Errorf("ops: unkeyed element")
				}
				kid, ok := kv.Key.(*ast.Ident)
				if !ok {
					return "", fmt.Errorf("ops: key shape")
				}
				k, ok := consts[kid.Name]
				if !ok {
					return "", fmt.Errorf("ops: unknown key %s", kid.Name)
				}
				v, ok := kv.Value.(*ast.CompositeLit)
				if !ok || len(v.Elts) != 3 {
					return "", fmt.Errorf("ops[%s]: value shape", kid.Name)
				}
				oid, ok := v.Elts[0].(*ast.Ident)
				if !ok || consts[oid.Name] != k {
					return "", fmt.Errorf("ops[%s]: op field differs from key", kid.Name)
				}
				nl, ok := v.Elts[1].(*ast.BasicLit)
				if !ok || nl.Kind != token.STRING {
					return "", fmt.Errorf("ops[%s]: name is not a string literal", kid.Name)
				}
				nm, err := strconv.Unquote(nl.Value)
				if err != nil || nm == "" {
					return "", fmt.Errorf("ops[%s]: name", kid.Name)
				}
				fid, ok := v.Elts[2].(*ast.Ident)
				if !ok {
					return "", fmt.Errorf("ops[%s]: fn shape", kid.Name)
				}
				if names[k] != "" {
					return "", fmt.Errorf("ops[%s]: duplicate key", kid.Name)
				}
				names[k] = nm
				fns[k] = fid.Name
			}
		}
	}
	if !tableFound {
		return "", fmt.Errorf("ops table not found")
	}
	// 3. init()
	initFn := findFunc(f, "init")
	if initFn == nil {
		return "", fmt.Errorf("ops.go: init not found")
	}
	if h := srcHash(fset, initFn); h != opsInitHash {
		return "", fmt.Errorf("ops.go:init changed (source hash %s); the extractor applies the effect of the init it was written against only", h)
	}
	for _, need := range []string{"OP_1", "OP_FALSE", "OP_CHECKPREDICATE"} {
		if _, ok := consts[need]; !ok {
			return "", fmt.Errorf("constant %s missing", need)
		}
	}
	for i := 1; i <= 75; i++ {
		names[i] = fmt.Sprintf("DATA_%d", i)
		fns[i] = "opPushdata"
	}
	for i := 0; i <= 15; i++ {
		names[consts["OP_1"]+i] = fmt.Sprintf("%d", i+1)
		fns[consts["OP_1"]+i] = "opPushdata"
	}
	names[consts["OP_CHECKPREDICATE"]] = "CHECKPREDICATE"
	fns[consts["OP_CHECKPREDICATE"]] = "opCheckPredicate"
	byName := map[string]int{}
	for i := 0; i < 256; i++ {
		if names[i] == "" {
			byName[""] = 0 // the zero opInfo: op field 0
		} else {
			byName[names[i]] = i
		}
	}
	byName["0"] = consts["OP_FALSE"]
	byName["TRUE"] = consts["OP_1"]
	var expansion [256]bool
	for i := 0; i < 256; i++ {
		if names[i] == "" {
			names[i] = fmt.Sprintf("NOPx%02x", i)
			fns[i] = "opNop"
			expansion[i] = true
		}
	}
	// 4. ParseOp: opcode classes
	po := findFunc(f, "ParseOp")
	pp := findFunc(f, "ParseProgram")
	if po == nil || pp == nil {
		return "", fmt.Errorf("ParseOp/ParseProgram not found")
	}
	var branchConds []ast.Expr
	for _, s := range po.Body.List {
		is, ok := s.(*ast.IfStmt)
		if !ok || !mentionsOpcode(is.Cond) {
			continue
		}
		if is.Init != nil || is.Else != nil {
			return "", fmt.Errorf("ParseOp: branch with init/else")
		}
		branchConds = append(branchConds, is.Cond)
	}
	if len(branchConds) == 0 {
		return "", fmt.Errorf("ParseOp: no opcode branches")
	}
	var branchOf [256]int
	for b := 0; b < 256; b++ {
		for i, c := range branchConds {
			ok, err := evalOpCond(c, consts, b)
			if err != nil {
				return "", fmt.Errorf("ParseOp branch %d: %v", i+1, err)
			}
			if ok {
				branchOf[b] = i + 1
				break
			}
		}
	}
	// 5. assemble.go
	afset, af, err := parseGo(repo, "protocol/vm/assemble.go")
	if err != nil {
		return "", err
	}
	var words []string
	for _, d := range af.Decls {
		gd, ok := d.(*ast.GenDecl)
		if !ok || gd.Tok != token.VAR {
			continue
		}
		for _, s := range gd.Specs {
			vs := s.(*ast.ValueSpec)
			if len(vs.Names) == 1 && vs.Names[0].Name == "words" && len(vs.Values) == 1 {
				cl, ok := vs.Values[0].(*ast.CompositeLit)
				if !ok {
					return "", fmt.Errorf("words: shape")
				}
				for _, e := range cl.Elts {
					l, ok := e.(*ast.BasicLit)
					if !ok || l.Kind != token.STRING {
						return "", fmt.Errorf("words: element shape")
					}
					w, _ := strconv.Unquote(l.Value)
					words = append(words, w)
				}
			}
		}
	}
	if len(words) == 0 {
		return "", fmt.Errorf("words not found")
	}
	// 6. source hashes of the mirrored functions
	type hs struct{ name, hash string }
	var hashes []hs
	addHash := func(label string, fs *token.FileSet, fd *ast.FuncDecl) error {
		if fd == nil {
			return fmt.Errorf("function %s not found", label)
		}
		hashes = append(hashes, hs{label, srcHash(fs, fd)})
		return nil
	}
	if err := addHash("ParseOp", fset, po); err != nil {
		return "", err
	}
	if err := addHash("ParseProgram", fset, pp); err != nil {
		return "", err
	}
	for _, n := range []string{"Assemble", "Disassemble", "split"} {
		if err := addHash(n, afset, findFunc(af, n)); err != nil {
			return "", err
		}
	}
	pfset, pf, err := parseGo(repo, "protocol/vm/pushdata.go")
	if err != nil {
		return "", err
	}
	for _, n := range []string{"PushDataBytes", "PushDataUint64"} {
		if err := addHash(n, pfset, findFunc(pf, n)); err != nil {
			return "", err
		}
	}
	tfset, tf, err := parseGo(repo, "protocol/vm/types.go")
	if err != nil {
		return "", err
	}
	for _, n := range []string{"Uint64Bytes", "BigIntBytes", "reverse"} {
		if err := addHash(n, tfset, findFunc(tf, n)); err != nil {
			return "", err
		}
	}
	sfset, sf, err := parseGo(repo, "consensus/segwit/segwit.go")
	if err != nil {
		return "", err
	}
	for _, n := range []string{"IsP2WScript", "IsStraightforward", "IsP2WPKHScript", "IsP2WSHScript", "ConvertP2PKHSigProgram", "ConvertP2SHProgram", "GetHashFromStandardProg"} {
		if err := addHash("segwit."+n, sfset, findFunc(sf, n)); err != nil {
			return "", err
		}
	}
	bfset, bf, err := parseGo(repo, "consensus/bcrp/bcrp.go")
	if err != nil {
		return "", err
	}
	for _, n := range []string{"IsBCRPScript", "IsCallContractScript", "ParseContract", "ParseContractHash"} {
		if err := addHash("bcrp."+n, bfset, findFunc(bf, n)); err != nil {
			return "", err
		}
	}
	vfset, vf, err := parseGo(repo, "protocol/vm/vmutil/script.go")
	if err != nil {
		return "", err
	}
	for _, n := range []string{"IsUnspendable", "DefaultCoinbaseProgram", "P2WPKHProgram", "P2WSHProgram", "RetireProgram", "RegisterProgram", "CallContractProgram", "P2PKHSigProgram", "P2SHProgram", "P2SPMultiSigProgram", "P2SPMultiSigProgramWithHeight", "checkMultiSigParams"} {
		if err := addHash("vmutil."+n, vfset, findFunc(vf, n)); err != nil {
			return "", err
		}
	}
	if err := addHash("vmutil.Builder.addP2SPMultiSig", vfset, findMethod(vf, "Builder", "addP2SPMultiSig")); err != nil {
		return "", err
	}
	ufset, uf, err := parseGo(repo, "protocol/vm/vmutil/builder.go")
	if err != nil {
		return "", err
	}
	for _, n := range []string{"AddUint64", "AddData", "AddOp", "Build"} {
		if err := addHash("vmutil.Builder."+n, ufset, findMethod(uf, "Builder", n)); err != nil {
			return "", err
		}
	}
	// 7. constants of other packages
	intConst := func(rel, name string) (int, error) {
		_, cf, err := parseGo(repo, rel)
		if err != nil {
			return 0, err
		}
		for _, d := range cf.Decls {
			gd, ok := d.(*ast.GenDecl)
			if !ok || gd.Tok != token.CONST {
				continue
			}
			for _, s := range gd.Specs {
				vs := s.(*ast.ValueSpec)
				for i, n := range vs.Names {
					if n.Name == name && i < len(vs.Values) {
						if l, ok := vs.Values[i].(*ast.BasicLit); ok && l.Kind == token.INT {
							v, err := strconv.ParseInt(l.Value, 0, 32)
							return int(v), err
						}
						return 0, fmt.Errorf("%s is not an integer literal", name)
					}
				}
			}
		}
		return 0, fmt.Errorf("%s not found in %s", name, rel)
	}
	strConst := func(rel, name string) (string, error) {
		_, cf, err := parseGo(repo, rel)
		if err != nil {
			return "", err
		}
		for _, d := range cf.Decls {
			gd, ok := d.(*ast.GenDecl)
			if !ok || gd.Tok != token.CONST {
				continue
			}
			for _, s := range gd.Specs {
				vs := s.(*ast.ValueSpec)
				for i, n := range vs.Names {
					if n.Name == name && i < len(vs.Values) {
						if l, ok := vs.Values[i].(*ast.BasicLit); ok && l.Kind == token.STRING {
							return strconv.Unquote(l.Value)
						}
						return "", fmt.Errorf("%s is not a string literal", name)
					}
				}
			}
		}
		return "", fmt.Errorf("%s not found in %s", name, rel)
	}
	pkh, err := intConst("consensus/general.go", "PayToWitnessPubKeyHashDataSize")
	if err != nil {
		return "", err
	}
	psh, err := intConst("consensus/general.go", "PayToWitnessScriptHashDataSize")
	if err != nil {
		return "", err
	}
	bch, err := intConst("consensus/general.go", "BCRPContractHashDataSize")
	if err != nil {
		return "", err
	}
	bcrpTag, err := strConst("consensus/bcrp/bcrp.go", "BCRP")
	if err != nil {
		return "", err
	}
	bcrpVer, err := intConst("consensus/bcrp/bcrp.go", "Version")
	if err != nil {
		return "", err
	}

	// ---- emit
	var b strings.Builder
	b.WriteString("-- GENERATED by /verif/gen (gen/ops.go) from protocol/vm/{ops,assemble,pushdata,types}.go,\n")
	b.WriteString("-- consensus/{general.go,segwit,bcrp}, protocol/vm/vmutil — do not edit\n")
	b.WriteString("namespace BytomModel.Gen.Ops\n\n")
	sort.Strings(constNames)
	b.WriteString("/-! opcode constants (`const OP_X Op = …`) -/\n")
	for _, n := range constNames {
		fmt.Fprintf(&b, "def %s : Nat := 0x%02x\n", n, consts[n])
	}
	b.WriteString("\n/-- `ops[b].name` after `init()` (what `Op.String()` prints), as ASCII bytes -/\n")
	b.WriteString("def opNames : List (List UInt8) := [\n")
	for i := 0; i < 256; i++ {
		sep := ","
		if i == 255 {
			sep = ""
		}
		fmt.Fprintf(&b, "  %s%s -- 0x%02x %s\n", leanBytes(names[i]), sep, i, names[i])
	}
	b.WriteString("]\n\n")
	b.WriteString("/-- `opsByName` as left by `init()`: NOTE it is filled BEFORE the NOPx names are assigned -/\n")
	b.WriteString("def opsByName : List (List UInt8 × Nat) := [\n")
	var keys []string
	for k := range byName {
		keys = append(keys, k)
	}
	sort.Strings(keys)
	for i, k := range keys {
		sep := ","
		if i == len(keys)-1 {
			sep = ""
		}
		fmt.Fprintf(&b, "  (%s, 0x%02x)%s -- %q\n", leanBytes(k), byName[k], sep, k)
	}
	b.WriteString("]\n\n")
	b.WriteString("/-- `isExpansion[b]` -/\ndef isExpansion : List Bool := [")
	for i := 0; i < 256; i++ {
		if i > 0 {
			b.WriteString(", ")
		}
		fmt.Fprintf(&b, "%v", expansion[i])
	}
	b.WriteString("]\n\n")
	b.WriteString("/-- name of the Go function implementing the opcode (`ops[b].fn`), for `IsPushdata` -/\n")
	b.WriteString("def opIsPushdataFn : List Bool := [")
	for i := 0; i < 256; i++ {
		if i > 0 {
			b.WriteString(", ")
		}
		fmt.Fprintf(&b, "%v", fns[i] == fns[consts["OP_1"]] || fns[i] == fns[consts["OP_0"]])
	}
	b.WriteString("]\n\n")
	fmt.Fprintf(&b, "/-- for every byte: 1-based index of the first `if <cond over opcode>` of ParseOp that\n    matches (0 = none, the plain one-byte instruction); %d branches:\n", len(branchConds))
	for i, c := range branchConds {
		fmt.Fprintf(&b, "      %d: %s\n", i+1, printNode(fset, c))
	}
	b.WriteString("-/\ndef parseBranch : List Nat := [")
	for i := 0; i < 256; i++ {
		if i > 0 {
			b.WriteString(", ")
		}
		fmt.Fprintf(&b, "%d", branchOf[i])
	}
	b.WriteString("]\n\n")
	fmt.Fprintf(&b, "def parseBranchCount : Nat := %d\n\n", len(branchConds))
	b.WriteString("/-- label words of Disassemble -/\ndef words : List (List UInt8) := [\n")
	for i, w := range words {
		sep := ","
		if i == len(words)-1 {
			sep = ""
		}
		fmt.Fprintf(&b, "  %s%s -- %s\n", leanBytes(w), sep, w)
	}
	b.WriteString("]\n\n")
	fmt.Fprintf(&b, "def PayToWitnessPubKeyHashDataSize : Nat := %d\n", pkh)
	fmt.Fprintf(&b, "def PayToWitnessScriptHashDataSize : Nat := %d\n", psh)
	fmt.Fprintf(&b, "def BCRPContractHashDataSize : Nat := %d\n", bch)
	fmt.Fprintf(&b, "def bcrpTag : List UInt8 := %s -- %q\n", leanBytes(bcrpTag), bcrpTag)
	fmt.Fprintf(&b, "def bcrpVersion : Nat := %d\n\n", bcrpVer)
	b.WriteString("/-- SHA-256 (as a number) of the go/printer-normalised source of each function the\n    hand-written model mirrors statement by statement -/\n")
	b.WriteString("def srcHashes : List (Nat × Nat) := [\n")
	for i, h := range hashes {
		sep := ","
		if i == len(hashes)-1 {
			sep = ""
		}
		fmt.Fprintf(&b, "  (%d, 0x%s)%s -- %s\n", i, h.hash, sep, h.name)
	}
	b.WriteString("]\n\nend BytomModel.Gen.Ops\n")
	return b.String(), nil
}

func init() { register("Ops", genOps) }
