// Command verifgen regenerates lean/BytomModel/Gen/*.lean from the working tree
// of the repository under verification.  Every generator is deliberately tiny and
// fails loudly on source shapes it does not understand.
package main

import (
	"bytes"
	"flag"
	"fmt"
	"io/ioutil"
	"os"
	"path/filepath"
	"sort"
)

type generator func(repo string) (string, error)

var generators = map[string]generator{}

func register(name string, g generator) { generators[name] = g }

func main() {
	repo := flag.String("repo", "/repo", "repository root")
	out := flag.String("out", "", "output directory (lean/BytomModel/Gen)")
	only := flag.String("only", "", "generate only this file (without .lean)")
	flag.Parse()
	if *out == "" {
		fmt.Fprintln(os.Stderr, "need -out")
		os.Exit(2)
	}
	if err := os.MkdirAll(*out, 0o755); err != nil {
		panic(err)
	}
	names := []string{}
	for n := range generators {
		names = append(names, n)
	}
	sort.Strings(names)
	failed := 0
	for _, n := range names {
		if *only != "" && *only != n {
			continue
		}
		path := filepath.Join(*out, n+".lean")
		src, err := generators[n](*repo)
		if err != nil {
			// A generator that cannot understand the source leaves NO file behind, so
			// every Lean module importing it fails to build: a broken tie, not silence.
			fmt.Fprintf(os.Stderr, "GEN-FAIL %s: %v\n", n, err)
			os.Remove(path)
			failed++
			continue
		}
		old, _ := ioutil.ReadFile(path)
		if !bytes.Equal(old, []byte(src)) {
			if err := ioutil.WriteFile(path, []byte(src), 0o644); err != nil {
				panic(err)
			}
			fmt.Printf("GEN-WROTE %s\n", n)
		} else {
			fmt.Printf("GEN-SAME %s\n", n)
		}
	}
	if failed > 0 {
		os.Exit(1)
	}
}
